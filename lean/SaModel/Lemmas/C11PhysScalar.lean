import SaModel.Lemmas.C11PhysBasic
import SaModel.Lemmas.Utf8
/-
C11, physical equality: the scalar calls.  What a leaf / string / binary / view / fixed-size binary / dictionary builder
stores for a scalar call is a function of the documented value `Spec.interpScalar` of the call.
-/
namespace SaModel.Build
open SaModel SaModel.Spec

theorem LVals.length_ofList (l : List LVal) : LVals.length (LVals.ofList l) = l.length := by
  induction l with
  | nil => rfl
  | cons v r ih => simp [LVals.ofList, LVals.length, ih]

/-- `strBytes` is injective (a string is its UTF-8 bytes) -/
theorem strBytes_inj {s t : String} (h : strBytes s = strBytes t) : s = t := by
  unfold strBytes at h
  rw [SaModel.Lemmas.Utf8.toList_eq, SaModel.Lemmas.Utf8.toList_eq] at h
  have h1 : s.toUTF8.data = t.toUTF8.data := Array.toList_inj.1 h
  have h2 : s.toUTF8 = t.toUTF8 := ByteArray.ext h1
  simp only [String.toUTF8_eq_toByteArray] at h2
  exact String.toByteArray_inj.1 h2

/-- a left inverse of `strBytes` exists -/
theorem exists_unstr : ∃ un : Bytes → String, ∀ s, un (strBytes s) = s := by
  classical
  refine ⟨fun bs => if h : ∃ s, strBytes s = bs then h.choose else "", fun s => ?_⟩
  have hex : ∃ s', strBytes s' = strBytes s := ⟨s, rfl⟩
  simp only [dif_pos hex]
  exact strBytes_inj hex.choose_spec

theorem lastOff_of_getLast? {offs : List Int} {l : Int} (h : offs.getLast? = some l) : lastOff offs = l := by
  simp [lastOff, h]

/-- what a leaf builder does for a scalar call -/
theorem pushScalar_leaf_step {ext : Ext} {p : String} {k : LeafKind} {v : Validity} {vals : List Int} {x : SVal} {b' : B}
    (h : pushScalar ext (.leaf p k v vals) x = .ok b') :
    ∃ val, convLeaf ext k x = .ok val ∧ b' = .leaf p k (setV v vals.length true) (vals ++ [val]) := by
  simp only [pushScalar] at h
  obtain ⟨val, h1, h2⟩ := (bind_ok _ _ _).1 h
  obtain ⟨v', h3, h4⟩ := (bind_ok _ _ _).1 h2
  cases h4
  exact ⟨val, h1, by rw [setValidity_setV h3]⟩

/-- what a string / binary builder does for a scalar call -/
theorem pushScalar_bytes_step {ext : Ext} {p : String} {ty : BytesTy} {v : Validity} {offs : List Int} {data : Bytes}
    {x : SVal} {b' : B} (h : pushScalar ext (.bytes p ty v offs data) x = .ok b') :
    ∃ bs, ((isUtf8Ty ty = true → ∃ s, scalarToString ext x = some s ∧ bs = strBytes s) ∧
        (isUtf8Ty ty = false → x = .bytes bs)) ∧
      b' = .bytes p ty (setV v (offs.length - 1) true) (offs ++ [lastOff offs + (bs.length : Int)]) (data ++ bs) := by
  simp only [pushScalar] at h
  obtain ⟨bs, h1, h2⟩ := (bind_ok _ _ _).1 h
  obtain ⟨v', h3, h4⟩ := (bind_ok _ _ _).1 h2
  obtain ⟨o1, h5, h6⟩ := (bind_ok _ _ _).1 h4
  obtain ⟨o2, h7, h8⟩ := (bind_ok _ _ _).1 h6
  cases h8
  obtain ⟨l, hl, rfl⟩ := duplicateLast_ok h5
  have := incrementLast_snoc h7
  subst this
  refine ⟨bs, ?_, by rw [setValidity_setV h3, lastOff_of_getLast? hl]⟩
  split at h1
  · rename_i hty
    refine ⟨fun _ => ?_, fun hf => by rw [hty] at hf; cases hf⟩
    split at h1
    · rename_i s hs; cases h1; exact ⟨s, hs, rfl⟩
    · simp [notSupported, fail] at h1
  · rename_i hty
    refine ⟨fun ht => absurd ht hty, fun _ => ?_⟩
    split at h1
    · cases h1; rfl
    · simp [notSupported, fail] at h1

theorem encLeaf_leafVal {ext : Ext} {k : LeafKind} {x : SVal} {val : Int} (h : convLeaf ext k x = .ok val) :
    encLeaf (leafVal k val) = val := by
  cases k
  case bool =>
    cases x <;> simp [convLeaf, notSupported, fail] at h
    subst h
    rename_i c
    cases c <;> simp [leafVal, encLeaf, boolInt]
  all_goals simp [leafVal, encLeaf]

theorem pushL_leafVal (un : Bytes → String) (k : LeafKind) (val : Int) (b : B) :
    pushL un (leafVal k val) b = scalarL un b (leafVal k val) := by
  cases k <;> simp only [leafVal, pushL]

theorem isIntLeaf_form {b : B} (h : b.isIntLeaf = true) : ∃ p t v vals, b = .leaf p (.int t) v vals := by
  cases b
  case leaf p k v vals =>
    cases k
    case int t => exact ⟨p, t, v, vals, rfl⟩
    all_goals simp [B.isIntLeaf] at h
  all_goals simp [B.isIntLeaf] at h

theorem isUtf8B_form {b : B} (h : b.isUtf8B = true) :
    ∃ p ty v offs data, b = .bytes p ty v offs data ∧ isUtf8Ty ty = true := by
  cases b
  case bytes p ty v offs data => exact ⟨p, ty, v, offs, data, rfl, by simpa [B.isUtf8B] using h⟩
  all_goals simp [B.isUtf8B] at h

theorem pushScalar_phys (ext : Ext) (un : Bytes → String) (hun : ∀ s, un (strBytes s) = s) :
    ∀ (b : B) (x : SVal) (b' : B) (dt : DataType) (n : Bool) (md : Metadata) (lv : LVal),
      Shape b dt n md → pushScalar ext b x = .ok b' → interpScalar ext dt x = .ok lv →
      pushL un lv (erase b) = erase b' := by
  intro b x b' dt n md lv hs h hi
  cases b with
  | null p len =>
    simp only [Shape] at hs
    obtain ⟨rfl, _⟩ := hs
    unfold pushScalar at h
    split at h
    · cases h
      simp only [interpScalar_eq_old, normErr_ok_iff, interpScalarOld] at hi
      cases hi
      simp [pushL, noneL, erase, pushNone]
    · simp [notSupported, fail] at h
  | unknownVariant p => simp [pushScalar, fail] at h
  | leaf p k v vals =>
    simp only [Shape] at hs
    obtain ⟨val, h1, rfl⟩ := pushScalar_leaf_step h
    rw [interpScalar_kind hs.1, h1] at hi
    cases hi
    rw [pushL_leafVal]
    simp only [erase, scalarL, encLeaf_leafVal h1]
  | bytes p ty v offs data =>
    simp only [Shape] at hs
    obtain ⟨rfl, _⟩ := hs
    obtain ⟨bs, h1, rfl⟩ := pushScalar_bytes_step h
    obtain ⟨h1, h1'⟩ := h1
    cases ty
    · obtain ⟨s, hs, rfl⟩ := h1 rfl
      simp [bytesDT, interpScalar_eq_old, normErr_ok_iff, interpScalarOld, hs] at hi
      subst hi
      simp [pushL, erase, scalarL, bytesOfL]
    · obtain ⟨s, hs, rfl⟩ := h1 rfl
      simp [bytesDT, interpScalar_eq_old, normErr_ok_iff, interpScalarOld, hs] at hi
      subst hi
      simp [pushL, erase, scalarL, bytesOfL]
    · have := h1' rfl
      subst this
      simp [bytesDT, interpScalar_eq_old, normErr_ok_iff, interpScalarOld] at hi
      subst hi
      simp [pushL, erase, scalarL, bytesOfL]
    · have := h1' rfl
      subst this
      simp [bytesDT, interpScalar_eq_old, normErr_ok_iff, interpScalarOld] at hi
      subst hi
      simp [pushL, erase, scalarL, bytesOfL]
  | bytesView p ty v views buf =>
    simp only [Shape] at hs
    obtain ⟨rfl, _⟩ := hs
    simp only [pushScalar] at h
    obtain ⟨bs, hval, h2⟩ := (bind_ok _ _ _).1 h
    obtain ⟨⟨views', buf'⟩, hp, h2⟩ := (bind_ok _ _ _).1 h2
    obtain ⟨v', h3, h4⟩ := (bind_ok _ _ _).1 h2
    cases h4
    rw [setValidity_setV h3]
    have hlv : bytesOfL lv = bs ∧ pushL un lv (.bytesView p ty v views buf) = scalarL un (.bytesView p ty v views buf) lv := by
      cases ty
      · have e : (ViewTy.utf8View == ViewTy.utf8View) = true := by decide
        rw [if_pos e] at hval
        split at hval
        · rename_i s heq
          cases hval
          simp [viewDT, interpScalar_eq_old, normErr_ok_iff, interpScalarOld, heq] at hi
          subst hi
          simp [bytesOfL, pushL]
        · simp [notSupported, fail] at hval
      · have e : (ViewTy.binaryView == ViewTy.utf8View) = false := by decide
        rw [if_neg (by rw [e]; decide)] at hval
        split at hval
        · cases hval
          simp [viewDT, interpScalar_eq_old, normErr_ok_iff, interpScalarOld] at hi
          subst hi
          simp [bytesOfL, pushL]
        · simp [notSupported, fail] at hval
    obtain ⟨hb, hpl⟩ := hlv
    simp only [erase]
    rw [hpl]
    simp only [scalarL, hb]
    unfold viewPushValue at hp
    split at hp
    · rename_i hle
      cases hp
      simp [hle]
    · rename_i hle
      split at hp
      · simp [fail] at hp
      · cases hp
        simp [hle]
  | fixedSizeBinary p n len v buf cur =>
    simp only [Shape] at hs
    obtain ⟨rfl, _⟩ := hs
    unfold pushScalar at h
    split at h
    · rename_i bs
      split at h
      · simp [fail] at h
      · rename_i hlen
        obtain ⟨v', h3, h4⟩ := (bind_ok _ _ _).1 h
        cases h4
        rw [setValidity_setV h3]
        have hl : bs.length = n := by simpa using hlen
        simp [interpScalar_eq_old, normErr_ok_iff, interpScalarOld, hl] at hi
        subst hi
        simp [pushL, erase, scalarL, bytesOfL]
    · simp [notSupported, fail] at h
  | dictionary p idx vals index =>
    simp only [Shape] at hs
    obtain ⟨⟨kdt, vdt, rfl, hsv⟩, hidx, _, hvals⟩ := hs
    obtain ⟨ip, t, iv, ivals, rfl⟩ := isIntLeaf_form hidx
    have hvals := dict_interp_utf8 hsv hvals hi
    rw [interpScalar_dict_utf8 hsv hvals] at hi
    obtain ⟨vp, vty, vv, voffs, vdata, rfl, hvals⟩ := isUtf8B_form hvals
    unfold pushScalar at h
    simp only at h
    split at h
    · rename_i s hs
      simp [hs] at hi
      subst hi
      simp only [pushL, erase, scalarL, bytesOfL, hun]
      split at h
      · rename_i i hix
        obtain ⟨idx', h1, h2⟩ := (bind_ok _ _ _).1 h
        cases h2
        rw [ctx_eq_ok] at h1
        obtain ⟨val, hc, rfl⟩ := pushScalar_leaf_step h1
        have : val = (i : Int) := by
          simp only [convLeaf, tryInto] at hc
          split at hc
          · cases hc; rfl
          · simp [fail] at hc
        subst this
        simp [hix, erase, encLeaf]
      · rename_i hix
        obtain ⟨vals', h1, h2⟩ := (bind_ok _ _ _).1 h
        obtain ⟨idx', h3, h4⟩ := (bind_ok _ _ _).1 h2
        cases h4
        rw [ctx_eq_ok] at h1 h3
        obtain ⟨val, hc, rfl⟩ := pushScalar_leaf_step h3
        have : val = (index.length : Int) := by
          simp only [convLeaf, tryInto] at hc
          split at hc
          · cases hc; rfl
          · simp [fail] at hc
        subst this
        obtain ⟨bs, hb, rfl⟩ := pushScalar_bytes_step h1
        obtain ⟨s', hs', rfl⟩ := hb.1 hvals
        simp only [scalarToString] at hs'
        cases hs'
        simp [hix, erase, encLeaf]
    · simp [notSupported, fail] at h
  | list _ _ _ _ _ _ => simp [pushScalar, notSupported, fail] at h
  | fixedSizeList _ _ _ _ _ _ _ => simp [pushScalar, notSupported, fail] at h
  | map _ _ _ _ _ _ => simp [pushScalar, notSupported, fail] at h
  | struct _ _ _ _ _ _ _ => simp [pushScalar, notSupported, fail] at h
  | union _ _ _ _ _ => simp [pushScalar, notSupported, fail] at h

theorem pushByteElems_phys (ext : Ext) (un : Bytes → String) (hun : ∀ s, un (strBytes s) = s) (large : Bool) :
    ∀ (bs : Bytes) (el : B) (offs : List Int) (r : B × List Int) (cdt : DataType) (cn : Bool) (cmd : Metadata)
      (ls : List LVal), Shape el cdt cn cmd → pushByteElems ext large el offs bs = .ok r →
      bs.mapM (fun x => interpScalar ext cdt (.int .u8 x.toNat)) = .ok ls →
      pushLs un (LVals.ofList ls) (erase el) = erase r.1 ∧ ls.length = bs.length ∧
        ∀ base l, offs = base ++ [l] → r.2 = base ++ [l + (bs.length : Int)] := by
  intro bs
  induction bs with
  | nil =>
    intro el offs r cdt cn cmd ls _ h hm
    simp [pushByteElems] at h
    subst h
    simp [pure, Except.pure] at hm
    subst hm
    refine ⟨by simp [LVals.ofList, pushLs], rfl, ?_⟩
    intro base l hb
    simp [hb]
  | cons x rest ih =>
    intro el offs r cdt cn cmd ls hs h hm
    simp only [pushByteElems] at h
    obtain ⟨o', h1, h⟩ := (bind_ok _ _ _).1 h
    obtain ⟨el', h2, h⟩ := (bind_ok _ _ _).1 h
    rw [ctx_ok] at h2
    obtain ⟨base0, l0, rfl⟩ := incrementLast_form h1
    have := incrementLast_snoc h1
    subst this
    rw [List.mapM_cons] at hm
    obtain ⟨lv, hi, hm⟩ := (bind_ok _ _ _).1 hm
    obtain ⟨ls', hm', hm⟩ := (bind_ok _ _ _).1 hm
    cases hm
    have hp := pushScalar_phys ext un hun el _ el' cdt cn cmd lv hs h2 hi
    have hs' := Shape.of_takeRest (pushScalar_takeRest ext el _ el' h2) hs
    obtain ⟨ih1, ih2, ih3⟩ := ih el' _ r cdt cn cmd ls' hs' h hm'
    refine ⟨?_, by simp [ih2], ?_⟩
    · simp only [LVals.ofList, pushLs, hp, ih1]
    · intro base l hb
      obtain ⟨rfl, hl⟩ := List.append_inj' hb rfl
      cases hl
      rw [ih3 base0 (l0 + 1) rfl]
      simp only [List.length_cons]
      congr 2
      omega

end SaModel.Build
