import SaModel.Lemmas.C11PhysScalar
import SaModel.Lemmas.C01ObsRows
import SaModel.Lemmas.C01ObsPush
/-
C11, physical equality: the non-recursive combinators around sequences (list, fixed-size list, binary, binary view,
fixed-size binary builders) and union rows, with the recursive parts as hypotheses.
-/
namespace SaModel.Build
open SaModel SaModel.Spec

/-- what the induction hypothesis for `pushElems` provides -/
def ElemsPhys (ext : Ext) (un : Bytes → String) (xs : SVals) (pe : Bool → B → List Int → R (B × List Int)) : Prop :=
  ∀ large el offs r cdt cn cmd ls, WFH el → NoDictKey el → Shape el cdt cn cmd → pe large el offs = .ok r →
    interpAll ext cdt cn cmd xs = .ok ls →
    pushLs un (LVals.ofList ls) (erase el) = erase r.1 ∧ ∀ base l, offs = base ++ [l] → r.2 = base ++ [l + (ls.length : Int)]

/-- what the induction hypothesis for `pushCountElems` provides -/
def CountPhys (ext : Ext) (un : Bytes → String) (xs : SVals) (pc : B → Nat → R (B × Nat)) : Prop :=
  ∀ el c r cdt cn cmd ls, WFH el → NoDictKey el → Shape el cdt cn cmd → pc el c = .ok r →
    interpAll ext cdt cn cmd xs = .ok ls →
    pushLs un (LVals.ofList ls) (erase el) = erase r.1 ∧ r.2 = c + ls.length

/-- a sequence-like value into every builder family except the struct builder (positional records: `record_phys`) -/
theorem seqLike_phys {ext : Ext} {un : Bytes → String} {xs : SVals} {pe : Bool → B → List Int → R (B × List Int)}
    {pc : B → Nat → R (B × Nat)} {pt : SS → R SS}
    (hpe : ElemsPhys ext un xs pe) (hpc : CountPhys ext un xs pc)
    (b : B) (k : SeqKind) (b' : B) (dt : DataType) (n : Bool) (md : Metadata) (lv : LVal)
    (hwf : WFH b) (hsafe : NoDictKey b) (hshape : Shape b dt n md)
    (hns : ∀ p len v fs c nx sn, b ≠ .struct p len v fs c nx sn)
    (h : seqLikeWith pe pc pt (u8All xs) b k = .ok b') (hi : seqSpec ext (k != .seq) dt md xs = .ok lv) :
    pushL un lv (erase b) = erase b' := by
  cases b with
  | list p large fm v offs el =>
    simp only [seqLikeWith] at h
    obtain ⟨v', h1, h⟩ := (bind_ok _ _ _).1 h
    obtain ⟨o1, h2, h⟩ := (bind_ok _ _ _).1 h
    obtain ⟨⟨el', o2⟩, h3, h⟩ := (bind_ok _ _ _).1 h
    cases h
    simp only [WFH] at hwf
    simp only [NoDictKey] at hsafe
    have hv := setValidity_setV h1
    subst hv
    obtain ⟨l, hl, rfl⟩ := duplicateLast_ok h2
    simp only [Shape] at hshape
    obtain ⟨_, cname, cdt, cn, cmd, rfl, hsel⟩ := hshape
    have hi' : ∃ ls, interpAll ext cdt cn cmd xs = .ok ls ∧ lv = .list (LVals.ofList ls) := by
      cases large <;> simp only [seqSpec, isUnknownVariant, Bool.false_eq_true, if_false, if_true] at hi <;>
        (obtain ⟨ls, hls, hi⟩ := (bind_ok _ _ _).1 hi; cases hi; exact ⟨ls, hls, rfl⟩)
    obtain ⟨ls, hls, rfl⟩ := hi'
    obtain ⟨he, ho⟩ := hpe _ _ _ _ _ _ _ _ hwf.2.2 hsafe hsel h3 hls
    simp only at he ho
    have ho' := ho _ _ rfl
    subst ho'
    simp only [pushL, erase, he, lastOff, hl, Option.getD_some, LVals.length_ofList]
  | fixedSizeList p fm kk len v cur el =>
    simp only [seqLikeWith] at h
    obtain ⟨v', h1, h⟩ := (bind_ok _ _ _).1 h
    obtain ⟨⟨el', cnt⟩, h3, h⟩ := (bind_ok _ _ _).1 h
    simp only at h
    split at h
    · simp [fail] at h
    · rename_i hcnt
      cases h
      simp only [WFH] at hwf
      simp only [NoDictKey] at hsafe
      have hv := setValidity_setV h1
      subst hv
      simp only [Shape] at hshape
      obtain ⟨_, cname, cdt, cn, cmd, rfl, hsel⟩ := hshape
      simp only [seqSpec, isUnknownVariant, Bool.false_eq_true, if_false] at hi
      obtain ⟨ls, hls, hi⟩ := (bind_ok _ _ _).1 hi
      split at hi
      · cases hi
        obtain ⟨he, hc⟩ := hpc _ _ _ _ _ _ _ hwf.2.2 hsafe hsel h3 hls
        simp only at he hc
        have hn : cnt = kk := by simpa using hcnt
        subst hn
        simp only [pushL, erase, he]
      · simp [fail] at hi
  | bytes p ty v offs data =>
    simp only [seqLikeWith] at h
    split at h
    · rename_i hbin
      obtain ⟨v', h1, h⟩ := (bind_ok _ _ _).1 h
      obtain ⟨o1, h2, h⟩ := (bind_ok _ _ _).1 h
      obtain ⟨bs, hbs, h⟩ := (bind_ok _ _ _).1 h
      obtain ⟨o2, h4, h⟩ := (bind_ok _ _ _).1 h
      cases h
      have hv := setValidity_setV h1
      subst hv
      obtain ⟨l, hl, rfl⟩ := duplicateLast_ok h2
      have := iter_incrementLast _ h4
      subst this
      simp only [Shape] at hshape
      obtain ⟨rfl, _⟩ := hshape
      have hlv : lv = .bin bs := by
        cases ty <;> simp [isBinaryTy] at hbin <;>
          (simp only [seqSpec, isUnknownVariant, bytesDT, Bool.false_eq_true, if_false, (specBytes_ok_iff _ _).2 hbs] at hi; cases hi; rfl)
      subst hlv
      simp only [pushL, erase, scalarL, bytesOfL, lastOff, hl, Option.getD_some]
    · simp [notSupported, fail] at h
  | bytesView p ty v views buf =>
    simp only [seqLikeWith] at h
    split at h
    · rename_i hbin
      obtain ⟨v', h1, h⟩ := (bind_ok _ _ _).1 h
      obtain ⟨bs, hbs, h⟩ := (bind_ok _ _ _).1 h
      obtain ⟨⟨vw, bf⟩, hp, h⟩ := (bind_ok _ _ _).1 h
      cases h
      have hv := setValidity_setV h1
      subst hv
      simp only [Shape] at hshape
      obtain ⟨rfl, _⟩ := hshape
      have hlv : lv = .bin bs := by
        cases ty
        · exact absurd hbin (by decide)
        · simp only [seqSpec, isUnknownVariant, viewDT, Bool.false_eq_true, if_false, (specBytes_ok_iff _ _).2 hbs] at hi; cases hi; rfl
      subst hlv
      obtain ⟨d, extra, hr, _, _, hc⟩ := viewSeq_ok hp
      cases hr
      have e : bytesOfL (.bin bs) = bs := rfl
      simp only [pushL, erase, scalarL]
      rw [e]
      rcases hc with ⟨hd, hx, hle⟩ | ⟨hd, hx, hgt, _⟩
      · subst hd hx
        rw [if_pos hle, List.append_nil]
      · subst hd hx
        rw [if_neg (by omega)]
    · simp [notSupported, fail] at h
  | fixedSizeBinary p kk len v buf cur =>
    simp only [seqLikeWith] at h
    obtain ⟨v', h1, h⟩ := (bind_ok _ _ _).1 h
    obtain ⟨bs, hbs, h⟩ := (bind_ok _ _ _).1 h
    split at h
    · simp [fail] at h
    · cases h
      have hv := setValidity_setV h1
      subst hv
      simp only [Shape] at hshape
      obtain ⟨rfl, _⟩ := hshape
      simp only [seqSpec, isUnknownVariant, Bool.false_eq_true, if_false, (specBytes_ok_iff _ _).2 hbs] at hi
      have hlv : lv = .bin bs := by
        simp only [bind, Except.bind] at hi
        split at hi
        · cases hi; rfl
        · simp [fail] at hi
      subst hlv
      simp only [pushL, erase, scalarL, bytesOfL]
  | struct p len v fs cached next seen => exact absurd rfl (hns _ _ _ _ _ _ _)
  | unknownVariant p => simp [seqLikeWith, fail] at h
  | null p len => simp [seqLikeWith, notSupported, fail] at h
  | leaf p kind v vals => simp [seqLikeWith, notSupported, fail] at h
  | map p mm v offs ks vs => simp [seqLikeWith, notSupported, fail] at h
  | dictionary p idx vals index => simp [seqLikeWith, notSupported, fail] at h
  | union p fs types offs cur => simp [seqLikeWith, notSupported, fail] at h

/-- one row of a union: bookkeeping + the variant's child -/
theorem union_row_phys {un : Bytes → String} {p fs types offs cur} {i : Nat} {pc : B → R B} {b' : B} {tid : Int} {lvc : LVal}
    (htid : tid = (i : Int))
    (h : (do
      let (c, types', offs', cur') ← serializeVariant fs types offs cur i
      let c' ← pc c
      pure (.union p (fs.set i c') types' offs' cur') : R B) = .ok b')
    (hpc : ∀ c m c', fs.get? i = some (c, m) → pc c = .ok c' → pushL un lvc (erase c) = erase c') :
    pushL un (.union tid lvc) (erase (.union p fs types offs cur)) = erase b' := by
  obtain ⟨⟨c, t', o', cur'⟩, h1, h⟩ := (bind_ok _ _ _).1 h
  obtain ⟨c', h2, h⟩ := (bind_ok _ _ _).1 h
  cases h
  obtain ⟨m, co, hget, hco, _, ht, ho, hcur⟩ := serializeVariant_ok h1
  simp only at hget hco ht ho hcur
  subst ht ho hcur htid
  have hge : (eraseL fs).get? i = some (erase c, m) := by rw [BL.get?_eraseL, hget]; rfl
  have hcd : cur.getD i 0 = co := by rw [List.getD_eq_getElem?_getD, hco]; rfl
  have hc := hpc c m c' hget h2
  simp only [pushL, erase, Int.toNat_natCast, hge, hcd, hc, BL.set_eraseL]

end SaModel.Build
