import SaModel.Lemmas.C11PhysSeq
/-
C11, physical equality: records.  Whatever the discipline (struct fields through the name cache, map entries through
the name index, tuple elements by position) and whatever the order, the children of a struct builder end a record in a
state that depends on the documented struct value only:

  child j  :=  pushL lv_j (child j)      lv_j = the single value found for field j, `null` when none was given

`ChildRel un s s' j found`: across a field loop from `s` to `s'`, child `j` has received exactly the values `found`
(at most one: a second one is refused as `Duplicate field`).  `record_phys` assembles a whole record (`start`, loop,
`end`) from a per-child description of the loop.
-/
namespace SaModel.Build
open SaModel SaModel.Spec

/-- child `j` across a field loop: `found` are the documented values of the entries addressed to it -/
def ChildRel (un : Bytes → String) (s s' : SS) (j : Nat) (found : List LVal) : Prop :=
  ∀ c m, s.fields.get? j = some (c, m) → ∃ c', s'.fields.get? j = some (c', m) ∧
    match found with
    | [] => erase c' = erase c ∧ s'.seen[j]? = s.seen[j]?
    | [lv] => erase c' = pushL un lv (erase c) ∧ s.seen[j]? = some false ∧ s'.seen[j]? = some true
    | _ => False

theorem ChildRel.refl (un : Bytes → String) (s : SS) (j : Nat) : ChildRel un s s j [] :=
  fun c _ h => ⟨c, h, rfl, rfl⟩

/-- `next` and the name cache do not matter -/
theorem ChildRel.of_eq {un : Bytes → String} {s1 s2 s' : SS} {j : Nat} {found : List LVal}
    (hf : s2.fields = s1.fields) (hs : s2.seen = s1.seen) (h : ChildRel un s1 s' j found) : ChildRel un s2 s' j found := by
  intro c m hg
  rw [hf] at hg
  obtain ⟨c', hg', hm⟩ := h c m hg
  refine ⟨c', hg', ?_⟩
  rw [hs]; exact hm

theorem SS.element_parts {s s' : SS} {idx : Nat} {pc : B → R B} (h : s.element idx pc = .ok s') :
    ∃ c m c', s.fields.get? idx = some (c, m) ∧ s.seen[idx]? = some false ∧ pc c = .ok c' ∧
      s'.fields = s.fields.set idx c' ∧ s'.seen = s.seen.set idx true := by
  unfold SS.element at h
  split at h
  · simp [panic] at h
  · simp [ctx_ok, fail] at h
  · rename_i hseen
    split at h
    · simp [panic] at h
    · rename_i c m hget
      obtain ⟨c', h1, h2⟩ := (bind_ok _ _ _).1 h
      cases h2
      exact ⟨c, m, c', hget, hseen, h1, rfl, rfl⟩

/-- a field call on another child -/
theorem ChildRel.step_ne {un : Bytes → String} {s s1 s' : SS} {idx j : Nat} {c' : B} {found : List LVal} (hne : idx ≠ j)
    (hf : s1.fields = s.fields.set idx c') (hs : s1.seen = s.seen.set idx true)
    (h : ChildRel un s1 s' j found) : ChildRel un s s' j found := by
  intro c m hg
  have hg1 : s1.fields.get? j = some (c, m) := by rw [hf, BL.get?_set_ne _ _ _ _ hne]; exact hg
  obtain ⟨c2, hg2, hm⟩ := h c m hg1
  refine ⟨c2, hg2, ?_⟩
  have hseen : s1.seen[j]? = s.seen[j]? := by rw [hs, List.getElem?_set_ne hne]
  rw [hseen] at hm
  exact hm

/-- the field call on this child: it is the only one -/
theorem ChildRel.step_eq {un : Bytes → String} {s s1 s' : SS} {idx : Nat} {c c' : B} {m : FieldMeta} {lv : LVal}
    {found : List LVal} (hget : s.fields.get? idx = some (c, m)) (hseen : s.seen[idx]? = some false)
    (hf : s1.fields = s.fields.set idx c') (hs : s1.seen = s.seen.set idx true)
    (hc : pushL un lv (erase c) = erase c')
    (h : ChildRel un s1 s' idx found) : ChildRel un s s' idx (lv :: found) := by
  intro c0 m0 hg
  rw [hget] at hg; cases hg
  have hg1 : s1.fields.get? idx = some (c', m) := by rw [hf]; exact BL.get?_set_eq _ _ _ _ hget
  obtain ⟨c2, hg2, hm⟩ := h c' m hg1
  refine ⟨c2, hg2, ?_⟩
  have hlt : idx < s.seen.length := by
    rcases Nat.lt_or_ge idx s.seen.length with h | h
    · exact h
    · rw [List.getElem?_eq_none_iff.mpr h] at hseen; cases hseen
  have hs1 : s1.seen[idx]? = some true := by rw [hs, List.getElem?_set_self hlt]
  match found, hm with
  | [], hm => exact ⟨by rw [hm.1, hc], hseen, by rw [hm.2, hs1]⟩
  | [_], hm => rw [hs1] at hm; exact absurd hm.2.1 (by simp)

/-! ### `end` -/

theorem endFields_phys : ∀ (fs : BL) (seen : List Bool) (fs' : BL), endFields fs seen = .ok fs' →
    fs'.length = fs.length ∧ ∀ j c m, fs.get? j = some (c, m) → ∃ c', fs'.get? j = some (c', m) ∧
      ((seen[j]? = some true ∧ c' = c) ∨ (seen[j]? = some false ∧ m.nullable = true ∧ pushNone c = .ok c'))
  | .nil, _, fs', h => by
    simp [endFields] at h; subst h
    exact ⟨rfl, by intro j c m hg; simp [BL.get?] at hg⟩
  | .cons b m rest, [], fs', h => by simp [endFields, panic] at h
  | .cons b m rest, s :: sr, fs', h => by
    simp only [endFields] at h
    split at h
    · rename_i hs
      obtain ⟨r', h1, h2⟩ := (bind_ok _ _ _).1 h
      cases h2
      obtain ⟨hl, ih⟩ := endFields_phys rest sr r' h1
      refine ⟨by simp [BL.length, hl], ?_⟩
      intro j c0 m0 hg
      cases j with
      | zero =>
        simp only [BL.get?, Option.some.injEq, Prod.mk.injEq] at hg
        obtain ⟨rfl, rfl⟩ := hg
        exact ⟨b, rfl, Or.inl ⟨by simp [hs], rfl⟩⟩
      | succ j => simpa [BL.get?] using ih j c0 m0 (by simpa [BL.get?] using hg)
    · rename_i hs
      split at h
      · simp [fail] at h
      · rename_i hnull
        obtain ⟨b', h0, h'⟩ := (bind_ok _ _ _).1 h
        obtain ⟨r', h1, h2⟩ := (bind_ok _ _ _).1 h'
        cases h2
        obtain ⟨hl, ih⟩ := endFields_phys rest sr r' h1
        refine ⟨by simp [BL.length, hl], ?_⟩
        intro j c0 m0 hg
        cases j with
        | zero =>
          simp only [BL.get?, Option.some.injEq, Prod.mk.injEq] at hg
          obtain ⟨rfl, rfl⟩ := hg
          exact ⟨b', rfl, Or.inr ⟨by simpa using hs, by simpa using hnull, h0⟩⟩
        | succ j => simpa [BL.get?] using ih j c0 m0 (by simpa [BL.get?] using hg)

/-! ### builder lists -/

theorem BL.ext_get : ∀ (fs1 fs2 : BL), fs1.length = fs2.length →
    (∀ j x, fs1.get? j = some x → fs2.get? j = some x) → fs1 = fs2
  | .nil, .nil, _, _ => rfl
  | .nil, .cons _ _ _, h, _ => by simp [BL.length] at h
  | .cons _ _ _, .nil, h, _ => by simp [BL.length] at h
  | .cons b1 m1 r1, .cons b2 m2 r2, hl, h => by
    have h0 := h 0 (b1, m1) rfl
    simp only [BL.get?, Option.some.injEq, Prod.mk.injEq] at h0
    obtain ⟨rfl, rfl⟩ := h0
    rw [BL.ext_get r1 r2 (by simpa [BL.length] using hl) (fun j x hx => by simpa [BL.get?] using h (j + 1) x (by simpa [BL.get?] using hx))]

theorem pushLF_length (un : Bytes → String) : ∀ (lfs : LFields) (fs : BL), (pushLF un lfs fs).length = fs.length
  | .nil, fs => by simp [pushLF]
  | .cons _ _ _, .nil => by simp [pushLF]
  | .cons _ v r, .cons b m rest => by simp [pushLF, BL.length, pushLF_length un r rest]

theorem pushLF_get (un : Bytes → String) : ∀ (vals : List (String × LVal)) (fs : BL) (j : Nat) (c : B) (m : FieldMeta)
    (nv : String × LVal), fs.get? j = some (c, m) → vals[j]? = some nv →
    (pushLF un (LFields.ofList vals) fs).get? j = some (pushL un nv.2 c, m)
  | [], _, _, _, _, _, _, h => by simp at h
  | (_, _) :: _, .nil, _, _, _, _, h, _ => by simp [BL.get?] at h
  | (n0, v0) :: vals, .cons b m0 rest, 0, c, m, nv, hg, hv => by
    simp only [BL.get?, Option.some.injEq, Prod.mk.injEq] at hg
    obtain ⟨rfl, rfl⟩ := hg
    simp only [List.getElem?_cons_zero, Option.some.injEq] at hv
    subst hv
    simp [LFields.ofList, pushLF, BL.get?]
  | (n0, v0) :: vals, .cons b m0 rest, j + 1, c, m, nv, hg, hv => by
    simp only [LFields.ofList, pushLF, BL.get?]
    exact pushLF_get un vals rest j c m nv (by simpa [BL.get?] using hg) (by simpa using hv)

theorem mapM_get {α β} (g : α → R β) : ∀ (l : List α) (vs : List β), l.mapM g = .ok vs →
    vs.length = l.length ∧ ∀ (j : Nat) (a : α), l[j]? = some a → ∃ b, g a = .ok b ∧ vs[j]? = some b
  | [], vs, h => by
    simp only [List.mapM_nil, pure, Except.pure, Except.ok.injEq] at h
    subst h
    exact ⟨rfl, by intro j a hj; simp at hj⟩
  | a :: l, vs, h => by
    rw [List.mapM_cons] at h
    obtain ⟨b, hb, h⟩ := (bind_ok _ _ _).1 h
    obtain ⟨bs, hbs, h⟩ := (bind_ok _ _ _).1 h
    cases h
    obtain ⟨hl, ih⟩ := mapM_get g l bs hbs
    refine ⟨by simp [hl], ?_⟩
    intro j a' hj
    cases j with
    | zero => simp at hj; subst hj; exact ⟨b, hb, by simp⟩
    | succ j => simpa using ih j a' (by simpa using hj)

theorem interpNull_ok {dt : DataType} {n : Bool} {md : Metadata} {v : LVal} (h : interpNull dt n md = .ok v) : v = .null := by
  unfold interpNull at h
  split at h
  · simp [fail] at h
  · split at h
    · cases h; rfl
    · simp [fail] at h
    · split at h
      · cases h; rfl
      · simp [fail] at h

/-! ### a whole record -/

/-- **A record leaves the struct builder in the state `pushL` computes from the documented struct value**, for any way
`collect` of gathering the candidates of a field that the field loop `pf` implements (`hcol`). -/
theorem record_phys {un : Bytes → String} {p len v fs cached next seen} {pf : SS → R SS} {b' : B} {sfs : Fields} {lv : LVal}
    (collect : Field → R (List LVal))
    (hwf : WFH (.struct p len v fs cached next seen)) (hsafe : NoDictKey (.struct p len v fs cached next seen))
    (hshape : ShapeL fs sfs) (hpf : FieldsOKH pf)
    (hcol : ∀ s1 s2, s1.next = 0 → s1.fields = fs → MidH fs s1 (List.replicate fs.length []) → pf s1 = .ok s2 →
      ∀ j f found, sfs.toList[j]? = some f → collect f = .ok found → ChildRel un s1 s2 j found)
    (h : (do
      let s ← SS.start ⟨p, len, v, fs, cached, next, seen⟩
      let s ← pf s
      let s ← s.finishRow
      pure s.toB : R B) = .ok b')
    (hi : structOf sfs.toList collect = .ok lv) :
    pushL un lv (erase (.struct p len v fs cached next seen)) = erase b' := by
  obtain ⟨s1, h1, h⟩ := (bind_ok _ _ _).1 h
  obtain ⟨s2, h2, h⟩ := (bind_ok _ _ _).1 h
  obtain ⟨s3, h3, h⟩ := (bind_ok _ _ _).1 h
  cases h
  have hw' := hwf
  simp only [WFH] at hw'
  obtain ⟨hv, hwfl, hseen, hnd, hcache⟩ := hw'
  simp only [NoDictKey] at hsafe
  simp only [SS.start] at h1
  obtain ⟨v', hv1, h1⟩ := (bind_ok _ _ _).1 h1
  cases h1
  have hv' := setValidity_setV hv1
  subst hv'
  have hmid : MidH fs ⟨p, len + 1, setV v len true, fs, cached, 0, List.replicate seen.length false⟩
      (List.replicate fs.length []) :=
    ⟨by simpa using ExtLH.refl fs len hwfl, by rw [hseen]; exact Flags.fresh _, hcache, hsafe, hnd⟩
  obtain ⟨⟨adds2, hm2⟩, hp, hl, hvv⟩ := hpf _ _ _ _ hmid h2
  simp only at hp hl hvv
  have hrel := hcol _ s2 rfl rfl hmid h2
  simp only [SS.finishRow] at h3
  obtain ⟨fs3, h3', h4⟩ := (bind_ok _ _ _).1 h3
  cases h4
  obtain ⟨hl3, hend⟩ := endFields_phys _ _ _ h3'
  -- the struct value
  unfold structOf at hi
  obtain ⟨vals, hvals, hi⟩ := (bind_ok _ _ _).1 hi
  cases hi
  obtain ⟨hvl, hvget⟩ := mapM_get _ _ _ hvals
  simp only [SS.toB, erase, pushL, hp, hl, hvv]
  congr 1
  have hlen2 : s2.fields.length = fs.length := hm2.adds_length.2.2
  apply BL.ext_get
  · rw [pushLF_length, BL.length_eraseL, BL.length_eraseL, hl3, hlen2]
  · intro j x hx
    obtain ⟨c0, m0⟩ := x
    -- child j of the erased start state
    rw [BL.get?_eraseL]
    have hjlt : j < fs.length := by
      have := BL.get?_lt _ _ _ hx
      rwa [pushLF_length, BL.length_eraseL] at this
    obtain ⟨⟨c, m⟩, hget⟩ := BL.get?_of_lt fs j hjlt
    obtain ⟨f, hjf, _, _, hmn⟩ := ShapeL.get _ _ _ _ _ hshape hget
    obtain ⟨⟨nm, vj⟩, hg, hvj⟩ := hvget j f hjf
    obtain ⟨found, hfound, hg⟩ := (bind_ok _ _ _).1 hg
    obtain ⟨w, hw, hg⟩ := (bind_ok _ _ _).1 hg
    simp only [pure, Except.pure, Except.ok.injEq, Prod.mk.injEq] at hg
    obtain ⟨rfl, rfl⟩ := hg
    have hpl := pushLF_get un vals (eraseL fs) j (erase c) m (f.name, w) (by rw [BL.get?_eraseL, hget]; rfl) hvj
    rw [hpl] at hx
    simp only [Option.some.injEq, Prod.mk.injEq] at hx
    obtain ⟨rfl, rfl⟩ := hx
    obtain ⟨c2, hg2, hm⟩ := hrel j f found hjf hfound c m hget
    obtain ⟨c3, hg3, hcase⟩ := hend j c2 m hg2
    rw [hg3]
    simp only [Option.map_some, Option.some.injEq, Prod.mk.injEq, and_true]
    have hs1 : (List.replicate seen.length false)[j]? = some false := by
      rw [List.getElem?_replicate, if_pos (by rw [hseen]; exact hjlt)]
    match found, hm, hw with
    | [], hm, hw =>
      simp only at hm
      rw [hs1] at hm
      rcases hcase with ⟨ht, _⟩ | ⟨_, _, hpn⟩
      · rw [hm.2] at ht; cases ht
      · simp only [pickOne] at hw
        split at hw
        · simp [fail] at hw
        · have := interpNull_ok hw
          subst this
          simp only [pushL]
          rw [← hm.1]
          exact (noneL_erase hpn).symm
    | [lv1], hm, hw =>
      simp only at hm
      simp only [pickOne, Except.ok.injEq] at hw
      subst hw
      rcases hcase with ⟨_, rfl⟩ | ⟨hf, _, _⟩
      · exact hm.1
      · rw [hm.2.2] at hf; cases hf

end SaModel.Build
