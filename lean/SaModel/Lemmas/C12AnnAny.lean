import SaModel.Lemmas.C12TypedAny
import SaModel.Read.Annot
/-
C12 helpers, part 11: the ANNOTATED `deserialize_any` (`Read.readAnyA`, C18) on a slice.  The annotation a reader writes
(`rann p a`: its path and its `data_type` label) does not depend on the row and is not changed by `slice`, so the
annotated outcomes agree exactly: value, `Err` WITH its annotations, unwind.
-/
namespace SaModel.Lemmas.C12
open SaModel SaModel.Read SaModel.Spec

/-- the `data_type` label depends only on the constructor / `large` flag / type tag, none of which `slice` touches -/
theorem rlabel_slice (a : Arr) (o l : Nat) : rlabel (sliceView a o l) = rlabel a := by
  cases a with
  | union types offs fs => cases offs <;> simp only [sliceView, rlabel]
  | _ => simp only [sliceView, rlabel]

/-- what the reader of the slice annotates = what the reader of the whole array annotates -/
theorem rann_slice (p : String) (a : Arr) (o l : Nat) : rann p (sliceView a o l) = rann p a := by
  simp only [rann, rlabel_slice]

mutual
theorem readAnyA_slice' (fx : Fixes) : ∀ (a : Arr) (p : String) (o l i : Nat), i < l → SliceOK fx a o l →
    readAnyA fx p (sliceView a o l) i = readAnyA fx p a (o + i)
  | .null len, p, o, l, i, hi, h => by
    have hr := readAny_slice fx (.null len) o l i hi h
    simp only [sliceView] at hr ⊢
    simp only [readAnyA, hr, rann, rlabel]
  | .boolean len v vals, p, o, l, i, hi, h => by
    have hr := readAny_slice fx (.boolean len v vals) o l i hi h
    simp only [sliceView] at hr ⊢
    simp only [readAnyA, hr, rann, rlabel]
  | .prim ty v vals, p, o, l, i, hi, h => by
    have hr := readAny_slice fx (.prim ty v vals) o l i hi h
    simp only [sliceView] at hr ⊢
    simp only [readAnyA, hr, rann, rlabel]
  | .time ty u v vals, p, o, l, i, hi, h => by
    have hr := readAny_slice fx (.time ty u v vals) o l i hi h
    simp only [sliceView] at hr ⊢
    simp only [readAnyA, hr, rann, rlabel]
  | .timestamp u tz v vals, p, o, l, i, hi, h => by
    have hr := readAny_slice fx (.timestamp u tz v vals) o l i hi h
    simp only [sliceView] at hr ⊢
    simp only [readAnyA, hr, rann, rlabel]
  | .decimal128 pr s v vals, p, o, l, i, hi, h => by
    have hr := readAny_slice fx (.decimal128 pr s v vals) o l i hi h
    simp only [sliceView] at hr ⊢
    simp only [readAnyA, hr, rann, rlabel]
  | .bytes ty v offs data, p, o, l, i, hi, h => by
    have hr := readAny_slice fx (.bytes ty v offs data) o l i hi h
    simp only [sliceView] at hr ⊢
    simp only [readAnyA, hr, rann, rlabel]
  | .bytesView ty v views buffers, p, o, l, i, hi, h => by
    have hr := readAny_slice fx (.bytesView ty v views buffers) o l i hi h
    simp only [sliceView] at hr ⊢
    simp only [readAnyA, hr, rann, rlabel]
  | .fixedSizeBinary n v data, p, o, l, i, hi, h => by
    have hr := readAny_slice fx (.fixedSizeBinary n v data) o l i hi h
    simp only [sliceView] at hr ⊢
    simp only [readAnyA, hr, rann, rlabel]
  | .dictionary ks vs, p, o, l, i, hi, h => by
    have hr := readAny_slice fx (.dictionary ks vs) o l i hi h
    simp only [sliceView] at hr ⊢
    simp only [readAnyA, hr, rann, rlabel]
  | .struct len v fs, p, o, l, i, hi, h => by
    have hb := h.1; simp only [lenOf] at hb
    have c1 : ¬ i ≥ l := by omega
    have c2 : ¬ o + i ≥ len := by omega
    have his := isSome_slice fx (.struct len v fs) o l i hi h
    simp only [sliceView] at his
    simp only [sliceView, readAnyA, anyAt, his, rann, rlabel, c1, c2, if_false,
      readAnyFieldsA_slice fx fs p len o l i hi h.struct]
  | .list lg v offs fm el, p, o, l, i, hi, h => by
    have hb := h.1; simp only [lenOf] at hb
    have his := isSome_slice fx (.list lg v offs fm el) o l i hi h
    simp only [sliceView] at his
    simp only [sliceView, readAnyA, anyAt, his, rann, rlabel, listRange_window fx offs o l i hi hb]
  | .fixedSizeList len v n fm el, p, o, l, i, hi, h => by
    obtain ⟨e1, e2, hj⟩ := fslRange_slice fx hi h
    have hel := h.fsl.1
    have his := isSome_slice fx (.fixedSizeList len v n fm el) o l i hi h
    simp only [sliceView] at his
    have hr : readRange (readAnyA fx (rchild p fm.name) (sliceView el (o * n.toNat) (l * n.toNat))) (i * n.toNat) n.toNat
        = readRange (readAnyA fx (rchild p fm.name) el) ((o + i) * n.toNat) n.toNat := by
      apply readRange_congr
      intro j hjn
      obtain ⟨j1, j2⟩ := hj j hjn
      rw [j2]
      exact readAnyA_slice' fx el _ _ _ _ j1 hel
    simp only [sliceView, readAnyA, anyAt, his, rann, rlabel, e1, e2, bind, Except.bind, succ_mul_sub, hr]
  | .map v offs mm ks vs, p, o, l, i, hi, h => by
    have hb := h.1; simp only [lenOf] at hb
    have his := isSome_slice fx (.map v offs mm ks vs) o l i hi h
    simp only [sliceView] at his
    simp only [sliceView, readAnyA, anyAt, his, rann, rlabel, listRange_window fx offs o l i hi hb]
  | .union types offs fs, p, o, l, i, hi, h => by
    have hb := h.1; simp only [lenOf] at hb
    cases offs with
    | none => have := h.2.2.1; simp only [new] at this; cases this
    | some ofs =>
      have his := isSome_slice fx (.union types (some ofs) fs) o l i hi h
      simp only [sliceView] at his
      simp only [sliceView, readAnyA, anyAt, his, rann, rlabel,
        unionSelect_window fx types ofs fs.length o l i hi hb (new_union_lens h.2.2.1)]
theorem readAnyFieldsA_slice (fx : Fixes) : ∀ (fs : ArrFields) (p : String) (len o l i : Nat), i < l →
    FieldsOK fx fs len o l → readAnyFieldsA fx p (sliceFields fs o l) i = readAnyFieldsA fx p fs (o + i)
  | .nil, _, _, _, _, _, _, _ => by simp only [sliceFields, readAnyFieldsA]
  | .cons fm a r, p, len, o, l, i, hi, h => by
    obtain ⟨ha, hr⟩ := h.cons
    simp only [sliceFields, readAnyFieldsA, readAnyA_slice' fx a (rchild p fm.name) o l i hi ha,
      readAnyFieldsA_slice fx r p len o l i hi hr]
end

/-- annotated `deserialize_any` of slot `i` of the slice = of slot `o + i` of the whole array: the same value, the same
`Err` with the same annotations, the same unwind -/
theorem readAnyA_slice (fx : Fixes) (p : String) (a : Arr) (o l i : Nat) (hi : i < l) (h : SliceOK fx a o l) :
    readAnyA fx p (sliceView a o l) i = readAnyA fx p a (o + i) :=
  readAnyA_slice' fx a p o l i hi h

end SaModel.Lemmas.C12
