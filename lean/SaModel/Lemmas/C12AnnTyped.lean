import SaModel.Lemmas.C12AnnAny
import SaModel.Lemmas.C12Typed
/-
C12 helpers, part 12: the ANNOTATED typed reads (`Read.readAsA`, C18) on a slice, one combinator per target constructor
(`SlicePA t` from `SlicePA` of the component targets); `SaModel/Props/C12Ann.lean` assembles them by structural
recursion over the target.  Equalities of OUTCOMES including the annotations of an `Err` (`Fail.errCtx msg ann`).
-/
namespace SaModel.Lemmas.C12
open SaModel SaModel.Read SaModel.Spec

/-- the annotated read of target `t` at slot `i` of any slice (reader built at any path `p`) = the annotated read at
slot `o + i` of the whole array -/
def SlicePA (af : AnnFixes) (fx : Fixes) (t : Target) : Prop :=
  ∀ (p : String) (a : Arr) (o l i : Nat), i < l → SliceOK fx a o l →
    readAsA af fx p t (sliceView a o l) i = readAsA af fx p t a (o + i)

/-! ### any, ignored, scalars -/

theorem slicePA_any (af : AnnFixes) (fx : Fixes) : SlicePA af fx .any := fun p a o l i hi h => by
  unfold readAsA; exact readAnyA_slice fx p a o l i hi h

theorem slicePA_ignored (af : AnnFixes) (fx : Fixes) : SlicePA af fx .ignored := fun p a o l i hi h => by
  unfold readAsA; rw [readAnyA_slice fx p a o l i hi h]

theorem slicePA_unit (af : AnnFixes) (fx : Fixes) : SlicePA af fx .unit := fun p a o l i hi h => by
  unfold readAsA; rw [scalar_slice fx _ a o l i hi h, rann_slice]
theorem slicePA_unitStruct (af : AnnFixes) (fx : Fixes) : SlicePA af fx .unitStruct := fun p a o l i hi h => by
  unfold readAsA; rw [scalar_slice fx _ a o l i hi h, rann_slice]
theorem slicePA_bool (af : AnnFixes) (fx : Fixes) : SlicePA af fx .bool := fun p a o l i hi h => by
  unfold readAsA; rw [scalar_slice fx _ a o l i hi h, rann_slice]
theorem slicePA_int (af : AnnFixes) (fx : Fixes) (ty : IntTy) : SlicePA af fx (.int ty) := fun p a o l i hi h => by
  unfold readAsA; rw [scalar_slice fx _ a o l i hi h, rann_slice]
theorem slicePA_f32 (af : AnnFixes) (fx : Fixes) : SlicePA af fx .f32 := fun p a o l i hi h => by
  unfold readAsA; rw [scalar_slice fx _ a o l i hi h, rann_slice]
theorem slicePA_f64 (af : AnnFixes) (fx : Fixes) : SlicePA af fx .f64 := fun p a o l i hi h => by
  unfold readAsA; rw [scalar_slice fx _ a o l i hi h, rann_slice]
theorem slicePA_char (af : AnnFixes) (fx : Fixes) : SlicePA af fx .char := fun p a o l i hi h => by
  unfold readAsA; rw [scalar_slice fx _ a o l i hi h, rann_slice]
theorem slicePA_string (af : AnnFixes) (fx : Fixes) : SlicePA af fx .string := fun p a o l i hi h => by
  unfold readAsA; rw [scalar_slice fx _ a o l i hi h, rann_slice]
theorem slicePA_str (af : AnnFixes) (fx : Fixes) : SlicePA af fx .str := fun p a o l i hi h => by
  unfold readAsA; rw [scalar_slice fx _ a o l i hi h, rann_slice]

/-- `&[u8]`: a list column answers `visit_seq` (rejected) after looking at its offsets; otherwise a scalar read -/
theorem slicePA_bytes (af : AnnFixes) (fx : Fixes) : SlicePA af fx .bytes := fun p a o l i hi h => by
  unfold readAsA
  rw [rann_slice]
  congr 1
  have hs := scalar_slice fx .bytes a o l i hi h
  cases a with
  | list lg v offs fm el =>
    have hb := h.1; simp only [lenOf] at hb
    simp only [sliceView, listRange_window fx offs o l i hi hb]
  | union types offs fs => cases offs <;> (simp only [sliceView] at hs ⊢; rw [hs])
  | _ => simp only [sliceView] at hs ⊢; rw [hs]

/-- `ByteBuf`: a list column is read element by element from the (unsliced) child, each element read annotated by the
child reader -/
theorem slicePA_byteBuf (af : AnnFixes) (fx : Fixes) : SlicePA af fx .byteBuf := fun p a o l i hi h => by
  unfold readAsA
  rw [rann_slice]
  congr 1
  have hs := scalar_slice fx .byteBuf a o l i hi h
  cases a with
  | list lg v offs fm el =>
    have hb := h.1; simp only [lenOf] at hb
    simp only [sliceView, listRange_window fx offs o l i hi hb]
  | union types offs fs => cases offs <;> (simp only [sliceView] at hs ⊢; rw [hs])
  | _ => simp only [sliceView] at hs ⊢; rw [hs]

/-! ### layers that stay on the same array -/

theorem slicePA_option {af : AnnFixes} {fx : Fixes} {t : Target} (hS : SlicePA af fx t) : SlicePA af fx (.option t) :=
  fun p a o l i hi h => by
    unfold readAsA
    rw [rann_slice, isSome_slice fx a o l i hi h, hS p a o l i hi h]

theorem slicePA_newtype {af : AnnFixes} {fx : Fixes} {t : Target} (hS : SlicePA af fx t) : SlicePA af fx (.newtype t) :=
  fun p a o l i hi h => by
    unfold readAsA
    exact hS p a o l i hi h

/-! ### sequences -/

theorem slicePA_seq {af : AnnFixes} {fx : Fixes} {t : Target} (hS : SlicePA af fx t) : SlicePA af fx (.seq t) :=
  fun p a o l i hi h => by
    unfold readAsA
    have hbe := binaryElems_slice fx a o l i hi h
    have hra := rann_slice p a o l
    cases a with
    | list lg v offs fm el =>
      have hb := h.1; simp only [lenOf] at hb
      simp only [sliceView] at hra
      simp only [sliceView, hra, listRange_window fx offs o l i hi hb]
    | fixedSizeList len v n fm el =>
      obtain ⟨e1, e2, hj⟩ := fslRange_slice fx hi h
      have hel := h.fsl.1
      have hr : readRange (fun j => readAsA af fx (rchild p fm.name) t (sliceView el (o * n.toNat) (l * n.toNat)) j)
            (i * n.toNat) n.toNat
          = readRange (fun j => readAsA af fx (rchild p fm.name) t el j) ((o + i) * n.toNat) n.toNat := by
        apply readRange_congr
        intro j hjn
        obtain ⟨j1, j2⟩ := hj j hjn
        rw [j2]
        exact hS _ el _ _ _ j1 hel
      simp only [sliceView] at hra
      simp only [sliceView, hra, e1, e2, bind, Except.bind, succ_mul_sub, hr]
    | union types offs fs => cases offs <;> (simp only [sliceView] at hbe hra ⊢; rw [hbe, hra])
    | _ => simp only [sliceView] at hbe hra ⊢; rw [hbe, hra]

/-! ### tuples over a struct column -/

theorem readTupleFieldsA_slice {af : AnnFixes} {fx : Fixes} : ∀ (ts : Targets), AllT (SlicePA af fx) ts →
    ∀ (p : String) (fs : ArrFields) (len o l i : Nat), i < l → FieldsOK fx fs len o l →
    readTupleFieldsA af fx p ts (sliceFields fs o l) i = readTupleFieldsA af fx p ts fs (o + i)
  | .nil, _, _, _, _, _, _, _, _, _ => by unfold readTupleFieldsA; rfl
  | .cons t rest, hS, p, fs, len, o, l, i, hi, h => by
    cases fs with
    | nil => simp only [sliceFields]; unfold readTupleFieldsA; rfl
    | cons fm a r =>
      obtain ⟨ha, hr⟩ := h.cons
      simp only [sliceFields]
      unfold readTupleFieldsA
      simp only [hS.1 (rchild p fm.name) a o l i hi ha, readTupleFieldsA_slice rest hS.2 p r len o l i hi hr]

theorem tupleVisitA_slice {af : AnnFixes} {fx : Fixes} {ts : Targets} (hS : AllT (SlicePA af fx) ts) (p q : String)
    (a : Arr) (o l i : Nat) (hi : i < l) (h : SliceOK fx a o l) :
    tupleVisitA fx p (fun fs => readTupleFieldsA af fx q ts fs i) (sliceView a o l) i
      = tupleVisitA fx p (fun fs => readTupleFieldsA af fx q ts fs (o + i)) a (o + i) := by
  unfold tupleVisitA
  rw [rann_slice]
  congr 1
  cases a with
  | struct len v fs =>
    have hb := h.1; simp only [lenOf] at hb
    simp only [sliceView, tupleVisit, structItem_slice fx len o l i hi hb,
      readTupleFieldsA_slice ts hS q fs len o l i hi h.struct]
  | union types offs fs => cases offs <;> simp only [sliceView, tupleVisit]
  | _ => simp only [sliceView, tupleVisit]

theorem slicePA_tuple {af : AnnFixes} {fx : Fixes} {ts : Targets} (hS : AllT (SlicePA af fx) ts) :
    SlicePA af fx (.tuple ts) := fun p a o l i hi h => by
  unfold readAsA
  exact tupleVisitA_slice hS p p a o l i hi h

theorem slicePA_tupleStruct {af : AnnFixes} {fx : Fixes} {ts : Targets} (hS : AllT (SlicePA af fx) ts) :
    SlicePA af fx (.tupleStruct ts) := fun p a o l i hi h => by
  unfold readAsA
  exact tupleVisitA_slice hS p p a o l i hi h

/-! ### maps: a struct column (field names as keys) or a map column (children untouched by `slice`) -/

theorem slicePA_map {af : AnnFixes} {fx : Fixes} {k v : Target} (hV : SlicePA af fx v) : SlicePA af fx (.map k v) :=
  fun p a o l i hi h => by
    unfold readAsA
    rw [rann_slice]
    congr 1
    cases a with
    | struct len vv fs =>
      have hb := h.1; simp only [lenOf] at hb
      simp only [sliceView, structItem_slice fx len o l i hi hb]
      congr 1; funext _; congr 1
      exact mapM_fields_slice _ _ (fun fm a ha => by simp only [hV (rchild p fm.name) a o l i hi ha]) fs h.struct
    | map vv offs mm ks vs =>
      have hb := h.1; simp only [lenOf] at hb
      simp only [sliceView, listRange_window fx offs o l i hi hb]
    | union types offs fs => cases offs <;> simp only [sliceView]
    | _ => simp only [sliceView]

/-! ### derived structs over a struct column -/

theorem readFieldAsA_slice {af : AnnFixes} {fx : Fixes} : ∀ (tfs : TFields), AllF (SlicePA af fx) tfs →
    ∀ (pos : Nat) (slots : Slots) (name cp : String) (a : Arr) (o l i : Nat), i < l → SliceOK fx a o l →
    readFieldAsA af fx tfs pos slots name cp (sliceView a o l) i = readFieldAsA af fx tfs pos slots name cp a (o + i)
  | .nil, _, _, _, _, _, _, _, _, _, _, _ => by unfold readFieldAsA; rfl
  | .cons n t rest, hS, pos, slots, name, cp, a, o, l, i, hi, h => by
    unfold readFieldAsA
    simp only [hS.1 cp a o l i hi h, readFieldAsA_slice rest hS.2 (pos + 1) slots name cp a o l i hi h]

theorem structVisitA_slice {af : AnnFixes} {fx : Fixes} {tfs tfs' : TFields} (hS : AllF (SlicePA af fx) tfs)
    (p : String) (a : Arr) (o l i : Nat) (hi : i < l) (h : SliceOK fx a o l) :
    structVisitA fx p (fun slots fm child => readFieldAsA af fx tfs 0 slots fm.name (rchild p fm.name) child i) tfs'
        (sliceView a o l) i
      = structVisitA fx p (fun slots fm child => readFieldAsA af fx tfs 0 slots fm.name (rchild p fm.name) child (o + i))
        tfs' a (o + i) := by
  unfold structVisitA
  rw [rann_slice]
  congr 1
  cases a with
  | struct len v fs =>
    have hb := h.1; simp only [lenOf] at hb
    simp only [sliceView, structItem_slice fx len o l i hi hb]
    congr 1; funext _; congr 1
    exact foldlM_fields_slice _ _ (fun s fm a ha => by
      simp only [readFieldAsA_slice tfs hS 0 s fm.name (rchild p fm.name) a o l i hi ha,
        readAnyA_slice fx (rchild p fm.name) a o l i hi ha]) fs [] h.struct
  | union types offs fs => cases offs <;> simp only [sliceView]
  | _ => simp only [sliceView]

theorem slicePA_struct {af : AnnFixes} {fx : Fixes} {tfs : TFields} (hS : AllF (SlicePA af fx) tfs) :
    SlicePA af fx (.struct tfs) := fun p a o l i hi h => by
  unfold readAsA
  exact structVisitA_slice hS p a o l i hi h

/-! ### enums: dense union columns (type ids and offsets windowed, children untouched), string / dictionary columns -/

theorem slicePA_enum (af : AnnFixes) (fx : Fixes) (byIndex : Bool) (vs : TVariants) : SlicePA af fx (.enum byIndex vs) :=
  fun p a o l i hi h => by
    unfold readAsA
    have hse := stringElem_slice fx a o l i hi h
    have hra := rann_slice p a o l
    cases a with
    | union types offs fs =>
      have hb := h.1; simp only [lenOf] at hb
      cases offs with
      | none => have := h.2.2.1; simp only [new] at this; cases this
      | some ofs =>
        simp only [sliceView] at hra
        simp only [sliceView, hra, unionSelect_window fx types ofs fs.length o l i hi hb (new_union_lens h.2.2.1)]
    | _ => simp only [sliceView] at hse hra ⊢; rw [hse, hra]

end SaModel.Lemmas.C12
