import SaModel.Read.Slice
import SaModel.Spec.DecodeAt
/-
C12 helpers, part 1: the bit lemma, windows of lists, the well-formedness predicate `sliceable`, the length of a slice.
-/
namespace SaModel.Lemmas.C12
open SaModel SaModel.Read SaModel.Spec

/-- the key bit lemma: a bitmap whose bit offset was advanced by `o`, read at `i`, is the original bitmap read at
`o + i` — windows may start anywhere inside a byte -/
theorem getBit_shift (b : Bits) (o i : Nat) : getBit (shiftBits b o) i = getBit b (o + i) := by
  simp only [getBit, shiftBits]
  have : i + (b.offset + o) = o + i + b.offset := by omega
  rw [this]

theorem isValid_shift (v : Option Bits) (o i : Nat) : isValid (shiftV v o) i = isValid v (o + i) := by
  cases v
  · rfl
  · simp only [shiftV, isValid, getBit_shift]

theorem withValidity_shift (v : Option Bits) (o i : Nat) (p : R LVal) :
    withValidity (shiftV v o) i p = withValidity v (o + i) p := by
  simp only [withValidity, isValid_shift]

theorem shiftBits_shiftBits (b : Bits) (o1 o2 : Nat) : shiftBits (shiftBits b o1) o2 = shiftBits b (o1 + o2) := by
  simp only [shiftBits, Nat.add_assoc]

theorem shiftV_shiftV (v : Option Bits) (o1 o2 : Nat) : shiftV (shiftV v o1) o2 = shiftV v (o1 + o2) := by
  cases v
  · rfl
  · simp only [shiftV, shiftBits_shiftBits]

/-! ### windows of lists -/

theorem window_length {α} (xs : List α) (o n : Nat) (h : o + n ≤ xs.length) : (window xs o n).length = n := by
  simp only [window, List.length_take, List.length_drop]; omega

theorem window_getD {α} (xs : List α) (o n i : Nat) (d : α) (hi : i < n) : (window xs o n).getD i d = xs.getD (o + i) d := by
  simp only [window, List.getD_eq_getElem?_getD, List.getElem?_take, hi, if_true, List.getElem?_drop]

theorem drop_take_window (data : Bytes) (a b c d : Nat) (h : c + d ≤ b) :
    ((window data a b).drop c).take d = (data.drop (a + c)).take d := by
  simp only [window]
  rw [List.drop_take, List.drop_drop, List.take_take]
  congr 1
  omega

/-- a window of a window is a window (no bound on the list itself is needed) -/
theorem window_window {α} (xs : List α) (o1 l1 o2 l2 : Nat) (h : o2 + l2 ≤ l1) :
    window (window xs o1 l1) o2 l2 = window xs (o1 + o2) l2 := by
  simp only [window]
  rw [List.drop_take, List.drop_drop, List.take_take]
  congr 1
  omega

/-- `(o, l)` inside `len` rows of `n` entries each is `(o·n, l·n)` inside the child -/
theorem mul_window_le {o l len n L : Nat} (h : o + l ≤ len) (hL : len * n ≤ L) : o * n + l * n ≤ L := by
  have := Nat.mul_le_mul_right n h
  rw [Nat.add_mul] at this
  omega

/-! `sliceable`: the well-formedness `slice` relies on — children that are sliced ALONG WITH the parent are at least
as long as the parent says (Arrow validity): Struct children ≥ len, FixedSizeList child ≥ len·n, sparse-Union children
≥ number of type ids; recursively through these and through Dictionary keys.  Children that `slice` does not touch
(List / LargeList / Map / dense Union children, Dictionary values) carry no condition.  Decidable (a `Bool`). -/
mutual
def sliceable : Arr → Bool
  | .struct len _ fs => sliceableFields fs len
  | .fixedSizeList len _ n _ el => decide (len * n.toNat ≤ lenOf el) && sliceable el
  | .dictionary ks _ => sliceable ks
  | .union types offs fs =>
    match offs with
    | some _ => true
    | none => sliceableUFields fs types.length
  | _ => true
def sliceableFields : ArrFields → Nat → Bool
  | .nil, _ => true
  | .cons _ a r, len => decide (len ≤ lenOf a) && sliceable a && sliceableFields r len
def sliceableUFields : ArrUFields → Nat → Bool
  | .nil, _ => true
  | .cons _ _ a r, len => decide (len ≤ lenOf a) && sliceable a && sliceableUFields r len
end

/-- the length of a slice -/
theorem lenOf_slice : ∀ (a : Arr) (o l : Nat), o + l ≤ lenOf a → lenOf (sliceView a o l) = l
  | .null _, _, _, _ => by simp [sliceView, lenOf]
  | .boolean _ _ _, _, _, _ => by simp [sliceView, lenOf]
  | .prim _ _ vals, o, l, h => by simp only [sliceView, lenOf] at h ⊢; exact window_length _ _ _ h
  | .time _ _ _ vals, o, l, h => by simp only [sliceView, lenOf] at h ⊢; exact window_length _ _ _ h
  | .timestamp _ _ _ vals, o, l, h => by simp only [sliceView, lenOf] at h ⊢; exact window_length _ _ _ h
  | .decimal128 _ _ _ vals, o, l, h => by simp only [sliceView, lenOf] at h ⊢; exact window_length _ _ _ h
  | .bytes _ _ offs _, o, l, h => by
    simp only [sliceView, lenOf] at h ⊢
    by_cases h0 : offs.length = 0
    · simp only [window, List.length_take, List.length_drop]; omega
    · rw [window_length _ _ _ (by omega)]; omega
  | .bytesView _ _ views _, o, l, h => by simp only [sliceView, lenOf] at h ⊢; exact window_length _ _ _ h
  | .fixedSizeBinary n _ data, o, l, h => by
    simp only [sliceView, lenOf] at h ⊢
    by_cases hn : n ≤ 0
    · simp only [hn, if_true] at h ⊢; omega
    · simp only [hn, if_false] at h ⊢
      have hpos : 0 < n.toNat := by omega
      have : (o + l) * n.toNat ≤ data.length := by
        have := Nat.mul_le_mul_right n.toNat h
        have := Nat.div_mul_le_self data.length n.toNat
        omega
      rw [window_length _ _ _ (by rw [Nat.add_mul] at this; omega)]
      exact Nat.mul_div_cancel l hpos
  | .struct _ _ _, _, _, _ => by simp [sliceView, lenOf]
  | .list _ _ offs _ _, o, l, h => by
    simp only [sliceView, lenOf] at h ⊢
    by_cases h0 : offs.length = 0
    · simp only [window, List.length_take, List.length_drop]; omega
    · rw [window_length _ _ _ (by omega)]; omega
  | .fixedSizeList _ _ _ _ _, _, _, _ => by simp [sliceView, lenOf]
  | .map _ offs _ _ _, o, l, h => by
    simp only [sliceView, lenOf] at h ⊢
    by_cases h0 : offs.length = 0
    · simp only [window, List.length_take, List.length_drop]; omega
    · rw [window_length _ _ _ (by omega)]; omega
  | .dictionary ks _, o, l, h => by
    simp only [sliceView, lenOf] at h ⊢
    exact lenOf_slice ks o l h
  | .union types offs _, o, l, h => by
    simp only [sliceView, lenOf] at h ⊢
    cases offs <;> simp only [lenOf] <;> exact window_length _ _ _ h

/-! ### ranges of a child: `seqAt` / `rangeAt` only look at the slots they name -/

theorem seqAt_congr (f g : Nat → R LVal) : ∀ (n s t : Nat), (∀ j, j < n → f (s + j) = g (t + j)) →
    seqAt f s n = seqAt g t n
  | 0, _, _, _ => by simp only [seqAt]
  | n + 1, s, t, h => by
    have h0 := h 0 (by omega)
    simp only [Nat.add_zero] at h0
    have ih := seqAt_congr f g n (s + 1) (t + 1) (fun j hj => by
      have := h (j + 1) (by omega)
      rw [show s + 1 + j = s + (j + 1) by omega, show t + 1 + j = t + (j + 1) by omega]
      exact this)
    simp only [seqAt, h0, ih]

theorem rangeAt_natCast (f : Nat → R LVal) (len s e : Nat) (h1 : s ≤ e) (h2 : e ≤ len) :
    rangeAt f len (s : Int) (e : Int) = seqAt f s (e - s) := by
  unfold rangeAt
  have : (0 : Int) ≤ s ∧ (s : Int) ≤ e ∧ (e : Int) ≤ len := by omega
  simp only [this, and_self, if_true, Int.toNat_natCast]

end SaModel.Lemmas.C12
