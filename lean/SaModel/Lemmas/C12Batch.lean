import SaModel.Lemmas.C12Read
import SaModel.Lemmas.C12Decode
import SaModel.Read.Access
import SaModel.Props.C13
/-
C12 helpers, part 5: record batches.  `RecordBatch::slice(o, l)` slices every column with the same window
(`sliceFields`); `Deserializer::new(fields, views)` (SaModel/Read/Access.lean `new`) checks the columns' lengths
(`ViewExt::len` = `vlen`) and builds the root struct reader `batch len cols` (no validity) over them.
-/
namespace SaModel.Lemmas.C12
open SaModel SaModel.Read SaModel.Spec

/-- the columns' lengths as `Deserializer::new` sees them (`ViewExt::len`) -/
def colLens : ArrFields → List Nat
  | .nil => []
  | .cons _ a r => vlen a :: colLens r

/-- the root reader `Deserializer::new` builds over the columns once its checks returned `len`
(`StructDeserializer::new(path, fields, None, len)`; `Reader.record` is the one-column instance) -/
def batch (len : Nat) (cols : ArrFields) : Arr := .struct len none cols

/-- every column satisfies the slicing well-formedness -/
def sliceableCols : ArrFields → Bool
  | .nil => true
  | .cons _ a r => sliceable a && sliceableCols r

/-- on a view the reader accepts, `ViewExt::len` is the Arrow length -/
theorem vlen_eq_lenOf (fx : Fixes) (a : Arr) (h : new fx a = .ok ()) : vlen a = lenOf a := by
  cases a with
  | dictionary ks vs =>
    cases ks with
    | prim _ _ _ => simp only [vlen, lenOf]
    | _ => simp only [new] at h; cases h
  | _ => simp only [vlen, lenOf]

theorem colLens_length : ∀ (cols : ArrFields), (colLens cols).length = cols.length
  | .nil => rfl
  | .cons _ _ r => by simp only [colLens, ArrFields.length, List.length_cons, colLens_length r]

theorem sliceFields_length : ∀ (cols : ArrFields) (o l : Nat), (sliceFields cols o l).length = cols.length
  | .nil, _, _ => rfl
  | .cons _ _ r, o, l => by simp only [sliceFields, ArrFields.length, sliceFields_length r o l]

/-- columns of one length `len` that the reader accepts and that are well-formed are `sliceableFields … len` -/
theorem sliceableFields_of_cols (fx : Fixes) : ∀ (cols : ArrFields) (len : Nat), (∀ x ∈ colLens cols, x = len) →
    newFields fx cols = .ok () → sliceableCols cols = true → sliceableFields cols len = true
  | .nil, _, _, _, _ => by simp only [sliceableFields]
  | .cons fm a r, len, hl, hn, hs => by
    simp only [sliceableCols, Bool.and_eq_true] at hs
    simp only [newFields] at hn
    obtain ⟨u1, _, hn⟩ := bind_ok_inv hn
    obtain ⟨u2, h2, hn⟩ := bind_ok_inv hn
    cases u2
    have h0 : vlen a = len := hl (vlen a) (by simp [colLens])
    have hle : len ≤ lenOf a := by rw [← vlen_eq_lenOf fx a h2, h0]; exact Nat.le_refl _
    simp only [sliceableFields, Bool.and_eq_true, decide_eq_true_eq]
    exact ⟨⟨hle, hs.1⟩, sliceableFields_of_cols fx r len (fun x hx => hl x (by simp [colLens, hx])) hn hs.2⟩

/-- every column of the sliced batch has length `l` -/
theorem colLens_slice (fx : Fixes) : ∀ (cols : ArrFields) (len o l : Nat), o + l ≤ len → sliceableFields cols len = true →
    newFields fx cols = .ok () → ∀ x ∈ colLens (sliceFields cols o l), x = l
  | .nil, _, _, _, _, _, _ => by simp [sliceFields, colLens]
  | .cons fm a r, len, o, l, hb, hs, hn => by
    simp only [sliceableFields, Bool.and_eq_true, decide_eq_true_eq] at hs
    simp only [newFields] at hn
    obtain ⟨u1, _, hn⟩ := bind_ok_inv hn
    obtain ⟨u2, h2, hn⟩ := bind_ok_inv hn
    cases u2
    have hw : o + l ≤ lenOf a := by omega
    have h0 : vlen (sliceView a o l) = l := by
      rw [vlen_eq_lenOf fx _ (new_slice fx a o l hw hs.1.2 h2), lenOf_slice a o l hw]
    intro x hx
    simp only [sliceFields, colLens, List.mem_cons] at hx
    rcases hx with hx | hx
    · rw [hx, h0]
    · exact colLens_slice fx r len o l hb hs.2 hn x hx

end SaModel.Lemmas.C12
