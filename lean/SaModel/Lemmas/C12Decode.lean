import SaModel.Lemmas.C12Basic
/-
C12 helpers, part 2: decoding commutes with slicing, every constructor.
-/
namespace SaModel.Lemmas.C12
open SaModel SaModel.Read SaModel.Spec

theorem ids_sliceUFields : ∀ (fs : ArrUFields) (o l : Nat), ArrUFields.ids (sliceUFields fs o l) = ArrUFields.ids fs
  | .nil, _, _ => by simp only [sliceUFields, ArrUFields.ids]
  | .cons _ _ _ r, o, l => by simp only [sliceUFields, ArrUFields.ids, ids_sliceUFields r o l]

/-- the entries of row `i` of a FixedSizeList slice are the entries of row `o + i` of the whole array, given that the
child's slots commute (`hc`) -/
theorem fsl_range_slice (el el' : Arr) (o l i N len : Nat) (hi : i < l) (h : o + l ≤ len) (hL : len * N ≤ lenOf el)
    (hlen : lenOf el' = l * N)
    (hc : ∀ j, j < l * N → decodeAt el' j = decodeAt el (o * N + j)) :
    rangeAt (decodeAt el') (lenOf el') ((i : Int) * (N : Int)) (((i : Int) + 1) * (N : Int))
      = rangeAt (decodeAt el) (lenOf el) (((o + i : Nat) : Int) * (N : Int)) ((((o + i : Nat) : Int) + 1) * (N : Int)) := by
  have e1 : (i : Int) * (N : Int) = ((i * N : Nat) : Int) := by rw [Int.natCast_mul]
  have e2 : ((i : Int) + 1) * (N : Int) = (((i + 1) * N : Nat) : Int) := by rw [Int.natCast_mul]; simp
  have e3 : ((o + i : Nat) : Int) * (N : Int) = (((o + i) * N : Nat) : Int) := by rw [Int.natCast_mul]
  have e4 : (((o + i : Nat) : Int) + 1) * (N : Int) = (((o + i + 1) * N : Nat) : Int) := by rw [Int.natCast_mul]; simp
  have a1 : i * N ≤ (i + 1) * N := Nat.mul_le_mul_right N (by omega)
  have a2 : (i + 1) * N ≤ l * N := Nat.mul_le_mul_right N (by omega)
  have a3 : (o + i) * N ≤ (o + i + 1) * N := Nat.mul_le_mul_right N (by omega)
  have a4 : (o + i + 1) * N ≤ lenOf el := Nat.le_trans (Nat.mul_le_mul_right N (by omega)) hL
  have w1 : (i + 1) * N - i * N = N := by rw [Nat.add_mul]; omega
  have w2 : (o + i + 1) * N - (o + i) * N = N := by rw [Nat.add_mul (o + i) 1 N]; omega
  rw [e1, e2, e3, e4, rangeAt_natCast _ _ _ _ a1 (by rw [hlen]; exact a2), rangeAt_natCast _ _ _ _ a3 a4, w1, w2]
  apply seqAt_congr
  intro j hj
  have hlt : i * N + j < l * N := by
    have : (i + 1) * N = i * N + N := by rw [Nat.add_mul]; omega
    omega
  rw [hc _ hlt, Nat.add_mul, Nat.add_assoc]

mutual
/-- `C12_slice`, slot-wise: reading slot `i` of the slice is reading slot `o + i` of the whole array — every
constructor, nested to any depth -/
theorem decodeAt_slice : ∀ (a : Arr) (o l i : Nat), i < l → o + l ≤ lenOf a → sliceable a = true →
    decodeAt (sliceView a o l) i = decodeAt a (o + i)
  | .null len, o, l, i, hi, h, _ => by
    simp only [lenOf] at h
    have : o + i < len := by omega
    simp only [sliceView, decodeAt, hi, this, if_true]
  | .boolean len v vals, o, l, i, hi, h, _ => by
    simp only [lenOf] at h
    have : o + i < len := by omega
    simp only [sliceView, decodeAt, hi, this, if_true, withValidity_shift, getBit_shift]
  | .prim ty v vals, o, l, i, hi, h, _ => by
    simp only [lenOf] at h
    have : o + i < vals.length := by omega
    simp only [sliceView, decodeAt, window_length _ _ _ h, hi, this, if_true, withValidity_shift, window_getD _ _ _ _ _ hi]
  | .time ty u v vals, o, l, i, hi, h, _ => by
    simp only [lenOf] at h
    have : o + i < vals.length := by omega
    simp only [sliceView, decodeAt, window_length _ _ _ h, hi, this, if_true, withValidity_shift, window_getD _ _ _ _ _ hi]
  | .timestamp u tz v vals, o, l, i, hi, h, _ => by
    simp only [lenOf] at h
    have : o + i < vals.length := by omega
    simp only [sliceView, decodeAt, window_length _ _ _ h, hi, this, if_true, withValidity_shift, window_getD _ _ _ _ _ hi]
  | .decimal128 p sc v vals, o, l, i, hi, h, _ => by
    simp only [lenOf] at h
    have : o + i < vals.length := by omega
    simp only [sliceView, decodeAt, window_length _ _ _ h, hi, this, if_true, withValidity_shift, window_getD _ _ _ _ _ hi]
  | .bytes ty v offs data, o, l, i, hi, h, _ => by
    simp only [lenOf] at h
    have hl : o + (l + 1) ≤ offs.length := by omega
    have h1 : o + i < offs.length - 1 := by omega
    have h2 : i < l + 1 - 1 := by omega
    simp only [sliceView, decodeAt, window_length _ _ _ hl, h1, h2, if_true, withValidity_shift,
      window_getD _ _ _ _ _ (show i < l + 1 by omega), window_getD _ _ _ _ _ (show i + 1 < l + 1 by omega), Nat.add_assoc]
  | .bytesView ty v views buffers, o, l, i, hi, h, _ => by
    simp only [lenOf] at h
    have : o + i < views.length := by omega
    simp only [sliceView, decodeAt, window_length _ _ _ h, hi, this, if_true, withValidity_shift, window_getD _ _ _ _ _ hi]
  | .fixedSizeBinary n v data, o, l, i, hi, h, _ => by
    simp only [lenOf] at h
    by_cases hn : n ≤ 0
    · simp only [hn, if_true] at h; omega
    · simp only [hn, if_false] at h
      have hpos : 0 < n.toNat := by omega
      have hmul : (o + l) * n.toNat ≤ data.length := by
        have := Nat.mul_le_mul_right n.toNat h
        have := Nat.div_mul_le_self data.length n.toNat
        omega
      have hw : o * n.toNat + l * n.toNat ≤ data.length := by rw [Nat.add_mul] at hmul; exact hmul
      have h1 : o + i < data.length / n.toNat := by omega
      have h2 : i < (l * n.toNat) / n.toNat := by rw [Nat.mul_div_cancel l hpos]; exact hi
      have h3 : i * n.toNat + n.toNat ≤ l * n.toNat := by
        have := Nat.mul_le_mul_right n.toNat (show i + 1 ≤ l by omega)
        rw [Nat.add_mul] at this; omega
      simp only [sliceView, decodeAt, hn, if_false, window_length _ _ _ hw, h1, h2, if_true, withValidity_shift,
        drop_take_window _ _ _ _ _ h3, Nat.add_mul]
  | .struct len v fs, o, l, i, hi, h, hs => by
    simp only [lenOf] at h
    simp only [sliceable] at hs
    have : o + i < len := by omega
    simp only [sliceView, decodeAt, hi, this, if_true, withValidity_shift, decodeFieldsAt_slice fs len o l i hi h hs]
  | .list lg v offs fm el, o, l, i, hi, h, _ => by
    simp only [lenOf] at h
    have hl : o + (l + 1) ≤ offs.length := by omega
    have h1 : o + i < offs.length - 1 := by omega
    have h2 : i < l + 1 - 1 := by omega
    simp only [sliceView, decodeAt, window_length _ _ _ hl, h1, h2, if_true, withValidity_shift,
      window_getD _ _ _ _ _ (show i < l + 1 by omega), window_getD _ _ _ _ _ (show i + 1 < l + 1 by omega), Nat.add_assoc]
  | .fixedSizeList len v n fm el, o, l, i, hi, h, hs => by
    simp only [lenOf] at h
    simp only [sliceable, Bool.and_eq_true, decide_eq_true_eq] at hs
    have h1 : o + i < len := by omega
    simp only [sliceView, decodeAt, hi, h1, if_true, withValidity_shift]
    congr 1
    by_cases hn : n < 0
    · simp only [hn, if_true]
    · simp only [hn, if_false]
      obtain ⟨N, rfl⟩ := Int.eq_ofNat_of_zero_le (show 0 ≤ n by omega)
      simp only [Int.toNat_natCast] at hs ⊢
      have hw := mul_window_le h hs.1
      rw [fsl_range_slice el (sliceView el (o * N) (l * N)) o l i N len hi h hs.1 (lenOf_slice el _ _ hw)
        (fun j hj => decodeAt_slice el (o * N) (l * N) j hj hw hs.2)]
  | .map v offs mm ks vs, o, l, i, hi, h, _ => by
    simp only [lenOf] at h
    have hl : o + (l + 1) ≤ offs.length := by omega
    have h1 : o + i < offs.length - 1 := by omega
    have h2 : i < l + 1 - 1 := by omega
    simp only [sliceView, decodeAt, window_length _ _ _ hl, h1, h2, if_true, withValidity_shift,
      window_getD _ _ _ _ _ (show i < l + 1 by omega), window_getD _ _ _ _ _ (show i + 1 < l + 1 by omega), Nat.add_assoc]
  | .dictionary ks vs, o, l, i, hi, h, hs => by
    simp only [lenOf] at h
    simp only [sliceable] at hs
    have : o + i < lenOf ks := by omega
    simp only [sliceView, decodeAt, lenOf_slice ks o l h, hi, this, if_true, decodeAt_slice ks o l i hi h hs]
  | .union types offs fs, o, l, i, hi, h, hs => by
    simp only [lenOf] at h
    have h1 : o + i < types.length := by omega
    cases offs with
    | none =>
      simp only [sliceable] at hs
      simp only [sliceView, decodeAt, window_length _ _ _ h, hi, h1, if_true, window_getD _ _ _ _ _ hi, ids_sliceUFields]
      cases indexOfTypeId (ArrUFields.ids fs) (types.getD (o + i) 0) with
      | none => rfl
      | some pos => simp only [decodeVariantAt_slice fs types.length pos o l i hi h hs]
    | some ofs =>
      have hlen : (i < (window ofs o l).length) = (o + i < ofs.length) := by
        simp only [window, List.length_take, List.length_drop, eq_iff_iff]; omega
      simp only [sliceView, decodeAt, window_length _ _ _ h, hi, h1, if_true, window_getD _ _ _ _ _ hi, hlen]
theorem decodeFieldsAt_slice : ∀ (fs : ArrFields) (len o l i : Nat), i < l → o + l ≤ len → sliceableFields fs len = true →
    decodeFieldsAt (sliceFields fs o l) i = decodeFieldsAt fs (o + i)
  | .nil, _, _, _, _, _, _, _ => by simp only [sliceFields, decodeFieldsAt]
  | .cons fm a rest, len, o, l, i, hi, h, hs => by
    simp only [sliceableFields, Bool.and_eq_true, decide_eq_true_eq] at hs
    simp only [sliceFields, decodeFieldsAt, decodeAt_slice a o l i hi (by omega) hs.1.2,
      decodeFieldsAt_slice rest len o l i hi h hs.2]
theorem decodeVariantAt_slice : ∀ (fs : ArrUFields) (len pos o l i : Nat), i < l → o + l ≤ len →
    sliceableUFields fs len = true → decodeVariantAt (sliceUFields fs o l) pos i = decodeVariantAt fs pos (o + i)
  | .nil, _, _, _, _, _, _, _, _ => by simp only [sliceUFields, decodeVariantAt]
  | .cons tid fm a rest, len, 0, o, l, i, hi, h, hs => by
    simp only [sliceableUFields, Bool.and_eq_true, decide_eq_true_eq] at hs
    simp only [sliceUFields, decodeVariantAt, decodeAt_slice a o l i hi (by omega) hs.1.2]
  | .cons tid fm a rest, len, pos + 1, o, l, i, hi, h, hs => by
    simp only [sliceableUFields, Bool.and_eq_true, decide_eq_true_eq] at hs
    simp only [sliceUFields, decodeVariantAt, decodeVariantAt_slice rest len pos o l i hi h hs.2]
end

end SaModel.Lemmas.C12
