import SaModel.Lemmas.C12Basic
import SaModel.Read.Reader
/-
C12 helpers, part 13: reads BEYOND the length of a view (in particular at `i ≥ l` of `sliceView a o l`).  Bitmaps, data
buffers and unsliced children are shared with the whole array, so the question is whether a read outside the window can
return a value of the whole array.  Under `fx` every accessor checks the row against the view's OWN length before
it looks at a shared buffer: every read beyond the length is an `Err` (`fail`), never a value and never an unwind.
-/
namespace SaModel.Lemmas.C12
open SaModel SaModel.Read SaModel.Spec

/-- an un-annotated `Err`: not a value, not an unwind -/
def IsFail {α} (r : R α) : Prop := ∃ msg, r = .error (.err msg)

theorem IsFail.bind {α β} {r : R α} (h : IsFail r) (f : α → R β) : IsFail (r >>= f) := by
  obtain ⟨m, rfl⟩ := h; exact ⟨m, rfl⟩

theorem IsFail.not_ok {α} {r : R α} (h : IsFail r) (v : α) : r ≠ .ok v := by
  obtain ⟨m, rfl⟩ := h; intro h; cases h

theorem IsFail.not_panic {α} {r : R α} (h : IsFail r) (s : String) : r ≠ .error (.panic s) := by
  obtain ⟨m, rfl⟩ := h; intro h; cases h

/-- the four `fix:` commits the out-of-bounds behaviour depends on (the other four are irrelevant here): `BytesView::get`'s
index check, `FixedSizeBinaryDeserializer::new`'s `% 0`, the row checks of the Struct and Null readers -/
structure OutFixes (fx : Fixes) : Prop where
  bytesGet : fx.bytesGet = true
  fsbZero : fx.fsbZero = true
  structIdx : fx.structIdx = true
  nullLen : fx.nullLen = true

theorem OutFixes.all : OutFixes Fixes.all := ⟨rfl, rfl, rfl, rfl⟩

/-! ### the accessors -/

theorem primGet_beyond (fx : Fixes) (v : Option Bits) (vals : List Int) (idx : Nat) (h : vals.length ≤ idx) :
    primGet fx v vals idx = fail "Access beyond array length" := by
  simp only [primGet, List.getElem?_eq_none h]

theorem boolGet_beyond (fx : Fixes) (len : Nat) (v : Option Bits) (vals : Bits) (idx : Nat) (h : len ≤ idx) :
    boolGet fx len v vals idx = fail "Out of bounds access" := by
  have c : idx ≥ len := h
  simp only [boolGet, c, if_true]

theorem bytesGet_beyond {fx : Fixes} (hf : OutFixes fx) (v : Option Bits) (offs : List Int) (data : Bytes) (idx : Nat) (h : offs.length - 1 ≤ idx) :
    bytesGet fx v offs data idx = fail "Invalid access: tried to get element of array" := by
  have c : idx + 1 ≥ offs.length := by omega
  simp only [bytesGet, hf.bytesGet, c, if_true]

theorem bytesColGet_beyond {fx : Fixes} (hf : OutFixes fx) (ty : BytesTy) (v : Option Bits) (offs : List Int) (data : Bytes) (idx : Nat)
    (h : offs.length - 1 ≤ idx) :
    bytesColGet fx ty v offs data idx = fail "Invalid access: tried to get element of array" := by
  simp only [bytesColGet, bytesGet_beyond hf v offs data idx h]
  split <;> rfl

theorem viewGet_beyond (fx : Fixes) (v : Option Bits) (views : List Nat) (buffers : List Bytes) (idx : Nat)
    (h : views.length ≤ idx) : viewGet fx v views buffers idx = fail "Invalid access: tried to get element of array" := by
  simp only [viewGet, List.getElem?_eq_none h]

theorem viewColGet_beyond (fx : Fixes) (ty : ViewTy) (v : Option Bits) (views : List Nat) (buffers : List Bytes) (idx : Nat)
    (h : views.length ≤ idx) :
    viewColGet fx ty v views buffers idx = fail "Invalid access: tried to get element of array" := by
  simp only [viewColGet, viewGet_beyond fx v views buffers idx h]
  split <;> rfl

theorem fsbColGet_beyond {fx : Fixes} (hf : OutFixes fx) (n : Int) (v : Option Bits) (data : Bytes) (idx : Nat)
    (h : lenOf (.fixedSizeBinary n v data) ≤ idx) : IsFail (fsbColGet fx n v data idx) := by
  simp only [lenOf] at h
  unfold fsbColGet fsbNew
  by_cases h1 : n < 0
  · simp only [h1, if_true]; exact ⟨_, rfl⟩
  · by_cases h2 : n.toNat = 0
    · simp only [h1, h2, if_false, if_true, hf.fsbZero]
      split
      · have c : idx ≥ 0 := Nat.zero_le _
        simp only [bind, Except.bind, fsbGet, c, if_true]; exact ⟨_, rfl⟩
      · exact ⟨_, rfl⟩
    · by_cases h3 : data.length % n.toNat = 0
      · have hn : ¬ n ≤ 0 := by omega
        simp only [hn, if_false] at h
        have c : idx ≥ data.length / n.toNat := h
        simp only [h1, h2, h3, if_false, ne_eq, not_true_eq_false, bind, Except.bind, fsbGet, c, if_true]; exact ⟨_, rfl⟩
      · simp only [h1, h2, h3, if_false, ne_eq, not_false_eq_true, if_true]; exact ⟨_, rfl⟩

theorem listRange_beyond (fx : Fixes) (offs : List Int) (idx : Nat) (h : offs.length - 1 ≤ idx) :
    listRange fx offs idx = fail "Out of bounds access" := by
  have c : idx + 1 ≥ offs.length := by omega
  simp only [listRange, c, if_true]

theorem fslRange_beyond (fx : Fixes) (len : Nat) (n : Int) (idx : Nat) (h : len ≤ idx) :
    fslRange fx len n idx = fail "Out of bounds access" := by
  have c : idx ≥ len := h
  simp only [fslRange, c, if_true]

theorem nullCheck_beyond {fx : Fixes} (hf : OutFixes fx) (len idx : Nat) (h : len ≤ idx) : nullCheck fx len idx = fail "Out of bounds access" := by
  have c : idx ≥ len := h
  simp only [nullCheck, hf.nullLen, c, decide_true, Bool.and_self, if_true]

theorem structItem_beyond {fx : Fixes} (hf : OutFixes fx) (len idx : Nat) (h : len ≤ idx) : structItem fx len idx = fail "Out of bounds access" := by
  have c : idx ≥ len := h
  simp only [structItem, hf.structIdx, c, decide_true, Bool.and_self, if_true]

theorem unionSelect_beyond (fx : Fixes) (types : List Int) (offs : Option (List Int)) (nv idx : Nat)
    (h : types.length ≤ idx) : unionSelect fx types offs nv idx = fail "Exhausted deserializer" := by
  have c : idx ≥ types.length := h
  simp only [unionSelect, c, if_true]

theorem dictGetStr_beyond (fx : Fixes) (ks vs : Arr) (idx : Nat) (h : lenOf ks ≤ idx) : IsFail (dictGetStr fx ks vs idx) := by
  unfold dictGetStr
  split
  · simp only [lenOf] at h
    simp only [primGet_beyond fx _ _ idx h]; exact ⟨_, rfl⟩
  · exact ⟨_, rfl⟩

/-! ### `is_some`, the scalar methods, the element accessors -/

theorem isSome_beyond {fx : Fixes} (hf : OutFixes fx) (b : Arr) (idx : Nat) (h : lenOf b ≤ idx) : IsFail (isSome fx b idx) := by
  cases b with
  | null len => simp only [lenOf] at h; simp only [isSome, nullCheck_beyond hf len idx h]; exact ⟨_, rfl⟩
  | boolean len v vals => simp only [lenOf] at h; simp only [isSome, boolGet_beyond _ len v vals idx h]; exact ⟨_, rfl⟩
  | prim ty v vals => simp only [lenOf] at h; simp only [isSome, primGet_beyond _ v vals idx h]; exact ⟨_, rfl⟩
  | time ty u v vals => simp only [lenOf] at h; simp only [isSome, primGet_beyond _ v vals idx h]; exact ⟨_, rfl⟩
  | timestamp u tz v vals => simp only [lenOf] at h; simp only [isSome, primGet_beyond _ v vals idx h]; exact ⟨_, rfl⟩
  | decimal128 p s v vals => simp only [lenOf] at h; simp only [isSome, primGet_beyond _ v vals idx h]; exact ⟨_, rfl⟩
  | bytes ty v offs data =>
    simp only [lenOf] at h; simp only [isSome, bytesColGet_beyond hf ty v offs data idx h]; exact ⟨_, rfl⟩
  | bytesView ty v views buffers =>
    simp only [lenOf] at h; simp only [isSome, viewColGet_beyond _ ty v views buffers idx h]; exact ⟨_, rfl⟩
  | fixedSizeBinary n v data => simp only [isSome]; exact (fsbColGet_beyond hf n v data idx h).bind _
  | struct len v fs => simp only [lenOf] at h; have c : idx ≥ len := h; simp only [isSome, c, if_true]; exact ⟨_, rfl⟩
  | list lg v offs fm el =>
    simp only [lenOf] at h; have c : idx + 1 ≥ offs.length := by omega
    simp only [isSome, c, if_true]; exact ⟨_, rfl⟩
  | fixedSizeList len v n fm el =>
    simp only [lenOf] at h; have c : idx ≥ len := h; simp only [isSome, c, if_true]; exact ⟨_, rfl⟩
  | map v offs mm ks vs =>
    simp only [lenOf] at h; have c : idx + 1 ≥ offs.length := by omega
    simp only [isSome, c, if_true]; exact ⟨_, rfl⟩
  | dictionary ks vs =>
    simp only [lenOf] at h
    simp only [isSome]
    split
    · simp only [lenOf] at h; simp only [primGet_beyond _ _ _ idx h]; exact ⟨_, rfl⟩
    · exact ⟨_, rfl⟩
  | union types offs fs => simp only [lenOf] at h; have c : idx ≥ types.length := h; simp only [isSome, c, if_true]; exact ⟨_, rfl⟩

theorem readAny_beyond {fx : Fixes} (hf : OutFixes fx) (b : Arr) (idx : Nat) (h : lenOf b ≤ idx) : IsFail (readAny fx b idx) := by
  unfold readAny anyAt
  exact (isSome_beyond hf b idx h).bind _

/-- closes `IsFail (match … with | … => .error (.err _) …)` goals: every leaf is literally a failure -/
macro "leaf_fail" : tactic => `(tactic| (repeat' split) <;> exact ⟨_, rfl⟩)

theorem scalar_beyond {fx : Fixes} (hf : OutFixes fx) (m : Method) (b : Arr) (idx : Nat) (h : lenOf b ≤ idx) : IsFail (scalar fx m b idx) := by
  cases b with
  | null len =>
    simp only [lenOf] at h
    unfold scalar
    simp only [nullCheck_beyond hf len idx h]
    leaf_fail
  | boolean len v vals =>
    simp only [lenOf] at h
    unfold scalar
    simp only [boolGet_beyond _ len v vals idx h]
    leaf_fail
  | prim ty v vals =>
    simp only [lenOf] at h
    unfold scalar
    simp only [codecRead, primGet_beyond _ v vals idx h]
    leaf_fail
  | time ty u v vals =>
    simp only [lenOf] at h
    unfold scalar
    simp only [codecRead, primGet_beyond _ v vals idx h]
    leaf_fail
  | timestamp u tz v vals =>
    simp only [lenOf] at h
    unfold scalar
    simp only [codecRead, primGet_beyond _ v vals idx h]
    leaf_fail
  | decimal128 p s v vals =>
    simp only [lenOf] at h
    unfold scalar
    simp only [codecRead, primGet_beyond _ v vals idx h]
    leaf_fail
  | bytes ty v offs data =>
    simp only [lenOf] at h
    unfold scalar
    simp only [bytesColGet_beyond hf ty v offs data idx h]
    leaf_fail
  | bytesView ty v views buffers =>
    simp only [lenOf] at h
    unfold scalar
    simp only [viewColGet_beyond _ ty v views buffers idx h]
    leaf_fail
  | fixedSizeBinary n v data =>
    obtain ⟨msg, hm⟩ := fsbColGet_beyond hf n v data idx h
    unfold scalar
    simp only [hm]
    leaf_fail
  | dictionary ks vs =>
    simp only [lenOf] at h
    obtain ⟨msg, hm⟩ := dictGetStr_beyond fx ks vs idx h
    unfold scalar
    simp only [hm]
    leaf_fail
  | struct len v fs => unfold scalar; exact ⟨_, rfl⟩
  | list lg v offs fm el => unfold scalar; exact ⟨_, rfl⟩
  | fixedSizeList len v n fm el => unfold scalar; exact ⟨_, rfl⟩
  | map v offs mm ks vs => unfold scalar; exact ⟨_, rfl⟩
  | union types offs fs => unfold scalar; exact ⟨_, rfl⟩

theorem binaryElems_beyond {fx : Fixes} (hf : OutFixes fx) (b : Arr) (idx : Nat) (h : lenOf b ≤ idx) (rb : R Bytes)
    (hb : binaryElems fx b idx = some rb) : IsFail rb := by
  cases b with
  | bytes ty v offs data =>
    simp only [lenOf] at h
    simp only [binaryElems, bytesColGet_beyond hf ty v offs data idx h] at hb
    split at hb
    · cases hb
    · cases hb; exact ⟨_, rfl⟩
  | bytesView ty v views buffers =>
    simp only [lenOf] at h
    simp only [binaryElems, viewColGet_beyond _ ty v views buffers idx h] at hb
    split at hb
    · cases hb
    · cases hb; exact ⟨_, rfl⟩
  | fixedSizeBinary n v data =>
    simp only [binaryElems] at hb
    cases hb
    exact (fsbColGet_beyond hf n v data idx h).bind _
  | _ => simp only [binaryElems] at hb; cases hb

theorem stringElem_beyond {fx : Fixes} (hf : OutFixes fx) (b : Arr) (idx : Nat) (h : lenOf b ≤ idx) (rs : R Bytes)
    (hb : stringElem fx b idx = some rs) : IsFail rs := by
  cases b with
  | bytes ty v offs data =>
    simp only [lenOf] at h
    simp only [stringElem, bytesColGet_beyond hf ty v offs data idx h] at hb
    split at hb
    · cases hb; exact ⟨_, rfl⟩
    · cases hb
  | bytesView ty v views buffers =>
    simp only [lenOf] at h
    simp only [stringElem, viewColGet_beyond _ ty v views buffers idx h] at hb
    split at hb
    · cases hb; exact ⟨_, rfl⟩
    · cases hb
  | dictionary ks vs =>
    simp only [lenOf] at h
    simp only [stringElem] at hb
    cases hb
    exact dictGetStr_beyond _ ks vs idx h
  | _ => simp only [stringElem] at hb; cases hb

/-! ### the typed reads -/

theorem scalarRead_beyond {fx : Fixes} (hf : OutFixes fx) (t : Target) (m : Method) (b : Arr) (idx : Nat) (h : lenOf b ≤ idx) :
    IsFail (scalar fx m b idx >>= accept t) := (scalar_beyond hf m b idx h).bind _

theorem tupleVisit_beyond {fx : Fixes} (hf : OutFixes fx) (rf : ArrFields → R (List DVal)) (b : Arr) (idx : Nat) (h : lenOf b ≤ idx) :
    IsFail (tupleVisit fx rf b idx) := by
  unfold tupleVisit
  split
  · simp only [lenOf] at h; simp only [structItem_beyond hf _ idx h]; exact ⟨_, rfl⟩
  · exact ⟨_, rfl⟩

theorem structVisit_beyond {fx : Fixes} (hf : OutFixes fx) (rf : Slots → String → Arr → R (Option (Nat × DVal))) (tfs : TFields) (b : Arr) (idx : Nat)
    (h : lenOf b ≤ idx) : IsFail (structVisit fx rf tfs b idx) := by
  unfold structVisit
  split
  · simp only [lenOf] at h; simp only [structItem_beyond hf _ idx h]; exact ⟨_, rfl⟩
  · exact ⟨_, rfl⟩

/-- every typed read beyond the length of a view is an `Err` — for EVERY target and EVERY array, no hypothesis -/
theorem readAs_beyond {fx : Fixes} (hf : OutFixes fx) : ∀ (t : Target) (b : Arr) (idx : Nat), lenOf b ≤ idx → IsFail (readAs fx t b idx)
  | .any, b, idx, h => by unfold readAs; exact readAny_beyond hf b idx h
  | .ignored, b, idx, h => by unfold readAs; exact (readAny_beyond hf b idx h).bind _
  | .unit, b, idx, h => by unfold readAs; exact scalarRead_beyond hf _ _ b idx h
  | .unitStruct, b, idx, h => by unfold readAs; exact scalarRead_beyond hf _ _ b idx h
  | .bool, b, idx, h => by unfold readAs; exact scalarRead_beyond hf _ _ b idx h
  | .int ty, b, idx, h => by unfold readAs; exact scalarRead_beyond hf _ _ b idx h
  | .f32, b, idx, h => by unfold readAs; exact scalarRead_beyond hf _ _ b idx h
  | .f64, b, idx, h => by unfold readAs; exact scalarRead_beyond hf _ _ b idx h
  | .char, b, idx, h => by unfold readAs; exact scalarRead_beyond hf _ _ b idx h
  | .string, b, idx, h => by unfold readAs; exact scalarRead_beyond hf _ _ b idx h
  | .str, b, idx, h => by unfold readAs; exact scalarRead_beyond hf _ _ b idx h
  | .bytes, b, idx, h => by
    unfold readAs
    split
    · simp only [lenOf] at h; simp only [listRange_beyond _ _ idx h]; exact ⟨_, rfl⟩
    · exact scalarRead_beyond hf _ _ _ idx h
  | .byteBuf, b, idx, h => by
    unfold readAs
    split
    · simp only [lenOf] at h; simp only [listRange_beyond _ _ idx h]; exact ⟨_, rfl⟩
    · exact scalarRead_beyond hf _ _ _ idx h
  | .option t, b, idx, h => by unfold readAs; exact (isSome_beyond hf b idx h).bind _
  | .newtype t, b, idx, h => by unfold readAs; exact readAs_beyond hf t b idx h
  | .seq t, b, idx, h => by
    unfold readAs
    split
    · simp only [lenOf] at h; simp only [listRange_beyond _ _ idx h]; exact ⟨_, rfl⟩
    · simp only [lenOf] at h; simp only [fslRange_beyond _ _ _ idx h]; exact ⟨_, rfl⟩
    · split
      · rename_i rb hb
        exact (binaryElems_beyond hf _ idx h rb hb).bind _
      · exact ⟨_, rfl⟩
  | .tuple ts, b, idx, h => by unfold readAs; exact tupleVisit_beyond hf _ b idx h
  | .tupleStruct ts, b, idx, h => by unfold readAs; exact tupleVisit_beyond hf _ b idx h
  | .map k v, b, idx, h => by
    unfold readAs
    split
    · simp only [lenOf] at h; simp only [structItem_beyond hf _ idx h]; exact ⟨_, rfl⟩
    · simp only [lenOf] at h; simp only [listRange_beyond _ _ idx h]; exact ⟨_, rfl⟩
    · exact ⟨_, rfl⟩
  | .struct tfs, b, idx, h => by unfold readAs; exact structVisit_beyond hf _ tfs b idx h
  | .enum byIndex vs, b, idx, h => by
    unfold readAs
    split
    · simp only [lenOf] at h; simp only [unionSelect_beyond _ _ _ _ idx h]; exact ⟨_, rfl⟩
    · split
      · rename_i rs hb
        exact (stringElem_beyond hf _ idx h rs hb).bind _
      · exact ⟨_, rfl⟩

/-! ### out of the window of a slice -/

theorem window_length_le {α} (xs : List α) (o n : Nat) : (window xs o n).length ≤ n := by
  simp only [window, List.length_take]; omega

/-- the length of a slice is at most `l` — for EVERY window, also one that sticks out of the array -/
theorem lenOf_slice_le : ∀ (a : Arr) (o l : Nat), lenOf (sliceView a o l) ≤ l
  | .null _, _, _ => by simp only [sliceView, lenOf]; exact Nat.le_refl _
  | .boolean _ _ _, _, _ => by simp only [sliceView, lenOf]; exact Nat.le_refl _
  | .prim _ _ vals, o, l => by simp only [sliceView, lenOf]; exact window_length_le _ _ _
  | .time _ _ _ vals, o, l => by simp only [sliceView, lenOf]; exact window_length_le _ _ _
  | .timestamp _ _ _ vals, o, l => by simp only [sliceView, lenOf]; exact window_length_le _ _ _
  | .decimal128 _ _ _ vals, o, l => by simp only [sliceView, lenOf]; exact window_length_le _ _ _
  | .bytes _ _ offs _, o, l => by
    simp only [sliceView, lenOf]; have := window_length_le offs o (l + 1); omega
  | .bytesView _ _ views _, o, l => by simp only [sliceView, lenOf]; exact window_length_le _ _ _
  | .fixedSizeBinary n _ data, o, l => by
    simp only [sliceView, lenOf]
    split
    · exact Nat.zero_le _
    · apply Nat.div_le_of_le_mul
      have := window_length_le data (o * n.toNat) (l * n.toNat)
      rw [Nat.mul_comm n.toNat l]
      exact this
  | .struct _ _ _, _, _ => by simp only [sliceView, lenOf]; exact Nat.le_refl _
  | .list _ _ offs _ _, o, l => by
    simp only [sliceView, lenOf]; have := window_length_le offs o (l + 1); omega
  | .fixedSizeList _ _ _ _ _, _, _ => by simp only [sliceView, lenOf]; exact Nat.le_refl _
  | .map _ offs _ _ _, o, l => by
    simp only [sliceView, lenOf]; have := window_length_le offs o (l + 1); omega
  | .dictionary ks _, o, l => by simp only [sliceView, lenOf]; exact lenOf_slice_le ks o l
  | .union types offs _, o, l => by
    cases offs <;> (simp only [sliceView, lenOf]; exact window_length_le _ _ _)

end SaModel.Lemmas.C12
