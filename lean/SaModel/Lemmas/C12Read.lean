import SaModel.Lemmas.C12Basic
import SaModel.Lemmas.C02Container
import SaModel.Read.ToD
/-
C12 helpers, part 4: what the hypotheses of C02 (`read_any_decode`) become on a slice — the type skeleton (`toD`) is
untouched, the reader can still be built (`new`), the lengths stay representable (`physical`).
-/
namespace SaModel.Lemmas.C12
open SaModel SaModel.Read SaModel.Spec

/-! ### `toD`: slicing never touches names, widths, or variant tables -/

theorem toDList_congr (a b : Arr) (h : ∀ v, toD a v = toD b v) : ∀ items, toDList a items = toDList b items
  | .nil => by simp only [toDList]
  | .cons v r => by simp only [toDList, h v, toDList_congr a b h r]

/-- the union arm of `toD`, as a function of the variant found -/
def variantD (v : LVal) : Option (FieldMeta × Arr) → DVal
  | some (fm, child) => .enum (.str .transient (strBytes fm.name)) (toD child v)
  | none => .none

theorem toD_union (types : List Int) (offs : Option (List Int)) (fs : ArrUFields) (t : Int) (v : LVal) :
    toD (.union types offs fs) (.union t v) = variantD v (ArrUFields.findId fs t) := by
  simp only [toD]
  cases ArrUFields.findId fs t with
  | none => rfl
  | some p => rfl

mutual
theorem toD_slice : ∀ (a : Arr) (o l : Nat) (lv : LVal), toD (sliceView a o l) lv = toD a lv
  | .null _, _, _, lv => by cases lv <;> simp only [sliceView, toD]
  | .boolean _ _ _, _, _, lv => by cases lv <;> simp only [sliceView, toD]
  | .prim _ _ _, _, _, lv => by cases lv <;> simp only [sliceView, toD]
  | .time _ _ _ _, _, _, lv => by cases lv <;> simp only [sliceView, toD]
  | .timestamp _ _ _ _, _, _, lv => by cases lv <;> simp only [sliceView, toD]
  | .decimal128 _ _ _ _, _, _, lv => by cases lv <;> simp only [sliceView, toD]
  | .bytes _ _ _ _, _, _, lv => by cases lv <;> simp only [sliceView, toD]
  | .bytesView _ _ _ _, _, _, lv => by cases lv <;> simp only [sliceView, toD]
  | .fixedSizeBinary _ _ _, _, _, lv => by cases lv <;> simp only [sliceView, toD]
  | .struct _ _ fs, o, l, lv => by
    cases lv <;> simp only [sliceView, toD]
    rw [toDFields_slice fs o l]
  | .list _ _ _ _ _, _, _, lv => by cases lv <;> simp only [sliceView, toD]
  | .fixedSizeList _ _ n _ el, o, l, lv => by
    cases lv <;> simp only [sliceView, toD]
    rw [toDList_congr _ _ (toD_slice el (o * n.toNat) (l * n.toNat))]
  | .map _ _ _ _ _, _, _, lv => by cases lv <;> simp only [sliceView, toD]
  | .dictionary _ _, _, _, lv => by cases lv <;> simp only [sliceView, toD]
  | .union _ offs fs, o, l, lv => by
    cases offs with
    | some ofs => cases lv <;> simp only [sliceView, toD]
    | none =>
      cases lv with
      | union t v => simp only [sliceView, toD_union, variantD_slice fs o l t v]
      | _ => simp only [sliceView, toD]
theorem toDFields_slice : ∀ (fs : ArrFields) (o l : Nat) (lfs : LFields), toDFields (sliceFields fs o l) lfs = toDFields fs lfs
  | .nil, _, _, lfs => by cases lfs <;> simp only [sliceFields, toDFields]
  | .cons _ a r, o, l, lfs => by
    cases lfs with
    | nil => simp only [sliceFields, toDFields]
    | cons _ v lr => simp only [sliceFields, toDFields, toD_slice a o l v, toDFields_slice r o l lr]
theorem variantD_slice : ∀ (fs : ArrUFields) (o l : Nat) (t : Int) (v : LVal),
    variantD v (ArrUFields.findId (sliceUFields fs o l) t) = variantD v (ArrUFields.findId fs t)
  | .nil, _, _, _, _ => by simp only [sliceUFields, ArrUFields.findId]
  | .cons i _ a r, o, l, t, v => by
    simp only [sliceUFields, ArrUFields.findId]
    by_cases h : (i == t) = true
    · simp only [h, if_true, variantD, toD_slice a o l v]
    · simp only [h, Bool.false_eq_true, if_false, variantD_slice r o l t v]
end

/-! ### `new`: a reader can be built on the slice whenever it can be built on the array -/

theorem fsbNew_slice (fx : Fixes) (n : Int) (data : Bytes) (o l : Nat) (r : Nat × Nat)
    (hb : o + l ≤ lenOf (.fixedSizeBinary n none data)) (h : fsbNew fx n data = .ok r) :
    ∃ r', fsbNew fx n (window data (o * n.toNat) (l * n.toNat)) = .ok r' := by
  unfold fsbNew at h ⊢
  by_cases h1 : n < 0
  · simp only [h1, if_true] at h; cases h
  · simp only [h1, if_false] at h ⊢
    by_cases h2 : n.toNat = 0
    · simp only [h2, if_true] at h ⊢
      cases hz : fx.fsbZero with
      | false => simp only [hz] at h; cases h
      | true =>
        refine ⟨(0, 0), ?_⟩
        simp [window]
    · simp only [h2, if_false] at h ⊢
      split at h
      · cases h
      · rename_i hdiv
        have hn : ¬ n ≤ 0 := by omega
        simp only [lenOf, hn, if_false] at hb
        have hmul : (o + l) * n.toNat ≤ data.length := by
          have := Nat.mul_le_mul_right n.toNat hb
          have := Nat.div_mul_le_self data.length n.toNat
          omega
        rw [Nat.add_mul] at hmul
        rw [window_length _ _ _ hmul]
        simp only [Nat.mul_mod_left, ne_eq, not_true_eq_false, if_false]
        exact ⟨_, rfl⟩

mutual
theorem new_slice (fx : Fixes) : ∀ (a : Arr) (o l : Nat), o + l ≤ lenOf a → sliceable a = true →
    new fx a = .ok () → new fx (sliceView a o l) = .ok ()
  | .null _, _, _, _, _, _ => by simp only [sliceView, new]
  | .boolean _ _ _, _, _, _, _, _ => by simp only [sliceView, new]
  | .prim _ _ _, _, _, _, _, _ => by simp only [sliceView, new]
  | .time _ _ _ _, _, _, _, _, _ => by simp only [sliceView, new]
  | .timestamp _ _ _ _, _, _, _, _, h => by simp only [sliceView, new] at h ⊢; exact h
  | .decimal128 _ _ _ _, _, _, _, _, _ => by simp only [sliceView, new]
  | .bytes _ _ _ _, _, _, _, _, _ => by simp only [sliceView, new]
  | .bytesView _ _ _ _, _, _, _, _, _ => by simp only [sliceView, new]
  | .fixedSizeBinary n v data, o, l, hb, _, h => by
    simp only [sliceView, new] at h ⊢
    obtain ⟨r, hr, _⟩ := bind_ok_inv h
    obtain ⟨r', hr'⟩ := fsbNew_slice fx n data o l r (by simpa only [lenOf] using hb) hr
    rw [hr']; rfl
  | .struct len _ fs, o, l, hb, hs, h => by
    simp only [lenOf] at hb
    simp only [sliceable] at hs
    simp only [sliceView, new] at h ⊢
    exact newFields_slice fx fs len o l hb hs h
  | .list _ _ _ _ _, _, _, _, _, h => by simp only [sliceView, new] at h ⊢; exact h
  | .fixedSizeList len _ n fm el, o, l, hb, hs, h => by
    simp only [lenOf] at hb
    simp only [sliceable, Bool.and_eq_true, decide_eq_true_eq] at hs
    simp only [sliceView, new] at h ⊢
    obtain ⟨u1, h1, h⟩ := bind_ok_inv h
    obtain ⟨u2, h2, h⟩ := bind_ok_inv h
    cases u1; cases u2
    rw [h1, new_slice fx el _ _ (mul_window_le hb hs.1) hs.2 h2]
    exact h
  | .map _ _ _ _ _, _, _, _, _, h => by simp only [sliceView, new] at h ⊢; exact h
  | .dictionary ks vs, o, l, _, _, h => by
    cases ks with
    | prim kty kv kvals => cases vs <;> first | (simp only [sliceView, new] at h ⊢; exact h) | (simp only [new] at h; cases h)
    | _ => simp only [new] at h; cases h
  | .union types offs fs, o, l, hb, _, h => by
    simp only [lenOf] at hb
    cases offs with
    | none => simp only [new] at h; cases h
    | some ofs =>
      simp only [sliceView, new] at h ⊢
      split at h
      · cases h
      · rename_i hlen
        have hlen' : types.length = ofs.length := by omega
        have : (window types o l).length = (window ofs o l).length := by
          rw [window_length _ _ _ hb, window_length _ _ _ (by omega)]
        simp only [this, ne_eq, not_true_eq_false, if_false]
        exact h
theorem newFields_slice (fx : Fixes) : ∀ (fs : ArrFields) (len o l : Nat), o + l ≤ len → sliceableFields fs len = true →
    newFields fx fs = .ok () → newFields fx (sliceFields fs o l) = .ok ()
  | .nil, _, _, _, _, _, _ => by simp only [sliceFields, newFields]
  | .cons fm a r, len, o, l, hb, hs, h => by
    simp only [sliceableFields, Bool.and_eq_true, decide_eq_true_eq] at hs
    simp only [sliceFields, newFields] at h ⊢
    obtain ⟨u1, h1, h⟩ := bind_ok_inv h
    obtain ⟨u2, h2, h⟩ := bind_ok_inv h
    cases u1; cases u2
    rw [h1, new_slice fx a o l (by omega) hs.1.2 h2]
    exact newFields_slice fx r len o l hb hs.2 h
end

/-! ### `physical`: lengths stay representable -/

mutual
theorem physical_slice : ∀ (a : Arr) (o l : Nat), o + l ≤ lenOf a → sliceable a = true →
    physical a = true → physical (sliceView a o l) = true
  | .null _, _, _, _, _, _ => by simp only [sliceView, physical]
  | .boolean _ _ _, _, _, _, _, _ => by simp only [sliceView, physical]
  | .prim _ _ _, _, _, _, _, _ => by simp only [sliceView, physical]
  | .time _ _ _ _, _, _, _, _, _ => by simp only [sliceView, physical]
  | .timestamp _ _ _ _, _, _, _, _, _ => by simp only [sliceView, physical]
  | .decimal128 _ _ _ _, _, _, _, _, _ => by simp only [sliceView, physical]
  | .bytes _ _ _ _, _, _, _, _, _ => by simp only [sliceView, physical]
  | .bytesView _ _ _ _, _, _, _, _, _ => by simp only [sliceView, physical]
  | .fixedSizeBinary _ _ _, _, _, _, _, _ => by simp only [sliceView, physical]
  | .struct len _ fs, o, l, hb, hs, h => by
    simp only [lenOf] at hb
    simp only [sliceable] at hs
    simp only [sliceView, physical] at h ⊢
    exact physicalFields_slice fs len o l hb hs h
  | .list _ _ _ _ _, _, _, _, _, h => by simp only [sliceView, physical] at h ⊢; exact h
  | .fixedSizeList len _ n _ el, o, l, hb, hs, h => by
    simp only [lenOf] at hb
    simp only [sliceable, Bool.and_eq_true, decide_eq_true_eq] at hs
    simp only [sliceView, physical, Bool.and_eq_true, decide_eq_true_eq] at h ⊢
    have hw := mul_window_le hb hs.1
    refine ⟨?_, physical_slice el _ _ hw hs.2 h.2⟩
    rw [lenOf_slice el _ _ hw]; omega
  | .map _ _ _ _ _, _, _, _, _, h => by simp only [sliceView, physical] at h ⊢; exact h
  | .dictionary _ _, _, _, _, _, h => by simp only [sliceView, physical] at h ⊢; exact h
  | .union types offs fs, o, l, hb, hs, h => by
    simp only [lenOf] at hb
    cases offs with
    | some ofs => simp only [sliceView, physical] at h ⊢; exact h
    | none =>
      simp only [sliceable] at hs
      simp only [sliceView, physical] at h ⊢
      exact physicalUFields_slice fs types.length o l hb hs h
theorem physicalFields_slice : ∀ (fs : ArrFields) (len o l : Nat), o + l ≤ len → sliceableFields fs len = true →
    physicalFields fs = true → physicalFields (sliceFields fs o l) = true
  | .nil, _, _, _, _, _, _ => by simp only [sliceFields, physicalFields]
  | .cons _ a r, len, o, l, hb, hs, h => by
    simp only [sliceableFields, Bool.and_eq_true, decide_eq_true_eq] at hs
    simp only [sliceFields, physicalFields, Bool.and_eq_true] at h ⊢
    exact ⟨physical_slice a o l (by omega) hs.1.2 h.1, physicalFields_slice r len o l hb hs.2 h.2⟩
theorem physicalUFields_slice : ∀ (fs : ArrUFields) (len o l : Nat), o + l ≤ len → sliceableUFields fs len = true →
    physicalUFields fs = true → physicalUFields (sliceUFields fs o l) = true
  | .nil, _, _, _, _, _, _ => by simp only [sliceUFields, physicalUFields]
  | .cons _ _ a r, len, o, l, hb, hs, h => by
    simp only [sliceableUFields, Bool.and_eq_true, decide_eq_true_eq] at hs
    simp only [sliceUFields, physicalUFields, Bool.and_eq_true] at h ⊢
    exact ⟨physical_slice a o l (by omega) hs.1.2 h.1, physicalUFields_slice r len o l hb hs.2 h.2⟩
end

/-- the reader refuses sparse unions at construction (`enum_deserializer.rs`: "Only dense unions are supported"), so
no read of a sparse union — sliced or not — ever happens; the slice property for them lives at the level of the
Arrow reading rules (`decodeAt_slice`) only -/
theorem new_sparse_union_fails (fx : Fixes) (types : List Int) (fs : ArrUFields) :
    new fx (.union types none fs) = fail "Only dense unions are supported" := by
  simp only [new]

end SaModel.Lemmas.C12
