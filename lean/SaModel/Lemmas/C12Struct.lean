import SaModel.Lemmas.C12Basic
/-
C12 helpers, part 3: slicing twice is slicing once (structurally), and slices of well-formed views are well-formed.
-/
namespace SaModel.Lemmas.C12
open SaModel SaModel.Read SaModel.Spec

theorem mul_window_le' {o2 l2 l1 : Nat} (n : Nat) (h : o2 + l2 ≤ l1) : o2 * n + l2 * n ≤ l1 * n := by
  have := Nat.mul_le_mul_right n h
  rw [Nat.add_mul] at this
  exact this

mutual
/-- a slice of a slice IS the slice by the composed window — the same view, field for field; the only hypothesis is
that the second window lies inside the first (nothing is assumed about the array) -/
theorem sliceView_sliceView' : ∀ (a : Arr) (o1 l1 o2 l2 : Nat), o2 + l2 ≤ l1 →
    sliceView (sliceView a o1 l1) o2 l2 = sliceView a (o1 + o2) l2
  | .null _, _, _, _, _, _ => by simp only [sliceView]
  | .boolean _ _ _, _, _, _, _, _ => by simp only [sliceView, shiftV_shiftV, shiftBits_shiftBits]
  | .prim _ _ _, _, _, _, _, h => by simp only [sliceView, shiftV_shiftV, window_window _ _ _ _ _ h]
  | .time _ _ _ _, _, _, _, _, h => by simp only [sliceView, shiftV_shiftV, window_window _ _ _ _ _ h]
  | .timestamp _ _ _ _, _, _, _, _, h => by simp only [sliceView, shiftV_shiftV, window_window _ _ _ _ _ h]
  | .decimal128 _ _ _ _, _, _, _, _, h => by simp only [sliceView, shiftV_shiftV, window_window _ _ _ _ _ h]
  | .bytes _ _ _ _, _, l1, o2, l2, h => by
    simp only [sliceView, shiftV_shiftV, window_window _ _ _ _ _ (show o2 + (l2 + 1) ≤ l1 + 1 by omega)]
  | .bytesView _ _ _ _, _, _, _, _, h => by simp only [sliceView, shiftV_shiftV, window_window _ _ _ _ _ h]
  | .fixedSizeBinary n _ _, o1, l1, o2, l2, h => by
    simp only [sliceView, shiftV_shiftV, window_window _ _ _ _ _ (mul_window_le' n.toNat h), Nat.add_mul]
  | .struct _ _ fs, o1, l1, o2, l2, h => by
    simp only [sliceView, shiftV_shiftV, sliceFields_sliceFields fs o1 l1 o2 l2 h]
  | .list _ _ _ _ _, _, l1, o2, l2, h => by
    simp only [sliceView, shiftV_shiftV, window_window _ _ _ _ _ (show o2 + (l2 + 1) ≤ l1 + 1 by omega)]
  | .fixedSizeList _ _ n _ el, o1, l1, o2, l2, h => by
    simp only [sliceView, shiftV_shiftV,
      sliceView_sliceView' el (o1 * n.toNat) (l1 * n.toNat) (o2 * n.toNat) (l2 * n.toNat) (mul_window_le' n.toNat h), Nat.add_mul]
  | .map _ _ _ _ _, _, l1, o2, l2, h => by
    simp only [sliceView, shiftV_shiftV, window_window _ _ _ _ _ (show o2 + (l2 + 1) ≤ l1 + 1 by omega)]
  | .dictionary ks _, o1, l1, o2, l2, h => by simp only [sliceView, sliceView_sliceView' ks o1 l1 o2 l2 h]
  | .union _ offs fs, o1, l1, o2, l2, h => by
    cases offs with
    | some ofs => simp only [sliceView, window_window _ _ _ _ _ h]
    | none => simp only [sliceView, window_window _ _ _ _ _ h, sliceUFields_sliceUFields fs o1 l1 o2 l2 h]
theorem sliceFields_sliceFields : ∀ (fs : ArrFields) (o1 l1 o2 l2 : Nat), o2 + l2 ≤ l1 →
    sliceFields (sliceFields fs o1 l1) o2 l2 = sliceFields fs (o1 + o2) l2
  | .nil, _, _, _, _, _ => by simp only [sliceFields]
  | .cons _ a r, o1, l1, o2, l2, h => by
    simp only [sliceFields, sliceView_sliceView' a o1 l1 o2 l2 h, sliceFields_sliceFields r o1 l1 o2 l2 h]
theorem sliceUFields_sliceUFields : ∀ (fs : ArrUFields) (o1 l1 o2 l2 : Nat), o2 + l2 ≤ l1 →
    sliceUFields (sliceUFields fs o1 l1) o2 l2 = sliceUFields fs (o1 + o2) l2
  | .nil, _, _, _, _, _ => by simp only [sliceUFields]
  | .cons _ _ a r, o1, l1, o2, l2, h => by
    simp only [sliceUFields, sliceView_sliceView' a o1 l1 o2 l2 h, sliceUFields_sliceUFields r o1 l1 o2 l2 h]
end

mutual
/-- a slice (inside the bounds) of a well-formed view is well-formed -/
theorem sliceable_slice : ∀ (a : Arr) (o l : Nat), o + l ≤ lenOf a → sliceable a = true → sliceable (sliceView a o l) = true
  | .null _, _, _, _, _ => by simp only [sliceView, sliceable]
  | .boolean _ _ _, _, _, _, _ => by simp only [sliceView, sliceable]
  | .prim _ _ _, _, _, _, _ => by simp only [sliceView, sliceable]
  | .time _ _ _ _, _, _, _, _ => by simp only [sliceView, sliceable]
  | .timestamp _ _ _ _, _, _, _, _ => by simp only [sliceView, sliceable]
  | .decimal128 _ _ _ _, _, _, _, _ => by simp only [sliceView, sliceable]
  | .bytes _ _ _ _, _, _, _, _ => by simp only [sliceView, sliceable]
  | .bytesView _ _ _ _, _, _, _, _ => by simp only [sliceView, sliceable]
  | .fixedSizeBinary _ _ _, _, _, _, _ => by simp only [sliceView, sliceable]
  | .struct len _ fs, o, l, h, hs => by
    simp only [lenOf] at h
    simp only [sliceable] at hs
    simp only [sliceView, sliceable, sliceableFields_slice fs len o l h hs]
  | .list _ _ _ _ _, _, _, _, _ => by simp only [sliceView, sliceable]
  | .fixedSizeList len _ n _ el, o, l, h, hs => by
    simp only [lenOf] at h
    simp only [sliceable, Bool.and_eq_true, decide_eq_true_eq] at hs
    have hw := mul_window_le h hs.1
    simp only [sliceView, sliceable, Bool.and_eq_true, decide_eq_true_eq, lenOf_slice el _ _ hw, Nat.le_refl, true_and]
    exact sliceable_slice el _ _ hw hs.2
  | .map _ _ _ _ _, _, _, _, _ => by simp only [sliceView, sliceable]
  | .dictionary ks _, o, l, h, hs => by
    simp only [lenOf] at h
    simp only [sliceable] at hs
    simp only [sliceView, sliceable, sliceable_slice ks o l h hs]
  | .union types offs fs, o, l, h, hs => by
    simp only [lenOf] at h
    cases offs with
    | some ofs => simp only [sliceView, sliceable]
    | none =>
      simp only [sliceable] at hs
      simp only [sliceView, sliceable, window_length _ _ _ h, sliceableUFields_slice fs types.length o l h hs]
theorem sliceableFields_slice : ∀ (fs : ArrFields) (len o l : Nat), o + l ≤ len → sliceableFields fs len = true →
    sliceableFields (sliceFields fs o l) l = true
  | .nil, _, _, _, _, _ => by simp only [sliceFields, sliceableFields]
  | .cons _ a r, len, o, l, h, hs => by
    simp only [sliceableFields, Bool.and_eq_true, decide_eq_true_eq] at hs
    have hb : o + l ≤ lenOf a := by omega
    simp only [sliceFields, sliceableFields, Bool.and_eq_true, decide_eq_true_eq, lenOf_slice a o l hb, Nat.le_refl,
      sliceable_slice a o l hb hs.1.2, sliceableFields_slice r len o l h hs.2, and_self]
theorem sliceableUFields_slice : ∀ (fs : ArrUFields) (len o l : Nat), o + l ≤ len → sliceableUFields fs len = true →
    sliceableUFields (sliceUFields fs o l) l = true
  | .nil, _, _, _, _, _ => by simp only [sliceUFields, sliceableUFields]
  | .cons _ _ a r, len, o, l, h, hs => by
    simp only [sliceableUFields, Bool.and_eq_true, decide_eq_true_eq] at hs
    have hb : o + l ≤ lenOf a := by omega
    simp only [sliceUFields, sliceableUFields, Bool.and_eq_true, decide_eq_true_eq, lenOf_slice a o l hb, Nat.le_refl,
      sliceable_slice a o l hb hs.1.2, sliceableUFields_slice r len o l h hs.2, and_self]
end

end SaModel.Lemmas.C12
