import SaModel.Lemmas.C12TypedAny
/-
C12 helpers, part 9: the typed reads on a slice, one combinator per target constructor (`SliceP t` from `SliceP` of the
component targets); `SaModel/Props/C12.lean` assembles them by structural recursion over the target.  Everything is
an equality of OUTCOMES: value, `Err` and unwind alike.
-/
namespace SaModel.Lemmas.C12
open SaModel SaModel.Read SaModel.Spec

/-- reading target `t` at slot `i` of any slice = reading it at slot `o + i` of the whole array -/
def SliceP (fx : Fixes) (t : Target) : Prop :=
  ∀ (a : Arr) (o l i : Nat), i < l → SliceOK fx a o l → readAs fx t (sliceView a o l) i = readAs fx t a (o + i)

def AllT (P : Target → Prop) : Targets → Prop
  | .nil => True
  | .cons t r => P t ∧ AllT P r

def AllF (P : Target → Prop) : TFields → Prop
  | .nil => True
  | .cons _ t r => P t ∧ AllF P r

/-! ### any, ignored, scalars -/

theorem sliceP_any (fx : Fixes) : SliceP fx .any := fun a o l i hi h => by
  unfold readAs; exact readAny_slice fx a o l i hi h

theorem sliceP_ignored (fx : Fixes) : SliceP fx .ignored := fun a o l i hi h => by
  unfold readAs; rw [readAny_slice fx a o l i hi h]

theorem sliceP_unit (fx : Fixes) : SliceP fx .unit := fun a o l i hi h => by
  unfold readAs; rw [scalar_slice fx _ a o l i hi h]
theorem sliceP_unitStruct (fx : Fixes) : SliceP fx .unitStruct := fun a o l i hi h => by
  unfold readAs; rw [scalar_slice fx _ a o l i hi h]
theorem sliceP_bool (fx : Fixes) : SliceP fx .bool := fun a o l i hi h => by
  unfold readAs; rw [scalar_slice fx _ a o l i hi h]
theorem sliceP_int (fx : Fixes) (ty : IntTy) : SliceP fx (.int ty) := fun a o l i hi h => by
  unfold readAs; rw [scalar_slice fx _ a o l i hi h]
theorem sliceP_f32 (fx : Fixes) : SliceP fx .f32 := fun a o l i hi h => by
  unfold readAs; rw [scalar_slice fx _ a o l i hi h]
theorem sliceP_f64 (fx : Fixes) : SliceP fx .f64 := fun a o l i hi h => by
  unfold readAs; rw [scalar_slice fx _ a o l i hi h]
theorem sliceP_char (fx : Fixes) : SliceP fx .char := fun a o l i hi h => by
  unfold readAs; rw [scalar_slice fx _ a o l i hi h]
theorem sliceP_string (fx : Fixes) : SliceP fx .string := fun a o l i hi h => by
  unfold readAs; rw [scalar_slice fx _ a o l i hi h]
theorem sliceP_str (fx : Fixes) : SliceP fx .str := fun a o l i hi h => by
  unfold readAs; rw [scalar_slice fx _ a o l i hi h]

/-- `&[u8]`: a list column answers `visit_seq` (rejected) after looking at its offsets; otherwise a scalar read -/
theorem sliceP_bytes (fx : Fixes) : SliceP fx .bytes := fun a o l i hi h => by
  unfold readAs
  have hs := scalar_slice fx .bytes a o l i hi h
  cases a with
  | list lg v offs fm el =>
    have hb := h.1; simp only [lenOf] at hb
    simp only [sliceView, listRange_window fx offs o l i hi hb]
  | union types offs fs => cases offs <;> (simp only [sliceView] at hs ⊢; rw [hs])
  | _ => simp only [sliceView] at hs ⊢; rw [hs]

/-- `ByteBuf`: a list column is read element by element from the (unsliced) child -/
theorem sliceP_byteBuf (fx : Fixes) : SliceP fx .byteBuf := fun a o l i hi h => by
  unfold readAs
  have hs := scalar_slice fx .byteBuf a o l i hi h
  cases a with
  | list lg v offs fm el =>
    have hb := h.1; simp only [lenOf] at hb
    simp only [sliceView, listRange_window fx offs o l i hi hb]
  | union types offs fs => cases offs <;> (simp only [sliceView] at hs ⊢; rw [hs])
  | _ => simp only [sliceView] at hs ⊢; rw [hs]

/-! ### layers that stay on the same array -/

theorem sliceP_option {fx : Fixes} {t : Target} (hS : SliceP fx t) : SliceP fx (.option t) := fun a o l i hi h => by
  unfold readAs
  rw [isSome_slice fx a o l i hi h, hS a o l i hi h]

theorem sliceP_newtype {fx : Fixes} {t : Target} (hS : SliceP fx t) : SliceP fx (.newtype t) := fun a o l i hi h => by
  unfold readAs
  exact hS a o l i hi h

/-! ### sequences -/

theorem sliceP_seq {fx : Fixes} {t : Target} (hS : SliceP fx t) : SliceP fx (.seq t) := fun a o l i hi h => by
  unfold readAs
  have hbe := binaryElems_slice fx a o l i hi h
  cases a with
  | list lg v offs fm el =>
    have hb := h.1; simp only [lenOf] at hb
    simp only [sliceView, listRange_window fx offs o l i hi hb]
  | fixedSizeList len v n fm el =>
    obtain ⟨e1, e2, hj⟩ := fslRange_slice fx hi h
    have hel := h.fsl.1
    have hr : readRange (fun j => readAs fx t (sliceView el (o * n.toNat) (l * n.toNat)) j) (i * n.toNat) n.toNat
        = readRange (fun j => readAs fx t el j) ((o + i) * n.toNat) n.toNat := by
      apply readRange_congr
      intro j hjn
      obtain ⟨j1, j2⟩ := hj j hjn
      rw [j2]
      exact hS el _ _ _ j1 hel
    simp only [sliceView, e1, e2, bind, Except.bind, succ_mul_sub, hr]
  | union types offs fs => cases offs <;> (simp only [sliceView] at hbe ⊢; rw [hbe])
  | _ => simp only [sliceView] at hbe ⊢; rw [hbe]

/-! ### tuples over a struct column -/

theorem readTupleFields_slice {fx : Fixes} : ∀ (ts : Targets), AllT (SliceP fx) ts → ∀ (fs : ArrFields) (len o l i : Nat),
    i < l → FieldsOK fx fs len o l → readTupleFields fx ts (sliceFields fs o l) i = readTupleFields fx ts fs (o + i)
  | .nil, _, _, _, _, _, _, _, _ => by unfold readTupleFields; rfl
  | .cons t rest, hS, fs, len, o, l, i, hi, h => by
    cases fs with
    | nil => simp only [sliceFields]; unfold readTupleFields; rfl
    | cons fm a r =>
      obtain ⟨ha, hr⟩ := h.cons
      simp only [sliceFields]
      unfold readTupleFields
      simp only [hS.1 a o l i hi ha, readTupleFields_slice rest hS.2 r len o l i hi hr]

theorem tupleVisit_slice {fx : Fixes} {ts : Targets} (hS : AllT (SliceP fx) ts) (a : Arr) (o l i : Nat) (hi : i < l)
    (h : SliceOK fx a o l) :
    tupleVisit fx (fun fs => readTupleFields fx ts fs i) (sliceView a o l) i
      = tupleVisit fx (fun fs => readTupleFields fx ts fs (o + i)) a (o + i) := by
  cases a with
  | struct len v fs =>
    have hb := h.1; simp only [lenOf] at hb
    simp only [sliceView, tupleVisit, structItem_slice fx len o l i hi hb,
      readTupleFields_slice ts hS fs len o l i hi h.struct]
  | union types offs fs => cases offs <;> simp only [sliceView, tupleVisit]
  | _ => simp only [sliceView, tupleVisit]

theorem sliceP_tuple {fx : Fixes} {ts : Targets} (hS : AllT (SliceP fx) ts) : SliceP fx (.tuple ts) :=
  fun a o l i hi h => by
    unfold readAs
    exact tupleVisit_slice hS a o l i hi h

theorem sliceP_tupleStruct {fx : Fixes} {ts : Targets} (hS : AllT (SliceP fx) ts) : SliceP fx (.tupleStruct ts) :=
  fun a o l i hi h => by
    unfold readAs
    exact tupleVisit_slice hS a o l i hi h

/-! ### maps: a struct column (field names as keys) or a map column (children untouched by `slice`) -/

theorem mapM_fields_slice {fx : Fixes} {β} (f g : FieldMeta × Arr → R β) {len o l : Nat}
    (hfg : ∀ fm a, SliceOK fx a o l → f (fm, sliceView a o l) = g (fm, a)) :
    ∀ (fs : ArrFields), FieldsOK fx fs len o l → (sliceFields fs o l).toList.mapM f = fs.toList.mapM g
  | .nil, _ => by simp only [sliceFields, ArrFields.toList, List.mapM_nil]
  | .cons fm a r, h => by
    obtain ⟨ha, hr⟩ := h.cons
    simp only [sliceFields, ArrFields.toList, List.mapM_cons, hfg fm a ha, mapM_fields_slice f g hfg r hr]

theorem sliceP_map {fx : Fixes} {k v : Target} (hV : SliceP fx v) : SliceP fx (.map k v) :=
  fun a o l i hi h => by
    unfold readAs
    cases a with
    | struct len vv fs =>
      have hb := h.1; simp only [lenOf] at hb
      simp only [sliceView, structItem_slice fx len o l i hi hb]
      congr 1; funext _; congr 1
      exact mapM_fields_slice _ _ (fun fm a ha => by simp only [hV a o l i hi ha]) fs h.struct
    | map vv offs mm ks vs =>
      have hb := h.1; simp only [lenOf] at hb
      simp only [sliceView, listRange_window fx offs o l i hi hb]
    | union types offs fs => cases offs <;> simp only [sliceView]
    | _ => simp only [sliceView]

/-! ### derived structs over a struct column -/

theorem readFieldAs_slice {fx : Fixes} : ∀ (tfs : TFields), AllF (SliceP fx) tfs → ∀ (pos : Nat) (slots : Slots)
    (name : String) (a : Arr) (o l i : Nat), i < l → SliceOK fx a o l →
    readFieldAs fx tfs pos slots name (sliceView a o l) i = readFieldAs fx tfs pos slots name a (o + i)
  | .nil, _, _, _, _, _, _, _, _, _, _ => by unfold readFieldAs; rfl
  | .cons n t rest, hS, pos, slots, name, a, o, l, i, hi, h => by
    unfold readFieldAs
    simp only [hS.1 a o l i hi h, readFieldAs_slice rest hS.2 (pos + 1) slots name a o l i hi h]

theorem foldlM_fields_slice {fx : Fixes} {σ} (f g : σ → FieldMeta × Arr → R σ) {len o l : Nat}
    (hfg : ∀ s fm a, SliceOK fx a o l → f s (fm, sliceView a o l) = g s (fm, a)) :
    ∀ (fs : ArrFields) (s : σ), FieldsOK fx fs len o l → (sliceFields fs o l).toList.foldlM f s = fs.toList.foldlM g s
  | .nil, _, _ => by simp only [sliceFields, ArrFields.toList, List.foldlM_nil]
  | .cons fm a r, s, h => by
    obtain ⟨ha, hr⟩ := h.cons
    simp only [sliceFields, ArrFields.toList, List.foldlM_cons, hfg s fm a ha]
    cases g s (fm, a) with
    | error e => rfl
    | ok s' => exact foldlM_fields_slice f g hfg r s' hr

theorem structVisit_slice {fx : Fixes} {tfs tfs' : TFields} (hS : AllF (SliceP fx) tfs) (a : Arr) (o l i : Nat) (hi : i < l)
    (h : SliceOK fx a o l) :
    structVisit fx (fun slots name child => readFieldAs fx tfs 0 slots name child i) tfs' (sliceView a o l) i
      = structVisit fx (fun slots name child => readFieldAs fx tfs 0 slots name child (o + i)) tfs' a (o + i) := by
  cases a with
  | struct len v fs =>
    have hb := h.1; simp only [lenOf] at hb
    simp only [sliceView, structVisit, structItem_slice fx len o l i hi hb]
    congr 1; funext _; congr 1
    exact foldlM_fields_slice _ _ (fun s fm a ha => by
      simp only [readFieldAs_slice tfs hS 0 s fm.name a o l i hi ha, readAny_slice fx a o l i hi ha]) fs [] h.struct
  | union types offs fs => cases offs <;> simp only [sliceView, structVisit]
  | _ => simp only [sliceView, structVisit]

theorem sliceP_struct {fx : Fixes} {tfs : TFields} (hS : AllF (SliceP fx) tfs) : SliceP fx (.struct tfs) :=
  fun a o l i hi h => by
    unfold readAs
    exact structVisit_slice hS a o l i hi h

/-! ### enums: dense union columns (type ids and offsets windowed, children untouched), string / dictionary columns -/

theorem sliceP_enum (fx : Fixes) (byIndex : Bool) (vs : TVariants) : SliceP fx (.enum byIndex vs) :=
  fun a o l i hi h => by
    unfold readAs
    have hse := stringElem_slice fx a o l i hi h
    cases a with
    | union types offs fs =>
      have hb := h.1; simp only [lenOf] at hb
      cases offs with
      | none => have := h.2.2.1; simp only [new] at this; cases this
      | some ofs =>
        simp only [sliceView, unionSelect_window fx types ofs fs.length o l i hi hb (new_union_lens h.2.2.1)]
    | _ => simp only [sliceView] at hse ⊢; rw [hse]

end SaModel.Lemmas.C12
