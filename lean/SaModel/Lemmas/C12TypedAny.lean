import SaModel.Lemmas.C12TypedLeaf
/-
C12 helpers, part 8: `deserialize_any` on a slice, proved DIRECTLY by recursion over the array (not through C02's
`read_any_decode`): an equality of outcomes — it also covers slots whose read fails, and needs neither
`decodeAt … = ok` nor UTF-8 validity.
-/
namespace SaModel.Lemmas.C12
open SaModel SaModel.Read SaModel.Spec

theorem succ_mul_sub (i n : Nat) : (i + 1) * n - i * n = n := by
  rw [Nat.succ_mul]; omega

/-- rows `i` of the slice and `o + i` of the whole FixedSizeList: `n` child slots each, starting at `i·n` resp. `o·n + i·n` -/
theorem fslRange_slice (fx : Fixes) {len : Nat} {v : Option Bits} {n : Int} {fm : FieldMeta} {el : Arr} {o l i : Nat}
    (hi : i < l) (h : SliceOK fx (.fixedSizeList len v n fm el) o l) :
    fslRange fx l n i = .ok (i * n.toNat, (i + 1) * n.toNat) ∧
    fslRange fx len n (o + i) = .ok ((o + i) * n.toNat, (o + i + 1) * n.toNat) ∧
    (∀ j, j < n.toNat → i * n.toNat + j < l * n.toNat ∧ (o + i) * n.toNat + j = o * n.toNat + (i * n.toNat + j)) := by
  obtain ⟨_, h0, hb, hu⟩ := h.fsl
  have m1 : (o + i + 1) * n.toNat ≤ len * n.toNat := Nat.mul_le_mul_right _ (by omega)
  have m2 : (i + 1) * n.toNat ≤ (o + i + 1) * n.toNat := Nat.mul_le_mul_right _ (by omega)
  have m3 : (i + 1) * n.toNat ≤ l * n.toNat := Nat.mul_le_mul_right _ (by omega)
  refine ⟨fslRange_eq fx l n i hi h0 (by omega), fslRange_eq fx len n (o + i) (by omega) h0 (by omega), ?_⟩
  intro j hj
  rw [Nat.succ_mul] at m3
  rw [Nat.add_mul]
  omega

theorem anyAt_slice (fx : Fixes) (a : Arr) (o l i : Nat) (hi : i < l) (h : SliceOK fx a o l)
    (hs : readAnySome fx (sliceView a o l) i = readAnySome fx a (o + i)) :
    anyAt fx (sliceView a o l) (readAnySome fx (sliceView a o l)) i = anyAt fx a (readAnySome fx a) (o + i) := by
  simp only [anyAt, isSome_slice fx a o l i hi h, hs]

mutual
theorem readAnySome_slice (fx : Fixes) : ∀ (a : Arr) (o l i : Nat), i < l → SliceOK fx a o l →
    readAnySome fx (sliceView a o l) i = readAnySome fx a (o + i)
  | .null len, o, l, i, hi, h => by
    have hb := h.1; simp only [lenOf] at hb
    simp only [sliceView, readAnySome, nullCheck_slice fx len o l i hi hb]
  | .boolean len v vals, o, l, i, hi, h => by
    have hb := h.1; simp only [lenOf] at hb
    simp only [sliceView, readAnySome, boolGet_shift fx len v vals o l i hi hb]
  | .prim ty v vals, o, l, i, hi, _ => by simp only [sliceView, readAnySome, primGet_window fx v vals o l i hi]
  | .time ty u v vals, o, l, i, hi, _ => by simp only [sliceView, readAnySome, primGet_window fx v vals o l i hi]
  | .timestamp u tz v vals, o, l, i, hi, _ => by simp only [sliceView, readAnySome, primGet_window fx v vals o l i hi]
  | .decimal128 p s v vals, o, l, i, hi, _ => by simp only [sliceView, readAnySome, primGet_window fx v vals o l i hi]
  | .bytes ty v offs data, o, l, i, hi, h => by
    have hb := h.1; simp only [lenOf] at hb
    simp only [sliceView, readAnySome, bytesColGet_window fx ty v offs data o l i hi hb]
  | .bytesView ty v views buffers, o, l, i, hi, _ => by
    simp only [sliceView, readAnySome, viewColGet_window fx ty v views buffers o l i hi]
  | .fixedSizeBinary n v data, o, l, i, hi, h => by
    simp only [sliceView, readAnySome, fsbColGet_window fx n v data o l i hi h.1 h.2.2.1]
  | .struct len v fs, o, l, i, hi, h => by
    have hb := h.1; simp only [lenOf] at hb
    have c1 : ¬ i ≥ l := by omega
    have c2 : ¬ o + i ≥ len := by omega
    simp only [sliceView, readAnySome, c1, c2, if_false, readAnyFields_slice fx fs len o l i hi h.struct]
  | .list lg v offs fm el, o, l, i, hi, h => by
    have hb := h.1; simp only [lenOf] at hb
    simp only [sliceView, readAnySome, listRange_window fx offs o l i hi hb]
  | .fixedSizeList len v n fm el, o, l, i, hi, h => by
    obtain ⟨e1, e2, hj⟩ := fslRange_slice fx hi h
    have hel := h.fsl.1
    have hr : readRange (anyAt fx (sliceView el (o * n.toNat) (l * n.toNat))
          (readAnySome fx (sliceView el (o * n.toNat) (l * n.toNat)))) (i * n.toNat) n.toNat
        = readRange (anyAt fx el (readAnySome fx el)) ((o + i) * n.toNat) n.toNat := by
      apply readRange_congr
      intro j hjn
      obtain ⟨j1, j2⟩ := hj j hjn
      rw [j2]
      exact anyAt_slice fx el _ _ _ j1 hel (readAnySome_slice fx el _ _ _ j1 hel)
    simp only [sliceView, readAnySome, e1, e2, bind, Except.bind, succ_mul_sub, hr]
  | .map v offs mm ks vs, o, l, i, hi, h => by
    have hb := h.1; simp only [lenOf] at hb
    simp only [sliceView, readAnySome, listRange_window fx offs o l i hi hb]
  | .dictionary ks vs, o, l, i, hi, h => by
    simp only [sliceView, readAnySome, dictGetStr_slice fx ks vs o l i hi h]
  | .union types offs fs, o, l, i, hi, h => by
    have hb := h.1; simp only [lenOf] at hb
    cases offs with
    | none => have := h.2.2.1; simp only [new] at this; cases this
    | some ofs =>
      simp only [sliceView, readAnySome, unionSelect_window fx types ofs fs.length o l i hi hb (new_union_lens h.2.2.1)]
theorem readAnyFields_slice (fx : Fixes) : ∀ (fs : ArrFields) (len o l i : Nat), i < l → FieldsOK fx fs len o l →
    readAnyFields fx (sliceFields fs o l) i = readAnyFields fx fs (o + i)
  | .nil, _, _, _, _, _, _ => by simp only [sliceFields, readAnyFields]
  | .cons fm a r, len, o, l, i, hi, h => by
    obtain ⟨ha, hr⟩ := h.cons
    simp only [sliceFields, readAnyFields, anyAt_slice fx a o l i hi ha (readAnySome_slice fx a o l i hi ha),
      readAnyFields_slice fx r len o l i hi hr]
end

/-- `deserialize_any` of slot `i` of the slice = of slot `o + i` of the whole array: equality of outcomes -/
theorem readAny_slice (fx : Fixes) (a : Arr) (o l i : Nat) (hi : i < l) (h : SliceOK fx a o l) :
    readAny fx (sliceView a o l) i = readAny fx a (o + i) := by
  unfold readAny
  exact anyAt_slice fx a o l i hi h (readAnySome_slice fx a o l i hi h)

end SaModel.Lemmas.C12
