import SaModel.Lemmas.C12Typed
/-
C12 helpers, part 10: bulk reads.  The `SeqAccess` loop `readRange f s n` is `mapM f` over the indices `s, …, s+n-1`;
the indices the bulk reader hands out (`Access.bulk len = List.range len`, C13) windowed to `[o, o+l)` are exactly
`List.range' o l`; a successful `mapM` restricts to windows.
-/
namespace SaModel.Lemmas.C12
open SaModel SaModel.Read SaModel.Spec


theorem window_range (len o l : Nat) (h : o + l ≤ len) : window (List.range len) o l = List.range' o l := by
  apply List.ext_getElem?
  intro i
  simp only [window, List.getElem?_take, List.getElem?_drop]
  by_cases hi : i < l
  · have : o + i < len := by omega
    simp [hi, this]
  · simp [hi]

theorem mapM_range'_congr {α} (F G : Nat → R α) : ∀ (n s t : Nat), (∀ j, j < n → F (s + j) = G (t + j)) →
    (List.range' s n).mapM F = (List.range' t n).mapM G
  | 0, _, _, _ => by simp only [List.range'_zero, List.mapM_nil]
  | n + 1, s, t, h => by
    have h0 := h 0 (by omega)
    simp only [Nat.add_zero] at h0
    have ih := mapM_range'_congr F G n (s + 1) (t + 1) (fun j hj => by
      have := h (j + 1) (by omega)
      rw [show s + 1 + j = s + (j + 1) by omega, show t + 1 + j = t + (j + 1) by omega]
      exact this)
    simp only [List.range'_succ, List.mapM_cons, h0, ih]

theorem readRange_eq_mapM {α} (f : Nat → R α) : ∀ (n s : Nat), readRange f s n = (List.range' s n).mapM f
  | 0, _ => by simp only [readRange, List.range'_zero, List.mapM_nil]; rfl
  | n + 1, s => by simp only [readRange, List.range'_succ, List.mapM_cons, readRange_eq_mapM f n (s + 1)]

theorem mapM_ok_drop {α β} (G : α → R β) : ∀ (ys : List α) (xs : List β) (o : Nat), ys.mapM G = .ok xs →
    (ys.drop o).mapM G = .ok (xs.drop o)
  | ys, xs, 0, h => by simpa using h
  | [], xs, o + 1, h => by
    simp only [List.mapM_nil] at h
    cases h
    simp only [List.drop_nil, List.mapM_nil]; rfl
  | y :: ys, xs, o + 1, h => by
    simp only [List.mapM_cons] at h
    obtain ⟨x, hx, h⟩ := bind_ok_inv h
    obtain ⟨xs', hxs, h⟩ := bind_ok_inv h
    cases h
    simp only [List.drop_succ_cons]
    exact mapM_ok_drop G ys xs' o hxs

theorem mapM_ok_take {α β} (G : α → R β) : ∀ (ys : List α) (xs : List β) (l : Nat), ys.mapM G = .ok xs →
    (ys.take l).mapM G = .ok (xs.take l)
  | ys, xs, 0, h => by simp only [List.take_zero, List.mapM_nil]; rfl
  | [], xs, l + 1, h => by
    simp only [List.mapM_nil] at h
    cases h
    simp only [List.take_nil, List.mapM_nil]; rfl
  | y :: ys, xs, l + 1, h => by
    simp only [List.mapM_cons] at h
    obtain ⟨x, hx, h⟩ := bind_ok_inv h
    obtain ⟨xs', hxs, h⟩ := bind_ok_inv h
    cases h
    simp only [List.take_succ_cons, List.mapM_cons, hx, mapM_ok_take G ys xs' l hxs]
    rfl

end SaModel.Lemmas.C12
