import SaModel.Lemmas.C12TypedPrim
/-
C12 helpers, part 7 (typed reads on slices): the leaf layer — `is_some`, the scalar `deserialize_*` methods, the
byte / string element accessors.  Equalities of outcomes under `SliceOK` (window, `sliceable`, `new`, `physical` of the
WHOLE array).
-/
namespace SaModel.Lemmas.C12
open SaModel SaModel.Read SaModel.Spec

theorem nullCheck_slice (fx : Fixes) (len o l i : Nat) (hi : i < l) (h : o + l ≤ len) :
    nullCheck fx l i = nullCheck fx len (o + i) := by
  have c1 : ¬ i ≥ l := by omega
  have c2 : ¬ o + i ≥ len := by omega
  simp only [nullCheck, c1, c2, decide_false, Bool.and_false, Bool.false_eq_true, if_false]

theorem structItem_slice (fx : Fixes) (len o l i : Nat) (hi : i < l) (h : o + l ≤ len) :
    structItem fx l i = structItem fx len (o + i) := by
  have c1 : ¬ i ≥ l := by omega
  have c2 : ¬ o + i ≥ len := by omega
  simp only [structItem, c1, c2, decide_false, Bool.and_false, Bool.false_eq_true, if_false]

theorem dictGetStr_slice (fx : Fixes) (ks vs : Arr) (o l i : Nat) (hi : i < l) (h : SliceOK fx (.dictionary ks vs) o l) :
    dictGetStr fx (sliceView ks o l) vs i = dictGetStr fx ks vs (o + i) := by
  obtain ⟨kty, kv, kvals, vty, voffs, vdata, rfl, rfl, _⟩ := h.dict
  simp only [sliceView, dictGetStr, primGet_window fx kv kvals o l i hi]

/-- `is_some` -/
theorem isSome_slice (fx : Fixes) (a : Arr) (o l i : Nat) (hi : i < l) (h : SliceOK fx a o l) :
    isSome fx (sliceView a o l) i = isSome fx a (o + i) := by
  have hb := h.1
  cases a with
  | null len => simp only [lenOf] at hb; simp only [sliceView, isSome, nullCheck_slice fx len o l i hi hb]
  | boolean len v vals => simp only [lenOf] at hb; simp only [sliceView, isSome, boolGet_shift fx len v vals o l i hi hb]
  | prim ty v vals => simp only [sliceView, isSome, primGet_window fx v vals o l i hi]
  | time ty u v vals => simp only [sliceView, isSome, primGet_window fx v vals o l i hi]
  | timestamp u tz v vals => simp only [sliceView, isSome, primGet_window fx v vals o l i hi]
  | decimal128 p s v vals => simp only [sliceView, isSome, primGet_window fx v vals o l i hi]
  | bytes ty v offs data =>
    simp only [lenOf] at hb; simp only [sliceView, isSome, bytesColGet_window fx ty v offs data o l i hi hb]
  | bytesView ty v views buffers => simp only [sliceView, isSome, viewColGet_window fx ty v views buffers o l i hi]
  | fixedSizeBinary n v data => simp only [sliceView, isSome, fsbColGet_window fx n v data o l i hi hb h.2.2.1]
  | struct len v fs =>
    simp only [lenOf] at hb
    have c1 : ¬ i ≥ l := by omega
    have c2 : ¬ o + i ≥ len := by omega
    simp only [sliceView, isSome, c1, c2, if_false, validityIsSet_shift]
  | list lg v offs fm el =>
    simp only [lenOf] at hb
    obtain ⟨hlen, hlt⟩ := offs_window_len offs o l i hi hb
    have c1 : ¬ i + 1 ≥ l + 1 := by omega
    have c2 : ¬ o + i + 1 ≥ offs.length := by omega
    simp only [sliceView, isSome, hlen, c1, c2, if_false, validityIsSet_shift]
  | fixedSizeList len v n fm el =>
    simp only [lenOf] at hb
    have c1 : ¬ i ≥ l := by omega
    have c2 : ¬ o + i ≥ len := by omega
    simp only [sliceView, isSome, c1, c2, if_false, validityIsSet_shift]
  | map v offs mm ks vs =>
    simp only [lenOf] at hb
    obtain ⟨hlen, hlt⟩ := offs_window_len offs o l i hi hb
    have c1 : ¬ i + 1 ≥ l + 1 := by omega
    have c2 : ¬ o + i + 1 ≥ offs.length := by omega
    simp only [sliceView, isSome, hlen, c1, c2, if_false, validityIsSet_shift]
  | dictionary ks vs =>
    obtain ⟨kty, kv, kvals, vty, voffs, vdata, rfl, rfl, _⟩ := h.dict
    simp only [sliceView, isSome, primGet_window fx kv kvals o l i hi]
  | union types offs fs =>
    simp only [lenOf] at hb
    have c1 : ¬ i ≥ l := by omega
    have c2 : ¬ o + i ≥ types.length := by omega
    cases offs <;> simp only [sliceView, isSome, window_length types o l hb, c1, c2, if_false]

/-- the scalar `deserialize_*` methods -/
theorem scalar_slice (fx : Fixes) (m : Method) (a : Arr) (o l i : Nat) (hi : i < l) (h : SliceOK fx a o l) :
    scalar fx m (sliceView a o l) i = scalar fx m a (o + i) := by
  have hb := h.1
  cases a with
  | null len =>
    simp only [lenOf] at hb
    simp only [sliceView]
    unfold scalar
    simp only [nullCheck_slice fx len o l i hi hb]
  | boolean len v vals =>
    simp only [lenOf] at hb
    simp only [sliceView]
    unfold scalar
    simp only [boolGet_shift fx len v vals o l i hi hb]
  | prim ty v vals =>
    simp only [sliceView]
    unfold scalar
    simp only [codecRead, primGet_window fx v vals o l i hi]
  | time ty u v vals =>
    simp only [sliceView]
    unfold scalar
    simp only [codecRead, primGet_window fx v vals o l i hi]
  | timestamp u tz v vals =>
    simp only [sliceView]
    unfold scalar
    simp only [codecRead, primGet_window fx v vals o l i hi]
  | decimal128 p s v vals =>
    simp only [sliceView]
    unfold scalar
    simp only [codecRead, primGet_window fx v vals o l i hi]
  | bytes ty v offs data =>
    simp only [lenOf] at hb
    simp only [sliceView]
    unfold scalar
    simp only [bytesColGet_window fx ty v offs data o l i hi hb]
  | bytesView ty v views buffers =>
    simp only [sliceView]
    unfold scalar
    simp only [viewColGet_window fx ty v views buffers o l i hi]
  | fixedSizeBinary n v data =>
    simp only [sliceView]
    unfold scalar
    simp only [fsbColGet_window fx n v data o l i hi hb h.2.2.1]
  | struct len v fs => simp only [sliceView]; unfold scalar; rfl
  | list lg v offs fm el => simp only [sliceView]; unfold scalar; rfl
  | fixedSizeList len v n fm el => simp only [sliceView]; unfold scalar; rfl
  | map v offs mm ks vs => simp only [sliceView]; unfold scalar; rfl
  | dictionary ks vs =>
    have := dictGetStr_slice fx ks vs o l i hi h
    simp only [sliceView]
    unfold scalar
    simp only [this]
  | union types offs fs => cases offs <;> (simp only [sliceView]; unfold scalar; rfl)

/-- the bytes of a binary-like element (`deserialize_seq` over `U8SliceDeserializer`) -/
theorem binaryElems_slice (fx : Fixes) (a : Arr) (o l i : Nat) (hi : i < l) (h : SliceOK fx a o l) :
    binaryElems fx (sliceView a o l) i = binaryElems fx a (o + i) := by
  have hb := h.1
  cases a with
  | bytes ty v offs data =>
    simp only [lenOf] at hb
    simp only [sliceView, binaryElems, bytesColGet_window fx ty v offs data o l i hi hb]
  | bytesView ty v views buffers =>
    simp only [sliceView, binaryElems, viewColGet_window fx ty v views buffers o l i hi]
  | fixedSizeBinary n v data =>
    simp only [sliceView, binaryElems, fsbColGet_window fx n v data o l i hi hb h.2.2.1]
  | union types offs fs => cases offs <;> simp only [sliceView, binaryElems]
  | _ => simp only [sliceView, binaryElems]

/-- the string of a string-like element (`deserialize_enum` over `EnumAccess(&str)`) -/
theorem stringElem_slice (fx : Fixes) (a : Arr) (o l i : Nat) (hi : i < l) (h : SliceOK fx a o l) :
    stringElem fx (sliceView a o l) i = stringElem fx a (o + i) := by
  have hb := h.1
  cases a with
  | bytes ty v offs data =>
    simp only [lenOf] at hb
    simp only [sliceView, stringElem, bytesColGet_window fx ty v offs data o l i hi hb]
  | bytesView ty v views buffers =>
    simp only [sliceView, stringElem, viewColGet_window fx ty v views buffers o l i hi]
  | dictionary ks vs => simp only [sliceView, stringElem, dictGetStr_slice fx ks vs o l i hi h]
  | union types offs fs => cases offs <;> simp only [sliceView, stringElem]
  | _ => simp only [sliceView, stringElem]

end SaModel.Lemmas.C12
