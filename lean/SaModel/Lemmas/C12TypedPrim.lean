import SaModel.Lemmas.C12Read
/-
C12 helpers, part 6 (typed reads on slices): what each primitive accessor of the reader model looks at.  Every lemma
is an EQUALITY OF OUTCOMES (value, `Err` or unwind alike) between the accessor on the windowed buffers at `i` and
the accessor on the whole buffers at `o + i`, for every `Fixes`.
-/
namespace SaModel.Lemmas.C12
open SaModel SaModel.Read SaModel.Spec

/-! ### bitmaps -/

theorem getBitBuffer_shift (fx : Fixes) (b : Bits) (o i : Nat) :
    getBitBuffer fx (shiftBits b o) i = getBitBuffer fx b (o + i) := by
  have e : i + (b.offset + o) = o + i + b.offset := by omega
  simp only [getBitBuffer, shiftBits, e]

theorem validityIsSet_shift (fx : Fixes) (v : Option Bits) (o i : Nat) :
    validityIsSet fx (shiftV v o) i = validityIsSet fx v (o + i) := by
  cases v
  · rfl
  · simp only [shiftV, validityIsSet, getBitBuffer_shift]

/-! ### windows -/

theorem window_getElem? {α} (xs : List α) (o n i : Nat) (hi : i < n) : (window xs o n)[i]? = xs[o + i]? := by
  simp only [window, List.getElem?_take, hi, if_true, List.getElem?_drop]

theorem primGet_window (fx : Fixes) (v : Option Bits) (vals : List Int) (o l i : Nat) (hi : i < l) :
    primGet fx (shiftV v o) (window vals o l) i = primGet fx v vals (o + i) := by
  simp only [primGet, window_getElem? _ _ _ _ hi, validityIsSet_shift]

theorem boolGet_shift (fx : Fixes) (len : Nat) (v : Option Bits) (vals : Bits) (o l i : Nat) (hi : i < l)
    (h : o + l ≤ len) : boolGet fx l (shiftV v o) (shiftBits vals o) i = boolGet fx len v vals (o + i) := by
  have h1 : ¬ i ≥ l := by omega
  have h2 : ¬ o + i ≥ len := by omega
  simp only [boolGet, h1, h2, if_false, validityIsSet_shift, getBitBuffer_shift]

/-- offsets windowed to `l + 1` entries: the two entries of element `i` are those of element `o + i` -/
theorem offs_window_len (offs : List Int) (o l i : Nat) (hi : i < l) (h : o + l ≤ offs.length - 1) :
    (window offs o (l + 1)).length = l + 1 ∧ o + i + 1 < offs.length := by
  refine ⟨window_length _ _ _ (by omega), by omega⟩

theorem bytesGet_window (fx : Fixes) (v : Option Bits) (offs : List Int) (data : Bytes) (o l i : Nat) (hi : i < l)
    (h : o + l ≤ offs.length - 1) :
    bytesGet fx (shiftV v o) (window offs o (l + 1)) data i = bytesGet fx v offs data (o + i) := by
  obtain ⟨hlen, hlt⟩ := offs_window_len offs o l i hi h
  have c1 : ¬ i + 1 ≥ l + 1 := by omega
  have c2 : ¬ i + 1 > l + 1 := by omega
  have c3 : ¬ o + i + 1 ≥ offs.length := by omega
  have c4 : ¬ o + i + 1 > offs.length := by omega
  simp only [bytesGet, hlen, c1, c2, c3, c4, ite_self, if_false, validityIsSet_shift,
    window_getElem? offs o (l + 1) i (by omega), window_getElem? offs o (l + 1) (i + 1) (by omega),
    show o + (i + 1) = o + i + 1 by omega]

theorem bytesColGet_window (fx : Fixes) (ty : BytesTy) (v : Option Bits) (offs : List Int) (data : Bytes)
    (o l i : Nat) (hi : i < l) (h : o + l ≤ offs.length - 1) :
    bytesColGet fx ty (shiftV v o) (window offs o (l + 1)) data i = bytesColGet fx ty v offs data (o + i) := by
  simp only [bytesColGet, bytesGet_window fx v offs data o l i hi h]

theorem viewGet_window (fx : Fixes) (v : Option Bits) (views : List Nat) (buffers : List Bytes) (o l i : Nat)
    (hi : i < l) : viewGet fx (shiftV v o) (window views o l) buffers i = viewGet fx v views buffers (o + i) := by
  simp only [viewGet, window_getElem? _ _ _ _ hi, validityIsSet_shift]

theorem viewColGet_window (fx : Fixes) (ty : ViewTy) (v : Option Bits) (views : List Nat) (buffers : List Bytes)
    (o l i : Nat) (hi : i < l) :
    viewColGet fx ty (shiftV v o) (window views o l) buffers i = viewColGet fx ty v views buffers (o + i) := by
  simp only [viewColGet, viewGet_window fx v views buffers o l i hi]

theorem listRange_window (fx : Fixes) (offs : List Int) (o l i : Nat) (hi : i < l) (h : o + l ≤ offs.length - 1) :
    listRange fx (window offs o (l + 1)) i = listRange fx offs (o + i) := by
  obtain ⟨hlen, hlt⟩ := offs_window_len offs o l i hi h
  have c1 : ¬ i + 1 ≥ l + 1 := by omega
  have c3 : ¬ o + i + 1 ≥ offs.length := by omega
  simp only [listRange, hlen, c1, c3, if_false,
    window_getElem? offs o (l + 1) i (by omega), window_getElem? offs o (l + 1) (i + 1) (by omega),
    show o + (i + 1) = o + i + 1 by omega]

/-! ### FixedSizeBinary: the only accessor that needs `new` of the whole array (the divisibility check of
`FixedSizeBinaryDeserializer::new` is about ALL the data; a slice of an array that fails it may pass it) -/

theorem fsbColGet_window (fx : Fixes) (n : Int) (v : Option Bits) (data : Bytes) (o l i : Nat) (hi : i < l)
    (h : o + l ≤ lenOf (.fixedSizeBinary n v data)) (hn : new fx (.fixedSizeBinary n v data) = .ok ()) :
    fsbColGet fx n (shiftV v o) (window data (o * n.toNat) (l * n.toNat)) i = fsbColGet fx n v data (o + i) := by
  simp only [lenOf] at h
  by_cases hn0 : n ≤ 0
  · simp only [hn0, if_true] at h; omega
  · simp only [hn0, if_false] at h
    have hpos : 0 < n.toNat := by omega
    have hmul : (o + l) * n.toNat ≤ data.length := by
      have := Nat.mul_le_mul_right n.toNat h
      have := Nat.div_mul_le_self data.length n.toNat
      omega
    have hmul' : o * n.toNat + l * n.toNat ≤ data.length := by rw [Nat.add_mul] at hmul; exact hmul
    have hdiv : data.length % n.toNat = 0 := by
      simp only [new, fsbNew] at hn
      have c1 : ¬ n < 0 := by omega
      have c2 : ¬ n.toNat = 0 := by omega
      simp only [c1, c2, if_false] at hn
      by_cases hd : data.length % n.toNat = 0
      · exact hd
      · simp only [ne_eq, hd, not_false_eq_true, if_true] at hn
        cases hn
    have c1 : ¬ n < 0 := by omega
    have c2 : ¬ n.toNat = 0 := by omega
    have hwl := window_length data (o * n.toNat) (l * n.toNat) hmul'
    have e1 : fsbNew fx n (window data (o * n.toNat) (l * n.toNat)) = .ok (n.toNat, l) := by
      simp only [fsbNew, c1, c2, if_false, hwl, Nat.mul_mod_left, ne_eq, not_true_eq_false,
        Nat.mul_div_cancel l hpos]
    have e2 : fsbNew fx n data = .ok (n.toNat, data.length / n.toNat) := by
      simp only [fsbNew, c1, c2, if_false, hdiv, ne_eq, not_true_eq_false]
    have d1 : ¬ i ≥ l := by omega
    have d2 : ¬ o + i ≥ data.length / n.toNat := by omega
    have d3 : (i + 1) * n.toNat ≤ l * n.toNat := Nat.mul_le_mul_right _ (by omega)
    have d4 : (o + i + 1) * n.toNat ≤ data.length :=
      Nat.le_trans (Nat.mul_le_mul_right _ (by omega)) hmul
    have d5 : ((window data (o * n.toNat) (l * n.toNat)).drop (i * n.toNat)).take n.toNat
        = (data.drop ((o + i) * n.toNat)).take n.toNat := by
      rw [drop_take_window data _ _ _ _ (by rw [Nat.add_mul, Nat.one_mul] at d3; exact d3), Nat.add_mul]
    simp only [fsbColGet, e1, e2, bind, Except.bind, fsbGet, d1, d2, d3, d4, d5, hwl, if_false, if_true,
      validityIsSet_shift]

/-! ### FixedSizeList: the element range moves by `o·n` -/

theorem fslRange_eq (fx : Fixes) (len : Nat) (n : Int) (idx : Nat) (hi : idx < len) (h0 : 0 ≤ n)
    (hu : (idx + 1) * n.toNat ≤ usizeMax) :
    fslRange fx len n idx = .ok (idx * n.toNat, (idx + 1) * n.toNat) := by
  have c1 : ¬ idx ≥ len := by omega
  have c2 : ¬ (idx + 1) * n.toNat > usizeMax := by omega
  simp only [fslRange, c1, if_false, tryIntoUsize, h0, if_true, bind, Except.bind, c2, pure, Except.pure]

/-! ### the `SeqAccess` loop only looks at the slots it names -/

theorem readRange_congr {α} (f g : Nat → R α) : ∀ (n s t : Nat), (∀ j, j < n → f (s + j) = g (t + j)) →
    readRange f s n = readRange g t n
  | 0, _, _, _ => by simp only [readRange]
  | n + 1, s, t, h => by
    have h0 := h 0 (by omega)
    simp only [Nat.add_zero] at h0
    have ih := readRange_congr f g n (s + 1) (t + 1) (fun j hj => by
      have := h (j + 1) (by omega)
      rw [show s + 1 + j = s + (j + 1) by omega, show t + 1 + j = t + (j + 1) by omega]
      exact this)
    simp only [readRange, h0, ih]

/-! ### dense unions: type ids and offsets are windowed together -/

theorem unionSelect_window (fx : Fixes) (types ofs : List Int) (nv : Nat) (o l i : Nat) (hi : i < l)
    (h : o + l ≤ types.length) (hlen : types.length = ofs.length) :
    unionSelect fx (window types o l) (some (window ofs o l)) nv i = unionSelect fx types (some ofs) nv (o + i) := by
  have w1 := window_length types o l h
  have w2 := window_length ofs o l (by omega)
  have c1 : ¬ i ≥ l := by omega
  have c2 : ¬ o + i ≥ types.length := by omega
  simp only [unionSelect, w1, w2, c1, hlen, if_false, ne_eq, not_true_eq_false,
    window_getElem? types o l i hi, window_getElem? ofs o l i hi]
  rw [← hlen]
  simp only [c2, if_false]

theorem new_union_lens {fx : Fixes} {types ofs : List Int} {fs : ArrUFields}
    (hn : new fx (.union types (some ofs) fs) = .ok ()) : types.length = ofs.length := by
  simp only [new] at hn
  by_cases h : types.length = ofs.length
  · exact h
  · simp only [ne_eq, h, not_false_eq_true, if_true] at hn
    cases hn

/-! ### the hypotheses, bundled: window inside the array, `sliceable`, the reader was built, lengths fit `usize` -/

def SliceOK (fx : Fixes) (a : Arr) (o l : Nat) : Prop :=
  o + l ≤ lenOf a ∧ sliceable a = true ∧ new fx a = .ok () ∧ physical a = true

def FieldsOK (fx : Fixes) (fs : ArrFields) (len o l : Nat) : Prop :=
  o + l ≤ len ∧ sliceableFields fs len = true ∧ newFields fx fs = .ok () ∧ physicalFields fs = true

theorem SliceOK.struct {fx : Fixes} {len : Nat} {v : Option Bits} {fs : ArrFields} {o l : Nat}
    (h : SliceOK fx (.struct len v fs) o l) : FieldsOK fx fs len o l := by
  obtain ⟨h1, h2, h3, h4⟩ := h
  simp only [lenOf] at h1
  simp only [sliceable] at h2
  simp only [new] at h3
  simp only [physical] at h4
  exact ⟨h1, h2, h3, h4⟩

theorem FieldsOK.cons {fx : Fixes} {fm : FieldMeta} {a : Arr} {r : ArrFields} {len o l : Nat}
    (h : FieldsOK fx (.cons fm a r) len o l) : SliceOK fx a o l ∧ FieldsOK fx r len o l := by
  obtain ⟨h1, h2, h3, h4⟩ := h
  simp only [sliceableFields, Bool.and_eq_true, decide_eq_true_eq] at h2
  simp only [physicalFields, Bool.and_eq_true] at h4
  simp only [newFields] at h3
  obtain ⟨u1, _, h3⟩ := bind_ok_inv h3
  obtain ⟨u2, hn, h3⟩ := bind_ok_inv h3
  cases u2
  exact ⟨⟨by omega, h2.1.2, hn, h4.1⟩, ⟨h1, h2.2, h3, h4.2⟩⟩

/-- FixedSizeList: the child is sliced to `(o·n, l·n)`, which lies inside it; `n ≥ 0`; no row range overflows -/
theorem SliceOK.fsl {fx : Fixes} {len : Nat} {v : Option Bits} {n : Int} {fm : FieldMeta} {el : Arr} {o l : Nat}
    (h : SliceOK fx (.fixedSizeList len v n fm el) o l) :
    SliceOK fx el (o * n.toNat) (l * n.toNat) ∧ 0 ≤ n ∧ o + l ≤ len ∧ len * n.toNat ≤ usizeMax := by
  obtain ⟨h1, h2, h3, h4⟩ := h
  simp only [lenOf] at h1
  simp only [sliceable, Bool.and_eq_true, decide_eq_true_eq] at h2
  simp only [physical, Bool.and_eq_true, decide_eq_true_eq] at h4
  simp only [new] at h3
  obtain ⟨u1, _, h3⟩ := bind_ok_inv h3
  obtain ⟨u2, hn, h3⟩ := bind_ok_inv h3
  cases u2
  obtain ⟨u3, hu, _⟩ := bind_ok_inv h3
  have h0 : 0 ≤ n := by
    by_cases h0 : 0 ≤ n
    · exact h0
    · simp only [tryIntoUsize, h0, if_false] at hu; cases hu
  exact ⟨⟨mul_window_le h1 h2.1, h2.2, hn, h4.2⟩, h0, h1, by omega⟩

theorem SliceOK.dict {fx : Fixes} {ks vs : Arr} {o l : Nat} (h : SliceOK fx (.dictionary ks vs) o l) :
    ∃ kty kv kvals vty voffs vdata, ks = .prim kty kv kvals ∧ vs = .bytes vty none voffs vdata ∧ o + l ≤ kvals.length := by
  obtain ⟨h1, _, h3, _⟩ := h
  cases ks with
  | prim kty kv kvals =>
    cases vs with
    | bytes vty vv voffs vdata =>
      simp only [lenOf] at h1
      cases vv with
      | none => exact ⟨kty, kv, kvals, vty, voffs, vdata, rfl, rfl, h1⟩
      | some b =>
        simp only [new, Option.isSome_some, if_true] at h3
        split at h3 <;> cases h3
    | _ => simp only [new] at h3; cases h3
  | _ => simp only [new] at h3; cases h3

end SaModel.Lemmas.C12
