import SaModel.Lemmas.C12Basic
import SaModel.Spec.WF
/-
C12 helpers, part 6: `sliceable` is implied by Arrow validity as spelled out for C03 (`Spec.wf`): every array the
crate's builders produce (C03 `C03_wfS`) may be sliced.
-/
namespace SaModel.Lemmas.C12
open SaModel SaModel.Read SaModel.Spec

theorem decodeAll_length : ∀ (a : Arr), (decodeAll a).length = lenOf a
  | .null _ => by simp [decodeAll, lenOf]
  | .boolean _ _ _ => by simp [decodeAll, lenOf]
  | .prim _ _ _ => by simp [decodeAll, lenOf]
  | .time _ _ _ _ => by simp [decodeAll, lenOf]
  | .timestamp _ _ _ _ => by simp [decodeAll, lenOf]
  | .decimal128 _ _ _ _ => by simp [decodeAll, lenOf]
  | .bytes _ _ _ _ => by simp [decodeAll, lenOf]
  | .bytesView _ _ _ _ => by simp [decodeAll, lenOf]
  | .fixedSizeBinary n _ _ => by
    by_cases h : n ≤ 0 <;> simp [decodeAll, lenOf, h]
  | .struct _ _ _ => by simp [decodeAll, lenOf]
  | .list _ _ _ _ _ => by simp [decodeAll, lenOf]
  | .fixedSizeList _ _ _ _ _ => by simp [decodeAll, lenOf]
  | .map _ _ _ _ _ => by simp [decodeAll, lenOf]
  | .dictionary ks _ => by simp [decodeAll, lenOf, decodeAll_length ks]
  | .union _ _ _ => by simp [decodeAll, lenOf]

mutual
theorem wf_sliceable : ∀ (a : Arr) (dt : DataType) (nl : Bool), wf dt nl a = true → sliceable a = true
  | .null _, _, _, _ => by simp only [sliceable]
  | .boolean _ _ _, _, _, _ => by simp only [sliceable]
  | .prim _ _ _, _, _, _ => by simp only [sliceable]
  | .time _ _ _ _, _, _, _ => by simp only [sliceable]
  | .timestamp _ _ _ _, _, _, _ => by simp only [sliceable]
  | .decimal128 _ _ _ _, _, _, _ => by simp only [sliceable]
  | .bytes _ _ _ _, _, _, _ => by simp only [sliceable]
  | .bytesView _ _ _ _, _, _, _ => by simp only [sliceable]
  | .fixedSizeBinary _ _ _, _, _, _ => by simp only [sliceable]
  | .list _ _ _ _ _, _, _, _ => by simp only [sliceable]
  | .map _ _ _ _ _, _, _, _ => by simp only [sliceable]
  | .struct len v cols, dt, nl, h => by
    cases dt <;> simp only [wf, Bool.and_eq_true, Bool.false_eq_true] at h
    rename_i fs
    simp only [sliceable]
    exact wfFields_sliceable cols fs len h.2
  | .fixedSizeList len v n fm el, dt, nl, h => by
    cases dt <;> simp only [wf, Bool.and_eq_true, Bool.false_eq_true, beq_iff_eq, decide_eq_true_eq] at h
    rename_i f n'
    obtain ⟨⟨⟨⟨⟨hn, _⟩, _⟩, _⟩, hl⟩, hw⟩ := h
    subst hn
    simp only [sliceable, Bool.and_eq_true, decide_eq_true_eq]
    rw [decodeAll_length] at hl
    exact ⟨by omega, wf_sliceable el _ _ hw⟩
  | .dictionary ks vs, dt, nl, h => by
    cases dt <;> simp only [wf, Bool.and_eq_true, Bool.false_eq_true] at h
    simp only [sliceable]
    exact wf_sliceable ks _ _ h.1.1
  | .union types offs cols, dt, nl, h => by
    cases offs with
    | some _ => simp only [sliceable]
    | none => cases dt <;> simp [wf] at h
theorem wfFields_sliceable : ∀ (cols : ArrFields) (fs : Fields) (len : Nat), wfFields fs cols len = true →
    sliceableFields cols len = true
  | .nil, _, _, _ => by simp only [sliceableFields]
  | .cons fm a r, fs, len, h => by
    cases fs with
    | nil => simp only [wfFields, Bool.false_eq_true] at h
    | cons f rest =>
      simp only [wfFields, Bool.and_eq_true, beq_iff_eq] at h
      obtain ⟨⟨⟨_, hl⟩, hw⟩, hr⟩ := h
      rw [decodeAll_length] at hl
      simp only [sliceableFields, Bool.and_eq_true, decide_eq_true_eq]
      exact ⟨⟨by omega, wf_sliceable a _ _ hw⟩, wfFields_sliceable r rest len hr⟩
end

/-- every array that is structurally valid for its field (C03 `Spec.WFS`) satisfies `sliceable` -/
theorem WF_sliceable (f : Field) (a : Arr) (h : WFS f a = true) : sliceable a = true :=
  wf_sliceable a f.dataType f.nullable h

end SaModel.Lemmas.C12
