import SaModel.Read.AccessVal
/-
C13 helpers, bulk reads: `List.mapM` in the outcome monad over an index range (all results, or the FIRST failure), and the
`SeqAccess` loop of the model (`Deser.seqLoop`, no fuel) as such a `mapM`.
-/
namespace SaModel.Lemmas.C13Bulk
open SaModel SaModel.AccessVal

theorem mapM_cons_ok {α β} (f : α → R β) (a : α) (l : List α) (x : β) (h : f a = .ok x) :
    (a :: l).mapM f = (l.mapM f).map (x :: ·) := by
  rw [List.mapM_cons, h]
  cases l.mapM f <;> rfl

theorem mapM_cons_error {α β} (f : α → R β) (a : α) (l : List α) (e : Fail) (h : f a = .error e) :
    (a :: l).mapM f = .error e := by
  rw [List.mapM_cons, h]; rfl

/-- all elements succeed: the results are the element results, one by one -/
theorem mapM_range'_ok_iff {α} (f : Nat → R α) : ∀ (n s : Nat) (xs : List α),
    (List.range' s n).mapM f = .ok xs ↔ (List.range' s n).map f = xs.map .ok
  | 0, s, xs => by
    simp only [List.range'_zero, List.mapM_nil, List.map_nil, pure, Except.pure, Except.ok.injEq]
    cases xs <;> simp
  | n + 1, s, xs => by
    simp only [List.range'_succ, List.map_cons]
    cases hf : f s with
    | error e =>
      rw [mapM_cons_error f _ _ e hf]
      constructor
      · intro h; cases h
      · intro h; cases xs with
        | nil => simp at h
        | cons x xs => simp at h
    | ok x =>
      rw [mapM_cons_ok f _ _ x hf]
      cases xs with
      | nil =>
        constructor
        · intro h; cases hm : (List.range' (s + 1) n).mapM f <;> rw [hm] at h <;> simp [Except.map] at h
        · intro h; simp at h
      | cons y ys =>
        have ih := mapM_range'_ok_iff f n (s + 1) ys
        cases hm : (List.range' (s + 1) n).mapM f with
        | error e =>
          rw [hm] at ih
          simp only [Except.map, List.map_cons, List.cons.injEq, Except.ok.injEq]
          constructor
          · intro h; cases h
          · rintro ⟨_, h2⟩; exact absurd (ih.mpr h2) (by intro h; cases h)
        | ok zs =>
          rw [hm] at ih
          simp only [Except.map, Except.ok.injEq, List.cons.injEq, List.map_cons]
          constructor
          · rintro ⟨rfl, rfl⟩; exact ⟨rfl, ih.mp rfl⟩
          · rintro ⟨h1, h2⟩; exact ⟨h1, by simpa using ih.mpr h2⟩

/-- the read fails exactly with the error of the FIRST failing element -/
theorem mapM_range'_error_iff {α} (f : Nat → R α) : ∀ (n s : Nat) (e : Fail),
    (List.range' s n).mapM f = .error e ↔
      ∃ i, i < n ∧ f (s + i) = .error e ∧ ∀ j, j < i → (f (s + j)).isOk = true
  | 0, s, e => by
    simp only [List.range'_zero, List.mapM_nil, pure, Except.pure]
    constructor
    · intro h; cases h
    · rintro ⟨i, hi, _⟩; omega
  | n + 1, s, e => by
    simp only [List.range'_succ]
    have ih := mapM_range'_error_iff f n (s + 1) e
    cases hf : f s with
    | error e' =>
      rw [mapM_cons_error f _ _ e' hf]
      constructor
      · intro h; cases h
        exact ⟨0, by omega, by simpa using hf, by intro j hj; omega⟩
      · rintro ⟨i, _, h2, h3⟩
        cases i with
        | zero => rw [Nat.add_zero, hf] at h2; cases h2; rfl
        | succ i =>
          have := h3 0 (by omega)
          rw [Nat.add_zero, hf] at this; cases this
    | ok x =>
      rw [mapM_cons_ok f _ _ x hf]
      cases hm : (List.range' (s + 1) n).mapM f with
      | error e'' =>
        rw [hm] at ih
        simp only [Except.map, Except.error.injEq]
        constructor
        · intro h
          obtain ⟨i, h1, h2, h3⟩ := ih.mp (by rw [h])
          refine ⟨i + 1, by omega, by rw [← h2]; congr 1; omega, ?_⟩
          intro j hj
          cases j with
          | zero => rw [Nat.add_zero, hf]; rfl
          | succ j => have := h3 j (by omega); rw [← this]; congr 2; omega
        · rintro ⟨i, h1, h2, h3⟩
          cases i with
          | zero => rw [Nat.add_zero, hf] at h2; cases h2
          | succ i =>
            have := ih.mpr ⟨i, by omega, by rw [← h2]; congr 1; omega, fun j hj => by
              have := h3 (j + 1) (by omega); rw [← this]; congr 2; omega⟩
            cases this; rfl
      | ok zs =>
        rw [hm] at ih
        simp only [Except.map]
        constructor
        · intro h; cases h
        · rintro ⟨i, h1, h2, h3⟩
          cases i with
          | zero => rw [Nat.add_zero, hf] at h2; cases h2
          | succ i =>
            have := ih.mpr ⟨i, by omega, by rw [← h2]; congr 1; omega, fun j hj => by
              have := h3 (j + 1) (by omega); rw [← this]; congr 2; omega⟩
            cases this

theorem mapM_congr_mem {α β} (f g : α → R β) : ∀ (l : List α), (∀ a ∈ l, f a = g a) → l.mapM f = l.mapM g
  | [], _ => rfl
  | a :: l, h => by
    rw [List.mapM_cons, List.mapM_cons, h a (by simp), mapM_congr_mem f g l (fun b hb => h b (by simp [hb]))]

/-- the `SeqAccess` loop from cursor `k`: the records `k … len-1`, in order, up to the first failure -/
theorem seqLoop_eq (d : Deser) (t : Read.Target) (n : Nat) : ∀ (k : Nat), d.len - k = n →
    d.seqLoop t k = (List.range' k n).mapM (d.item t) := by
  induction n with
  | zero =>
    intro k h
    rw [Deser.seqLoop]
    have : k ≥ d.len := by omega
    simp only [this, dite_true, List.range'_zero, List.mapM_nil, pure, Except.pure]
  | succ n ih =>
    intro k h
    rw [Deser.seqLoop]
    have : ¬ k ≥ d.len := by omega
    simp only [this, dite_false, List.range'_succ, List.mapM_cons]
    rw [ih (k + 1) (by omega)]

theorem bulk_eq_mapM (d : Deser) (t : Read.Target) : d.bulk t = (List.range d.len).mapM (d.item t) := by
  rw [Deser.bulk, seqLoop_eq d t d.len 0 (by omega), List.range_eq_range']

end SaModel.Lemmas.C13Bulk
