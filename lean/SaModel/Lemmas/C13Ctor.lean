import SaModel.Read.AccessVal
import SaModel.Props.C13
/-
C13 helpers, constructor: `AccessVal.Deser.new` (the statements of `Deserializer::new` in the order of the Rust code)
against the two-phase form the other properties use (`Access.new` for counts and lengths, then `Read.new` of the root
struct reader: `Roundtrip.readRecord`, `Roundtrip.readAll`).
-/
namespace SaModel.Lemmas.C13Ctor
open SaModel SaModel.Access SaModel.AccessVal

theorem newCols_ok_iff (len : Nat) : ∀ (fields : List Field) (arrs : List Arr), fields.length = arrs.length →
    (newCols len fields arrs = .ok () ↔
      (∀ a ∈ arrs, Read.vlen a = len) ∧ Read.newFields Read.Fixes.all (Roundtrip.zipCols fields arrs) = .ok ())
  | [], [], _ => by simp [newCols, Roundtrip.zipCols, Read.newFields]
  | [], _ :: _, h => by simp at h
  | _ :: _, [], h => by simp at h
  | f :: fs, a :: as, h => by
    have ih := newCols_ok_iff len fs as (by simpa using h)
    simp only [newCols, Roundtrip.zipCols, Read.newFields, List.mem_cons, forall_eq_or_imp]
    by_cases hv : Read.vlen a = len
    · subst hv
      simp only [bne_self_eq_false, Bool.false_eq_true, if_false, true_and]
      cases hs : Read.strategyOk (metaOfField f).metadata with
      | error e => simp [bind, Except.bind]
      | ok u =>
        cases hn : Read.new Read.Fixes.all a with
        | error e => simp [bind, Except.bind]
        | ok u' =>
          simp only [bind, Except.bind]
          exact ih
    · have hb : (Read.vlen a != len) = true := by simp [hv]
      simp [hb, hv, fail]

/-- the constructor in the order of the Rust code succeeds exactly when the two-phase form does, with the same record count -/
theorem new_ok_iff (fields : List Field) (arrs : List Arr) (d : Deser) :
    Deser.new fields arrs = .ok d ↔
      d.fields = fields ∧ d.arrs = arrs ∧
      Access.new true fields.length (arrs.map Read.vlen) = .ok d.len ∧
      Read.new Read.Fixes.all (Roundtrip.rootArr fields arrs d.len) = .ok () := by
  rw [Props.C13.ctor_checks]
  unfold Deser.new
  by_cases hc : fields.length = arrs.length
  · have hb : (fields.length != arrs.length) = false := by simp [hc]
    simp only [hb, Bool.false_eq_true, if_false]
    have hroot : ∀ len, Read.new Read.Fixes.all (Roundtrip.rootArr fields arrs len)
        = Read.newFields Read.Fixes.all (Roundtrip.zipCols fields arrs) := by
      intro len; simp [Roundtrip.rootArr, Read.new]
    constructor
    · intro h
      cases hn : newCols (firstLen arrs) fields arrs with
      | error e => rw [hn] at h; simp [bind, Except.bind] at h
      | ok u =>
        rw [hn] at h
        simp only [bind, Except.bind, pure, Except.pure, Except.ok.injEq] at h
        subst h
        obtain ⟨h1, h2⟩ := (newCols_ok_iff _ fields arrs hc).mp hn
        refine ⟨rfl, rfl, ⟨by simp [hc], ?_, ?_⟩, ?_⟩
        · intro l hl
          obtain ⟨a, ha, rfl⟩ := List.mem_map.mp hl
          exact h1 a ha
        · intro he
          have : arrs = [] := by simpa using he
          subst this; rfl
        · rw [hroot]; exact h2
    · rintro ⟨hf, ha, ⟨_, hl, hz⟩, hr⟩
      have hlen : firstLen arrs = d.len := by
        cases arrs with
        | nil => exact (hz rfl).symm
        | cons a as => exact hl _ (by simp [firstLen])
      rw [hlen]
      have : newCols d.len fields arrs = .ok () := by
        rw [newCols_ok_iff _ fields arrs hc]
        refine ⟨fun a ha => hl _ (List.mem_map.mpr ⟨a, ha, rfl⟩), ?_⟩
        rw [← hroot d.len]; exact hr
      rw [this]
      simp only [bind, Except.bind, pure, Except.pure, Except.ok.injEq]
      cases d; simp only at hf ha; subst hf; subst ha; rfl
  · have hb : (fields.length != arrs.length) = true := by simp [hc]
    simp only [hb, if_true, fail]
    constructor
    · intro h; cases h
    · rintro ⟨_, _, ⟨h, _⟩, _⟩
      simp at h; exact absurd h.symm hc

/-- reading a record of a constructed deserializer is `Roundtrip.readRecord`: a function of the batch, the index and the
target -/
theorem item_eq_readRecord {fields : List Field} {arrs : List Arr} {d : Deser} (h : Deser.new fields arrs = .ok d)
    (t : Read.Target) (i : Nat) (hi : i < d.len) : d.item t i = Roundtrip.readRecord t fields arrs i := by
  obtain ⟨hf, ha, hc, hr⟩ := (new_ok_iff fields arrs d).mp h
  unfold Roundtrip.readRecord Deser.item Deser.root
  rw [hc]
  simp only [bind, Except.bind]
  rw [hr]
  simp only [Props.C13.get_eq, hi, if_true, hf, ha]

/-- … and the constructor refuses exactly when every such read is refused before it starts -/
theorem new_ok_of_readRecord {fields : List Field} {arrs : List Arr} (t : Read.Target) (i : Nat) (v : Read.DVal)
    (h : Roundtrip.readRecord t fields arrs i = .ok v) : ∃ d, Deser.new fields arrs = .ok d ∧ i < d.len := by
  unfold Roundtrip.readRecord at h
  cases hc : Access.new true fields.length (arrs.map Read.vlen) with
  | error e => rw [hc] at h; simp [bind, Except.bind] at h
  | ok len =>
    rw [hc] at h
    simp only [bind, Except.bind] at h
    cases hr : Read.new Read.Fixes.all (Roundtrip.rootArr fields arrs len) with
    | error e => rw [hr] at h; simp at h
    | ok u =>
      rw [hr] at h
      refine ⟨{ fields, arrs, len }, (new_ok_iff fields arrs _).mpr ⟨rfl, rfl, hc, hr⟩, ?_⟩
      simp only [Props.C13.get_eq] at h
      by_cases hi : i < len
      · exact hi
      · simp [hi, fail] at h

end SaModel.Lemmas.C13Ctor
