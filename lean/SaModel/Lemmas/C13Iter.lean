import SaModel.Read.AccessVal
import SaModel.Props.C13
/-
C13 helpers, index level: closed forms of `Iter.step` iterated (`nexts`), of the provided methods `nth` / `rest`
(std's `advance_by` + `next`; `next` until `None`), and of the fuelled `drain` for every fuel.
-/
namespace SaModel.Lemmas.C13Iter
open SaModel SaModel.Access

theorem step_lt (it : Iter) (h : it.next < it.len) : it.step = (some it.next, { it with next := it.next + 1 }) := by
  have : ¬ it.next ≥ it.len := by omega
  simp only [Iter.step, this, if_false]

theorem step_ge (it : Iter) (h : it.next ≥ it.len) : it.step = (none, it) := by
  simp only [Iter.step, h, if_true]

/-! ### `drain`: the fuel is irrelevant once it covers what remains, and never adds an item -/

theorem drain_ge (fuel : Nat) (it : Iter) (h : it.next ≥ it.len) : it.drain fuel = [] := by
  cases fuel with
  | zero => rfl
  | succ f => simp only [Iter.drain, step_ge it h]

theorem drain_fuel (fuel : Nat) : ∀ (it : Iter), it.len - it.next ≤ fuel →
    it.drain fuel = List.range' it.next (it.len - it.next) := by
  induction fuel with
  | zero =>
    intro it h
    have : it.len - it.next = 0 := by omega
    rw [this]; rfl
  | succ f ih =>
    intro it h
    by_cases hlt : it.next < it.len
    · simp only [Iter.drain, step_lt it hlt]
      rw [ih { it with next := it.next + 1 } (by simp only; omega)]
      have : it.len - it.next = (it.len - (it.next + 1)) + 1 := by omega
      rw [this, List.range'_succ]
    · rw [drain_ge _ it (by omega)]
      have : it.len - it.next = 0 := by omega
      rw [this]; rfl

theorem drain_length_le (fuel : Nat) : ∀ (it : Iter), (it.drain fuel).length ≤ it.len - it.next := by
  induction fuel with
  | zero => intro it; simp [Iter.drain]
  | succ f ih =>
    intro it
    by_cases hlt : it.next < it.len
    · simp only [Iter.drain, step_lt it hlt, List.length_cons]
      have := ih { it with next := it.next + 1 }
      simp only at this
      omega
    · rw [drain_ge _ it (by omega)]; simp

/-! ### `rest`: `next` until `None`, no fuel -/

theorem rest_eq (n : Nat) : ∀ (it : Iter), it.len - it.next = n →
    it.rest = (List.range' it.next n, { it with next := max it.next it.len }) := by
  induction n with
  | zero =>
    intro it h
    have hge : it.next ≥ it.len := by omega
    rw [Iter.rest]
    simp only [hge, dite_true, List.range'_zero]
    have : max it.next it.len = it.next := by omega
    rw [this]
  | succ n ih =>
    intro it h
    have hlt : ¬ it.next ≥ it.len := by omega
    rw [Iter.rest]
    simp only [hlt, dite_false]
    rw [ih { it with next := it.next + 1 } (by simp only; omega)]
    simp only [List.range'_succ]
    have : max (it.next + 1) it.len = max it.next it.len := by omega
    rw [this]

theorem rest_fst (it : Iter) : it.rest.1 = List.range' it.next (it.len - it.next) := by
  rw [rest_eq _ it rfl]

theorem rest_snd (it : Iter) : it.rest.2 = { it with next := max it.next it.len } := by
  rw [rest_eq _ it rfl]

/-! ### `nexts`: `n` calls of `next`, all results -/

theorem nexts_ge (n : Nat) : ∀ (it : Iter), it.next ≥ it.len → it.nexts n = (List.replicate n none, it) := by
  induction n with
  | zero => intro it _; rfl
  | succ n ih =>
    intro it h
    simp only [Iter.nexts, step_ge it h, ih it h, List.replicate_succ]

theorem nexts_eq (n : Nat) : ∀ (it : Iter),
    it.nexts n = ((List.range' it.next (min n (it.len - it.next))).map some ++ List.replicate (n - (it.len - it.next)) none,
      { it with next := if it.next ≥ it.len then it.next else min (it.next + n) it.len }) := by
  induction n with
  | zero =>
    intro it
    simp only [Iter.nexts, Nat.zero_min, List.range'_zero, List.map_nil, Nat.zero_sub, List.replicate_zero,
      List.append_nil, Nat.add_zero]
    by_cases h : it.next ≥ it.len
    · simp only [h, if_true]
    · simp only [h, if_false]
      have : min it.next it.len = it.next := by omega
      rw [this]
  | succ n ih =>
    intro it
    by_cases hlt : it.next < it.len
    · simp only [Iter.nexts, step_lt it hlt]
      rw [ih { it with next := it.next + 1 }]
      have h1 : min (n + 1) (it.len - it.next) = min n (it.len - (it.next + 1)) + 1 := by omega
      have h2 : n + 1 - (it.len - it.next) = n - (it.len - (it.next + 1)) := by omega
      have h3 : ¬ it.next ≥ it.len := by omega
      simp only [h1, h2, List.range'_succ, List.map_cons, List.cons_append, h3, if_false]
      by_cases h4 : it.next + 1 ≥ it.len
      · simp only [h4, if_true]
        have : min (it.next + (n + 1)) it.len = it.next + 1 := by omega
        rw [this]
      · simp only [h4, if_false]
        have : it.next + 1 + n = it.next + (n + 1) := by omega
        rw [this]
    · have hge : it.next ≥ it.len := by omega
      rw [nexts_ge _ it hge]
      have h1 : it.len - it.next = 0 := by omega
      simp only [h1, Nat.min_zero, List.range'_zero, List.map_nil, List.nil_append, Nat.sub_zero, hge, if_true]

/-! ### `nth`: std's default body -/

theorem nth_ge (n : Nat) (it : Iter) (h : it.next ≥ it.len) : it.nth n = (none, it) := by
  cases n with
  | zero => simp only [Iter.nth, step_ge it h]
  | succ n => simp only [Iter.nth, step_ge it h]

theorem nth_eq (n : Nat) : ∀ (it : Iter), it.next ≤ it.len →
    it.nth n = (if it.next + n < it.len then some (it.next + n) else none,
      { it with next := min (it.next + n + 1) it.len }) := by
  induction n with
  | zero =>
    intro it h
    by_cases hlt : it.next < it.len
    · simp only [Iter.nth, step_lt it hlt, Nat.add_zero, hlt, if_true]
      have : min (it.next + 1) it.len = it.next + 1 := by omega
      rw [this]
    · simp only [Iter.nth, step_ge it (by omega), Nat.add_zero, hlt, if_false]
      have : min (it.next + 1) it.len = it.next := by omega
      rw [this]
  | succ n ih =>
    intro it h
    by_cases hlt : it.next < it.len
    · simp only [Iter.nth, step_lt it hlt]
      rw [ih { it with next := it.next + 1 } (by simp only; omega)]
      have e1 : it.next + 1 + n = it.next + (n + 1) := by omega
      simp only [e1]
    · rw [nth_ge _ it (by omega)]
      have h1 : ¬ it.next + (n + 1) < it.len := by omega
      simp only [h1, if_false]
      have : min (it.next + (n + 1) + 1) it.len = it.next := by omega
      rw [this]

end SaModel.Lemmas.C13Iter
