import SaModel.Codec.Calendar
/-
C14 helper lemmas: the calendar bijection (Hinnant's `days_from_civil` / `civil_from_days`).

Proof idea (no era-sized table): inside one 400-year era the year-of-era formula
`yoeOf doe = (doe - doe/1460 + doe/36524 - doe/146096) / 365` is monotone in `doe` (step lemma by omega,
then induction), and a 400-row kernel table shows that it returns `y` on the first and on the last day of
every year-of-era `y`.  Hence `yearStart (yoeOf doe) ≤ doe < yearStart (yoeOf doe + 1)` for all 146 097
days of the era, and conversely a day inside year `y` has `yoeOf = y`.  Everything else is linear
arithmetic with division by literals (omega), after the 400-year periodicity has removed the era.
-/
namespace SaModel.Codec

/-- year of era of a day of era (the formula inside `civilFromDays`) -/
def yoeOf (doe : Int) : Int := (doe - doe / 1460 + doe / 36524 - doe / 146096) / 365

/-- first day of era of the year of era `y` (years start on March 1); `yearStart 400 = 146097` -/
def yearStart (y : Int) : Int := 365 * y + y / 4 - y / 100 + y / 400

theorem yoeOf_step (doe : Int) (h0 : 0 ≤ doe) (h1 : doe + 1 < 146097) : yoeOf doe ≤ yoeOf (doe + 1) := by
  unfold yoeOf
  by_cases h : doe + 1 = 146096
  · have : doe = 146095 := by omega
    subst this; decide
  · have e1 : doe / 146096 = 0 := by omega
    have e2 : (doe + 1) / 146096 = 0 := by omega
    rw [e1, e2]
    omega

theorem yoeOf_mono_nat (a : Int) (h0 : 0 ≤ a) : ∀ n : Nat, a + n < 146097 → yoeOf a ≤ yoeOf (a + n) := by
  intro n
  induction n with
  | zero => intro _; simp
  | succ n ih =>
    intro h
    have h1 := ih (by omega)
    have h2 := yoeOf_step (a + n) (by omega) (by omega)
    have e : a + ((n + 1 : Nat) : Int) = a + n + 1 := by omega
    rw [e]; omega

theorem yoeOf_mono {a b : Int} (h0 : 0 ≤ a) (hab : a ≤ b) (hb : b < 146097) : yoeOf a ≤ yoeOf b := by
  have := yoeOf_mono_nat a h0 (b - a).toNat (by omega)
  have e : a + ((b - a).toNat : Int) = b := by omega
  rwa [e] at this

/-- the 400-row table: the formula is right on the first and on the last day of every year of the era -/
theorem yoeOf_table : ∀ y : Nat, y < 400 →
    yoeOf (yearStart y) = y ∧ yoeOf (yearStart ((y : Int) + 1) - 1) = y := by decide +kernel

theorem yearStart_mono {a b : Int} (h : a ≤ b) : yearStart a ≤ yearStart b := by
  unfold yearStart; omega

theorem yearStart_bounds {y : Int} (h0 : 0 ≤ y) (h1 : y ≤ 399) :
    0 ≤ yearStart y ∧ yearStart (y + 1) ≤ 146097 ∧ yearStart y + 365 ≤ yearStart (y + 1) := by
  unfold yearStart; omega

/-- a day inside the year of era `y` has `yoeOf = y` -/
theorem yoeOf_unique {doe y : Int} (h0 : 0 ≤ y) (h1 : y ≤ 399) (hlo : yearStart y ≤ doe)
    (hhi : doe < yearStart (y + 1)) : yoeOf doe = y := by
  obtain ⟨n, rfl⟩ := Int.eq_ofNat_of_zero_le h0
  have ht := yoeOf_table n (by omega)
  have hb := yearStart_bounds h0 h1
  have l1 := yoeOf_mono hb.1 hlo (by omega)
  have l2 := yoeOf_mono (a := doe) (b := yearStart ((n : Int) + 1) - 1) (by omega) (by omega) (by omega)
  omega

theorem yoeOf_range {doe : Int} (h0 : 0 ≤ doe) (h1 : doe < 146097) : 0 ≤ yoeOf doe ∧ yoeOf doe ≤ 399 := by
  have l1 := yoeOf_mono (a := 0) (b := doe) (by omega) h0 h1
  have l2 := yoeOf_mono (a := doe) (b := 146096) h0 (by omega) (by omega)
  have e1 : yoeOf 0 = 0 := by decide
  have e2 : yoeOf 146096 = 399 := by decide
  omega

/-- every day of the era lies inside the year the formula computes -/
theorem yoeOf_spec {doe : Int} (h0 : 0 ≤ doe) (h1 : doe < 146097) :
    (0 ≤ yoeOf doe ∧ yoeOf doe ≤ 399) ∧ yearStart (yoeOf doe) ≤ doe ∧ doe < yearStart (yoeOf doe + 1) := by
  have hr := yoeOf_range h0 h1
  refine ⟨hr, ?_, ?_⟩
  · -- otherwise `doe` is at most the last day of the previous year, whose `yoeOf` is smaller
    apply Classical.byContradiction
    intro hc
    have hpos : 1 ≤ yoeOf doe := by
      apply Classical.byContradiction
      intro h; have : yoeOf doe = 0 := by omega
      rw [this] at hc; exact hc (by unfold yearStart; omega)
    obtain ⟨n, hn⟩ := Int.eq_ofNat_of_zero_le (show 0 ≤ yoeOf doe - 1 by omega)
    have ht := (yoeOf_table n (by omega)).2
    have e : (n : Int) + 1 = yoeOf doe := by omega
    rw [e] at ht
    have hb := yearStart_bounds (y := yoeOf doe - 1) (by omega) (by omega)
    rw [show yoeOf doe - 1 + 1 = yoeOf doe by omega] at hb
    have l := yoeOf_mono (a := doe) (b := yearStart (yoeOf doe) - 1) h0 (by omega) (by omega)
    omega
  · apply Classical.byContradiction
    intro hc
    have hlt : yoeOf doe + 1 ≤ 399 := by
      apply Classical.byContradiction
      intro h; have : yoeOf doe = 399 := by omega
      rw [this] at hc; exact hc (by unfold yearStart; omega)
    obtain ⟨n, hn⟩ := Int.eq_ofNat_of_zero_le (show 0 ≤ yoeOf doe + 1 by omega)
    have ht := (yoeOf_table n (by omega)).1
    rw [← hn] at ht
    have hb := yearStart_bounds (y := yoeOf doe + 1) (by omega) (by omega)
    have l := yoeOf_mono (a := yearStart (yoeOf doe + 1)) (b := doe) (by omega) (by omega) h1
    omega

/-! ### days → civil → days, on all of ℤ -/

theorem doe_range (z : Int) : 0 ≤ z + 719468 - (z + 719468) / 146097 * 146097 ∧
    z + 719468 - (z + 719468) / 146097 * 146097 < 146097 := by omega

theorem daysFromCivil_civilFromDays (z : Int) :
    daysFromCivil (civilFromDays z).1 (civilFromDays z).2.1 (civilFromDays z).2.2 = z := by
  have hd := doe_range z
  unfold civilFromDays
  simp only
  generalize hdoe : z + 719468 - (z + 719468) / 146097 * 146097 = doe at *
  have hs := yoeOf_spec hd.1 hd.2
  unfold yoeOf at hs
  generalize hy : (doe - doe / 1460 + doe / 36524 - doe / 146096) / 365 = yoe at *
  clear hy
  unfold yearStart at hs
  unfold daysFromCivil
  simp only
  generalize (z + 719468) / 146097 = era at *
  have hdoy : 0 ≤ doe - (365 * yoe + yoe / 4 - yoe / 100) ∧ doe - (365 * yoe + yoe / 4 - yoe / 100) ≤ 366 := by omega
  generalize hdy : doe - (365 * yoe + yoe / 4 - yoe / 100) = doy at *
  have hmp : 0 ≤ (5 * doy + 2) / 153 ∧ (5 * doy + 2) / 153 ≤ 11 := by omega
  generalize hm : (5 * doy + 2) / 153 = mp at *
  have e1 : (yoe + era * 400) / 400 = era := by omega
  split
  · have e2 : (mp + 3 + 9) % 12 = mp := by omega
    have e3 : ¬ (mp + 3 ≤ 2) := by omega
    rw [e2, if_neg e3, if_neg e3, e1, show yoe + era * 400 - era * 400 = yoe by omega]
    omega
  · have e2 : (mp - 9 + 9) % 12 = mp := by omega
    have e3 : mp - 9 ≤ 2 := by omega
    rw [e2, if_pos e3, if_pos e3, show yoe + era * 400 + 1 - 1 = yoe + era * 400 by omega, e1, show yoe + era * 400 - era * 400 = yoe by omega]
    omega

/-! ### valid civil dates -/

theorem isLeapYear_iff (y : Int) : isLeapYear y = true ↔ (y % 4 = 0 ∧ (y % 100 ≠ 0 ∨ y % 400 = 0)) := by
  unfold isLeapYear
  simp only [Bool.and_eq_true, Bool.or_eq_true, decide_eq_true_eq, ne_eq]

/-- month lengths, as linear facts -/
theorem daysInMonth_cases (y m : Int) :
    (m = 2 → daysInMonth y m = 28 + (if y % 4 = 0 ∧ (y % 100 ≠ 0 ∨ y % 400 = 0) then 1 else 0)) ∧
    ((m = 4 ∨ m = 6 ∨ m = 9 ∨ m = 11) → daysInMonth y m = 30) ∧
    ((m = 1 ∨ m = 3 ∨ m = 5 ∨ m = 7 ∨ m = 8 ∨ m = 10 ∨ m = 12) → daysInMonth y m = 31) := by
  unfold daysInMonth
  refine ⟨?_, ?_, ?_⟩
  · intro h
    rw [if_pos h]
    by_cases hl : isLeapYear y = true
    · rw [if_pos hl, if_pos ((isLeapYear_iff y).1 hl)]; rfl
    · rw [if_neg hl, if_neg (fun h => hl ((isLeapYear_iff y).2 h))]; rfl
  · intro h
    rw [if_neg (by omega), if_pos h]
  · intro h
    rw [if_neg (by omega), if_neg (by omega)]

theorem validDate_iff (y m d : Int) :
    validDate y m d = true ↔ (1 ≤ m ∧ m ≤ 12 ∧ 1 ≤ d ∧ d ≤ daysInMonth y m) := by
  unfold validDate
  simp only [Bool.and_eq_true, decide_eq_true_eq, and_assoc]

theorem yearStart_leap {yoe : Int} (_h0 : 0 ≤ yoe) (_h1 : yoe ≤ 399)
    (hl : (yoe + 1) % 4 = 0 ∧ ((yoe + 1) % 100 ≠ 0 ∨ (yoe + 1) % 400 = 0)) :
    yearStart yoe + 366 ≤ yearStart (yoe + 1) := by
  unfold yearStart
  have a4 : (yoe + 1) / 4 = yoe / 4 + 1 := by omega
  rcases hl.2 with h | h
  · have a100 : (yoe + 1) / 100 = yoe / 100 := by omega
    omega
  · have : yoe = 399 := by omega
    subst this; decide

theorem yearStart_common {yoe : Int} (_h0 : 0 ≤ yoe) (_h1 : yoe ≤ 399)
    (hl : ¬ ((yoe + 1) % 4 = 0 ∧ ((yoe + 1) % 100 ≠ 0 ∨ (yoe + 1) % 400 = 0))) :
    yearStart (yoe + 1) = yearStart yoe + 365 := by
  unfold yearStart
  have a400 : (yoe + 1) / 400 = yoe / 400 := by omega
  by_cases h4 : (yoe + 1) % 4 = 0
  · have h100 : (yoe + 1) % 100 = 0 := by
      apply Classical.byContradiction; intro h; exact hl ⟨h4, Or.inl h⟩
    have a4 : (yoe + 1) / 4 = yoe / 4 + 1 := by omega
    have a100 : (yoe + 1) / 100 = yoe / 100 + 1 := by omega
    omega
  · have a4 : (yoe + 1) / 4 = yoe / 4 := by omega
    have a100 : (yoe + 1) / 100 = yoe / 100 := by omega
    omega

theorem validDate_bounds {y m d : Int} (h : validDate y m d = true) : (1 ≤ m ∧ m ≤ 12) ∧ (1 ≤ d ∧ d ≤ 31) := by
  rw [validDate_iff] at h
  obtain ⟨c2, c30, c31⟩ := daysInMonth_cases y m
  refine ⟨⟨h.1, h.2.1⟩, h.2.2.1, ?_⟩
  have hm : m = 2 ∨ (m = 4 ∨ m = 6 ∨ m = 9 ∨ m = 11) ∨ (m = 1 ∨ m = 3 ∨ m = 5 ∨ m = 7 ∨ m = 8 ∨ m = 10 ∨ m = 12) := by omega
  rcases hm with hm | hm | hm
  · have := c2 hm; split at this <;> omega
  · have := c30 hm; omega
  · have := c31 hm; omega

/-- the day of the (March-based) year of a valid date lies inside that year -/
theorem doy_bound (y m d : Int) (hv : validDate y m d = true) :
    let y0 := if m ≤ 2 then y - 1 else y
    let yoe := y0 - y0 / 400 * 400
    let mp := (m + 9) % 12
    let doy := (153 * mp + 2) / 5 + d - 1
    (0 ≤ yoe ∧ yoe ≤ 399) ∧ 0 ≤ doy ∧ yearStart yoe + doy < yearStart (yoe + 1) ∧
      (5 * doy + 2) / 153 = mp ∧ (0 ≤ mp ∧ mp ≤ 11) ∧ (m = if mp < 10 then mp + 3 else mp - 9) := by
  rw [validDate_iff] at hv
  obtain ⟨h1, h2, h3, h4⟩ := hv
  obtain ⟨c2, c30, c31⟩ := daysInMonth_cases y m
  simp only
  generalize hy0 : (if m ≤ 2 then y - 1 else y) = y0
  have hyoe : 0 ≤ y0 - y0 / 400 * 400 ∧ y0 - y0 / 400 * 400 ≤ 399 := by omega
  have hyy : m = 2 → (y % 4 = (y0 - y0 / 400 * 400 + 1) % 4 ∧ y % 100 = (y0 - y0 / 400 * 400 + 1) % 100 ∧
      y % 400 = (y0 - y0 / 400 * 400 + 1) % 400) := by
    intro hm; rw [if_pos (by omega)] at hy0; omega
  generalize y0 - y0 / 400 * 400 = yoe at *
  have hb := (yearStart_bounds hyoe.1 hyoe.2).2.2
  refine ⟨hyoe, ?_⟩
  have hm : m = 1 ∨ m = 2 ∨ m = 3 ∨ m = 4 ∨ m = 5 ∨ m = 6 ∨ m = 7 ∨ m = 8 ∨ m = 9 ∨ m = 10 ∨ m = 11 ∨ m = 12 := by omega
  rcases hm with rfl | rfl | rfl | rfl | rfl | rfl | rfl | rfl | rfl | rfl | rfl | rfl
  case inr.inl =>
    obtain ⟨y4, y100, y400⟩ := hyy rfl
    have c2 := c2 rfl
    rw [y4, y100, y400] at c2
    by_cases hl : (yoe + 1) % 4 = 0 ∧ ((yoe + 1) % 100 ≠ 0 ∨ (yoe + 1) % 400 = 0)
    · have := yearStart_leap hyoe.1 hyoe.2 hl
      rw [if_pos hl] at c2
      simp only [Int.reduceAdd, Int.reduceMod, Int.reduceMul, Int.reduceDiv]
      omega
    · rw [if_neg hl] at c2
      simp only [Int.reduceAdd, Int.reduceMod, Int.reduceMul, Int.reduceDiv]
      omega
  all_goals (
    first
    | (have c := c31 (by omega); simp only [Int.reduceAdd, Int.reduceMod, Int.reduceMul, Int.reduceDiv]; omega)
    | (have c := c30 (by omega); simp only [Int.reduceAdd, Int.reduceMod, Int.reduceMul, Int.reduceDiv]; omega))

theorem civilFromDays_daysFromCivil (y m d : Int) (hv : validDate y m d = true) :
    civilFromDays (daysFromCivil y m d) = (y, m, d) := by
  have hb := doy_bound y m d hv
  simp only at hb
  unfold daysFromCivil
  simp only
  generalize hy0 : (if m ≤ 2 then y - 1 else y) = y0 at *
  generalize hera : y0 / 400 = era at *
  generalize hyoe : y0 - era * 400 = yoe at *
  generalize hmp : (m + 9) % 12 = mp at *
  generalize hdoy : (153 * mp + 2) / 5 + d - 1 = doy at *
  obtain ⟨hr, hd0, hd1, hmp', hmpr, hm⟩ := hb
  have hs := yearStart_bounds hr.1 hr.2
  have hu := yoeOf_unique (doe := yearStart yoe + doy) hr.1 hr.2 (by omega) hd1
  have hys : yoe * 365 + yoe / 4 - yoe / 100 = yearStart yoe := by unfold yearStart; omega
  rw [hys]
  unfold civilFromDays
  simp only
  have e1 : (era * 146097 + (yearStart yoe + doy) - 719468 + 719468) / 146097 = era := by omega
  rw [e1, show era * 146097 + (yearStart yoe + doy) - 719468 + 719468 - era * 146097 = yearStart yoe + doy by omega]
  unfold yoeOf at hu
  rw [hu]
  have e2 : yearStart yoe + doy - (365 * yoe + yoe / 4 - yoe / 100) = doy := by omega
  rw [e2, hmp', ← hm]
  have e3 : doy - (153 * mp + 2) / 5 + 1 = d := by omega
  rw [e3]
  have e4 : (if m ≤ 2 then yoe + era * 400 + 1 else yoe + era * 400) = y := by
    split at hy0 <;> rename_i h
    · rw [if_pos h]; omega
    · rw [if_neg h]; omega
  rw [e4]

/-! ### the civil date of a day count is valid; chrono's year range -/

theorem yearStart_le366 {yoe : Int} (h0 : 0 ≤ yoe) (h1 : yoe ≤ 399) : yearStart (yoe + 1) ≤ yearStart yoe + 366 := by
  by_cases hl : (yoe + 1) % 4 = 0 ∧ ((yoe + 1) % 100 ≠ 0 ∨ (yoe + 1) % 400 = 0)
  · unfold yearStart
    have a4 : (yoe + 1) / 4 = yoe / 4 + 1 := by omega
    rcases hl.2 with h | h
    · have a100 : (yoe + 1) / 100 = yoe / 100 := by omega
      omega
    · have : yoe = 399 := by omega
      subst this; decide
  · rw [yearStart_common h0 h1 hl]; omega

/-- what `civilFromDays` computes, in terms of era / year of era / day of year -/
theorem civilFromDays_anatomy (z : Int) :
    ∃ era yoe doy mp : Int, (0 ≤ yoe ∧ yoe ≤ 399) ∧ 0 ≤ doy ∧ yearStart yoe + doy < yearStart (yoe + 1) ∧
      z = era * 146097 + yearStart yoe + doy - 719468 ∧ mp = (5 * doy + 2) / 153 ∧ (0 ≤ mp ∧ mp ≤ 11) ∧
      civilFromDays z = (if (if mp < 10 then mp + 3 else mp - 9) ≤ 2 then yoe + era * 400 + 1 else yoe + era * 400,
        if mp < 10 then mp + 3 else mp - 9, doy - (153 * mp + 2) / 5 + 1) := by
  have hd := doe_range z
  unfold civilFromDays
  simp only
  generalize hdoe : z + 719468 - (z + 719468) / 146097 * 146097 = doe at *
  have hs := yoeOf_spec hd.1 hd.2
  unfold yoeOf at hs
  generalize hy : (doe - doe / 1460 + doe / 36524 - doe / 146096) / 365 = yoe at *
  clear hy
  generalize (z + 719468) / 146097 = era at *
  have hys : 365 * yoe + yoe / 4 - yoe / 100 = yearStart yoe := by unfold yearStart; omega
  rw [hys]
  have h366 := yearStart_le366 hs.1.1 hs.1.2
  refine ⟨era, yoe, doe - yearStart yoe, _, hs.1, by omega, by omega, by omega, rfl, by omega, rfl⟩

theorem civilFromDays_valid (z : Int) :
    validDate (civilFromDays z).1 (civilFromDays z).2.1 (civilFromDays z).2.2 = true := by
  obtain ⟨era, yoe, doy, mp, hr, hd0, hd1, _, hmp, hmpr, he⟩ := civilFromDays_anatomy z
  rw [he, validDate_iff]
  simp only
  have h366 := yearStart_le366 hr.1 hr.2
  have hcases : mp = 0 ∨ mp = 1 ∨ mp = 2 ∨ mp = 3 ∨ mp = 4 ∨ mp = 5 ∨ mp = 6 ∨ mp = 7 ∨ mp = 8 ∨ mp = 9 ∨ mp = 10 ∨ mp = 11 := by omega
  generalize hy : (if (if mp < 10 then mp + 3 else mp - 9) ≤ 2 then yoe + era * 400 + 1 else yoe + era * 400) = y
  obtain ⟨c2, c30, c31⟩ := daysInMonth_cases y (if mp < 10 then mp + 3 else mp - 9)
  rcases hcases with h | h | h | h | h | h | h | h | h | h | h | h
  case inr.inr.inr.inr.inr.inr.inr.inr.inr.inr.inr =>
    subst h
    simp only [Int.reduceLT, if_false, Int.reduceSub, Int.reduceLE, if_true, Int.reduceMul, Int.reduceAdd, Int.reduceDiv] at *
    have c2 := c2 (by decide)
    refine ⟨trivial, trivial, ?_⟩
    have hyy : y % 4 = (yoe + 1) % 4 ∧ y % 100 = (yoe + 1) % 100 ∧ y % 400 = (yoe + 1) % 400 := by omega
    rw [hyy.1, hyy.2.1, hyy.2.2] at c2
    by_cases hl : (yoe + 1) % 4 = 0 ∧ ((yoe + 1) % 100 ≠ 0 ∨ (yoe + 1) % 400 = 0)
    · rw [if_pos hl] at c2; omega
    · rw [if_neg hl] at c2
      have := yearStart_common hr.1 hr.2 hl
      omega
  all_goals (
    subst h
    simp only [Int.reduceLT, if_false, if_true, Int.reduceSub, Int.reduceLE, Int.reduceMul, Int.reduceAdd, Int.reduceDiv] at *
    refine ⟨trivial, trivial, ?_⟩
    first
    | (have c := c31 (by decide); omega)
    | (have c := c30 (by decide); omega))

/-- a day count inside chrono's range has a year inside chrono's range -/
theorem civilFromDays_year_bounds (z : Int) (h : inChronoDays z = true) :
    chronoMinYear ≤ (civilFromDays z).1 ∧ (civilFromDays z).1 ≤ chronoMaxYear := by
  unfold inChronoDays chronoMinDays chronoMaxDays at h
  simp only [Bool.and_eq_true, decide_eq_true_eq] at h
  unfold chronoMinYear chronoMaxYear
  obtain ⟨era, yoe, doy, mp, hr, hd0, hd1, hz, hmp, hmpr, he⟩ := civilFromDays_anatomy z
  rw [he]
  simp only
  have hb := yearStart_bounds hr.1 hr.2
  have hera : -656 ≤ era ∧ era ≤ 655 := by omega
  have e256 : yearStart 256 = 93502 := by decide
  have e142 : yearStart 142 = 51864 := by decide
  have e143 : yearStart 143 = 52229 := by decide
  constructor
  · by_cases h1 : era = -656
    · subst h1
      have : 256 ≤ yoe := by
        apply Classical.byContradiction; intro hc
        have := yearStart_mono (a := yoe + 1) (b := 256) (by omega)
        omega
      by_cases h2 : yoe = 256
      · subst h2
        have : 10 ≤ mp := by omega
        rw [if_neg (show ¬ mp < 10 by omega), if_pos (show mp - 9 ≤ 2 by omega)]; omega
      · split <;> omega
    · split <;> omega
  · by_cases h1 : era = 655
    · subst h1
      have : yoe ≤ 142 := by
        apply Classical.byContradiction; intro hc
        have := yearStart_mono (a := 143) (b := yoe) (by omega)
        omega
      by_cases h2 : yoe = 142
      · subst h2
        have : mp ≤ 9 := by omega
        rw [if_pos (show mp < 10 by omega), if_neg (show ¬ mp + 3 ≤ 2 by omega)]; omega
      · split <;> omega
    · split <;> omega

end SaModel.Codec
