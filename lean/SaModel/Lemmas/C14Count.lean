import SaModel.Lemmas.C14Succ
/-
C14 helper lemmas: the closed formula `daysFromCivil` equals the day number obtained by COUNTING
(`Spec.Calendar.dayNumber`: whole years one by one from 1970, whole months one by one from January, days).
-/
namespace SaModel.Codec
open SaModel.Spec.Calendar

theorem yearLength_eq (y : Int) :
    yearLength y = 365 + (if y % 4 = 0 ∧ (y % 100 ≠ 0 ∨ y % 400 = 0) then 1 else 0) := by
  unfold yearLength
  rw [isLeap_eq]
  by_cases hl : isLeapYear y = true
  · rw [if_pos hl, if_pos ((isLeapYear_iff y).1 hl)]; rfl
  · rw [if_neg hl, if_neg (fun h => hl ((isLeapYear_iff y).2 h))]; rfl

/-- from the first of January to the first of January of the next year: the length of the year -/
theorem daysFromCivil_jan1_succ (y : Int) : daysFromCivil (y + 1) 1 1 = daysFromCivil y 1 1 + yearLength y := by
  rw [yearLength_eq]
  unfold daysFromCivil
  simp only [Int.reduceLE, if_true, Int.reduceAdd, Int.reduceMod, Int.reduceMul, Int.reduceDiv]
  rw [show y + 1 - 1 = y by omega]
  by_cases hl : y % 4 = 0 ∧ (y % 100 ≠ 0 ∨ y % 400 = 0)
  · rw [if_pos hl]; omega
  · rw [if_neg hl]; omega

theorem daysUp_eq (k : Nat) : daysUp k = daysFromCivil (1970 + k) 1 1 := by
  induction k with
  | zero => decide
  | succ k ih =>
    unfold daysUp
    rw [ih, show (1970 : Int) + ((k + 1 : Nat) : Int) = 1970 + k + 1 by omega, daysFromCivil_jan1_succ]

theorem daysDown_eq (k : Nat) : daysDown k = - daysFromCivil (1970 - k) 1 1 := by
  induction k with
  | zero => decide
  | succ k ih =>
    unfold daysDown
    have := daysFromCivil_jan1_succ (1970 - ((k + 1 : Nat) : Int))
    rw [show (1970 : Int) - ((k + 1 : Nat) : Int) + 1 = 1970 - k by omega] at this
    rw [ih]; omega

theorem daysBeforeYear_eq (y : Int) : daysBeforeYear y = daysFromCivil y 1 1 := by
  unfold daysBeforeYear
  by_cases h : 1970 ≤ y
  · rw [if_pos h, daysUp_eq, show (1970 : Int) + ((y - 1970).toNat : Int) = y by omega]
  · rw [if_neg h, daysDown_eq, show (1970 : Int) - ((1970 - y).toNat : Int) = y by omega]; omega

theorem daysFromCivil_day_add (y m d : Int) : daysFromCivil y m d = daysFromCivil y m 1 + (d - 1) := by
  unfold daysFromCivil
  simp only
  omega

theorem daysBeforeMonth_eq (y : Int) (k : Nat) (hk : k ≤ 11) :
    daysBeforeMonth y k = daysFromCivil y (k + 1) 1 - daysFromCivil y 1 1 := by
  induction k with
  | zero => unfold daysBeforeMonth; simp
  | succ k ih =>
    unfold daysBeforeMonth
    rw [ih (by omega), monthLength_eq y _ (by omega) (by omega)]
    have h1 := daysFromCivil_month_succ y ((k + 1 : Nat) : Int) (by omega) (by omega)
    have h2 := daysFromCivil_day_add y ((k + 1 : Nat) : Int) (daysInMonth y ((k + 1 : Nat) : Int))
    rw [show ((k + 1 : Nat) : Int) = (k : Int) + 1 by omega] at h1 h2 ⊢
    omega

/-- the closed formula is the count -/
theorem daysFromCivil_eq_dayNumber (y m d : Int) (h1 : 1 ≤ m) (h2 : m ≤ 12) : daysFromCivil y m d = dayNumber (y, m, d) := by
  unfold dayNumber
  simp only
  rw [daysBeforeYear_eq, daysBeforeMonth_eq y _ (by omega), show (((m - 1).toNat : Nat) : Int) + 1 = m by omega,
    daysFromCivil_day_add y m d]
  omega

end SaModel.Codec
