import SaModel.Lemmas.C14Time
import SaModel.Lemmas.C14Cal
/-
C14 helper lemmas: chrono's date / date-time parsers (model) on the strings the date and timestamp readers
(model of `NaiveDate`'s `Debug` and of the crate's own `-YYYYYY` branch) produce.
-/
namespace SaModel.Codec

/-! ### `scan::number` on a run of digits -/

theorem scanNumberAux_digits (ds : List Char) : ∀ (k acc : Nat) (rest : List Char), AllDigits ds → ds.length ≤ k →
    (∀ c r, rest = c :: r → isDigit c = false) →
    scanNumberAux k acc (ds ++ rest) = (acc * 10 ^ ds.length + digitsVal ds, rest) := by
  induction ds with
  | nil =>
    intro k acc rest _ _ hr
    simp only [List.nil_append, List.length_nil, Nat.pow_zero, Nat.mul_one, digitsVal_nil, Nat.add_zero]
    cases k with
    | zero => rfl
    | succ k =>
      cases rest with
      | nil => rfl
      | cons c r => simp [scanNumberAux, hr c r rfl]
  | cons c cs ih =>
    intro k acc rest had hk hr
    cases k with
    | zero => simp at hk
    | succ k =>
      have hc : isDigit c = true := had c (by simp)
      simp only [List.cons_append, scanNumberAux, hc, if_true]
      rw [ih k _ rest (fun x hx => had x (by simp [hx])) (by simpa using hk) hr]
      simp only [List.length_cons, digitsVal_cons, Nat.pow_succ, Prod.mk.injEq, and_true]
      rw [Nat.add_mul, Nat.mul_assoc, Nat.mul_comm (10 ^ cs.length) 10, Nat.add_assoc]

theorem scanNumber_digits (ds rest : List Char) (k : Nat) (had : AllDigits ds) (hne : ds ≠ []) (hk : ds.length ≤ k)
    (hr : ∀ c r, rest = c :: r → isDigit c = false) : scanNumber (ds ++ rest) k = some (rest, digitsVal ds) := by
  cases ds with
  | nil => exact absurd rfl hne
  | cons c cs =>
    have hc : isDigit c = true := had c (by simp)
    have := scanNumberAux_digits (c :: cs) k 0 rest had hk hr
    rw [List.cons_append] at this ⊢
    simp only [scanNumber, hc, if_true, this, Nat.zero_mul, Nat.zero_add]

/-! ### the year item -/

theorem digitsVal_replicate_zero (k : Nat) : digitsVal (List.replicate k '0') = 0 := by
  induction k with
  | zero => rfl
  | succ k ih =>
    have h0 : digitVal '0' = 0 := by decide
    rw [List.replicate_succ, digitsVal_cons, ih, h0]; simp

theorem padDigitsMin_allDigits (w n : Nat) : AllDigits (padDigitsMin w n) := by
  intro c hc
  simp only [padDigitsMin, List.mem_append, List.mem_replicate] at hc
  rcases hc with h | h
  · rw [h.2]; decide
  · exact natDigits_allDigits n c h

theorem digitsVal_padDigitsMin (w n : Nat) : digitsVal (padDigitsMin w n) = n := by
  simp only [padDigitsMin, digitsVal_append, digitsVal_replicate_zero, Nat.zero_mul, Nat.zero_add, digitsVal_natDigits]

theorem padDigitsMin_ne_nil (w n : Nat) : padDigitsMin w n ≠ [] := by
  have := natDigits_ne_nil n
  simp only [padDigitsMin, ne_eq, List.append_eq_nil_iff, not_and]
  intro _; exact this

/-- the year part of `formatDate` -/
def formatYear (y : Int) : List Char :=
  if y < 0 then ['-'] ++ padDigitsMin 6 (-y).toNat
  else if y ≤ 9999 then padDigits 4 y.toNat
  else ['+'] ++ natDigits y.toNat

theorem formatDate_eq (y m d : Int) :
    formatDate y m d = formatYear y ++ ['-'] ++ padDigits 2 m.toNat ++ ['-'] ++ padDigits 2 d.toNat := by
  unfold formatDate formatYear
  simp only
  split
  · simp only [List.append_assoc]
  · split <;> simp only [List.append_assoc]

theorem skipWs_of_not_ws {c : Char} (h : isWs c = false) (cs : List Char) : skipWs (c :: cs) = c :: cs := by
  simp [skipWs, h]

theorem itemYear_formatYear (y : Int) (rest : List Char) :
    itemYear (formatYear y ++ '-' :: rest) = some ('-' :: rest, y) := by
  have hr : ∀ (c : Char) (r : List Char), '-' :: rest = c :: r → isDigit c = false := by
    intro c r h; cases h; decide
  unfold formatYear
  split
  · rename_i hy
    unfold itemYear
    simp only [List.cons_append, List.nil_append]
    rw [skipWs_of_not_ws (by decide)]
    simp only
    rw [scanNumber_digits _ _ _ (padDigitsMin_allDigits _ _) (padDigitsMin_ne_nil _ _) (by simp) hr]
    simp only [Option.map_some, digitsVal_padDigitsMin, Option.some.injEq, Prod.mk.injEq, true_and]
    omega
  · rename_i hy
    split
    · rename_i hy2
      have e : padDigits 4 y.toNat = digitChar (y.toNat / 10 / 10 / 10) :: padDigits 3 y.toNat := by
        simp [padDigits]
      have hd : isDigit (digitChar (y.toNat / 10 / 10 / 10)) = true := isDigit_digitChar _
      generalize hc : digitChar (y.toNat / 10 / 10 / 10) = c at e hd
      have hsc := scanNumber_digits (padDigits 4 y.toNat) ('-' :: rest) 4 (padDigits_allDigits _ _)
        (by intro h; have := padDigits_length 4 y.toNat; rw [h] at this; simp at this) (by rw [padDigits_length]; omega) hr
      rw [digitsVal_padDigits, Nat.mod_eq_of_lt (by omega)] at hsc
      unfold itemYear
      rw [e, List.cons_append, skipWs_digit hd]
      rw [e, List.cons_append] at hsc
      split
      · rename_i heq; cases heq; exact absurd hd (by decide)
      · rename_i heq; cases heq; exact absurd hd (by decide)
      · rename_i s _ _
        rw [hsc]
        simp only [Option.map_some, Option.some.injEq, Prod.mk.injEq, true_and]
        omega
    · rename_i hy2
      unfold itemYear
      simp only [List.cons_append, List.nil_append]
      rw [skipWs_of_not_ws (by decide)]
      simp only
      rw [scanNumber_digits _ _ _ (natDigits_allDigits _) (natDigits_ne_nil _) (by simp) hr]
      simp only [Option.map_some, digitsVal_natDigits, Option.some.injEq, Prod.mk.injEq, true_and]
      omega

/-! ### the date items -/

theorem parseDateItems_formatDate (y m d : Int) (hm : 0 ≤ m ∧ m < 100) (hd : 0 ≤ d ∧ d < 100) (rest : List Char) :
    parseDateItems (formatDate y m d ++ rest) = some (rest, y, m.toNat, d.toNat) := by
  rw [formatDate_eq]
  have e : formatYear y ++ ['-'] ++ padDigits 2 m.toNat ++ ['-'] ++ padDigits 2 d.toNat ++ rest =
      formatYear y ++ '-' :: (padDigits 2 m.toNat ++ '-' :: (padDigits 2 d.toNat ++ rest)) := by
    simp only [List.append_assoc, List.cons_append, List.nil_append]
  rw [e]
  unfold parseDateItems
  rw [itemYear_formatYear]
  simp only [Option.bind_eq_bind, Option.bind_some]
  rw [skipWs_of_not_ws (by decide)]
  simp only [itemLit, if_true, Option.bind_some]
  rw [itemTwo_pad _ (by omega)]
  simp only [Option.bind_some]
  rw [skipWs_of_not_ws (by decide)]
  simp only [if_true, Option.bind_some]
  rw [itemTwo_pad _ (by omega)]
  rfl

theorem resolveDate_civilFromDays (z : Int) (h : inChronoDays z = true) :
    resolveDate (civilFromDays z).1 (civilFromDays z).2.1.toNat (civilFromDays z).2.2.toNat = some z := by
  have hv := civilFromDays_valid z
  have hy := civilFromDays_year_bounds z h
  have hb := validDate_bounds hv
  unfold resolveDate
  rw [Int.toNat_of_nonneg (by omega), Int.toNat_of_nonneg (by omega)]
  rw [if_pos ⟨hy.1, hy.2, hv⟩, daysFromCivil_civilFromDays]

/-- **date string round trip** (parser side): the string form of any day count inside chrono's range is parsed
back to that day count -/
theorem parseNaiveDate_formatDays (z : Int) (h : inChronoDays z = true) : parseNaiveDate (formatDays z) = .ok z := by
  have hv := civilFromDays_valid z
  have hb := validDate_bounds hv
  unfold parseNaiveDate formatDays
  have := parseDateItems_formatDate (civilFromDays z).1 (civilFromDays z).2.1 (civilFromDays z).2.2
    (by omega) (by omega) []
  rw [List.append_nil] at this
  simp only [this, skipWs, resolveDate_civilFromDays z h]

/-! ### the time items, followed by nothing or by the `Z` suffix -/

theorem scanNanosecond_pad_rest (w x : Nat) (hw : 0 < w ∧ w ≤ 9) (hx : x < 10 ^ w) (rest : List Char)
    (hr : ∀ c r, rest = c :: r → isDigit c = false) :
    scanNanosecond (padDigits w x ++ rest) = some (rest, x * 10 ^ (9 - w)) := by
  unfold scanNanosecond
  rw [takeDigits_append (padDigits_allDigits w x) rest hr]
  have hne : padDigits w x ≠ [] := by
    intro h; have := padDigits_length w x; rw [h] at this; simp at this; omega
  cases hp : padDigits w x with
  | nil => exact absurd hp hne
  | cons c cs =>
    simp only
    rw [← hp, List.take_of_length_le (by rw [padDigits_length]; omega), padDigits_length, digitsVal_padDigits,
      Nat.mod_eq_of_lt hx]

theorem parseSecondNanos_plain_rest (s : Nat) (hs : s < 100) (rest : List Char) (hrest : rest = [] ∨ rest = ['Z']) :
    parseSecondNanos ([':'] ++ padDigits 2 s ++ rest) = some (rest, s, none) := by
  unfold parseSecondNanos
  simp only [List.cons_append, List.nil_append, skipWs_colon, itemLit, if_true, Option.bind_eq_bind, Option.bind_some]
  rw [itemTwo_pad s hs]
  rcases hrest with rfl | rfl <;> rfl

theorem parseSecondNanos_frac_rest (s w x : Nat) (hs : s < 100) (hw : 0 < w ∧ w ≤ 9) (hx : x < 10 ^ w)
    (rest : List Char) (hrest : rest = [] ∨ rest = ['Z']) :
    parseSecondNanos ([':'] ++ padDigits 2 s ++ ['.'] ++ padDigits w x ++ rest) = some (rest, s, some (x * 10 ^ (9 - w))) := by
  have hr : ∀ c r, rest = c :: r → isDigit c = false := by
    rcases hrest with rfl | rfl
    · intro c r h; cases h
    · intro c r h; cases h; decide
  unfold parseSecondNanos
  simp only [List.cons_append, List.nil_append, skipWs_colon, itemLit, if_true, Option.bind_eq_bind, Option.bind_some,
    List.append_assoc]
  rw [itemTwo_pad s hs]
  simp only [Option.bind_some, itemNanosecond, scanNanosecond_pad_rest w x hw hx rest hr, Option.map_some]
  rcases hrest with rfl | rfl <;> rfl

/-- the fraction `formatTime` prints: none, or 3 / 6 / 9 digits -/
def fracOf (nanos : Nat) : Option Nat := if nanos = 0 then none else some nanos

/-- chrono's time items read the reader's time string back: hour, minute, second, nanosecond -/
theorem parseTimeItems_formatTime (secs nanos : Nat) (hs : secs < 86400) (hn : nanos < 1000000000)
    (rest : List Char) (hrest : rest = [] ∨ rest = ['Z']) :
    parseTimeItems (formatTime secs nanos ++ rest) =
      some (rest, secs / 3600, secs / 60 % 60, secs % 60, fracOf nanos) := by
  have e3 : nanos % 1000000 = 0 → nanos / 1000000 * 10 ^ (9 - 3) = nanos := by
    intro h; rw [show (10 : Nat) ^ (9 - 3) = 1000000 by simp]; omega
  have e6 : nanos % 1000 = 0 → nanos / 1000 * 10 ^ (9 - 6) = nanos := by
    intro h; rw [show (10 : Nat) ^ (9 - 6) = 1000 by simp]; omega
  have key : ∀ tailStr ns, parseSecondNanos (tailStr ++ rest) = some (rest, secs % 60, ns) →
      parseTimeItems (padDigits 2 (secs / 3600) ++ [':'] ++ padDigits 2 (secs / 60 % 60) ++ tailStr ++ rest) =
        some (rest, secs / 3600, secs / 60 % 60, secs % 60, ns) := by
    intro tailStr ns ht
    unfold parseTimeItems
    rw [List.append_assoc _ tailStr rest, parseHourMinute_fmt _ _ (by omega) (by omega)]
    simp only [Option.bind_eq_bind, Option.bind_some, ht]
    rfl
  unfold formatTime fracOf
  rw [if_neg (by omega)]
  simp only
  split
  · rename_i h0
    have := key _ none (parseSecondNanos_plain_rest (secs % 60) (by omega) rest hrest)
    simp only [← List.append_assoc] at this ⊢
    rw [this]
  · rename_i h0
    split
    · rename_i h3
      have := key _ _ (parseSecondNanos_frac_rest (secs % 60) 3 (nanos / 1000000) (by omega) (by decide)
        (by simp only [Nat.reducePow]; omega) rest hrest)
      simp only [← List.append_assoc] at this ⊢
      rw [this, e3 h3]
    · split
      · rename_i h6
        have := key _ _ (parseSecondNanos_frac_rest (secs % 60) 6 (nanos / 1000) (by omega) (by decide)
          (by simp only [Nat.reducePow]; omega) rest hrest)
        simp only [← List.append_assoc] at this ⊢
        rw [this, e6 h6]
      · have := key _ _ (parseSecondNanos_frac_rest (secs % 60) 9 nanos (by omega) (by decide)
          (by simp only [Nat.reducePow]; omega) rest hrest)
        simp only [← List.append_assoc] at this ⊢
        rw [this]
        simp only [Nat.reduceSub, Nat.pow_zero, Nat.mul_one]

theorem resolveTime_fracOf (secs nanos : Nat) (hs : secs < 86400) :
    resolveTime (secs / 3600) (secs / 60 % 60) (some (secs % 60)) (fracOf nanos) = some (secs, nanos) := by
  unfold resolveTime
  rw [if_pos ⟨by omega, by omega⟩]
  simp only
  rw [if_pos (by omega)]
  have : (fracOf nanos).getD 0 = nanos := by
    unfold fracOf; split
    · rename_i h; rw [h]; rfl
    · rfl
  rw [this]
  congr 2; omega

/-! ### date-times -/

theorem formatInstant_eq (t : Instant) (suffix : List Char) :
    formatInstant t suffix = formatDate (civilFromDays t.days).1 (civilFromDays t.days).2.1 (civilFromDays t.days).2.2 ++
      ('T' :: (formatTime t.secs t.nanos ++ suffix)) := by
  simp only [formatInstant, formatDays, List.append_assoc, List.cons_append, List.nil_append]

/-- `NaiveDateTime::from_str` (model) reads the reader's naive timestamp string back to the same instant -/
theorem parseNaiveDateTime_formatInstant (t : Instant) (hd : inChronoDays t.days = true) (hs : t.secs < 86400)
    (hn : t.nanos < 1000000000) : parseNaiveDateTime (formatInstant t []) = .ok t := by
  have hv := civilFromDays_valid t.days
  have hb := validDate_bounds hv
  rw [formatInstant_eq]
  unfold parseNaiveDateTime
  rw [parseDateItems_formatDate _ _ _ (by omega) (by omega)]
  simp only
  rw [skipWs_of_not_ws (by decide)]
  simp only [itemLit, if_true]
  rw [parseTimeItems_formatTime t.secs t.nanos hs hn [] (Or.inl rfl)]
  simp only [resolveDate_civilFromDays t.days hd, resolveTime_fracOf t.secs t.nanos hs]

/-- `DateTime::<Utc>::from_str` (model) reads the reader's UTC timestamp string (`Z` suffix) back to the same instant -/
theorem parseUtcDateTime_formatInstant (t : Instant) (hd : inChronoDays t.days = true) (hs : t.secs < 86400)
    (hn : t.nanos < 1000000000) : parseUtcDateTime (formatInstant t ['Z']) = .ok t := by
  have hv := civilFromDays_valid t.days
  have hb := validDate_bounds hv
  rw [formatInstant_eq]
  unfold parseUtcDateTime
  rw [parseDateItems_formatDate _ _ _ (by omega) (by omega)]
  simp only [or_true, true_or, if_true]
  rw [parseTimeItems_formatTime t.secs t.nanos hs hn ['Z'] (Or.inr rfl)]
  simp only [scanTimezoneOffset, skipWs, resolveDate_civilFromDays t.days hd, resolveTime_fracOf t.secs t.nanos hs]
  have e1 : ((t.secs : Int) - 0) / 86400 = 0 := by omega
  have e2 : (((t.secs : Int) - 0) % 86400).toNat = t.secs := by omega
  simp only [e1, e2, Int.add_zero, hd, if_true]
  rw [if_neg (by omega)]

end SaModel.Codec
