import SaModel.Codec.Span
/-
Helper lemmas for C14: decimal digits (`digitsVal`, `padDigits`, `natDigits`) and the digit matcher.
-/
namespace SaModel.Codec

theorem inI64_iff (v : Int) : inI64 v = true ↔ -9223372036854775808 ≤ v ∧ v ≤ 9223372036854775807 := by
  unfold inI64 i64Min i64Max
  simp only [Bool.and_eq_true, decide_eq_true_eq]

theorem inI32_iff (v : Int) : inI32 v = true ↔ -2147483648 ≤ v ∧ v ≤ 2147483647 := by
  unfold inI32 i32Min i32Max
  simp only [Bool.and_eq_true, decide_eq_true_eq]

theorem digitChar_toNat (n : Nat) : (digitChar n).toNat = 48 + n % 10 := by
  have h : ∀ k, k < 10 → (Char.ofNat (48 + k)).toNat = 48 + k := by decide
  exact h (n % 10) (Nat.mod_lt _ (by decide))

theorem digitVal_digitChar (n : Nat) : digitVal (digitChar n) = n % 10 := by
  unfold digitVal; rw [digitChar_toNat]; omega

theorem isDigit_digitChar (n : Nat) : isDigit (digitChar n) = true := by
  have := Nat.mod_lt n (show 10 > 0 by decide)
  unfold isDigit; rw [digitChar_toNat]
  simp only [Bool.and_eq_true, decide_eq_true_eq]; omega

theorem digitVal_le_of_isDigit {c : Char} (h : isDigit c = true) : digitVal c ≤ 9 := by
  unfold isDigit at h; unfold digitVal
  simp only [Bool.and_eq_true, decide_eq_true_eq] at h; omega

theorem digitsValAux_eq (l : List Char) : ∀ acc, digitsValAux acc l = acc * 10 ^ l.length + digitsVal l := by
  induction l with
  | nil => intro acc; show acc = acc * 10 ^ 0 + 0; omega
  | cons c cs ih =>
    intro acc
    show digitsValAux (acc * 10 + digitVal c) cs = acc * 10 ^ (cs.length + 1) + digitsValAux (0 * 10 + digitVal c) cs
    rw [ih (acc * 10 + digitVal c), ih (0 * 10 + digitVal c)]
    rw [Nat.pow_succ, Nat.add_mul, Nat.add_mul, Nat.zero_mul, Nat.zero_add, Nat.mul_assoc,
      Nat.mul_comm 10 (10 ^ cs.length), Nat.add_assoc]

theorem digitsVal_nil : digitsVal [] = 0 := rfl

theorem digitsVal_cons (c : Char) (cs : List Char) : digitsVal (c :: cs) = digitVal c * 10 ^ cs.length + digitsVal cs := by
  show digitsValAux (0 * 10 + digitVal c) cs = _
  rw [digitsValAux_eq, Nat.zero_mul, Nat.zero_add]

theorem digitsVal_append (l1 l2 : List Char) : digitsVal (l1 ++ l2) = digitsVal l1 * 10 ^ l2.length + digitsVal l2 := by
  induction l1 with
  | nil => simp [digitsVal_nil]
  | cons c cs ih =>
    simp only [List.cons_append, digitsVal_cons, ih, List.length_append, Nat.pow_add]
    rw [Nat.add_mul, Nat.mul_assoc]; omega

def AllDigits (l : List Char) : Prop := ∀ c ∈ l, isDigit c = true

theorem digitsVal_lt {l : List Char} (h : AllDigits l) : digitsVal l < 10 ^ l.length := by
  induction l with
  | nil => simp [digitsVal_nil]
  | cons c cs ih =>
    have hc := digitVal_le_of_isDigit (h c (by simp))
    have := ih (fun x hx => h x (by simp [hx]))
    rw [digitsVal_cons, List.length_cons, Nat.pow_succ]
    have hp : 0 < 10 ^ cs.length := Nat.pow_pos (by decide)
    calc digitVal c * 10 ^ cs.length + digitsVal cs
        < digitVal c * 10 ^ cs.length + 10 ^ cs.length := by omega
      _ = (digitVal c + 1) * 10 ^ cs.length := by rw [Nat.add_mul]; omega
      _ ≤ 10 * 10 ^ cs.length := Nat.mul_le_mul_right _ (by omega)
      _ = 10 ^ cs.length * 10 := Nat.mul_comm _ _

/-! `padDigits` -/

theorem padDigits_length (w n : Nat) : (padDigits w n).length = w := by
  induction w generalizing n with
  | zero => rfl
  | succ w ih => simp [padDigits, ih]

theorem padDigits_allDigits (w n : Nat) : AllDigits (padDigits w n) := by
  induction w generalizing n with
  | zero => intro c hc; simp [padDigits] at hc
  | succ w ih =>
    intro c hc
    simp only [padDigits, List.mem_append, List.mem_singleton] at hc
    cases hc with
    | inl h => exact ih _ c h
    | inr h => rw [h]; exact isDigit_digitChar n

theorem digitsVal_padDigits (w n : Nat) : digitsVal (padDigits w n) = n % 10 ^ w := by
  induction w generalizing n with
  | zero => simp [padDigits, digitsVal_nil, Nat.mod_one]
  | succ w ih =>
    simp only [padDigits, digitsVal_append, ih, List.length_singleton, Nat.pow_one, digitsVal_cons, List.length_nil,
      Nat.pow_zero, Nat.mul_one, digitsVal_nil, Nat.add_zero, digitVal_digitChar]
    rw [Nat.pow_succ, Nat.mul_comm (10 ^ w) 10, Nat.mod_mul]
    omega

/-! `natDigits` -/

theorem natDigitsF_spec (f : Nat) : ∀ n, n ≤ f → AllDigits (natDigitsF f n) ∧ digitsVal (natDigitsF f n) = n ∧ natDigitsF f n ≠ [] := by
  induction f with
  | zero =>
    intro n hn
    have : n = 0 := by omega
    subst this
    refine ⟨?_, ?_, by simp [natDigitsF]⟩
    · intro c hc; simp [natDigitsF] at hc; rw [hc]; exact isDigit_digitChar 0
    · simp [natDigitsF, digitsVal_cons, digitVal_digitChar, digitsVal_nil]
  | succ f ih =>
    intro n hn
    unfold natDigitsF
    split
    · rename_i h10
      refine ⟨?_, ?_, by simp⟩
      · intro c hc; simp at hc; rw [hc]; exact isDigit_digitChar n
      · simp [digitsVal_cons, digitVal_digitChar, digitsVal_nil]; omega
    · rename_i h10
      have ⟨h1, h2, _⟩ := ih (n / 10) (by omega)
      refine ⟨?_, ?_, by simp⟩
      · intro c hc
        simp only [List.mem_append, List.mem_singleton] at hc
        cases hc with
        | inl h => exact h1 c h
        | inr h => rw [h]; exact isDigit_digitChar n
      · simp only [digitsVal_append, h2, List.length_singleton, Nat.pow_one, digitsVal_cons, List.length_nil,
          Nat.pow_zero, Nat.mul_one, digitsVal_nil, Nat.add_zero, digitVal_digitChar]
        omega

theorem natDigits_allDigits (n : Nat) : AllDigits (natDigits n) := (natDigitsF_spec n n (Nat.le_refl _)).1
theorem digitsVal_natDigits (n : Nat) : digitsVal (natDigits n) = n := (natDigitsF_spec n n (Nat.le_refl _)).2.1
theorem natDigits_ne_nil (n : Nat) : natDigits n ≠ [] := (natDigitsF_spec n n (Nat.le_refl _)).2.2

/-! the digit matcher -/

theorem takeDigits_append {ds : List Char} (h : AllDigits ds) (rest : List Char)
    (hr : ∀ c r, rest = c :: r → isDigit c = false) : takeDigits (ds ++ rest) = (ds, rest) := by
  induction ds with
  | nil =>
    cases rest with
    | nil => rfl
    | cons c r => simp [takeDigits, hr c r rfl]
  | cons c cs ih =>
    have hc : isDigit c = true := h c (by simp)
    have := ih (fun x hx => h x (by simp [hx]))
    simp [takeDigits, hc, this]

theorem matchOneOrMoreDigits_append {ds : List Char} (h : AllDigits ds) (hne : ds ≠ []) (rest : List Char)
    (hr : ∀ c r, rest = c :: r → isDigit c = false) : matchOneOrMoreDigits (ds ++ rest) = some (rest, ds) := by
  unfold matchOneOrMoreDigits
  rw [takeDigits_append h rest hr]
  cases ds with
  | nil => exact absurd rfl hne
  | cons c cs => rfl

theorem takeDigits_allDigits (s : List Char) : AllDigits (takeDigits s).1 := by
  induction s with
  | nil => intro c hc; simp [takeDigits] at hc
  | cons x xs ih =>
    intro c hc
    unfold takeDigits at hc
    split at hc
    · rename_i hx
      simp only [List.mem_cons] at hc
      cases hc with
      | inl h => rw [h]; exact hx
      | inr h => exact ih c h
    · simp at hc

theorem matchOneOrMoreDigits_allDigits {s rest ds : List Char} (h : matchOneOrMoreDigits s = some (rest, ds)) : AllDigits ds := by
  unfold matchOneOrMoreDigits at h
  have := takeDigits_allDigits s
  split at h
  · cases h
  · rename_i ds' rest' _ heq
    cases h
    rw [heq] at this; exact this

/-! the span matcher on the strings the duration formatter produces -/

theorem matchOneOrMoreDigits_nondigit (c : Char) (rest : List Char) (h : isDigit c = false) :
    matchOneOrMoreDigits (c :: rest) = none := by
  simp [matchOneOrMoreDigits, takeDigits, h]

theorem matchOptionalSpanValue_nondigit (c : Char) (rest : List Char) (u : Char) (h : isDigit c = false) :
    matchOptionalSpanValue (c :: rest) u = (c :: rest, none) := by
  simp [matchOptionalSpanValue, matchOneOrMoreDigits_nondigit c rest h]

/-- digits followed by a char that is neither a digit nor the wanted designator: no value, nothing consumed -/
theorem matchOptionalSpanValue_other {ds : List Char} (h : AllDigits ds) (hne : ds ≠ []) (c : Char) (rest : List Char)
    (u : Char) (hc : isDigit c = false) (hu : c ≠ u ∧ c ≠ toAsciiLower u) :
    matchOptionalSpanValue (ds ++ c :: rest) u = (ds ++ c :: rest, none) := by
  unfold matchOptionalSpanValue
  rw [matchOneOrMoreDigits_append h hne (c :: rest) (by intro x r hx; cases hx; exact hc)]
  simp [matchCharCI, hu.1, hu.2]

theorem matchOptionalSpanSeconds_plain {ds : List Char} (h : AllDigits ds) (hne : ds ≠ []) :
    matchOptionalSpanSeconds (ds ++ ['s']) = some ([], some ds, none) := by
  unfold matchOptionalSpanSeconds
  rw [matchOneOrMoreDigits_append h hne ['s'] (by intro x r hx; cases hx; decide)]
  simp [matchCharCI, toAsciiLower]

theorem matchOptionalSpanSeconds_frac {ds fs : List Char} (h : AllDigits ds) (hne : ds ≠ [])
    (hf : AllDigits fs) (hfne : fs ≠ []) :
    matchOptionalSpanSeconds (ds ++ '.' :: (fs ++ ['s'])) = some ([], some ds, some fs) := by
  unfold matchOptionalSpanSeconds
  rw [matchOneOrMoreDigits_append h hne _ (by intro x r hx; cases hx; decide)]
  simp only
  rw [matchOneOrMoreDigits_append hf hfne ['s'] (by intro x r hx; cases hx; decide)]
  simp [matchCharCI, toAsciiLower]

theorem matchSpan_PT (s0 : List Char) (sign : Option Char) (c : Char) (rest : List Char)
    {ds : List Char} (h : AllDigits ds) (hne : ds ≠ [])
    (hs : matchOptionalSign s0 = ('P' :: 'T' :: (ds ++ c :: rest), sign))
    (hc : isDigit c = false) (hH : c ≠ 'H' ∧ c ≠ 'h') (hM : c ≠ 'M' ∧ c ≠ 'm')
    (sec sub : Option (List Char)) (hsec : matchOptionalSpanSeconds (ds ++ c :: rest) = some ([], sec, sub)) :
    matchSpan s0 = some ([], { sign := sign, second := sec, subsecond := sub }) := by
  unfold matchSpan
  rw [hs]
  have e1 : matchCharCI ('P' :: 'T' :: (ds ++ c :: rest)) 'P' = some ('T' :: (ds ++ c :: rest)) := by simp [matchCharCI]
  have eT : ∀ u, matchOptionalSpanValue ('T' :: (ds ++ c :: rest)) u = ('T' :: (ds ++ c :: rest), none) :=
    fun u => matchOptionalSpanValue_nondigit _ _ u (by decide)
  have eH : matchOptionalSpanValue (ds ++ c :: rest) 'H' = (ds ++ c :: rest, none) :=
    matchOptionalSpanValue_other h hne c rest 'H' hc (by simpa [toAsciiLower] using hH)
  have eM : matchOptionalSpanValue (ds ++ c :: rest) 'M' = (ds ++ c :: rest, none) :=
    matchOptionalSpanValue_other h hne c rest 'M' hc (by simpa [toAsciiLower] using hM)
  simp only [e1, eT, eH, eM, hsec, or_true, if_true]

end SaModel.Codec
