import SaModel.Lemmas.C14Digits
/-
C14, spans: the specification of a span's Arrow duration (`specDuration`: exact total in nanoseconds, floor to the
unit, sign, i64 range) and the lemmas that relate `Span::to_arrow_duration` / `match_span` to it.
-/
namespace SaModel.Props.C14
open SaModel SaModel.Codec

def optVal : Option (List Char) → Nat
  | none => 0
  | some ds => digitsVal ds

def secondsTotal (sp : Span) : Nat :=
  optVal sp.week * 604800 + optVal sp.day * 86400 + optVal sp.hour * 3600 + optVal sp.minute * 60 + optVal sp.second

/-- `⌊0.f · 10^9⌋`: the nanoseconds of a decimal fraction, every digit taken into account -/
def fracNanos : Option (List Char) → Nat
  | none => 0
  | some ds => digitsVal ds * 10 ^ 9 / 10 ^ ds.length

def totalNanos (sp : Span) : Nat := secondsTotal sp * 1000000000 + fracNanos sp.subsecond

/-- the magnitude in `unit`: whole units, sub-unit digits dropped -/
def specMagnitude (sp : Span) (u : TimeUnit) : Int := ((totalNanos sp / u.nsPer : Nat) : Int)

def specSigned (sp : Span) (u : TimeUnit) : Int :=
  if sp.sign = some '-' then -specMagnitude sp u else specMagnitude sp u

/-- what the Arrow duration of a span is: defined iff it is not interval-style and the value fits i64 -/
def specDuration (sp : Span) (u : TimeUnit) : Option Int :=
  if optVal sp.year ≠ 0 ∨ optVal sp.month ≠ 0 then none
  else if inI64 (specSigned sp u) then some (specSigned sp u) else none

def OptAllDigits (o : Option (List Char)) : Prop := ∀ ds, o = some ds → AllDigits ds

theorem frac_take9 {ds : List Char} (h : AllDigits ds) :
    digitsVal (ds.take 9) * 10 ^ (9 - (ds.take 9).length) = digitsVal ds * 10 ^ 9 / 10 ^ ds.length := by
  by_cases hn : ds.length ≤ 9
  · rw [List.take_of_length_le hn]
    have : 10 ^ 9 = 10 ^ (9 - ds.length) * 10 ^ ds.length := by rw [← Nat.pow_add]; congr 1; omega
    rw [this, ← Nat.mul_assoc, Nat.mul_div_cancel _ (Nat.pow_pos (by decide))]
  · have hlen : (ds.take 9).length = 9 := by rw [List.length_take]; omega
    have hsplit : ds = ds.take 9 ++ ds.drop 9 := (List.take_append_drop 9 ds).symm
    have hB : digitsVal (ds.drop 9) < 10 ^ (ds.drop 9).length :=
      digitsVal_lt (fun c hc => h c (List.mem_of_mem_drop hc))
    have hk : (ds.drop 9).length = ds.length - 9 := List.length_drop
    rw [hlen, Nat.sub_self, Nat.pow_zero, Nat.mul_one]
    conv => rhs; rw [hsplit]
    rw [digitsVal_append, List.length_append, hlen, Nat.pow_add, ← Nat.div_div_eq_div_mul,
      Nat.mul_div_cancel _ (Nat.pow_pos (by decide))]
    generalize digitsVal (List.take 9 ds) = A at *
    generalize digitsVal (List.drop 9 ds) = B at *
    generalize 10 ^ (List.drop 9 ds).length = p at *
    rw [Nat.mul_comm, Nat.mul_add_div (by omega), Nat.div_eq_of_lt hB]; rfl

theorem fracNanos_lt (o : Option (List Char)) (h : OptAllDigits o) : fracNanos o < 1000000000 := by
  cases o with
  | none => simp [fracNanos]
  | some ds =>
    have := digitsVal_lt (h ds rfl)
    simp only [fracNanos]
    rw [Nat.div_lt_iff_lt_mul (Nat.pow_pos (by decide)), show (10 : Nat) ^ 9 = 1000000000 from rfl, Nat.mul_comm]
    exact Nat.mul_lt_mul_of_pos_left this (by decide)

theorem godv_ok (o : Option (List Char)) (h : optVal o ≤ u64Max) : getOptionalDigitValue o = .ok (optVal o) := by
  cases o with
  | none => rfl
  | some ds => simp only [getOptionalDigitValue, optVal] at *; rw [if_pos h]

theorem godv_err (o : Option (List Char)) (h : ¬ optVal o ≤ u64Max) : ∃ m, getOptionalDigitValue o = .error (.err m) := by
  cases o with
  | none => simp [optVal, u64Max] at h
  | some ds => simp only [getOptionalDigitValue, optVal] at *; rw [if_neg h]; exact ⟨_, rfl⟩

theorem getNanosecondValue_eq (sp : Span) (h : OptAllDigits sp.subsecond) :
    sp.getNanosecondValue = .ok (fracNanos sp.subsecond) := by
  unfold Span.getNanosecondValue
  cases hs : sp.subsecond with
  | none => rfl
  | some ds => simp only [fracNanos]; rw [frac_take9 (h ds hs)]


theorem getSecondValue_ok (sp : Span) (hw : optVal sp.week ≤ u64Max) (hd : optVal sp.day ≤ u64Max)
    (hh : optVal sp.hour ≤ u64Max) (hm : optVal sp.minute ≤ u64Max) (hs : optVal sp.second ≤ u64Max) :
    sp.getSecondValue = .ok (secondsTotal sp) := by
  unfold Span.getSecondValue
  rw [godv_ok _ hw, godv_ok _ hd, godv_ok _ hh, godv_ok _ hm, godv_ok _ hs]
  simp only [bind, Except.bind, pure, Except.pure, secondsTotal]
  congr 1; omega

theorem getSecondValue_err (sp : Span) (h : ¬ (optVal sp.week ≤ u64Max ∧ optVal sp.day ≤ u64Max ∧
    optVal sp.hour ≤ u64Max ∧ optVal sp.minute ≤ u64Max ∧ optVal sp.second ≤ u64Max)) :
    ∃ m, sp.getSecondValue = .error (.err m) := by
  unfold Span.getSecondValue
  by_cases hw : optVal sp.week ≤ u64Max
  · rw [godv_ok _ hw]
    by_cases hd : optVal sp.day ≤ u64Max
    · rw [godv_ok _ hd]
      by_cases hh : optVal sp.hour ≤ u64Max
      · rw [godv_ok _ hh]
        by_cases hm : optVal sp.minute ≤ u64Max
        · rw [godv_ok _ hm]
          have hs : ¬ optVal sp.second ≤ u64Max := fun hs => h ⟨hw, hd, hh, hm, hs⟩
          obtain ⟨m, e⟩ := godv_err _ hs
          rw [e]; exact ⟨m, rfl⟩
        · obtain ⟨m, e⟩ := godv_err _ hm
          rw [e]; exact ⟨m, rfl⟩
      · obtain ⟨m, e⟩ := godv_err _ hh
        rw [e]; exact ⟨m, rfl⟩
    · obtain ⟨m, e⟩ := godv_err _ hd
      rw [e]; exact ⟨m, rfl⟩
  · obtain ⟨m, e⟩ := godv_err _ hw
    rw [e]; exact ⟨m, rfl⟩

/-- the magnitude in `unit` is at least the number of whole seconds -/
theorem secondsTotal_le_mag (sp : Span) (u : TimeUnit) : secondsTotal sp ≤ totalNanos sp / u.nsPer := by
  unfold totalNanos
  generalize secondsTotal sp = S
  generalize fracNanos sp.subsecond = F
  cases u <;> simp only [TimeUnit.nsPer] <;> omega

theorem secondsTotal_le_of_inI64 (sp : Span) (u : TimeUnit) (hin : inI64 (specSigned sp u) = true) :
    secondsTotal sp ≤ 9223372036854775808 := by
  have hle := secondsTotal_le_mag sp u
  unfold specSigned specMagnitude at hin
  generalize totalNanos sp / u.nsPer = M at *
  by_cases hs : sp.sign = some '-'
  · rw [if_pos hs] at hin
    rw [inI64_iff] at hin; omega
  · rw [if_neg hs] at hin
    rw [inI64_iff] at hin; omega

theorem toArrowDuration_ok (sp : Span) (u : TimeUnit) (hf : OptAllDigits sp.subsecond) (v : Int)
    (h : specDuration sp u = some v) : sp.toArrowDuration u = .ok v := by
  unfold specDuration at h
  split at h
  · cases h
  · rename_i hym
    have hy : optVal sp.year = 0 := by omega
    have hm : optVal sp.month = 0 := by omega
    split at h
    · rename_i hin
      cases h
      have hS := secondsTotal_le_of_inI64 sp u hin
      unfold secondsTotal at hS
      unfold Span.toArrowDuration
      rw [godv_ok _ (by simp only [u64Max]; omega), godv_ok _ (by simp only [u64Max]; omega),
        getSecondValue_ok sp (by simp only [u64Max]; omega) (by simp only [u64Max]; omega) (by simp only [u64Max]; omega)
          (by simp only [u64Max]; omega) (by simp only [u64Max]; omega),
        getNanosecondValue_eq sp hf]
      simp only [bind, Except.bind, hy, hm, ne_eq, not_true_eq_false, if_false, buildDuration]
      unfold specSigned specMagnitude totalNanos at hin ⊢
      rw [if_pos hin]
    · cases h

theorem toArrowDuration_err (sp : Span) (u : TimeUnit) (hf : OptAllDigits sp.subsecond)
    (h : specDuration sp u = none) : ∃ m, sp.toArrowDuration u = .error (.err m) := by
  unfold Span.toArrowDuration
  by_cases hyb : optVal sp.year ≤ u64Max
  · rw [godv_ok _ hyb]
    by_cases hy : optVal sp.year = 0
    · by_cases hmb : optVal sp.month ≤ u64Max
      · rw [godv_ok _ hmb]
        by_cases hm : optVal sp.month = 0
        · simp only [bind, Except.bind, hy, hm, ne_eq, not_true_eq_false, if_false]
          unfold specDuration at h
          rw [if_neg (by omega)] at h
          by_cases hin : inI64 (specSigned sp u) = true
          · rw [if_pos hin] at h; cases h
          · by_cases hb : (optVal sp.week ≤ u64Max ∧ optVal sp.day ≤ u64Max ∧
                optVal sp.hour ≤ u64Max ∧ optVal sp.minute ≤ u64Max ∧ optVal sp.second ≤ u64Max)
            · rw [getSecondValue_ok sp hb.1 hb.2.1 hb.2.2.1 hb.2.2.2.1 hb.2.2.2.2, getNanosecondValue_eq sp hf]
              simp only [buildDuration]
              unfold specSigned specMagnitude totalNanos at hin
              rw [if_neg hin]; exact ⟨_, rfl⟩
            · obtain ⟨m, e⟩ := getSecondValue_err sp hb
              rw [e]; exact ⟨m, rfl⟩
        · simp only [bind, Except.bind, hy, hm, ne_eq, not_true_eq_false, not_false_eq_true, if_false, if_true]
          exact ⟨_, rfl⟩
      · obtain ⟨m, e⟩ := godv_err _ hmb
        simp only [bind, Except.bind, hy, ne_eq, not_true_eq_false, if_false]
        rw [e]; exact ⟨m, rfl⟩
    · simp only [bind, Except.bind, hy, ne_eq, not_false_eq_true, if_true]
      exact ⟨_, rfl⟩
  · obtain ⟨m, e⟩ := godv_err _ hyb
    rw [e]; exact ⟨m, rfl⟩

/-! the parser only puts ASCII digits into the span -/

theorem matchOptionalSpanSeconds_digits {s rest : List Char} {sec sub : Option (List Char)}
    (h : matchOptionalSpanSeconds s = some (rest, sec, sub)) : OptAllDigits sub := by
  unfold matchOptionalSpanSeconds at h
  split at h
  · cases h; intro ds hds; cases hds
  · split at h
    · split at h
      · cases h
      · rename_i hsub
        split at h
        · cases h; intro ds hds; cases hds
        · cases h; intro ds hds; cases hds; exact matchOneOrMoreDigits_allDigits hsub
    · split at h <;> (cases h; intro ds hds; cases hds)

theorem matchSpan_digits {s rest : List Char} {sp : Span} (h : matchSpan s = some (rest, sp)) :
    OptAllDigits sp.subsecond := by
  unfold matchSpan at h
  simp only at h
  split at h
  · cases h
  · split at h
    · split at h
      · split at h
        · cases h
        · rename_i hsec
          cases h
          exact matchOptionalSpanSeconds_digits hsec
      · cases h; intro ds hds; cases hds
    · cases h; intro ds hds; cases hds

theorem parseSpan_digits {s : List Char} {sp : Span} (h : parseSpan s = .ok sp) : OptAllDigits sp.subsecond := by
  unfold parseSpan at h
  split at h
  · rename_i hm; cases h; exact matchSpan_digits hm
  · cases h

theorem signOf_spec (v : Int) (body : List Char) (hb : ∃ r, body = 'P' :: r) :
    matchOptionalSign ((if v < 0 then ['-'] else []) ++ body) = (body, if v < 0 then some '-' else none) := by
  obtain ⟨r, rfl⟩ := hb
  by_cases h : v < 0 <;> simp [h, matchOptionalSign]

theorem specDuration_formatted (v : Int) (u : TimeUnit) (hv : inI64 v = true) (sp : Span)
    (hsign : sp.sign = if v < 0 then some '-' else none)
    (hy : sp.year = none) (hmo : sp.month = none)
    (hmag : totalNanos sp / u.nsPer = v.natAbs) : specDuration sp u = some v := by
  unfold specDuration
  rw [hy, hmo]
  have hs : specSigned sp u = v := by
    unfold specSigned specMagnitude
    rw [hmag, hsign]
    by_cases h : v < 0 <;> simp [h] <;> omega
  simp only [optVal, ne_eq, not_true_eq_false, or_self, if_false]
  rw [hs, if_pos hv]


/-- parse of what the formatter writes for a magnitude with a fraction of `w` digits -/
theorem parse_format_frac (v : Int) (a b w : Nat) (hw : 0 < w) :
    parseSpan ((if v < 0 then ['-'] else []) ++ ("PT".toList ++ natDigits a ++ ['.'] ++ padDigits w b ++ ['s'])) =
      .ok { sign := if v < 0 then some '-' else none, second := some (natDigits a), subsecond := some (padDigits w b) } := by
  have hbody : "PT".toList ++ natDigits a ++ ['.'] ++ padDigits w b ++ ['s'] =
      'P' :: 'T' :: (natDigits a ++ '.' :: (padDigits w b ++ ['s'])) := by simp
  rw [hbody]
  unfold parseSpan
  rw [matchSpan_PT _ _ '.' _ (natDigits_allDigits a) (natDigits_ne_nil a) (signOf_spec v _ ⟨_, rfl⟩) (by decide)
    (by decide) (by decide) _ _
    (matchOptionalSpanSeconds_frac (natDigits_allDigits a) (natDigits_ne_nil a) (padDigits_allDigits w b)
      (by intro h; have := padDigits_length w b; rw [h] at this; simp at this; omega))]

theorem parse_format_plain (v : Int) (a : Nat) :
    parseSpan ((if v < 0 then ['-'] else []) ++ ("PT".toList ++ natDigits a ++ ['s'])) =
      .ok { sign := if v < 0 then some '-' else none, second := some (natDigits a) } := by
  have hbody : "PT".toList ++ natDigits a ++ ['s'] = 'P' :: 'T' :: (natDigits a ++ 's' :: []) := by simp
  rw [hbody]
  unfold parseSpan
  rw [matchSpan_PT _ _ 's' _ (natDigits_allDigits a) (natDigits_ne_nil a) (signOf_spec v _ ⟨_, rfl⟩) (by decide)
    (by decide) (by decide) _ _ (matchOptionalSpanSeconds_plain (natDigits_allDigits a) (natDigits_ne_nil a))]

theorem fracNanos_pad (w b : Nat) (hw : w ≤ 9) (hb : b < 10 ^ w) :
    fracNanos (some (padDigits w b)) = b * 10 ^ (9 - w) := by
  simp only [fracNanos, padDigits_length, digitsVal_padDigits, Nat.mod_eq_of_lt hb]
  have : 10 ^ 9 = 10 ^ (9 - w) * 10 ^ w := by rw [← Nat.pow_add]; congr 1; omega
  rw [this, ← Nat.mul_assoc, Nat.mul_div_cancel _ (Nat.pow_pos (by decide))]


end SaModel.Props.C14
