import SaModel.Spec.Calendar
import SaModel.Lemmas.C14Cal
/-
C14 helper lemmas: the calendar model of `Codec/Calendar.lean` against the independent calendar of
`Spec/Calendar.lean` — same leap years, same month lengths, same valid dates; the closed formula
`daysFromCivil` grows by exactly one from a date to the next day (all years of ℤ).
-/
namespace SaModel.Codec
open SaModel.Spec.Calendar

theorem isLeap_eq (y : Int) : isLeap y = isLeapYear y := by
  rw [Bool.eq_iff_iff, isLeapYear_iff]
  unfold isLeap
  by_cases h400 : y % 400 = 0
  · rw [if_pos h400]; simp only [true_iff]; omega
  · rw [if_neg h400]
    by_cases h100 : y % 100 = 0
    · rw [if_pos h100]; simp only [Bool.false_eq_true, false_iff]; omega
    · rw [if_neg h100]
      by_cases h4 : y % 4 = 0
      · rw [if_pos h4]; simp only [true_iff]; omega
      · rw [if_neg h4]; simp only [Bool.false_eq_true, false_iff]; omega

theorem monthLength_eq (y m : Int) (h1 : 1 ≤ m) (h2 : m ≤ 12) : monthLength y m = daysInMonth y m := by
  have hm : m = 1 ∨ m = 2 ∨ m = 3 ∨ m = 4 ∨ m = 5 ∨ m = 6 ∨ m = 7 ∨ m = 8 ∨ m = 9 ∨ m = 10 ∨ m = 11 ∨ m = 12 := by omega
  unfold monthLength daysInMonth
  rw [isLeap_eq]
  generalize isLeapYear y = b
  rcases hm with rfl | rfl | rfl | rfl | rfl | rfl | rfl | rfl | rfl | rfl | rfl | rfl <;> cases b <;> decide

theorem valid_eq (y m d : Int) : valid (y, m, d) = validDate y m d := by
  unfold valid validDate
  simp only
  by_cases h : 1 ≤ m ∧ m ≤ 12
  · rw [monthLength_eq y m h.1 h.2]
  · by_cases h1 : 1 ≤ m
    · have : ¬ m ≤ 12 := fun h2 => h ⟨h1, h2⟩
      simp [h1, this]
    · simp [h1]

theorem valid_iff (y m d : Int) : valid (y, m, d) = true ↔ validDate y m d = true := by rw [valid_eq]

/-! ### the successor step of the closed formula -/

/-- inside a month -/
theorem daysFromCivil_day_succ (y m d : Int) : daysFromCivil y m (d + 1) = daysFromCivil y m d + 1 := by
  unfold daysFromCivil
  simp only
  omega

/-- from the last day of February to the first of March: the only step that crosses the boundary of the
March-based years of the formula; the leap rule of the calendar against `yoe / 4 - yoe / 100` and the era -/
theorem daysFromCivil_feb_mar (y : Int) : daysFromCivil y 3 1 = daysFromCivil y 2 (daysInMonth y 2) + 1 := by
  have c2 := (daysInMonth_cases y 2).1 rfl
  rw [c2]
  unfold daysFromCivil
  simp only [Int.reduceLE, if_true, if_false, Int.reduceAdd, Int.reduceMod, Int.reduceMul, Int.reduceDiv]
  by_cases hl : y % 4 = 0 ∧ (y % 100 ≠ 0 ∨ y % 400 = 0)
  · rw [if_pos hl]
    omega
  · rw [if_neg hl]
    omega

set_option linter.unusedSimpArgs false in
/-- from the last day of a month to the first of the next, inside a year -/
theorem daysFromCivil_month_succ (y m : Int) (h1 : 1 ≤ m) (h2 : m < 12) :
    daysFromCivil y (m + 1) 1 = daysFromCivil y m (daysInMonth y m) + 1 := by
  have hm : m = 1 ∨ m = 2 ∨ m = 3 ∨ m = 4 ∨ m = 5 ∨ m = 6 ∨ m = 7 ∨ m = 8 ∨ m = 9 ∨ m = 10 ∨ m = 11 := by omega
  obtain ⟨_, c30, c31⟩ := daysInMonth_cases y m
  rcases hm with rfl | rfl | rfl | rfl | rfl | rfl | rfl | rfl | rfl | rfl | rfl
  case inr.inl => exact daysFromCivil_feb_mar y
  all_goals (
    first
    | (rw [c31 (by omega)]; unfold daysFromCivil
       simp only [Int.reduceLE, if_true, if_false, Int.reduceAdd, Int.reduceMod, Int.reduceMul, Int.reduceDiv]; omega)
    | (rw [c30 (by omega)]; unfold daysFromCivil
       simp only [Int.reduceLE, if_true, if_false, Int.reduceAdd, Int.reduceMod, Int.reduceMul, Int.reduceDiv]; omega))

/-- from the 31st of December to the first of January -/
theorem daysFromCivil_year_succ (y : Int) : daysFromCivil (y + 1) 1 1 = daysFromCivil y 12 31 + 1 := by
  unfold daysFromCivil
  simp only [Int.reduceLE, if_true, if_false, Int.reduceAdd, Int.reduceMod, Int.reduceMul, Int.reduceDiv]
  rw [show y + 1 - 1 = y by omega]
  omega

/-- `daysFromCivil` applied to a date -/
def daysOf (dt : Date) : Int := daysFromCivil dt.1 dt.2.1 dt.2.2

/-- **the successor step**: the day after a valid date has the next number, for every year of ℤ -/
theorem daysOf_nextDay (y m d : Int) (hv : validDate y m d = true) : daysOf (nextDay (y, m, d)) = daysFromCivil y m d + 1 := by
  rw [validDate_iff] at hv
  obtain ⟨h1, h2, h3, h4⟩ := hv
  unfold nextDay
  simp only
  rw [monthLength_eq y m h1 h2]
  by_cases hd : d < daysInMonth y m
  · rw [if_pos hd]; exact daysFromCivil_day_succ y m d
  · rw [if_neg hd]
    have hd' : d = daysInMonth y m := by omega
    by_cases hm : m < 12
    · rw [if_pos hm, hd']; exact daysFromCivil_month_succ y m h1 hm
    · rw [if_neg hm]
      have hm' : m = 12 := by omega
      subst hm'
      have : d = 31 := by rw [hd']; exact (daysInMonth_cases y 12).2.2 (by omega)
      subst this
      exact daysFromCivil_year_succ y

/-! ### next day / previous day on valid dates -/

theorem daysInMonth_range (y m : Int) : 28 ≤ daysInMonth y m ∧ daysInMonth y m ≤ 31 := by
  unfold daysInMonth
  split
  · split <;> omega
  · split <;> omega

theorem nextDay_validDate (y m d : Int) (hv : validDate y m d = true) :
    validDate (nextDay (y, m, d)).1 (nextDay (y, m, d)).2.1 (nextDay (y, m, d)).2.2 = true := by
  rw [validDate_iff] at hv
  obtain ⟨h1, h2, h3, h4⟩ := hv
  unfold nextDay
  simp only
  rw [monthLength_eq y m h1 h2]
  by_cases hd : d < daysInMonth y m
  · rw [if_pos hd, validDate_iff]; simp only; omega
  · rw [if_neg hd]
    by_cases hm : m < 12
    · rw [if_pos hm, validDate_iff]; simp only
      have := daysInMonth_range y (m + 1); omega
    · rw [if_neg hm, validDate_iff]; simp only
      have := daysInMonth_range (y + 1) 1; omega

theorem prevDay_validDate (y m d : Int) (hv : validDate y m d = true) :
    validDate (prevDay (y, m, d)).1 (prevDay (y, m, d)).2.1 (prevDay (y, m, d)).2.2 = true := by
  rw [validDate_iff] at hv
  obtain ⟨h1, h2, h3, h4⟩ := hv
  unfold prevDay
  simp only
  by_cases hd : 1 < d
  · rw [if_pos hd, validDate_iff]; simp only; omega
  · rw [if_neg hd]
    by_cases hm : 1 < m
    · rw [if_pos hm, validDate_iff]; simp only
      rw [monthLength_eq y (m - 1) (by omega) (by omega)]
      have := daysInMonth_range y (m - 1); omega
    · rw [if_neg hm, validDate_iff]; simp only
      have := (daysInMonth_cases (y - 1) 12).2.2 (by omega); omega

theorem prevDay_nextDay_of_valid (y m d : Int) (hv : validDate y m d = true) : prevDay (nextDay (y, m, d)) = (y, m, d) := by
  rw [validDate_iff] at hv
  obtain ⟨h1, h2, h3, h4⟩ := hv
  unfold nextDay
  simp only
  by_cases hd : d < monthLength y m
  · rw [if_pos hd]; unfold prevDay; simp only
    rw [if_pos (by omega), show d + 1 - 1 = d by omega]
  · rw [if_neg hd]
    have hd' : d = monthLength y m := by rw [monthLength_eq y m h1 h2] at hd ⊢; omega
    by_cases hm : m < 12
    · rw [if_pos hm]; unfold prevDay; simp only
      rw [if_neg (by omega), if_pos (by omega), show m + 1 - 1 = m by omega, ← hd']
    · rw [if_neg hm]; unfold prevDay; simp only
      have hm' : m = 12 := by omega
      subst hm'
      have : d = 31 := by rw [hd', monthLength_eq y 12 h1 h2]; exact (daysInMonth_cases y 12).2.2 (by omega)
      rw [if_neg (by omega), if_neg (by omega), show y + 1 - 1 = y by omega, this]

theorem nextDay_prevDay_of_valid (y m d : Int) (hv : validDate y m d = true) : nextDay (prevDay (y, m, d)) = (y, m, d) := by
  rw [validDate_iff] at hv
  obtain ⟨h1, h2, h3, h4⟩ := hv
  unfold prevDay
  simp only
  by_cases hd : 1 < d
  · rw [if_pos hd]; unfold nextDay; simp only
    rw [monthLength_eq y m h1 h2, if_pos (by omega), show d - 1 + 1 = d by omega]
  · rw [if_neg hd]
    have hd' : d = 1 := by omega
    subst hd'
    by_cases hm : 1 < m
    · rw [if_pos hm]; unfold nextDay; simp only
      rw [if_neg (by omega), if_pos (by omega), show m - 1 + 1 = m by omega]
    · rw [if_neg hm]; unfold nextDay; simp only
      have hm' : m = 1 := by omega
      subst hm'
      have : monthLength (y - 1) 12 = 31 := by
        rw [monthLength_eq (y - 1) 12 (by omega) (by omega)]; exact (daysInMonth_cases (y - 1) 12).2.2 (by omega)
      rw [this, if_neg (by omega), if_neg (by omega), show y - 1 + 1 = y by omega]

/-- the predecessor step, from the successor step -/
theorem daysOf_prevDay (y m d : Int) (hv : validDate y m d = true) : daysOf (prevDay (y, m, d)) = daysFromCivil y m d - 1 := by
  have hp := prevDay_validDate y m d hv
  have hs := daysOf_nextDay _ _ _ hp
  rw [show ((prevDay (y, m, d)).1, (prevDay (y, m, d)).2.1, (prevDay (y, m, d)).2.2) = prevDay (y, m, d) from rfl,
    nextDay_prevDay_of_valid y m d hv] at hs
  unfold daysOf at hs ⊢
  simp only at hs
  omega

/-! ### the inverse formula steps too; every integer is the day number of its civil date -/

theorem civilFromDays_succ (z : Int) : civilFromDays (z + 1) = nextDay (civilFromDays z) := by
  have hv := civilFromDays_valid z
  have hs := daysOf_nextDay _ _ _ hv
  rw [daysFromCivil_civilFromDays z] at hs
  have hn := nextDay_validDate _ _ _ hv
  have hr := civilFromDays_daysFromCivil _ _ _ hn
  unfold daysOf at hs
  rw [hs] at hr
  exact hr

theorem civilFromDays_pred (z : Int) : civilFromDays (z - 1) = prevDay (civilFromDays z) := by
  have h := civilFromDays_succ (z - 1)
  rw [show z - 1 + 1 = z by omega] at h
  have hv := civilFromDays_valid (z - 1)
  have := prevDay_nextDay_of_valid _ _ _ hv
  rw [show ((civilFromDays (z - 1)).1, (civilFromDays (z - 1)).2.1, (civilFromDays (z - 1)).2.2) = civilFromDays (z - 1) from rfl,
    ← h] at this
  exact this.symm

theorem civilFromDays_zero : civilFromDays 0 = epoch := by decide

theorem isDayNumber_civilFromDays_nat (n : Nat) :
    IsDayNumber (civilFromDays n) n ∧ IsDayNumber (civilFromDays (-(n : Int))) (-(n : Int)) := by
  induction n with
  | zero => exact ⟨by rw [show ((0 : Nat) : Int) = 0 from rfl, civilFromDays_zero]; exact .epoch,
      by rw [show (-((0 : Nat) : Int)) = 0 from rfl, civilFromDays_zero]; exact .epoch⟩
  | succ n ih =>
    constructor
    · have := IsDayNumber.next ih.1
      rw [← civilFromDays_succ] at this
      rw [show ((n + 1 : Nat) : Int) = (n : Int) + 1 by omega]; exact this
    · have := IsDayNumber.prev ih.2
      rw [← civilFromDays_pred] at this
      rw [show -((n + 1 : Nat) : Int) = -(n : Int) - 1 by omega]; exact this

/-- every integer `z` is the day number (in the sense of the independent specification) of `civilFromDays z` -/
theorem isDayNumber_civilFromDays (z : Int) : IsDayNumber (civilFromDays z) z := by
  by_cases h : 0 ≤ z
  · obtain ⟨n, rfl⟩ := Int.eq_ofNat_of_zero_le h
    exact (isDayNumber_civilFromDays_nat n).1
  · obtain ⟨n, hn⟩ := Int.eq_ofNat_of_zero_le (show 0 ≤ -z by omega)
    have := (isDayNumber_civilFromDays_nat n).2
    rw [← hn, show - -z = z by omega] at this
    exact this

/-- the closed formula computes the day number of every valid date -/
theorem isDayNumber_daysFromCivil (y m d : Int) (hv : validDate y m d = true) : IsDayNumber (y, m, d) (daysFromCivil y m d) := by
  have := isDayNumber_civilFromDays (daysFromCivil y m d)
  rwa [civilFromDays_daysFromCivil y m d hv] at this

/-- conversely: whatever the specification relates is a valid date and the number the formula computes -/
theorem isDayNumber_sound {dt : Date} {n : Int} (h : IsDayNumber dt n) :
    validDate dt.1 dt.2.1 dt.2.2 = true ∧ n = daysOf dt := by
  induction h with
  | epoch => exact ⟨by decide, by decide⟩
  | @next dt n _ ih =>
    obtain ⟨hv, hn⟩ := ih
    exact ⟨nextDay_validDate _ _ _ hv, by rw [show nextDay dt = nextDay (dt.1, dt.2.1, dt.2.2) from rfl, daysOf_nextDay _ _ _ hv, hn]; rfl⟩
  | @prev dt n _ ih =>
    obtain ⟨hv, hn⟩ := ih
    exact ⟨prevDay_validDate _ _ _ hv, by rw [show prevDay dt = prevDay (dt.1, dt.2.1, dt.2.2) from rfl, daysOf_prevDay _ _ _ hv, hn]; rfl⟩

end SaModel.Codec
