import SaModel.Lemmas.C14Span
import SaModel.Codec.Time
/- C14 helper lemmas: chrono's time parser (model) on the strings the time formatter (model) produces -/
namespace SaModel.Codec

theorem padDigits_two (n : Nat) : padDigits 2 n = [digitChar (n / 10), digitChar n] := by
  simp [padDigits]

theorem isWs_of_isDigit {c : Char} (h : isDigit c = true) : isWs c = false := by
  unfold isDigit at h
  simp only [Bool.and_eq_true, decide_eq_true_eq] at h
  unfold isWs
  simp only [Bool.or_eq_false_iff, Bool.and_eq_false_iff, decide_eq_false_iff_not]
  omega

theorem skipWs_digit {c : Char} (h : isDigit c = true) (cs : List Char) : skipWs (c :: cs) = c :: cs := by
  simp [skipWs, isWs_of_isDigit h]

theorem itemTwo_pad (n : Nat) (hn : n < 100) (rest : List Char) : itemTwo (padDigits 2 n ++ rest) = some (rest, n) := by
  rw [padDigits_two]
  unfold itemTwo
  simp only [List.cons_append, List.nil_append]
  rw [skipWs_digit (isDigit_digitChar _)]
  simp only [scanNumber, isDigit_digitChar, if_true, scanNumberAux, Nat.zero_mul, Nat.zero_add, digitVal_digitChar]
  congr 2; omega


theorem skipWs_colon (cs : List Char) : skipWs (':' :: cs) = ':' :: cs := by
  simp [skipWs, isWs]

theorem parseHourMinute_fmt (h mi : Nat) (hh : h < 100) (hm : mi < 100) (rest : List Char) :
    parseHourMinute (padDigits 2 h ++ [':'] ++ padDigits 2 mi ++ rest) = some (rest, h, mi) := by
  unfold parseHourMinute
  rw [List.append_assoc, List.append_assoc, itemTwo_pad h hh]
  simp only [List.cons_append, List.nil_append, Option.bind_eq_bind, Option.bind_some, skipWs_colon, itemLit, if_true]
  rw [itemTwo_pad mi hm]
  rfl

theorem scanNanosecond_pad (w x : Nat) (hw : 0 < w ∧ w ≤ 9) (hx : x < 10 ^ w) :
    scanNanosecond (padDigits w x) = some ([], x * 10 ^ (9 - w)) := by
  unfold scanNanosecond
  have ht := takeDigits_append (padDigits_allDigits w x) [] (by intro c r h; cases h)
  rw [List.append_nil] at ht
  rw [ht]
  have hne : padDigits w x ≠ [] := by
    intro h; have := padDigits_length w x; rw [h] at this; simp at this; omega
  cases hp : padDigits w x with
  | nil => exact absurd hp hne
  | cons c cs =>
    simp only
    rw [← hp, List.take_of_length_le (by rw [padDigits_length]; omega), padDigits_length, digitsVal_padDigits,
      Nat.mod_eq_of_lt hx]

theorem parseSecondNanos_plain (s : Nat) (hs : s < 100) :
    parseSecondNanos ([':'] ++ padDigits 2 s) = some ([], s, none) := by
  unfold parseSecondNanos
  simp only [List.cons_append, List.nil_append, skipWs_colon, itemLit, if_true, Option.bind_eq_bind, Option.bind_some]
  have := itemTwo_pad s hs []
  rw [List.append_nil] at this
  rw [this]
  rfl

theorem parseSecondNanos_frac (s w x : Nat) (hs : s < 100) (hw : 0 < w ∧ w ≤ 9) (hx : x < 10 ^ w) :
    parseSecondNanos ([':'] ++ padDigits 2 s ++ ['.'] ++ padDigits w x) = some ([], s, some (x * 10 ^ (9 - w))) := by
  unfold parseSecondNanos
  simp only [List.cons_append, List.nil_append, skipWs_colon, itemLit, if_true, Option.bind_eq_bind, Option.bind_some,
    List.append_assoc]
  rw [itemTwo_pad s hs]
  simp only [Option.bind_some, itemNanosecond, scanNanosecond_pad w x hw hx, Option.map_some]
  rfl


theorem parseNaiveTime_of_parts (h mi s : Nat) (tailStr : List Char) (ns : Option Nat)
    (hh : h ≤ 23) (hm : mi ≤ 59) (hs : s ≤ 59)
    (htail : parseSecondNanos tailStr = some ([], s, ns)) :
    parseNaiveTime (padDigits 2 h ++ [':'] ++ padDigits 2 mi ++ tailStr) = .ok (h * 3600 + mi * 60 + s, ns.getD 0) := by
  unfold parseNaiveTime
  rw [parseHourMinute_fmt h mi (by omega) (by omega)]
  simp only [htail, skipWs, resolveTime]
  rw [if_pos ⟨hh, hm⟩, if_pos hs]

/-- the reader's string form of a time of day is parsed back by the builder's parser to the same time -/
theorem parseNaiveTime_formatTime (secs nanos : Nat) (hs : secs < 86400) (hn : nanos < 1000000000) :
    parseNaiveTime (formatTime secs nanos) = .ok (secs, nanos) := by
  have e3 : nanos % 1000000 = 0 → nanos / 1000000 * 10 ^ (9 - 3) = nanos := by
    intro h; rw [show (10 : Nat) ^ (9 - 3) = 1000000 by simp]; omega
  have e6 : nanos % 1000 = 0 → nanos / 1000 * 10 ^ (9 - 6) = nanos := by
    intro h; rw [show (10 : Nat) ^ (9 - 6) = 1000 by simp]; omega
  unfold formatTime
  rw [if_neg (by omega)]
  simp only
  have hsecs : secs / 3600 * 3600 + secs / 60 % 60 * 60 + secs % 60 = secs := by omega
  split
  · rename_i h0
    have := parseNaiveTime_of_parts (secs / 3600) (secs / 60 % 60) (secs % 60) _ none (by omega) (by omega) (by omega)
      (parseSecondNanos_plain (secs % 60) (by omega))
    simp only [← List.append_assoc] at this ⊢
    rw [this, hsecs, h0]; rfl
  · split
    · rename_i h3
      have := parseNaiveTime_of_parts (secs / 3600) (secs / 60 % 60) (secs % 60) _ _ (by omega) (by omega) (by omega)
        (parseSecondNanos_frac (secs % 60) 3 (nanos / 1000000) (by omega) (by decide) (by simp only [Nat.reducePow]; omega))
      simp only [← List.append_assoc] at this ⊢
      rw [this, hsecs]
      rw [Option.getD_some, e3 h3]
    · split
      · rename_i h6
        have := parseNaiveTime_of_parts (secs / 3600) (secs / 60 % 60) (secs % 60) _ _ (by omega) (by omega) (by omega)
          (parseSecondNanos_frac (secs % 60) 6 (nanos / 1000) (by omega) (by decide) (by simp only [Nat.reducePow]; omega))
        simp only [← List.append_assoc] at this ⊢
        rw [this, hsecs]
        rw [Option.getD_some, e6 h6]
      · have := parseNaiveTime_of_parts (secs / 3600) (secs / 60 % 60) (secs % 60) _ _ (by omega) (by omega) (by omega)
          (parseSecondNanos_frac (secs % 60) 9 nanos (by omega) (by decide) (by simp only [Nat.reducePow]; omega))
        simp only [← List.append_assoc] at this ⊢
        rw [this, hsecs]
        simp only [Option.getD_some, Nat.reduceSub, Nat.pow_zero, Nat.mul_one]

end SaModel.Codec

