import SaModel.Spec.Decimal
/-
Digit-string arithmetic for C15: value of concatenations, bounds, leading zeros, truncation and padding.
-/
namespace SaModel.Lemmas.C15
open SaModel.Spec.Decimal

abbrev zeros (n : Nat) : Bytes := List.replicate n 48

def AllDigits (ds : Bytes) : Prop := ∀ c ∈ ds, isDigit c = true
def AllZero (ds : Bytes) : Prop := ∀ c ∈ ds, c = 48

theorem p10 (n : Nat) : 0 < 10 ^ n := Nat.pow_pos (by omega)

theorem isDigit_48 : isDigit 48 = true := by decide

theorem AllZero.allDigits {ds : Bytes} (h : AllZero ds) : AllDigits ds := by
  intro c hc; rw [h c hc]; exact isDigit_48

theorem allZero_zeros (n : Nat) : AllZero (zeros n) := by
  intro c hc; exact (List.mem_replicate.mp hc).2

theorem AllDigits.append {a b : Bytes} (ha : AllDigits a) (hb : AllDigits b) : AllDigits (a ++ b) := by
  intro c hc; rcases List.mem_append.mp hc with h | h
  · exact ha c h
  · exact hb c h

theorem AllDigits.take {a : Bytes} (ha : AllDigits a) (n : Nat) : AllDigits (a.take n) :=
  fun c hc => ha c (List.mem_of_mem_take hc)

theorem AllDigits.drop {a : Bytes} (ha : AllDigits a) (n : Nat) : AllDigits (a.drop n) :=
  fun c hc => ha c (List.mem_of_mem_drop hc)

theorem AllZero.append {a b : Bytes} (ha : AllZero a) (hb : AllZero b) : AllZero (a ++ b) := by
  intro c hc; rcases List.mem_append.mp hc with h | h
  · exact ha c h
  · exact hb c h

theorem allZero_append {a b : Bytes} : AllZero (a ++ b) ↔ AllZero a ∧ AllZero b :=
  ⟨fun h => ⟨fun c hc => h c (List.mem_append.mpr (.inl hc)), fun c hc => h c (List.mem_append.mpr (.inr hc))⟩,
   fun ⟨ha, hb⟩ => ha.append hb⟩

theorem allDigits_append {a b : Bytes} : AllDigits (a ++ b) ↔ AllDigits a ∧ AllDigits b :=
  ⟨fun h => ⟨fun c hc => h c (List.mem_append.mpr (.inl hc)), fun c hc => h c (List.mem_append.mpr (.inr hc))⟩,
   fun ⟨ha, hb⟩ => ha.append hb⟩

/-! ### value of a digit string -/

theorem foldl_val (ds : Bytes) (acc : Nat) :
    ds.foldl (fun acc c => acc * 10 + digitVal c) acc = acc * 10 ^ ds.length + digitsVal ds := by
  induction ds generalizing acc with
  | nil => simp [digitsVal]
  | cons c rest ih =>
    simp only [List.foldl_cons, List.length_cons, digitsVal]
    rw [ih, ih (0 * 10 + digitVal c)]
    rw [Nat.pow_succ]
    simp only [Nat.zero_mul, Nat.zero_add, Nat.add_mul, Nat.mul_assoc, Nat.add_assoc]
    congr 2
    exact Nat.mul_comm _ _

theorem digitsVal_nil : digitsVal [] = 0 := rfl

theorem digitsVal_cons (c : UInt8) (ds : Bytes) :
    digitsVal (c :: ds) = digitVal c * 10 ^ ds.length + digitsVal ds := by
  simp only [digitsVal, List.foldl_cons]
  rw [foldl_val]; simp [digitsVal]

theorem digitsVal_append (a b : Bytes) :
    digitsVal (a ++ b) = digitsVal a * 10 ^ b.length + digitsVal b := by
  simp only [digitsVal, List.foldl_append]
  rw [foldl_val]; rfl

theorem digitVal_lt {c : UInt8} (h : isDigit c = true) : digitVal c < 10 := by
  simp only [isDigit, decide_eq_true_eq] at h
  simp only [digitVal]; omega

theorem digitVal_eq_zero {c : UInt8} (h : isDigit c = true) : digitVal c = 0 ↔ c = 48 := by
  simp only [isDigit, decide_eq_true_eq] at h
  simp only [digitVal]
  constructor
  · intro h0
    have : c.toNat = 48 := by omega
    exact UInt8.toNat_inj.mp (by simpa using this)
  · intro h0; subst h0; rfl

theorem digitsVal_lt {ds : Bytes} (h : AllDigits ds) : digitsVal ds < 10 ^ ds.length := by
  induction ds with
  | nil => simp [digitsVal]
  | cons c rest ih =>
    rw [digitsVal_cons, List.length_cons, Nat.pow_succ]
    have h1 := digitVal_lt (h c (List.mem_cons_self))
    have h2 := ih (fun d hd => h d (List.mem_cons_of_mem _ hd))
    have : digitVal c * 10 ^ rest.length ≤ 9 * 10 ^ rest.length := Nat.mul_le_mul_right _ (by omega)
    omega

theorem digitsVal_allZero {ds : Bytes} (h : AllZero ds) : digitsVal ds = 0 := by
  induction ds with
  | nil => rfl
  | cons c rest ih =>
    rw [digitsVal_cons, ih (fun d hd => h d (List.mem_cons_of_mem _ hd)), h c (List.mem_cons_self)]
    simp [digitVal]

theorem digitsVal_zeros (n : Nat) : digitsVal (zeros n) = 0 := digitsVal_allZero (allZero_zeros n)

theorem allZero_of_digitsVal_eq_zero {ds : Bytes} (hd : AllDigits ds) (h : digitsVal ds = 0) : AllZero ds := by
  induction ds with
  | nil => intro c hc; cases hc
  | cons c rest ih =>
    rw [digitsVal_cons] at h
    have hpos : 0 < 10 ^ rest.length := p10 _
    have h1 : digitVal c * 10 ^ rest.length = 0 := by omega
    have h2 : digitsVal rest = 0 := by omega
    have hc0 : digitVal c = 0 := by
      rcases Nat.mul_eq_zero.mp h1 with h | h
      · exact h
      · omega
    have hc : c = 48 := (digitVal_eq_zero (hd c (List.mem_cons_self))).mp hc0
    intro d hdm
    rcases List.mem_cons.mp hdm with rfl | hm
    · exact hc
    · exact ih (fun d hd' => hd d (List.mem_cons_of_mem _ hd')) h2 d hm

/-- leading zeros do not change the value -/
theorem digitsVal_drop_of_allZero (ds : Bytes) (n : Nat) (h : AllZero (ds.take n)) :
    digitsVal (ds.drop n) = digitsVal ds := by
  conv => rhs; rw [← List.take_append_drop n ds]
  rw [digitsVal_append, digitsVal_allZero h]; simp

/-- a digit string has a value below `10^p` iff everything above its last `p` digits is zero -/
theorem digitsVal_lt_pow_iff {ds : Bytes} (hd : AllDigits ds) (p : Nat) :
    digitsVal ds < 10 ^ p ↔ AllZero (ds.take (ds.length - p)) := by
  have hsplit : digitsVal ds = digitsVal (ds.take (ds.length - p)) * 10 ^ (ds.drop (ds.length - p)).length
      + digitsVal (ds.drop (ds.length - p)) := by
    conv => lhs; rw [← List.take_append_drop (ds.length - p) ds]
    rw [digitsVal_append]
  have hlow := digitsVal_lt (hd.drop (ds.length - p))
  have hlen : (ds.drop (ds.length - p)).length = ds.length - (ds.length - p) := List.length_drop
  constructor
  · intro hlt
    apply allZero_of_digitsVal_eq_zero (hd.take _)
    apply Classical.byContradiction
    intro hne
    have hpos : 1 ≤ digitsVal (ds.take (ds.length - p)) := by omega
    -- then the string is longer than p and the kept part has exactly p digits
    have hlong : p < ds.length := by
      apply Classical.byContradiction
      intro hle
      have : ds.length - p = 0 := by omega
      rw [this] at hpos; simp [digitsVal] at hpos
    have hl : (ds.drop (ds.length - p)).length = p := by omega
    rw [hl] at hsplit
    have : 1 * 10 ^ p ≤ digitsVal (ds.take (ds.length - p)) * 10 ^ p := Nat.mul_le_mul_right _ hpos
    omega
  · intro hz
    rw [hsplit, digitsVal_allZero hz]
    have : (ds.drop (ds.length - p)).length ≤ p := by omega
    have := Nat.pow_le_pow_right (n := 10) (by omega) this
    omega

/-! ### truncation and padding -/

theorem div_lemma (a b c : Nat) (hb : 0 < b) (hc : c < b) : (a * b + c) / b = a := by
  rw [Nat.mul_comm, Nat.mul_add_div hb, Nat.div_eq_of_lt hc]; simp

/-- dropping the last `k` digits divides by `10^k` -/
theorem digitsVal_take_div {ds : Bytes} (hd : AllDigits ds) (k : Nat) :
    digitsVal (ds.take (ds.length - k)) = digitsVal ds / 10 ^ k := by
  by_cases hk : k ≤ ds.length
  · have hsplit : digitsVal ds = digitsVal (ds.take (ds.length - k)) * 10 ^ k + digitsVal (ds.drop (ds.length - k)) := by
      conv => lhs; rw [← List.take_append_drop (ds.length - k) ds]
      rw [digitsVal_append]
      have : (ds.drop (ds.length - k)).length = k := by rw [List.length_drop]; omega
      rw [this]
    have hlow := digitsVal_lt (hd.drop (ds.length - k))
    have : (ds.drop (ds.length - k)).length = k := by rw [List.length_drop]; omega
    rw [this] at hlow
    rw [hsplit, div_lemma _ _ _ (p10 _) hlow]
  · have h0 : ds.length - k = 0 := by omega
    rw [h0]; simp only [List.take_zero, digitsVal_nil]
    have h1 := digitsVal_lt hd
    have h2 := Nat.pow_le_pow_right (n := 10) (by omega) (show ds.length ≤ k by omega)
    exact (Nat.div_eq_of_lt (by omega)).symm

/-- the digit string of `⌊N(I.F) · 10^k⌋` for `k ≥ 0`: fraction cut / padded to exactly `k` digits -/
theorem digitsVal_pad (I F : Bytes) (hF : AllDigits F) (k : Nat) :
    digitsVal (I ++ F.take k ++ zeros (k - F.length)) = digitsVal (I ++ F) * 10 ^ k / 10 ^ F.length := by
  by_cases h : F.length ≤ k
  · rw [List.take_of_length_le h, digitsVal_append, digitsVal_zeros]
    simp only [List.length_replicate, Nat.add_zero]
    have : 10 ^ k = 10 ^ (k - F.length) * 10 ^ F.length := by rw [← Nat.pow_add]; congr 1; omega
    rw [this, ← Nat.mul_assoc, Nat.mul_div_cancel _ (p10 _)]
  · have h0 : k - F.length = 0 := by omega
    rw [h0]; simp only [List.replicate_zero, List.append_nil]
    have hsplit : digitsVal (I ++ F) = digitsVal (I ++ F.take k) * 10 ^ (F.length - k) + digitsVal (F.drop k) := by
      conv => lhs; rw [← List.take_append_drop k F, ← List.append_assoc]
      rw [digitsVal_append, List.length_drop]
    have hlow := digitsVal_lt (hF.drop k)
    rw [List.length_drop] at hlow
    have hp : 10 ^ F.length = 10 ^ (F.length - k) * 10 ^ k := by rw [← Nat.pow_add]; congr 1; omega
    rw [hsplit, hp, Nat.mul_div_mul_right _ _ (p10 _),
      div_lemma _ _ _ (p10 _) hlow]

/-- for a negative scale only the integer digits matter -/
theorem digitsVal_int_div (I F : Bytes) (hF : AllDigits F) (k : Nat) :
    digitsVal (I ++ F) / 10 ^ (F.length + k) = digitsVal I / 10 ^ k := by
  rw [digitsVal_append, Nat.pow_add, ← Nat.div_div_eq_div_mul,
    div_lemma _ _ _ (p10 _) (digitsVal_lt hF)]

end SaModel.Lemmas.C15
