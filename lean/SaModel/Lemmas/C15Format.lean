import SaModel.Codec.Decimal
import SaModel.Spec.Decimal
import SaModel.Lemmas.C15Digits
/-
`format_decimal`: the digits of an integer, the grammar lemma (rendering the three parts of a decimal
text and splitting them again), what `format_decimal` produces in terms of those parts, exactness.
-/
namespace SaModel.Lemmas.C15
open SaModel SaModel.Decimal SaModel.Spec.Decimal

/-! ### `format!("{val}")` -/

theorem digitChar_toNat (d : Nat) (h : d < 10) : (digitChar d).toNat = 48 + d := by
  unfold digitChar
  rw [UInt8.toNat_ofNat']
  omega

theorem digitChar_isDigit (d : Nat) (h : d < 10) : isDigit (digitChar d) = true := by
  simp only [isDigit, digitChar_toNat d h, decide_eq_true_eq]; omega

theorem digitChar_val (d : Nat) (h : d < 10) : digitVal (digitChar d) = d := by
  simp only [digitVal, digitChar_toNat d h]; omega

theorem natDigitsFuel_spec (fuel n : Nat) (h : n < fuel) :
    AllDigits (natDigitsFuel fuel n) ∧ digitsVal (natDigitsFuel fuel n) = n ∧ 1 ≤ (natDigitsFuel fuel n).length ∧
    (∀ k, 1 ≤ k → n < 10 ^ k → (natDigitsFuel fuel n).length ≤ k) := by
  induction fuel generalizing n with
  | zero => omega
  | succ fuel ih =>
    unfold natDigitsFuel
    by_cases h10 : n < 10
    · simp only [h10, if_true]
      refine ⟨?_, ?_, by simp, fun k hk _ => by simpa using hk⟩
      · intro c hc; rw [List.mem_singleton.mp hc]; exact digitChar_isDigit n h10
      · rw [digitsVal_cons]; simp [digitsVal_nil, digitChar_val n h10]
    · simp only [h10, if_false]
      obtain ⟨a1, a2, a3, a4⟩ := ih (n / 10) (by omega)
      have hm : n % 10 < 10 := Nat.mod_lt _ (by omega)
      refine ⟨?_, ?_, by simp, ?_⟩
      · apply a1.append
        intro c hc; rw [List.mem_singleton.mp hc]; exact digitChar_isDigit _ hm
      · rw [digitsVal_append, a2, digitsVal_cons]
        simp only [digitsVal_nil, List.length_nil, List.length_cons, digitChar_val _ hm]
        omega
      · intro k hk hlt
        have hk2 : 2 ≤ k := by
          apply Classical.byContradiction; intro hk2
          have : k = 1 := by omega
          subst this; omega
        have : n / 10 < 10 ^ (k - 1) := by
          have e : 10 ^ k = 10 ^ (k - 1) * 10 := by rw [← Nat.pow_succ]; congr 1; omega
          rw [e] at hlt
          exact Nat.div_lt_of_lt_mul (by omega)
        have := a4 (k - 1) (by omega) this
        simp only [List.length_append, List.length_cons, List.length_nil]
        omega

theorem natDigits_spec (n : Nat) :
    AllDigits (natDigits n) ∧ digitsVal (natDigits n) = n ∧ 1 ≤ (natDigits n).length ∧
    (∀ k, 1 ≤ k → n < 10 ^ k → (natDigits n).length ≤ k) :=
  natDigitsFuel_spec (n + 1) n (by omega)

/-! ### the grammar: rendering the three parts and splitting them again -/

theorem takeWhile_digits (A B : List UInt8) (hA : AllDigits A) :
    (A ++ 46 :: B).takeWhile (· != 46) = A ∧ (A ++ 46 :: B).dropWhile (· != 46) = 46 :: B := by
  induction A with
  | nil => simp
  | cons c rest ih =>
    have hc : c ≠ 46 := by
      intro h; have := hA c List.mem_cons_self; rw [h] at this; revert this; decide
    have ih' := ih (fun d hd => hA d (List.mem_cons_of_mem _ hd))
    simp [List.takeWhile_cons, List.dropWhile_cons, hc, ih'.1, ih'.2]

theorem takeWhile_digits_nodot (A : List UInt8) (hA : AllDigits A) :
    A.takeWhile (· != 46) = A ∧ A.dropWhile (· != 46) = [] := by
  induction A with
  | nil => simp
  | cons c rest ih =>
    have hc : c ≠ 46 := by
      intro h; have := hA c List.mem_cons_self; rw [h] at this; revert this; decide
    have ih' := ih (fun d hd => hA d (List.mem_cons_of_mem _ hd))
    simp [List.takeWhile_cons, List.dropWhile_cons, hc, ih'.1, ih'.2]

def fracBytes : Option (List UInt8) → List UInt8
  | none => []
  | some f => 46 :: f

theorem render_eq (x : Parts) : x.render = x.sign.bytes ++ x.int ++ fracBytes x.frac := by
  unfold Parts.render; cases x.frac <;> rfl

theorem splitPoint_render (sg : Spec.Decimal.Sign) (I : List UInt8) (F : Option (List UInt8)) (hI : AllDigits I) :
    splitPoint sg (I ++ fracBytes F) = ⟨sg, I, F⟩ := by
  unfold splitPoint
  cases F with
  | none =>
    simp only [fracBytes, List.append_nil]
    rw [(takeWhile_digits_nodot I hI).1, (takeWhile_digits_nodot I hI).2]
  | some f =>
    simp only [fracBytes]
    rw [(takeWhile_digits I f hI).1, (takeWhile_digits I f hI).2]

/-- a text that starts with a digit, a point, or nothing has no sign -/
theorem splitSign_nosign (r : List UInt8) (h : ∀ c rest, r = c :: rest → c ≠ 43 ∧ c ≠ 45) :
    splitSign r = (.none, r) := by
  unfold splitSign
  split
  · rename_i rest; exact absurd rfl (h 43 rest rfl).1
  · rename_i rest; exact absurd rfl (h 45 rest rfl).2
  · rfl

theorem body_nosign (I : List UInt8) (F : Option (List UInt8)) (hI : AllDigits I) :
    ∀ c rest, (I ++ fracBytes F) = c :: rest → c ≠ 43 ∧ c ≠ 45 := by
  intro c rest h
  cases I with
  | nil =>
    cases F with
    | none => simp [fracBytes] at h
    | some f => simp [fracBytes] at h; rw [← h.1]; decide
  | cons d ds =>
    simp at h
    have := hI d List.mem_cons_self
    rw [h.1] at this
    constructor <;> (intro hc; rw [hc] at this; revert this; decide)

/-- grammar lemma: a rendered `sign? digit* ('.' digit*)?` is split into exactly its parts -/
theorem decompose_render (x : Parts) (hI : AllDigits x.int) : decompose x.render = x := by
  obtain ⟨sg, I, F⟩ := x
  unfold decompose
  rw [render_eq]
  simp only at hI ⊢
  have hbody := splitSign_nosign _ (body_nosign I F hI)
  cases sg with
  | none =>
    simp only [Sign.bytes, List.nil_append]
    rw [hbody]; exact splitPoint_render _ I F hI
  | plus =>
    simp only [Sign.bytes, List.cons_append, List.nil_append, List.append_assoc]
    simp only [splitSign]
    exact splitPoint_render _ I F hI
  | minus =>
    simp only [Sign.bytes, List.cons_append, List.nil_append, List.append_assoc]
    simp only [splitSign]
    exact splitPoint_render _ I F hI

theorem bind_ok'' {α β} (x : α) (f : α → R β) : (Except.ok x >>= f) = f x := rfl

theorem take_len_add' (A B : List UInt8) (n a : Nat) (h : A.length = a) : (A ++ B).take (a + n) = A ++ B.take n := by
  subst h
  rw [List.take_append, List.take_of_length_le (by omega)]
  congr 2; omega

theorem drop_len_add' (A B : List UInt8) (n a : Nat) (h : A.length = a) : (A ++ B).drop (a + n) = B.drop n := by
  subst h
  rw [List.drop_append, List.drop_eq_nil_of_le (by omega)]
  simp


/-! ### `format_decimal` -/

def signOf (v : Int) : Spec.Decimal.Sign := if v < 0 then .minus else .none

theorem intRepr_eq (v : Int) : intRepr v = (signOf v).bytes ++ natDigits v.natAbs := by
  unfold intRepr signOf; split <;> rfl

theorem nsb_eq (v : Int) : (if v ≥ 0 then 0 else 1) = (signOf v).bytes.length := by
  unfold signOf
  by_cases h : v < 0
  · rw [if_neg (by omega), if_pos h]; rfl
  · rw [if_pos (by omega), if_neg h]; rfl

/-- what `format_decimal` produces, as the three parts of the grammar -/
def formatParts (v s : Int) : Parts :=
  if s = 0 then ⟨signOf v, natDigits v.natAbs, none⟩
  else if s < 0 then
    (if v = 0 then ⟨.none, [48], none⟩ else ⟨signOf v, natDigits v.natAbs ++ zeros s.natAbs, none⟩)
  else if (natDigits v.natAbs).length ≤ s.toNat then
    ⟨signOf v, [48], some (zeros (s.toNat - (natDigits v.natAbs).length) ++ natDigits v.natAbs)⟩
  else ⟨signOf v, (natDigits v.natAbs).take ((natDigits v.natAbs).length - s.toNat),
        some ((natDigits v.natAbs).drop ((natDigits v.natAbs).length - s.toNat))⟩

theorem pow39 : (170141183460469231731687303715884105728 : Nat) < 10 ^ 39 := by decide

theorem natDigits_len_i128 (v : Int) (hv : inI128 v) : (natDigits v.natAbs).length ≤ 39 := by
  apply (natDigits_spec v.natAbs).2.2.2 39 (by omega)
  have := pow39
  unfold inI128 I128_MIN I128_MAX at hv
  omega

theorem formatDecimal_eq (v s : Int) (hv : inI128 v) (hs : inI8 s) :
    formatDecimal v s = .ok (formatParts v s).render := by
  have hlen := natDigits_len_i128 v hv
  have hsb : (signOf v).bytes.length ≤ 1 := by unfold signOf; split <;> simp [Sign.bytes]
  have hw : writeVal 168 v = .ok ((signOf v).bytes ++ natDigits v.natAbs) := by
    unfold writeVal
    rw [intRepr_eq]
    simp only [List.length_append]
    rw [if_neg (by omega)]
  unfold inI8 at hs
  unfold formatDecimal formatDecimalWith formatParts FORMAT_BUFFER_SIZE_I128 unsignedAbs
  by_cases h0 : s = 0
  · simp only [h0, if_true, hw, render_eq, fracBytes, List.append_nil]
  · simp only [h0, if_false]
    by_cases hneg : s < 0
    · by_cases hv0 : v = 0
      · simp [hneg, hv0, render_eq, fracBytes, Sign.bytes]
      · have : (v == 0) = false := by simpa using hv0
        simp only [hneg, this, decide_true, Bool.true_and, Bool.false_eq_true, if_false, if_true, hv0,
          bind_ok'', hw, List.length_append, render_eq, fracBytes, List.append_nil]
        rw [if_neg (by omega)]
        simp only [bind_ok'', List.append_assoc]
    · simp only [hneg, decide_false, Bool.false_and, Bool.false_eq_true, if_false, bind_ok'', hw, nsb_eq,
        List.length_append, Nat.add_sub_cancel_left]
      by_cases hshort : (natDigits v.natAbs).length ≤ s.toNat
      · simp only [hshort, if_true]
        rw [if_neg (by omega)]
        simp only [render_eq, fracBytes, List.take_left', List.drop_left', List.append_assoc, List.cons_append,
          List.nil_append, List.singleton_append]
      · simp only [hshort, if_false]
        rw [if_neg (by omega)]
        have e : (signOf v).bytes.length + (natDigits v.natAbs).length - s.toNat =
            (signOf v).bytes.length + ((natDigits v.natAbs).length - s.toNat) := by omega
        rw [e, take_len_add' _ _ _ _ rfl, drop_len_add' _ _ _ _ rfl]
        simp only [render_eq, fracBytes, List.append_assoc, List.cons_append, List.nil_append, List.singleton_append]


theorem allDigits_nil : AllDigits [] := fun c hc => by cases hc

theorem formatParts_facts (v s : Int) :
    AllDigits (formatParts v s).int ∧ AllDigits (formatParts v s).fracDigits ∧ 1 ≤ (formatParts v s).int.length ∧
    ((formatParts v s).sign = .minus ↔ v < 0) ∧
    digitsVal ((formatParts v s).int ++ (formatParts v s).fracDigits) * 10 ^ s.toNat =
      v.natAbs * 10 ^ (-s).toNat * 10 ^ (formatParts v s).fracDigits.length := by
  obtain ⟨d1, d2, d3, -⟩ := natDigits_spec v.natAbs
  have hsign : (signOf v = .minus ↔ v < 0) := by unfold signOf; split <;> simp [*]
  have h48 : AllDigits [48] := by intro c hc; rw [List.mem_singleton.mp hc]; decide
  unfold formatParts
  by_cases h0 : s = 0
  · subst h0
    simp only [if_true, Parts.fracDigits, Option.getD_none, List.append_nil, List.length_nil]
    exact ⟨d1, allDigits_nil, d3, hsign, by simp [d2]⟩
  · simp only [h0, if_false]
    by_cases hneg : s < 0
    · have e1 : s.toNat = 0 := by omega
      have e2 : (-s).toNat = s.natAbs := by omega
      by_cases hv0 : v = 0
      · subst hv0
        simp only [hneg, if_true, Parts.fracDigits, Option.getD_none, List.append_nil, List.length_nil]
        refine ⟨h48, allDigits_nil, by simp, by simp, ?_⟩
        simp [digitsVal_cons, digitsVal_nil, digitVal]
      · simp only [hneg, hv0, if_true, if_false, Parts.fracDigits, Option.getD_none, List.append_nil, List.length_nil]
        refine ⟨d1.append (allZero_zeros _).allDigits, allDigits_nil, by rw [List.length_append]; omega, hsign, ?_⟩
        rw [digitsVal_append, digitsVal_zeros, d2, e1, e2]; simp
    · have e1 : (-s).toNat = 0 := by omega
      simp only [hneg, if_false]
      by_cases hshort : (natDigits v.natAbs).length ≤ s.toNat
      · simp only [hshort, if_true, Parts.fracDigits, Option.getD_some]
        refine ⟨h48, (allZero_zeros _).allDigits.append d1, by simp, hsign, ?_⟩
        rw [digitsVal_append, digitsVal_append, digitsVal_zeros, d2, e1]
        simp only [digitsVal_cons, digitsVal_nil, digitVal, List.length_append, List.length_replicate]
        have : s.toNat - (natDigits v.natAbs).length + (natDigits v.natAbs).length = s.toNat := by omega
        rw [this]; simp
      · simp only [hshort, if_false, Parts.fracDigits, Option.getD_some, List.take_append_drop]
        refine ⟨d1.take _, d1.drop _, by simp; omega, hsign, ?_⟩
        rw [d2, e1, List.length_drop]
        have : (natDigits v.natAbs).length - ((natDigits v.natAbs).length - s.toNat) = s.toNat := by omega
        rw [this]; simp

/-- `format_total_exact`, model level -/
theorem formatDecimal_exact (v s : Int) (hv : inI128 v) (hs : inI8 s) :
    ∃ txt, formatDecimal v s = .ok txt ∧ Dec txt ∧ DenotesScaled txt v s ∧ (isNeg txt = true ↔ v < 0) := by
  refine ⟨_, formatDecimal_eq v s hv hs, ?_⟩
  obtain ⟨f1, f2, f3, f4, f5⟩ := formatParts_facts v s
  have hdec := decompose_render (formatParts v s) f1
  refine ⟨?_, ?_, ?_⟩
  · unfold Dec Parts.wf
    rw [hdec]
    simp only [Bool.and_eq_true, List.all_eq_true, decide_eq_true_eq]
    exact ⟨⟨f1, f2⟩, by omega⟩
  · unfold DenotesScaled valNum mantissa fracLen isNeg
    rw [hdec]
    have h : ((digitsVal ((formatParts v s).int ++ (formatParts v s).fracDigits) : Nat) : Int) * 10 ^ s.toNat =
        (v.natAbs : Int) * 10 ^ (-s).toNat * 10 ^ (formatParts v s).fracDigits.length := by exact_mod_cast f5
    by_cases hneg : v < 0
    · have hs' : ((formatParts v s).sign == Spec.Decimal.Sign.minus) = true := by simpa using f4.mpr hneg
      rw [hs']; simp only [if_true]
      have hv' : v = -(v.natAbs : Int) := by omega
      have e : v * 10 ^ (-s).toNat * 10 ^ (formatParts v s).fracDigits.length =
          -((v.natAbs : Int) * 10 ^ (-s).toNat * 10 ^ (formatParts v s).fracDigits.length) := by
        rw [← Int.neg_mul, ← Int.neg_mul, ← hv']
      rw [e, Int.neg_mul, h]
    · have hs' : ((formatParts v s).sign == Spec.Decimal.Sign.minus) = false := by
        cases hsg : (formatParts v s).sign <;> first | rfl | exact absurd (f4.mp hsg) hneg
      rw [hs']; simp only [Bool.false_eq_true, if_false]
      have hv' : (v.natAbs : Int) = v := by omega
      rw [hv'] at h
      exact h
  · unfold isNeg; rw [hdec]
    constructor
    · intro h; exact f4.mp (by simpa using h)
    · intro h; simpa using f4.mpr h

/-! ### from an exact text back to the stored value -/

theorem valNum_natAbs (txt : List UInt8) : (valNum txt).natAbs = mantissa txt := by
  unfold valNum; split <;> simp

/-- a decimal text that denotes exactly `v / 10^s` is stored as `v` whenever `v` fits the precision -/
theorem expected_of_denotes (p : Nat) (s : Int) (txt : List UInt8) (v : Int) (hdec : Dec txt)
    (hd : DenotesScaled txt v s) (hneg : isNeg txt = true ↔ v < 0) (hlt : v.natAbs < 10 ^ p) :
    expected p s txt = some v := by
  have habs : mantissa txt * 10 ^ s.toNat = v.natAbs * 10 ^ (-s).toNat * 10 ^ fracLen txt := by
    have := congrArg Int.natAbs hd
    simpa [Int.natAbs_mul, Int.natAbs_pow, valNum_natAbs] using this
  have hM : scaledFloor txt s = v.natAbs := by
    unfold scaledFloor
    rw [habs, Nat.mul_assoc, ← Nat.pow_add, Nat.add_comm (-s).toNat]
    exact Nat.mul_div_cancel _ (Nat.pow_pos (by omega))
  unfold expected
  rw [if_pos ⟨hdec, by rw [hM]; exact hlt⟩, hM]
  congr 1
  unfold applySign
  by_cases h : v < 0
  · rw [hneg.mpr h]; simp only [if_true]; omega
  · have : isNeg txt = false := by
      cases hb : isNeg txt
      · rfl
      · exact absurd (hneg.mp hb) h
    rw [this]; simp only [Bool.false_eq_true, if_false]; omega

end SaModel.Lemmas.C15
