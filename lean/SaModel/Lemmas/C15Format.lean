import SaModel.Codec.Decimal
import SaModel.Lemmas.C15Digits
namespace SaModel.Lemmas.C15
end SaModel.Lemmas.C15
