import SaModel.Codec.Decimal
import SaModel.Lemmas.C15Digits
/-
What the three truncating digit-copy functions compute, in terms of the integer digits `I`
(everything before the first point) and the fraction digits `F` (everything after it).
-/
namespace SaModel.Lemmas.C15
open SaModel SaModel.Decimal SaModel.Spec.Decimal

/-! ### bridging the byte tests of the model and of the specification -/

theorem ne48_iff (c : UInt8) : (c != 48) = true ↔ c ≠ 48 := by simp

theorem notDigit_iff (c : UInt8) : (c < 48 || c > 57) = !isDigit c := by
  have e1 : (48 : UInt8).toNat = 48 := rfl
  have e2 : (57 : UInt8).toNat = 57 := rfl
  rw [Bool.eq_iff_iff]
  simp only [isDigit, Bool.or_eq_true, decide_eq_true_eq, Bool.not_eq_true', decide_eq_false_iff_not,
    UInt8.lt_iff_toNat_lt, gt_iff_lt, e1, e2]
  omega

theorem isAsciiDigit_iff (c : UInt8) : (c >= 48 && c <= 57) = isDigit c := by
  have e1 : (48 : UInt8).toNat = 48 := rfl
  have e2 : (57 : UInt8).toNat = 57 := rfl
  rw [Bool.eq_iff_iff]
  simp only [isDigit, Bool.and_eq_true, decide_eq_true_eq, ge_iff_le, UInt8.le_iff_toNat_le, e1, e2]

theorem checkZero_ok (s : List UInt8) (l : Bool) : checkAllAsciiZero s l = .ok () ↔ AllZero s := by
  unfold checkAllAsciiZero AllZero
  by_cases h : s.any (fun c => c != 48) = true
  · simp only [h, if_true]
    constructor
    · intro h'; cases l <;> simp [fail] at h'
    · intro h'
      obtain ⟨c, hc, hne⟩ := List.any_eq_true.mp h
      exact absurd (h' c hc) (by simpa using hne)
  · simp only [h]
    constructor
    · intro _ c hc
      apply Classical.byContradiction
      intro hne
      exact h (List.any_eq_true.mpr ⟨c, hc, by simpa using hne⟩)
    · intro _; rfl

theorem checkZero_cases (s : List UInt8) (l : Bool) :
    (checkAllAsciiZero s l = .ok () ∧ AllZero s) ∨ (∃ m, checkAllAsciiZero s l = fail m ∧ ¬ AllZero s) := by
  by_cases h : AllZero s
  · exact .inl ⟨(checkZero_ok s l).mpr h, h⟩
  · right
    have hne : checkAllAsciiZero s l ≠ .ok () := fun h' => h ((checkZero_ok s l).mp h')
    unfold checkAllAsciiZero at hne ⊢
    split at hne
    · rename_i hany; simp only [hany, if_true]; cases l
      · exact ⟨_, rfl, h⟩
      · exact ⟨_, rfl, h⟩
    · exact absurd rfl hne

theorem checkDigit_cases (s : List UInt8) :
    (checkAllAsciiDigit s = .ok () ∧ AllDigits s) ∨ (∃ m, checkAllAsciiDigit s = fail m ∧ ¬ AllDigits s) := by
  unfold checkAllAsciiDigit AllDigits
  by_cases h : s.any (fun c => c < 48 || c > 57) = true
  · right
    simp only [h, if_true]
    refine ⟨_, rfl, ?_⟩
    intro h'
    obtain ⟨c, hc, hne⟩ := List.any_eq_true.mp h
    rw [notDigit_iff] at hne
    simp [h' c hc] at hne
  · left
    simp only [h]
    refine ⟨rfl, ?_⟩
    intro c hc
    apply Classical.byContradiction
    intro hne
    apply h
    exact List.any_eq_true.mpr ⟨c, hc, by rw [notDigit_iff]; simpa using hne⟩


/-! ### `find_period` -/

theorem position_spec (s : List UInt8) :
    match position s with
    | none => s.takeWhile (· != 46) = s ∧ s.dropWhile (· != 46) = []
    | some pos => pos < s.length ∧ s.takeWhile (· != 46) = s.take pos ∧
        s.dropWhile (· != 46) = 46 :: s.drop (pos + 1) := by
  induction s with
  | nil => simp [position]
  | cons c rest ih =>
    by_cases hc : c = 46
    · subst hc; simp [position]
    · have hb : (c == 46) = false := by simpa using hc
      simp only [position, hb]
      cases hp : position rest with
      | none =>
        rw [hp] at ih
        simp [List.takeWhile_cons, List.dropWhile_cons, hc, ih.1, ih.2]
      | some pos =>
        rw [hp] at ih
        simp [List.takeWhile_cons, List.dropWhile_cons, hc, ih.1, ih.2.1, ih.2.2]

/-- everything the parsers need to know about `find_period` -/
structure PeriodFacts (s : List UInt8) (bp ap : Nat) : Prop where
  le : bp ≤ ap
  ap_le : ap ≤ s.length
  step : ap = bp ∨ ap = bp + 1
  nodot : ap = bp → bp = s.length
  int_eq : s.takeWhile (· != 46) = s.take bp
  rest_eq : s.dropWhile (· != 46) = if ap = bp then [] else 46 :: s.drop ap

theorem findPeriod_facts (s : List UInt8) : PeriodFacts s (findPeriod s).1 (findPeriod s).2 := by
  have h := position_spec s
  unfold findPeriod
  cases hp : position s with
  | none =>
    rw [hp] at h
    exact ⟨Nat.le_refl _, Nat.le_refl _, .inl rfl, fun _ => rfl, by simp [h.1], by simp [h.2]⟩
  | some pos =>
    rw [hp] at h
    refine ⟨by simp, by simp; omega, .inr rfl, by simp, h.2.1, ?_⟩
    simp [h.2.2]

/-! ### slices -/

theorem slice_ok (s : List UInt8) (a b : Nat) (h : a ≤ b ∧ b ≤ s.length) :
    slice s a b = .ok ((s.drop a).take (b - a)) := by
  simp [slice, h]

theorem checkedSub_ok (a b : Nat) (h : b ≤ a) : checkedSub a b = .ok (a - b) := by
  simp [checkedSub, h]

/-! ### the three truncating copy functions -/

theorem bind_ok' {α β} (x : α) (f : α → R β) : (Except.ok x >>= f) = f x := rfl
theorem bind_fail' {α β} (m : String) (f : α → R β) : ((fail m : R α) >>= f) = fail m := rfl

theorem copyDigitsMixed_spec (bufLen : Nat) (r : List UInt8) (p k : Nat) (hk : k < p) (hp : p ≤ bufLen)
    (bp ap : Nat) (hfp : findPeriod r = (bp, ap)) :
    (AllZero ((r.take bp).take (bp - (p - k))) ∧ AllDigits ((r.take bp).drop (bp - (p - k))) ∧ AllDigits (r.drop ap) ∧
      copyDigitsMixed bufLen r p k true =
        .ok ((r.take bp).drop (bp - (p - k)) ++ (r.drop ap).take k ++ zeros (k - (r.drop ap).length))) ∨
    (¬ (AllZero ((r.take bp).take (bp - (p - k))) ∧ AllDigits ((r.take bp).drop (bp - (p - k))) ∧ AllDigits (r.drop ap)) ∧
      ∃ m, copyDigitsMixed bufLen r p k true = fail m) := by
  have facts := findPeriod_facts r
  rw [hfp] at facts
  obtain ⟨h1, h2, h3, h4, -, -⟩ := facts
  simp only at h1 h2 h3 h4
  have s1 : slice r 0 (bp - (p - k)) = .ok ((r.take bp).take (bp - (p - k))) := by
    rw [slice_ok _ _ _ (by omega)]; simp [List.take_take]
  have s2 : slice r (bp - (p - k)) bp = .ok ((r.take bp).drop (bp - (p - k))) := by
    rw [slice_ok _ _ _ (by omega)]; simp [List.drop_take]
  have s3 : slice r ap r.length = .ok (r.drop ap) := by
    rw [slice_ok _ _ _ (by omega)]; congr 1; exact List.take_of_length_le (by simp)
  have s4 : slice r ap (min r.length (ap + k)) = .ok ((r.drop ap).take k) := by
    rw [slice_ok _ _ _ (by omega)]
    congr 1
    apply List.take_eq_take_iff.mpr
    simp; omega
  have s5 : checkedSub k (min r.length (ap + k) - ap) = .ok (k - (r.drop ap).length) := by
    rw [checkedSub_ok _ _ (by omega)]; simp; omega
  have hlen : ((r.take bp).drop (bp - (p - k))).length + ((r.drop ap).take k).length + (k - (r.drop ap).length) ≤ bufLen := by
    simp; omega
  unfold copyDigitsMixed
  simp only [hfp, hk, not_true_eq_false, if_false, s1, s2, s3, s4, s5, bind_ok', Bool.not_true, Bool.false_eq_true]
  rcases checkZero_cases ((r.take bp).take (bp - (p - k))) true with ⟨e1, z1⟩ | ⟨m, e1, z1⟩
  · rcases checkDigit_cases ((r.take bp).drop (bp - (p - k))) with ⟨e2, z2⟩ | ⟨m, e2, z2⟩
    · rcases checkDigit_cases (r.drop ap) with ⟨e3, z3⟩ | ⟨m, e3, z3⟩
      · left
        refine ⟨z1, z2, z3, ?_⟩
        simp only [e1, e2, e3, bind_ok']
        rw [if_neg (by omega)]
      · right; exact ⟨fun h => z3 h.2.2, m, by simp only [e1, e2, e3, bind_ok', bind_fail']⟩
    · right; exact ⟨fun h => z2 h.2.1, m, by simp only [e1, e2, bind_ok', bind_fail']⟩
  · right; exact ⟨fun h => z1 h.1, m, by simp only [e1, bind_fail']⟩

theorem copyDigitsIntegerOnly_spec (bufLen : Nat) (r : List UInt8) (p k : Nat) (hp : p ≤ bufLen)
    (bp ap : Nat) (hfp : findPeriod r = (bp, ap)) :
    (AllZero ((r.take bp).take (bp - k - p)) ∧ AllDigits ((r.take bp).drop (bp - k - p)) ∧ AllDigits (r.drop ap) ∧
      copyDigitsIntegerOnly bufLen r p k true = .ok (((r.take bp).take (bp - k)).drop (bp - k - p))) ∨
    (¬ (AllZero ((r.take bp).take (bp - k - p)) ∧ AllDigits ((r.take bp).drop (bp - k - p)) ∧ AllDigits (r.drop ap)) ∧
      ∃ m, copyDigitsIntegerOnly bufLen r p k true = fail m) := by
  have facts := findPeriod_facts r
  rw [hfp] at facts
  obtain ⟨h1, h2, h3, h4, -, -⟩ := facts
  simp only at h1 h2 h3 h4
  have s1 : slice r 0 (bp - k - p) = .ok ((r.take bp).take (bp - k - p)) := by
    rw [slice_ok _ _ _ (by omega)]; simp [List.take_take]; omega
  have s2 : slice r (bp - k - p) bp = .ok ((r.take bp).drop (bp - k - p)) := by
    rw [slice_ok _ _ _ (by omega)]; simp [List.drop_take]
  have s3 : slice r ap r.length = .ok (r.drop ap) := by
    rw [slice_ok _ _ _ (by omega)]; congr 1; exact List.take_of_length_le (by simp)
  have s4 : slice r (bp - k - p) (bp - k) = .ok (((r.take bp).take (bp - k)).drop (bp - k - p)) := by
    rw [slice_ok _ _ _ (by omega)]
    simp [List.take_take, List.drop_take]
  unfold copyDigitsIntegerOnly
  simp only [hfp, s1, s2, s3, s4, bind_ok', Bool.not_true, Bool.false_eq_true, if_false]
  rcases checkZero_cases ((r.take bp).take (bp - k - p)) true with ⟨e1, z1⟩ | ⟨m, e1, z1⟩
  · rcases checkDigit_cases ((r.take bp).drop (bp - k - p)) with ⟨e2, z2⟩ | ⟨m, e2, z2⟩
    · rcases checkDigit_cases (r.drop ap) with ⟨e3, z3⟩ | ⟨m, e3, z3⟩
      · left
        refine ⟨z1, z2, z3, ?_⟩
        simp only [e1, e2, e3, bind_ok']
        rw [if_neg (by omega)]
      · right; exact ⟨fun h => z3 h.2.2, m, by simp only [e1, e2, e3, bind_ok', bind_fail']⟩
    · right; exact ⟨fun h => z2 h.2.1, m, by simp only [e1, e2, bind_ok', bind_fail']⟩
  · right; exact ⟨fun h => z1 h.1, m, by simp only [e1, bind_fail']⟩

theorem drop_min_length (r : List UInt8) (x : Nat) : r.drop (min r.length x) = r.drop x := by
  by_cases h : x ≤ r.length
  · rw [Nat.min_eq_right h]
  · have : min r.length x = r.length := Nat.min_eq_left (by omega)
    rw [this, List.drop_length, List.drop_eq_nil_of_le (by omega)]

theorem copyDigitsFractionOnly_spec (bufLen : Nat) (r : List UInt8) (p k : Nat) (hk : p ≤ k) (hp : p ≤ bufLen)
    (bp ap : Nat) (hfp : findPeriod r = (bp, ap)) :
    (AllZero (r.take bp) ∧ AllZero ((r.drop ap).take (k - p)) ∧ AllDigits ((r.drop ap).drop (k - p)) ∧
      copyDigitsFractionOnly bufLen r p k true =
        .ok (((r.drop ap).drop (k - p)).take p ++ zeros (p - (((r.drop ap).drop (k - p)).take p).length))) ∨
    (¬ (AllZero (r.take bp) ∧ AllZero ((r.drop ap).take (k - p)) ∧ AllDigits ((r.drop ap).drop (k - p))) ∧
      ∃ m, copyDigitsFractionOnly bufLen r p k true = fail m) := by
  have facts := findPeriod_facts r
  rw [hfp] at facts
  obtain ⟨h1, h2, h3, h4, -, -⟩ := facts
  simp only at h1 h2 h3 h4
  have c1 : checkedSub (ap + k) p = .ok (ap + k - p) := checkedSub_ok _ _ (by omega)
  have c2 : checkedSub p (min r.length (ap + k) - min r.length (ap + k - p)) =
      .ok (p - (((r.drop ap).drop (k - p)).take p).length) := by
    rw [checkedSub_ok _ _ (by omega)]; simp; omega
  have s1 : slice r 0 bp = .ok (r.take bp) := by
    rw [slice_ok _ _ _ (by omega)]; simp
  have s2 : slice r ap (min r.length (ap + k - p)) = .ok ((r.drop ap).take (k - p)) := by
    rw [slice_ok _ _ _ (by omega)]
    congr 1
    apply List.take_eq_take_iff.mpr
    simp; omega
  have s3 : slice r (min r.length (ap + k - p)) r.length = .ok ((r.drop ap).drop (k - p)) := by
    rw [slice_ok _ _ _ (by omega), drop_min_length]
    congr 1
    rw [List.take_of_length_le (by simp; omega), List.drop_drop]
    congr 1; omega
  have s4 : slice r (min r.length (ap + k - p)) (min r.length (ap + k)) = .ok (((r.drop ap).drop (k - p)).take p) := by
    rw [slice_ok _ _ _ (by omega), drop_min_length]
    congr 1
    rw [List.drop_drop, show ap + (k - p) = ap + k - p by omega]
    apply List.take_eq_take_iff.mpr
    simp; omega
  have hlen : (min r.length (ap + k) - min r.length (ap + k - p)) + (p - (((r.drop ap).drop (k - p)).take p).length) ≤ bufLen := by
    simp; omega
  unfold copyDigitsFractionOnly
  simp only [hfp, show ¬ k < p by omega, if_false, c1, c2, s1, s2, s3, s4, bind_ok', Bool.not_true, Bool.false_eq_true]
  rcases checkZero_cases (r.take bp) true with ⟨e1, z1⟩ | ⟨m, e1, z1⟩
  · rcases checkZero_cases ((r.drop ap).take (k - p)) true with ⟨e2, z2⟩ | ⟨m, e2, z2⟩
    · rcases checkDigit_cases ((r.drop ap).drop (k - p)) with ⟨e3, z3⟩ | ⟨m, e3, z3⟩
      · left
        refine ⟨z1, z2, z3, ?_⟩
        simp only [e1, e2, e3, bind_ok']
        rw [if_neg (by omega)]
      · right; exact ⟨fun h => z3 h.2.2, m, by simp only [e1, e2, e3, bind_ok', bind_fail']⟩
    · right; exact ⟨fun h => z2 h.2.1, m, by simp only [e1, e2, bind_ok', bind_fail']⟩
  · right; exact ⟨fun h => z1 h.1, m, by simp only [e1, bind_fail']⟩

/-! ### one condition for all three parsers -/

/-- the digit string of `⌊N(I.F) · 10^s⌋` -/
def scaledDigits (I F : List UInt8) (s : Int) : List UInt8 :=
  if s < 0 then I.take (I.length - s.natAbs) else I ++ F.take s.toNat ++ zeros (s.toNat - F.length)

theorem scaledDigits_val (I F : List UInt8) (hI : AllDigits I) (hF : AllDigits F) (s : Int) :
    digitsVal (scaledDigits I F s) = digitsVal (I ++ F) * 10 ^ s.toNat / 10 ^ (F.length + (-s).toNat) := by
  unfold scaledDigits
  by_cases hs : s < 0
  · simp only [hs, if_true]
    have e1 : s.toNat = 0 := by omega
    have e2 : (-s).toNat = s.natAbs := by omega
    rw [e1, e2, digitsVal_take_div hI]
    simp only [Nat.pow_zero, Nat.mul_one]
    rw [digitsVal_int_div I F hF]
  · simp only [hs, if_false]
    have e2 : (-s).toNat = 0 := by omega
    rw [e2, digitsVal_pad I F hF]; simp

theorem scaledDigits_allDigits (I F : List UInt8) (hI : AllDigits I) (hF : AllDigits F) (s : Int) :
    AllDigits (scaledDigits I F s) := by
  unfold scaledDigits
  split
  · exact hI.take _
  · exact (hI.append (hF.take _)).append (allZero_zeros _).allDigits

theorem allDigits_split {ds : List UInt8} (n : Nat) : AllDigits ds ↔ AllDigits (ds.take n) ∧ AllDigits (ds.drop n) := by
  conv => lhs; rw [← List.take_append_drop n ds]
  exact allDigits_append

theorem take_len_add (A B : List UInt8) (n a : Nat) (h : A.length = a) : (A ++ B).take (a + n) = A ++ B.take n := by
  subst h
  rw [List.take_append, List.take_of_length_le (by omega)]
  congr 2; omega

theorem drop_len_add (A B : List UInt8) (n a : Nat) (h : A.length = a) : (A ++ B).drop (a + n) = B.drop n := by
  subst h
  rw [List.drop_append, List.drop_eq_nil_of_le (by omega)]
  simp

theorem padded_take_allZero (F : List UInt8) (k n : Nat) (h : n ≤ k) :
    AllZero ((F.take k ++ zeros (k - F.length)).take n) ↔ AllZero (F.take n) := by
  rw [List.take_append, List.take_take, Nat.min_eq_left h, allZero_append]
  constructor
  · exact fun h => h.1
  · intro h; refine ⟨h, ?_⟩
    intro c hc; exact allZero_zeros _ c (List.mem_of_mem_take hc)

theorem padded_drop (F : List UInt8) (k p : Nat) (h : p ≤ k) :
    (F.take k ++ zeros (k - F.length)).drop (k - p) =
      (F.drop (k - p)).take p ++ zeros (p - ((F.drop (k - p)).take p).length) := by
  rw [List.drop_append, List.drop_take, List.drop_replicate]
  congr 1
  · congr 1; omega
  · congr 1; simp; omega

/-- The three truncating parsers implement one condition: with `D` the digit string of
`⌊|value| · 10^s⌋`, everything above the last `p` digits of `D` must be zero; the copied digits are
the last `p` digits of `D`. -/
theorem copyDigits_unified (p : Nat) (s : Int) (hp : p ≤ 64) (r : List UInt8) (parser : DecimalParser)
    (hnew : DecimalParser.new p s true = .ok parser) (bp ap : Nat) (hfp : findPeriod r = (bp, ap)) :
    let D := scaledDigits (r.take bp) (r.drop ap) s
    (AllDigits (r.take bp) ∧ AllDigits (r.drop ap) ∧ AllZero (D.take (D.length - p)) ∧
      parser.copyDigitsWith false 64 r = .ok (D.drop (D.length - p))) ∨
    (¬ (AllDigits (r.take bp) ∧ AllDigits (r.drop ap) ∧ AllZero (D.take (D.length - p))) ∧
      ∃ m, parser.copyDigitsWith false 64 r = fail m) := by
  intro D
  have facts := findPeriod_facts r
  rw [hfp] at facts
  obtain ⟨h1, h2, h3, h4, -, -⟩ := facts
  simp only at h1 h2 h3 h4
  have hIlen : (r.take bp).length = bp := by simp; omega
  unfold DecimalParser.new DecimalParser.newWith unsignedAbs at hnew
  simp only [Bool.not_true, Bool.and_false, Bool.false_eq_true, if_false, bind_ok'] at hnew
  by_cases hs : s < 0
  · -- integer only
    simp only [hs, decide_true, if_true] at hnew
    cases hnew
    have hD : D = (r.take bp).take (bp - s.natAbs) := by simp [D, scaledDigits, hs, hIlen]
    have hDlen : D.length = bp - s.natAbs := by rw [hD]; simp; omega
    have e1 : D.take (D.length - p) = (r.take bp).take (bp - s.natAbs - p) := by
      rw [hDlen, hD, List.take_take]; congr 1; omega
    rw [e1, hDlen, hD]
    simp only [DecimalParser.copyDigitsWith, Bool.false_and, Bool.false_eq_true, if_false]
    rcases copyDigitsIntegerOnly_spec 64 r p s.natAbs hp bp ap hfp with ⟨z1, z2, z3, e⟩ | ⟨hn, m, e⟩
    · left
      exact ⟨(allDigits_split (bp - s.natAbs - p)).mpr ⟨z1.allDigits, z2⟩, z3, z1, e⟩
    · right
      exact ⟨fun h => hn ⟨h.2.2, ((allDigits_split _).mp h.1).2, h.2.1⟩, m, e⟩
  · simp only [hs, decide_false, if_false, Bool.false_eq_true] at hnew
    have hk0 : 0 ≤ s := by omega
    by_cases hk : s.toNat < p
    · -- mixed
      simp only [hk, decide_true, if_true] at hnew
      cases hnew
      have hD : D = r.take bp ++ ((r.drop ap).take s.toNat ++ zeros (s.toNat - (r.drop ap).length)) := by
        simp [D, scaledDigits, hs]
      have hDlen : D.length = bp + s.toNat := by rw [hD]; simp; omega
      have hst : D.length - p = bp - (p - s.toNat) := by omega
      have e1 : D.take (D.length - p) = (r.take bp).take (bp - (p - s.toNat)) := by
        rw [hst, hD, List.take_append_of_le_length (by omega)]
      have e2 : D.drop (D.length - p) = (r.take bp).drop (bp - (p - s.toNat)) ++ (r.drop ap).take s.toNat ++
          zeros (s.toNat - (r.drop ap).length) := by
        rw [hst, hD, List.drop_append_of_le_length (by omega), List.append_assoc]
      rw [e1, e2]
      simp only [DecimalParser.copyDigitsWith, Bool.false_and, Bool.false_eq_true, if_false]
      rcases copyDigitsMixed_spec 64 r p s.toNat hk hp bp ap hfp with ⟨z1, z2, z3, e⟩ | ⟨hn, m, e⟩
      · left
        exact ⟨(allDigits_split (bp - (p - s.toNat))).mpr ⟨z1.allDigits, z2⟩, z3, z1, e⟩
      · right
        exact ⟨fun h => hn ⟨h.2.2, ((allDigits_split _).mp h.1).2, h.2.1⟩, m, e⟩
    · -- fraction only
      simp only [hk, decide_false, if_false, Bool.false_eq_true] at hnew
      cases hnew
      have hkp : p ≤ s.toNat := by omega
      have hD : D = r.take bp ++ ((r.drop ap).take s.toNat ++ zeros (s.toNat - (r.drop ap).length)) := by
        simp [D, scaledDigits, hs]
      have hDlen : D.length = bp + s.toNat := by rw [hD]; simp; omega
      have hst : D.length - p = bp + (s.toNat - p) := by omega
      have e1 : AllZero (D.take (D.length - p)) ↔ AllZero (r.take bp) ∧ AllZero ((r.drop ap).take (s.toNat - p)) := by
        rw [hst, hD]
        rw [take_len_add _ _ _ _ hIlen]
        rw [allZero_append, padded_take_allZero _ _ _ (by omega)]
      have e2 : D.drop (D.length - p) = ((r.drop ap).drop (s.toNat - p)).take p ++
          zeros (p - (((r.drop ap).drop (s.toNat - p)).take p).length) := by
        rw [hst, hD]
        rw [drop_len_add _ _ _ _ hIlen]
        exact padded_drop _ _ _ hkp
      rw [e1, e2]
      simp only [DecimalParser.copyDigitsWith, Bool.false_and, Bool.false_eq_true, if_false]
      rcases copyDigitsFractionOnly_spec 64 r p s.toNat hkp hp bp ap hfp with ⟨z1, z2, z3, e⟩ | ⟨hn, m, e⟩
      · left
        exact ⟨z1.allDigits, (allDigits_split (s.toNat - p)).mpr ⟨z2.allDigits, z3⟩, ⟨z1, z2⟩, e⟩
      · right
        exact ⟨fun h => hn ⟨h.2.2.1, h.2.2.2, ((allDigits_split _).mp h.2.1).2⟩, m, e⟩

/-! ### spec decomposition = what `parse_sign` / `find_period` see -/

def specSign : Decimal.Sign → Spec.Decimal.Sign
  | .minus => .minus
  | .plus => .plus
  | .none => .none

theorem splitSign_eq (txt : List UInt8) : splitSign txt = (specSign (parseSign txt).2, (parseSign txt).1) := by
  unfold splitSign parseSign
  split <;> simp [specSign]

theorem splitPoint_eq (sg : Spec.Decimal.Sign) (r : List UInt8) (bp ap : Nat) (hfp : findPeriod r = (bp, ap)) :
    (splitPoint sg r).sign = sg ∧ (splitPoint sg r).int = r.take bp ∧ (splitPoint sg r).fracDigits = r.drop ap := by
  have facts := findPeriod_facts r
  rw [hfp] at facts
  obtain ⟨h1, h2, h3, h4, h5, h6⟩ := facts
  simp only at h1 h2 h3 h4 h5 h6
  unfold splitPoint
  rw [h6, h5]
  by_cases h : ap = bp
  · simp only [h, if_true, Parts.fracDigits, Option.getD_none]
    refine ⟨trivial, trivial, ?_⟩
    rw [List.drop_eq_nil_of_le (by have := h4 h; omega)]
  · simp [h, Parts.fracDigits]

theorem r_split (r : List UInt8) (bp ap : Nat) (hfp : findPeriod r = (bp, ap)) :
    r = r.take bp ++ (if ap = bp then [] else 46 :: r.drop ap) := by
  have facts := findPeriod_facts r
  rw [hfp] at facts
  obtain ⟨-, -, -, -, h5, h6⟩ := facts
  simp only at h5 h6
  conv => lhs; rw [← List.takeWhile_append_dropWhile (p := (· != 46)) (l := r)]
  rw [h5, h6]

theorem isDigit_46 : isDigit 46 = false := by decide

theorem anyAsciiDigit_iff (r : List UInt8) : anyAsciiDigit r = true ↔ ∃ c ∈ r, isDigit c = true := by
  unfold anyAsciiDigit
  rw [List.any_eq_true]
  constructor
  · rintro ⟨c, hc, h⟩; exact ⟨c, hc, by rw [← isAsciiDigit_iff]; exact h⟩
  · rintro ⟨c, hc, h⟩; exact ⟨c, hc, by rw [isAsciiDigit_iff]; exact h⟩

theorem anyAsciiDigit_parts (r : List UInt8) (bp ap : Nat) (hfp : findPeriod r = (bp, ap))
    (hI : AllDigits (r.take bp)) (hF : AllDigits (r.drop ap)) :
    anyAsciiDigit r = true ↔ 1 ≤ (r.take bp).length + (r.drop ap).length := by
  rw [anyAsciiDigit_iff]
  constructor
  · rintro ⟨c, hc, hd⟩
    rw [r_split r bp ap hfp] at hc
    rcases List.mem_append.mp hc with h | h
    · have := List.length_pos_of_mem h; omega
    · by_cases hab : ap = bp
      · simp [hab] at h
      · simp only [hab, if_false] at h
        rcases List.mem_cons.mp h with rfl | h
        · rw [isDigit_46] at hd; cases hd
        · have := List.length_pos_of_mem h; omega
  · intro h
    by_cases h0 : 1 ≤ (r.take bp).length
    · obtain ⟨c, hc⟩ := List.exists_mem_of_length_pos (show 0 < (r.take bp).length by omega)
      exact ⟨c, List.mem_of_mem_take hc, hI c hc⟩
    · obtain ⟨c, hc⟩ := List.exists_mem_of_length_pos (show 0 < (r.drop ap).length by omega)
      exact ⟨c, List.mem_of_mem_drop hc, hF c hc⟩

/-! ### `str::parse::<i128>` on a digit string -/

theorem digitsNat?_eq (ds : List UInt8) (hd : AllDigits ds) (acc : Nat) :
    digitsNat? ds acc = some (acc * 10 ^ ds.length + digitsVal ds) := by
  induction ds generalizing acc with
  | nil => simp [digitsNat?, digitsVal]
  | cons c rest ih =>
    have hc := hd c List.mem_cons_self
    have hn : (c < 48 || c > 57) = false := by rw [notDigit_iff, hc]; rfl
    simp only [digitsNat?, hn, Bool.false_eq_true, if_false]
    rw [ih (fun d h => hd d (List.mem_cons_of_mem _ h)), digitsVal_cons, List.length_cons, Nat.pow_succ]
    simp only [digitVal, Nat.add_mul, Nat.mul_assoc, Nat.add_assoc]
    congr 3
    rw [Nat.mul_comm]

theorem pow38_le : (10 : Nat) ^ 38 ≤ 170141183460469231731687303715884105727 := by decide

theorem parseI128_digits (ds : List UInt8) (hd : AllDigits ds) (hne : ds ≠ []) (hlen : ds.length ≤ 38) :
    parseI128 ds = .ok (digitsVal ds : Int) := by
  cases ds with
  | nil => exact absurd rfl hne
  | cons c rest =>
    have hc := hd c List.mem_cons_self
    have h43 : (c == 43) = false := by
      apply Classical.byContradiction; intro h; simp at h; subst h; revert hc; decide
    have h45 : (c == 45) = false := by
      apply Classical.byContradiction; intro h; simp at h; subst h; revert hc; decide
    have hv := digitsVal_lt hd
    have hp := Nat.pow_le_pow_right (n := 10) (by omega) hlen
    have h38 := pow38_le
    unfold parseI128
    simp only [h43, h45, Bool.false_eq_true, if_false, List.isEmpty_cons, digitsNat?_eq _ hd, Nat.zero_mul, Nat.zero_add]
    rw [if_pos]
    unfold I128_MIN I128_MAX
    constructor <;> omega

end SaModel.Lemmas.C15
