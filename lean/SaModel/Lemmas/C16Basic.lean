import SaModel.Build.Finish
/-
C16 plumbing: the "no panic" predicate `r.isPanic = false` and its closure under `ctx`, bind and `iter`; the
offset / validity helpers; placeholders and nulls in ANY builder state (structural recursion over the builder
tree).  Restated as property theorems in Props/C16.lean.
-/
namespace SaModel.Lemmas.C16
open SaModel SaModel.Build

theorem ctx_isPanic {α} (ann : List (String × String)) (r : R α) : (ctx ann r).isPanic = r.isPanic := by
  unfold ctx
  split
  · split <;> simp [R.isPanic]
  · rfl

theorem bind_no_panic {α β} (r : R α) (f : α → R β) (h1 : r.isPanic = false) (h2 : ∀ v, (f v).isPanic = false) :
    (r >>= f).isPanic = false := by
  cases r with
  | ok v => exact h2 v
  | error e => cases e <;> simp_all [R.isPanic, bind, Except.bind]

/-- bind with the continuation only considered on the value the first step produced -/
theorem bind_np {α β} {r : R α} {f : α → R β} (h1 : r.isPanic = false) (h2 : ∀ v, r = .ok v → (f v).isPanic = false) :
    (r >>= f).isPanic = false := by
  cases r with
  | ok v => exact h2 v rfl
  | error e => cases e <;> simp_all [R.isPanic, bind, Except.bind]

theorem ok_no_panic {α} (v : α) : R.isPanic (Except.ok v : R α) = false := rfl
theorem fail_no_panic {α} (msg : String) : (fail msg : R α).isPanic = false := rfl
theorem notSupported_no_panic {α} (msg : String) : (notSupported msg : R α).isPanic = false := rfl

theorem ne_panic_of_isPanic {α} {r : R α} (h : r.isPanic = false) (site : String) : r ≠ panic site := by
  intro e; rw [e] at h; simp [panic, R.isPanic] at h

theorem setValidity_no_panic (v : Validity) (idx : Nat) (value : Bool) : (setValidity v idx value).isPanic = false := by
  unfold setValidity; split <;> try rfl
  split <;> rfl

theorem duplicateLast_no_panic (offs : List Int) : (duplicateLast offs).isPanic = false := by
  unfold duplicateLast; split <;> rfl

/-- the repaired `increment_last` never unwinds (the pinned one does at the top of the offset type) -/
theorem incrementLast_no_panic (large : Bool) (offs : List Int) (inc : Nat) :
    (incrementLast true large offs inc).isPanic = false := by
  unfold incrementLast
  split
  · rfl
  · split
    · rfl
    · split <;> rfl

theorem iter_no_panic {α} (f : α → R α) (hf : ∀ a, (f a).isPanic = false) : ∀ (k : Nat) (a : α), (iter k f a).isPanic = false
  | 0, _ => rfl
  | k + 1, a => by
    rw [iter]
    exact bind_no_panic _ _ (hf a) (fun a' => iter_no_panic f hf k a')

mutual
theorem pushDefaultK_no_panic : ∀ (b : B) (k : Nat), (pushDefaultK b k).isPanic = false
  | .null _ _, _ => by simp [pushDefaultK, R.isPanic]
  | .unknownVariant _, k => by
    unfold pushDefaultK
    split
    · rfl
    · rw [ctx_isPanic]; rfl
  | .leaf _ _ _ _, k => by
    unfold pushDefaultK
    exact bind_no_panic _ _ (iter_no_panic _ (fun _ => rfl) _ _) (fun _ => rfl)
  | .bytes _ _ _ _ _, k => by
    unfold pushDefaultK
    rw [ctx_isPanic]
    refine bind_no_panic _ _ (iter_no_panic _ (fun s => ?_) _ _) (fun _ => rfl)
    exact bind_no_panic _ _ (duplicateLast_no_panic _) (fun _ => rfl)
  | .bytesView _ _ _ _ _, k => by
    unfold pushDefaultK
    exact bind_no_panic _ _ (iter_no_panic _ (fun _ => rfl) _ _) (fun _ => rfl)
  | .fixedSizeBinary _ _ _ _ _ _, k => by
    unfold pushDefaultK
    exact bind_no_panic _ _ (iter_no_panic _ (fun _ => rfl) _ _) (fun _ => rfl)
  | .list _ _ _ _ _ _, k => by
    unfold pushDefaultK
    rw [ctx_isPanic]
    refine bind_no_panic _ _ (iter_no_panic _ (fun s => ?_) _ _) (fun _ => rfl)
    exact bind_no_panic _ _ (duplicateLast_no_panic _) (fun _ => rfl)
  | .fixedSizeList _ _ n _ _ _ el, k => by
    unfold pushDefaultK
    rw [ctx_isPanic]
    refine bind_no_panic _ _ (iter_no_panic _ (fun _ => rfl) _ _) (fun _ => ?_)
    exact bind_no_panic _ _ (pushDefaultK_no_panic el (k * n)) (fun _ => rfl)
  | .map _ _ _ _ _ _, k => by
    unfold pushDefaultK
    rw [ctx_isPanic]
    refine bind_no_panic _ _ (iter_no_panic _ (fun s => ?_) _ _) (fun _ => rfl)
    exact bind_no_panic _ _ (duplicateLast_no_panic _) (fun _ => rfl)
  | .struct _ _ _ fs _ _ _, k => by
    unfold pushDefaultK
    rw [ctx_isPanic]
    refine bind_no_panic _ _ (iter_no_panic _ (fun _ => rfl) _ _) (fun _ => ?_)
    exact bind_no_panic _ _ (pushDefaultKAll_no_panic fs k) (fun _ => rfl)
  | .dictionary _ idx _ _, k => by
    unfold pushDefaultK
    rw [ctx_isPanic]
    exact bind_no_panic _ _ (pushDefaultK_no_panic idx k) (fun _ => rfl)
  | .union _ fs _ _ _, k => by
    unfold pushDefaultK
    rw [ctx_isPanic]
    cases fs with
    | nil => simp only []; split <;> rfl
    | cons c m rest =>
      simp only []
      split
      · rfl
      split
      · rfl
      · exact bind_no_panic _ _ (pushDefaultKAt_no_panic (.cons c m rest) _ k) (fun _ => by split <;> rfl)
theorem pushDefaultKAll_no_panic : ∀ (fs : BL) (k : Nat), (pushDefaultKAll fs k).isPanic = false
  | .nil, _ => rfl
  | .cons b _ rest, k => by
    unfold pushDefaultKAll
    refine bind_no_panic _ _ (pushDefaultK_no_panic b k) (fun _ => ?_)
    exact bind_no_panic _ _ (pushDefaultKAll_no_panic rest k) (fun _ => rfl)
theorem pushDefaultKAt_no_panic : ∀ (fs : BL) (j k : Nat), (pushDefaultKAt fs j k).isPanic = false
  | .nil, _, _ => rfl
  | .cons b _ rest, 0, k => by
    unfold pushDefaultKAt
    exact bind_no_panic _ _ (pushDefaultK_no_panic b k) (fun _ => rfl)
  | .cons b _ rest, j + 1, k => by
    unfold pushDefaultKAt
    exact bind_no_panic _ _ (pushDefaultKAt_no_panic rest j k) (fun _ => rfl)
end

theorem pushNone_no_panic : ∀ (b : B), (pushNone b).isPanic = false
  | .null _ _ => rfl
  | .unknownVariant _ => by unfold pushNone; rw [ctx_isPanic]; rfl
  | .leaf _ _ _ _ => by
    unfold pushNone; rw [ctx_isPanic]
    exact bind_no_panic _ _ (setValidity_no_panic _ _ _) (fun _ => rfl)
  | .bytes _ _ _ _ _ => by
    unfold pushNone; rw [ctx_isPanic]
    refine bind_no_panic _ _ (setValidity_no_panic _ _ _) (fun _ => ?_)
    exact bind_no_panic _ _ (duplicateLast_no_panic _) (fun _ => rfl)
  | .bytesView _ _ _ _ _ => by
    unfold pushNone; rw [ctx_isPanic]
    exact bind_no_panic _ _ (setValidity_no_panic _ _ _) (fun _ => rfl)
  | .fixedSizeBinary _ _ _ _ _ _ => by
    unfold pushNone; rw [ctx_isPanic]
    exact bind_no_panic _ _ (setValidity_no_panic _ _ _) (fun _ => rfl)
  | .list _ _ _ _ _ _ => by
    unfold pushNone; rw [ctx_isPanic]
    refine bind_no_panic _ _ (setValidity_no_panic _ _ _) (fun _ => ?_)
    exact bind_no_panic _ _ (duplicateLast_no_panic _) (fun _ => rfl)
  | .fixedSizeList _ _ n _ _ _ el => by
    unfold pushNone; rw [ctx_isPanic]
    refine bind_no_panic _ _ (setValidity_no_panic _ _ _) (fun _ => ?_)
    exact bind_no_panic _ _ (pushDefaultK_no_panic el n) (fun _ => rfl)
  | .map _ _ _ _ _ _ => by
    unfold pushNone; rw [ctx_isPanic]
    refine bind_no_panic _ _ (setValidity_no_panic _ _ _) (fun _ => ?_)
    exact bind_no_panic _ _ (duplicateLast_no_panic _) (fun _ => rfl)
  | .struct _ _ _ fs _ _ _ => by
    unfold pushNone; rw [ctx_isPanic]
    refine bind_no_panic _ _ (setValidity_no_panic _ _ _) (fun _ => ?_)
    exact bind_no_panic _ _ (pushDefaultKAll_no_panic fs 1) (fun _ => rfl)
  | .dictionary _ idx _ _ => by
    unfold pushNone; rw [ctx_isPanic]
    split
    · rfl
    · refine bind_no_panic _ _ ?_ (fun _ => rfl)
      rw [ctx_isPanic]; exact pushNone_no_panic idx
  | .union _ _ _ _ _ => by unfold pushNone; rw [ctx_isPanic]; rfl

end SaModel.Lemmas.C16
