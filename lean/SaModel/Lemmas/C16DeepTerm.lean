import SaModel.Lemmas.C09Type
import SaModel.Lemmas.C16Dsl
/-
C16, schema side: the nesting limit of the data-type mini language.  Before the fix d2b4b5b `Term::from_str` descended
without a bound: `SerdeArrowSchema::from_value` on a `data_type` text nested some 50 000 levels deep exhausted the stack
(abort).  After it: every term the parser returns is nested at most `MAX_TERM_DEPTH` levels (`fromStr_depth_le`) and
the texts `A(A(…I8…))` with more levels are refused with an error (`fromStr_nest`), whatever their size.
-/
namespace SaModel.Lemmas.C16
open SaModel SaModel.Dsl

/-- every term `Term::from_str` returns is nested at most `MAX_TERM_DEPTH` levels deep -/
theorem fromStr_depth_le (pinned : Bool) (s : Text) (t : Term) (h : Term.fromStrWith pinned s = .ok t) :
    t.depth ≤ MAX_TERM_DEPTH := by
  unfold Term.fromStrWith at h
  cases hp : parseTerm pinned (3 * s.length + 16) s with
  | error e => rw [hp] at h; cases h
  | ok v =>
    rw [hp] at h
    simp only [bind, Except.bind] at h
    split at h
    · cases h
    · rename_i hd
      split at h
      · cases h; omega
      · cases h

/-- `A(A(…(I8)…))`, `n` levels -/
def nestTerm : Nat → Term
  | 0 => identT "I8".toList
  | n + 1 => callT "A".toList (.cons (nestTerm n) .nil)

theorem nestTerm_OK : ∀ n, (nestTerm n).OK
  | 0 => identT_OK (by decide)
  | n + 1 => by
    simp only [nestTerm, callT, Term.OK, Terms.OK, and_true]
    exact ⟨fun _ => by decide, nestTerm_OK n⟩

theorem nestTerm_need : ∀ n, (nestTerm n).need = 3 * n + 2
  | 0 => rfl
  | n + 1 => by
    simp only [nestTerm, callT, Term.need, Terms.need, nestTerm_need n]; omega

theorem nestTerm_depth : ∀ n, (nestTerm n).depth = n
  | 0 => rfl
  | n + 1 => by
    have := nestTerm_depth n
    simp only [nestTerm, callT, Term.depth, Terms.depth] at *
    omega

theorem nestTerm_length (esc : Char → Bool) : ∀ n, (showTerm esc (nestTerm n)).length = 3 * n + 2
  | 0 => rfl
  | n + 1 => by
    have ih := nestTerm_length esc n
    have e : showTerm esc (nestTerm (n + 1)) = 'A' :: '(' :: (showTerm esc (nestTerm n) ++ [')']) := by
      simp only [nestTerm, callT, showTerm, showArgs, showArgsTail, Bool.false_eq_true, if_false]
      rfl
    rw [e]
    simp only [List.length_cons, List.length_append, List.length_nil, ih]
    omega

/-- the nested text is read back as the nested term while it is within the limit, and refused with an error beyond —
for every `n`, i.e. for texts of any size -/
theorem fromStr_nest (esc : Char → Bool) (n : Nat) :
    Term.fromStr (showTerm esc (nestTerm n)) =
      if n ≤ MAX_TERM_DEPTH then .ok (nestTerm n) else fail "Term is nested too deeply" := by
  have hp := parseTerm_show esc (nestTerm n) (nestTerm_OK n) (3 * (showTerm esc (nestTerm n)).length + 16) []
    (by rw [nestTerm_need, nestTerm_length]; omega) (by intro c r h; cases h)
  rw [List.append_nil] at hp
  simp only [Term.fromStr, Term.fromStrWith, hp, bind, Except.bind, nestTerm_depth, trimStart]
  by_cases h : n ≤ MAX_TERM_DEPTH
  · have : ¬ n > MAX_TERM_DEPTH := by omega
    simp only [this, h, ↓reduceIte]; rfl
  · have : n > MAX_TERM_DEPTH := by omega
    simp only [this, h, ↓reduceIte]

/-- `build_data_type` on the nested text: `I8` for `n = 0`, an error (unknown type name `A`, or too deep) for every
other `n` -/
theorem buildDataType_nest (esc : Char → Bool) (n : Nat) (children : List Field) :
    (buildDataType (showTerm esc (nestTerm (n + 1))) children).isErr = true := by
  have h := fromStr_nest esc (n + 1)
  simp only [Term.fromStr] at h
  simp only [buildDataType, buildDataTypeWith, h]
  split
  · simp only [bind, Except.bind]
    rfl
  · rfl

end SaModel.Lemmas.C16
