import SaModel.Lemmas.C08NotWalkable
import SaModel.Lemmas.C16FromType
/-
C16, `from_type`: no panic (corollary of C08's `fromType_spec`) and the depth limit for EVERY container family.

C08 represents a recursive Rust definition `T = F T` by its unrollings `unroll F n base` and asks of `F` that it puts its
argument at least one path level down (`Descends o F`).  Here: every container constructor of the type description does
(`descends_vec`, `descends_map_key`, `descends_map_value`, `descends_tuple`, `descends_tupleStruct`, `descends_struct`,
`descends_enum`, wherever the recursive occurrence sits among the elements / fields / variant payloads), and the
transparent wrappers `Option` / newtype structs keep the property on either side (`descends_option`, `descends_newtype`,
`descends_of_option`, `descends_of_newtype`), as does composition with any further constructor around a descending one
(`descends_comp`).
-/
namespace SaModel.Lemmas.C16
open SaModel SaModel.Trace SaModel.Trace.Spec SaModel.Lemmas.C08

/-- an outcome that agrees with anything is not a panic -/
theorem Agree.isPanic_false {α} {a b : R α} (h : Agree a b) : a.isPanic = false := by
  match a, b, h with
  | .ok _, .ok _, _ => rfl
  | .error (.err _), .error (.err _), _ => rfl

/-- `SerdeArrowSchema::from_type` never unwinds: for every type description and all options -/
theorem fromType_np (c : Code) (o : Options) (ty : Ty) : (fromType c o ty).isPanic = false :=
  Agree.isPanic_false (fromType_spec c o ty)

/-! ### every pass of the loop: `explore` on the states `from_type` reaches

`Conf o p ty t` (C08, SaModel/Lemmas/C08Conf.lean) is the invariant "the tracer `t` was grown by `explore` from this very
type at path `p`": a fresh node conforms to everything; a list / map / tuple / struct / union node conforms to the
corresponding type if it sits at a path within the depth limit and its children conform pointwise (a struct node has a
slot per declared field, a union node has no unseen slot). -/

theorem Pres.isPanic_false {α} {r : R α} {P : α → Prop} (h : Pres r P) : r.isPanic = false := by
  match r, h with
  | .ok _, _ => rfl
  | .error (.err _), _ => rfl

/-- one pass over a conforming tracer never unwinds -/
theorem explore_np (c : Code) (o : Options) (ty : Ty) (p : String) (t : Tracer) (h : Conf o p ty t) :
    (explore c o t ty).isPanic = false := Pres.isPanic_false (explore_conf c o ty p t h)

/-- any number of passes (also beyond completion, also past the budget) keeps conformance or ends in a Rust error -/
theorem passes_conf (c : Code) (o : Options) (ty : Ty) (p : String) : ∀ (k : Nat) (t : Tracer), Conf o p ty t →
    Pres (passes c o ty k t) (Conf o p ty)
  | 0, _, h => Pres.ok h
  | k + 1, t, h => by
    simp only [passes]
    exact Pres.bind (explore_conf c o ty p t h) fun t' h' => passes_conf c o ty p k t' h'

theorem passes_np (c : Code) (o : Options) (ty : Ty) (k : Nat) (n p : String) (nl : Bool) :
    (passes c o ty k (.unknown n p nl)).isPanic = false :=
  Pres.isPanic_false (passes_conf c o ty p k _ (conf_fresh o ty n p nl))

/-! ### which type constructors descend -/

/-- `t` is one of the element types -/
def TysMem (t : Ty) : Tys → Prop
  | .nil => False
  | .cons x r => x = t ∨ TysMem t r

/-- `t` is the type of one of the fields -/
def FieldsMem (t : Ty) : TyFields → Prop
  | .nil => False
  | .cons _ x r => x = t ∨ FieldsMem t r

/-- `t` is the payload of a newtype variant, an element of a tuple variant or a field of a struct variant -/
def PayloadMem (t : Ty) : TyVariants → Prop
  | .nil => False
  | .unit _ r => PayloadMem t r
  | .newtype _ x r => x = t ∨ PayloadMem t r
  | .tuple _ ts r => TysMem t ts ∨ PayloadMem t r
  | .struct _ fs r => FieldsMem t fs ∨ PayloadMem t r

theorem le_countDots_child (p n : String) : countDots p + 1 ≤ countDots (childPath p n) := by
  rw [countDots_child]; omega

theorem walkableTys_mem (o : Options) (t : Ty) (p : String) : ∀ (ts : Tys) (i : Nat), walkableTys o p i ts = true →
    TysMem t ts → ∃ q, countDots p + 1 ≤ countDots q ∧ walkable o q t = true
  | .nil, _, _, hm => hm.elim
  | .cons x r, i, hw, hm => by
    simp only [walkableTys, Bool.and_eq_true] at hw
    rcases hm with rfl | hm
    · exact ⟨_, le_countDots_child p _, hw.1⟩
    · exact walkableTys_mem o t p r (i + 1) hw.2 hm

theorem walkableFields_mem (o : Options) (t : Ty) (p : String) : ∀ (fs : TyFields), walkableFields o p fs = true →
    FieldsMem t fs → ∃ q, countDots p + 1 ≤ countDots q ∧ walkable o q t = true
  | .nil, _, hm => hm.elim
  | .cons n x r, hw, hm => by
    simp only [walkableFields, Bool.and_eq_true] at hw
    rcases hm with rfl | hm
    · exact ⟨_, le_countDots_child p _, hw.1⟩
    · exact walkableFields_mem o t p r hw.2 hm

theorem walkableVariants_mem (o : Options) (t : Ty) (p : String) : ∀ (vs : TyVariants), walkableVariants o p vs = true →
    PayloadMem t vs → ∃ q, countDots p + 1 ≤ countDots q ∧ walkable o q t = true
  | .nil, _, hm => hm.elim
  | .unit _ r, hw, hm => by
    simp only [walkableVariants] at hw
    exact walkableVariants_mem o t p r hw hm
  | .newtype n x r, hw, hm => by
    simp only [walkableVariants, Bool.and_eq_true] at hw
    rcases hm with rfl | hm
    · exact ⟨_, le_countDots_child p _, hw.1⟩
    · exact walkableVariants_mem o t p r hw.2 hm
  | .tuple n ts r, hw, hm => by
    simp only [walkableVariants, Bool.and_eq_true] at hw
    rcases hm with hm | hm
    · obtain ⟨q, hq, hwq⟩ := walkableTys_mem o t (childPath p n) ts 0 hw.1.2 hm
      have := le_countDots_child p n
      exact ⟨q, by omega, hwq⟩
    · exact walkableVariants_mem o t p r hw.2 hm
  | .struct n fs r, hw, hm => by
    simp only [walkableVariants, Bool.and_eq_true] at hw
    rcases hm with hm | hm
    · obtain ⟨q, hq, hwq⟩ := walkableFields_mem o t (childPath p n) fs hw.1.2 hm
      have := le_countDots_child p n
      exact ⟨q, by omega, hwq⟩
    · exact walkableVariants_mem o t p r hw.2 hm

/-- `Vec<T>` (sequences, sets, arrays of unknown length) -/
theorem descends_vec (o : Options) : Descends o (fun t => .vec t) := by
  intro t p h
  simp only [walkable, Bool.and_eq_true, Bool.not_eq_true'] at h
  exact ⟨h.1, _, le_countDots_child p _, h.2⟩

/-- maps, the recursive occurrence in the value … -/
theorem descends_map_value (o : Options) (k : Ty) : Descends o (fun t => .map k t) := by
  intro t p h
  simp only [walkable, Bool.and_eq_true, Bool.not_eq_true'] at h
  exact ⟨h.1.1.2, _, le_countDots_child p _, h.2⟩

/-- … or in the key -/
theorem descends_map_key (o : Options) (v : Ty) : Descends o (fun t => .map t v) := by
  intro t p h
  simp only [walkable, Bool.and_eq_true, Bool.not_eq_true'] at h
  exact ⟨h.1.1.2, _, le_countDots_child p _, h.1.2⟩

/-- tuples and fixed-size arrays: the recursive occurrence is any of the elements -/
theorem descends_tuple (o : Options) (G : Ty → Tys) (hG : ∀ t, TysMem t (G t)) : Descends o (fun t => .tuple (G t)) := by
  intro t p h
  simp only [walkable, Bool.and_eq_true, Bool.not_eq_true'] at h
  exact ⟨h.1, walkableTys_mem o t p (G t) 0 h.2 (hG t)⟩

theorem descends_tupleStruct (o : Options) (name : String) (G : Ty → Tys) (hG : ∀ t, TysMem t (G t)) :
    Descends o (fun t => .tupleStruct name (G t)) := by
  intro t p h
  simp only [walkable, Bool.and_eq_true, Bool.not_eq_true'] at h
  exact ⟨h.1, walkableTys_mem o t p (G t) 0 h.2 (hG t)⟩

/-- structs: the recursive occurrence is the type of any field -/
theorem descends_struct (o : Options) (name : String) (G : Ty → TyFields) (hG : ∀ t, FieldsMem t (G t)) :
    Descends o (fun t => .struct name (G t)) := by
  intro t p h
  simp only [walkable, Bool.and_eq_true, Bool.not_eq_true'] at h
  exact ⟨h.1, walkableFields_mem o t p (G t) h.2 (hG t)⟩

/-- enums: the recursive occurrence is the payload of a newtype variant, an element of a tuple variant or a field of a
struct variant -/
theorem descends_enum (o : Options) (name : String) (G : Ty → TyVariants) (hG : ∀ t, PayloadMem t (G t)) :
    Descends o (fun t => .enum name (G t)) := by
  intro t p h
  simp only [walkable, Bool.and_eq_true, Bool.not_eq_true'] at h
  exact ⟨h.1.1, walkableVariants_mem o t p (G t) h.2 (hG t)⟩

/-- `Option<…>` around a descending constructor (`Option` adds no path level itself) -/
theorem descends_option (o : Options) (F : Ty → Ty) (hF : Descends o F) : Descends o (fun t => .option (F t)) := by
  intro t p h
  simp only [walkable] at h
  exact hF t p h

theorem descends_newtype (o : Options) (name : String) (F : Ty → Ty) (hF : Descends o F) :
    Descends o (fun t => .newtypeStruct name (F t)) := by
  intro t p h
  simp only [walkable] at h
  exact hF t p h

/-- `Option<Box<T>>` inside a descending constructor -/
theorem descends_of_option (o : Options) (F : Ty → Ty) (hF : Descends o F) : Descends o (fun t => F (.option t)) := by
  intro t p h
  obtain ⟨h1, q, hq, hw⟩ := hF (.option t) p h
  simp only [walkable] at hw
  exact ⟨h1, q, hq, hw⟩

theorem descends_of_newtype (o : Options) (name : String) (F : Ty → Ty) (hF : Descends o F) :
    Descends o (fun t => F (.newtypeStruct name t)) := by
  intro t p h
  obtain ⟨h1, q, hq, hw⟩ := hF (.newtypeStruct name t) p h
  simp only [walkable] at hw
  exact ⟨h1, q, hq, hw⟩

/-- two descending constructors nested (e.g. `Vec<(T, u8)>`, a struct field of map type …) -/
theorem descends_comp (o : Options) (F G : Ty → Ty) (hF : Descends o F) (hG : Descends o G) :
    Descends o (fun t => F (G t)) := by
  intro t p h
  obtain ⟨h1, q, hq, hw⟩ := hF (G t) p h
  obtain ⟨_, q', hq', hw'⟩ := hG t q hw
  exact ⟨h1, q', by omega, hw'⟩

/-- every unrolling of a descending definition deeper than the limit is an error value of `from_type`, for all
options and every budget -/
theorem fromType_recursive_err (c : Code) (o : Options) (F : Ty → Ty) (hF : Descends o F) (base : Ty) (n : Nat)
    (hn : MAX_TYPE_DEPTH < n) : (fromType c o (unroll F n base)).isErr = true := by
  obtain ⟨m, h⟩ := fromType_not_walkable c o _ (unroll_not_walkable o F hF base n hn)
  rw [h]; rfl

/-- the `Vec<Vec<…>>` family of `explore_deep_vec` is the unrolling of `Vec` -/
theorem nestVec_eq_unroll (ty : Ty) : ∀ k, nestVec k ty = unroll (fun t => .vec t) k ty
  | 0 => rfl
  | k + 1 => by simp only [nestVec, unroll, nestVec_eq_unroll ty k]

end SaModel.Lemmas.C16
