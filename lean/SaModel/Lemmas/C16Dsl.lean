import SaModel.Codec.Dsl
import SaModel.Lemmas.C16Basic
/-
C16, schema side: the data-type mini language (`utils/dsl.rs`: `Term::from_str`, the quoted-string scanner, the
accessors) and `build_data_type` (`schema/serde/deserialize.rs`) never unwind — for EVERY input text and every list of
children.  The 46-way string match of `build_data_type` is handled once, by `buildDataTypeOfTerm_match_np` (its
matcher is a chain of `dite (x = "…")`: case analysis on each test; `split` on the compiled match is too slow).
-/
namespace SaModel.Lemmas.C16
open SaModel SaModel.Dsl

theorem np_ok {α} (v : α) : R.isPanic (Except.ok v : R α) = false := rfl
theorem np_pure {α} (v : α) : R.isPanic (pure v : R α) = false := rfl
theorem np_fail {α} (m : String) : R.isPanic (fail m : R α) = false := rfl

theorem pushChar_np (x : Char) (k : R (Text × Text)) (h : k.isPanic = false) : (pushChar x k).isPanic = false := by
  unfold pushChar
  split
  · rfl
  · exact h

theorem finishUnicode_np (code : Nat) (k : R (Text × Text)) (h : k.isPanic = false) :
    (finishUnicode code k).isPanic = false := by
  unfold finishUnicode
  split
  · exact pushChar_np _ _ h
  · rfl

theorem scanQuoted_np (m : QMode) (s : Text) : (scanQuoted m s).isPanic = false := by
  fun_induction scanQuoted m s <;> first | rfl | (apply pushChar_np; assumption) | (apply finishUnicode_np; assumption) | assumption

theorem scanQuotedPinned_np (s : Text) : (scanQuotedPinned s).isPanic = false := by
  fun_induction scanQuotedPinned s <;> first | rfl | (apply pushChar_np; assumption)

theorem parseIdentTermName_np (s : Text) : (parseIdentTermName s).isPanic = false := by
  unfold parseIdentTermName
  split <;> rfl

theorem parseTermName_np (pinned : Bool) (s : Text) : (parseTermName pinned s).isPanic = false := by
  unfold parseTermName
  split
  · simp only []
    split
    · exact bind_no_panic _ _ (scanQuotedPinned_np _) (fun v => rfl)
    · exact bind_no_panic _ _ (scanQuoted_np _ _) (fun v => rfl)
  · apply bind_no_panic
    · exact parseIdentTermName_np _
    · intro v; rfl

mutual
theorem parseTerm_np (pinned : Bool) : ∀ (f : Nat) (s : Text), (parseTerm pinned f s).isPanic = false
  | 0, _ => by unfold parseTerm; rfl
  | f + 1, s => by
    unfold parseTerm
    apply bind_no_panic
    · exact parseTermName_np _ _
    · intro v
      apply bind_no_panic
      · exact parseArguments_np pinned f _
      · intro w; rfl
theorem parseArguments_np (pinned : Bool) : ∀ (f : Nat) (s : Text), (parseArguments pinned f s).isPanic = false
  | 0, _ => by unfold parseArguments; rfl
  | f + 1, s => by
    unfold parseArguments
    split
    · apply bind_no_panic
      · exact parseArgLoop_np pinned f _
      · intro v
        simp only []
        split <;> rfl
    · rfl
theorem parseArgLoop_np (pinned : Bool) : ∀ (f : Nat) (s : Text), (parseArgLoop pinned f s).isPanic = false
  | 0, _ => by unfold parseArgLoop; rfl
  | f + 1, s => by
    unfold parseArgLoop
    apply bind_no_panic
    · exact parseTerm_np pinned f _
    · intro v
      simp only []
      split
      · apply bind_no_panic
        · exact parseArgLoop_np pinned f _
        · intro w; rfl
      · rfl
end

theorem fromStrWith_np (pinned : Bool) (s : Text) : (Term.fromStrWith pinned s).isPanic = false := by
  unfold Term.fromStrWith
  apply bind_no_panic
  · exact parseTerm_np _ _ _
  · intro v
    simp only []
    split
    · rfl
    · split <;> rfl

theorem asIdent_np (t : Term) : t.asIdent.isPanic = false := by
  unfold Term.asIdent; split <;> rfl
theorem asString_np (t : Term) : t.asString.isPanic = false := by
  unfold Term.asString; split <;> rfl
theorem asOption_np (t : Term) : t.asOption.isPanic = false := by
  unfold Term.asOption; split <;> first | rfl | (split <;> rfl)
theorem asCall_np (t : Term) : t.asCall.isPanic = false := by
  unfold Term.asCall; split <;> rfl

theorem parseDigits_np (ds : Text) : (parseDigits ds).isPanic = false := by
  unfold parseDigits; split <;> first | rfl | (split <;> rfl)

theorem parseIntLit_np (signed : Bool) (lo hi : Int) (s : Text) : (parseIntLit signed lo hi s).isPanic = false := by
  unfold parseIntLit
  have hjp : ∀ v : Int, (if lo ≤ v ∧ v ≤ hi then (pure v : R Int) else fail "number too large or too small to fit in target type").isPanic = false := by
    intro v; split <;> rfl
  simp only []
  split
  · exact bind_no_panic _ _ (parseDigits_np _) (fun _ => hjp _)
  · split
    · apply bind_no_panic
      · split
        · exact bind_no_panic _ _ (parseDigits_np _) (fun _ => rfl)
        · rfl
      · exact hjp
    · exact bind_no_panic _ _ (parseDigits_np _) (fun _ => hjp _)

theorem parseU8_np (s : Text) : (parseU8 s).isPanic = false :=
  bind_no_panic _ _ (parseIntLit_np _ _ _ _) (fun _ => rfl)
theorem parseI8_np (s : Text) : (parseI8 s).isPanic = false := parseIntLit_np _ _ _ _
theorem parseI32_np (s : Text) : (parseI32 s).isPanic = false := parseIntLit_np _ _ _ _

theorem parseUnit_np (s : Text) : (parseUnit s).isPanic = false := by
  unfold parseUnit; split <;> rfl

theorem unionChildren_np : ∀ (idx : Nat) (fs : List Field), (unionChildren idx fs).isPanic = false
  | _, [] => rfl
  | idx, f :: r => by
    unfold unionChildren
    simp only []
    split
    · rfl
    · exact bind_no_panic _ _ (unionChildren_np (idx + 1) r) (fun _ => rfl)

theorem buildDataTypeOfTerm_match_np (x : String) (l : List Term)
    (h_1 : Unit → R DataType) (h_2 : Unit → R DataType) (h_3 : Unit → R DataType) (h_4 : Unit → R DataType)
    (h_5 : Unit → R DataType) (h_6 : Unit → R DataType) (h_7 : Unit → R DataType) (h_8 : Unit → R DataType)
    (h_9 : Unit → R DataType) (h_10 : Unit → R DataType) (h_11 : Unit → R DataType) (h_12 : Unit → R DataType)
    (h_13 : Unit → R DataType) (h_14 : Unit → R DataType) (h_15 : Unit → R DataType) (h_16 : Unit → R DataType)
    (h_17 : Unit → R DataType) (h_18 : Unit → R DataType) (h_19 : Unit → R DataType) (h_20 : Unit → R DataType)
    (h_21 : Unit → R DataType) (h_22 : Unit → R DataType) (h_23 : Unit → R DataType) (h_24 : Unit → R DataType)
    (h_25 : Unit → R DataType) (h_26 : Unit → R DataType) (h_27 : Unit → R DataType) (h_28 : Unit → R DataType)
    (h_29 : Unit → R DataType) (h_30 : Unit → R DataType) (h_31 : Unit → R DataType) (h_32 : Unit → R DataType)
    (h_33 : Term → R DataType) (h_34 : Unit → R DataType) (h_35 : Term → Term → R DataType)
    (h_36 : Term → R DataType) (h_37 : Term → R DataType) (h_38 : Term → R DataType)
    (h_39 : Term → Term → R DataType) (h_40 : Unit → R DataType) (h_41 : Unit → R DataType)
    (h_42 : Unit → R DataType) (h_43 : Term → R DataType) (h_44 : Unit → R DataType) (h_45 : Unit → R DataType)
    (h_46 : Unit → R DataType) (h_47 : String → List Term → R DataType)
    (H_1 : ∀ u, (h_1 u).isPanic = false) (H_2 : ∀ u, (h_2 u).isPanic = false)
    (H_3 : ∀ u, (h_3 u).isPanic = false) (H_4 : ∀ u, (h_4 u).isPanic = false)
    (H_5 : ∀ u, (h_5 u).isPanic = false) (H_6 : ∀ u, (h_6 u).isPanic = false)
    (H_7 : ∀ u, (h_7 u).isPanic = false) (H_8 : ∀ u, (h_8 u).isPanic = false)
    (H_9 : ∀ u, (h_9 u).isPanic = false) (H_10 : ∀ u, (h_10 u).isPanic = false)
    (H_11 : ∀ u, (h_11 u).isPanic = false) (H_12 : ∀ u, (h_12 u).isPanic = false)
    (H_13 : ∀ u, (h_13 u).isPanic = false) (H_14 : ∀ u, (h_14 u).isPanic = false)
    (H_15 : ∀ u, (h_15 u).isPanic = false) (H_16 : ∀ u, (h_16 u).isPanic = false)
    (H_17 : ∀ u, (h_17 u).isPanic = false) (H_18 : ∀ u, (h_18 u).isPanic = false)
    (H_19 : ∀ u, (h_19 u).isPanic = false) (H_20 : ∀ u, (h_20 u).isPanic = false)
    (H_21 : ∀ u, (h_21 u).isPanic = false) (H_22 : ∀ u, (h_22 u).isPanic = false)
    (H_23 : ∀ u, (h_23 u).isPanic = false) (H_24 : ∀ u, (h_24 u).isPanic = false)
    (H_25 : ∀ u, (h_25 u).isPanic = false) (H_26 : ∀ u, (h_26 u).isPanic = false)
    (H_27 : ∀ u, (h_27 u).isPanic = false) (H_28 : ∀ u, (h_28 u).isPanic = false)
    (H_29 : ∀ u, (h_29 u).isPanic = false) (H_30 : ∀ u, (h_30 u).isPanic = false)
    (H_31 : ∀ u, (h_31 u).isPanic = false) (H_32 : ∀ u, (h_32 u).isPanic = false)
    (H_33 : ∀ a, (h_33 a).isPanic = false) (H_34 : ∀ u, (h_34 u).isPanic = false)
    (H_35 : ∀ a b, (h_35 a b).isPanic = false) (H_36 : ∀ a, (h_36 a).isPanic = false)
    (H_37 : ∀ a, (h_37 a).isPanic = false) (H_38 : ∀ a, (h_38 a).isPanic = false)
    (H_39 : ∀ a b, (h_39 a b).isPanic = false) (H_40 : ∀ u, (h_40 u).isPanic = false)
    (H_41 : ∀ u, (h_41 u).isPanic = false) (H_42 : ∀ u, (h_42 u).isPanic = false)
    (H_43 : ∀ a, (h_43 a).isPanic = false) (H_44 : ∀ u, (h_44 u).isPanic = false)
    (H_45 : ∀ u, (h_45 u).isPanic = false) (H_46 : ∀ u, (h_46 u).isPanic = false)
    (H_47 : ∀ a b, (h_47 a b).isPanic = false) :
    (buildDataTypeOfTerm.match_8 (fun _ _ => R DataType) x l h_1 h_2 h_3 h_4 h_5 h_6 h_7 h_8 h_9 h_10 h_11 h_12 h_13 h_14 h_15 h_16 h_17 h_18 h_19 h_20 h_21 h_22 h_23 h_24 h_25 h_26 h_27 h_28 h_29 h_30 h_31 h_32 h_33 h_34 h_35 h_36 h_37 h_38 h_39 h_40 h_41 h_42 h_43 h_44 h_45 h_46 h_47).isPanic = false := by
  unfold buildDataTypeOfTerm.match_8
  by_cases c1 : x = "Null"
  · rw [dif_pos c1]; subst c1
    rcases l with _ | ⟨a, _ | ⟨b, _ | ⟨c, l⟩⟩⟩ <;> first | exact H_1 () | exact H_47 _ _
  rw [dif_neg c1]
  by_cases c2 : x = "Bool"
  · rw [dif_pos c2]; subst c2
    rcases l with _ | ⟨a, _ | ⟨b, _ | ⟨c, l⟩⟩⟩ <;> first | exact H_2 () | exact H_47 _ _
  rw [dif_neg c2]
  by_cases c3 : x = "Boolean"
  · rw [dif_pos c3]; subst c3
    rcases l with _ | ⟨a, _ | ⟨b, _ | ⟨c, l⟩⟩⟩ <;> first | exact H_3 () | exact H_47 _ _
  rw [dif_neg c3]
  by_cases c4 : x = "Utf8"
  · rw [dif_pos c4]; subst c4
    rcases l with _ | ⟨a, _ | ⟨b, _ | ⟨c, l⟩⟩⟩ <;> first | exact H_4 () | exact H_47 _ _
  rw [dif_neg c4]
  by_cases c5 : x = "LargeUtf8"
  · rw [dif_pos c5]; subst c5
    rcases l with _ | ⟨a, _ | ⟨b, _ | ⟨c, l⟩⟩⟩ <;> first | exact H_5 () | exact H_47 _ _
  rw [dif_neg c5]
  by_cases c6 : x = "Utf8View"
  · rw [dif_pos c6]; subst c6
    rcases l with _ | ⟨a, _ | ⟨b, _ | ⟨c, l⟩⟩⟩ <;> first | exact H_6 () | exact H_47 _ _
  rw [dif_neg c6]
  by_cases c7 : x = "U8"
  · rw [dif_pos c7]; subst c7
    rcases l with _ | ⟨a, _ | ⟨b, _ | ⟨c, l⟩⟩⟩ <;> first | exact H_7 () | exact H_47 _ _
  rw [dif_neg c7]
  by_cases c8 : x = "UInt8"
  · rw [dif_pos c8]; subst c8
    rcases l with _ | ⟨a, _ | ⟨b, _ | ⟨c, l⟩⟩⟩ <;> first | exact H_8 () | exact H_47 _ _
  rw [dif_neg c8]
  by_cases c9 : x = "U16"
  · rw [dif_pos c9]; subst c9
    rcases l with _ | ⟨a, _ | ⟨b, _ | ⟨c, l⟩⟩⟩ <;> first | exact H_9 () | exact H_47 _ _
  rw [dif_neg c9]
  by_cases c10 : x = "UInt16"
  · rw [dif_pos c10]; subst c10
    rcases l with _ | ⟨a, _ | ⟨b, _ | ⟨c, l⟩⟩⟩ <;> first | exact H_10 () | exact H_47 _ _
  rw [dif_neg c10]
  by_cases c11 : x = "U32"
  · rw [dif_pos c11]; subst c11
    rcases l with _ | ⟨a, _ | ⟨b, _ | ⟨c, l⟩⟩⟩ <;> first | exact H_11 () | exact H_47 _ _
  rw [dif_neg c11]
  by_cases c12 : x = "UInt32"
  · rw [dif_pos c12]; subst c12
    rcases l with _ | ⟨a, _ | ⟨b, _ | ⟨c, l⟩⟩⟩ <;> first | exact H_12 () | exact H_47 _ _
  rw [dif_neg c12]
  by_cases c13 : x = "U64"
  · rw [dif_pos c13]; subst c13
    rcases l with _ | ⟨a, _ | ⟨b, _ | ⟨c, l⟩⟩⟩ <;> first | exact H_13 () | exact H_47 _ _
  rw [dif_neg c13]
  by_cases c14 : x = "UInt64"
  · rw [dif_pos c14]; subst c14
    rcases l with _ | ⟨a, _ | ⟨b, _ | ⟨c, l⟩⟩⟩ <;> first | exact H_14 () | exact H_47 _ _
  rw [dif_neg c14]
  by_cases c15 : x = "I8"
  · rw [dif_pos c15]; subst c15
    rcases l with _ | ⟨a, _ | ⟨b, _ | ⟨c, l⟩⟩⟩ <;> first | exact H_15 () | exact H_47 _ _
  rw [dif_neg c15]
  by_cases c16 : x = "Int8"
  · rw [dif_pos c16]; subst c16
    rcases l with _ | ⟨a, _ | ⟨b, _ | ⟨c, l⟩⟩⟩ <;> first | exact H_16 () | exact H_47 _ _
  rw [dif_neg c16]
  by_cases c17 : x = "I16"
  · rw [dif_pos c17]; subst c17
    rcases l with _ | ⟨a, _ | ⟨b, _ | ⟨c, l⟩⟩⟩ <;> first | exact H_17 () | exact H_47 _ _
  rw [dif_neg c17]
  by_cases c18 : x = "Int16"
  · rw [dif_pos c18]; subst c18
    rcases l with _ | ⟨a, _ | ⟨b, _ | ⟨c, l⟩⟩⟩ <;> first | exact H_18 () | exact H_47 _ _
  rw [dif_neg c18]
  by_cases c19 : x = "I32"
  · rw [dif_pos c19]; subst c19
    rcases l with _ | ⟨a, _ | ⟨b, _ | ⟨c, l⟩⟩⟩ <;> first | exact H_19 () | exact H_47 _ _
  rw [dif_neg c19]
  by_cases c20 : x = "Int32"
  · rw [dif_pos c20]; subst c20
    rcases l with _ | ⟨a, _ | ⟨b, _ | ⟨c, l⟩⟩⟩ <;> first | exact H_20 () | exact H_47 _ _
  rw [dif_neg c20]
  by_cases c21 : x = "I64"
  · rw [dif_pos c21]; subst c21
    rcases l with _ | ⟨a, _ | ⟨b, _ | ⟨c, l⟩⟩⟩ <;> first | exact H_21 () | exact H_47 _ _
  rw [dif_neg c21]
  by_cases c22 : x = "Int64"
  · rw [dif_pos c22]; subst c22
    rcases l with _ | ⟨a, _ | ⟨b, _ | ⟨c, l⟩⟩⟩ <;> first | exact H_22 () | exact H_47 _ _
  rw [dif_neg c22]
  by_cases c23 : x = "F16"
  · rw [dif_pos c23]; subst c23
    rcases l with _ | ⟨a, _ | ⟨b, _ | ⟨c, l⟩⟩⟩ <;> first | exact H_23 () | exact H_47 _ _
  rw [dif_neg c23]
  by_cases c24 : x = "Float16"
  · rw [dif_pos c24]; subst c24
    rcases l with _ | ⟨a, _ | ⟨b, _ | ⟨c, l⟩⟩⟩ <;> first | exact H_24 () | exact H_47 _ _
  rw [dif_neg c24]
  by_cases c25 : x = "F32"
  · rw [dif_pos c25]; subst c25
    rcases l with _ | ⟨a, _ | ⟨b, _ | ⟨c, l⟩⟩⟩ <;> first | exact H_25 () | exact H_47 _ _
  rw [dif_neg c25]
  by_cases c26 : x = "Float32"
  · rw [dif_pos c26]; subst c26
    rcases l with _ | ⟨a, _ | ⟨b, _ | ⟨c, l⟩⟩⟩ <;> first | exact H_26 () | exact H_47 _ _
  rw [dif_neg c26]
  by_cases c27 : x = "F64"
  · rw [dif_pos c27]; subst c27
    rcases l with _ | ⟨a, _ | ⟨b, _ | ⟨c, l⟩⟩⟩ <;> first | exact H_27 () | exact H_47 _ _
  rw [dif_neg c27]
  by_cases c28 : x = "Float64"
  · rw [dif_pos c28]; subst c28
    rcases l with _ | ⟨a, _ | ⟨b, _ | ⟨c, l⟩⟩⟩ <;> first | exact H_28 () | exact H_47 _ _
  rw [dif_neg c28]
  by_cases c29 : x = "Date32"
  · rw [dif_pos c29]; subst c29
    rcases l with _ | ⟨a, _ | ⟨b, _ | ⟨c, l⟩⟩⟩ <;> first | exact H_29 () | exact H_47 _ _
  rw [dif_neg c29]
  by_cases c30 : x = "Date64"
  · rw [dif_pos c30]; subst c30
    rcases l with _ | ⟨a, _ | ⟨b, _ | ⟨c, l⟩⟩⟩ <;> first | exact H_30 () | exact H_47 _ _
  rw [dif_neg c30]
  by_cases c31 : x = "Binary"
  · rw [dif_pos c31]; subst c31
    rcases l with _ | ⟨a, _ | ⟨b, _ | ⟨c, l⟩⟩⟩ <;> first | exact H_31 () | exact H_47 _ _
  rw [dif_neg c31]
  by_cases c32 : x = "LargeBinary"
  · rw [dif_pos c32]; subst c32
    rcases l with _ | ⟨a, _ | ⟨b, _ | ⟨c, l⟩⟩⟩ <;> first | exact H_32 () | exact H_47 _ _
  rw [dif_neg c32]
  by_cases c33 : x = "FixedSizeBinary"
  · rw [dif_pos c33]; subst c33
    rcases l with _ | ⟨a, _ | ⟨b, _ | ⟨c, l⟩⟩⟩ <;> first | exact H_33 _ | exact H_47 _ _
  rw [dif_neg c33]
  by_cases c34 : x = "BinaryView"
  · rw [dif_pos c34]; subst c34
    rcases l with _ | ⟨a, _ | ⟨b, _ | ⟨c, l⟩⟩⟩ <;> first | exact H_34 () | exact H_47 _ _
  rw [dif_neg c34]
  by_cases c35 : x = "Timestamp"
  · rw [dif_pos c35]; subst c35
    rcases l with _ | ⟨a, _ | ⟨b, _ | ⟨c, l⟩⟩⟩ <;> first | exact H_35 _ _ | exact H_47 _ _
  rw [dif_neg c35]
  by_cases c36 : x = "Time32"
  · rw [dif_pos c36]; subst c36
    rcases l with _ | ⟨a, _ | ⟨b, _ | ⟨c, l⟩⟩⟩ <;> first | exact H_36 _ | exact H_47 _ _
  rw [dif_neg c36]
  by_cases c37 : x = "Time64"
  · rw [dif_pos c37]; subst c37
    rcases l with _ | ⟨a, _ | ⟨b, _ | ⟨c, l⟩⟩⟩ <;> first | exact H_37 _ | exact H_47 _ _
  rw [dif_neg c37]
  by_cases c38 : x = "Duration"
  · rw [dif_pos c38]; subst c38
    rcases l with _ | ⟨a, _ | ⟨b, _ | ⟨c, l⟩⟩⟩ <;> first | exact H_38 _ | exact H_47 _ _
  rw [dif_neg c38]
  by_cases c39 : x = "Decimal128"
  · rw [dif_pos c39]; subst c39
    rcases l with _ | ⟨a, _ | ⟨b, _ | ⟨c, l⟩⟩⟩ <;> first | exact H_39 _ _ | exact H_47 _ _
  rw [dif_neg c39]
  by_cases c40 : x = "Struct"
  · rw [dif_pos c40]; subst c40
    rcases l with _ | ⟨a, _ | ⟨b, _ | ⟨c, l⟩⟩⟩ <;> first | exact H_40 () | exact H_47 _ _
  rw [dif_neg c40]
  by_cases c41 : x = "List"
  · rw [dif_pos c41]; subst c41
    rcases l with _ | ⟨a, _ | ⟨b, _ | ⟨c, l⟩⟩⟩ <;> first | exact H_41 () | exact H_47 _ _
  rw [dif_neg c41]
  by_cases c42 : x = "LargeList"
  · rw [dif_pos c42]; subst c42
    rcases l with _ | ⟨a, _ | ⟨b, _ | ⟨c, l⟩⟩⟩ <;> first | exact H_42 () | exact H_47 _ _
  rw [dif_neg c42]
  by_cases c43 : x = "FixedSizeList"
  · rw [dif_pos c43]; subst c43
    rcases l with _ | ⟨a, _ | ⟨b, _ | ⟨c, l⟩⟩⟩ <;> first | exact H_43 _ | exact H_47 _ _
  rw [dif_neg c43]
  by_cases c44 : x = "Dictionary"
  · rw [dif_pos c44]; subst c44
    rcases l with _ | ⟨a, _ | ⟨b, _ | ⟨c, l⟩⟩⟩ <;> first | exact H_44 () | exact H_47 _ _
  rw [dif_neg c44]
  by_cases c45 : x = "Map"
  · rw [dif_pos c45]; subst c45
    rcases l with _ | ⟨a, _ | ⟨b, _ | ⟨c, l⟩⟩⟩ <;> first | exact H_45 () | exact H_47 _ _
  rw [dif_neg c45]
  by_cases c46 : x = "Union"
  · rw [dif_pos c46]; subst c46
    rcases l with _ | ⟨a, _ | ⟨b, _ | ⟨c, l⟩⟩⟩ <;> first | exact H_46 () | exact H_47 _ _
  rw [dif_neg c46]
  exact H_47 _ _


theorem buildDataTypeOfTerm_np (t : Term) (children : List Field) : (buildDataTypeOfTerm t children).isPanic = false := by
  unfold buildDataTypeOfTerm
  apply bind_no_panic
  · exact asCall_np t
  · intro v
    obtain ⟨name, args⟩ := v
    apply buildDataTypeOfTerm_match_np
    all_goals first
      | (intros; exact np_pure _)
      | (intros; exact np_fail _)
      | (intros; split <;> first | exact np_pure _ | exact np_fail _)
      | (intros; exact bind_no_panic _ _ (unionChildren_np _ _) (fun _ => rfl))
      | (intros; exact bind_no_panic _ _ (asIdent_np _) fun _ => bind_no_panic _ _ (parseI32_np _) fun _ => rfl)
      | (intros; exact bind_no_panic _ _ (asIdent_np _) fun _ => bind_no_panic _ _ (parseUnit_np _) fun _ => rfl)
      | skip
    · intro a b
      refine bind_no_panic _ _ (asIdent_np _) fun _ => bind_no_panic _ _ (parseUnit_np _) fun _ =>
        bind_no_panic _ _ (asOption_np _) fun o => ?_
      split
      · rfl
      · exact bind_no_panic _ _ (asString_np _) fun _ => rfl
    · intro a b
      exact bind_no_panic _ _ (asIdent_np _) fun _ => bind_no_panic _ _ (parseU8_np _) fun _ =>
        bind_no_panic _ _ (asIdent_np _) fun _ => bind_no_panic _ _ (parseI8_np _) fun _ => rfl
    · intro a
      split
      · exact bind_no_panic _ _ (asIdent_np _) fun _ => bind_no_panic _ _ (parseI32_np _) fun _ => rfl
      · rfl

theorem buildDataTypeWith_np (pinned : Bool) (dataType : Text) (children : List Field) :
    (buildDataTypeWith pinned dataType children).isPanic = false :=
  bind_no_panic _ _ (fromStrWith_np _ _) fun _ => buildDataTypeOfTerm_np _ _

end SaModel.Lemmas.C16
