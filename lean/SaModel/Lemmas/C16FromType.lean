import SaModel.Lemmas.C16Schema
/-
C16, `from_type`: the pass budget and the depth limit.

* `fromTypeLoopN` is `fromTypeLoop` instrumented with the number of `explore` passes it performs; the count never
  exceeds the budget and the result is the one of `fromTypeLoop` (`fromTypeLoopN_fst`, `fromTypeLoopN_le`).
* a successful loop ends in a complete tracer reached by `k ≤ budget` passes (`fromTypeLoop_ok`).
* a `Vec<Vec<…>>` nested deeper than `MAX_TYPE_DEPTH` is refused with "Too deeply nested type detected" in the FIRST
  pass (`explore_deep_vec`); the depth limit for every container family is in `C16Depth.lean`.
-/
namespace SaModel.Lemmas.C16
open SaModel SaModel.Trace

/-- `fromTypeLoop` together with the number of passes (`explore` calls) it performs -/
def fromTypeLoopN (c : Code) (o : Options) (ty : Ty) : Nat → Tracer → R Tracer × Nat
  | budget, t =>
    if t.is_complete then (.ok t, 0)
    else match budget with
      | 0 => (fail "Could not determine schema from the type after {budget} iterations", 0)
      | b + 1 =>
        match explore c o t ty with
        | .ok t1 => ((fromTypeLoopN c o ty b t1).1, (fromTypeLoopN c o ty b t1).2 + 1)
        | .error e => (.error e, 1)

theorem fromTypeLoopN_fst (c : Code) (o : Options) (ty : Ty) : ∀ (budget : Nat) (t : Tracer),
    (fromTypeLoopN c o ty budget t).1 = fromTypeLoop c o ty budget t
  | 0, t => by unfold fromTypeLoopN fromTypeLoop; split <;> rfl
  | b + 1, t => by
    unfold fromTypeLoopN fromTypeLoop
    split
    · rfl
    · simp only []
      cases h : explore c o t ty with
      | ok t1 => simp only [bind, Except.bind]; exact fromTypeLoopN_fst c o ty b t1
      | error e => rfl

/-- the loop performs at most `budget` passes -/
theorem fromTypeLoopN_le (c : Code) (o : Options) (ty : Ty) : ∀ (budget : Nat) (t : Tracer),
    (fromTypeLoopN c o ty budget t).2 ≤ budget
  | 0, t => by unfold fromTypeLoopN; split <;> simp
  | b + 1, t => by
    unfold fromTypeLoopN
    split
    · simp
    · simp only []
      cases h : explore c o t ty with
      | ok t1 => simp only []; have := fromTypeLoopN_le c o ty b t1; omega
      | error e => simp

/-- exactly `k` passes -/
def passes (c : Code) (o : Options) (ty : Ty) : Nat → Tracer → R Tracer
  | 0, t => .ok t
  | k + 1, t => do
    let t ← explore c o t ty
    passes c o ty k t

/-- a successful loop stops at a complete tracer after `k ≤ budget` passes -/
theorem fromTypeLoop_ok (c : Code) (o : Options) (ty : Ty) : ∀ (budget : Nat) (t t' : Tracer),
    fromTypeLoop c o ty budget t = .ok t' → t'.is_complete = true ∧ ∃ k, k ≤ budget ∧ passes c o ty k t = .ok t'
  | 0, t, t', h => by
    unfold fromTypeLoop at h
    split at h
    · cases h; rename_i hc; exact ⟨hc, 0, Nat.le_refl _, rfl⟩
    · simp [fail] at h
  | b + 1, t, t', h => by
    unfold fromTypeLoop at h
    split at h
    · cases h; rename_i hc; exact ⟨hc, 0, Nat.zero_le _, rfl⟩
    · simp only [] at h
      obtain ⟨t1, h1, h2⟩ := bind_eq_ok h
      obtain ⟨hc, k, hk, hp⟩ := fromTypeLoop_ok c o ty b t1 t' h2
      refine ⟨hc, k + 1, by omega, ?_⟩
      simp only [passes, h1, bind, Except.bind]; exact hp

/-- if no run of at most `budget` passes reaches a complete tracer the loop does not succeed -/
theorem fromTypeLoop_exhausted (c : Code) (o : Options) (ty : Ty) (budget : Nat) (t : Tracer)
    (h : ∀ k, k ≤ budget → ∀ t', passes c o ty k t = .ok t' → t'.is_complete = false) :
    ∀ t', fromTypeLoop c o ty budget t ≠ .ok t' := by
  intro t' ht
  obtain ⟨hc, k, hk, hp⟩ := fromTypeLoop_ok c o ty budget t t' ht
  rw [h k hk t' hp] at hc; cases hc

/-! ### the depth limit -/

theorem countDots_append (p q : String) : countDots (p ++ q) = countDots p + countDots q := by
  simp [countDots, String.toList_append, List.filter_append]

theorem countDots_element (p : String) : countDots (p ++ ".element") = countDots p + 1 := by
  rw [countDots_append]; rfl

/-- `k` nested `Vec`s around `ty` -/
def nestVec : Nat → Ty → Ty
  | 0, ty => ty
  | k + 1, ty => .vec (nestVec k ty)

/-- exploring a type nested deeper than the limit from an unknown tracer is the documented error -/
theorem explore_deep_vec (c : Code) (o : Options) (ty : Ty) : ∀ (k : Nat) (n p : String) (nl : Bool),
    countDots p ≤ MAX_TYPE_DEPTH → MAX_TYPE_DEPTH + 1 ≤ k + countDots p →
    explore c o (.unknown n p nl) (nestVec k ty) = fail "Too deeply nested type detected"
  | 0, n, p, nl, h1, h2 => by omega
  | k + 1, n, p, nl, h1, h2 => by
    simp only [nestVec, explore]
    by_cases hd : countDots p ≥ MAX_TYPE_DEPTH
    · simp [Tracer.ensure_list, Tracer.enforce_depth_limit, Tracer.get_depth, Tracer.path, hd, bind, Except.bind, fail]
    · have hlist : Tracer.ensure_list (.unknown n p nl) =
          .ok (.list n p nl (Tracer.new "element" (p ++ ".element"))) := by
        simp [Tracer.ensure_list, Tracer.enforce_depth_limit, Tracer.get_depth, Tracer.path, hd, bind, Except.bind,
          Tracer.is_unknown_or_null, Tracer.name, Tracer.nullable]
      rw [hlist]
      simp only [bind, Except.bind, Tracer.new]
      rw [explore_deep_vec c o ty k "element" (p ++ ".element") false
        (by rw [countDots_element]; omega) (by rw [countDots_element]; omega)]
      rfl

theorem countDots_root : countDots "$" = 0 := by decide

end SaModel.Lemmas.C16
