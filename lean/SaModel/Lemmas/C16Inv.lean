import SaModel.Lemmas.C01New
import SaModel.Lemmas.C10TakePush
import SaModel.Lemmas.C16Basic
/-
C16: the (weak) state invariant under which `push` cannot unwind.

`NPInv b`: in every struct builder of the tree `seen` and the name cache have one entry per field, and in every
union builder there is one `current_offset` counter per variant.  These are exactly the vectors the Rust code
indexes without a check (`self.seen[idx]`, `self.fields[idx]`, `self.lookup.cached_names[idx]`,
`self.current_offset[variant_index]`); and every Decimal128 leaf has a precision in 1..38 (`KindOK`: the only
precisions `build_builder` accepts, so the decimal parser is never asked for a wider one).  Nothing about row
counts, offsets or bitmaps is needed.

* established by `build_builder`: `newDT … = ok b → NPInv b`
* a function of what `take` leaves behind (`NPInv (takeRest b) ↔ NPInv b`), hence preserved by EVERY successful
  push of EVERY serde value (`push_takeRest` needs no hypothesis on the value or the state).
-/
namespace SaModel.Lemmas.C16
open SaModel SaModel.Build

/-- the decimal parser is only ever created for precisions the builder constructor accepts -/
def KindOK : LeafKind → Prop
  | .decimal p _ => 1 ≤ p ∧ p ≤ 38
  | _ => True

mutual
def NPInv : B → Prop
  | .leaf _ k _ _ => KindOK k
  | .list _ _ _ _ _ el => NPInv el
  | .fixedSizeList _ _ _ _ _ _ el => NPInv el
  | .map _ _ _ _ ks vs => NPInv ks ∧ NPInv vs
  | .struct _ _ _ fs cached _ seen => seen.length = fs.length ∧ cached.length = fs.length ∧ NPInvL fs
  | .dictionary _ idx vals _ => NPInv idx ∧ NPInv vals
  | .union _ fs _ _ cur => cur.length = fs.length ∧ NPInvL fs
  | _ => True
def NPInvL : BL → Prop
  | .nil => True
  | .cons b _ r => NPInv b ∧ NPInvL r
end

theorem takeRestAll_length : ∀ (fs : BL), (takeRestAll fs).length = fs.length
  | .nil => rfl
  | .cons _ _ r => by simp [takeRestAll, BL.length, takeRestAll_length r]

mutual
theorem NPInv_takeRest : ∀ (b : B), NPInv (takeRest b) ↔ NPInv b
  | .null _ _ => by simp [takeRest, NPInv]
  | .unknownVariant _ => by simp [takeRest, NPInv]
  | .leaf _ _ _ _ => by simp [takeRest, NPInv]
  | .bytes _ _ _ _ _ => by simp [takeRest, NPInv]
  | .bytesView _ _ _ _ _ => by simp [takeRest, NPInv]
  | .fixedSizeBinary _ _ _ _ _ _ => by simp [takeRest, NPInv]
  | .list _ _ _ _ _ el => by simp only [takeRest, NPInv]; exact NPInv_takeRest el
  | .fixedSizeList _ _ _ _ _ _ el => by simp only [takeRest, NPInv]; exact NPInv_takeRest el
  | .map _ _ _ _ ks vs => by simp only [takeRest, NPInv]; rw [NPInv_takeRest ks, NPInv_takeRest vs]
  | .struct _ _ _ fs _ _ _ => by
    simp only [takeRest, NPInv, List.length_replicate, takeRestAll_length]; rw [NPInvL_takeRest fs]
  | .dictionary _ idx vals _ => by simp only [takeRest, NPInv]; rw [NPInv_takeRest idx, NPInv_takeRest vals]
  | .union _ fs _ _ _ => by
    simp only [takeRest, NPInv, List.length_replicate, takeRestAll_length]; rw [NPInvL_takeRest fs]
theorem NPInvL_takeRest : ∀ (fs : BL), NPInvL (takeRestAll fs) ↔ NPInvL fs
  | .nil => by simp [takeRestAll, NPInvL]
  | .cons b _ r => by simp only [takeRestAll, NPInvL]; rw [NPInv_takeRest b, NPInvL_takeRest r]
end

theorem NPInv.of_takeRest {b b' : B} (h : takeRest b' = takeRest b) (hb : NPInv b) : NPInv b' :=
  (NPInv_takeRest b').1 (h ▸ (NPInv_takeRest b).2 hb)

theorem NPInvL.of_takeRest {fs fs' : BL} (h : takeRestAll fs' = takeRestAll fs) (hb : NPInvL fs) : NPInvL fs' :=
  (NPInvL_takeRest fs').1 (h ▸ (NPInvL_takeRest fs).2 hb)

theorem NPInvL.get : ∀ {fs : BL} {i : Nat} {c : B} {m : FieldMeta}, NPInvL fs → fs.get? i = some (c, m) → NPInv c
  | .nil, _, _, _, _, h => by simp [BL.get?] at h
  | .cons b _ r, 0, c, m, hl, h => by
    simp only [BL.get?, Option.some.injEq, Prod.mk.injEq] at h
    obtain ⟨rfl, _⟩ := h
    exact hl.1
  | .cons b _ r, i + 1, c, m, hl, h => by
    simp only [BL.get?] at h
    exact NPInvL.get hl.2 h

/-! ### `build_builder` establishes it -/

theorem newDT_npInv_all :
    (∀ (path : String) (dt : DataType) (nl : Bool) (md : Metadata), ∀ b, newDT path dt nl md = .ok b → NPInv b) ∧
    (∀ (path : String) (ufs : UFields) (k : Nat), ∀ bl, newUnionFields path ufs k = .ok bl → NPInvL bl) ∧
    (∀ (path : String) (f : Field), ∀ b, newB path f = .ok b → NPInv b) ∧
    (∀ (path : String) (fs : Fields), ∀ bl, newFields path fs = .ok bl → NPInvL bl) := by
  apply newDT.mutual_induct
    (motive_1 := fun path dt nl md => ∀ b, newDT path dt nl md = .ok b → NPInv b)
    (motive_2 := fun path ufs k => ∀ bl, newUnionFields path ufs k = .ok bl → NPInvL bl)
    (motive_3 := fun path f => ∀ b, newB path f = .ok b → NPInv b)
    (motive_4 := fun path fs => ∀ bl, newFields path fs = .ok bl → NPInvL bl)
  all_goals try (
    intros
    rename_i h
    simp only [newDT, bind, Except.bind, pure, Except.pure, ctx, fail, *, if_true, if_false] at h
    try (cases h)
    simp [NPInv, KindOK, *]
    done)
  all_goals try (
    intros
    rename_i h
    simp [newDT, newFields, newUnionFields, ctx, fail, *] at h
    done)
  case case17 =>
    intro path u tz nl md b h
    simp only [newDT, bind, Except.bind] at h
    cases hu : isUtcTz tz with
    | error e => rw [hu] at h; cases h
    | ok utc => rw [hu] at h; cases h; simp [NPInv, KindOK]
  case case33 =>
    intro path child nl md ih b h
    simp only [newDT] at h
    obtain ⟨el, hc, h⟩ := (bind_ok _ _ _).1 h
    cases h
    simp only [NPInv]; exact ih el hc
  case case34 =>
    intro path child nl md ih b h
    simp only [newDT] at h
    obtain ⟨el, hc, h⟩ := (bind_ok _ _ _).1 h
    cases h
    simp only [NPInv]; exact ih el hc
  case case36 =>
    intro path child n nl md hn ih b h
    simp only [newDT, hn, if_false] at h
    obtain ⟨el, hc, h⟩ := (bind_ok _ _ _).1 h
    cases h
    simp only [NPInv]; exact ih el hc
  case case38 =>
    intro path ename kf vf emd sorted nl md ihk ihv b h
    simp only [newDT] at h
    obtain ⟨kb, hk, h⟩ := (bind_ok _ _ _).1 h
    obtain ⟨vb, hv, h⟩ := (bind_ok _ _ _).1 h
    cases h
    simp only [NPInv]; exact ⟨ihk kb hk, ihv vb hv⟩
  case case43 =>
    intro path fs nl md ih b h
    simp only [newDT] at h
    obtain ⟨bl, hf, h⟩ := (bind_ok _ _ _).1 h
    simp only [mkStruct] at h
    split at h
    · cases h
    · cases h; simp only [NPInv, List.length_replicate]; exact ⟨trivial, trivial, ih bl hf⟩
  case case44 =>
    intro path k v nl md hint ihk ihv b h
    simp only [newDT, hint, if_true] at h
    obtain ⟨kb, hk, h⟩ := (bind_ok _ _ _).1 h
    obtain ⟨vb, hv, h⟩ := (bind_ok _ _ _).1 h
    cases h
    simp only [NPInv]; exact ⟨ihk kb hk, ihv vb hv⟩
  case case46 =>
    intro path fs nl md ih b h
    simp only [newDT] at h
    obtain ⟨bl, hf, h⟩ := (bind_ok _ _ _).1 h
    cases h
    simp only [NPInv, List.length_replicate]; exact ⟨trivial, ih bl hf⟩
  case case50 =>
    intro path name dt nl md ih b h
    simp only [newB] at h
    exact ih b h
  case case51 =>
    intro path bl h
    simp only [newFields] at h; cases h; trivial
  case case52 =>
    intro path f rest ihf ihr bl h
    simp only [newFields] at h
    obtain ⟨b, hb, h⟩ := (bind_ok _ _ _).1 h
    obtain ⟨r, hr, h⟩ := (bind_ok _ _ _).1 h
    cases h
    simp only [NPInvL]; exact ⟨ihf b hb, ihr r hr⟩
  case case53 =>
    intro path k bl h
    simp only [newUnionFields] at h; cases h; trivial
  case case55 =>
    intro path tid f rest idx hne ihf ihr bl h
    simp only [newUnionFields, hne] at h
    obtain ⟨b, hb, h⟩ := (bind_ok _ _ _).1 h
    obtain ⟨r, hr, h⟩ := (bind_ok _ _ _).1 h
    cases h
    simp only [NPInvL]; exact ⟨ihf b hb, ihr r hr⟩

theorem newDT_npInv {path : String} {dt : DataType} {nullable : Bool} {md : Metadata} {b : B}
    (h : newDT path dt nullable md = .ok b) : NPInv b := newDT_npInv_all.1 path dt nullable md b h

theorem newRoot_npInv {fields : List Field} {root : B} (h : newRoot fields = .ok root) : NPInv root := by
  simp only [newRoot] at h
  obtain ⟨bl, hf, h⟩ := (bind_ok _ _ _).1 h
  simp only [mkStruct] at h
  split at h
  · cases h
  · cases h; simp only [NPInv, List.length_replicate]; exact ⟨trivial, trivial, newDT_npInv_all.2.2.2 "$" _ bl hf⟩

/-! ### every successful push preserves it (any value, any state) -/

theorem push_npInv (ext : Ext) (x : SVal) {b b' : B} (hb : NPInv b) (h : push ext b x = .ok b') : NPInv b' :=
  NPInv.of_takeRest (push_takeRest ext x b b' h) hb

/-! ### the open struct state -/

/-- the invariant on the mutable struct state while a record is being written -/
def SInv (s : SS) : Prop := s.seen.length = s.fields.length ∧ s.cached.length = s.fields.length ∧ NPInvL s.fields

theorem SInv.of_skel {s s' : SS} (h : SSkel s' s) (hs : SInv s) : SInv s' := by
  obtain ⟨_, _, h3, h4, h5⟩ := h
  have hl : s'.fields.length = s.fields.length := by
    rw [← takeRestAll_length s'.fields, h3, takeRestAll_length]
  exact ⟨by rw [h5, hl]; exact hs.1, by rw [h4, hl]; exact hs.2.1, NPInvL.of_takeRest h3 hs.2.2⟩

theorem SInv.next {s : SS} (hs : SInv s) (n : Nat) : SInv { s with next := n } := hs

theorem SInv.toB {s : SS} (hs : SInv s) : NPInv s.toB := by
  simp only [SS.toB, NPInv]; exact hs

end SaModel.Lemmas.C16
