import SaModel.Lemmas.C16Inv
/-
C16: `build_builder` (`newDT`, `newRoot`) never unwinds, for any data type / field list (it returns an error for
the types it does not support).
-/
namespace SaModel.Lemmas.C16
open SaModel SaModel.Build

theorem isUtcTz_np (tz : Option String) : (isUtcTz tz).isPanic = false := by
  unfold isUtcTz; split
  · rfl
  · split <;> rfl

theorem mkStruct_np (path : String) (bl : BL) (n : Bool) : (mkStruct path bl n).isPanic = false := by
  unfold mkStruct; split <;> rfl

theorem newDT_np_all :
    (∀ (path : String) (dt : DataType) (nl : Bool) (md : Metadata), (newDT path dt nl md).isPanic = false) ∧
    (∀ (path : String) (ufs : UFields) (k : Nat), (newUnionFields path ufs k).isPanic = false) ∧
    (∀ (path : String) (f : Field), (newB path f).isPanic = false) ∧
    (∀ (path : String) (fs : Fields), (newFields path fs).isPanic = false) := by
  apply newDT.mutual_induct
    (motive_1 := fun path dt nl md => (newDT path dt nl md).isPanic = false)
    (motive_2 := fun path ufs k => (newUnionFields path ufs k).isPanic = false)
    (motive_3 := fun path f => (newB path f).isPanic = false)
    (motive_4 := fun path fs => (newFields path fs).isPanic = false)
  all_goals try (
    intros
    simp only [newDT, newFields, newUnionFields, newB, *, if_true, if_false]
    first
      | rfl
      | (rw [ctx_isPanic]; rfl)
      | (split <;> first | rfl | (rw [ctx_isPanic]; rfl))
    done)
  case case17 =>
    intro path u tz nl md
    simp only [newDT]
    exact bind_no_panic _ _ (isUtcTz_np tz) (fun _ => rfl)
  case case33 =>
    intro path child nl md ih
    simp only [newDT]
    exact bind_no_panic _ _ ih (fun _ => rfl)
  case case34 =>
    intro path child nl md ih
    simp only [newDT]
    exact bind_no_panic _ _ ih (fun _ => rfl)
  case case36 =>
    intro path child n nl md hn ih
    simp only [newDT, hn, if_false]
    exact bind_no_panic _ _ ih (fun _ => rfl)
  case case38 =>
    intro path ename kf vf emd sorted nl md ihk ihv
    simp only [newDT]
    exact bind_no_panic _ _ ihk (fun _ => bind_no_panic _ _ ihv (fun _ => rfl))
  case case43 =>
    intro path fs nl md ih
    simp only [newDT]
    exact bind_no_panic _ _ ih (fun _ => mkStruct_np _ _ _)
  case case44 =>
    intro path k v nl md hint ihk ihv
    simp only [newDT, hint, if_true]
    exact bind_no_panic _ _ ihk (fun _ => bind_no_panic _ _ ihv (fun _ => rfl))
  case case46 =>
    intro path fs nl md ih
    simp only [newDT]
    exact bind_no_panic _ _ ih (fun _ => rfl)
  case case50 =>
    intro path name dt nl md ih
    simp only [newB]
    exact ih
  case case52 =>
    intro path f rest ihf ihr
    simp only [newFields]
    exact bind_no_panic _ _ ihf (fun _ => bind_no_panic _ _ ihr (fun _ => rfl))
  case case55 =>
    intro path tid f rest idx hne ihf ihr
    simp only [newUnionFields, hne]
    exact bind_no_panic _ _ ihf (fun _ => bind_no_panic _ _ ihr (fun _ => rfl))

theorem newDT_np (path : String) (dt : DataType) (nl : Bool) (md : Metadata) : (newDT path dt nl md).isPanic = false :=
  newDT_np_all.1 path dt nl md

theorem newRoot_np (fields : List Field) : (newRoot fields).isPanic = false := by
  unfold newRoot
  exact bind_no_panic _ _ (newDT_np_all.2.2.2 _ _) (fun _ => mkStruct_np _ _ _)

end SaModel.Lemmas.C16
