import SaModel.Lemmas.C16Inv
import SaModel.Props.C11Front
/-
C16: `push` cannot unwind.  For EVERY serde value (malformed raw key/value streams, tuples longer or shorter than
the struct, wrong lengths, wrong kinds, variants out of range …) and every builder state satisfying `NPInv`
(Lemmas/C16Inv.lean), `push ext b x` is `ok` or an error value — one mutual structural recursion over the serde
value, all builder families.

The only hypothesis beside the invariant is `ExtNP ext`: the conversions taken from other models / crates
(chrono parsing, the decimal parser, the float → decimal product) do not unwind.  For the codec models of C14/C15
this is a theorem (`Props/C16.lean: codecExt_np`).
-/
namespace SaModel.Lemmas.C16
open SaModel SaModel.Build SaModel.Spec

/-- the external conversions never unwind (the decimal parser on the precisions a builder can have) -/
structure ExtNP (ext : Ext) : Prop where
  parseDate : ∀ is64 s, (ext.parseDate is64 s).isPanic = false
  parseTime : ∀ u s, (ext.parseTime u s).isPanic = false
  parseTimestamp : ∀ u utc s, (ext.parseTimestamp u utc s).isPanic = false
  parseDuration : ∀ u s, (ext.parseDuration u s).isPanic = false
  parseDecimal : ∀ p sc s, 1 ≤ p → p ≤ 38 → (ext.parseDecimal p sc s).isPanic = false
  floatToDecimal : ∀ p sc is64 bits, (ext.floatToDecimal p sc is64 bits).isPanic = false

/-! ### scalar calls -/

theorem tryInto_np (t : IntTy) (v : Int) : (tryInto t v).isPanic = false := by
  unfold tryInto; split <;> rfl

theorem convLeaf_np (ext : Ext) (he : ExtNP ext) (k : LeafKind) (hk : KindOK k) (x : SVal) :
    (convLeaf ext k x).isPanic = false := by
  unfold convLeaf
  split <;> first
    | rfl
    | exact tryInto_np _ _
    | exact he.parseDate _ _
    | exact he.parseTime _ _
    | exact he.parseTimestamp _ _ _
    | exact he.parseDuration _ _
    | exact he.parseDecimal _ _ _ hk.1 hk.2
    | exact he.floatToDecimal _ _ _ _
    | exact bind_no_panic _ _ (he.parseTime _ _) (fun _ => tryInto_np _ _)
    | (split <;> first | rfl | exact tryInto_np _ _)

theorem keyStr_np (x : SVal) : (keyStr x).isPanic = false := by
  fun_induction keyStr x <;> first | rfl | assumption

theorem u8Of_np (x : SVal) : (u8Of x).isPanic = false := by
  fun_induction u8Of x <;> first | rfl | assumption | (split <;> rfl)

theorem u8All_np : ∀ (xs : SVals), (u8All xs).isPanic = false
  | .nil => rfl
  | .cons v r => by
    simp only [u8All]
    exact bind_no_panic _ _ (u8Of_np v) (fun _ => bind_no_panic _ _ (u8All_np r) (fun _ => rfl))

theorem bytesValue_np (ext : Ext) (c : Bool) (x : SVal) :
    R.isPanic (if c then
        match scalarToString ext x with
        | some s => (.ok (strBytes s) : R Bytes)
        | none => notSupported s!"serialize_{x.kind}"
      else match x with
        | .bytes bs => .ok bs
        | _ => notSupported s!"serialize_{x.kind}") = false := by
  split
  · split <;> rfl
  · split <;> rfl

theorem viewPushValue_np (views : List Nat) (buf value : Bytes) : (viewPushValue views buf value).isPanic = false := by
  unfold viewPushValue
  split
  · rfl
  · split <;> rfl

theorem viewSeq_np (views : List Nat) (buf bytes : Bytes) : (viewSeq views buf bytes).isPanic = false := by
  unfold viewSeq
  split
  · rfl
  · split
    · rfl
    · split <;> rfl

theorem pushScalar_np (ext : Ext) (he : ExtNP ext) : ∀ (b : B) (x : SVal), NPInv b → (pushScalar ext b x).isPanic = false
  | .null _ _, x, _ => by unfold pushScalar; split <;> rfl
  | .unknownVariant _, x, _ => by unfold pushScalar; rfl
  | .leaf _ k _ _, x, h => by
    unfold pushScalar
    exact bind_no_panic _ _ (convLeaf_np ext he k h x)
      (fun _ => bind_no_panic _ _ (setValidity_no_panic _ _ _) (fun _ => rfl))
  | .bytes _ ty _ _ _, x, _ => by
    unfold pushScalar
    refine bind_no_panic _ _ (bytesValue_np ext _ x) (fun _ => ?_)
    refine bind_no_panic _ _ (setValidity_no_panic _ _ _) (fun _ => ?_)
    refine bind_no_panic _ _ (duplicateLast_no_panic _) (fun _ => ?_)
    exact bind_no_panic _ _ (incrementLast_no_panic _ _ _) (fun _ => rfl)
  | .bytesView _ ty _ _ _, x, _ => by
    unfold pushScalar
    refine bind_no_panic _ _ (bytesValue_np ext _ x) (fun _ => ?_)
    refine bind_no_panic _ _ (viewPushValue_np _ _ _) (fun _ => ?_)
    exact bind_no_panic _ _ (setValidity_no_panic _ _ _) (fun _ => rfl)
  | .fixedSizeBinary _ _ _ _ _ _, x, _ => by
    unfold pushScalar
    split
    · split
      · rfl
      · exact bind_no_panic _ _ (setValidity_no_panic _ _ _) (fun _ => rfl)
    · rfl
  | .dictionary _ idx vals index, x, h => by
    unfold pushScalar
    simp only []
    split
    · split
      · exact bind_no_panic _ _ ((ctx_isPanic _ _).trans (pushScalar_np ext he idx _ h.1)) (fun _ => rfl)
      · refine bind_no_panic _ _ ((ctx_isPanic _ _).trans (pushScalar_np ext he vals _ h.2)) (fun _ => ?_)
        exact bind_no_panic _ _ ((ctx_isPanic _ _).trans (pushScalar_np ext he idx _ h.1)) (fun _ => rfl)
    · rfl
  | .list _ _ _ _ _ _, x, _ => by unfold pushScalar; rfl
  | .fixedSizeList _ _ _ _ _ _ _, x, _ => by unfold pushScalar; rfl
  | .map _ _ _ _ _ _, x, _ => by unfold pushScalar; rfl
  | .struct _ _ _ _ _ _ _, x, _ => by unfold pushScalar; rfl
  | .union _ _ _ _ _, x, _ => by unfold pushScalar; rfl

theorem pushByteElems_np (ext : Ext) (he : ExtNP ext) (large : Bool) :
    ∀ (bs : Bytes) (el : B) (offs : List Int), NPInv el → (pushByteElems ext large el offs bs).isPanic = false
  | [], _, _, _ => rfl
  | x :: rest, el, offs, h => by
    simp only [pushByteElems]
    refine bind_no_panic _ _ (incrementLast_no_panic _ _ _) (fun offs' => ?_)
    refine bind_np (by rw [ctx_isPanic]; exact pushScalar_np ext he el _ h) (fun el' h' => ?_)
    exact pushByteElems_np ext he large rest el' offs'
      (NPInv.of_takeRest (pushScalar_takeRest ext el _ el' ((ctx_ok _ _ _).1 h')) h)

/-! ### struct rows -/

theorem endFields_np : ∀ (fs : BL) (seen : List Bool), seen.length = fs.length → (endFields fs seen).isPanic = false
  | .nil, _, _ => rfl
  | .cons b m rest, [], h => by simp [BL.length] at h
  | .cons b m rest, s :: sr, h => by
    have h' : sr.length = rest.length := by simpa [BL.length] using h
    simp only [endFields]
    split
    · exact bind_no_panic _ _ (endFields_np rest sr h') (fun _ => rfl)
    · split
      · rfl
      · exact bind_no_panic _ _ (pushNone_no_panic b)
          (fun _ => bind_no_panic _ _ (endFields_np rest sr h') (fun _ => rfl))

theorem finishRow_np {s : SS} (hs : SInv s) : s.finishRow.isPanic = false := by
  unfold SS.finishRow
  exact bind_no_panic _ _ (endFields_np _ _ hs.1) (fun _ => rfl)

theorem start_np (s : SS) : s.start.isPanic = false := by
  unfold SS.start
  exact bind_no_panic _ _ (setValidity_no_panic _ _ _) (fun _ => rfl)

/-- `element(idx, value)` with an index below the number of fields: both raw indexings are in range -/
theorem element_np {s : SS} {idx : Nat} {pc : B → R B} (hs : SInv s) (hi : idx < s.fields.length)
    (hpc : ∀ c m, s.fields.get? idx = some (c, m) → (pc c).isPanic = false) : (s.element idx pc).isPanic = false := by
  unfold SS.element
  split
  · rename_i hnone
    have : idx < s.seen.length := by rw [hs.1]; exact hi
    rw [List.getElem?_eq_none_iff] at hnone
    omega
  · rw [ctx_isPanic]; rfl
  · split
    · rename_i hnone
      obtain ⟨x, hx⟩ := BL.get?_of_lt s.fields idx hi
      rw [hx] at hnone; cases hnone
    · rename_i c m hget
      exact bind_no_panic _ _ (hpc c m hget) (fun _ => rfl)

/-- one record into a struct builder: `start`, the fields through `pf`, `end` -/
theorem record_np {p len v fs cached next seen} {pf : SS → R SS}
    (hinv : NPInv (.struct p len v fs cached next seen))
    (hpf : ∀ s, SInv s → (pf s).isPanic = false ∧ ∀ s', pf s = .ok s' → SInv s') :
    ((do
      let s ← SS.start ⟨p, len, v, fs, cached, next, seen⟩
      let s ← pf s
      let s ← s.finishRow
      pure s.toB) : R B).isPanic = false := by
  have h0 : SInv ⟨p, len, v, fs, cached, next, seen⟩ := hinv
  refine bind_np (start_np _) (fun s1 h1 => ?_)
  have hs1 : SInv s1 := SInv.of_skel (SS.start_skel h1) h0
  refine bind_np (hpf s1 hs1).1 (fun s2 h2 => ?_)
  exact bind_no_panic _ _ (finishRow_np ((hpf s1 hs1).2 s2 h2)) (fun _ => rfl)

theorem recordWith_np {pf : SS → R SS}
    (hpf : ∀ s, SInv s → (pf s).isPanic = false ∧ ∀ s', pf s = .ok s' → SInv s') :
    ∀ (b : B), NPInv b → (recordWith pf b).isPanic = false := by
  intro b hb
  cases b with
  | struct p len v fs cached next seen => simp only [recordWith]; exact record_np hb hpf
  | _ => rfl

/-! ### union rows -/

theorem serializeVariant_np {fs : BL} {types offs cur : List Int} (idx : Nat) (h : cur.length = fs.length) :
    (serializeVariant fs types offs cur idx).isPanic = false := by
  unfold serializeVariant
  split
  · rfl
  · rename_i c m hget
    split
    · rename_i hnone
      have := BL.get?_lt fs idx _ hget
      rw [List.getElem?_eq_none_iff] at hnone
      omega
    · split
      · rfl
      · split <;> rfl

theorem union_row_np {p fs types offs cur} {i : Nat} {pc : B → R B} (hinv : NPInv (.union p fs types offs cur))
    (hpc : ∀ c, NPInv c → (pc c).isPanic = false) :
    ((do
      let (c, types', offs', cur') ← serializeVariant fs types offs cur i
      let c' ← pc c
      pure (.union p (fs.set i c') types' offs' cur')) : R B).isPanic = false := by
  refine bind_np (serializeVariant_np i hinv.1) ?_
  intro r h1
  obtain ⟨m, co, hget, _⟩ := serializeVariant_ok h1
  obtain ⟨c, t', o', cu'⟩ := r
  exact bind_no_panic _ _ (hpc c (NPInvL.get hinv.2 hget)) (fun _ => rfl)

/-! ### map rows -/

theorem map_row_np {p mm v offs ks vs} {pm : List Int → B → B → R (List Int × B × B)}
    (hpm : ∀ o, (pm o ks vs).isPanic = false) :
    ((do
      let v' ← setValidity v (offs.length - 1) true
      let offs' ← duplicateLast offs
      let (offs'', ks', vs') ← pm offs' ks vs
      pure (.map p mm v' offs'' ks' vs')) : R B).isPanic = false := by
  refine bind_no_panic _ _ (setValidity_no_panic _ _ _) (fun _ => ?_)
  refine bind_no_panic _ _ (duplicateLast_no_panic _) (fun o => ?_)
  exact bind_no_panic _ _ (hpm o) (fun _ => rfl)

/-! ### sequences, tuples, tuple structs -/

theorem seqLikeWith_np {pe : Bool → B → List Int → R (B × List Int)} {pc : B → Nat → R (B × Nat)}
    {pt : SS → R SS} {bytes : R Bytes}
    (hpe : ∀ large el offs, NPInv el → (pe large el offs).isPanic = false)
    (hpc : ∀ el c, NPInv el → (pc el c).isPanic = false)
    (hpt : ∀ s, SInv s → (pt s).isPanic = false ∧ ∀ s', pt s = .ok s' → SInv s')
    (hbytes : bytes.isPanic = false) :
    ∀ (b : B) (k : SeqKind), NPInv b → (seqLikeWith pe pc pt bytes b k).isPanic = false := by
  intro b k hb
  cases b with
  | list p large fm v offs el =>
    simp only [seqLikeWith]
    refine bind_no_panic _ _ (setValidity_no_panic _ _ _) (fun _ => ?_)
    refine bind_no_panic _ _ (duplicateLast_no_panic _) (fun o => ?_)
    exact bind_no_panic _ _ (hpe large el o hb) (fun _ => rfl)
  | fixedSizeList p fm n len v cur el =>
    simp only [seqLikeWith]
    refine bind_no_panic _ _ (setValidity_no_panic _ _ _) (fun _ => ?_)
    refine bind_no_panic _ _ (hpc el 0 hb) (fun r => ?_)
    obtain ⟨el', cnt⟩ := r
    simp only []
    split <;> rfl
  | bytes p ty v offs data =>
    simp only [seqLikeWith]
    split
    · refine bind_no_panic _ _ (setValidity_no_panic _ _ _) (fun _ => ?_)
      refine bind_no_panic _ _ (duplicateLast_no_panic _) (fun o => ?_)
      refine bind_no_panic _ _ hbytes (fun bs => ?_)
      exact bind_no_panic _ _ (iter_no_panic _ (fun o => incrementLast_no_panic _ _ _) _ _) (fun _ => rfl)
    · rfl
  | bytesView p ty v views buf =>
    simp only [seqLikeWith]
    split
    · refine bind_no_panic _ _ (setValidity_no_panic _ _ _) (fun _ => ?_)
      refine bind_no_panic _ _ hbytes (fun bs => ?_)
      exact bind_no_panic _ _ (viewSeq_np _ _ _) (fun _ => rfl)
    · rfl
  | fixedSizeBinary p n len v buf cur =>
    simp only [seqLikeWith]
    refine bind_no_panic _ _ (setValidity_no_panic _ _ _) (fun _ => ?_)
    refine bind_no_panic _ _ hbytes (fun bs => ?_)
    split <;> rfl
  | struct p len v fs cached next seen =>
    cases k with
    | seq => rfl
    | tuple => simp only [seqLikeWith]; exact record_np hb hpt
    | tupleStruct => simp only [seqLikeWith]; exact record_np hb hpt
  | _ => rfl

/-! ### name lookup -/

theorem indexOfName_lt {names : List String} {key : String} {j : Nat} (h : indexOfName names key = some j) :
    j < names.length := by
  have := SaModel.Props.C11Front.indexOfName_some names key j h
  exact (List.getElem?_eq_some_iff.1 this).1

theorem lookup_lt {names : List String} {cached : List (Option (String × Nat))} {guess : Nat} {key : String × Nat}
    {idx : Nat} {c' : List (Option (String × Nat))} (hc : cached.length = names.length)
    (h : lookup names cached guess key = (some idx, c')) : idx < names.length := by
  unfold lookup at h
  split at h
  · rename_i hg
    simp only [Prod.mk.injEq, Option.some.injEq] at h
    rw [← h.1, ← hc]
    have hg' : cached[guess]? = some (some key) := by simpa using hg
    exact (List.getElem?_eq_some_iff.1 hg').1
  · split at h
    · simp at h
    · rename_i i hi
      simp only [Prod.mk.injEq, Option.some.injEq] at h
      rw [← h.1]
      exact indexOfName_lt hi

/-! ### the mutual recursion over the serde value -/

mutual
theorem push_np (ext : Ext) (he : ExtNP ext) : ∀ (x : SVal) (b : B), NPInv b → (push ext b x).isPanic = false
  | .some v, b, h => by rw [push]; exact push_np ext he v b h
  | .newtypeStruct _ v, b, h => by rw [push]; exact push_np ext he v b h
  | .none, b, _ => by rw [push]; exact pushNone_no_panic b
  | .unit, b, _ => by
    cases b with
    | unknownVariant p => simp only [push]; rw [ctx_isPanic]; rfl
    | _ => simp only [push]; exact pushNone_no_panic _
  | .seq xs, b, h => by
    rw [push, ctx_isPanic]
    exact seqLikeWith_np (fun large el offs hel => pushElems_np ext he xs large el offs hel)
      (fun el c hel => pushCountElems_np ext he xs el c hel)
      (fun s hs => ⟨pushTupleElems_np ext he xs s hs,
        fun s' h' => SInv.of_skel (pushTupleElems_takeRest ext xs s s' h') hs⟩) (u8All_np xs) b .seq h
  | .tuple xs, b, h => by
    rw [push, ctx_isPanic]
    exact seqLikeWith_np (fun large el offs hel => pushElems_np ext he xs large el offs hel)
      (fun el c hel => pushCountElems_np ext he xs el c hel)
      (fun s hs => ⟨pushTupleElems_np ext he xs s hs,
        fun s' h' => SInv.of_skel (pushTupleElems_takeRest ext xs s s' h') hs⟩) (u8All_np xs) b .tuple h
  | .tupleStruct _ xs, b, h => by
    rw [push, ctx_isPanic]
    exact seqLikeWith_np (fun large el offs hel => pushElems_np ext he xs large el offs hel)
      (fun el c hel => pushCountElems_np ext he xs el c hel)
      (fun s hs => ⟨pushTupleElems_np ext he xs s hs,
        fun s' h' => SInv.of_skel (pushTupleElems_takeRest ext xs s s' h') hs⟩) (u8All_np xs) b .tupleStruct h
  | .record _ fs, b, h => by
    rw [push, ctx_isPanic]
    exact recordWith_np (fun s hs => ⟨pushFields_np ext he fs s hs,
      fun s' h' => SInv.of_skel (pushFields_takeRest ext fs s s' h') hs⟩) b h
  | .map es, b, h => by
    cases b with
    | struct p len v fs cached next seen =>
      simp only [push]; rw [ctx_isPanic]
      exact record_np (pf := fun s => pushStructEntries ext { s with next := UNKNOWN_KEY } es) h
        (fun s hs => ⟨pushStructEntries_np ext he es _ (hs.next _),
          fun s' h' => SInv.of_skel ((pushStructEntries_takeRest ext es _ s' h').trans (SSkel.next s _)) hs⟩)
    | map p mm v offs ks vs =>
      simp only [push]; rw [ctx_isPanic]
      exact map_row_np (pm := fun offs ks vs => pushMapEntries ext offs ks vs es)
        (fun o => pushMapEntries_np ext he es o ks vs h.1 h.2)
    | _ => simp only [push]; rw [ctx_isPanic]; rfl
  | .mapRaw ops, b, h => by
    cases b with
    | struct p len v fs cached next seen =>
      simp only [push]; rw [ctx_isPanic]
      exact record_np (pf := fun s => pushStructOps ext { s with next := UNKNOWN_KEY } ops) h
        (fun s hs => ⟨pushStructOps_np ext he ops _ (hs.next _) (Or.inl rfl),
          fun s' h' => SInv.of_skel ((pushStructOps_takeRest ext ops _ s' h').trans (SSkel.next s _)) hs⟩)
    | map p mm v offs ks vs =>
      simp only [push]; rw [ctx_isPanic]
      exact map_row_np (pm := fun offs ks vs => pushMapOps ext false offs ks vs ops)
        (fun o => pushMapOps_np ext he ops false o ks vs h.1 h.2)
    | _ => simp only [push]; rw [ctx_isPanic]; rfl
  | .unitVariant n i vn, b, h => by
    cases b with
    | union p fs types offs cur =>
      simp only [push]; rw [ctx_isPanic]
      refine union_row_np (pc := fun c => match c with
          | .unknownVariant _ => ctx c.ann (fail "Unknown variant does not support serialize_unit")
          | _ => pushNone c) h ?_
      intro c _
      split
      · rw [ctx_isPanic]; rfl
      · exact pushNone_no_panic c
    | _ => simp only [push]; rw [ctx_isPanic]; exact pushScalar_np ext he _ _ h
  | .newtypeVariant _ i _ v, b, h => by
    cases b with
    | union p fs types offs cur =>
      simp only [push]; rw [ctx_isPanic]
      exact union_row_np (pc := fun c => push ext c v) h (fun c hc => push_np ext he v c hc)
    | bytes _ ty _ _ _ => simp only [push]; rw [ctx_isPanic]; split <;> rfl
    | bytesView _ ty _ _ _ => simp only [push]; rw [ctx_isPanic]; split <;> rfl
    | _ => simp only [push]; rw [ctx_isPanic]; rfl
  | .tupleVariant _ i _ xs, b, h => by
    cases b with
    | union p fs types offs cur =>
      simp only [push]; rw [ctx_isPanic]
      refine union_row_np (pc := fun c => ctx c.ann (seqLikeWith (fun large el offs => pushElems ext large el offs xs)
        (fun el c => pushCountElems ext el c xs) (fun s => pushTupleElems ext s xs) (u8All xs) c .tupleStruct)) h ?_
      intro c hc
      rw [ctx_isPanic]
      exact seqLikeWith_np (fun large el offs hel => pushElems_np ext he xs large el offs hel)
        (fun el c hel => pushCountElems_np ext he xs el c hel)
        (fun s hs => ⟨pushTupleElems_np ext he xs s hs,
          fun s' h' => SInv.of_skel (pushTupleElems_takeRest ext xs s s' h') hs⟩) (u8All_np xs) c .tupleStruct hc
    | bytes _ ty _ _ _ => simp only [push]; rw [ctx_isPanic]; split <;> rfl
    | bytesView _ ty _ _ _ => simp only [push]; rw [ctx_isPanic]; split <;> rfl
    | _ => simp only [push]; rw [ctx_isPanic]; rfl
  | .structVariant _ i _ fields, b, h => by
    cases b with
    | union p fs types offs cur =>
      simp only [push]; rw [ctx_isPanic]
      refine union_row_np (pc := fun c => ctx c.ann (recordWith (fun s => pushFields ext s fields) c)) h ?_
      intro c hc
      rw [ctx_isPanic]
      exact recordWith_np (fun s hs => ⟨pushFields_np ext he fields s hs,
        fun s' h' => SInv.of_skel (pushFields_takeRest ext fields s s' h') hs⟩) c hc
    | bytes _ ty _ _ _ => simp only [push]; rw [ctx_isPanic]; split <;> rfl
    | bytesView _ ty _ _ _ => simp only [push]; rw [ctx_isPanic]; split <;> rfl
    | _ => simp only [push]; rw [ctx_isPanic]; rfl
  | .bytes bs, b, h => by
    cases b with
    | list p large fm v offs el =>
      simp only [push]; rw [ctx_isPanic]
      refine bind_no_panic _ _ (setValidity_no_panic _ _ _) (fun _ => ?_)
      refine bind_no_panic _ _ (duplicateLast_no_panic _) (fun o => ?_)
      exact bind_no_panic _ _ (pushByteElems_np ext he large bs el o h) (fun _ => rfl)
    | _ => simp only [push]; rw [ctx_isPanic]; exact pushScalar_np ext he _ _ h
  | .bool x, b, h => by rw [push, ctx_isPanic]; exact pushScalar_np ext he b _ h
  | .int t x, b, h => by rw [push, ctx_isPanic]; exact pushScalar_np ext he b _ h
  | .f32 x, b, h => by rw [push, ctx_isPanic]; exact pushScalar_np ext he b _ h
  | .f64 x, b, h => by rw [push, ctx_isPanic]; exact pushScalar_np ext he b _ h
  | .char x, b, h => by rw [push, ctx_isPanic]; exact pushScalar_np ext he b _ h
  | .str x, b, h => by rw [push, ctx_isPanic]; exact pushScalar_np ext he b _ h
  | .unitStruct x, b, _ => by
    cases b with
    | unknownVariant p => simp only [push]; rw [ctx_isPanic]; rfl
    | _ => simp only [push]; exact pushNone_no_panic _

theorem pushElems_np (ext : Ext) (he : ExtNP ext) : ∀ (xs : SVals) (large : Bool) (el : B) (offs : List Int),
    NPInv el → (pushElems ext large el offs xs).isPanic = false
  | .nil, _, _, _, _ => by simp only [pushElems]; rfl
  | .cons x rest, large, el, offs, h => by
    simp only [pushElems]
    refine bind_no_panic _ _ (incrementLast_no_panic _ _ _) (fun offs' => ?_)
    refine bind_np (push_np ext he x el h) (fun el' h' => ?_)
    exact pushElems_np ext he rest large el' offs' (push_npInv ext x h h')

theorem pushCountElems_np (ext : Ext) (he : ExtNP ext) : ∀ (xs : SVals) (el : B) (c : Nat),
    NPInv el → (pushCountElems ext el c xs).isPanic = false
  | .nil, _, _, _ => by simp only [pushCountElems]; rfl
  | .cons x rest, el, c, h => by
    simp only [pushCountElems]
    refine bind_np (push_np ext he x el h) (fun el' h' => ?_)
    exact pushCountElems_np ext he rest el' (c + 1) (push_npInv ext x h h')

theorem pushTupleElems_np (ext : Ext) (he : ExtNP ext) : ∀ (xs : SVals) (s : SS),
    SInv s → (pushTupleElems ext s xs).isPanic = false
  | .nil, _, _ => by simp only [pushTupleElems]; rfl
  | .cons x rest, s, hs => by
    simp only [pushTupleElems]
    split
    · rename_i hlt
      refine bind_np (element_np hs hlt (fun c m hg => push_np ext he x c (NPInvL.get hs.2.2 hg))) (fun s' h' => ?_)
      exact pushTupleElems_np ext he rest s'
        (SInv.of_skel (SS.element_skel (fun c c' hc => push_takeRest ext x c c' hc) h') hs)
    · exact pushTupleElems_np ext he rest s hs

theorem pushFields_np (ext : Ext) (he : ExtNP ext) : ∀ (fs : SFields) (s : SS),
    SInv s → (pushFields ext s fs).isPanic = false
  | .nil, _, _ => by simp only [pushFields]; rfl
  | .cons key al x rest, s, hs => by
    simp only [pushFields]
    have hlen := lookup_length s.fields.names s.cached s.next (key, al)
    split
    · rename_i cached' heq
      rw [heq] at hlen
      have hs' : SInv { s with cached := cached' } := ⟨hs.1, (show cached'.length = s.cached.length from hlen).trans hs.2.1, hs.2.2⟩
      exact pushFields_np ext he rest _ hs'
    · rename_i idx cached' heq
      rw [heq] at hlen
      have hs' : SInv { s with cached := cached' } := ⟨hs.1, (show cached'.length = s.cached.length from hlen).trans hs.2.1, hs.2.2⟩
      have hlt : idx < s.fields.length := by
        have := lookup_lt (by rw [hs.2.1, BL.names_length]) heq
        rwa [BL.names_length] at this
      refine bind_np (element_np hs' hlt (fun c m hg => push_np ext he x c (NPInvL.get hs.2.2 hg))) (fun s' h' => ?_)
      exact pushFields_np ext he rest s'
        (SInv.of_skel (SS.element_skel (fun c c' hc => push_takeRest ext x c c' hc) h') hs')

theorem pushStructEntries_np (ext : Ext) (he : ExtNP ext) : ∀ (es : SEntries) (s : SS),
    SInv s → (pushStructEntries ext s es).isPanic = false
  | .nil, _, _ => by simp only [pushStructEntries]; rfl
  | .cons k x rest, s, hs => by
    simp only [pushStructEntries]
    refine bind_no_panic _ _ (keyStr_np k) (fun key => ?_)
    split
    · exact pushStructEntries_np ext he rest _ (hs.next _)
    · rename_i idx hidx
      have hlt : idx < s.fields.length := by
        have := indexOfName_lt hidx
        rwa [BL.names_length] at this
      refine bind_np (element_np hs hlt (fun c m hg => push_np ext he x c (NPInvL.get hs.2.2 hg))) (fun s' h' => ?_)
      exact pushStructEntries_np ext he rest _
        (SInv.next (SInv.of_skel (SS.element_skel (fun c c' hc => push_takeRest ext x c c' hc) h') hs) _)

/-- raw key / value call streams into a struct: `next` is either the "no key" marker or a field index, whatever
the order of the calls (value without key, two keys in a row, a trailing key …) -/
theorem pushStructOps_np (ext : Ext) (he : ExtNP ext) : ∀ (ops : SMapOps) (s : SS),
    SInv s → (s.next = UNKNOWN_KEY ∨ s.next < s.fields.length) → (pushStructOps ext s ops).isPanic = false
  | .nil, _, _, _ => by simp only [pushStructOps]; rfl
  | .key k rest, s, hs, _ => by
    simp only [pushStructOps]
    refine bind_no_panic _ _ (keyStr_np k) (fun key => ?_)
    refine pushStructOps_np ext he rest _ (hs.next _) ?_
    cases hi : indexOfName s.fields.names key with
    | none => exact Or.inl rfl
    | some j =>
      refine Or.inr ?_
      have := indexOfName_lt hi
      rw [BL.names_length] at this
      exact this
  | .value x rest, s, hs, hn => by
    simp only [pushStructOps]
    split
    · rename_i hne
      have hlt : s.next < s.fields.length := by
        rcases hn with hn | hn
        · rw [hn] at hne; simp at hne
        · exact hn
      refine bind_np (element_np hs hlt (fun c m hg => push_np ext he x c (NPInvL.get hs.2.2 hg))) (fun s' h' => ?_)
      exact pushStructOps_np ext he rest _
        (SInv.next (SInv.of_skel (SS.element_skel (fun c c' hc => push_takeRest ext x c c' hc) h') hs) _) (Or.inl rfl)
    · exact pushStructOps_np ext he rest _ (hs.next _) (Or.inl rfl)

theorem pushMapEntries_np (ext : Ext) (he : ExtNP ext) : ∀ (es : SEntries) (offs : List Int) (ks vs : B),
    NPInv ks → NPInv vs → (pushMapEntries ext offs ks vs es).isPanic = false
  | .nil, _, _, _, _, _ => by simp only [pushMapEntries]; rfl
  | .cons k x rest, offs, ks, vs, hk, hv => by
    simp only [pushMapEntries]
    refine bind_no_panic _ _ (incrementLast_no_panic _ _ _) (fun offs' => ?_)
    refine bind_np (push_np ext he k ks hk) (fun ks' hk' => ?_)
    refine bind_np (push_np ext he x vs hv) (fun vs' hv' => ?_)
    exact pushMapEntries_np ext he rest offs' ks' vs' (push_npInv ext k hk hk') (push_npInv ext x hv hv')

/-- raw key / value call streams into a map builder, in any order and from either state of `key_pending`
(the three refusals of a non-alternating stream are error values) -/
theorem pushMapOps_np (ext : Ext) (he : ExtNP ext) : ∀ (ops : SMapOps) (pd : Bool) (offs : List Int) (ks vs : B),
    NPInv ks → NPInv vs → (pushMapOps ext pd offs ks vs ops).isPanic = false
  | .nil, pd, _, _, _, _, _ => by simp only [pushMapOps]; split <;> rfl
  | .key k rest, pd, offs, ks, vs, hk, hv => by
    simp only [pushMapOps]
    split
    · rfl
    · refine bind_no_panic _ _ (incrementLast_no_panic _ _ _) (fun offs' => ?_)
      refine bind_np (push_np ext he k ks hk) (fun ks' hk' => ?_)
      exact pushMapOps_np ext he rest true offs' ks' vs (push_npInv ext k hk hk') hv
  | .value x rest, pd, offs, ks, vs, hk, hv => by
    simp only [pushMapOps]
    split
    · rfl
    · refine bind_np (push_np ext he x vs hv) (fun vs' hv' => ?_)
      exact pushMapOps_np ext he rest false offs ks vs' hk (push_npInv ext x hv hv')
end

end SaModel.Lemmas.C16
