import SaModel.Lemmas.C16Push
import SaModel.Lemmas.C16New
/-
C16: the front ends.  `into_array` (`finish`), `build_arrays`, `ArrayBuilder::extend`, the `Serializer`, a whole
history of pushes (`foldlM`), `runRows`, `to_marrow`: none of them unwinds, for every schema `newRoot` accepts and
every list of rows.
-/
namespace SaModel.Lemmas.C16
open SaModel SaModel.Build SaModel.Spec

mutual
theorem finish_np (ext : Ext) (he : ExtNP ext) : ∀ (b : B), NPInv b → (finish ext b).isPanic = false
  | .null _ _, _ => rfl
  | .unknownVariant _, _ => rfl
  | .leaf _ _ _ _, _ => rfl
  | .bytes _ _ _ _ _, _ => rfl
  | .bytesView _ _ _ _ _, _ => rfl
  | .fixedSizeBinary _ _ _ _ _ _, _ => by unfold finish; split <;> rfl
  | .list _ _ _ _ _ el, h => by
    unfold finish
    exact bind_no_panic _ _ (finish_np ext he el h) (fun _ => rfl)
  | .fixedSizeList _ _ _ _ _ _ el, h => by
    unfold finish
    split
    · rfl
    · exact bind_no_panic _ _ (finish_np ext he el h) (fun _ => rfl)
  | .map _ _ _ _ ks vs, h => by
    unfold finish
    refine bind_no_panic _ _ (finish_np ext he ks h.1) (fun _ => ?_)
    exact bind_no_panic _ _ (finish_np ext he vs h.2) (fun _ => rfl)
  | .struct _ _ _ fs _ _ _, h => by
    unfold finish
    exact bind_no_panic _ _ (finishFields_np ext he fs h.2.2) (fun _ => rfl)
  | .dictionary _ idx vals index, h => by
    unfold finish
    refine bind_no_panic _ _ (finish_np ext he idx h.1) (fun _ => ?_)
    refine bind_no_panic _ _ (finish_np ext he vals h.2) (fun _ => ?_)
    split
    · refine bind_no_panic _ _ ?_ (fun _ => rfl)
      rw [ctx_isPanic]; exact pushScalar_np ext he vals _ h.2
    · rfl
  | .union _ fs _ _ _, h => by
    unfold finish
    exact bind_no_panic _ _ (finishUFields_np ext he fs 0 h.2) (fun _ => rfl)
theorem finishFields_np (ext : Ext) (he : ExtNP ext) : ∀ (fs : BL), NPInvL fs → (finishFields ext fs).isPanic = false
  | .nil, _ => rfl
  | .cons b _ rest, h => by
    unfold finishFields
    refine bind_no_panic _ _ (finish_np ext he b h.1) (fun _ => ?_)
    exact bind_no_panic _ _ (finishFields_np ext he rest h.2) (fun _ => rfl)
theorem finishUFields_np (ext : Ext) (he : ExtNP ext) : ∀ (fs : BL) (idx : Nat), NPInvL fs →
    (finishUFields ext fs idx).isPanic = false
  | .nil, _, _ => rfl
  | .cons b _ rest, idx, h => by
    unfold finishUFields
    split
    · rfl
    · refine bind_no_panic _ _ (finish_np ext he b h.1) (fun _ => ?_)
      exact bind_no_panic _ _ (finishUFields_np ext he rest (idx + 1) h.2) (fun _ => rfl)
end

/-- a whole history of pushes: no step unwinds, and the invariant holds at the end -/
theorem foldlM_np (ext : Ext) (he : ExtNP ext) : ∀ (rows : List SVal) (root : B), NPInv root →
    (rows.foldlM (push ext) root).isPanic = false ∧ ∀ r', rows.foldlM (push ext) root = .ok r' → NPInv r'
  | [], root, h => by
    simp only [List.foldlM_nil]
    exact ⟨rfl, fun r' hr => by cases hr; exact h⟩
  | x :: rest, root, h => by
    simp only [List.foldlM_cons]
    refine ⟨bind_np (push_np ext he x root h) (fun r1 h1 => (foldlM_np ext he rest r1 (push_npInv ext x h h1)).1), ?_⟩
    intro r' hr
    obtain ⟨r1, h1, h2⟩ := (bind_ok _ _ _).1 hr
    exact (foldlM_np ext he rest r1 (push_npInv ext x h h1)).2 r' h2

theorem pushAll_np (ext : Ext) (he : ExtNP ext) : ∀ (xs : SVals) (root : B), NPInv root →
    (extend.pushAll ext root xs).isPanic = false
  | .nil, _, _ => rfl
  | .cons x rest, root, h => by
    simp only [extend.pushAll]
    exact bind_np (push_np ext he x root h) (fun r1 h1 => pushAll_np ext he rest r1 (push_npInv ext x h h1))

/-- `ArrayBuilder::extend` -/
theorem extend_np (ext : Ext) (he : ExtNP ext) (root : B) (h : NPInv root) (x : SVal) :
    (extend ext root x).isPanic = false := by
  fun_induction extend ext root x <;>
    first
    | assumption
    | exact pushAll_np ext he _ root h
    | exact pushNone_no_panic root
    | (rw [ctx_isPanic]; rfl)

/-- the `Serializer` front end -/
theorem serializeWith_np (ext : Ext) (he : ExtNP ext) (root : B) (h : NPInv root) (x : SVal) :
    (serializeWith ext root x).isPanic = false := by
  fun_induction serializeWith ext root x <;>
    first
    | assumption
    | exact pushAll_np ext he _ root h
    | rfl

/-- `build_arrays` on a struct root -/
theorem buildArrays_np (ext : Ext) (he : ExtNP ext) {p len v fs cached next seen}
    (h : NPInv (.struct p len v fs cached next seen)) :
    (buildArrays ext (.struct p len v fs cached next seen)).isPanic = false := by
  unfold buildArrays
  exact bind_no_panic _ _ (finishFields_np ext he fs h.2.2) (fun _ => rfl)

/-- the root stays a struct through every push (what `take` leaves behind never changes) -/
theorem root_is_struct {ext : Ext} {fields : List Field} {rows : List SVal} {r0 root : B}
    (h0 : newRoot fields = .ok r0) (h : rows.foldlM (push ext) r0 = .ok root) :
    ∃ p len v fs cached next seen, root = .struct p len v fs cached next seen := by
  have hr0 : ∃ p bl c s, r0 = .struct p 0 (newValidity false) bl c 0 s := by
    simp only [newRoot] at h0
    obtain ⟨bl, _, h0⟩ := (bind_ok _ _ _).1 h0
    unfold mkStruct at h0
    split at h0
    · simp [fail] at h0
    · cases h0; exact ⟨_, _, _, _, rfl⟩
  obtain ⟨p, bl, c, s, rfl⟩ := hr0
  have ht : ∀ (rows : List SVal) (a b : B), rows.foldlM (push ext) a = .ok b → takeRest b = takeRest a := by
    intro rows
    induction rows with
    | nil => intro a b hab; simp only [List.foldlM_nil] at hab; cases hab; rfl
    | cons x rest ih =>
      intro a b hab
      simp only [List.foldlM_cons] at hab
      obtain ⟨a1, h1, h2⟩ := (bind_ok _ _ _).1 hab
      rw [ih a1 b h2, push_takeRest ext x a a1 h1]
  have := ht rows _ root h
  cases root <;> simp [takeRest] at this
  exact ⟨_, _, _, _, _, _, _, rfl⟩

theorem runRows_np (ext : Ext) (he : ExtNP ext) (fields : List Field) (rows : List SVal) :
    (runRows ext fields rows).isPanic = false := by
  unfold runRows
  exact bind_np (newRoot_np fields) (fun r0 h0 => (foldlM_np ext he rows r0 (newRoot_npInv h0)).1)

/-- `to_marrow(fields, rows)`: builder construction, every push, and `build_arrays` -/
theorem toMarrow_np (ext : Ext) (he : ExtNP ext) (fields : List Field) (rows : List SVal) :
    (toMarrow ext fields rows).isPanic = false := by
  unfold toMarrow
  refine bind_np (newRoot_np fields) (fun r0 h0 => ?_)
  have hf := foldlM_np ext he rows r0 (newRoot_npInv h0)
  refine bind_np hf.1 (fun root h1 => ?_)
  obtain ⟨p, len, v, fs, cached, next, seen, rfl⟩ := root_is_struct h0 h1
  exact bind_no_panic _ _ (buildArrays_np ext he (hf.2 _ h1)) (fun _ => rfl)

end SaModel.Lemmas.C16
