import SaModel.Lemmas.C16Trace
/-
C16, tracing: `to_field` / `to_schema` / `check` never unwind (every failure is an error value), hence
`from_samples` as a whole does not, for every list of samples with variant indices below the model's allocation bound.
-/
namespace SaModel.Lemmas.C16
open SaModel SaModel.Trace

theorem withOverwrite_np (o : Options) (name path : String) (k : Unit → R Field) (hk : (k ()).isPanic = false) :
    (withOverwrite o name path k).isPanic = false := by
  unfold withOverwrite
  split
  · split <;> rfl
  · exact hk

mutual
theorem to_field_np (o : Options) : ∀ (t : Tracer), (t.to_field o).isPanic = false
  | .unknown n p nl => by
    unfold Tracer.to_field
    exact withOverwrite_np _ _ _ _ (ite_np rfl rfl)
  | .primitive n p nl ty st => by
    unfold Tracer.to_field
    refine withOverwrite_np _ _ _ _ ?_
    repeat' (first | rfl | refine ite_np ?_ ?_)
  | .list n p nl i => by
    unfold Tracer.to_field
    exact withOverwrite_np _ _ _ _ (bind_no_panic _ _ (to_field_np o i) (fun _ => rfl))
  | .map n p nl k v => by
    unfold Tracer.to_field
    exact withOverwrite_np _ _ _ _
      (bind_no_panic _ _ (to_field_np o k) (fun _ => bind_no_panic _ _ (to_field_np o v) (fun _ => rfl)))
  | .struct n p nl fs mode _ => by
    unfold Tracer.to_field
    refine withOverwrite_np _ _ _ _ (bind_no_panic _ _ (tfields_to_fields_np o fs) (fun _ => ?_))
    cases mode <;> rfl
  | .tuple n p nl ts => by
    unfold Tracer.to_field
    exact withOverwrite_np _ _ _ _ (bind_no_panic _ _ (tracers_to_fields_np o ts) (fun _ => rfl))
  | .union n p nl vs => by
    unfold Tracer.to_field
    refine withOverwrite_np _ _ _ _ (ite_np rfl (ite_np rfl ?_))
    exact bind_no_panic _ _ (variants_to_fields_np o vs 0) (fun _ => rfl)
theorem tracers_to_fields_np (o : Options) : ∀ (ts : Tracers), (ts.to_fields o).isPanic = false
  | .nil => rfl
  | .cons t r => by
    unfold Tracers.to_fields
    exact bind_no_panic _ _ (to_field_np o t) (fun _ => bind_no_panic _ _ (tracers_to_fields_np o r) (fun _ => rfl))
theorem tfields_to_fields_np (o : Options) : ∀ (fs : TFields), (fs.to_fields o).isPanic = false
  | .nil => rfl
  | .cons _ _ t r => by
    unfold TFields.to_fields
    exact bind_no_panic _ _ (to_field_np o t) (fun _ => bind_no_panic _ _ (tfields_to_fields_np o r) (fun _ => rfl))
theorem variants_to_fields_np (o : Options) : ∀ (vs : Variants) (idx : Nat), (vs.to_fields o idx).isPanic = false
  | .nil, _ => rfl
  | .absent r, idx => by
    unfold Variants.to_fields
    split
    · rfl
    · exact bind_no_panic _ _ (variants_to_fields_np o r (idx + 1)) (fun _ => rfl)
  | .present _ t r, idx => by
    unfold Variants.to_fields
    split
    · rfl
    · refine bind_no_panic _ _ (to_field_np o t) (fun _ => ?_)
      exact bind_no_panic _ _ (variants_to_fields_np o r (idx + 1)) (fun _ => rfl)
end

theorem to_schema_np (o : Options) (t : Tracer) : (t.to_schema o).isPanic = false := by
  unfold Tracer.to_schema
  refine bind_no_panic _ _ (to_field_np o t) (fun root => ?_)
  refine ite_np rfl ?_
  split <;> rfl

theorem check_np (o : Options) (t : Tracer) : (t.check o).isPanic = false := by
  unfold Tracer.check
  refine ite_np rfl ?_
  unfold Tracer.check_overwrites
  exact ite_np rfl rfl

theorem absorbAll_np (c : Code) (o : Options) : ∀ (xs : List SVal) (t : Tracer), (∀ x ∈ xs, idxOK x = true) →
    (absorbAll c o t xs).isPanic = false
  | [], _, _ => rfl
  | x :: xs, t, h => by
    simp only [absorbAll]
    exact bind_no_panic _ _ (absorb_np c o x t (h x (by simp)))
      (fun t' => absorbAll_np c o xs t' (fun y hy => h y (by simp [hy])))

theorem fromSamplesTracer_np (c : Code) (o : Options) (xs : List SVal) (h : ∀ x ∈ xs, idxOK x = true) :
    (fromSamplesTracer c o xs).isPanic = false := by
  unfold fromSamplesTracer
  refine bind_no_panic _ _ (absorbAll_np c o xs _ h) (fun t => ?_)
  refine bind_no_panic _ _ rfl (fun t' => ?_)
  exact bind_no_panic _ _ (check_np o t') (fun _ => rfl)

theorem fromSamples_np (c : Code) (o : Options) (xs : List SVal) (h : ∀ x ∈ xs, idxOK x = true) :
    (fromSamples c o xs).isPanic = false := by
  unfold fromSamples
  exact bind_no_panic _ _ (fromSamplesTracer_np c o xs h) (fun t => to_schema_np o t)

end SaModel.Lemmas.C16
