import SaModel.Codec.SchemaJson
import SaModel.Lemmas.C16Dsl
/-
C16, schema side: the serde / JSON form of schemas (`schema/serde/deserialize.rs`: `CustomField`, `into_field`,
`merge_strategy_with_metadata`, the two top-level forms; `schema/strategy.rs`; `validate_field` of `schema/mod.rs`;
the printer's only failure) never unwinds — for EVERY abstract JSON value and every field tree.
-/
namespace SaModel.Lemmas.C16
open SaModel SaModel.Dsl SaModel.SchemaJson

theorem strategyParse_np (s : String) : (Strategy.parse s).isPanic = false := by
  unfold Strategy.parse
  repeat' split
  all_goals rfl

theorem getStrategyFromMetadata_np (m : Metadata) : (getStrategyFromMetadata m).isPanic = false := by
  unfold getStrategyFromMetadata
  split
  · rfl
  · exact bind_no_panic _ _ (strategyParse_np _) fun _ => rfl

theorem noStrategy_np (m : Metadata) : (noStrategy m).isPanic = false := by
  unfold noStrategy
  refine bind_no_panic _ _ (getStrategyFromMetadata_np m) fun v => ?_
  split <;> rfl

mutual
theorem validateField_np : ∀ (f : Field), (validateField f).isPanic = false
  | .mk _ dt _ m => by unfold validateField; exact validateDataType_np m dt
theorem validateDataType_np (m : Metadata) : ∀ (dt : DataType), (validateDataType m dt).isPanic = false
  | .null => by
    unfold validateDataType
    refine bind_no_panic _ _ (getStrategyFromMetadata_np m) fun v => ?_
    split <;> rfl
  | .fixedSizeBinary n => by
    unfold validateDataType
    split
    · rfl
    · exact noStrategy_np m
  | .time32 u => by
    unfold validateDataType
    refine bind_no_panic _ _ (noStrategy_np m) fun _ => ?_
    split <;> rfl
  | .time64 u => by
    unfold validateDataType
    refine bind_no_panic _ _ (noStrategy_np m) fun _ => ?_
    split <;> rfl
  | .struct fs => by
    unfold validateDataType
    refine bind_no_panic _ _ (getStrategyFromMetadata_np m) fun v => ?_
    simp only []
    split <;> first | exact validateFields_np fs | rfl
  | .map entry _ => by
    unfold validateDataType
    refine bind_no_panic _ _ (noStrategy_np m) fun _ => ?_
    split
    · exact validateField_np _
    · rfl
  | .list f => by
    unfold validateDataType
    exact bind_no_panic _ _ (noStrategy_np m) fun _ => validateField_np f
  | .largeList f => by
    unfold validateDataType
    exact bind_no_panic _ _ (noStrategy_np m) fun _ => validateField_np f
  | .fixedSizeList f n => by
    unfold validateDataType
    split
    · rfl
    · exact bind_no_panic _ _ (noStrategy_np m) fun _ => validateField_np f
  | .union us _ => by
    unfold validateDataType
    exact bind_no_panic _ _ (noStrategy_np m) fun _ => validateUFields_np us
  | .dictionary k v => by
    unfold validateDataType
    refine bind_no_panic _ _ (noStrategy_np m) fun _ => ?_
    split
    · rfl
    · split <;> rfl
  | .interval _ => by unfold validateDataType; rfl
  | .runEndEncoded _ _ => by unfold validateDataType; rfl
  | .boolean | .int8 | .int16 | .int32 | .int64 | .uint8 | .uint16 | .uint32 | .uint64 | .float16 | .float32
  | .float64 | .utf8 | .largeUtf8 | .utf8View | .binary | .largeBinary | .binaryView | .date32 | .date64
  | .decimal128 _ _ | .duration _ | .timestamp _ _ => by
    unfold validateDataType; exact noStrategy_np m
theorem validateFields_np : ∀ (fs : Fields), (validateFields fs).isPanic = false
  | .nil => by unfold validateFields; rfl
  | .cons f r => by
    unfold validateFields
    exact bind_no_panic _ _ (validateField_np f) fun _ => validateFields_np r
theorem validateUFields_np : ∀ (us : UFields), (validateUFields us).isPanic = false
  | .nil => by unfold validateUFields; rfl
  | .cons _ f r => by
    unfold validateUFields
    exact bind_no_panic _ _ (validateField_np f) fun _ => validateUFields_np r
end

theorem mergeStrategyWithMetadata_np (m : Metadata) (s : Option Strategy) : (mergeStrategyWithMetadata m s).isPanic = false := by
  unfold mergeStrategyWithMetadata
  split
  · rfl
  · split <;> rfl

theorem printSchema_np (esc : Char → Bool) (fields : List Field) : (printSchema esc fields).isPanic = false := by
  unfold printSchema
  split <;> rfl

theorem metaOfObj_np : ∀ (o : JObj), (metaOfObj o).isPanic = false
  | .nil => by unfold metaOfObj; rfl
  | .cons k (.str v) r => by
    unfold metaOfObj
    exact bind_no_panic _ _ (metaOfObj_np r) fun _ => rfl
  | .cons _ .null _ | .cons _ (.bool _) _ | .cons _ (.num _) _ | .cons _ (.arr _) _ | .cons _ (.obj _) _ => by
    unfold metaOfObj; rfl

theorem parseStrategyOpt_np (v : Option JVal) : (parseStrategyOpt v).isPanic = false := by
  unfold parseStrategyOpt
  split
  · rfl
  · rfl
  · exact bind_no_panic _ _ (strategyParse_np _) fun _ => rfl
  · rfl

theorem intoField_np (pinned : Bool) (name : String) (dataType : Text) (nullable : Bool) (strategy : Option Strategy)
    (children : List Field) (metadata : Metadata) :
    (intoField pinned name dataType nullable strategy children metadata).isPanic = false := by
  unfold intoField
  refine bind_no_panic _ _ (buildDataTypeWith_np _ _ _) fun dt => ?_
  refine bind_no_panic _ _ (mergeStrategyWithMetadata_np _ _) fun md => ?_
  exact bind_no_panic _ _ (validateField_np _) fun _ => rfl

mutual
/-- one field object (`CustomField::deserialize` + `into_field`): every JSON value -/
theorem parseFieldWith_np (pinned : Bool) : ∀ (v : JVal), (parseFieldWith pinned v).isPanic = false
  | .obj o => by
    unfold parseFieldWith
    simp only []
    split
    · rfl
    · have hc := parseChildrenWith_np pinned o
      repeat' first
        | (intro _)
        | exact np_pure _
        | exact np_fail _
        | exact hc
        | exact parseStrategyOpt_np _
        | exact metaOfObj_np _
        | exact intoField_np _ _ _ _ _ _ _
        | apply bind_no_panic
        | split
  | .null | .bool _ | .num _ | .str _ | .arr _ => by unfold parseFieldWith; rfl
theorem parseChildrenWith_np (pinned : Bool) : ∀ (o : JObj), (parseChildrenWith pinned o).isPanic = false
  | .nil => by unfold parseChildrenWith; rfl
  | .cons k v r => by
    unfold parseChildrenWith
    split
    · split
      · rename_i vs
        exact parseFieldListWith_np pinned vs
      · rfl
    · exact parseChildrenWith_np pinned r
theorem parseFieldListWith_np (pinned : Bool) : ∀ (vs : JVals), (parseFieldListWith pinned vs).isPanic = false
  | .nil => by unfold parseFieldListWith; rfl
  | .cons v r => by
    unfold parseFieldListWith
    exact bind_no_panic _ _ (parseFieldWith_np pinned v) fun _ =>
      bind_no_panic _ _ (parseFieldListWith_np pinned r) fun _ => rfl
end

theorem parseFieldsKeyWith_np (pinned : Bool) : ∀ (o : JObj), (parseFieldsKeyWith pinned o).isPanic = false
  | .nil => by unfold parseFieldsKeyWith; rfl
  | .cons k v r => by
    unfold parseFieldsKeyWith
    split
    · have hr := parseFieldsKeyWith_np pinned r
      simp only []
      repeat' first
        | (intro _)
        | exact np_pure _
        | exact np_fail _
        | exact hr
        | exact parseFieldListWith_np _ _
        | apply bind_no_panic
        | split
    · exact parseFieldsKeyWith_np pinned r

/-- `SerdeArrowSchema::deserialize`: every JSON value -/
theorem parseSchemaWith_np (pinned : Bool) (v : JVal) : (parseSchemaWith pinned v).isPanic = false := by
  unfold parseSchemaWith
  split
  · exact parseFieldListWith_np _ _
  · apply bind_no_panic
    · exact parseFieldsKeyWith_np _ _
    intro r
    split <;> rfl
  · rfl

theorem acceptForeign_np (f : Field) : (acceptForeign f).isPanic = false := by
  cases f
  unfold acceptForeign
  exact bind_no_panic _ _ (validateField_np _) fun _ => np_pure _

theorem acceptForeignList_np : ∀ (fs : List Field), (acceptForeignList fs).isPanic = false
  | [] => by unfold acceptForeignList; rfl
  | f :: r => by
    unfold acceptForeignList
    exact bind_no_panic _ _ (acceptForeign_np f) fun _ => bind_no_panic _ _ (acceptForeignList_np r) fun _ => np_pure _

end SaModel.Lemmas.C16
