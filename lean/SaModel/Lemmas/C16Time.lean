import SaModel.Props.C14
/-
C16, the timestamp string parser (`TimestampBuilder::serialize_str`): `timestampOfString` never unwinds.

The model of `parse_str_to_timestamp` has ONE panic branch: `timestamp_millis()` / `timestamp_micros()` of chrono
overflow `i64` (documented panic of chrono).  It is unreachable: every instant the two parser models
(`parseNaiveDateTime`, `parseUtcDateTime`) return lies inside chrono's date range, has a second of day below 86 400 and
a nanosecond below 2·10^9 (`parseNaiveDateTime_range`, `parseUtcDateTime_range`), and inside that range the products
fit (`C14.instantToUnits_no_panic`).  Every failing branch of the parsers is a `fail`.
-/
namespace SaModel.Lemmas.C16
open SaModel SaModel.Codec

/-- a fraction scanned by `scan::nanosecond` is below one second -/
theorem scanNanosecond_lt {s rest : List Char} {v : Nat} (h : scanNanosecond s = some (rest, v)) : v < 1000000000 := by
  unfold scanNanosecond at h
  have had := takeDigits_allDigits s
  split at h
  · cases h
  · rename_i ds rest' _ heq
    rw [heq] at had
    simp only [Option.some.injEq, Prod.mk.injEq] at h
    obtain ⟨_, rfl⟩ := h
    have h9 : AllDigits (ds.take 9) := fun c hc => had c (List.mem_of_mem_take hc)
    have hlt := digitsVal_lt h9
    have hlen : (ds.take 9).length ≤ 9 := by rw [List.length_take]; exact Nat.min_le_left _ _
    generalize (ds.take 9).length = n at *
    generalize digitsVal (ds.take 9) = x at *
    have : x * 10 ^ (9 - n) < 10 ^ n * 10 ^ (9 - n) := Nat.mul_lt_mul_of_pos_right hlt (Nat.pow_pos (by decide))
    rw [← Nat.pow_add] at this
    have e : n + (9 - n) = 9 := by omega
    rw [e] at this
    exact this

theorem itemNanosecond_lt {s rest : List Char} {ns : Option Nat} (h : itemNanosecond s = some (rest, ns)) :
    ns.getD 0 < 1000000000 := by
  unfold itemNanosecond at h
  split at h
  · rename_i r
    cases hs : scanNanosecond r with
    | none => rw [hs] at h; cases h
    | some p =>
      obtain ⟨rest', v⟩ := p
      rw [hs] at h
      simp only [Option.map_some, Option.some.injEq, Prod.mk.injEq] at h
      obtain ⟨_, rfl⟩ := h
      exact scanNanosecond_lt hs
  · simp only [Option.some.injEq, Prod.mk.injEq] at h
    obtain ⟨_, rfl⟩ := h
    decide

theorem parseSecondNanos_lt {s rest : List Char} {sec : Nat} {ns : Option Nat}
    (h : parseSecondNanos s = some (rest, sec, ns)) : ns.getD 0 < 1000000000 := by
  unfold parseSecondNanos at h
  cases h1 : itemLit ':' (skipWs s) with
  | none => simp [h1] at h
  | some s1 =>
    cases h2 : itemTwo s1 with
    | none => simp [h1, h2] at h
    | some p2 =>
      obtain ⟨s2, sec'⟩ := p2
      cases h3 : itemNanosecond s2 with
      | none => simp [h1, h2, h3] at h
      | some p3 =>
        obtain ⟨s3, ns'⟩ := p3
        simp [h1, h2, h3] at h
        obtain ⟨_, _, rfl⟩ := h
        exact itemNanosecond_lt h3

theorem parseTimeItems_lt {s rest : List Char} {h mi sec : Nat} {ns : Option Nat}
    (hp : parseTimeItems s = some (rest, h, mi, sec, ns)) : ns.getD 0 < 1000000000 := by
  unfold parseTimeItems at hp
  cases h1 : parseHourMinute s with
  | none => simp [h1] at hp
  | some p1 =>
    obtain ⟨s1, h', mi'⟩ := p1
    cases h2 : parseSecondNanos s1 with
    | none => simp [h1, h2] at hp
    | some p2 =>
      obtain ⟨s2, sec', ns'⟩ := p2
      simp [h1, h2] at hp
      obtain ⟨_, _, _, _, rfl⟩ := hp
      exact parseSecondNanos_lt h2

/-- the resolved time of day: second of day below 86 400; the nanosecond exceeds 10^9 only for the leap second -/
theorem resolveTime_range {h mi sec : Nat} {ns : Option Nat} {secs nanos : Nat} (hns : ns.getD 0 < 1000000000)
    (hr : resolveTime h mi (some sec) ns = some (secs, nanos)) : secs < 86400 ∧ nanos < 2000000000 := by
  refine ⟨SaModel.Props.C14.resolveTime_bounds hr, ?_⟩
  unfold resolveTime at hr
  split at hr
  · simp only at hr
    split at hr
    · cases hr; omega
    · split at hr
      · cases hr; omega
      · cases hr
  · cases hr

/-- the day count of every civil date (day ≤ 31) with a year in chrono's range lies in chrono's range of days; both
bounds are attained (-262143-01-01, +262142-12-31) -/
theorem daysFromCivil_range (y m d : Int) (hy1 : -262143 ≤ y) (hy2 : y ≤ 262142) (hm : 1 ≤ m ∧ m ≤ 12)
    (hd : 1 ≤ d ∧ d ≤ 31) : -96465292 ≤ daysFromCivil y m d ∧ daysFromCivil y m d ≤ 95026236 := by
  unfold daysFromCivil
  simp only
  have hdoy : 0 ≤ (153 * ((m + 9) % 12) + 2) / 5 ∧ (153 * ((m + 9) % 12) + 2) / 5 ≤ 337 := by omega
  have hdoy2 : 3 ≤ m → (153 * ((m + 9) % 12) + 2) / 5 ≤ 275 := by omega
  have hdoy3 : m ≤ 2 → 306 ≤ (153 * ((m + 9) % 12) + 2) / 5 := by omega
  generalize (153 * ((m + 9) % 12) + 2) / 5 = doy at *
  split
  · have := hdoy3 (by assumption)
    by_cases he : (y - 1) / 400 = -656 <;> by_cases he2 : (y - 1) / 400 = 655 <;> omega
  · have := hdoy2 (by omega)
    by_cases he : y / 400 = 655 <;> by_cases he2 : y / 400 = -656 <;> omega

/-- `Parsed::to_naive_date`: a resolved date lies inside chrono's range of days -/
theorem resolveDate_range {y : Int} {m d : Nat} {days : Int} (h : resolveDate y m d = some days) :
    inChronoDays days = true := by
  unfold resolveDate at h
  split at h
  · rename_i hc
    cases h
    obtain ⟨hy1, hy2, hv⟩ := hc
    have hb := validDate_bounds hv
    rw [SaModel.Props.C14.inChronoDays_iff]
    exact daysFromCivil_range y m d hy1 hy2 hb.1 hb.2
  · cases h

theorem parseNaiveDateTime_range {s : List Char} {t : Instant} (h : parseNaiveDateTime s = .ok t) :
    inChronoDays t.days = true ∧ t.secs < 86400 ∧ t.nanos < 2000000000 := by
  unfold parseNaiveDateTime at h
  split at h
  · cases h
  · split at h
    · cases h
    · split at h
      · cases h
      · rename_i hti
        split at h
        · rename_i days secs nanos hd ht
          cases h
          have := resolveTime_range (parseTimeItems_lt hti) ht
          exact ⟨resolveDate_range hd, this.1, this.2⟩
        · cases h
      · cases h

theorem parseNaiveDateTime_no_panic (s : List Char) : (parseNaiveDateTime s).isPanic = false := by
  unfold parseNaiveDateTime
  split
  · rfl
  · split
    · rfl
    · split
      · rfl
      · split <;> rfl
      · rfl

theorem parseUtcDateTime_range {s : List Char} {t : Instant} (h : parseUtcDateTime s = .ok t) :
    inChronoDays t.days = true ∧ t.secs < 86400 ∧ t.nanos < 2000000000 := by
  unfold parseUtcDateTime at h
  split at h
  · cases h
  · split at h
    · split at h
      · split at h
        · cases h
        · rename_i hti
          simp only at h
          split at h
          · cases h
          · split at h
            · split at h
              · rename_i days secs nanos hd ht
                split at h
                · cases h
                · split at h
                  · rename_i hin
                    cases h
                    have := resolveTime_range (parseTimeItems_lt hti) ht
                    refine ⟨hin, ?_, this.2⟩
                    simp only
                    omega
                  · cases h
              · cases h
            · cases h
      · cases h
    · cases h

theorem parseUtcDateTime_no_panic (s : List Char) : (parseUtcDateTime s).isPanic = false := by
  unfold parseUtcDateTime
  split
  · rfl
  · split
    · split
      · split
        · rfl
        · simp only
          split
          · rfl
          · split
            · split
              · split
                · rfl
                · split <;> rfl
              · rfl
            · rfl
      · rfl
    · rfl

/-- `TimestampBuilder::serialize_str`: for every string, unit and time-zone setting a value or an error -/
theorem timestampOfString_np (u : TimeUnit) (utc : Bool) (s : List Char) : (timestampOfString u utc s).isPanic = false := by
  unfold timestampOfString
  cases utc with
  | true =>
    simp only [if_true]
    cases hp : parseUtcDateTime s with
    | error e =>
      have := parseUtcDateTime_no_panic s
      rw [hp] at this
      cases e with
      | err m => rfl
      | errCtx m a => rfl
      | panic m => cases this
    | ok t =>
      obtain ⟨h1, h2, h3⟩ := parseUtcDateTime_range hp
      exact SaModel.Props.C14.instantToUnits_no_panic u t h1 h2 h3
  | false =>
    simp only [Bool.false_eq_true, if_false]
    cases hp : parseNaiveDateTime s with
    | error e =>
      have := parseNaiveDateTime_no_panic s
      rw [hp] at this
      cases e with
      | err m => rfl
      | errCtx m a => rfl
      | panic m => cases this
    | ok t =>
      obtain ⟨h1, h2, h3⟩ := parseNaiveDateTime_range hp
      exact SaModel.Props.C14.instantToUnits_no_panic u t h1 h2 h3

end SaModel.Lemmas.C16
