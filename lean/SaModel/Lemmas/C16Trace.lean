import SaModel.Trace.FromType
import SaModel.Lemmas.C16Basic
/-
C16, tracing from samples: `absorb c o t x` (= `x.serialize(TracerSerializer(&mut t))`) never unwinds, for EVERY
tracer state `t` (no invariant) and every serde value `x` whose variant indices are below the allocation bound of
the executable model (finding #29: the real `ensure_variant` resizes `variants` up to the index; the model refuses
indices ≥ `VARIANT_ALLOC_LIMIT` instead of building the list).  The `unreachable` arms after the `ensure_*` calls,
the `variants[idx]` / `fields[idx]` / `field_tracers[idx]` slots are shown to exist.
-/
namespace SaModel.Lemmas.C16
open SaModel SaModel.Trace

theorem bind_eq_ok {α β} {r : R α} {f : α → R β} {v : β} (h : (r >>= f) = .ok v) : ∃ a, r = .ok a ∧ f a = .ok v := by
  cases r with
  | ok a => exact ⟨a, rfl, h⟩
  | error e => simp [bind, Except.bind] at h

/-! ### `ensure_*` -/

theorem enforce_depth_limit_np (t : Tracer) : t.enforce_depth_limit.isPanic = false := by
  unfold Tracer.enforce_depth_limit; split <;> rfl

theorem ensure_list_np (t : Tracer) : t.ensure_list.isPanic = false := by
  unfold Tracer.ensure_list
  refine bind_no_panic _ _ (enforce_depth_limit_np t) (fun _ => ?_)
  split
  · rfl
  · split <;> rfl

theorem ensure_list_ok {t t' : Tracer} (h : t.ensure_list = .ok t') : ∃ n p nl i, t' = .list n p nl i := by
  unfold Tracer.ensure_list at h
  obtain ⟨_, _, h⟩ := bind_eq_ok h
  split at h
  · cases h; exact ⟨_, _, _, _, rfl⟩
  · split at h
    · cases h; exact ⟨_, _, _, _, rfl⟩
    · simp [fail] at h

theorem ensure_map_np (t : Tracer) : t.ensure_map.isPanic = false := by
  unfold Tracer.ensure_map
  refine bind_no_panic _ _ (enforce_depth_limit_np t) (fun _ => ?_)
  split
  · rfl
  · split <;> rfl

theorem ensure_map_ok {t t' : Tracer} (h : t.ensure_map = .ok t') : ∃ n p nl k v, t' = .map n p nl k v := by
  unfold Tracer.ensure_map at h
  obtain ⟨_, _, h⟩ := bind_eq_ok h
  split at h
  · cases h; exact ⟨_, _, _, _, _, rfl⟩
  · split at h
    · cases h; exact ⟨_, _, _, _, _, rfl⟩
    · simp [fail] at h

theorem ensure_tuple_np (c : Code) (t : Tracer) (k : Nat) : (t.ensure_tuple c k).isPanic = false := by
  unfold Tracer.ensure_tuple
  refine bind_no_panic _ _ (enforce_depth_limit_np t) (fun _ => ?_)
  split
  · rfl
  · split
    · split <;> rfl
    · rfl

theorem ensure_tuple_ok {c : Code} {t t' : Tracer} {k : Nat} (h : t.ensure_tuple c k = .ok t') :
    ∃ n p nl ts, t' = .tuple n p nl ts := by
  unfold Tracer.ensure_tuple at h
  obtain ⟨_, _, h⟩ := bind_eq_ok h
  split at h
  · cases h; exact ⟨_, _, _, _, rfl⟩
  · split at h
    · split at h <;> (cases h; exact ⟨_, _, _, _, rfl⟩)
    · simp [fail] at h

theorem ensure_struct_np (c : Code) (t : Tracer) (fields : List String) (m : StructMode) :
    (t.ensure_struct c fields m).isPanic = false := by
  unfold Tracer.ensure_struct
  refine bind_no_panic _ _ (enforce_depth_limit_np t) (fun _ => ?_)
  split
  · rfl
  · split
    · split <;> rfl
    · rfl

theorem ensure_struct_ok {c : Code} {t t' : Tracer} {fields : List String} {m : StructMode}
    (h : t.ensure_struct c fields m = .ok t') : ∃ n p nl fs m' s, t' = .struct n p nl fs m' s := by
  unfold Tracer.ensure_struct at h
  obtain ⟨_, _, h⟩ := bind_eq_ok h
  split at h
  · cases h; exact ⟨_, _, _, _, _, _, rfl⟩
  · split at h
    · split at h <;> (cases h; exact ⟨_, _, _, _, _, _, rfl⟩)
    · simp [fail] at h

theorem ensure_union_np (t : Tracer) (vs : List String) : (t.ensure_union vs).isPanic = false := by
  unfold Tracer.ensure_union
  refine bind_no_panic _ _ (enforce_depth_limit_np t) (fun _ => ?_)
  split
  · rfl
  · split <;> rfl

theorem ensure_union_ok {t t' : Tracer} {vs : List String} (h : t.ensure_union vs = .ok t') :
    ∃ n p nl v, t' = .union n p nl v := by
  unfold Tracer.ensure_union at h
  obtain ⟨_, _, h⟩ := bind_eq_ok h
  split at h
  · cases h; exact ⟨_, _, _, _, rfl⟩
  · split at h
    · cases h; exact ⟨_, _, _, _, rfl⟩
    · simp [fail] at h

theorem ite_np {α} {c : Prop} [Decidable c] {a b : R α} (ha : a.isPanic = false) (hb : b.isPanic = false) :
    (if c then a else b).isPanic = false := by
  split <;> assumption

theorem coerce_primitive_type_np (o : Options) (a : DataType) (n : Bool) (s : Option Strategy) (b : DataType)
    (s' : Option Strategy) : (coerce_primitive_type o a n s b s').isPanic = false := by
  unfold coerce_primitive_type
  repeat (refine ite_np rfl ?_)
  rfl

theorem ensure_primitive_with_strategy_np (o : Options) (t : Tracer) (ty : DataType) (st : Option Strategy) :
    (t.ensure_primitive_with_strategy o ty st).isPanic = false := by
  unfold Tracer.ensure_primitive_with_strategy
  split
  · rfl
  · exact bind_no_panic _ _ (coerce_primitive_type_np _ _ _ _ _ _) (fun _ => rfl)
  · split <;> rfl

theorem ensure_primitive_np (o : Options) (t : Tracer) (ty : DataType) : (t.ensure_primitive o ty).isPanic = false :=
  ensure_primitive_with_strategy_np o t ty none

theorem ensure_number_np (o : Options) (t : Tracer) (ty : DataType) : (Tracer.ensure_number o t ty).isPanic = false :=
  ensure_primitive_with_strategy_np o t ty none

/-! ### the slots the serializers index exist -/

theorem Variants.nones_length : ∀ (k : Nat), (Variants.nones k).length = k
  | 0 => rfl
  | k + 1 => by simp [Variants.nones, Variants.length, Variants.nones_length k]

theorem Variants.padNone_length : ∀ (vs : Variants) (k : Nat), (vs.padNone k).length = vs.length + k
  | .nil, k => by simp [Variants.padNone, Variants.length, Variants.nones_length]
  | .absent r, k => by simp [Variants.padNone, Variants.length, Variants.padNone_length r k]; omega
  | .present _ _ r, k => by simp [Variants.padNone, Variants.length, Variants.padNone_length r k]; omega

theorem Variants.get?_of_lt : ∀ (vs : Variants) (i : Nat), i < vs.length → ∃ x, vs.get? i = some x
  | .nil, _, h => by simp [Variants.length] at h
  | .absent _, 0, _ => ⟨_, rfl⟩
  | .present _ _ _, 0, _ => ⟨_, rfl⟩
  | .absent r, i + 1, h => by
    simp only [Variants.get?]; exact Variants.get?_of_lt r i (by simp [Variants.length] at h; omega)
  | .present _ _ r, i + 1, h => by
    simp only [Variants.get?]; exact Variants.get?_of_lt r i (by simp [Variants.length] at h; omega)

theorem Variants.get?_set : ∀ (vs : Variants) (i : Nat) (n : String) (t : Tracer) (x : Option (String × Tracer)),
    vs.get? i = some x → (vs.set i n t).get? i = some (some (n, t))
  | .nil, _, _, _, _, h => by simp [Variants.get?] at h
  | .absent _, 0, _, _, _, _ => rfl
  | .present _ _ _, 0, _, _, _, _ => rfl
  | .absent r, i + 1, n, t, x, h => by
    simp only [Variants.get?, Variants.set] at h ⊢; exact Variants.get?_set r i n t x h
  | .present _ _ r, i + 1, n, t, x, h => by
    simp only [Variants.get?, Variants.set] at h ⊢; exact Variants.get?_set r i n t x h

theorem ensure_variant_np (path : String) (vs : Variants) (variant : String) (idx : Nat) (h : idx < VARIANT_ALLOC_LIMIT) :
    (ensure_variant path vs variant idx).isPanic = false := by
  unfold ensure_variant
  rw [if_neg (by omega)]
  simp only []
  split
  · split <;> rfl
  · rfl
  · rename_i hnone
    obtain ⟨x, hx⟩ := Variants.get?_of_lt (vs.padNone (idx + 1 - vs.length)) idx
      (by rw [Variants.padNone_length]; omega)
    rw [hx] at hnone; cases hnone

theorem ensure_variant_ok {path : String} {vs vs' : Variants} {variant : String} {idx : Nat}
    (h : ensure_variant path vs variant idx = .ok vs') : ∃ n t, vs'.get? idx = some (some (n, t)) := by
  unfold ensure_variant at h
  split at h
  · simp [panic] at h
  · simp only [] at h
    split at h
    · rename_i prev t hget
      split at h
      · simp [fail] at h
      · cases h; exact ⟨_, _, hget⟩
    · rename_i hget
      cases h
      exact ⟨_, _, Variants.get?_set _ _ _ _ _ hget⟩
    · simp [panic] at h

theorem ensure_union_variant_np (t : Tracer) (vn : String) (idx : Nat) (h : idx < VARIANT_ALLOC_LIMIT) :
    (ensure_union_variant t vn idx).isPanic = false := by
  unfold ensure_union_variant
  refine bind_np (ensure_union_np t []) (fun t' h' => ?_)
  obtain ⟨n, p, nl, vs, rfl⟩ := ensure_union_ok h'
  refine bind_np (ensure_variant_np p vs vn idx h) (fun vs' hv => ?_)
  obtain ⟨n', t'', hget⟩ := ensure_variant_ok hv
  simp only [hget]
  rfl

theorem Tracers.push_length : ∀ (ts : Tracers) (x : Tracer), (ts.push x).length = ts.length + 1
  | .nil, _ => rfl
  | .cons _ r, x => by simp [Tracers.push, Tracers.length, Tracers.push_length r x]

theorem Tracers.get?_of_lt : ∀ (ts : Tracers) (i : Nat), i < ts.length → ∃ t, ts.get? i = some t
  | .nil, _, h => by simp [Tracers.length] at h
  | .cons t _, 0, _ => ⟨t, rfl⟩
  | .cons _ r, i + 1, h => by
    simp only [Tracers.get?]; exact Tracers.get?_of_lt r i (by simp [Tracers.length] at h; omega)

theorem foldl_push_length {β} (g : Tracers → Tracer) : ∀ (l : List β) (acc : Tracers),
    (l.foldl (fun acc _ => acc.push (g acc)) acc).length = acc.length + l.length
  | [], acc => by simp
  | _ :: r, acc => by
    simp only [List.foldl_cons, List.length_cons]
    rw [foldl_push_length g r, Tracers.push_length]; omega

theorem field_tracer_grow_get (path : String) (idx : Nat) (ts : Tracers) :
    ∃ t, (field_tracer_grow path idx ts).get? idx = some t := by
  apply Tracers.get?_of_lt
  unfold field_tracer_grow
  rw [foldl_push_length (fun _ => Tracer.new (toString idx) (path ++ "." ++ toString idx))]
  simp only [List.length_range]
  omega

theorem TFields.indexOf_lt : ∀ (fs : TFields) (key : String) (i : Nat), fs.indexOf key = some i → i < fs.length
  | .nil, _, _, h => by simp [TFields.indexOf] at h
  | .cons n _ _ r, key, i, h => by
    simp only [TFields.indexOf] at h
    split at h
    · cases h; simp [TFields.length]
    · cases hr : r.indexOf key with
      | none => rw [hr] at h; simp at h
      | some j =>
        rw [hr] at h; simp at h; subst h
        have := TFields.indexOf_lt r key j hr
        simp [TFields.length]; omega

theorem TFields.get?_of_lt : ∀ (fs : TFields) (i : Nat), i < fs.length → ∃ t, fs.get? i = some t
  | .nil, _, h => by simp [TFields.length] at h
  | .cons _ _ t _, 0, _ => ⟨t, rfl⟩
  | .cons _ _ _ r, i + 1, h => by
    simp only [TFields.get?]; exact TFields.get?_of_lt r i (by simp [TFields.length] at h; omega)

theorem TFields.setLastSeen_length : ∀ (fs : TFields) (i s : Nat), (fs.setLastSeen i s).length = fs.length
  | .nil, _, _ => rfl
  | .cons _ _ _ _, 0, _ => rfl
  | .cons _ _ _ r, i + 1, s => by simp [TFields.setLastSeen, TFields.length, TFields.setLastSeen_length r i s]

theorem TFields.push_length : ∀ (fs : TFields) (n : String) (l : Nat) (t : Tracer), (fs.push n l t).length = fs.length + 1
  | .nil, _, _, _ => rfl
  | .cons _ _ _ r, n, l, t => by simp [TFields.push, TFields.length, TFields.push_length r n l t]

theorem ensure_field_get (path : String) (seen : Nat) (fs : TFields) (key : String) :
    ∃ t, (ensure_field path seen fs key).2.get? (ensure_field path seen fs key).1 = some t := by
  apply TFields.get?_of_lt
  unfold ensure_field
  split
  · rename_i idx hidx
    simp only [TFields.setLastSeen_length]
    exact TFields.indexOf_lt fs key idx hidx
  · simp only [TFields.push_length]; omega

/-! ### variant indices below the allocation bound of the executable model -/

mutual
def idxOK : SVal → Bool
  | .some v => idxOK v
  | .newtypeStruct _ v => idxOK v
  | .seq xs => idxOKs xs
  | .tuple xs => idxOKs xs
  | .tupleStruct _ xs => idxOKs xs
  | .record _ fs => idxOKf fs
  | .map es => idxOKe es
  | .mapRaw ops => idxOKo ops
  | .unitVariant _ i _ => decide (i < VARIANT_ALLOC_LIMIT)
  | .newtypeVariant _ i _ v => decide (i < VARIANT_ALLOC_LIMIT) && idxOK v
  | .tupleVariant _ i _ xs => decide (i < VARIANT_ALLOC_LIMIT) && idxOKs xs
  | .structVariant _ i _ fs => decide (i < VARIANT_ALLOC_LIMIT) && idxOKf fs
  | _ => true
def idxOKs : SVals → Bool
  | .nil => true
  | .cons v r => idxOK v && idxOKs r
def idxOKf : SFields → Bool
  | .nil => true
  | .cons _ _ v r => idxOK v && idxOKf r
def idxOKe : SEntries → Bool
  | .nil => true
  | .cons k v r => idxOK k && idxOK v && idxOKe r
def idxOKo : SMapOps → Bool
  | .nil => true
  | .key k r => idxOK k && idxOKo r
  | .value v r => idxOK v && idxOKo r
end

theorem serializeToString_np (x : SVal) : (serializeToString x).isPanic = false := by
  unfold serializeToString; split <;> rfl

/-! ### the mutual recursion over the sample -/

mutual
theorem absorb_np (c : Code) (o : Options) : ∀ (x : SVal) (t : Tracer), idxOK x = true → (absorb c o t x).isPanic = false
  | .bool _, t, _ => by simp only [absorb]; exact ensure_primitive_np _ _ _
  | .int _ _, t, _ => by simp only [absorb]; exact ensure_number_np _ _ _
  | .f32 _, t, _ => by simp only [absorb]; exact ensure_number_np _ _ _
  | .f64 _, t, _ => by simp only [absorb]; exact ensure_number_np _ _ _
  | .char _, t, _ => by simp only [absorb]; exact ensure_primitive_np _ _ _
  | .unit, t, _ => by simp only [absorb]; exact ensure_primitive_np _ _ _
  | .str _, t, _ => by simp only [absorb]; exact ensure_primitive_with_strategy_np _ _ _ _
  | .bytes _, t, _ => by simp only [absorb]; exact ensure_primitive_np _ _ _
  | .none, t, _ => by simp only [absorb]; rfl
  | .some v, t, h => by simp only [absorb]; exact absorb_np c o v _ (by simpa [idxOK] using h)
  | .unitStruct _, t, _ => by simp only [absorb]; exact ensure_primitive_np _ _ _
  | .newtypeStruct _ v, t, h => by simp only [absorb]; exact absorb_np c o v _ (by simpa [idxOK] using h)
  | .map es, t, h => by
    have h' : idxOKe es = true := by simpa [idxOK] using h
    simp only [absorb]
    split
    · refine bind_np (ensure_struct_np c t [] .map) (fun t' ht => ?_)
      obtain ⟨n, p, nl, fs, m, s, rfl⟩ := ensure_struct_ok ht
      exact bind_no_panic _ _ (absorbEntriesAsStruct_np c o p s es fs h') (fun _ => rfl)
    · refine bind_np (ensure_map_np t) (fun t' ht => ?_)
      obtain ⟨n, p, nl, k, v, rfl⟩ := ensure_map_ok ht
      exact bind_no_panic _ _ (absorbEntriesAsMap_np c o es k v h') (fun _ => rfl)
  | .mapRaw ops, t, h => by
    have h' : idxOKo ops = true := by simpa [idxOK] using h
    simp only [absorb]
    split
    · refine bind_np (ensure_struct_np c t [] .map) (fun t' ht => ?_)
      obtain ⟨n, p, nl, fs, m, s, rfl⟩ := ensure_struct_ok ht
      exact bind_no_panic _ _ (absorbOpsAsStruct_np c o p s ops fs none h') (fun _ => rfl)
    · refine bind_np (ensure_map_np t) (fun t' ht => ?_)
      obtain ⟨n, p, nl, k, v, rfl⟩ := ensure_map_ok ht
      exact bind_no_panic _ _ (absorbOpsAsMap_np c o ops k v h') (fun _ => rfl)
  | .seq items, t, h => by
    have h' : idxOKs items = true := by simpa [idxOK] using h
    simp only [absorb]
    refine bind_np (ensure_list_np t) (fun t' ht => ?_)
    obtain ⟨n, p, nl, i, rfl⟩ := ensure_list_ok ht
    exact bind_no_panic _ _ (absorbSeq_np c o items i h') (fun _ => rfl)
  | .tuple items, t, h => by
    have h' : idxOKs items = true := by simpa [idxOK] using h
    simp only [absorb]
    refine bind_np (ensure_tuple_np c t _) (fun t' ht => ?_)
    obtain ⟨n, p, nl, ts, rfl⟩ := ensure_tuple_ok ht
    exact bind_no_panic _ _ (absorbTuple_np c o p items ts 0 h') (fun _ => rfl)
  | .tupleStruct _ items, t, h => by
    have h' : idxOKs items = true := by simpa [idxOK] using h
    simp only [absorb]
    refine bind_np (ensure_tuple_np c t _) (fun t' ht => ?_)
    obtain ⟨n, p, nl, ts, rfl⟩ := ensure_tuple_ok ht
    exact bind_no_panic _ _ (absorbTuple_np c o p items ts 0 h') (fun _ => rfl)
  | .record _ fields, t, h => by
    have h' : idxOKf fields = true := by simpa [idxOK] using h
    simp only [absorb]
    refine bind_np (ensure_struct_np c t [] .struct) (fun t' ht => ?_)
    obtain ⟨n, p, nl, fs, m, s, rfl⟩ := ensure_struct_ok ht
    exact bind_no_panic _ _ (absorbFields_np c o p s fields fs h') (fun _ => rfl)
  | .unitVariant _ idx vn, t, h => by
    have h' : idx < VARIANT_ALLOC_LIMIT := by simpa [idxOK] using h
    simp only [absorb]
    refine bind_no_panic _ _ (ensure_union_variant_np t vn idx h') (fun r => ?_)
    obtain ⟨n, p, nl, vs, vt⟩ := r
    exact bind_no_panic _ _ (ensure_primitive_np _ _ _) (fun _ => rfl)
  | .newtypeVariant _ idx vn v, t, h => by
    have h' : idx < VARIANT_ALLOC_LIMIT ∧ idxOK v = true := by simpa [idxOK] using h
    simp only [absorb]
    refine bind_no_panic _ _ (ensure_union_variant_np t vn idx h'.1) (fun r => ?_)
    obtain ⟨n, p, nl, vs, vt⟩ := r
    exact bind_no_panic _ _ (absorb_np c o v vt h'.2) (fun _ => rfl)
  | .tupleVariant _ idx vn items, t, h => by
    have h' : idx < VARIANT_ALLOC_LIMIT ∧ idxOKs items = true := by simpa [idxOK] using h
    simp only [absorb]
    refine bind_no_panic _ _ (ensure_union_variant_np t vn idx h'.1) (fun r => ?_)
    obtain ⟨n, p, nl, vs, vt⟩ := r
    refine bind_np (ensure_tuple_np c vt _) (fun t' ht => ?_)
    obtain ⟨n', p', nl', ts, rfl⟩ := ensure_tuple_ok ht
    exact bind_no_panic _ _ (absorbTuple_np c o p' items ts 0 h'.2) (fun _ => rfl)
  | .structVariant _ idx vn fields, t, h => by
    have h' : idx < VARIANT_ALLOC_LIMIT ∧ idxOKf fields = true := by simpa [idxOK] using h
    simp only [absorb]
    refine bind_no_panic _ _ (ensure_union_variant_np t vn idx h'.1) (fun r => ?_)
    obtain ⟨n, p, nl, vs, vt⟩ := r
    refine bind_np (ensure_struct_np c vt [] .struct) (fun t' ht => ?_)
    obtain ⟨n', p', nl', fs, m, s, rfl⟩ := ensure_struct_ok ht
    exact bind_no_panic _ _ (absorbFields_np c o p' s fields fs h'.2) (fun _ => rfl)

theorem absorbSeq_np (c : Code) (o : Options) : ∀ (xs : SVals) (i : Tracer), idxOKs xs = true →
    (absorbSeq c o i xs).isPanic = false
  | .nil, _, _ => by simp only [absorbSeq]; rfl
  | .cons v r, i, h => by
    have h' : idxOK v = true ∧ idxOKs r = true := by simpa [idxOKs] using h
    simp only [absorbSeq]
    exact bind_no_panic _ _ (absorb_np c o v i h'.1) (fun i' => absorbSeq_np c o r i' h'.2)

theorem absorbTuple_np (c : Code) (o : Options) (path : String) : ∀ (xs : SVals) (ts : Tracers) (pos : Nat),
    idxOKs xs = true → (absorbTuple c o path ts pos xs).isPanic = false
  | .nil, _, _, _ => by simp only [absorbTuple]; rfl
  | .cons v r, ts, pos, h => by
    have h' : idxOK v = true ∧ idxOKs r = true := by simpa [idxOKs] using h
    simp only [absorbTuple]
    obtain ⟨ft, hft⟩ := field_tracer_grow_get path pos ts
    simp only [hft]
    exact bind_no_panic _ _ (absorb_np c o v ft h'.1) (fun ft' => absorbTuple_np c o path r _ _ h'.2)

theorem absorbFields_np (c : Code) (o : Options) (path : String) (seen : Nat) : ∀ (xs : SFields) (fs : TFields),
    idxOKf xs = true → (absorbFields c o path seen fs xs).isPanic = false
  | .nil, _, _ => by simp only [absorbFields]; rfl
  | .cons key _ v r, fs, h => by
    have h' : idxOK v = true ∧ idxOKf r = true := by simpa [idxOKf] using h
    simp only [absorbFields]
    obtain ⟨ft, hft⟩ := ensure_field_get path seen fs key
    simp only [hft]
    exact bind_no_panic _ _ (absorb_np c o v ft h'.1) (fun ft' => absorbFields_np c o path seen r _ h'.2)

theorem absorbEntriesAsStruct_np (c : Code) (o : Options) (path : String) (seen : Nat) : ∀ (es : SEntries) (fs : TFields),
    idxOKe es = true → (absorbEntriesAsStruct c o path seen fs es).isPanic = false
  | .nil, _, _ => by simp only [absorbEntriesAsStruct]; rfl
  | .cons k v r, fs, h => by
    have h' : (idxOK k = true ∧ idxOK v = true) ∧ idxOKe r = true := by simpa [idxOKe] using h
    simp only [absorbEntriesAsStruct]
    refine bind_no_panic _ _ (serializeToString_np k) (fun key => ?_)
    obtain ⟨ft, hft⟩ := ensure_field_get path seen fs key
    simp only [hft]
    exact bind_no_panic _ _ (absorb_np c o v ft h'.1.2) (fun ft' => absorbEntriesAsStruct_np c o path seen r _ h'.2)

theorem absorbEntriesAsMap_np (c : Code) (o : Options) : ∀ (es : SEntries) (kt vt : Tracer),
    idxOKe es = true → (absorbEntriesAsMap c o kt vt es).isPanic = false
  | .nil, _, _, _ => by simp only [absorbEntriesAsMap]; rfl
  | .cons k v r, kt, vt, h => by
    have h' : (idxOK k = true ∧ idxOK v = true) ∧ idxOKe r = true := by simpa [idxOKe] using h
    simp only [absorbEntriesAsMap]
    refine bind_no_panic _ _ (absorb_np c o k kt h'.1.1) (fun kt' => ?_)
    exact bind_no_panic _ _ (absorb_np c o v vt h'.1.2) (fun vt' => absorbEntriesAsMap_np c o r kt' vt' h'.2)

theorem absorbOpsAsStruct_np (c : Code) (o : Options) (path : String) (seen : Nat) : ∀ (ops : SMapOps) (fs : TFields)
    (next : Option String), idxOKo ops = true → (absorbOpsAsStruct c o path seen fs next ops).isPanic = false
  | .nil, _, _, _ => by simp only [absorbOpsAsStruct]; rfl
  | .key k r, fs, next, h => by
    have h' : idxOK k = true ∧ idxOKo r = true := by simpa [idxOKo] using h
    simp only [absorbOpsAsStruct]
    exact bind_no_panic _ _ (serializeToString_np k) (fun key => absorbOpsAsStruct_np c o path seen r fs _ h'.2)
  | .value v r, fs, next, h => by
    have h' : idxOK v = true ∧ idxOKo r = true := by simpa [idxOKo] using h
    simp only [absorbOpsAsStruct]
    cases next with
    | none => rfl
    | some key =>
      simp only []
      obtain ⟨ft, hft⟩ := ensure_field_get path seen fs key
      simp only [hft]
      exact bind_no_panic _ _ (absorb_np c o v ft h'.1) (fun ft' => absorbOpsAsStruct_np c o path seen r _ none h'.2)

theorem absorbOpsAsMap_np (c : Code) (o : Options) : ∀ (ops : SMapOps) (kt vt : Tracer),
    idxOKo ops = true → (absorbOpsAsMap c o kt vt ops).isPanic = false
  | .nil, _, _, _ => by simp only [absorbOpsAsMap]; rfl
  | .key k r, kt, vt, h => by
    have h' : idxOK k = true ∧ idxOKo r = true := by simpa [idxOKo] using h
    simp only [absorbOpsAsMap]
    exact bind_no_panic _ _ (absorb_np c o k kt h'.1) (fun kt' => absorbOpsAsMap_np c o r kt' vt h'.2)
  | .value v r, kt, vt, h => by
    have h' : idxOK v = true ∧ idxOKo r = true := by simpa [idxOKo] using h
    simp only [absorbOpsAsMap]
    exact bind_no_panic _ _ (absorb_np c o v vt h'.1) (fun vt' => absorbOpsAsMap_np c o r kt vt' h'.2)
end

end SaModel.Lemmas.C16
