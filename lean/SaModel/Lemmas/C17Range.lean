import SaModel.Lemmas.ReadBasic
/-
C17 helpers: what a successful (`.ok`) primitive read tells about the index (inversion lemmas for the reader model
of SaModel/Read/Reader.lean).  Used by SaModel/Props/C17.lean (`*_in_range`) and SaModel/Lemmas/C17Touch*.lean.
-/
namespace SaModel.Props.C17
open SaModel SaModel.Read

theorem ok_bind_inv {α β} {x : R α} {f : α → R β} {b : β} (h : (x >>= f) = .ok b) : ∃ a, x = .ok a ∧ f a = .ok b := by
  cases x with
  | ok a => exact ⟨a, rfl, h⟩
  | error e => cases h


theorem getRequired_ok {α} {x : R (Option α)} {a : α} (h : getRequired x = .ok a) : x = .ok (some a) := by
  unfold getRequired at h
  obtain ⟨o, hx, h⟩ := ok_bind_inv h
  cases o
  · cases h
  · cases h; exact hx

theorem asStr_ok {x : R (Option Bytes)} {b : Bytes} (h : asStr x = .ok (some b)) : x = .ok (some b) ∧ validUtf8 b = true := by
  unfold asStr at h
  obtain ⟨o, hx, h⟩ := ok_bind_inv h
  cases o
  · cases h
  · simp only at h
    split at h
    · rename_i hv; cases h; exact ⟨hx, hv⟩
    · cases h


theorem optIsSome_ok {α} {x : R (Option α)} {b : Bool} (h : optIsSome x = .ok b) : ∃ o, x = .ok o := by
  unfold optIsSome at h
  obtain ⟨o, hx, _⟩ := ok_bind_inv h
  exact ⟨o, hx⟩

theorem primGet_ok_lt {fx : Fixes} {v : Option Bits} {vals : List Int} {idx : Nat} {o : Option Int}
    (h : primGet fx v vals idx = .ok o) : idx < vals.length := by
  unfold primGet at h
  split at h
  · cases h
  · rename_i x hx
    exact (List.getElem?_eq_some_iff.mp hx).1

theorem boolGet_ok_lt {fx : Fixes} {len : Nat} {v : Option Bits} {vals : Bits} {idx : Nat} {o : Option Bool}
    (h : boolGet fx len v vals idx = .ok o) : idx < len := by
  unfold boolGet at h
  split at h
  · cases h
  · omega

theorem bytesGet_ok_lt {v : Option Bits} {offs : List Int} {data : Bytes} {idx : Nat} {o : Option Bytes}
    (h : bytesGet Fixes.all v offs data idx = .ok o) : idx < offs.length - 1 := by
  unfold bytesGet at h
  simp only [Fixes.all, if_true] at h
  split at h
  · cases h
  · omega

theorem viewGet_ok_lt {fx : Fixes} {v : Option Bits} {views : List Nat} {buffers : List Bytes} {idx : Nat} {o : Option Bytes}
    (h : viewGet fx v views buffers idx = .ok o) : idx < views.length := by
  unfold viewGet at h
  split at h
  · cases h
  · rename_i x hx
    exact (List.getElem?_eq_some_iff.mp hx).1

theorem asStr_ok' {x : R (Option Bytes)} {o : Option Bytes} (h : asStr x = .ok o) : ∃ o', x = .ok o' := by
  unfold asStr at h
  obtain ⟨o', hx, _⟩ := ok_bind_inv h
  exact ⟨o', hx⟩

theorem fsbColGet_ok_lt {n : Int} {v : Option Bits} {data : Bytes} {idx : Nat} {o : Option Bytes}
    (h : fsbColGet Fixes.all n v data idx = .ok o) : idx < vlen (.fixedSizeBinary n v data) := by
  unfold fsbColGet at h
  obtain ⟨r, hn, h⟩ := ok_bind_inv h
  obtain ⟨n', len⟩ := r
  simp only at h
  have hidx : idx < len := by
    unfold fsbGet at h
    split at h
    · cases h
    · omega
  unfold fsbNew at hn
  simp only [Fixes.all, if_true] at hn
  simp only [vlen]
  split at hn
  · cases hn
  · split at hn
    · split at hn
      · cases hn; omega
      · cases hn
    · split at hn
      · cases hn
      · cases hn
        rename_i h0 h1 _
        have : ¬ n ≤ 0 := by omega
        simp only [this, if_false]
        exact hidx


theorem isSome_ok_lt_vlen {a : Arr} {idx : Nat} {b : Bool} (h : isSome Fixes.all a idx = .ok b) : idx < vlen a := by
  cases a with
  | null len =>
    simp only [isSome] at h
    obtain ⟨_, hc, _⟩ := ok_bind_inv h
    unfold nullCheck at hc
    simp only [Fixes.all, Bool.true_and, decide_eq_true_eq] at hc
    split at hc
    · cases hc
    · simp only [vlen]; omega
  | boolean len v vals =>
    simp only [isSome] at h
    obtain ⟨o, ho⟩ := optIsSome_ok h
    exact boolGet_ok_lt ho
  | prim ty v vals => simp only [isSome] at h; obtain ⟨o, ho⟩ := optIsSome_ok h; exact primGet_ok_lt ho
  | time ty u v vals => simp only [isSome] at h; obtain ⟨o, ho⟩ := optIsSome_ok h; exact primGet_ok_lt ho
  | timestamp u tz v vals => simp only [isSome] at h; obtain ⟨o, ho⟩ := optIsSome_ok h; exact primGet_ok_lt ho
  | decimal128 p s v vals => simp only [isSome] at h; obtain ⟨o, ho⟩ := optIsSome_ok h; exact primGet_ok_lt ho
  | bytes ty v offs data =>
    simp only [isSome] at h
    obtain ⟨o, ho⟩ := optIsSome_ok h
    unfold bytesColGet at ho
    simp only [vlen]
    split at ho
    · obtain ⟨o', ho'⟩ := asStr_ok' ho; exact bytesGet_ok_lt ho'
    · exact bytesGet_ok_lt ho
  | bytesView ty v views buffers =>
    simp only [isSome] at h
    obtain ⟨o, ho⟩ := optIsSome_ok h
    unfold viewColGet at ho
    simp only [vlen]
    split at ho
    · obtain ⟨o', ho'⟩ := asStr_ok' ho; exact viewGet_ok_lt ho'
    · exact viewGet_ok_lt ho
  | fixedSizeBinary n v data =>
    simp only [isSome] at h
    obtain ⟨o, ho⟩ := optIsSome_ok h
    exact fsbColGet_ok_lt ho
  | struct len v fs => simp only [isSome] at h; simp only [vlen]; split at h <;> first | omega | cases h
  | list l v offs fm el => simp only [isSome] at h; simp only [vlen]; split at h <;> first | omega | cases h
  | fixedSizeList len v n fm el => simp only [isSome] at h; simp only [vlen]; split at h <;> first | omega | cases h
  | map v offs mm ks vs => simp only [isSome] at h; simp only [vlen]; split at h <;> first | omega | cases h
  | dictionary ks vs =>
    simp only [isSome] at h
    split at h
    · obtain ⟨o, ho⟩ := optIsSome_ok h
      simp only [vlen]
      exact primGet_ok_lt ho
    · cases h
  | union types offs fs => simp only [isSome] at h; simp only [vlen]; split at h <;> first | omega | cases h

end SaModel.Props.C17
