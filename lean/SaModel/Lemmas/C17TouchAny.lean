import SaModel.Lemmas.C17TouchLeaf
/-
C17, `readAs_touch_in_range` — `deserialize_any` (targets `any` and `ignored`): structural recursion over the array.
-/
namespace SaModel.Props.C17
open SaModel SaModel.Read SaModel.Spec

theorem peel_anyLike {t : Target} (h : isAnyLike t = true) : peelTarget t = (t, false) := by
  cases t <;> simp [isAnyLike] at h <;> simp [peelTarget]

theorem elemTarget_anyLike {t : Target} (h : isAnyLike t = true) (k : Nat) : elemTarget t k = t := by
  cases t <;> simp [isAnyLike] at h <;> simp [elemTarget]

theorem entryTargets_anyLike {t : Target} (h : isAnyLike t = true) : entryTargets t = (t, t) := by
  cases t <;> simp [isAnyLike] at h <;> simp [entryTargets]

theorem variantTarget_anyLike {t : Target} (h : isAnyLike t = true) (pos : Nat) (name : String) : variantTarget t pos name = t := by
  cases t <;> simp [isAnyLike] at h <;> simp [variantTarget]

/-- the trait default `deserialize_any`: `is_some` answered "null" (then an `any` target stops), or the
`deserialize_any_some` of the reader ran -/
theorem anyAt_touch {a : Arr} {t : Target} (ht : isAnyLike t = true) {i : Nat} {d : DVal}
    (hsome : ∀ d, isSome Fixes.all a i = .ok true → readAnySome Fixes.all a i = .ok d → touchOK t a i = true)
    (h : anyAt Fixes.all a (readAnySome Fixes.all a) i = .ok d) : touchOK t a i = true := by
  unfold anyAt at h
  obtain ⟨b, hb, h⟩ := ok_bind_inv h
  cases b
  · exact touch_null_slot (isSome_ok_lt_lenOf hb) (by rw [peel_anyLike ht]; simp [ht]) (isSome_false_slotNull hb)
  · exact hsome d hb h

/-- the element loop of a list-like reader: every element read succeeded ⇒ `rangeOK` -/
theorem rangeOK_of_readRange {α} {g : Nat → R α} {f : Nat → Nat → Bool} {len : Nat} {so eo : Int} {s e : Nat} {xs : List α}
    (hs : so = (s : Int)) (he : eo = (e : Int)) (hle : s ≤ e) (hr : readRange g s (e - s) = .ok xs)
    (hel : ∀ k x, g (s + k) = .ok x → f k (s + k) = true ∧ s + k < len) : rangeOK f len so eo = true := by
  refine rangeOK_of_reads hs he hle ?_
  intro k hk
  obtain ⟨x, hx⟩ := readRange_ok_all _ _ _ hr k hk
  exact hel k x hx

mutual
theorem any_touch : ∀ (a : Arr), unionIdsOK a = true → ∀ (t : Target), isAnyLike t = true → ∀ (i : Nat) (d : DVal),
    anyAt Fixes.all a (readAnySome Fixes.all a) i = .ok d → touchOK t a i = true
  | .null _, _, t, ht, i, d, h | .boolean _ _ _, _, t, ht, i, d, h | .prim _ _ _, _, t, ht, i, d, h
  | .time _ _ _ _, _, t, ht, i, d, h | .timestamp _ _ _ _, _, t, ht, i, d, h | .decimal128 _ _ _ _, _, t, ht, i, d, h
  | .bytes _ _ _ _, _, t, ht, i, d, h | .bytesView _ _ _ _, _, t, ht, i, d, h | .fixedSizeBinary _ _ _, _, t, ht, i, d, h =>
    anyAt_touch ht (fun _ hs _ => touch_leaf t rfl (isSome_ok_leafIn rfl hs).1 (isSome_ok_leafIn rfl hs).2) h
  | .struct len v fs, hids, t, ht, i, d, h => by
    refine anyAt_touch ht (fun d hs h => ?_) h
    have hlt : i < len := by simpa only [lenOf] using isSome_ok_lt_lenOf hs
    unfold readAnySome at h
    split at h
    · cases h
    · obtain ⟨es, hes, _⟩ := ok_bind_inv h
      simp only [unionIdsOK] at hids
      refine touch_struct_any (by rw [peel_anyLike ht]; exact ht) hlt ?_
      rw [peel_anyLike ht]
      exact anyFields_touch fs hids t ht i es hes
  | .list l v offs fm el, hids, t, ht, i, d, h => by
    refine anyAt_touch ht (fun d hs h => ?_) h
    unfold readAnySome at h
    obtain ⟨r, hr, h⟩ := ok_bind_inv h
    obtain ⟨s, e⟩ := r
    obtain ⟨xs, hxs, _⟩ := ok_bind_inv h
    have hl := listRange_ok hr
    simp only [unionIdsOK] at hids
    refine touch_list hl.1 (rangeOK_of_readRange hl.2.1 hl.2.2.1 hl.2.2.2 hxs ?_)
    intro k x hx
    have := any_touch el hids t ht (s + k) x hx
    rw [peel_anyLike ht, elemTarget_anyLike ht]
    exact ⟨this, touchOK_lt this⟩
  | .fixedSizeList len v n fm el, hids, t, ht, i, d, h => by
    refine anyAt_touch ht (fun d hs h => ?_) h
    unfold readAnySome at h
    obtain ⟨r, hr, h⟩ := ok_bind_inv h
    obtain ⟨s, e⟩ := r
    obtain ⟨xs, hxs, _⟩ := ok_bind_inv h
    have hl := fslRange_ok hr
    simp only [unionIdsOK] at hids
    refine touch_fsl hl.1 hl.2.1 (rangeOK_of_readRange hl.2.2.1 hl.2.2.2.1 hl.2.2.2.2 hxs ?_)
    intro k x hx
    have := any_touch el hids t ht (s + k) x hx
    rw [peel_anyLike ht, elemTarget_anyLike ht]
    exact ⟨this, touchOK_lt this⟩
  | .map v offs mm ks vs, hids, t, ht, i, d, h => by
    refine anyAt_touch ht (fun d hs h => ?_) h
    unfold readAnySome at h
    obtain ⟨r, hr, h⟩ := ok_bind_inv h
    obtain ⟨s, e⟩ := r
    obtain ⟨xs, hxs, _⟩ := ok_bind_inv h
    have hl := listRange_ok hr
    simp only [unionIdsOK, Bool.and_eq_true] at hids
    refine touch_map hl.1 (rangeOK_of_readRange hl.2.1 hl.2.2.1 hl.2.2.2 hxs ?_)
      (rangeOK_of_readRange hl.2.1 hl.2.2.1 hl.2.2.2 hxs ?_)
    · intro k x hx
      obtain ⟨kk, hkk, _⟩ := ok_bind_inv hx
      have := any_touch ks hids.1 t ht (s + k) kk hkk
      rw [peel_anyLike ht, entryTargets_anyLike ht]
      exact ⟨this, touchOK_lt this⟩
    · intro k x hx
      obtain ⟨kk, _, hx⟩ := ok_bind_inv hx
      obtain ⟨vv, hvv, _⟩ := ok_bind_inv hx
      have := any_touch vs hids.2 t ht (s + k) vv hvv
      rw [peel_anyLike ht, entryTargets_anyLike ht]
      exact ⟨this, touchOK_lt this⟩
  | .dictionary ks vs, _, t, ht, i, d, h => by
    refine anyAt_touch ht (fun d hs h => ?_) h
    unfold readAnySome at h
    exact OkImp.bind_left (dictGetStr_touch t) _ h
  | .union types offs fs, hids, t, ht, i, d, h => by
    refine anyAt_touch ht (fun d hs h => ?_) h
    unfold readAnySome at h
    obtain ⟨r, hr, h⟩ := ok_bind_inv h
    obtain ⟨k, off⟩ := r
    have hu := unionSelect_ok hr
    simp only [unionIdsOK] at hids
    obtain ⟨fm, c, hn, hc⟩ := anyVariant_touch fs 0 hids t ht k off d h
    have hidx := indexOfTypeId_consecutive hids hu.2.1 (by rw [← hu.2.2.1]; exact hu.2.2.2.1)
    rw [← hu.2.2.1] at hidx
    refine touch_union hu.1 hidx ?_
    rw [hu.2.2.2.2]
    refine touchVariant_nth fs k _ off fm c hn ?_
    rw [peel_anyLike ht, variantTarget_anyLike ht]
    exact hc
theorem anyFields_touch : ∀ (fs : ArrFields), fieldsIdsOK fs = true → ∀ (t : Target), isAnyLike t = true →
    ∀ (i : Nat) (es : DEntries), readAnyFields Fixes.all fs i = .ok es → touchAll t fs i = true
  | .nil, _, _, _, _, _, _ => by simp [touchAll]
  | .cons fm a rest, hids, t, ht, i, es, h => by
    unfold readAnyFields at h
    obtain ⟨x, hx, h⟩ := ok_bind_inv h
    obtain ⟨r, hr, _⟩ := ok_bind_inv h
    simp only [fieldsIdsOK, Bool.and_eq_true] at hids
    simp only [touchAll, Bool.and_eq_true]
    exact ⟨any_touch a hids.1 t ht i x hx, anyFields_touch rest hids.2 t ht i r hr⟩
theorem anyVariant_touch : ∀ (fs : ArrUFields) (kk : Nat), ufieldsIdsOK fs kk = true → ∀ (t : Target), isAnyLike t = true →
    ∀ (k off : Nat) (d : DVal), readAnyVariant Fixes.all fs k off = .ok d →
    ∃ fm c, ArrUFields.nth fs k = some (fm, c) ∧ touchOK t c off = true
  | .nil, _, _, _, _, _, _, _, h => by unfold readAnyVariant at h; cases h
  | .cons _ fm a _, kk, hids, t, ht, 0, off, d, h => by
    unfold readAnyVariant at h
    obtain ⟨p, hp, _⟩ := ok_bind_inv h
    simp only [ufieldsIdsOK, Bool.and_eq_true] at hids
    exact ⟨fm, a, by simp [ArrUFields.nth], any_touch a hids.1.2 t ht off p hp⟩
  | .cons _ _ _ rest, kk, hids, t, ht, k + 1, off, d, h => by
    unfold readAnyVariant at h
    simp only [ufieldsIdsOK, Bool.and_eq_true] at hids
    obtain ⟨fm, c, hn, hc⟩ := anyVariant_touch rest (kk + 1) hids.2 t ht k off d h
    exact ⟨fm, c, by simpa [ArrUFields.nth] using hn, hc⟩
end

/-- `deserialize_any` (and `IgnoredAny`, which drives it) -/
theorem readAny_touch {a : Arr} (hids : unionIdsOK a = true) {t : Target} (ht : isAnyLike t = true) {i : Nat} {d : DVal}
    (h : readAny Fixes.all a i = .ok d) : touchOK t a i = true :=
  any_touch a hids t ht i d h

end SaModel.Props.C17
