import SaModel.Lemmas.C17Range
import SaModel.Spec.TouchRange
/-
C17, `readAs_touch_in_range` — basic layer.

* `unionIdsOK a`: every union node of `a` lists its children under the type ids 0, 1, 2, … in order.  This is the
  one thing `ArrayDeserializer::new` validates that the reads do not re-check (`EnumDeserializer` indexes its
  variants by type id), so it is the hypothesis of the touch theorems; `new_ok_unionIdsOK`: `new` establishes it.
* introduction rules for `touchOK` per array constructor (`touch_leaf`, `touch_struct`, `touch_list`, …).
* `rangeOK_of_reads`: the element loop.
-/
namespace SaModel.Props.C17
open SaModel SaModel.Read SaModel.Spec

/-! ### consecutive union type ids -/

mutual
def unionIdsOK : Arr → Bool
  | .struct _ _ fs => fieldsIdsOK fs
  | .list _ _ _ _ el => unionIdsOK el
  | .fixedSizeList _ _ _ _ el => unionIdsOK el
  | .map _ _ _ ks vs => unionIdsOK ks && unionIdsOK vs
  | .union _ _ fs => ufieldsIdsOK fs 0
  | _ => true
def fieldsIdsOK : ArrFields → Bool
  | .nil => true
  | .cons _ a r => unionIdsOK a && fieldsIdsOK r
def ufieldsIdsOK : ArrUFields → Nat → Bool
  | .nil, _ => true
  | .cons tid _ a r, k => tid == Int.ofNat k && unionIdsOK a && ufieldsIdsOK r (k + 1)
end

theorem bind_unit_ok {x : R Unit} {f : Unit → R Unit} (h : (x >>= f) = .ok ()) : x = .ok () ∧ f () = .ok () := by
  obtain ⟨u, hx, hf⟩ := ok_bind_inv h
  exact ⟨hx, hf⟩

mutual
/-- `ArrayDeserializer::new` succeeded ⇒ all union nodes have consecutive type ids -/
theorem new_ok_unionIdsOK : ∀ (a : Arr), new Fixes.all a = .ok () → unionIdsOK a = true
  | .null _, _ | .boolean _ _ _, _ | .prim _ _ _, _ | .time _ _ _ _, _ | .decimal128 _ _ _ _, _
  | .timestamp _ _ _ _, _ | .bytes _ _ _ _, _ | .bytesView _ _ _ _, _ | .fixedSizeBinary _ _ _, _
  | .dictionary _ _, _ => by simp [unionIdsOK]
  | .struct _ _ fs, h => by
    unfold new at h; simp only [unionIdsOK]; exact newFields_ok_ids fs h
  | .list _ _ _ fm el, h => by
    unfold new at h; simp only [unionIdsOK]
    exact new_ok_unionIdsOK el (bind_unit_ok h).2
  | .fixedSizeList _ _ n fm el, h => by
    unfold new at h; simp only [unionIdsOK]
    have h2 := (bind_unit_ok h).2
    obtain ⟨u, hx, _⟩ := ok_bind_inv h2
    exact new_ok_unionIdsOK el hx
  | .map _ _ mm ks vs, h => by
    unfold new at h; simp only [unionIdsOK, Bool.and_eq_true]
    have h2 := (bind_unit_ok h).2
    have h3 := bind_unit_ok h2
    exact ⟨new_ok_unionIdsOK ks h3.1, new_ok_unionIdsOK vs (bind_unit_ok h3.2).2⟩
  | .union types offs fs, h => by
    unfold new at h; simp only [unionIdsOK]
    split at h
    · cases h
    · split at h
      · cases h
      · exact newUFields_ok_ids fs 0 h
theorem newFields_ok_ids : ∀ (fs : ArrFields), newFields Fixes.all fs = .ok () → fieldsIdsOK fs = true
  | .nil, _ => by simp [fieldsIdsOK]
  | .cons fm a rest, h => by
    unfold newFields at h; simp only [fieldsIdsOK, Bool.and_eq_true]
    have h2 := bind_unit_ok (bind_unit_ok h).2
    exact ⟨new_ok_unionIdsOK a h2.1, newFields_ok_ids rest h2.2⟩
theorem newUFields_ok_ids : ∀ (fs : ArrUFields) (k : Nat), newUFields Fixes.all fs k = .ok () → ufieldsIdsOK fs k = true
  | .nil, _, _ => by simp [ufieldsIdsOK]
  | .cons tid fm a rest, k, h => by
    unfold newUFields at h; simp only [ufieldsIdsOK, Bool.and_eq_true]
    split at h
    · cases h
    · rename_i hne
      have h2 := bind_unit_ok (bind_unit_ok h).2
      refine ⟨⟨?_, new_ok_unionIdsOK a h2.1⟩, newUFields_ok_ids rest (k + 1) h2.2⟩
      simpa using hne
end

theorem indexOfTypeId_go_consecutive : ∀ (fs : ArrUFields) (k p : Nat), ufieldsIdsOK fs k = true → p < fs.length →
    indexOfTypeId.go (Int.ofNat (k + p)) (ArrUFields.ids fs) k = some (k + p)
  | .nil, _, _, _, hp => by simp [ArrUFields.length] at hp
  | .cons tid fm a rest, k, p, h, hp => by
    simp only [ufieldsIdsOK, Bool.and_eq_true, beq_iff_eq] at h
    obtain ⟨⟨htid, _⟩, hrest⟩ := h
    subst htid
    simp only [ArrUFields.ids, indexOfTypeId.go]
    cases p with
    | zero => simp
    | succ p =>
      have hne : ¬ (Int.ofNat k = Int.ofNat (k + (p + 1))) := by
        intro hc; have := Int.ofNat.inj hc; omega
      simp only [beq_iff_eq, hne, if_false]
      have := indexOfTypeId_go_consecutive rest (k + 1) p hrest (by simp [ArrUFields.length] at hp; omega)
      have e : k + 1 + p = k + (p + 1) := by omega
      rw [e] at this
      exact this

/-- with consecutive type ids the Arrow reading (child whose id is `t`) and the reader (child at position `t`) agree -/
theorem indexOfTypeId_consecutive {fs : ArrUFields} {t : Int} (h : ufieldsIdsOK fs 0 = true) (h0 : 0 ≤ t)
    (hlt : t.toNat < fs.length) : indexOfTypeId (ArrUFields.ids fs) t = some t.toNat := by
  have := indexOfTypeId_go_consecutive fs 0 t.toNat h hlt
  simp only [Nat.zero_add] at this
  have e : Int.ofNat t.toNat = t := Int.toNat_of_nonneg h0
  rw [e] at this
  exact this

theorem nth_unionIdsOK : ∀ (fs : ArrUFields) (k p : Nat) (fm : FieldMeta) (c : Arr), ufieldsIdsOK fs k = true →
    ArrUFields.nth fs p = some (fm, c) → unionIdsOK c = true
  | .nil, _, _, _, _, _, h => by simp [ArrUFields.nth] at h
  | .cons _ _ a _, _, 0, fm, c, hi, h => by
    simp only [ArrUFields.nth, Option.some.injEq, Prod.mk.injEq] at h
    simp only [ufieldsIdsOK, Bool.and_eq_true] at hi
    rw [← h.2]; exact hi.1.2
  | .cons _ _ _ rest, k, p + 1, fm, c, hi, h => by
    simp only [ArrUFields.nth] at h
    simp only [ufieldsIdsOK, Bool.and_eq_true] at hi
    exact nth_unionIdsOK rest (k + 1) p fm c hi.2 h

/-! ### introduction rules for `touchOK` -/

theorem touchOK_lt {t : Target} {a : Arr} {i : Nat} (h : touchOK t a i = true) : i < lenOf a := by
  unfold touchOK at h
  split at h
  · cases h
  · omega

/-- `touchOK` looks at the target only through `peelTarget` -/
theorem touchOK_congr {t t' : Target} (h : peelTarget t = peelTarget t') (a : Arr) (i : Nat) :
    touchOK t a i = touchOK t' a i := by
  unfold touchOK
  rw [h]

theorem touchOK_newtype (t : Target) (a : Arr) (i : Nat) : touchOK (.newtype t) a i = touchOK t a i :=
  touchOK_congr (by simp [peelTarget]) a i

/-- a null slot under a target that stops there -/
theorem touch_null_slot {t : Target} {a : Arr} {i : Nat} (hlt : i < lenOf a)
    (hs : ((peelTarget t).2 || isAnyLike (peelTarget t).1) = true) (hn : slotNull a i = true) : touchOK t a i = true := by
  unfold touchOK
  have : ¬ i ≥ lenOf a := by omega
  simp only [this, if_false, hs, hn, Bool.and_self, if_true]

theorem touchOK_option_of {t : Target} {a : Arr} {i : Nat} (h : touchOK t a i = true) : touchOK (.option t) a i = true := by
  have hlt := touchOK_lt h
  cases hn : slotNull a i with
  | true => exact touch_null_slot hlt (by simp [peelTarget]) hn
  | false =>
    unfold touchOK at h ⊢
    simp only [peelTarget, hn, Bool.and_false] at h ⊢
    exact h

def isLeaf : Arr → Bool
  | .struct _ _ _ | .list _ _ _ _ _ | .fixedSizeList _ _ _ _ _ | .map _ _ _ _ _ | .dictionary _ _ | .union _ _ _ => false
  | _ => true

/-- a leaf column: the row is below the length and the slot is null or designates bytes inside its buffer -/
theorem touch_leaf (t : Target) {a : Arr} {i : Nat} (hl : isLeaf a = true) (hlt : i < lenOf a)
    (hs : leafSlotOK a i = true) : touchOK t a i = true := by
  unfold touchOK
  have : ¬ i ≥ lenOf a := by omega
  simp only [this, if_false]
  split
  · rfl
  · cases a <;> simp [isLeaf] at hl <;> exact hs

/-- the leaves whose slots designate no byte range -/
theorem leafSlotOK_of_leafOK {a : Arr} {i : Nat} (h : leafOK a i = true) : leafSlotOK a i = true := by
  simp only [leafSlotOK, h, Bool.or_true]

/-! #### containers -/

theorem touch_struct_named {t : Target} {tfs : TFields} {len : Nat} {v : Option Bits} {fs : ArrFields} {i : Nat}
    (hp : (peelTarget t).1 = .struct tfs) (hlt : i < len) (h : touchNamed tfs fs i = true) :
    touchOK t (.struct len v fs) i = true := by
  unfold touchOK
  have : ¬ i ≥ lenOf (.struct len v fs) := by simp only [lenOf]; omega
  simp only [this, if_false]
  split
  · rfl
  · simp only [hp]; exact h

theorem touch_struct_tuple {t : Target} {ts : Targets} {len : Nat} {v : Option Bits} {fs : ArrFields} {i : Nat}
    (hp : (peelTarget t).1 = .tuple ts ∨ (peelTarget t).1 = .tupleStruct ts) (hlt : i < len) (h : touchTuple ts fs i = true) :
    touchOK t (.struct len v fs) i = true := by
  unfold touchOK
  have : ¬ i ≥ lenOf (.struct len v fs) := by simp only [lenOf]; omega
  simp only [this, if_false]
  split
  · rfl
  · rcases hp with hp | hp <;> (simp only [hp]; exact h)

theorem touch_struct_map {t k w : Target} {len : Nat} {v : Option Bits} {fs : ArrFields} {i : Nat}
    (hp : (peelTarget t).1 = .map k w) (hlt : i < len) (h : touchAll w fs i = true) :
    touchOK t (.struct len v fs) i = true := by
  unfold touchOK
  have : ¬ i ≥ lenOf (.struct len v fs) := by simp only [lenOf]; omega
  simp only [this, if_false]
  split
  · rfl
  · simp only [hp]; exact h

theorem touch_struct_any {t : Target} {len : Nat} {v : Option Bits} {fs : ArrFields} {i : Nat}
    (hp : isAnyLike (peelTarget t).1 = true) (hlt : i < len) (h : touchAll (peelTarget t).1 fs i = true) :
    touchOK t (.struct len v fs) i = true := by
  unfold touchOK
  have : ¬ i ≥ lenOf (.struct len v fs) := by simp only [lenOf]; omega
  simp only [this, if_false]
  split
  · rfl
  · generalize (peelTarget t).1 = c at hp h
    cases c <;> simp [isAnyLike] at hp <;> exact h

theorem touch_list {t : Target} {l : Bool} {v : Option Bits} {offs : List Int} {fm : FieldMeta} {el : Arr} {i : Nat}
    (hlt : i + 1 < offs.length)
    (h : rangeOK (fun k j => touchOK (elemTarget (peelTarget t).1 k) el j) (lenOf el) (offs.getD i 0) (offs.getD (i + 1) 0) = true) :
    touchOK t (.list l v offs fm el) i = true := by
  unfold touchOK
  have : ¬ i ≥ lenOf (.list l v offs fm el) := by simp only [lenOf]; omega
  simp only [this, if_false]
  split
  · rfl
  · exact h

theorem touch_fsl {t : Target} {len : Nat} {v : Option Bits} {n : Int} {fm : FieldMeta} {el : Arr} {i : Nat}
    (hlt : i < len) (hn : 0 ≤ n)
    (h : rangeOK (fun k j => touchOK (elemTarget (peelTarget t).1 k) el j) (lenOf el) (i * n) ((i + 1) * n) = true) :
    touchOK t (.fixedSizeList len v n fm el) i = true := by
  unfold touchOK
  have : ¬ i ≥ lenOf (.fixedSizeList len v n fm el) := by simp only [lenOf]; omega
  simp only [this, if_false]
  split
  · rfl
  · have hn' : ¬ n < 0 := by omega
    simp only [hn', if_false]; exact h

theorem touch_map {t : Target} {v : Option Bits} {offs : List Int} {mm : MapMeta} {ks vs : Arr} {i : Nat}
    (hlt : i + 1 < offs.length)
    (hk : rangeOK (fun _ j => touchOK (entryTargets (peelTarget t).1).1 ks j) (lenOf ks) (offs.getD i 0) (offs.getD (i + 1) 0) = true)
    (hv : rangeOK (fun _ j => touchOK (entryTargets (peelTarget t).1).2 vs j) (lenOf vs) (offs.getD i 0) (offs.getD (i + 1) 0) = true) :
    touchOK t (.map v offs mm ks vs) i = true := by
  unfold touchOK
  have : ¬ i ≥ lenOf (.map v offs mm ks vs) := by simp only [lenOf]; omega
  simp only [this, if_false]
  split
  · rfl
  · simp only [hk, hv, Bool.and_self]

theorem touch_dict {t : Target} {ks vs : Arr} {i : Nat} (hlt : i < lenOf ks)
    (h : ∀ j, decodeAt ks i = .ok (.int j) → 0 ≤ j ∧ j.toNat < lenOf vs ∧ leafSlotOK vs j.toNat = true) :
    touchOK t (.dictionary ks vs) i = true := by
  unfold touchOK
  have : ¬ i ≥ lenOf (.dictionary ks vs) := by simp only [lenOf]; omega
  simp only [this, if_false]
  split
  · rfl
  · split
    · rename_i j hj
      have := h j hj
      simp [this.1, this.2.1, this.2.2]
    · rfl

theorem touch_union {t : Target} {types : List Int} {offs : Option (List Int)} {fs : ArrUFields} {i pos : Nat}
    (hlt : i < types.length) (hidx : indexOfTypeId (ArrUFields.ids fs) (types.getD i 0) = some pos)
    (h : touchVariant fs pos (variantTarget (peelTarget t).1 pos) (unionSlot offs i) = true) :
    touchOK t (.union types offs fs) i = true := by
  unfold touchOK
  have : ¬ i ≥ lenOf (.union types offs fs) := by simp only [lenOf]; omega
  simp only [this, if_false]
  split
  · rfl
  · simp only [hidx]; exact h

theorem touchVariant_nth : ∀ (fs : ArrUFields) (k : Nat) (vt : String → Target) (j : Nat) (fm : FieldMeta) (c : Arr),
    ArrUFields.nth fs k = some (fm, c) → touchOK (vt fm.name) c j = true → touchVariant fs k vt (some j) = true
  | .nil, _, _, _, _, _, h, _ => by simp [ArrUFields.nth] at h
  | .cons _ _ a _, 0, vt, j, fm, c, h, ht => by
    simp only [ArrUFields.nth, Option.some.injEq, Prod.mk.injEq] at h
    obtain ⟨h1, h2⟩ := h
    subst h1 h2
    have hlt := touchOK_lt ht
    have : ¬ j ≥ lenOf a := by omega
    simp only [touchVariant, this, if_false]
    exact ht
  | .cons _ _ _ rest, k + 1, vt, j, fm, c, h, ht => by
    simp only [ArrUFields.nth] at h
    simp only [touchVariant]
    exact touchVariant_nth rest k vt j fm c h ht

/-! ### the element loop -/

/-- elements `s … e-1` of a child, every one of them in range ⇒ `rangeOK` (an empty range lies anywhere) -/
theorem rangeOK_of_reads {f : Nat → Nat → Bool} {len : Nat} {so eo : Int} {s e : Nat} (hs : so = (s : Int)) (he : eo = (e : Int))
    (hle : s ≤ e) (hel : ∀ k, k < e - s → f k (s + k) = true ∧ s + k < len) : rangeOK f len so eo = true := by
  subst hs he
  unfold rangeOK
  split
  · rfl
  · rename_i hne
    have hne' : s ≠ e := by
      intro hc; apply hne; simp [hc]
    have hlast := (hel (e - s - 1) (by omega)).2
    have hc : 0 ≤ (s : Int) ∧ (s : Int) ≤ (e : Int) ∧ (e : Int) ≤ (len : Int) := by omega
    simp only [hc, and_self, if_true, Int.toNat_natCast, List.all_eq_true, List.mem_range]
    intro k hk
    exact (hel k hk).1

theorem readRange_ok_all {α} {f : Nat → R α} : ∀ (n s : Nat) (xs : List α), readRange f s n = .ok xs →
    ∀ k, k < n → ∃ x, f (s + k) = .ok x
  | 0, _, _, _, k, hk => by omega
  | n + 1, s, xs, h, k, hk => by
    unfold readRange at h
    obtain ⟨x, hx, h⟩ := ok_bind_inv h
    obtain ⟨ys, hys, _⟩ := ok_bind_inv h
    cases k with
    | zero => exact ⟨x, hx⟩
    | succ k =>
      have := readRange_ok_all n (s + 1) ys hys k (by omega)
      have e : s + 1 + k = s + (k + 1) := by omega
      rw [e] at this
      exact this

end SaModel.Props.C17
