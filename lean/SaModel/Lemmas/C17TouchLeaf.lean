import SaModel.Lemmas.C17TouchBasic
/-
C17, `readAs_touch_in_range` — the readers that do not move to another array: `is_some`, the scalar reads,
dictionary lookups, the heads of the list / fixed-size list / map / union reads.
-/
namespace SaModel.Props.C17
open SaModel SaModel.Read SaModel.Spec

/-- a successful outcome implies `P` -/
def OkImp {α} (x : R α) (P : Prop) : Prop := ∀ a, x = .ok a → P

theorem OkImp.fail {α} {P : Prop} (m : String) : OkImp (fail m : R α) P := by intro a h; cases h
theorem OkImp.notImpl {α} {P : Prop} : OkImp (notImpl : R α) P := by intro a h; cases h
theorem OkImp.rejected {α} {P : Prop} : OkImp (rejected : R α) P := by intro a h; cases h
theorem OkImp.bind_left {α β} {P : Prop} {x : R α} {f : α → R β} (hx : OkImp x P) : OkImp (x >>= f) P := by
  intro b h; obtain ⟨a, ha, _⟩ := ok_bind_inv h; exact hx a ha
theorem OkImp.bind_right {α β} {P : Prop} {x : R α} {f : α → R β} (hf : ∀ a, OkImp (f a) P) : OkImp (x >>= f) P := by
  intro b h; obtain ⟨a, _, ha⟩ := ok_bind_inv h; exact hf a b ha
theorem OkImp.mono {α} {P Q : Prop} {x : R α} (h : OkImp x P) (hpq : P → Q) : OkImp x Q :=
  fun a ha => hpq (h a ha)

/-! ### primitives: a successful get is below the length -/

theorem okImp_getRequired {α} {P : Prop} {x : R (Option α)} (h : OkImp x P) : OkImp (getRequired x) P := by
  intro a ha; exact h _ (getRequired_ok ha)

theorem okImp_primGet {v : Option Bits} {vals : List Int} {idx : Nat} : OkImp (primGet Fixes.all v vals idx) (idx < vals.length) :=
  fun _ h => primGet_ok_lt h

theorem okImp_boolGet {len : Nat} {v : Option Bits} {vals : Bits} {idx : Nat} :
    OkImp (boolGet Fixes.all len v vals idx) (idx < len) :=
  fun _ h => boolGet_ok_lt h

theorem okImp_nullCheck {len idx : Nat} : OkImp (nullCheck Fixes.all len idx) (idx < len) := by
  intro u h
  unfold nullCheck at h
  simp only [Fixes.all, Bool.true_and, decide_eq_true_eq] at h
  split at h
  · cases h
  · omega

theorem okImp_codecRead {fmt : Int → R DVal} {v : Option Bits} {vals : List Int} {idx : Nat} :
    OkImp (codecRead Fixes.all fmt v vals idx) (idx < vals.length) := by
  unfold codecRead
  exact OkImp.bind_left (okImp_getRequired okImp_primGet)

/-! ### `is_some` -/

theorem isSome_ok_lt_lenOf {a : Arr} {idx : Nat} {b : Bool} (h : isSome Fixes.all a idx = .ok b) : idx < lenOf a := by
  have hv := isSome_ok_lt_vlen h
  cases a with
  | dictionary ks vs =>
    cases ks <;> first
      | (simp only [isSome] at h; cases h; done)
      | (simpa only [lenOf, vlen] using hv)
  | _ => simpa only [lenOf, vlen] using hv

theorem asStr_none {x : R (Option Bytes)} (h : asStr x = .ok none) : x = .ok none := by
  unfold asStr at h
  obtain ⟨o, hx, h⟩ := ok_bind_inv h
  cases o
  · exact hx
  · simp only at h
    split at h <;> cases h

theorem optIsSome_false {α} {x : R (Option α)} (h : optIsSome x = .ok false) : x = .ok none := by
  unfold optIsSome at h
  obtain ⟨o, hx, h⟩ := ok_bind_inv h
  cases o
  · exact hx
  · cases h

theorem isValid_of_primGet_none {v : Option Bits} {vals : List Int} {idx : Nat}
    (h : primGet Fixes.all v vals idx = .ok none) : isValid v idx = .ok false := by
  unfold primGet at h
  split at h
  · cases h
  · obtain ⟨b, hb, h⟩ := ok_bind_inv h
    rw [validityIsSet_all] at hb
    cases b
    · exact hb
    · cases h

theorem isValid_of_boolGet_none {len : Nat} {v : Option Bits} {vals : Bits} {idx : Nat}
    (h : boolGet Fixes.all len v vals idx = .ok none) : isValid v idx = .ok false := by
  unfold boolGet at h
  split at h
  · cases h
  · obtain ⟨b, hb, h⟩ := ok_bind_inv h
    rw [validityIsSet_all] at hb
    cases b
    · exact hb
    · simp only [if_true] at h
      obtain ⟨_, _, h⟩ := ok_bind_inv h
      cases h

theorem isValid_of_bytesGet_none {v : Option Bits} {offs : List Int} {data : Bytes} {idx : Nat}
    (h : bytesGet Fixes.all v offs data idx = .ok none) : isValid v idx = .ok false := by
  unfold bytesGet at h
  simp only [show Fixes.all.bytesGet = true from rfl, if_true] at h
  split at h
  · cases h
  · obtain ⟨b, hb, h⟩ := ok_bind_inv h
    rw [validityIsSet_all] at hb
    cases b
    · exact hb
    · simp only [if_true] at h
      split at h
      · obtain ⟨_, _, h⟩ := ok_bind_inv h
        obtain ⟨_, _, h⟩ := ok_bind_inv h
        split at h <;> cases h
      · cases h

theorem isValid_of_viewGet_none {v : Option Bits} {views : List Nat} {buffers : List Bytes} {idx : Nat}
    (h : viewGet Fixes.all v views buffers idx = .ok none) : isValid v idx = .ok false := by
  unfold viewGet at h
  split at h
  · cases h
  · obtain ⟨b, hb, h⟩ := ok_bind_inv h
    rw [validityIsSet_all] at hb
    cases b
    · exact hb
    · simp only [if_true] at h
      obtain ⟨_, _, h⟩ := ok_bind_inv h
      cases h

theorem isValid_of_fsbColGet_none {n : Int} {v : Option Bits} {data : Bytes} {idx : Nat}
    (h : fsbColGet Fixes.all n v data idx = .ok none) : isValid v idx = .ok false := by
  unfold fsbColGet at h
  obtain ⟨r, _, h⟩ := ok_bind_inv h
  obtain ⟨n', len⟩ := r
  simp only at h
  unfold fsbGet at h
  split at h
  · cases h
  · obtain ⟨b, hb, h⟩ := ok_bind_inv h
    rw [validityIsSet_all] at hb
    cases b
    · exact hb
    · simp only [if_true] at h
      split at h <;> cases h

theorem slotNull_of_isValid {a : Arr} {i : Nat} (hn : ∀ len, a ≠ .null len) (hd : ∀ ks vs, a ≠ .dictionary ks vs)
    (h : isValid (validityOf a) i = .ok false) : slotNull a i = true := by
  cases a <;> first
    | (exact absurd rfl (hn _))
    | (exact absurd rfl (hd _ _))
    | (simp only [slotNull, h]; rfl)

theorem tryIntoUsize_ok {x : Int} {n : Nat} (h : tryIntoUsize x = .ok n) : 0 ≤ x ∧ x = (n : Int) := by
  unfold tryIntoUsize at h
  split at h
  · rename_i h0
    cases h
    exact ⟨h0, (Int.toNat_of_nonneg h0).symm⟩
  · cases h

/-! ### a successful `get` of a byte column: the slot is null, or what it designates lies inside its buffer -/

theorem asStr_ok_same {x : R (Option Bytes)} {o : Option Bytes} (h : asStr x = .ok o) : x = .ok o := by
  cases o with
  | none => exact asStr_none h
  | some b => exact (asStr_ok h).1

/-- `BytesView::get` succeeded: a null slot, or `0 ≤ offsets[i] ≤ offsets[i+1] ≤ data.len()` (the slice `data[start..end]`
exists — also required of an empty pair) -/
theorem bytesGet_ok_leafSlot {ty : BytesTy} {v : Option Bits} {offs : List Int} {data : Bytes} {idx : Nat} {o : Option Bytes}
    (h : bytesGet Fixes.all v offs data idx = .ok o) : leafSlotOK (.bytes ty v offs data) idx = true := by
  cases o with
  | none =>
    have := slotNull_of_isValid (a := .bytes ty v offs data) (by intros; simp) (by intros; simp) (isValid_of_bytesGet_none h)
    simp only [leafSlotOK, this, Bool.true_or]
  | some b =>
    apply leafSlotOK_of_leafOK
    unfold bytesGet at h
    simp only [show Fixes.all.bytesGet = true from rfl, if_true] at h
    split at h
    · cases h
    · rename_i hlen
      obtain ⟨valid, _, h⟩ := ok_bind_inv h
      cases valid
      · cases h
      · have h1 : idx < offs.length := by omega
        have h2 : idx + 1 < offs.length := by omega
        simp only [List.getElem?_eq_getElem h1, List.getElem?_eq_getElem h2, if_true] at h
        obtain ⟨s, hs, h⟩ := ok_bind_inv h
        obtain ⟨e, he, h⟩ := ok_bind_inv h
        split at h
        · rename_i hc
          have hs' := tryIntoUsize_ok hs
          have he' := tryIntoUsize_ok he
          simp only [leafOK, List.getD, List.getElem?_eq_getElem h1, List.getElem?_eq_getElem h2, Option.getD_some,
            decide_eq_true_eq]
          omega
        · cases h

/-- `BytesViewView::get` succeeded: a null slot, or the descriptor is inline, or it names a buffer the view has and a
range inside that buffer -/
theorem viewGet_ok_leafSlot {ty : ViewTy} {v : Option Bits} {views : List Nat} {buffers : List Bytes} {idx : Nat}
    {o : Option Bytes} (h : viewGet Fixes.all v views buffers idx = .ok o) :
    leafSlotOK (.bytesView ty v views buffers) idx = true := by
  cases o with
  | none =>
    have := slotNull_of_isValid (a := .bytesView ty v views buffers) (by intros; simp) (by intros; simp)
      (isValid_of_viewGet_none h)
    simp only [leafSlotOK, this, Bool.true_or]
  | some b =>
    apply leafSlotOK_of_leafOK
    unfold viewGet at h
    split at h
    · cases h
    · rename_i desc hd
      obtain ⟨valid, _, h⟩ := ok_bind_inv h
      cases valid
      · cases h
      · simp only [if_true] at h
        obtain ⟨b', hb, _⟩ := ok_bind_inv h
        have hg : views.getD idx 0 = desc := by simp [List.getD, hd]
        simp only [leafOK, hg]
        unfold viewBytes at hb
        simp only at hb
        split at hb
        · rename_i hc; simp only [hc, if_true]
        · rename_i hc
          simp only [hc, if_false]
          split at hb
          · cases hb
          · rename_i buf hbuf
            simp only [hbuf]
            split at hb
            · rename_i hr; simpa using hr
            · cases hb

/-- a row below the length of a FixedSizeBinary column (`n > 0`, `i < data.len() / n`) lies inside the data -/
theorem fsb_leafOK_of_lt {n : Int} {v : Option Bits} {data : Bytes} {i : Nat}
    (h : i < lenOf (.fixedSizeBinary n v data)) : leafOK (.fixedSizeBinary n v data) i = true := by
  simp only [lenOf] at h
  split at h
  · omega
  · rename_i hn
    have hpos : 0 < n.toNat := by omega
    have := (Nat.le_div_iff_mul_le hpos).mp (Nat.succ_le_of_lt h)
    simp only [leafOK, decide_eq_true_eq]
    exact ⟨by omega, this⟩

/-- the slot facts of a successful `get`, per byte column: row below the length, slot null or in range -/
def LeafIn (a : Arr) (i : Nat) : Prop := i < lenOf a ∧ leafSlotOK a i = true

theorem okImp_bytesColGet {ty : BytesTy} {v : Option Bits} {offs : List Int} {data : Bytes} {idx : Nat} :
    OkImp (bytesColGet Fixes.all ty v offs data idx) (LeafIn (.bytes ty v offs data) idx) := by
  intro o ho
  unfold bytesColGet at ho
  split at ho
  · have ho' := asStr_ok_same ho
    exact ⟨by simpa only [lenOf] using bytesGet_ok_lt ho', bytesGet_ok_leafSlot ho'⟩
  · exact ⟨by simpa only [lenOf] using bytesGet_ok_lt ho, bytesGet_ok_leafSlot ho⟩

theorem okImp_viewColGet {ty : ViewTy} {v : Option Bits} {views : List Nat} {buffers : List Bytes} {idx : Nat} :
    OkImp (viewColGet Fixes.all ty v views buffers idx) (LeafIn (.bytesView ty v views buffers) idx) := by
  intro o ho
  unfold viewColGet at ho
  split at ho
  · have ho' := asStr_ok_same ho
    exact ⟨by simpa only [lenOf] using viewGet_ok_lt ho', viewGet_ok_leafSlot ho'⟩
  · exact ⟨by simpa only [lenOf] using viewGet_ok_lt ho, viewGet_ok_leafSlot ho⟩

theorem okImp_fsbColGet {n : Int} {v : Option Bits} {data : Bytes} {idx : Nat} :
    OkImp (fsbColGet Fixes.all n v data idx) (LeafIn (.fixedSizeBinary n v data) idx) := by
  intro o ho
  have hlt : idx < lenOf (.fixedSizeBinary n v data) := by
    have := fsbColGet_ok_lt ho
    simpa only [lenOf, vlen] using this
  exact ⟨hlt, leafSlotOK_of_leafOK (fsb_leafOK_of_lt hlt)⟩

/-- a successful `is_some` of a leaf column: the row is below the length and the slot is null or in range (every
`is_some` of a byte column goes through its `get`) -/
theorem isSome_ok_leafIn {a : Arr} (hl : isLeaf a = true) {idx : Nat} {b : Bool} (h : isSome Fixes.all a idx = .ok b) :
    LeafIn a idx := by
  refine ⟨isSome_ok_lt_lenOf h, ?_⟩
  cases a with
  | bytes ty v offs data =>
    simp only [isSome] at h
    obtain ⟨o, ho⟩ := optIsSome_ok h
    exact (okImp_bytesColGet o ho).2
  | bytesView ty v views buffers =>
    simp only [isSome] at h
    obtain ⟨o, ho⟩ := optIsSome_ok h
    exact (okImp_viewColGet o ho).2
  | fixedSizeBinary n v data =>
    simp only [isSome] at h
    obtain ⟨o, ho⟩ := optIsSome_ok h
    exact (okImp_fsbColGet o ho).2
  | struct _ _ _ | list _ _ _ _ _ | fixedSizeList _ _ _ _ _ | map _ _ _ _ _ | dictionary _ _ | union _ _ _ =>
    simp [isLeaf] at hl
  | _ => exact leafSlotOK_of_leafOK rfl

/-- `is_some` answered "null" ⇒ the bitmap marks the slot as null (so `Option` / `any` targets stop here) -/
theorem isSome_false_slotNull {a : Arr} {idx : Nat} (h : isSome Fixes.all a idx = .ok false) : slotNull a idx = true := by
  cases a with
  | null len => simp [slotNull]
  | boolean len v vals =>
    simp only [isSome] at h
    exact slotNull_of_isValid (by intros; simp) (by intros; simp) (isValid_of_boolGet_none (optIsSome_false h))
  | prim ty v vals =>
    simp only [isSome] at h
    exact slotNull_of_isValid (by intros; simp) (by intros; simp) (isValid_of_primGet_none (optIsSome_false h))
  | time ty u v vals =>
    simp only [isSome] at h
    exact slotNull_of_isValid (by intros; simp) (by intros; simp) (isValid_of_primGet_none (optIsSome_false h))
  | timestamp u tz v vals =>
    simp only [isSome] at h
    exact slotNull_of_isValid (by intros; simp) (by intros; simp) (isValid_of_primGet_none (optIsSome_false h))
  | decimal128 p s v vals =>
    simp only [isSome] at h
    exact slotNull_of_isValid (by intros; simp) (by intros; simp) (isValid_of_primGet_none (optIsSome_false h))
  | bytes ty v offs data =>
    simp only [isSome] at h
    have h' := optIsSome_false h
    unfold bytesColGet at h'
    refine slotNull_of_isValid (by intros; simp) (by intros; simp) ?_
    split at h'
    · exact isValid_of_bytesGet_none (asStr_none h')
    · exact isValid_of_bytesGet_none h'
  | bytesView ty v views buffers =>
    simp only [isSome] at h
    have h' := optIsSome_false h
    unfold viewColGet at h'
    refine slotNull_of_isValid (by intros; simp) (by intros; simp) ?_
    split at h'
    · exact isValid_of_viewGet_none (asStr_none h')
    · exact isValid_of_viewGet_none h'
  | fixedSizeBinary n v data =>
    simp only [isSome] at h
    exact slotNull_of_isValid (by intros; simp) (by intros; simp) (isValid_of_fsbColGet_none (optIsSome_false h))
  | struct len v fs =>
    simp only [isSome] at h
    split at h
    · cases h
    · rw [validityIsSet_all] at h
      exact slotNull_of_isValid (by intros; simp) (by intros; simp) h
  | list l v offs fm el =>
    simp only [isSome] at h
    split at h
    · cases h
    · rw [validityIsSet_all] at h
      exact slotNull_of_isValid (by intros; simp) (by intros; simp) h
  | fixedSizeList len v n fm el =>
    simp only [isSome] at h
    split at h
    · cases h
    · rw [validityIsSet_all] at h
      exact slotNull_of_isValid (by intros; simp) (by intros; simp) h
  | map v offs mm ks vs =>
    simp only [isSome] at h
    split at h
    · cases h
    · rw [validityIsSet_all] at h
      exact slotNull_of_isValid (by intros; simp) (by intros; simp) h
  | dictionary ks vs =>
    simp only [isSome] at h
    split at h
    · have := isValid_of_primGet_none (optIsSome_false h)
      simp only [slotNull, validityOf, this]; rfl
    · cases h
  | union types offs fs =>
    simp only [isSome] at h
    split at h <;> cases h

/-! ### dictionary lookups -/

theorem primGet_some {v : Option Bits} {vals : List Int} {idx : Nat} {k : Int}
    (h : primGet Fixes.all v vals idx = .ok (some k)) : idx < vals.length ∧ vals.getD idx 0 = k := by
  unfold primGet at h
  split at h
  · cases h
  · rename_i x hx
    obtain ⟨b, _, h⟩ := ok_bind_inv h
    have hlt := (List.getElem?_eq_some_iff.mp hx).1
    refine ⟨hlt, ?_⟩
    cases b
    · cases h
    · simp only [if_true] at h
      cases h
      simp [List.getD, hx]

theorem leafOf_int {ty : PrimTy} {x j : Int} (h : leafOf ty x = .int j) : x = j := by
  cases ty <;> simp [leafOf] at h <;> exact h

/-- `DictionaryDeserializer::get_str` succeeded ⇒ the row and the key it holds are in range -/
theorem dictGetStr_touch (t : Target) {ks vs : Arr} {i : Nat} : OkImp (dictGetStr Fixes.all ks vs i) (touchOK t (.dictionary ks vs) i = true) := by
  intro b h
  unfold dictGetStr at h
  split at h
  · rename_i kty kv kvals vty vv voffs vdata
    obtain ⟨k, hk, h⟩ := ok_bind_inv h
    split at h
    · cases h
    · obtain ⟨key, hkey, h⟩ := ok_bind_inv h
      have hk' := primGet_some (getRequired_ok hk)
      have hb := bytesGet_ok_lt (asStr_ok (getRequired_ok h)).1
      have hbs := bytesGet_ok_leafSlot (ty := vty) (asStr_ok (getRequired_ok h)).1
      unfold tryIntoUsize at hkey
      split at hkey
      · rename_i h0
        cases hkey
        refine touch_dict (by simp only [lenOf]; exact hk'.1) ?_
        intro j hj
        simp only [decodeAt, hk'.1, if_true] at hj
        unfold withValidity at hj
        obtain ⟨bv, _, hj⟩ := ok_bind_inv hj
        cases bv
        · cases hj
        · simp only [Bool.not_true, Bool.false_eq_true, if_false, Except.ok.injEq] at hj
          have := leafOf_int hj
          rw [hk'.2] at this
          subst this
          exact ⟨h0, by simp only [lenOf]; exact hb, hbs⟩
      · cases hkey
  · cases h

/-! ### the scalar reads -/

theorem okImp_intoInt_bind {P : Prop} {x : R Int} {ty : IntTy} (h : OkImp x P) : OkImp (x >>= fun v => intoInt ty v) P :=
  OkImp.bind_left h

/-- one step of the routine argument: a failing leaf, a primitive get at the head of a bind, or a split -/
macro "oki_step" : tactic => `(tactic| first
  | exact OkImp.fail _ | exact OkImp.notImpl | exact OkImp.rejected
  | exact OkImp.bind_left (okImp_getRequired okImp_primGet)
  | exact OkImp.bind_left (okImp_getRequired okImp_boolGet)
  | exact OkImp.bind_left (okImp_getRequired okImp_bytesColGet)
  | exact OkImp.bind_left (okImp_getRequired okImp_viewColGet)
  | exact OkImp.bind_left (okImp_getRequired okImp_fsbColGet)
  | exact OkImp.bind_left okImp_nullCheck
  | exact okImp_codecRead
  | split)

macro "oki" : tactic => `(tactic| repeat oki_step)

/-- a successful scalar read (`deserialize_bool`, `…_i32`, `…_str`, …) ⇒ `touchOK`, whatever the target: the
array is a leaf (row below its length; for the byte columns the slot is null or what it designates lies inside its
buffer) or a dictionary (row, key and the value slot it designates in range) -/
theorem okImp_touch_leaf {α} (t : Target) {x : R α} {a : Arr} {i : Nat} (hl : isLeaf a = true) (h : OkImp x (LeafIn a i)) :
    OkImp x (touchOK t a i = true) :=
  OkImp.mono h (fun hin => touch_leaf t hl hin.1 hin.2)

/-- the leaves whose slots designate no byte range: the row test is all there is -/
theorem okImp_touch_leaf' {α} (t : Target) {x : R α} {a : Arr} {i : Nat} (hl : isLeaf a = true)
    (ht : ∀ j, leafOK a j = true) (h : OkImp x (i < lenOf a)) : OkImp x (touchOK t a i = true) :=
  OkImp.mono h (fun hlt => touch_leaf t hl hlt (leafSlotOK_of_leafOK (ht i)))

theorem scalar_touch (t : Target) (m : Method) (a : Arr) (i : Nat) : OkImp (scalar Fixes.all m a i) (touchOK t a i = true) := by
  unfold scalar
  split
  · apply okImp_touch_leaf' t rfl (fun _ => rfl); simp only [lenOf]; oki
  · apply okImp_touch_leaf' t rfl (fun _ => rfl); simp only [lenOf]; oki
  · apply okImp_touch_leaf' t rfl (fun _ => rfl); simp only [lenOf]; oki
  · apply okImp_touch_leaf' t rfl (fun _ => rfl); simp only [lenOf]; oki
  · apply okImp_touch_leaf' t rfl (fun _ => rfl); simp only [lenOf]; oki
  · apply okImp_touch_leaf' t rfl (fun _ => rfl); simp only [lenOf]; oki
  · apply okImp_touch_leaf t rfl; oki
  · apply okImp_touch_leaf t rfl; oki
  · apply okImp_touch_leaf t rfl; oki
  · split <;> first
      | exact OkImp.bind_left (dictGetStr_touch t)
      | exact OkImp.notImpl
  · exact OkImp.notImpl

/-- the scalar targets: `readAs t = accept t ∘ scalar m` -/
theorem accept_scalar_touch (t t' : Target) (m : Method) (a : Arr) (i : Nat) :
    OkImp (scalar Fixes.all m a i >>= fun d => accept t' d) (touchOK t a i = true) :=
  OkImp.bind_left (scalar_touch t m a i)

theorem binaryElems_touch (t : Target) {a : Arr} {i : Nat} {rb : R Bytes} (h : binaryElems Fixes.all a i = some rb) :
    OkImp rb (touchOK t a i = true) := by
  cases a <;> simp only [binaryElems] at h
  case bytes ty v offs data =>
    split at h <;> cases h
    exact OkImp.mono (okImp_getRequired okImp_bytesColGet) (fun h => touch_leaf t rfl h.1 h.2)
  case bytesView ty v views buffers =>
    split at h <;> cases h
    exact OkImp.mono (okImp_getRequired okImp_viewColGet) (fun h => touch_leaf t rfl h.1 h.2)
  case fixedSizeBinary n v data =>
    cases h
    exact OkImp.mono (okImp_getRequired okImp_fsbColGet) (fun h => touch_leaf t rfl h.1 h.2)
  all_goals cases h

theorem stringElem_touch (t : Target) {a : Arr} {i : Nat} {rs : R Bytes} (h : stringElem Fixes.all a i = some rs) :
    OkImp rs (touchOK t a i = true) := by
  cases a <;> simp only [stringElem] at h
  case bytes ty v offs data =>
    split at h <;> cases h
    exact OkImp.mono (okImp_getRequired okImp_bytesColGet) (fun h => touch_leaf t rfl h.1 h.2)
  case bytesView ty v views buffers =>
    split at h <;> cases h
    exact OkImp.mono (okImp_getRequired okImp_viewColGet) (fun h => touch_leaf t rfl h.1 h.2)
  case dictionary ks vs =>
    cases h
    exact dictGetStr_touch t
  all_goals cases h

/-! ### heads of the container reads -/

/-- `ListDeserializer::get` / the head of the map read: the offsets of row `i` -/
theorem listRange_ok {offs : List Int} {i s e : Nat} (h : listRange Fixes.all offs i = .ok (s, e)) :
    i + 1 < offs.length ∧ offs.getD i 0 = (s : Int) ∧ offs.getD (i + 1) 0 = (e : Int) ∧ s ≤ e := by
  unfold listRange at h
  split at h
  · cases h
  · rename_i hlen
    have h1 : i < offs.length := by omega
    have h2 : i + 1 < offs.length := by omega
    simp only [List.getElem?_eq_getElem h1, List.getElem?_eq_getElem h2] at h
    obtain ⟨s', hs, h⟩ := ok_bind_inv h
    obtain ⟨e', he, h⟩ := ok_bind_inv h
    simp only [Fixes.all, Bool.true_and, decide_eq_true_eq] at h
    split at h
    · cases h
    · simp only [pure, Except.pure, Except.ok.injEq, Prod.mk.injEq] at h
      obtain ⟨hs', he'⟩ := h
      subst hs' he'
      refine ⟨h2, ?_, ?_, by omega⟩
      · simp only [List.getD, List.getElem?_eq_getElem h1, Option.getD_some]; exact (tryIntoUsize_ok hs).2
      · simp only [List.getD, List.getElem?_eq_getElem h2, Option.getD_some]; exact (tryIntoUsize_ok he).2

/-- `FixedSizeListDeserializer::deserialize_seq`: the element range of row `i` -/
theorem fslRange_ok {len : Nat} {n : Int} {i s e : Nat} (h : fslRange Fixes.all len n i = .ok (s, e)) :
    i < len ∧ 0 ≤ n ∧ ((i : Int) * n = (s : Int)) ∧ (((i : Int) + 1) * n = (e : Int)) ∧ s ≤ e := by
  unfold fslRange at h
  split at h
  · cases h
  · rename_i hlt
    obtain ⟨n', hn, h⟩ := ok_bind_inv h
    have hn' := tryIntoUsize_ok hn
    split at h
    · simp only [Fixes.all, if_true] at h; cases h
    · simp only [pure, Except.pure, Except.ok.injEq, Prod.mk.injEq] at h
      obtain ⟨hs, he⟩ := h
      subst hs he
      refine ⟨by omega, hn'.1, ?_, ?_, Nat.mul_le_mul_right _ (by omega)⟩
      · rw [hn'.2]; simp
      · rw [hn'.2]; simp

/-- the head of `EnumDeserializer::deserialize_enum`: the variant is the child at position `type id`, read at the
slot the offsets give -/
theorem unionSelect_ok {types : List Int} {offs : Option (List Int)} {nv i k off : Nat}
    (h : unionSelect Fixes.all types offs nv i = .ok (k, off)) :
    i < types.length ∧ 0 ≤ types.getD i 0 ∧ k = (types.getD i 0).toNat ∧ k < nv ∧ unionSlot offs i = some off := by
  unfold unionSelect at h
  split at h
  · cases h
  · rename_i hidx
    split at h
    · cases h
    · rename_i o
      split at h
      · cases h
      · rename_i hlen
        have h1 : i < types.length := by omega
        have h2 : i < o.length := by omega
        simp only [List.getElem?_eq_getElem h1, List.getElem?_eq_getElem h2] at h
        obtain ⟨off', hoff, h⟩ := ok_bind_inv h
        have ho := tryIntoUsize_ok hoff
        split at h
        · rename_i hc
          simp only [pure, Except.pure, Except.ok.injEq, Prod.mk.injEq] at h
          obtain ⟨hk', ho'⟩ := h
          subst ho'
          have hg : types.getD i 0 = types[i] := by simp [List.getD, List.getElem?_eq_getElem h1]
          have hgo : ∀ d, o.getD i d = o[i] := by intro d; simp [List.getD, List.getElem?_eq_getElem h2]
          refine ⟨h1, by rw [hg]; exact hc.1, by rw [hg]; exact hk'.symm, by rw [← hk']; exact hc.2, ?_⟩
          simp only [unionSlot, hgo, h2, ho.1, and_self, if_true, Option.some.injEq]
          rw [ho.2]; simp
        · simp only [Fixes.all, if_true] at h; cases h

end SaModel.Props.C17
