import SaModel.Lemmas.C17TouchAny
/-
C17, `readAs_touch_in_range` — the typed reads, one combinator per target constructor (`TouchP t` from `TouchP` of
the component targets); `SaModel/Props/C17.lean` assembles them by structural recursion over the target.
-/
namespace SaModel.Props.C17
open SaModel SaModel.Read SaModel.Spec

/-- a successful read of target `t` visits only slots below the lengths of their arrays -/
def TouchP (t : Target) : Prop :=
  ∀ (a : Arr) (i : Nat) (d : DVal), unionIdsOK a = true → readAs Fixes.all t a i = .ok d → touchOK t a i = true

def AllT (P : Target → Prop) : Targets → Prop
  | .nil => True
  | .cons t r => P t ∧ AllT P r

def AllF (P : Target → Prop) : TFields → Prop
  | .nil => True
  | .cons _ t r => P t ∧ AllF P r

def AllV (P : VKind → Prop) : TVariants → Prop
  | .nil => True
  | .cons _ k r => P k ∧ AllV P r

/-! ### any, ignored, scalars -/

theorem touchP_any : TouchP .any := fun a i d hids h => by
  unfold readAs at h; exact readAny_touch hids rfl h

theorem touchP_ignored : TouchP .ignored := fun a i d hids h => by
  unfold readAs at h
  obtain ⟨x, hx, _⟩ := ok_bind_inv h
  exact readAny_touch hids rfl hx

theorem touchP_unit : TouchP .unit := fun a i d _ h => by
  unfold readAs at h; exact accept_scalar_touch _ _ _ a i d h
theorem touchP_unitStruct : TouchP .unitStruct := fun a i d _ h => by
  unfold readAs at h; exact accept_scalar_touch _ _ _ a i d h
theorem touchP_bool : TouchP .bool := fun a i d _ h => by
  unfold readAs at h; exact accept_scalar_touch _ _ _ a i d h
theorem touchP_int (ty : IntTy) : TouchP (.int ty) := fun a i d _ h => by
  unfold readAs at h; exact accept_scalar_touch _ _ _ a i d h
theorem touchP_f32 : TouchP .f32 := fun a i d _ h => by
  unfold readAs at h; exact accept_scalar_touch _ _ _ a i d h
theorem touchP_f64 : TouchP .f64 := fun a i d _ h => by
  unfold readAs at h; exact accept_scalar_touch _ _ _ a i d h
theorem touchP_char : TouchP .char := fun a i d _ h => by
  unfold readAs at h; exact accept_scalar_touch _ _ _ a i d h
theorem touchP_string : TouchP .string := fun a i d _ h => by
  unfold readAs at h; exact accept_scalar_touch _ _ _ a i d h
theorem touchP_str : TouchP .str := fun a i d _ h => by
  unfold readAs at h; exact accept_scalar_touch _ _ _ a i d h

/-- `&[u8]`: a list column calls `visit_seq`, which this visitor rejects; everything else is a scalar read -/
theorem touchP_bytes : TouchP .bytes := fun a i d _ h => by
  unfold readAs at h
  split at h
  · obtain ⟨_, _, h⟩ := ok_bind_inv h
    cases h
  · exact accept_scalar_touch _ _ _ a i d h

/-- `ByteBuf`: a list column is read element by element as `u8` -/
theorem touchP_byteBuf : TouchP .byteBuf := fun a i d hids h => by
  unfold readAs at h
  split at h
  · rename_i l v offs fm el
    obtain ⟨r, hr, h⟩ := ok_bind_inv h
    obtain ⟨s, e⟩ := r
    obtain ⟨xs, hxs, _⟩ := ok_bind_inv h
    have hl := listRange_ok hr
    refine touch_list hl.1 (rangeOK_of_readRange hl.2.1 hl.2.2.1 hl.2.2.2 hxs ?_)
    intro k x hx
    have := accept_scalar_touch (elemTarget (peelTarget .byteBuf).1 k) _ _ el (s + k) x hx
    exact ⟨this, touchOK_lt this⟩
  · exact accept_scalar_touch _ _ _ a i d h

/-! ### layers that stay on the same array -/

theorem touchP_option {t : Target} (hS : TouchP t) : TouchP (.option t) := fun a i d hids h => by
  unfold readAs at h
  obtain ⟨b, hb, h⟩ := ok_bind_inv h
  cases b
  · exact touch_null_slot (isSome_ok_lt_lenOf hb) (by simp [peelTarget]) (isSome_false_slotNull hb)
  · simp only [if_true] at h
    obtain ⟨x, hx, _⟩ := ok_bind_inv h
    exact touchOK_option_of (hS a i x hids hx)

theorem touchP_newtype {t : Target} (hS : TouchP t) : TouchP (.newtype t) := fun a i d hids h => by
  unfold readAs at h
  rw [touchOK_newtype]
  exact hS a i d hids h

/-! ### sequences -/

theorem touchP_seq {t : Target} (hS : TouchP t) : TouchP (.seq t) := fun a i d hids h => by
  unfold readAs at h
  split at h
  · rename_i l v offs fm el
    obtain ⟨r, hr, h⟩ := ok_bind_inv h
    obtain ⟨s, e⟩ := r
    obtain ⟨xs, hxs, _⟩ := ok_bind_inv h
    have hl := listRange_ok hr
    simp only [unionIdsOK] at hids
    refine touch_list hl.1 (rangeOK_of_readRange hl.2.1 hl.2.2.1 hl.2.2.2 hxs ?_)
    intro k x hx
    have := hS el (s + k) x hids hx
    simp only [peelTarget, elemTarget]
    exact ⟨this, touchOK_lt this⟩
  · rename_i len v n fm el
    obtain ⟨r, hr, h⟩ := ok_bind_inv h
    obtain ⟨s, e⟩ := r
    obtain ⟨xs, hxs, _⟩ := ok_bind_inv h
    have hl := fslRange_ok hr
    simp only [unionIdsOK] at hids
    refine touch_fsl hl.1 hl.2.1 (rangeOK_of_readRange hl.2.2.1 hl.2.2.2.1 hl.2.2.2.2 hxs ?_)
    intro k x hx
    have := hS el (s + k) x hids hx
    simp only [peelTarget, elemTarget]
    exact ⟨this, touchOK_lt this⟩
  · split at h
    · rename_i rb hb
      exact OkImp.bind_left (binaryElems_touch _ hb) _ h
    · cases h

/-! ### tuples over a struct column -/

theorem readTupleFields_touch : ∀ (ts : Targets), AllT TouchP ts → ∀ (fs : ArrFields) (i : Nat) (r : List DVal),
    fieldsIdsOK fs = true → readTupleFields Fixes.all ts fs i = .ok r → touchTuple ts fs i = true
  | .nil, _, _, _, _, _, _ => by simp [touchTuple]
  | .cons t rest, hS, fs, i, r, hids, h => by
    unfold readTupleFields at h
    split at h
    · cases h
    · rename_i fm a frest
      obtain ⟨x, hx, h⟩ := ok_bind_inv h
      obtain ⟨r', hr', _⟩ := ok_bind_inv h
      simp only [fieldsIdsOK, Bool.and_eq_true] at hids
      simp only [touchTuple, Bool.and_eq_true]
      exact ⟨hS.1 a i x hids.1 hx, readTupleFields_touch rest hS.2 frest i r' hids.2 hr'⟩

theorem structItem_ok_lt {len i : Nat} {u : Unit} (h : structItem Fixes.all len i = .ok u) : i < len := by
  unfold structItem at h
  simp only [Fixes.all, Bool.true_and, decide_eq_true_eq] at h
  split at h
  · cases h
  · omega

theorem tupleVisit_touch {ts : Targets} (hS : AllT TouchP ts) {t : Target}
    (hp : (peelTarget t).1 = .tuple ts ∨ (peelTarget t).1 = .tupleStruct ts) {a : Arr} {i : Nat} {d : DVal}
    (hids : unionIdsOK a = true)
    (h : tupleVisit Fixes.all (fun fs => readTupleFields Fixes.all ts fs i) a i = .ok d) : touchOK t a i = true := by
  unfold tupleVisit at h
  split at h
  · rename_i len v fs
    obtain ⟨u, hu, h⟩ := ok_bind_inv h
    obtain ⟨r, hr, _⟩ := ok_bind_inv h
    simp only [unionIdsOK] at hids
    exact touch_struct_tuple hp (structItem_ok_lt hu) (readTupleFields_touch ts hS fs i r hids hr)
  · cases h

theorem touchP_tuple {ts : Targets} (hS : AllT TouchP ts) : TouchP (.tuple ts) := fun a i d hids h => by
  unfold readAs at h
  exact tupleVisit_touch hS (Or.inl (by simp [peelTarget])) hids h

theorem touchP_tupleStruct {ts : Targets} (hS : AllT TouchP ts) : TouchP (.tupleStruct ts) := fun a i d hids h => by
  unfold readAs at h
  exact tupleVisit_touch hS (Or.inr (by simp [peelTarget])) hids h

/-! ### maps: over a struct column (field names as keys) and over a map column -/

theorem mapM_fields_touch {k v : Target} (hV : TouchP v) (i : Nat) : ∀ (fs : ArrFields) (es : List (DVal × DVal)),
    fieldsIdsOK fs = true →
    fs.toList.mapM (fun (p : FieldMeta × Arr) => do
        let kk ← strDeAs k p.1.name
        let vv ← readAs Fixes.all v p.2 i
        pure (kk, vv)) = .ok es → touchAll v fs i = true
  | .nil, _, _, _ => by simp [touchAll]
  | .cons fm a rest, es, hids, h => by
    simp only [ArrFields.toList, List.mapM_cons] at h
    obtain ⟨x, hx, h⟩ := ok_bind_inv h
    obtain ⟨r, hr, _⟩ := ok_bind_inv h
    obtain ⟨_, _, hx⟩ := ok_bind_inv hx
    obtain ⟨vv, hvv, _⟩ := ok_bind_inv hx
    simp only [fieldsIdsOK, Bool.and_eq_true] at hids
    simp only [touchAll, Bool.and_eq_true]
    exact ⟨hV a i vv hids.1 hvv, mapM_fields_touch hV i rest r hids.2 hr⟩

theorem touchP_map {k v : Target} (hK : TouchP k) (hV : TouchP v) : TouchP (.map k v) := fun a i d hids h => by
  unfold readAs at h
  split at h
  · rename_i len vl fs
    obtain ⟨u, hu, h⟩ := ok_bind_inv h
    obtain ⟨es, hes, _⟩ := ok_bind_inv h
    simp only [unionIdsOK] at hids
    exact touch_struct_map (k := k) (by simp [peelTarget]) (structItem_ok_lt hu) (mapM_fields_touch hV i fs es hids hes)
  · rename_i vl offs mm ks vs
    obtain ⟨r, hr, h⟩ := ok_bind_inv h
    obtain ⟨s, e⟩ := r
    obtain ⟨xs, hxs, _⟩ := ok_bind_inv h
    have hl := listRange_ok hr
    simp only [unionIdsOK, Bool.and_eq_true] at hids
    refine touch_map hl.1 (rangeOK_of_readRange hl.2.1 hl.2.2.1 hl.2.2.2 hxs ?_)
      (rangeOK_of_readRange hl.2.1 hl.2.2.1 hl.2.2.2 hxs ?_)
    · intro j x hx
      obtain ⟨kk, hkk, _⟩ := ok_bind_inv hx
      have := hK ks (s + j) kk hids.1 hkk
      simp only [peelTarget, entryTargets]
      exact ⟨this, touchOK_lt this⟩
    · intro j x hx
      obtain ⟨kk, _, hx⟩ := ok_bind_inv hx
      obtain ⟨vv, hvv, _⟩ := ok_bind_inv hx
      have := hV vs (s + j) vv hids.2 hvv
      simp only [peelTarget, entryTargets]
      exact ⟨this, touchOK_lt this⟩
  · cases h

/-! ### structs by field name -/

theorem readFieldAs_touch : ∀ (tfs : TFields), AllF TouchP tfs → ∀ (pos : Nat) (slots : Slots) (name : String) (child : Arr)
    (i : Nat) (r : Option (Nat × DVal)), unionIdsOK child = true →
    readFieldAs Fixes.all tfs pos slots name child i = .ok r →
    ∀ tt, tfieldNamed tfs name = some tt → touchOK tt child i = true
  | .nil, _, _, _, _, _, _, _, _, _, tt, hq => by simp [tfieldNamed] at hq
  | .cons n t rest, hS, pos, slots, name, child, i, r, hids, h, tt, hq => by
    unfold readFieldAs at h
    simp only [tfieldNamed] at hq
    split at h
    · rename_i hn
      simp only [hn, if_true, Option.some.injEq] at hq
      subst hq
      split at h
      · cases h
      · obtain ⟨x, hx, _⟩ := ok_bind_inv h
        exact hS.1 child i x hids hx
    · rename_i hn
      simp only [hn, Bool.false_eq_true, if_false] at hq
      exact readFieldAs_touch rest hS.2 (pos + 1) slots name child i r hids h tt hq

/-- the key loop of a derived struct visitor: every field the target names was read with that field's target -/
theorem keyLoop_touch {tfs : TFields} (hS : AllF TouchP tfs) (i : Nat) {step : Slots → FieldMeta × Arr → R Slots}
    (hstep : ∀ slots fm child slots', step slots (fm, child) = .ok slots' →
      ∃ r, readFieldAs Fixes.all tfs 0 slots fm.name child i = .ok r) :
    ∀ (fs : ArrFields) (slots slots' : Slots), fieldsIdsOK fs = true →
      fs.toList.foldlM step slots = .ok slots' → touchNamed tfs fs i = true
  | .nil, _, _, _, _ => by simp [touchNamed]
  | .cons fm a rest, slots, slots', hids, h => by
    simp only [ArrFields.toList, List.foldlM_cons] at h
    obtain ⟨s1, hs1, h⟩ := ok_bind_inv h
    obtain ⟨r, hr⟩ := hstep slots fm a s1 hs1
    simp only [fieldsIdsOK, Bool.and_eq_true] at hids
    simp only [touchNamed, Bool.and_eq_true]
    refine ⟨?_, keyLoop_touch hS i hstep rest s1 slots' hids.2 h⟩
    cases hq : tfieldNamed tfs fm.name with
    | none => rfl
    | some tt => exact readFieldAs_touch tfs hS 0 slots fm.name a i r hids.1 hr tt hq

theorem structVisit_touch {tfs : TFields} (hS : AllF TouchP tfs) {t : Target} (hp : (peelTarget t).1 = .struct tfs)
    {a : Arr} {i : Nat} {d : DVal} (hids : unionIdsOK a = true)
    (h : structVisit Fixes.all (fun slots name child => readFieldAs Fixes.all tfs 0 slots name child i) tfs a i = .ok d) :
    touchOK t a i = true := by
  unfold structVisit at h
  split at h
  · rename_i len v fs
    obtain ⟨u, hu, h⟩ := ok_bind_inv h
    obtain ⟨slots, hslots, _⟩ := ok_bind_inv h
    simp only [unionIdsOK] at hids
    refine touch_struct_named hp (structItem_ok_lt hu) (keyLoop_touch hS i ?_ fs [] slots hids hslots)
    intro slots fm child slots' hst
    obtain ⟨r, hr, _⟩ := ok_bind_inv hst
    exact ⟨r, hr⟩
  · cases h

theorem touchP_struct {tfs : TFields} (hS : AllF TouchP tfs) : TouchP (.struct tfs) := fun a i d hids h => by
  unfold readAs at h
  exact structVisit_touch hS (by simp [peelTarget]) hids h

/-! ### enums -/

/-- the target the payload of a variant of kind `k` is read with (a unit variant still calls into the child) -/
def kindTarget : VKind → Target
  | .unit => .ignored
  | .newtype t => t
  | .tuple ts => .tuple ts
  | .struct tfs => .struct tfs

def KTouch (k : VKind) : Prop :=
  ∀ (child : Arr) (off : Nat) (d : DVal), unionIdsOK child = true →
    readKind Fixes.all k (some (child, off)) = .ok d → touchOK (kindTarget k) child off = true

theorem ktouch_unit : KTouch .unit := fun child off d _ h => by
  unfold readKind at h
  exact accept_scalar_touch _ _ _ child off d h

theorem ktouch_newtype {t : Target} (hS : TouchP t) : KTouch (.newtype t) := fun child off d hids h => by
  unfold readKind at h
  exact hS child off d hids h

theorem ktouch_tuple {ts : Targets} (hS : AllT TouchP ts) : KTouch (.tuple ts) := fun child off d hids h => by
  unfold readKind at h
  exact tupleVisit_touch hS (Or.inl (by simp [kindTarget, peelTarget])) hids h

theorem ktouch_struct {tfs : TFields} (hS : AllF TouchP tfs) : KTouch (.struct tfs) := fun child off d hids h => by
  unfold readKind at h
  exact structVisit_touch hS (by simp [kindTarget, peelTarget]) hids h

/-- the variant a derived enum visitor selects: by position (`sel = some p`) or by name -/
def lookupVariant (vs : TVariants) (sel : Option Nat) (name : String) : Option VKind :=
  match sel with
  | some p => variantNth vs p
  | none => variantNamed vs name

theorem readVariantAs_touch : ∀ (vs : TVariants), AllV KTouch vs → ∀ (sel : Option Nat) (name : String) (child : Arr)
    (off : Nat) (d : DVal), unionIdsOK child = true →
    readVariantAs Fixes.all vs sel name (some (child, off)) = .ok d →
    ∃ k, lookupVariant vs sel name = some k ∧ touchOK (kindTarget k) child off = true
  | .nil, _, _, _, _, _, _, _, h => by unfold readVariantAs at h; cases h
  | .cons n k rest, hS, sel, name, child, off, d, hids, h => by
    unfold readVariantAs at h
    cases sel with
    | none =>
      simp only [Option.map_none] at h
      split at h
      · rename_i hc
        obtain ⟨x, hx, _⟩ := ok_bind_inv h
        exact ⟨k, by simp [lookupVariant, variantNamed, hc], hS.1 child off x hids hx⟩
      · rename_i hc
        obtain ⟨k', hk', ht⟩ := readVariantAs_touch rest hS.2 none name child off d hids h
        refine ⟨k', ?_, ht⟩
        simp only [Bool.not_eq_true] at hc
        simpa [lookupVariant, variantNamed, hc] using hk'
    | some p =>
      simp only [Option.map_some, beq_iff_eq] at h
      split at h
      · rename_i hc
        subst hc
        obtain ⟨x, hx, _⟩ := ok_bind_inv h
        exact ⟨k, by simp [lookupVariant, variantNth], hS.1 child off x hids hx⟩
      · rename_i hc
        obtain ⟨k', hk', ht⟩ := readVariantAs_touch rest hS.2 (some (p - 1)) name child off d hids h
        refine ⟨k', ?_, ht⟩
        cases p with
        | zero => exact absurd rfl hc
        | succ p => simpa [lookupVariant, variantNth] using hk'

theorem variantTarget_enum {byIndex : Bool} {vs : TVariants} {pos : Nat} {name : String} {k : VKind}
    (h : lookupVariant vs (if byIndex then some pos else none) name = some k) :
    variantTarget (.enum byIndex vs) pos name = kindTarget k := by
  cases byIndex <;> simp only [lookupVariant, Bool.false_eq_true, if_false, if_true] at h <;>
    simp only [variantTarget, Bool.false_eq_true, if_false, if_true, h] <;> cases k <;> rfl

theorem touchP_enum {byIndex : Bool} {vs : TVariants} (hS : AllV KTouch vs) : TouchP (.enum byIndex vs) := fun a i d hids h => by
  unfold readAs at h
  split at h
  · rename_i types offs fs
    obtain ⟨r, hr, h⟩ := ok_bind_inv h
    obtain ⟨k, off⟩ := r
    have hu := unionSelect_ok hr
    simp only [unionIdsOK] at hids
    simp only at h
    split at h
    · cases h
    · rename_i fm child hn
      obtain ⟨kind, hkind, ht⟩ := readVariantAs_touch vs hS _ fm.name child off d (nth_unionIdsOK fs 0 k fm child hids hn) h
      have hidx := indexOfTypeId_consecutive hids hu.2.1 (by rw [← hu.2.2.1]; exact hu.2.2.2.1)
      rw [← hu.2.2.1] at hidx
      refine touch_union hu.1 hidx ?_
      rw [hu.2.2.2.2]
      refine touchVariant_nth fs k _ off fm child hn ?_
      simp only [peelTarget]
      rw [variantTarget_enum hkind]
      exact ht
  · split at h
    · rename_i rs hs
      exact OkImp.bind_left (stringElem_touch _ hs) _ h
    · cases h

end SaModel.Props.C17
