import SaModel.Lemmas.C17Range
import SaModel.Spec.DecodeAt
/-
C17, `untouched_ok` — `reachEq a a' i`: the views `a` and `a'` agree on everything that is reachable from slot `i`
(a structural relation on the data, independent of the reader model and of the target):

* same constructor and type tags (primitive type, time unit, time zone, precision / scale, fixed sizes, field names);
* row `i` itself: the same answer to "is `i` below the declared length", the same validity bit, the same value /
  offsets `i`, `i + 1` / view descriptor / type id / union offset;
* the byte buffers of string / binary columns as a whole (a corruption of a data buffer counts as touching every row
  of that column);
* recursively the children at the slots row `i` refers to: every field of a struct at `i`, the elements
  `offsets[i] … offsets[i+1]-1` of a list / map, `i*n … (i+1)*n-1` of a fixed-size list, the dictionary value under
  the key of row `i`, the union child at position `type id` at slot `offsets[i]`.

Everything else may differ: other rows' values, validity bits, offsets, keys, type ids, the lengths beyond `i`,
children slots that row `i` does not reference.  `SaModel/Props/C17.lean` (`untouched_ok*`): the reads at `i` are equal.
-/
namespace SaModel.Props.C17
open SaModel SaModel.Read SaModel.Spec

/-- the same answer to `i < len` -/
def ltEq (i len len' : Nat) : Bool := decide (i < len) == decide (i < len')

/-- the same validity bit (or the same failure to read it) -/
def bitEq (v v' : Option Bits) (i : Nat) : Bool := decide (isValid v i = isValid v' i)

/-- elements `s, …, s + n - 1` -/
def allFrom (f : Nat → Bool) (s n : Nat) : Bool := (List.range n).all fun k => f (s + k)

/-- the element range two consecutive offsets designate (empty unless `0 ≤ s ≤ e`) -/
def offRange (so eo : Option Int) : Nat × Nat :=
  match so, eo with
  | some s, some e => if 0 ≤ s ∧ s ≤ e then (s.toNat, e.toNat - s.toNat) else (0, 0)
  | _, _ => (0, 0)

/-- what `EnumDeserializer::deserialize_enum` looks at in row `i` of the type ids / offsets -/
def unionHead (types : List Int) (offs : Option (List Int)) (i : Nat) : Option Int × Option (Bool × Option Int) :=
  (types[i]?, offs.map fun o => (decide (types.length = o.length), o[i]?))

/-- which constructor -/
def kind : Arr → Nat
  | .null _ => 0 | .boolean _ _ _ => 1 | .prim _ _ _ => 2 | .time _ _ _ _ => 3 | .timestamp _ _ _ _ => 4
  | .decimal128 _ _ _ _ => 5 | .bytes _ _ _ _ => 6 | .bytesView _ _ _ _ => 7 | .fixedSizeBinary _ _ _ => 8
  | .struct _ _ _ => 9 | .list _ _ _ _ _ => 10 | .fixedSizeList _ _ _ _ _ => 11 | .map _ _ _ _ _ => 12
  | .dictionary _ _ => 13 | .union _ _ _ => 14

mutual
def reachEq : Arr → Arr → Nat → Bool
  | .null len, a', i =>
    (match a' with
     | .null len' => ltEq i len len'
     | _ => false)
  | .boolean len v vals, a', i =>
    (match a' with
     | .boolean len' v' vals' => ltEq i len len' && bitEq v v' i && decide (getBit vals i = getBit vals' i)
     | _ => false)
  | .prim ty v vals, a', i =>
    (match a' with
     | .prim ty' v' vals' => decide (ty = ty') && bitEq v v' i && decide (vals[i]? = vals'[i]?)
     | _ => false)
  | .time ty u v vals, a', i =>
    (match a' with
     | .time ty' u' v' vals' => decide (ty = ty') && decide (u = u') && bitEq v v' i && decide (vals[i]? = vals'[i]?)
     | _ => false)
  | .timestamp u tz v vals, a', i =>
    (match a' with
     | .timestamp u' tz' v' vals' => decide (u = u') && decide (tz = tz') && bitEq v v' i && decide (vals[i]? = vals'[i]?)
     | _ => false)
  | .decimal128 p s v vals, a', i =>
    (match a' with
     | .decimal128 p' s' v' vals' => decide (p = p') && decide (s = s') && bitEq v v' i && decide (vals[i]? = vals'[i]?)
     | _ => false)
  | .bytes ty v offs data, a', i =>
    (match a' with
     | .bytes ty' v' offs' data' =>
       decide (ty = ty') && bitEq v v' i && decide (offs[i]? = offs'[i]?) && decide (offs[i + 1]? = offs'[i + 1]?) &&
       decide (data = data')
     | _ => false)
  | .bytesView ty v views buffers, a', i =>
    (match a' with
     | .bytesView ty' v' views' buffers' =>
       decide (ty = ty') && bitEq v v' i && decide (views[i]? = views'[i]?) && decide (buffers = buffers')
     | _ => false)
  | .fixedSizeBinary n v data, a', i =>
    (match a' with
     | .fixedSizeBinary n' v' data' => decide (n = n') && bitEq v v' i && decide (data = data')
     | _ => false)
  | .struct len v fs, a', i =>
    (match a' with
     | .struct len' v' fs' => ltEq i len len' && bitEq v v' i && reachFields fs fs' i
     | _ => false)
  | .list _ v offs _ el, a', i =>
    (match a' with
     | .list _ v' offs' _ el' =>
       bitEq v v' i && decide (offs[i]? = offs'[i]?) && decide (offs[i + 1]? = offs'[i + 1]?) &&
       allFrom (fun j => reachEq el el' j) (offRange offs[i]? offs[i + 1]?).1 (offRange offs[i]? offs[i + 1]?).2
     | _ => false)
  | .fixedSizeList len v n _ el, a', i =>
    (match a' with
     | .fixedSizeList len' v' n' _ el' =>
       ltEq i len len' && bitEq v v' i && decide (n = n') && allFrom (fun j => reachEq el el' j) (i * n.toNat) n.toNat
     | _ => false)
  | .map v offs _ ks vs, a', i =>
    (match a' with
     | .map v' offs' _ ks' vs' =>
       bitEq v v' i && decide (offs[i]? = offs'[i]?) && decide (offs[i + 1]? = offs'[i + 1]?) &&
       allFrom (fun j => reachEq ks ks' j) (offRange offs[i]? offs[i + 1]?).1 (offRange offs[i]? offs[i + 1]?).2 &&
       allFrom (fun j => reachEq vs vs' j) (offRange offs[i]? offs[i + 1]?).1 (offRange offs[i]? offs[i + 1]?).2
     | _ => false)
  | .dictionary ks vs, a', i =>
    (match a' with
     | .dictionary ks' vs' =>
       reachEq ks ks' i && decide (kind vs = kind vs') &&
       (match ks with
        | .prim _ _ vals =>
          (match vals[i]? with
           | some k => if 0 ≤ k then reachEq vs vs' k.toNat else true
           | none => true)
        | _ => true)
     | _ => false)
  | .union types offs fs, a', i =>
    (match a' with
     | .union types' offs' fs' =>
       decide (unionHead types offs i = unionHead types' offs' i) && decide (fs.length = fs'.length) &&
       (match types[i]?, offs with
        | some t, some o =>
          (match o[i]? with
           | some off => if 0 ≤ t ∧ 0 ≤ off then reachVariant fs fs' t.toNat off.toNat else true
           | none => true)
        | _, _ => true)
     | _ => false)
/-- the fields of two struct columns, pairwise: same name, children agree at row `i` -/
def reachFields : ArrFields → ArrFields → Nat → Bool
  | .nil, fs', _ =>
    (match fs' with
     | .nil => true
     | _ => false)
  | .cons fm a r, fs', i =>
    (match fs' with
     | .cons fm' a' r' => decide (fm.name = fm'.name) && reachEq a a' i && reachFields r r' i
     | .nil => false)
/-- the union children at position `k`: same name, agree at slot `j` -/
def reachVariant : ArrUFields → ArrUFields → Nat → Nat → Bool
  | .nil, _, _, _ => true
  | .cons _ fm a _, fs', 0, j =>
    (match fs' with
     | .cons _ fm' a' _ => decide (fm.name = fm'.name) && reachEq a a' j
     | .nil => false)
  | .cons _ _ _ r, fs', k + 1, j =>
    (match fs' with
     | .cons _ _ _ r' => reachVariant r r' k j
     | .nil => false)
end

/-! ### inversion: what `reachEq` says per constructor -/

theorem ltEq_iff {i len len' : Nat} (h : ltEq i len len' = true) : (i < len) = (i < len') := by
  unfold ltEq at h
  simp only [beq_iff_eq, decide_eq_decide] at h
  exact propext h

theorem reachEq_null {len : Nat} {a' : Arr} {i : Nat} (h : reachEq (.null len) a' i = true) :
    ∃ len', a' = .null len' ∧ (i < len) = (i < len') := by
  unfold reachEq at h
  split at h
  · exact ⟨_, rfl, ltEq_iff h⟩
  · cases h

theorem reachEq_boolean {len : Nat} {v : Option Bits} {vals : Bits} {a' : Arr} {i : Nat}
    (h : reachEq (.boolean len v vals) a' i = true) :
    ∃ len' v' vals', a' = .boolean len' v' vals' ∧ (i < len) = (i < len') ∧ isValid v i = isValid v' i ∧
      getBit vals i = getBit vals' i := by
  unfold reachEq at h
  split at h
  · simp only [Bool.and_eq_true, decide_eq_true_eq, bitEq] at h
    exact ⟨_, _, _, rfl, ltEq_iff h.1.1, h.1.2, h.2⟩
  · cases h

theorem reachEq_prim {ty : PrimTy} {v : Option Bits} {vals : List Int} {a' : Arr} {i : Nat}
    (h : reachEq (.prim ty v vals) a' i = true) :
    ∃ v' vals', a' = .prim ty v' vals' ∧ isValid v i = isValid v' i ∧ vals[i]? = vals'[i]? := by
  unfold reachEq at h
  split at h
  · simp only [Bool.and_eq_true, decide_eq_true_eq, bitEq] at h
    obtain ⟨⟨rfl, hv⟩, hx⟩ := h
    exact ⟨_, _, rfl, hv, hx⟩
  · cases h

theorem reachEq_time {ty : TimeTy} {u : TimeUnit} {v : Option Bits} {vals : List Int} {a' : Arr} {i : Nat}
    (h : reachEq (.time ty u v vals) a' i = true) :
    ∃ v' vals', a' = .time ty u v' vals' ∧ isValid v i = isValid v' i ∧ vals[i]? = vals'[i]? := by
  unfold reachEq at h
  split at h
  · simp only [Bool.and_eq_true, decide_eq_true_eq, bitEq] at h
    obtain ⟨⟨⟨rfl, rfl⟩, hv⟩, hx⟩ := h
    exact ⟨_, _, rfl, hv, hx⟩
  · cases h

theorem reachEq_timestamp {u : TimeUnit} {tz : Option String} {v : Option Bits} {vals : List Int} {a' : Arr} {i : Nat}
    (h : reachEq (.timestamp u tz v vals) a' i = true) :
    ∃ v' vals', a' = .timestamp u tz v' vals' ∧ isValid v i = isValid v' i ∧ vals[i]? = vals'[i]? := by
  unfold reachEq at h
  split at h
  · simp only [Bool.and_eq_true, decide_eq_true_eq, bitEq] at h
    obtain ⟨⟨⟨rfl, rfl⟩, hv⟩, hx⟩ := h
    exact ⟨_, _, rfl, hv, hx⟩
  · cases h

theorem reachEq_decimal {p : Nat} {s : Int} {v : Option Bits} {vals : List Int} {a' : Arr} {i : Nat}
    (h : reachEq (.decimal128 p s v vals) a' i = true) :
    ∃ v' vals', a' = .decimal128 p s v' vals' ∧ isValid v i = isValid v' i ∧ vals[i]? = vals'[i]? := by
  unfold reachEq at h
  split at h
  · simp only [Bool.and_eq_true, decide_eq_true_eq, bitEq] at h
    obtain ⟨⟨⟨rfl, rfl⟩, hv⟩, hx⟩ := h
    exact ⟨_, _, rfl, hv, hx⟩
  · cases h

theorem reachEq_bytes {ty : BytesTy} {v : Option Bits} {offs : List Int} {data : Bytes} {a' : Arr} {i : Nat}
    (h : reachEq (.bytes ty v offs data) a' i = true) :
    ∃ v' offs', a' = .bytes ty v' offs' data ∧ isValid v i = isValid v' i ∧ offs[i]? = offs'[i]? ∧
      offs[i + 1]? = offs'[i + 1]? := by
  unfold reachEq at h
  split at h
  · simp only [Bool.and_eq_true, decide_eq_true_eq, bitEq] at h
    obtain ⟨⟨⟨⟨rfl, hv⟩, h0⟩, h1⟩, rfl⟩ := h
    exact ⟨_, _, rfl, hv, h0, h1⟩
  · cases h

theorem reachEq_bytesView {ty : ViewTy} {v : Option Bits} {views : List Nat} {buffers : List Bytes} {a' : Arr} {i : Nat}
    (h : reachEq (.bytesView ty v views buffers) a' i = true) :
    ∃ v' views', a' = .bytesView ty v' views' buffers ∧ isValid v i = isValid v' i ∧ views[i]? = views'[i]? := by
  unfold reachEq at h
  split at h
  · simp only [Bool.and_eq_true, decide_eq_true_eq, bitEq] at h
    obtain ⟨⟨⟨rfl, hv⟩, h0⟩, rfl⟩ := h
    exact ⟨_, _, rfl, hv, h0⟩
  · cases h

theorem reachEq_fsb {n : Int} {v : Option Bits} {data : Bytes} {a' : Arr} {i : Nat}
    (h : reachEq (.fixedSizeBinary n v data) a' i = true) :
    ∃ v', a' = .fixedSizeBinary n v' data ∧ isValid v i = isValid v' i := by
  unfold reachEq at h
  split at h
  · simp only [Bool.and_eq_true, decide_eq_true_eq, bitEq] at h
    obtain ⟨⟨rfl, hv⟩, rfl⟩ := h
    exact ⟨_, rfl, hv⟩
  · cases h

theorem reachEq_struct {len : Nat} {v : Option Bits} {fs : ArrFields} {a' : Arr} {i : Nat}
    (h : reachEq (.struct len v fs) a' i = true) :
    ∃ len' v' fs', a' = .struct len' v' fs' ∧ (i < len) = (i < len') ∧ isValid v i = isValid v' i ∧
      reachFields fs fs' i = true := by
  unfold reachEq at h
  split at h
  · simp only [Bool.and_eq_true, decide_eq_true_eq, bitEq] at h
    exact ⟨_, _, _, rfl, ltEq_iff h.1.1, h.1.2, h.2⟩
  · cases h

theorem allFrom_elim {f : Nat → Bool} {s n : Nat} (h : allFrom f s n = true) : ∀ k, k < n → f (s + k) = true := by
  unfold allFrom at h
  simp only [List.all_eq_true, List.mem_range] at h
  exact h

theorem reachEq_list {l : Bool} {v : Option Bits} {offs : List Int} {fm : FieldMeta} {el : Arr} {a' : Arr} {i : Nat}
    (h : reachEq (.list l v offs fm el) a' i = true) :
    ∃ l' v' offs' fm' el', a' = .list l' v' offs' fm' el' ∧ isValid v i = isValid v' i ∧ offs[i]? = offs'[i]? ∧
      offs[i + 1]? = offs'[i + 1]? ∧
      ∀ k, k < (offRange offs[i]? offs[i + 1]?).2 → reachEq el el' ((offRange offs[i]? offs[i + 1]?).1 + k) = true := by
  unfold reachEq at h
  split at h
  · simp only [Bool.and_eq_true, decide_eq_true_eq, bitEq] at h
    exact ⟨_, _, _, _, _, rfl, h.1.1.1, h.1.1.2, h.1.2, allFrom_elim h.2⟩
  · cases h

theorem reachEq_fsl {len : Nat} {v : Option Bits} {n : Int} {fm : FieldMeta} {el : Arr} {a' : Arr} {i : Nat}
    (h : reachEq (.fixedSizeList len v n fm el) a' i = true) :
    ∃ len' v' fm' el', a' = .fixedSizeList len' v' n fm' el' ∧ (i < len) = (i < len') ∧ isValid v i = isValid v' i ∧
      ∀ k, k < n.toNat → reachEq el el' (i * n.toNat + k) = true := by
  unfold reachEq at h
  split at h
  · simp only [Bool.and_eq_true, decide_eq_true_eq, bitEq] at h
    obtain ⟨⟨⟨hl, hv⟩, rfl⟩, hel⟩ := h
    exact ⟨_, _, _, _, rfl, ltEq_iff hl, hv, allFrom_elim hel⟩
  · cases h

theorem reachEq_map {v : Option Bits} {offs : List Int} {mm : MapMeta} {ks vs : Arr} {a' : Arr} {i : Nat}
    (h : reachEq (.map v offs mm ks vs) a' i = true) :
    ∃ v' offs' mm' ks' vs', a' = .map v' offs' mm' ks' vs' ∧ isValid v i = isValid v' i ∧ offs[i]? = offs'[i]? ∧
      offs[i + 1]? = offs'[i + 1]? ∧
      (∀ k, k < (offRange offs[i]? offs[i + 1]?).2 → reachEq ks ks' ((offRange offs[i]? offs[i + 1]?).1 + k) = true) ∧
      (∀ k, k < (offRange offs[i]? offs[i + 1]?).2 → reachEq vs vs' ((offRange offs[i]? offs[i + 1]?).1 + k) = true) := by
  unfold reachEq at h
  split at h
  · simp only [Bool.and_eq_true, decide_eq_true_eq, bitEq] at h
    exact ⟨_, _, _, _, _, rfl, h.1.1.1.1, h.1.1.1.2, h.1.1.2, allFrom_elim h.1.2, allFrom_elim h.2⟩
  · cases h

theorem reachEq_dictionary {ks vs : Arr} {a' : Arr} {i : Nat} (h : reachEq (.dictionary ks vs) a' i = true) :
    ∃ ks' vs', a' = .dictionary ks' vs' ∧ reachEq ks ks' i = true ∧ kind vs = kind vs' ∧
      ∀ ty kv vals k, ks = .prim ty kv vals → vals[i]? = some k → 0 ≤ k → reachEq vs vs' k.toNat = true := by
  unfold reachEq at h
  split at h
  · simp only [Bool.and_eq_true, decide_eq_true_eq] at h
    refine ⟨_, _, rfl, h.1.1, h.1.2, ?_⟩
    intro ty kv vals k hks hk h0
    have h2 := h.2
    subst hks
    simp only [hk, h0, if_true] at h2
    exact h2
  · cases h

theorem reachEq_union {types : List Int} {offs : Option (List Int)} {fs : ArrUFields} {a' : Arr} {i : Nat}
    (h : reachEq (.union types offs fs) a' i = true) :
    ∃ types' offs' fs', a' = .union types' offs' fs' ∧ unionHead types offs i = unionHead types' offs' i ∧
      fs.length = fs'.length ∧
      ∀ t o off, types[i]? = some t → offs = some o → o[i]? = some off → 0 ≤ t → 0 ≤ off →
        reachVariant fs fs' t.toNat off.toNat = true := by
  unfold reachEq at h
  split at h
  · simp only [Bool.and_eq_true, decide_eq_true_eq] at h
    refine ⟨_, _, _, rfl, h.1.1, h.1.2, ?_⟩
    intro t o off ht ho hoff h0 h1
    have h2 := h.2
    subst ho
    simp only [ht, hoff, h0, h1, and_self, if_true] at h2
    exact h2
  · cases h

theorem reachEq_kind {a a' : Arr} {i : Nat} (h : reachEq a a' i = true) : kind a = kind a' := by
  cases a with
  | null len => obtain ⟨_, rfl, _⟩ := reachEq_null h; rfl
  | boolean len v vals => obtain ⟨_, _, _, rfl, _⟩ := reachEq_boolean h; rfl
  | prim ty v vals => obtain ⟨_, _, rfl, _⟩ := reachEq_prim h; rfl
  | time ty u v vals => obtain ⟨_, _, rfl, _⟩ := reachEq_time h; rfl
  | timestamp u tz v vals => obtain ⟨_, _, rfl, _⟩ := reachEq_timestamp h; rfl
  | decimal128 p s v vals => obtain ⟨_, _, rfl, _⟩ := reachEq_decimal h; rfl
  | bytes ty v offs data => obtain ⟨_, _, rfl, _⟩ := reachEq_bytes h; rfl
  | bytesView ty v views buffers => obtain ⟨_, _, rfl, _⟩ := reachEq_bytesView h; rfl
  | fixedSizeBinary n v data => obtain ⟨_, rfl, _⟩ := reachEq_fsb h; rfl
  | struct len v fs => obtain ⟨_, _, _, rfl, _⟩ := reachEq_struct h; rfl
  | list l v offs fm el => obtain ⟨_, _, _, _, _, rfl, _⟩ := reachEq_list h; rfl
  | fixedSizeList len v n fm el => obtain ⟨_, _, _, _, rfl, _⟩ := reachEq_fsl h; rfl
  | map v offs mm ks vs => obtain ⟨_, _, _, _, _, rfl, _⟩ := reachEq_map h; rfl
  | dictionary ks vs => obtain ⟨_, _, rfl, _⟩ := reachEq_dictionary h; rfl
  | union types offs fs => obtain ⟨_, _, _, rfl, _⟩ := reachEq_union h; rfl

end SaModel.Props.C17
