import SaModel.Lemmas.C17Range
import SaModel.Spec.TouchEq
/-
C17, `untouched_ok` — inversion of `Spec.touchEqW` (SaModel/Spec/TouchEq.lean), constructor by constructor: the shape
of the second view and what the relation says about slot `i` (`SlotAgree` for leaf columns, `RowAgree` for the
containers), the `Option` layer (`touchEqW_weaken`), the element ranges (`rangeEq_elim`).
-/
namespace SaModel.Props.C17
open SaModel SaModel.Read SaModel.Spec

theorem ltEq_iff {i len len' : Nat} (h : ltEq i len len' = true) : (i < len) = (i < len') := by
  unfold ltEq at h
  simp only [beq_iff_eq, decide_eq_decide] at h
  exact propext h

theorem ge_of_lt_eq {i len len' : Nat} (hl : (i < len) = (i < len')) : (i ≥ len) = (i ≥ len') := by
  apply propext
  have := Eq.to_iff hl
  omega

/-- what `slotEq` says: the same row test; in range the same validity bit; valid the content -/
def SlotAgree (i len len' : Nat) (v v' : Option Bits) (C : Prop) : Prop :=
  (i < len) = (i < len') ∧ (i < len → isValid v i = isValid v' i ∧ (isValid v i = .ok true → C))

/-- what `rowEq` says -/
def RowAgree (o : Bool) (i len len' : Nat) (v v' : Option Bits) (C : Prop) : Prop :=
  (i < len) = (i < len') ∧ (o = true → i < len → isValid v i = isValid v' i) ∧
    (i < len → (o = true → isValid v i = .ok true) → C)

theorem whenValid_elim {v : Option Bits} {i : Nat} {c : Bool} (h : whenValid v i c = true) (hv : isValid v i = .ok true) :
    c = true := by
  unfold whenValid at h
  simp only [hv] at h
  exact h

theorem slotEq_elim {i len len' : Nat} {v v' : Option Bits} {c : Bool} (h : slotEq i len len' v v' c = true) :
    SlotAgree i len len' v v' (c = true) := by
  unfold slotEq at h
  simp only [Bool.and_eq_true] at h
  refine ⟨ltEq_iff h.1, fun hi => ?_⟩
  have h2 := h.2
  simp only [hi, if_true, Bool.and_eq_true, bitEq, decide_eq_true_eq] at h2
  exact ⟨h2.1, fun hv => whenValid_elim h2.2 hv⟩

theorem rowEq_elim {o : Bool} {i len len' : Nat} {v v' : Option Bits} {c : Bool} (h : rowEq o i len len' v v' c = true) :
    RowAgree o i len len' v v' (c = true) := by
  unfold rowEq at h
  simp only [Bool.and_eq_true] at h
  refine ⟨ltEq_iff h.1, fun ho hi => ?_, fun hi hv => ?_⟩
  · have h2 := h.2
    simp only [hi, ho, if_true, Bool.and_eq_true, bitEq, decide_eq_true_eq] at h2
    exact h2.1
  · have h2 := h.2
    cases o with
    | false => simp only [hi, if_true, Bool.false_eq_true, if_false] at h2; exact h2
    | true =>
      simp only [hi, if_true, Bool.and_eq_true, bitEq, decide_eq_true_eq] at h2
      exact whenValid_elim h2.2 (hv rfl)

theorem SlotAgree.mono {i len len' : Nat} {v v' : Option Bits} {C D : Prop} (h : SlotAgree i len len' v v' C) (hcd : C → D) :
    SlotAgree i len len' v v' D :=
  ⟨h.1, fun hi => ⟨(h.2 hi).1, fun hv => hcd ((h.2 hi).2 hv)⟩⟩

theorem RowAgree.mono {o : Bool} {i len len' : Nat} {v v' : Option Bits} {C D : Prop} (h : RowAgree o i len len' v v' C)
    (hcd : C → D) : RowAgree o i len len' v v' D :=
  ⟨h.1, h.2.1, fun hi hv => hcd (h.2.2 hi hv)⟩

/-- the `Option` layer: once the slot is known to be valid the validity bit need not be consulted -/
theorem RowAgree.weaken {o : Bool} {i len len' : Nat} {v v' : Option Bits} {C : Prop} (h : RowAgree true i len len' v v' C)
    (hv : i < len → isValid v i = .ok true) : RowAgree o i len len' v v' C :=
  ⟨h.1, fun _ hi => h.2.1 rfl hi, fun hi _ => h.2.2 hi (fun _ => hv hi)⟩

/-! ### element ranges -/

theorem rangeEqN_elim {f : Nat → Bool} {w : Bool} {len s e : Nat} (h : rangeEqN f w len s e = true) :
    w = true ∨ ∀ k, k < e - s → f (s + k) = true := by
  unfold rangeEqN at h
  split at h
  · split at h
    · simp only [List.all_eq_true, List.mem_range] at h
      exact Or.inr h
    · exact Or.inl h
  · exact Or.inr (fun k hk => by omega)

theorem rangeEq_elim {f : Nat → Bool} {w : Bool} {len : Nat} {so eo : Int} {s e : Nat} (h : rangeEq f w len so eo = true)
    (hs : so = (s : Int)) (he : eo = (e : Int)) : w = true ∨ ∀ k, k < e - s → f (s + k) = true := by
  subst hs he
  unfold rangeEq at h
  simp only [Int.natCast_nonneg, and_self, if_true, Int.toNat_natCast] at h
  exact rangeEqN_elim h

/-! ### leaf columns -/

theorem touchEqW_null {o : Bool} {p : Target} {len : Nat} {a' : Arr} {i : Nat} (h : touchEqW o p (.null len) a' i = true) :
    ∃ len', a' = .null len' ∧ (i < len) = (i < len') := by
  unfold touchEqW at h
  split at h
  · exact ⟨_, rfl, ltEq_iff h⟩
  · cases h

theorem touchEqW_boolean {o : Bool} {p : Target} {len : Nat} {v : Option Bits} {vals : Bits} {a' : Arr} {i : Nat}
    (h : touchEqW o p (.boolean len v vals) a' i = true) :
    ∃ len' v' vals', a' = .boolean len' v' vals' ∧ SlotAgree i len len' v v' (getBit vals i = getBit vals' i) := by
  unfold touchEqW at h
  split at h
  · exact ⟨_, _, _, rfl, (slotEq_elim h).mono (fun hc => by simpa using hc)⟩
  · cases h

theorem touchEqW_prim {o : Bool} {p : Target} {ty : PrimTy} {v : Option Bits} {vals : List Int} {a' : Arr} {i : Nat}
    (h : touchEqW o p (.prim ty v vals) a' i = true) :
    ∃ v' vals', a' = .prim ty v' vals' ∧ SlotAgree i vals.length vals'.length v v' (vals[i]? = vals'[i]?) := by
  unfold touchEqW at h
  split at h
  · simp only [Bool.and_eq_true, decide_eq_true_eq] at h
    obtain ⟨rfl, hs⟩ := h
    exact ⟨_, _, rfl, (slotEq_elim hs).mono (fun hc => by simpa using hc)⟩
  · cases h

theorem touchEqW_time {o : Bool} {p : Target} {ty : TimeTy} {u : TimeUnit} {v : Option Bits} {vals : List Int} {a' : Arr}
    {i : Nat} (h : touchEqW o p (.time ty u v vals) a' i = true) :
    ∃ v' vals', a' = .time ty u v' vals' ∧ SlotAgree i vals.length vals'.length v v' (vals[i]? = vals'[i]?) := by
  unfold touchEqW at h
  split at h
  · simp only [Bool.and_eq_true, decide_eq_true_eq] at h
    obtain ⟨⟨rfl, rfl⟩, hs⟩ := h
    exact ⟨_, _, rfl, (slotEq_elim hs).mono (fun hc => by simpa using hc)⟩
  · cases h

theorem touchEqW_timestamp {o : Bool} {p : Target} {u : TimeUnit} {tz : Option String} {v : Option Bits} {vals : List Int}
    {a' : Arr} {i : Nat} (h : touchEqW o p (.timestamp u tz v vals) a' i = true) :
    ∃ v' vals', a' = .timestamp u tz v' vals' ∧ SlotAgree i vals.length vals'.length v v' (vals[i]? = vals'[i]?) := by
  unfold touchEqW at h
  split at h
  · simp only [Bool.and_eq_true, decide_eq_true_eq] at h
    obtain ⟨⟨rfl, rfl⟩, hs⟩ := h
    exact ⟨_, _, rfl, (slotEq_elim hs).mono (fun hc => by simpa using hc)⟩
  · cases h

theorem touchEqW_decimal {o : Bool} {p : Target} {pr : Nat} {s : Int} {v : Option Bits} {vals : List Int} {a' : Arr}
    {i : Nat} (h : touchEqW o p (.decimal128 pr s v vals) a' i = true) :
    ∃ v' vals', a' = .decimal128 pr s v' vals' ∧ SlotAgree i vals.length vals'.length v v' (vals[i]? = vals'[i]?) := by
  unfold touchEqW at h
  split at h
  · simp only [Bool.and_eq_true, decide_eq_true_eq] at h
    obtain ⟨⟨rfl, rfl⟩, hs⟩ := h
    exact ⟨_, _, rfl, (slotEq_elim hs).mono (fun hc => by simpa using hc)⟩
  · cases h

theorem touchEqW_bytes {o : Bool} {p : Target} {ty : BytesTy} {v : Option Bits} {offs : List Int} {data : Bytes} {a' : Arr}
    {i : Nat} (h : touchEqW o p (.bytes ty v offs data) a' i = true) :
    ∃ v' offs' data', a' = .bytes ty v' offs' data' ∧
      SlotAgree i (offs.length - 1) (offs'.length - 1) v v'
        (offs[i]? = offs'[i]? ∧ offs[i + 1]? = offs'[i + 1]? ∧
          byteSlice data (offs.getD i 0) (offs.getD (i + 1) 0) = byteSlice data' (offs.getD i 0) (offs.getD (i + 1) 0)) := by
  unfold touchEqW at h
  split at h
  · simp only [Bool.and_eq_true, decide_eq_true_eq] at h
    obtain ⟨rfl, hs⟩ := h
    exact ⟨_, _, _, rfl, (slotEq_elim hs).mono (fun hc => by
      simp only [Bool.and_eq_true, decide_eq_true_eq] at hc; exact ⟨hc.1.1, hc.1.2, hc.2⟩)⟩
  · cases h

theorem touchEqW_bytesView {o : Bool} {p : Target} {ty : ViewTy} {v : Option Bits} {views : List Nat} {buffers : List Bytes}
    {a' : Arr} {i : Nat} (h : touchEqW o p (.bytesView ty v views buffers) a' i = true) :
    ∃ v' views' buffers', a' = .bytesView ty v' views' buffers' ∧
      SlotAgree i views.length views'.length v v'
        (views[i]? = views'[i]? ∧ viewSlice buffers (views.getD i 0) = viewSlice buffers' (views.getD i 0)) := by
  unfold touchEqW at h
  split at h
  · simp only [Bool.and_eq_true, decide_eq_true_eq] at h
    obtain ⟨rfl, hs⟩ := h
    exact ⟨_, _, _, rfl, (slotEq_elim hs).mono (fun hc => by
      simp only [Bool.and_eq_true, decide_eq_true_eq] at hc; exact hc)⟩
  · cases h

/-- a fixed-size binary column: the buffers are both not divisible into rows, or both are and slot `i` agrees -/
def FsbAgree (n : Int) (v v' : Option Bits) (data data' : Bytes) (i : Nat) : Prop :=
  (fsbLen n data = none ∧ fsbLen n data' = none) ∨
  ∃ len len', fsbLen n data = some len ∧ fsbLen n data' = some len' ∧
    SlotAgree i len len' v v' ((data.drop (i * n.toNat)).take n.toNat = (data'.drop (i * n.toNat)).take n.toNat)

theorem touchEqW_fsb {o : Bool} {p : Target} {n : Int} {v : Option Bits} {data : Bytes} {a' : Arr} {i : Nat}
    (h : touchEqW o p (.fixedSizeBinary n v data) a' i = true) :
    ∃ v' data', a' = .fixedSizeBinary n v' data' ∧ FsbAgree n v v' data data' i := by
  unfold touchEqW at h
  split at h
  · simp only [Bool.and_eq_true, decide_eq_true_eq] at h
    obtain ⟨rfl, hs⟩ := h
    refine ⟨_, _, rfl, ?_⟩
    split at hs
    · rename_i len len' h1 h2
      exact Or.inr ⟨len, len', h1, h2, (slotEq_elim hs).mono (fun hc => by simpa using hc)⟩
    · rename_i h1 h2
      exact Or.inl ⟨h1, h2⟩
    · cases hs
  · cases h

/-! ### containers -/

/-- what a read of target `p` looks at in the fields of a struct column -/
def structContent (p : Target) (fs fs' : ArrFields) (i : Nat) : Bool :=
  match p with
  | .struct tfs => namedEq tfs fs fs' i
  | .tuple ts | .tupleStruct ts => tupleEq ts fs fs' i
  | .map _ w => allEq w fs fs' i
  | .any | .ignored => allEq .any fs fs' i
  | _ => true

theorem touchEqW_struct {o : Bool} {p : Target} {len : Nat} {v : Option Bits} {fs : ArrFields} {a' : Arr} {i : Nat}
    (h : touchEqW o p (.struct len v fs) a' i = true) :
    ∃ len' v' fs', a' = .struct len' v' fs' ∧ RowAgree o i len len' v v' (structContent p fs fs' i = true) := by
  unfold touchEqW at h
  split at h
  · exact ⟨_, _, _, rfl, rowEq_elim h⟩
  · cases h

/-- the elements of a list-like column: the children are equal, or every designated element agrees -/
def ElemsAgree (et : Target) (el el' : Arr) (s e : Nat) : Prop :=
  el = el' ∨ ∀ k, k < e - s → touchEq et el el' (s + k) = true

/-- what a read of target `p` looks at in row `i` of a list column -/
def ListAgree (p : Target) (offs offs' : List Int) (el el' : Arr) (i : Nat) : Prop :=
  readsList p = true → offs[i]? = offs'[i]? ∧ offs[i + 1]? = offs'[i + 1]? ∧
    ∀ (et : Target) (s e : Nat), elemTarget? p = some et → offs[i]? = some (s : Int) → offs[i + 1]? = some (e : Int) → ElemsAgree et el el' s e

theorem getD_of_getElem? {l : List Int} {k : Nat} {x : Int} (h : l[k]? = some x) : l.getD k 0 = x := by
  simp [List.getD, h]

theorem touchEqW_list {o : Bool} {p : Target} {l : Bool} {v : Option Bits} {offs : List Int} {fm : FieldMeta} {el : Arr}
    {a' : Arr} {i : Nat} (h : touchEqW o p (.list l v offs fm el) a' i = true) :
    ∃ l' v' offs' fm' el', a' = .list l' v' offs' fm' el' ∧
      RowAgree o i (offs.length - 1) (offs'.length - 1) v v' (ListAgree p offs offs' el el' i) := by
  unfold touchEqW at h
  split at h
  · refine ⟨_, _, _, _, _, rfl, (rowEq_elim h).mono (fun hc => ?_)⟩
    intro hr
    simp only [hr, Bool.not_true, Bool.false_or, Bool.and_eq_true, decide_eq_true_eq] at hc
    refine ⟨hc.1.1, hc.1.2, ?_⟩
    intro et s e het hs he
    have h3 := hc.2
    simp only [het] at h3
    rcases rangeEq_elim h3 (getD_of_getElem? hs) (getD_of_getElem? he) with hw | hall
    · exact Or.inl (by simpa using hw)
    · exact Or.inr hall
  · cases h

/-- what a read of target `p` looks at in row `i` of a fixed-size-list column -/
def FslAgree (p : Target) (n : Int) (el el' : Arr) (i : Nat) : Prop :=
  ∀ et, fslElemTarget? p = some et → 0 ≤ n → ElemsAgree et el el' (i * n.toNat) ((i + 1) * n.toNat)

theorem touchEqW_fsl {o : Bool} {p : Target} {len : Nat} {v : Option Bits} {n : Int} {fm : FieldMeta} {el : Arr} {a' : Arr}
    {i : Nat} (h : touchEqW o p (.fixedSizeList len v n fm el) a' i = true) :
    ∃ len' v' fm' el', a' = .fixedSizeList len' v' n fm' el' ∧ RowAgree o i len len' v v' (FslAgree p n el el' i) := by
  unfold touchEqW at h
  split at h
  · simp only [Bool.and_eq_true, decide_eq_true_eq] at h
    obtain ⟨rfl, hs⟩ := h
    refine ⟨_, _, _, _, rfl, (rowEq_elim hs).mono (fun hc => ?_)⟩
    intro et het hn
    simp only [het, hn, if_true] at hc
    rcases rangeEqN_elim hc with hw | hall
    · exact Or.inl (by simpa using hw)
    · exact Or.inr hall
  · cases h

/-- what a read of target `p` looks at in row `i` of a map column -/
def MapAgree (p : Target) (offs offs' : List Int) (ks ks' vs vs' : Arr) (i : Nat) : Prop :=
  ∀ kt vt, entryTargets? p = some (kt, vt) → offs[i]? = offs'[i]? ∧ offs[i + 1]? = offs'[i + 1]? ∧
    ∀ (s e : Nat), offs[i]? = some (s : Int) → offs[i + 1]? = some (e : Int) → ElemsAgree kt ks ks' s e ∧ ElemsAgree vt vs vs' s e

theorem touchEqW_map {o : Bool} {p : Target} {v : Option Bits} {offs : List Int} {mm : MapMeta} {ks vs : Arr} {a' : Arr}
    {i : Nat} (h : touchEqW o p (.map v offs mm ks vs) a' i = true) :
    ∃ v' offs' mm' ks' vs', a' = .map v' offs' mm' ks' vs' ∧
      RowAgree o i (offs.length - 1) (offs'.length - 1) v v' (MapAgree p offs offs' ks ks' vs vs' i) := by
  unfold touchEqW at h
  split at h
  · refine ⟨_, _, _, _, _, rfl, (rowEq_elim h).mono (fun hc => ?_)⟩
    intro kt vt het
    simp only [het, Bool.and_eq_true, decide_eq_true_eq] at hc
    refine ⟨hc.1.1.1, hc.1.1.2, ?_⟩
    intro s e hs he
    constructor
    · rcases rangeEq_elim hc.1.2 (getD_of_getElem? hs) (getD_of_getElem? he) with hw | hall
      · exact Or.inl (by simpa using hw)
      · exact Or.inr hall
    · rcases rangeEq_elim hc.2 (getD_of_getElem? hs) (getD_of_getElem? he) with hw | hall
      · exact Or.inl (by simpa using hw)
      · exact Or.inr hall
  · cases h

theorem touchEqW_dictionary {o : Bool} {p : Target} {ks vs : Arr} {a' : Arr} {i : Nat}
    (h : touchEqW o p (.dictionary ks vs) a' i = true) :
    ∃ ks' vs', a' = .dictionary ks' vs' ∧ kind ks = kind ks' ∧ kind vs = kind vs' ∧
      (∀ ty kv kvals, ks = .prim ty kv kvals → touchEqW false p ks ks' i = true) ∧
      (∀ ty kv kvals vty vv voffs vdata k, ks = .prim ty kv kvals → vs = .bytes vty vv voffs vdata →
        isValid kv i = .ok true → kvals[i]? = some k → 0 ≤ k → touchEqW false p vs vs' k.toNat = true) := by
  unfold touchEqW at h
  split at h
  · simp only [Bool.and_eq_true, beq_iff_eq] at h
    refine ⟨_, _, rfl, h.1.1, h.1.2, ?_, ?_⟩
    · intro ty kv kvals hks
      have h2 := h.2
      subst hks
      simp only [Bool.and_eq_true] at h2
      exact h2.1
    · intro ty kv kvals vty vv voffs vdata k hks hvs hv hk h0
      have h2 := h.2
      subst hks hvs
      simp only [Bool.and_eq_true, hv, hk, h0, if_true] at h2
      exact h2.2
  · cases h

theorem touchEqW_union {o : Bool} {p : Target} {types : List Int} {offs : Option (List Int)} {fs : ArrUFields} {a' : Arr}
    {i : Nat} (h : touchEqW o p (.union types offs fs) a' i = true) :
    ∃ types' offs' fs', a' = .union types' offs' fs' ∧ unionHead types offs i = unionHead types' offs' i ∧
      fs.length = fs'.length ∧
      ∀ t ofs off, types[i]? = some t → offs = some ofs → ofs[i]? = some off → 0 ≤ t → 0 ≤ off →
        variantEq (variantTarget? p t.toNat) fs fs' t.toNat off.toNat = true := by
  unfold touchEqW at h
  split at h
  · simp only [Bool.and_eq_true, decide_eq_true_eq] at h
    refine ⟨_, _, _, rfl, h.1.1, h.1.2, ?_⟩
    intro t ofs off ht ho hoff h0 h1
    have h2 := h.2
    subst ho
    simp only [ht, hoff, h0, h1, and_self, if_true] at h2
    exact h2
  · cases h

theorem touchEqW_kind {o : Bool} {p : Target} {a a' : Arr} {i : Nat} (h : touchEqW o p a a' i = true) : kind a = kind a' := by
  cases a with
  | null len => obtain ⟨_, rfl, _⟩ := touchEqW_null h; rfl
  | boolean len v vals => obtain ⟨_, _, _, rfl, _⟩ := touchEqW_boolean h; rfl
  | prim ty v vals => obtain ⟨_, _, rfl, _⟩ := touchEqW_prim h; rfl
  | time ty u v vals => obtain ⟨_, _, rfl, _⟩ := touchEqW_time h; rfl
  | timestamp u tz v vals => obtain ⟨_, _, rfl, _⟩ := touchEqW_timestamp h; rfl
  | decimal128 pr s v vals => obtain ⟨_, _, rfl, _⟩ := touchEqW_decimal h; rfl
  | bytes ty v offs data => obtain ⟨_, _, _, rfl, _⟩ := touchEqW_bytes h; rfl
  | bytesView ty v views buffers => obtain ⟨_, _, _, rfl, _⟩ := touchEqW_bytesView h; rfl
  | fixedSizeBinary n v data => obtain ⟨_, _, rfl, _⟩ := touchEqW_fsb h; rfl
  | struct len v fs => obtain ⟨_, _, _, rfl, _⟩ := touchEqW_struct h; rfl
  | list l v offs fm el => obtain ⟨_, _, _, _, _, rfl, _⟩ := touchEqW_list h; rfl
  | fixedSizeList len v n fm el => obtain ⟨_, _, _, _, rfl, _⟩ := touchEqW_fsl h; rfl
  | map v offs mm ks vs => obtain ⟨_, _, _, _, _, rfl, _⟩ := touchEqW_map h; rfl
  | dictionary ks vs => obtain ⟨_, _, rfl, _⟩ := touchEqW_dictionary h; rfl
  | union types offs fs => obtain ⟨_, _, _, rfl, _⟩ := touchEqW_union h; rfl

/-! ### the target layers -/

theorem touchEq_newtype (t : Target) (a a' : Arr) (i : Nat) : touchEq (.newtype t) a a' i = touchEq t a a' i := rfl

theorem touchEq_option (t : Target) (a a' : Arr) (i : Nat) :
    touchEq (.option t) a a' i = touchEqW true (peelTarget t).1 a a' i := by
  unfold touchEq optOf
  simp only [peelTarget, Bool.true_or]

theorem touchEq_any (a a' : Arr) (i : Nat) : touchEq .any a a' i = touchEqW true .any a a' i := by
  unfold touchEq optOf
  simp [peelTarget, isAnyLike]

/-! ### fields of struct columns, children of union columns -/

theorem allEq_nil {t : Target} {fs' : ArrFields} {i : Nat} (h : allEq t .nil fs' i = true) : fs' = .nil := by
  unfold allEq at h
  split at h
  · rfl
  · cases h

theorem allEq_cons {t : Target} {fm : FieldMeta} {c : Arr} {r fs' : ArrFields} {i : Nat}
    (h : allEq t (.cons fm c r) fs' i = true) :
    ∃ fm' c' r', fs' = .cons fm' c' r' ∧ fm.name = fm'.name ∧ touchEq t c c' i = true ∧ allEq t r r' i = true := by
  unfold allEq at h
  split at h
  · simp only [Bool.and_eq_true, decide_eq_true_eq] at h
    exact ⟨_, _, _, rfl, h.1.1, h.1.2, h.2⟩
  · cases h

theorem namedEq_nil {tfs : TFields} {fs' : ArrFields} {i : Nat} (h : namedEq tfs .nil fs' i = true) : fs' = .nil := by
  unfold namedEq at h
  split at h
  · rfl
  · cases h

theorem namedEq_cons {tfs : TFields} {fm : FieldMeta} {c : Arr} {r fs' : ArrFields} {i : Nat}
    (h : namedEq tfs (.cons fm c r) fs' i = true) :
    ∃ fm' c' r', fs' = .cons fm' c' r' ∧ fm.name = fm'.name ∧
      (∀ tt, tfieldNamed tfs fm.name = some tt → touchEq tt c c' i = true) ∧
      (tfieldNamed tfs fm.name = none → touchEqW true .any c c' i = true) ∧ namedEq tfs r r' i = true := by
  unfold namedEq at h
  split at h
  · simp only [Bool.and_eq_true, decide_eq_true_eq] at h
    refine ⟨_, _, _, rfl, h.1.1, ?_, ?_, h.2⟩
    · intro tt htt
      have h2 := h.1.2
      simp only [htt] at h2
      exact h2
    · intro htt
      have h2 := h.1.2
      simp only [htt] at h2
      exact h2
  · cases h

theorem tupleEq_cons_nil {t : Target} {ts : Targets} {fs' : ArrFields} {i : Nat} (h : tupleEq (.cons t ts) .nil fs' i = true) :
    fs' = .nil := by
  unfold tupleEq at h
  split at h
  · rfl
  · cases h

theorem tupleEq_cons_cons {t : Target} {ts : Targets} {fm : FieldMeta} {c : Arr} {r fs' : ArrFields} {i : Nat}
    (h : tupleEq (.cons t ts) (.cons fm c r) fs' i = true) :
    ∃ fm' c' r', fs' = .cons fm' c' r' ∧ touchEq t c c' i = true ∧ tupleEq ts r r' i = true := by
  unfold tupleEq at h
  split at h
  · simp only [Bool.and_eq_true] at h
    exact ⟨_, _, _, rfl, h.1, h.2⟩
  · cases h

theorem variantEq_zero {vt : String → Option Target} {tid : Int} {fm : FieldMeta} {c : Arr} {r fs' : ArrUFields} {j : Nat}
    (h : variantEq vt (.cons tid fm c r) fs' 0 j = true) :
    ∃ tid' fm' c' r', fs' = .cons tid' fm' c' r' ∧ fm.name = fm'.name ∧ ∀ t, vt fm.name = some t → touchEq t c c' j = true := by
  unfold variantEq at h
  split at h
  · simp only [Bool.and_eq_true, decide_eq_true_eq] at h
    refine ⟨_, _, _, _, rfl, h.1, ?_⟩
    intro t ht
    have h2 := h.2
    simp only [ht] at h2
    exact h2
  · cases h

theorem variantEq_succ {vt : String → Option Target} {tid : Int} {fm : FieldMeta} {c : Arr} {r fs' : ArrUFields} {k j : Nat}
    (h : variantEq vt (.cons tid fm c r) fs' (k + 1) j = true) :
    ∃ tid' fm' c' r', fs' = .cons tid' fm' c' r' ∧ variantEq vt r r' k j = true := by
  unfold variantEq at h
  split at h
  · exact ⟨_, _, _, _, rfl, h⟩
  · cases h

end SaModel.Props.C17
