import SaModel.Lemmas.C17UntouchedLeaf
/-
C17, `untouched_ok` — the element loops and `deserialize_any` (targets `any` / `IgnoredAny`): structural recursion over
the array.
-/
namespace SaModel.Props.C17
open SaModel SaModel.Read SaModel.Spec

theorem readRange_congr {α} {f g : Nat → R α} : ∀ (n s : Nat), (∀ k, k < n → f (s + k) = g (s + k)) →
    readRange f s n = readRange g s n
  | 0, _, _ => by simp [readRange]
  | n + 1, s, h => by
    unfold readRange
    have h0 := h 0 (by omega)
    simp only [Nat.add_zero] at h0
    have hrest : readRange f (s + 1) n = readRange g (s + 1) n := readRange_congr n (s + 1) (fun k hk => by
      have hk1 := h (k + 1) (by omega)
      rw [Nat.add_assoc, Nat.add_comm 1 k]
      exact hk1)
    rw [h0, hrest]

/-- the two offsets `listRange` read -/
theorem listRange_parts {offs : List Int} {i s e : Nat} (h : listRange Fixes.all offs i = .ok (s, e)) :
    i < offs.length - 1 ∧ offs[i]? = some (s : Int) ∧ offs[i + 1]? = some (e : Int) := by
  unfold listRange at h
  split at h
  · cases h
  · rename_i hlen
    have h1 : i < offs.length := by omega
    have h2 : i + 1 < offs.length := by omega
    simp only [List.getElem?_eq_getElem h1, List.getElem?_eq_getElem h2] at h ⊢
    obtain ⟨s', hs, h⟩ := ok_bind_inv h
    obtain ⟨e', he, h⟩ := ok_bind_inv h
    simp only [show Fixes.all.offsetsOrder = true from rfl, Bool.true_and, decide_eq_true_eq] at h
    split at h
    · cases h
    · simp only [pure, Except.pure, Except.ok.injEq, Prod.mk.injEq] at h
      obtain ⟨hs', he'⟩ := h
      subst hs' he'
      unfold tryIntoUsize at hs he
      split at hs
      · split at he
        · cases hs; cases he
          refine ⟨by omega, ?_, ?_⟩
          · simp only [Option.some.injEq]; omega
          · simp only [Option.some.injEq]; omega
        · cases he
      · cases hs

theorem fslRange_parts {len : Nat} {n : Int} {i s e : Nat} (h : fslRange Fixes.all len n i = .ok (s, e)) :
    i < len ∧ 0 ≤ n ∧ s = i * n.toNat ∧ e = (i + 1) * n.toNat := by
  unfold fslRange at h
  split at h
  · cases h
  · rename_i hlt
    obtain ⟨n', hn, h⟩ := ok_bind_inv h
    unfold tryIntoUsize at hn
    split at hn
    · rename_i h0
      cases hn
      split at h
      · simp only [show Fixes.all.fslMul = true from rfl, if_true] at h; cases h
      · simp only [pure, Except.pure, Except.ok.injEq, Prod.mk.injEq] at h
        exact ⟨by omega, h0, h.1.symm, h.2.symm⟩
    · cases hn

theorem unionSelect_parts {types : List Int} {offs : Option (List Int)} {n i k off : Nat}
    (h : unionSelect Fixes.all types offs n i = .ok (k, off)) :
    ∃ t o offv, types[i]? = some t ∧ offs = some o ∧ o[i]? = some offv ∧ 0 ≤ t ∧ 0 ≤ offv ∧ k = t.toNat ∧ off = offv.toNat := by
  unfold unionSelect at h
  split at h
  · cases h
  · split at h
    · cases h
    · rename_i o
      split at h
      · cases h
      · split at h
        · rename_i t offv ht ho
          obtain ⟨off', hoff, h⟩ := ok_bind_inv h
          unfold tryIntoUsize at hoff
          split at hoff
          · rename_i h0
            cases hoff
            split at h
            · rename_i hc
              simp only [pure, Except.pure, Except.ok.injEq, Prod.mk.injEq] at h
              exact ⟨t, o, offv, ht, rfl, ho, hc.1, h0, h.1.symm, h.2.symm⟩
            · simp only [show Fixes.all.enumTypeId = true from rfl, if_true] at h; cases h
          · cases hoff
        · cases h

/-- an element loop over two children that agree on the designated range -/
theorem readRange_elems {α} {et : Target} {el el' : Arr} {s e : Nat} (f : Arr → Nat → R α) (h : ElemsAgree et el el' s e)
    (hf : ∀ j, touchEq et el el' j = true → f el j = f el' j) :
    readRange (f el) s (e - s) = readRange (f el') s (e - s) := by
  rcases h with rfl | hall
  · rfl
  · exact readRange_congr _ _ (fun k hk => hf (s + k) (hall k hk))

/-- the trait default `deserialize_any`: `is_some`, then `deserialize_any_some` where it said yes -/
theorem anyAt_agree {p : Target} {a a' : Arr} {i : Nat} (h : touchEqW true p a a' i = true)
    (hrec : touchEqW false p a a' i = true → readAnySome Fixes.all a i = readAnySome Fixes.all a' i) :
    anyAt Fixes.all a (readAnySome Fixes.all a) i = anyAt Fixes.all a' (readAnySome Fixes.all a') i := by
  unfold anyAt
  have hs := isSome_agree h
  rw [hs]
  cases hb : isSome Fixes.all a' i with
  | error e => rfl
  | ok b =>
    cases b with
    | false => rfl
    | true =>
      simp only [bind, Except.bind, if_true]
      exact hrec (touchEqW_weaken h (hs.trans hb))

theorem anyLike_cases {p : Target} (h : isAnyLike p = true) : p = .any ∨ p = .ignored := by
  cases p <;> simp [isAnyLike] at h
  · exact Or.inl rfl
  · exact Or.inr rfl

theorem structContent_anyLike {p : Target} (hp : isAnyLike p = true) (fs fs' : ArrFields) (i : Nat) :
    structContent p fs fs' i = allEq .any fs fs' i := by
  rcases anyLike_cases hp with rfl | rfl <;> rfl

theorem readsList_anyLike {p : Target} (hp : isAnyLike p = true) : readsList p = true ∧ elemTarget? p = some .any ∧
    fslElemTarget? p = some .any ∧ entryTargets? p = some (.any, .any) ∧ ∀ k, variantTarget? p k = fun _ => some .any := by
  rcases anyLike_cases hp with rfl | rfl <;> exact ⟨rfl, rfl, rfl, rfl, fun _ => rfl⟩

mutual
theorem anySome_agree : ∀ (a a' : Arr) (i : Nat) (p : Target), isAnyLike p = true → touchEqW false p a a' i = true →
    readAnySome Fixes.all a i = readAnySome Fixes.all a' i
  | .null len, a', i, p, _, h => by
    obtain ⟨len', rfl, hl⟩ := touchEqW_null h; unfold readAnySome; simp only [nullCheck_congr hl]
  | .boolean len v vals, a', i, p, _, h => by
    obtain ⟨len', v', vals', rfl, hs⟩ := touchEqW_boolean h; unfold readAnySome; simp only [boolGet_congr hs]
  | .prim ty v vals, a', i, p, _, h => by
    obtain ⟨v', vals', rfl, hs⟩ := touchEqW_prim h; unfold readAnySome; simp only [primGet_congr hs]
  | .time ty u v vals, a', i, p, _, h => by
    obtain ⟨v', vals', rfl, hs⟩ := touchEqW_time h; unfold readAnySome; simp only [primGet_congr hs]
  | .timestamp u tz v vals, a', i, p, _, h => by
    obtain ⟨v', vals', rfl, hs⟩ := touchEqW_timestamp h; unfold readAnySome; simp only [primGet_congr hs]
  | .decimal128 pr s v vals, a', i, p, _, h => by
    obtain ⟨v', vals', rfl, hs⟩ := touchEqW_decimal h; unfold readAnySome; simp only [primGet_congr hs]
  | .bytes ty v offs data, a', i, p, _, h => by
    obtain ⟨v', offs', data', rfl, hs⟩ := touchEqW_bytes h; unfold readAnySome; simp only [bytesColGet_congr hs]
  | .bytesView ty v views buffers, a', i, p, _, h => by
    obtain ⟨v', views', buffers', rfl, hs⟩ := touchEqW_bytesView h; unfold readAnySome; simp only [viewColGet_congr hs]
  | .fixedSizeBinary n v data, a', i, p, _, h => by
    obtain ⟨v', data', rfl, hs⟩ := touchEqW_fsb h; unfold readAnySome; simp only [fsbColGet_congr hs]
  | .struct len v fs, a', i, p, hp, h => by
    obtain ⟨len', v', fs', rfl, hl, _, hc⟩ := touchEqW_struct h
    unfold readAnySome
    simp only [ge_of_lt_eq hl]
    by_cases hi : i < len
    · have hfs := hc hi (fun h => nomatch h)
      rw [structContent_anyLike hp] at hfs
      simp only [anyFields_agree fs fs' i hfs]
    · have : i ≥ len' := by have : ¬ i < len' := hl ▸ hi; omega
      simp only [this, if_true]
  | .list l v offs fm el, a', i, p, hp, h => by
    obtain ⟨l', v', offs', fm', el', rfl, hl, _, hc⟩ := touchEqW_list h
    obtain ⟨hrl, het, _⟩ := readsList_anyLike hp
    have hlr := listRange_congr hl (fun hi => ⟨(hc hi (fun h => nomatch h) hrl).1, (hc hi (fun h => nomatch h) hrl).2.1⟩)
    unfold readAnySome
    rw [hlr]
    cases hr : listRange Fixes.all offs' i with
    | error e => rfl
    | ok r =>
      obtain ⟨s, e⟩ := r
      obtain ⟨hi, hs, he⟩ := listRange_parts (hlr.trans hr)
      have hel := (hc hi (fun h => nomatch h) hrl).2.2 .any s e het hs he
      have hrr := readRange_elems (fun el j => anyAt Fixes.all el (readAnySome Fixes.all el) j) hel (fun j hj =>
        anyAt_agree (p := .any) (by rw [← touchEq_any]; exact hj) (anySome_agree el el' j .any rfl))
      simp only [bind, Except.bind] at hrr ⊢
      rw [hrr]
  | .fixedSizeList len v n fm el, a', i, p, hp, h => by
    obtain ⟨len', v', fm', el', rfl, hl, _, hc⟩ := touchEqW_fsl h
    obtain ⟨_, _, het, _⟩ := readsList_anyLike hp
    unfold readAnySome
    rw [fslRange_congr hl]
    cases hr : fslRange Fixes.all len' n i with
    | error e => rfl
    | ok r =>
      obtain ⟨s, e⟩ := r
      obtain ⟨hi, hn, hs, he⟩ := fslRange_parts ((fslRange_congr hl).trans hr)
      have hel := hc hi (fun h => nomatch h) .any het hn
      rw [← hs, ← he] at hel
      have hrr := readRange_elems (fun el j => anyAt Fixes.all el (readAnySome Fixes.all el) j) hel (fun j hj =>
        anyAt_agree (p := .any) (by rw [← touchEq_any]; exact hj) (anySome_agree el el' j .any rfl))
      simp only [bind, Except.bind] at hrr ⊢
      rw [hrr]
  | .map v offs mm ks vs, a', i, p, hp, h => by
    obtain ⟨v', offs', mm', ks', vs', rfl, hl, _, hc⟩ := touchEqW_map h
    obtain ⟨_, _, _, het, _⟩ := readsList_anyLike hp
    have hlr := listRange_congr hl (fun hi =>
      ⟨(hc hi (fun h => nomatch h) .any .any het).1, (hc hi (fun h => nomatch h) .any .any het).2.1⟩)
    unfold readAnySome
    rw [hlr]
    cases hr : listRange Fixes.all offs' i with
    | error e => rfl
    | ok r =>
      obtain ⟨s, e⟩ := r
      obtain ⟨hi, hs, he⟩ := listRange_parts (hlr.trans hr)
      obtain ⟨hks, hvs⟩ := (hc hi (fun h => nomatch h) .any .any het).2.2 s e hs he
      have hk : ∀ k, k < e - s → anyAt Fixes.all ks (readAnySome Fixes.all ks) (s + k) =
          anyAt Fixes.all ks' (readAnySome Fixes.all ks') (s + k) := by
        rcases hks with rfl | hall
        · intro k _; rfl
        · intro k hk
          exact anyAt_agree (p := .any) (by rw [← touchEq_any]; exact hall k hk) (anySome_agree ks ks' (s + k) .any rfl)
      have hv : ∀ k, k < e - s → anyAt Fixes.all vs (readAnySome Fixes.all vs) (s + k) =
          anyAt Fixes.all vs' (readAnySome Fixes.all vs') (s + k) := by
        rcases hvs with rfl | hall
        · intro k _; rfl
        · intro k hk
          exact anyAt_agree (p := .any) (by rw [← touchEq_any]; exact hall k hk) (anySome_agree vs vs' (s + k) .any rfl)
      have hrr : readRange (fun j => do
            let k' ← anyAt Fixes.all ks (readAnySome Fixes.all ks) j
            let v' ← anyAt Fixes.all vs (readAnySome Fixes.all vs) j
            pure (k', v')) s (e - s) =
          readRange (fun j => do
            let k' ← anyAt Fixes.all ks' (readAnySome Fixes.all ks') j
            let v' ← anyAt Fixes.all vs' (readAnySome Fixes.all vs') j
            pure (k', v')) s (e - s) := by
        refine readRange_congr _ _ (fun k hkk => ?_)
        simp only [hk k hkk, hv k hkk]
      simp only [bind, Except.bind] at hrr ⊢
      rw [hrr]
  | .dictionary ks vs, a', i, p, _, h => by
    obtain ⟨ks', vs', rfl, _⟩ := touchEqW_dictionary h
    unfold readAnySome
    simp only [dictGetStr_agree h]
  | .union types offs fs, a', i, p, hp, h => by
    obtain ⟨types', offs', fs', rfl, hh, hlen, hvar⟩ := touchEqW_union h
    obtain ⟨_, _, _, _, hvt⟩ := readsList_anyLike hp
    unfold readAnySome
    rw [unionSelect_congr hh, hlen]
    cases hr : unionSelect Fixes.all types' offs' fs'.length i with
    | error e => rfl
    | ok r =>
      obtain ⟨k, off⟩ := r
      have hr' : unionSelect Fixes.all types offs fs'.length i = .ok (k, off) := (unionSelect_congr hh).trans hr
      obtain ⟨t, o, offv, ht, ho, hoff, h0, h1, hk, hof⟩ := unionSelect_parts hr'
      have := hvar t o offv ht ho hoff h0 h1
      rw [← hk, ← hof, hvt] at this
      simp only [bind, Except.bind]
      exact anyVariant_agree fs fs' k off this hlen
theorem anyFields_agree : ∀ (fs fs' : ArrFields) (i : Nat), allEq .any fs fs' i = true →
    readAnyFields Fixes.all fs i = readAnyFields Fixes.all fs' i
  | .nil, fs', i, h => by
    cases allEq_nil h
    rfl
  | .cons fm a r, fs', i, h => by
    obtain ⟨fm', a', r', rfl, hn, ha, hr⟩ := allEq_cons h
    unfold readAnyFields
    rw [anyAt_agree (p := .any) (by rw [← touchEq_any]; exact ha) (anySome_agree a a' i .any rfl),
      anyFields_agree r r' i hr, hn]
theorem anyVariant_agree : ∀ (fs fs' : ArrUFields) (k j : Nat), variantEq (fun _ => some .any) fs fs' k j = true →
    fs.length = fs'.length → readAnyVariant Fixes.all fs k j = readAnyVariant Fixes.all fs' k j
  | .nil, fs', _, _, _, hl => by
    cases fs' with
    | nil => rfl
    | cons _ _ _ _ => simp [ArrUFields.length] at hl
  | .cons _ fm a _, fs', 0, j, h, hl => by
    obtain ⟨tid', fm', a', r', rfl, hn, ha⟩ := variantEq_zero h
    unfold readAnyVariant
    rw [anyAt_agree (p := .any) (by rw [← touchEq_any]; exact ha .any rfl) (anySome_agree a a' j .any rfl), hn]
  | .cons _ _ _ r, fs', k + 1, j, h, hl => by
    obtain ⟨tid', fm', a', r', rfl, hr⟩ := variantEq_succ h
    unfold readAnyVariant
    exact anyVariant_agree r r' k j hr (by simp [ArrUFields.length] at hl; exact hl)
end

/-- `deserialize_any` -/
theorem readAny_agree {p : Target} (hp : isAnyLike p = true) {a a' : Arr} {i : Nat} (h : touchEqW true p a a' i = true) :
    readAny Fixes.all a i = readAny Fixes.all a' i :=
  anyAt_agree h (anySome_agree a a' i p hp)

end SaModel.Props.C17
