import SaModel.Lemmas.C17UntouchedLeaf
/-
C17, `untouched_ok` — the element loops and `deserialize_any`.
-/
namespace SaModel.Props.C17
open SaModel SaModel.Read SaModel.Spec

theorem readRange_congr {α} {f g : Nat → R α} : ∀ (n s : Nat), (∀ k, k < n → f (s + k) = g (s + k)) →
    readRange f s n = readRange g s n
  | 0, _, _ => by simp [readRange]
  | n + 1, s, h => by
    unfold readRange
    have h0 := h 0 (by omega)
    simp only [Nat.add_zero] at h0
    have hrest : readRange f (s + 1) n = readRange g (s + 1) n := readRange_congr n (s + 1) (fun k hk => by
      have hk1 := h (k + 1) (by omega)
      rw [Nat.add_assoc, Nat.add_comm 1 k]
      exact hk1)
    rw [h0, hrest]

theorem anyAt_congr {a a' : Arr} {f g : Nat → R DVal} {i : Nat} (h1 : isSome Fixes.all a i = isSome Fixes.all a' i)
    (h2 : f i = g i) : anyAt Fixes.all a f i = anyAt Fixes.all a' g i := by
  unfold anyAt
  rw [h1, h2]

/-- the offsets `listRange` returns are the ones `offRange` reads off the same two entries -/
theorem listRange_offRange {offs : List Int} {i s e : Nat} (h : listRange Fixes.all offs i = .ok (s, e)) :
    offRange offs[i]? offs[i + 1]? = (s, e - s) := by
  unfold listRange at h
  split at h
  · cases h
  · rename_i hlen
    have h1 : i < offs.length := by omega
    have h2 : i + 1 < offs.length := by omega
    simp only [List.getElem?_eq_getElem h1, List.getElem?_eq_getElem h2] at h ⊢
    obtain ⟨s', hs, h⟩ := ok_bind_inv h
    obtain ⟨e', he, h⟩ := ok_bind_inv h
    simp only [show Fixes.all.offsetsOrder = true from rfl, Bool.true_and, decide_eq_true_eq] at h
    split at h
    · cases h
    · simp only [pure, Except.pure, Except.ok.injEq, Prod.mk.injEq] at h
      obtain ⟨hs', he'⟩ := h
      subst hs' he'
      unfold tryIntoUsize at hs he
      split at hs
      · rename_i hs0
        split at he
        · rename_i he0
          cases hs; cases he
          have : 0 ≤ offs[i] ∧ offs[i] ≤ offs[i + 1] := by omega
          simp only [offRange, this, and_self, if_true]
        · cases he
      · cases hs

theorem fslRange_parts {len : Nat} {n : Int} {i s e : Nat} (h : fslRange Fixes.all len n i = .ok (s, e)) :
    s = i * n.toNat ∧ e - s = n.toNat := by
  unfold fslRange at h
  split at h
  · cases h
  · obtain ⟨n', hn, h⟩ := ok_bind_inv h
    unfold tryIntoUsize at hn
    split at hn
    · cases hn
      split at h
      · simp only [show Fixes.all.fslMul = true from rfl, if_true] at h; cases h
      · simp only [pure, Except.pure, Except.ok.injEq, Prod.mk.injEq] at h
        obtain ⟨hs, he⟩ := h
        subst hs he
        refine ⟨rfl, ?_⟩
        rw [Nat.add_mul]; omega
    · cases hn

theorem unionSelect_parts {types : List Int} {offs : Option (List Int)} {n i k off : Nat}
    (h : unionSelect Fixes.all types offs n i = .ok (k, off)) :
    ∃ t o offv, types[i]? = some t ∧ offs = some o ∧ o[i]? = some offv ∧ 0 ≤ t ∧ 0 ≤ offv ∧ k = t.toNat ∧ off = offv.toNat := by
  unfold unionSelect at h
  split at h
  · cases h
  · split at h
    · cases h
    · rename_i o
      split at h
      · cases h
      · split at h
        · rename_i t offv ht ho
          obtain ⟨off', hoff, h⟩ := ok_bind_inv h
          unfold tryIntoUsize at hoff
          split at hoff
          · rename_i h0
            cases hoff
            split at h
            · rename_i hc
              simp only [pure, Except.pure, Except.ok.injEq, Prod.mk.injEq] at h
              exact ⟨t, o, offv, ht, rfl, ho, hc.1, h0, h.1.symm, h.2.symm⟩
            · simp only [show Fixes.all.enumTypeId = true from rfl, if_true] at h; cases h
          · cases hoff
        · cases h

mutual
theorem anySome_agree : ∀ (a a' : Arr) (i : Nat), reachEq a a' i = true →
    readAnySome Fixes.all a i = readAnySome Fixes.all a' i
  | .null len, a', i, h => by
    obtain ⟨len', rfl, hl⟩ := reachEq_null h; unfold readAnySome; simp only [nullCheck_congr hl]
  | .boolean len v vals, a', i, h => by
    obtain ⟨len', v', vals', rfl, hl, hv, hb⟩ := reachEq_boolean h; unfold readAnySome; simp only [boolGet_congr hl hv hb]
  | .prim ty v vals, a', i, h => by
    obtain ⟨v', vals', rfl, hv, hx⟩ := reachEq_prim h; unfold readAnySome; simp only [primGet_congr hv hx]
  | .time ty u v vals, a', i, h => by
    obtain ⟨v', vals', rfl, hv, hx⟩ := reachEq_time h; unfold readAnySome; simp only [primGet_congr hv hx]
  | .timestamp u tz v vals, a', i, h => by
    obtain ⟨v', vals', rfl, hv, hx⟩ := reachEq_timestamp h; unfold readAnySome; simp only [primGet_congr hv hx]
  | .decimal128 p s v vals, a', i, h => by
    obtain ⟨v', vals', rfl, hv, hx⟩ := reachEq_decimal h; unfold readAnySome; simp only [primGet_congr hv hx]
  | .bytes ty v offs data, a', i, h => by
    obtain ⟨v', offs', rfl, hv, h0, h1⟩ := reachEq_bytes h; unfold readAnySome; simp only [bytesColGet_congr hv h0 h1]
  | .bytesView ty v views buffers, a', i, h => by
    obtain ⟨v', views', rfl, hv, hx⟩ := reachEq_bytesView h; unfold readAnySome; simp only [viewColGet_congr hv hx]
  | .fixedSizeBinary n v data, a', i, h => by
    obtain ⟨v', rfl, hv⟩ := reachEq_fsb h; unfold readAnySome; simp only [fsbColGet_congr hv]
  | .struct len v fs, a', i, h => by
    obtain ⟨len', v', fs', rfl, hl, hv, hfs⟩ := reachEq_struct h
    have : (i ≥ len) = (i ≥ len') := by
      apply propext; have := Eq.to_iff hl; omega
    unfold readAnySome
    simp only [this, anyFields_agree fs fs' i hfs]
  | .list l v offs fm el, a', i, h => by
    obtain ⟨l', v', offs', fm', el', rfl, hv, h0, h1, hel⟩ := reachEq_list h
    unfold readAnySome
    rw [listRange_congr h0 h1]
    cases hr : listRange Fixes.all offs' i with
    | error e => rfl
    | ok r =>
      obtain ⟨s, e⟩ := r
      have hor := listRange_offRange ((listRange_congr h0 h1).trans hr)
      simp only [hor] at hel
      have hpt : ∀ k, k < e - s → anyAt Fixes.all el (readAnySome Fixes.all el) (s + k) =
          anyAt Fixes.all el' (readAnySome Fixes.all el') (s + k) := fun k hk =>
        anyAt_congr (isSome_agree (hel k hk)) (anySome_agree el el' (s + k) (hel k hk))
      simp only [bind, Except.bind]
      rw [readRange_congr (e - s) s hpt]
  | .fixedSizeList len v n fm el, a', i, h => by
    obtain ⟨len', v', fm', el', rfl, hl, hv, hel⟩ := reachEq_fsl h
    unfold readAnySome
    rw [fslRange_congr hl]
    cases hr : fslRange Fixes.all len' n i with
    | error e => rfl
    | ok r =>
      obtain ⟨s, e⟩ := r
      obtain ⟨hs, he⟩ := fslRange_parts hr
      have hpt : ∀ k, k < e - s → anyAt Fixes.all el (readAnySome Fixes.all el) (s + k) =
          anyAt Fixes.all el' (readAnySome Fixes.all el') (s + k) := by
        intro k hk
        have hk' := hel k (by omega)
        rw [← hs] at hk'
        exact anyAt_congr (isSome_agree hk') (anySome_agree el el' (s + k) hk')
      simp only [bind, Except.bind]
      rw [readRange_congr (e - s) s hpt]
  | .map v offs mm ks vs, a', i, h => by
    obtain ⟨v', offs', mm', ks', vs', rfl, hv, h0, h1, hks, hvs⟩ := reachEq_map h
    unfold readAnySome
    rw [listRange_congr h0 h1]
    cases hr : listRange Fixes.all offs' i with
    | error e => rfl
    | ok r =>
      obtain ⟨s, e⟩ := r
      have hor := listRange_offRange ((listRange_congr h0 h1).trans hr)
      simp only [hor] at hks hvs
      have hrr : readRange (fun j => do
            let k' ← anyAt Fixes.all ks (readAnySome Fixes.all ks) j
            let v' ← anyAt Fixes.all vs (readAnySome Fixes.all vs) j
            pure (k', v')) s (e - s) =
          readRange (fun j => do
            let k' ← anyAt Fixes.all ks' (readAnySome Fixes.all ks') j
            let v' ← anyAt Fixes.all vs' (readAnySome Fixes.all vs') j
            pure (k', v')) s (e - s) := by
        refine readRange_congr _ _ (fun k hk => ?_)
        have e1 := anyAt_congr (isSome_agree (hks k hk)) (anySome_agree ks ks' (s + k) (hks k hk))
        have e2 := anyAt_congr (isSome_agree (hvs k hk)) (anySome_agree vs vs' (s + k) (hvs k hk))
        simp only [e1, e2]
      simp only [bind, Except.bind] at hrr ⊢
      rw [hrr]
  | .dictionary ks vs, a', i, h => by
    obtain ⟨ks', vs', rfl, _⟩ := reachEq_dictionary h
    unfold readAnySome
    simp only [dictGetStr_agree h]
  | .union types offs fs, a', i, h => by
    obtain ⟨types', offs', fs', rfl, hh, hlen, hvar⟩ := reachEq_union h
    unfold readAnySome
    rw [unionSelect_congr hh, hlen]
    cases hr : unionSelect Fixes.all types' offs' fs'.length i with
    | error e => rfl
    | ok r =>
      obtain ⟨k, off⟩ := r
      have hr' : unionSelect Fixes.all types offs fs'.length i = .ok (k, off) := (unionSelect_congr hh).trans hr
      obtain ⟨t, o, offv, ht, ho, hoff, h0, h1, hk, hof⟩ := unionSelect_parts hr'
      have := hvar t o offv ht ho hoff h0 h1
      rw [← hk, ← hof] at this
      simp only [bind, Except.bind]
      exact anyVariant_agree fs fs' k off this hlen
theorem anyFields_agree : ∀ (fs fs' : ArrFields) (i : Nat), reachFields fs fs' i = true →
    readAnyFields Fixes.all fs i = readAnyFields Fixes.all fs' i
  | .nil, fs', i, h => by
    unfold reachFields at h
    split at h
    · rfl
    · cases h
  | .cons fm a r, fs', i, h => by
    unfold reachFields at h
    split at h
    · rename_i fm' a' r'
      simp only [Bool.and_eq_true, decide_eq_true_eq] at h
      unfold readAnyFields
      rw [anyAt_congr (isSome_agree h.1.2) (anySome_agree a a' i h.1.2), anyFields_agree r r' i h.2, h.1.1]
    · cases h
theorem anyVariant_agree : ∀ (fs fs' : ArrUFields) (k j : Nat), reachVariant fs fs' k j = true → fs.length = fs'.length →
    readAnyVariant Fixes.all fs k j = readAnyVariant Fixes.all fs' k j
  | .nil, fs', _, _, _, hl => by
    cases fs' with
    | nil => rfl
    | cons _ _ _ _ => simp [ArrUFields.length] at hl
  | .cons _ fm a _, fs', 0, j, h, hl => by
    unfold reachVariant at h
    split at h
    · rename_i _ fm' a' _
      simp only [Bool.and_eq_true, decide_eq_true_eq] at h
      unfold readAnyVariant
      rw [anyAt_congr (isSome_agree h.2) (anySome_agree a a' j h.2), h.1]
    · cases h
  | .cons _ _ _ r, fs', k + 1, j, h, hl => by
    unfold reachVariant at h
    split at h
    · rename_i r'
      unfold readAnyVariant
      exact anyVariant_agree r r' k j h (by simp [ArrUFields.length] at hl; exact hl)
    · cases h
end

/-- `deserialize_any` -/
theorem readAny_agree {a a' : Arr} {i : Nat} (h : reachEq a a' i = true) : readAny Fixes.all a i = readAny Fixes.all a' i :=
  anyAt_congr (isSome_agree h) (anySome_agree a a' i h)

end SaModel.Props.C17
