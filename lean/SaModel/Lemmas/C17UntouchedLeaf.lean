import SaModel.Lemmas.C17Untouched
/-
C17, `untouched_ok` — the reads that stay on one array depend only on what `reachEq` fixes: the primitive gets,
`is_some`, the scalar reads, dictionary lookups, the heads of the list / fixed-size list / map / union reads.
-/
namespace SaModel.Props.C17
open SaModel SaModel.Read SaModel.Spec

theorem validityIsSet_congr {v v' : Option Bits} {i : Nat} (hv : isValid v i = isValid v' i) :
    validityIsSet Fixes.all v i = validityIsSet Fixes.all v' i := by
  rw [validityIsSet_all, validityIsSet_all, hv]

theorem primGet_congr {v v' : Option Bits} {vals vals' : List Int} {i : Nat} (hv : isValid v i = isValid v' i)
    (hx : vals[i]? = vals'[i]?) : primGet Fixes.all v vals i = primGet Fixes.all v' vals' i := by
  unfold primGet
  rw [hx, validityIsSet_congr hv]

theorem codecRead_congr {v v' : Option Bits} {vals vals' : List Int} {i : Nat} (hv : isValid v i = isValid v' i)
    (hx : vals[i]? = vals'[i]?) : codecRead Fixes.all v vals i = codecRead Fixes.all v' vals' i := by
  unfold codecRead
  rw [primGet_congr hv hx]

theorem nullCheck_congr {len len' i : Nat} (hl : (i < len) = (i < len')) :
    nullCheck Fixes.all len i = nullCheck Fixes.all len' i := by
  unfold nullCheck
  have : (i ≥ len) = (i ≥ len') := by
    apply propext
    have := Eq.to_iff hl
    omega
  simp only [this]

theorem structItem_congr {len len' i : Nat} (hl : (i < len) = (i < len')) :
    structItem Fixes.all len i = structItem Fixes.all len' i := by
  unfold structItem
  have : (i ≥ len) = (i ≥ len') := by
    apply propext
    have := Eq.to_iff hl
    omega
  simp only [this]

theorem boolGet_congr {len len' : Nat} {v v' : Option Bits} {vals vals' : Bits} {i : Nat} (hl : (i < len) = (i < len'))
    (hv : isValid v i = isValid v' i) (hb : getBit vals i = getBit vals' i) :
    boolGet Fixes.all len v vals i = boolGet Fixes.all len' v' vals' i := by
  unfold boolGet
  have : (i ≥ len) = (i ≥ len') := by
    apply propext
    have := Eq.to_iff hl
    omega
  simp only [this, validityIsSet_congr hv, getBitBuffer_all, hb]

theorem getElem?_none_congr {α} {l l' : List α} {k : Nat} (h : l[k]? = l'[k]?) : (k ≥ l.length) = (k ≥ l'.length) := by
  apply propext
  constructor
  · intro hk
    have : l[k]? = none := List.getElem?_eq_none_iff.mpr hk
    rw [h] at this
    exact List.getElem?_eq_none_iff.mp this
  · intro hk
    have : l'[k]? = none := List.getElem?_eq_none_iff.mpr hk
    rw [← h] at this
    exact List.getElem?_eq_none_iff.mp this

theorem bytesGet_congr {v v' : Option Bits} {offs offs' : List Int} {data : Bytes} {i : Nat} (hv : isValid v i = isValid v' i)
    (h0 : offs[i]? = offs'[i]?) (h1 : offs[i + 1]? = offs'[i + 1]?) :
    bytesGet Fixes.all v offs data i = bytesGet Fixes.all v' offs' data i := by
  unfold bytesGet
  simp only [show Fixes.all.bytesGet = true from rfl, if_true, getElem?_none_congr h1, validityIsSet_congr hv, h0, h1]

theorem bytesColGet_congr {ty : BytesTy} {v v' : Option Bits} {offs offs' : List Int} {data : Bytes} {i : Nat}
    (hv : isValid v i = isValid v' i) (h0 : offs[i]? = offs'[i]?) (h1 : offs[i + 1]? = offs'[i + 1]?) :
    bytesColGet Fixes.all ty v offs data i = bytesColGet Fixes.all ty v' offs' data i := by
  unfold bytesColGet
  rw [bytesGet_congr hv h0 h1]

theorem viewGet_congr {v v' : Option Bits} {views views' : List Nat} {buffers : List Bytes} {i : Nat}
    (hv : isValid v i = isValid v' i) (hx : views[i]? = views'[i]?) :
    viewGet Fixes.all v views buffers i = viewGet Fixes.all v' views' buffers i := by
  unfold viewGet
  rw [hx, validityIsSet_congr hv]

theorem viewColGet_congr {ty : ViewTy} {v v' : Option Bits} {views views' : List Nat} {buffers : List Bytes} {i : Nat}
    (hv : isValid v i = isValid v' i) (hx : views[i]? = views'[i]?) :
    viewColGet Fixes.all ty v views buffers i = viewColGet Fixes.all ty v' views' buffers i := by
  unfold viewColGet
  rw [viewGet_congr hv hx]

theorem fsbColGet_congr {n : Int} {v v' : Option Bits} {data : Bytes} {i : Nat} (hv : isValid v i = isValid v' i) :
    fsbColGet Fixes.all n v data i = fsbColGet Fixes.all n v' data i := by
  unfold fsbColGet fsbGet
  simp only [validityIsSet_congr hv]

theorem listRange_congr {offs offs' : List Int} {i : Nat} (h0 : offs[i]? = offs'[i]?) (h1 : offs[i + 1]? = offs'[i + 1]?) :
    listRange Fixes.all offs i = listRange Fixes.all offs' i := by
  unfold listRange
  simp only [getElem?_none_congr h1, h0, h1]

theorem fslRange_congr {len len' : Nat} {n : Int} {i : Nat} (hl : (i < len) = (i < len')) :
    fslRange Fixes.all len n i = fslRange Fixes.all len' n i := by
  unfold fslRange
  have : (i ≥ len) = (i ≥ len') := by
    apply propext
    have := Eq.to_iff hl
    omega
  simp only [this]

theorem unionSelect_congr {types types' : List Int} {offs offs' : Option (List Int)} {n i : Nat}
    (h : unionHead types offs i = unionHead types' offs' i) :
    unionSelect Fixes.all types offs n i = unionSelect Fixes.all types' offs' n i := by
  unfold unionHead at h
  simp only [Prod.mk.injEq] at h
  obtain ⟨ht, ho⟩ := h
  unfold unionSelect
  simp only [getElem?_none_congr ht]
  cases offs with
  | none =>
    cases offs' with
    | none => rfl
    | some o' => simp at ho
  | some o =>
    cases offs' with
    | none => simp at ho
    | some o' =>
      simp only [Option.map_some, Option.some.injEq, Prod.mk.injEq, decide_eq_decide] at ho
      have hne : (types.length ≠ o.length) = (types'.length ≠ o'.length) := by
        apply propext; have := ho.1; omega
      simp only [hne, ht, ho.2]

/-! ### `is_some`, scalar reads, dictionary lookups -/

theorem isSome_agree {a a' : Arr} {i : Nat} (h : reachEq a a' i = true) : isSome Fixes.all a i = isSome Fixes.all a' i := by
  cases a with
  | null len => obtain ⟨len', rfl, hl⟩ := reachEq_null h; simp only [isSome, nullCheck_congr hl]
  | boolean len v vals =>
    obtain ⟨len', v', vals', rfl, hl, hv, hb⟩ := reachEq_boolean h; simp only [isSome, boolGet_congr hl hv hb]
  | prim ty v vals => obtain ⟨v', vals', rfl, hv, hx⟩ := reachEq_prim h; simp only [isSome, primGet_congr hv hx]
  | time ty u v vals => obtain ⟨v', vals', rfl, hv, hx⟩ := reachEq_time h; simp only [isSome, primGet_congr hv hx]
  | timestamp u tz v vals => obtain ⟨v', vals', rfl, hv, hx⟩ := reachEq_timestamp h; simp only [isSome, primGet_congr hv hx]
  | decimal128 p s v vals => obtain ⟨v', vals', rfl, hv, hx⟩ := reachEq_decimal h; simp only [isSome, primGet_congr hv hx]
  | bytes ty v offs data =>
    obtain ⟨v', offs', rfl, hv, h0, h1⟩ := reachEq_bytes h; simp only [isSome, bytesColGet_congr hv h0 h1]
  | bytesView ty v views buffers =>
    obtain ⟨v', views', rfl, hv, hx⟩ := reachEq_bytesView h; simp only [isSome, viewColGet_congr hv hx]
  | fixedSizeBinary n v data => obtain ⟨v', rfl, hv⟩ := reachEq_fsb h; simp only [isSome, fsbColGet_congr hv]
  | struct len v fs =>
    obtain ⟨len', v', fs', rfl, hl, hv, _⟩ := reachEq_struct h
    have : (i ≥ len) = (i ≥ len') := by
      apply propext; have := Eq.to_iff hl; omega
    simp only [isSome, this, validityIsSet_congr hv]
  | list l v offs fm el =>
    obtain ⟨l', v', offs', fm', el', rfl, hv, _, h1, _⟩ := reachEq_list h
    simp only [isSome, getElem?_none_congr h1, validityIsSet_congr hv]
  | fixedSizeList len v n fm el =>
    obtain ⟨len', v', fm', el', rfl, hl, hv, _⟩ := reachEq_fsl h
    have : (i ≥ len) = (i ≥ len') := by
      apply propext; have := Eq.to_iff hl; omega
    simp only [isSome, this, validityIsSet_congr hv]
  | map v offs mm ks vs =>
    obtain ⟨v', offs', mm', ks', vs', rfl, hv, _, h1, _⟩ := reachEq_map h
    simp only [isSome, getElem?_none_congr h1, validityIsSet_congr hv]
  | dictionary ks vs =>
    obtain ⟨ks', vs', rfl, hk, _⟩ := reachEq_dictionary h
    have hkind := reachEq_kind hk
    cases ks with
    | prim ty v vals => obtain ⟨v', vals', rfl, hv, hx⟩ := reachEq_prim hk; simp only [isSome, primGet_congr hv hx]
    | _ => cases ks' <;> simp [kind] at hkind <;> simp only [isSome]
  | union types offs fs =>
    obtain ⟨types', offs', fs', rfl, hh, _, _⟩ := reachEq_union h
    have ht : types[i]? = types'[i]? := by
      unfold unionHead at hh; simp only [Prod.mk.injEq] at hh; exact hh.1
    simp only [isSome, getElem?_none_congr ht]

theorem primGet_some_getElem {v : Option Bits} {vals : List Int} {i : Nat} {k : Int}
    (h : primGet Fixes.all v vals i = .ok (some k)) : vals[i]? = some k := by
  unfold primGet at h
  split at h
  · cases h
  · rename_i x hx
    obtain ⟨b, _, h⟩ := ok_bind_inv h
    cases b
    · cases h
    · simp only [if_true] at h
      cases h
      exact hx

/-- `DictionaryDeserializer::get_str` -/
theorem dictGetStr_agree {ks vs ks' vs' : Arr} {i : Nat} (h : reachEq (.dictionary ks vs) (.dictionary ks' vs') i = true) :
    dictGetStr Fixes.all ks vs i = dictGetStr Fixes.all ks' vs' i := by
  obtain ⟨ks2, vs2, he, hk, hkv, hvs⟩ := reachEq_dictionary h
  cases he
  have hkind := reachEq_kind hk
  cases ks with
  | prim ty v vals =>
    obtain ⟨v', vals', rfl, hv, hx⟩ := reachEq_prim hk
    cases vs with
    | bytes vty vv voffs vdata =>
      cases vs' <;> simp [kind] at hkv
      rename_i vty' vv' voffs' vdata'
      unfold dictGetStr
      simp only [primGet_congr hv hx]
      cases hg : getRequired (primGet Fixes.all v' vals' i) with
      | error e => rfl
      | ok k =>
        simp only [bind, Except.bind]
        split
        · rfl
        · unfold tryIntoUsize
          by_cases h0 : 0 ≤ k
          · have hkey : vals[i]? = some k := by rw [hx]; exact primGet_some_getElem (getRequired_ok hg)
            have hr := hvs ty v vals k rfl hkey h0
            obtain ⟨vv2, voffs2, he2, hv2, h02, h12⟩ := reachEq_bytes hr
            cases he2
            simp only [h0, if_true, bytesGet_congr hv2 h02 h12]
          · simp only [h0, if_false]; rfl
    | _ => cases vs' <;> simp [kind] at hkv <;> simp only [dictGetStr]
  | _ => cases ks' <;> simp [kind] at hkind <;> simp only [dictGetStr]

/-- the scalar reads (`deserialize_bool`, `…_i32`, `…_str`, …) -/
theorem scalar_agree (m : Method) {a a' : Arr} {i : Nat} (h : reachEq a a' i = true) :
    scalar Fixes.all m a i = scalar Fixes.all m a' i := by
  cases a with
  | null len => obtain ⟨len', rfl, hl⟩ := reachEq_null h; unfold scalar; simp only [nullCheck_congr hl]
  | boolean len v vals =>
    obtain ⟨len', v', vals', rfl, hl, hv, hb⟩ := reachEq_boolean h; unfold scalar; simp only [boolGet_congr hl hv hb]
  | prim ty v vals =>
    obtain ⟨v', vals', rfl, hv, hx⟩ := reachEq_prim h; unfold scalar; simp only [primGet_congr hv hx, codecRead_congr hv hx]
  | time ty u v vals =>
    obtain ⟨v', vals', rfl, hv, hx⟩ := reachEq_time h; unfold scalar; simp only [primGet_congr hv hx, codecRead_congr hv hx]
  | timestamp u tz v vals =>
    obtain ⟨v', vals', rfl, hv, hx⟩ := reachEq_timestamp h; unfold scalar; simp only [primGet_congr hv hx, codecRead_congr hv hx]
  | decimal128 p s v vals =>
    obtain ⟨v', vals', rfl, hv, hx⟩ := reachEq_decimal h; unfold scalar; simp only [codecRead_congr hv hx]
  | bytes ty v offs data =>
    obtain ⟨v', offs', rfl, hv, h0, h1⟩ := reachEq_bytes h; unfold scalar; simp only [bytesColGet_congr hv h0 h1]
  | bytesView ty v views buffers =>
    obtain ⟨v', views', rfl, hv, hx⟩ := reachEq_bytesView h; unfold scalar; simp only [viewColGet_congr hv hx]
  | fixedSizeBinary n v data => obtain ⟨v', rfl, hv⟩ := reachEq_fsb h; unfold scalar; simp only [fsbColGet_congr hv]
  | struct len v fs => obtain ⟨_, _, _, rfl, _⟩ := reachEq_struct h; unfold scalar; rfl
  | list l v offs fm el => obtain ⟨_, _, _, _, _, rfl, _⟩ := reachEq_list h; unfold scalar; rfl
  | fixedSizeList len v n fm el => obtain ⟨_, _, _, _, rfl, _⟩ := reachEq_fsl h; unfold scalar; rfl
  | map v offs mm ks vs => obtain ⟨_, _, _, _, _, rfl, _⟩ := reachEq_map h; unfold scalar; rfl
  | dictionary ks vs =>
    obtain ⟨ks', vs', rfl, _⟩ := reachEq_dictionary h; unfold scalar; simp only [dictGetStr_agree h]
  | union types offs fs => obtain ⟨_, _, _, rfl, _⟩ := reachEq_union h; unfold scalar; rfl

/-- binary columns read as a sequence of `u8` -/
theorem binaryElems_agree {a a' : Arr} {i : Nat} (h : reachEq a a' i = true) :
    binaryElems Fixes.all a i = binaryElems Fixes.all a' i := by
  have hkind := reachEq_kind h
  cases a with
  | bytes ty v offs data =>
    obtain ⟨v', offs', rfl, hv, h0, h1⟩ := reachEq_bytes h; simp only [binaryElems, bytesColGet_congr hv h0 h1]
  | bytesView ty v views buffers =>
    obtain ⟨v', views', rfl, hv, hx⟩ := reachEq_bytesView h; simp only [binaryElems, viewColGet_congr hv hx]
  | fixedSizeBinary n v data => obtain ⟨v', rfl, hv⟩ := reachEq_fsb h; simp only [binaryElems, fsbColGet_congr hv]
  | _ => cases a' <;> simp [kind] at hkind <;> simp only [binaryElems]

/-- string columns read as an enum -/
theorem stringElem_agree {a a' : Arr} {i : Nat} (h : reachEq a a' i = true) :
    stringElem Fixes.all a i = stringElem Fixes.all a' i := by
  have hkind := reachEq_kind h
  cases a with
  | bytes ty v offs data =>
    obtain ⟨v', offs', rfl, hv, h0, h1⟩ := reachEq_bytes h; simp only [stringElem, bytesColGet_congr hv h0 h1]
  | bytesView ty v views buffers =>
    obtain ⟨v', views', rfl, hv, hx⟩ := reachEq_bytesView h; simp only [stringElem, viewColGet_congr hv hx]
  | dictionary ks vs =>
    obtain ⟨ks', vs', rfl, _⟩ := reachEq_dictionary h; simp only [stringElem, dictGetStr_agree h]
  | _ => cases a' <;> simp [kind] at hkind <;> simp only [stringElem]

end SaModel.Props.C17
