import SaModel.Lemmas.C17Untouched
/-
C17, `untouched_ok` — the reads that stay on one array depend only on what `touchEqW` fixes: the primitive gets,
`is_some`, the scalar reads, dictionary lookups, the heads of the list / fixed-size list / map / union reads.
-/
namespace SaModel.Props.C17
open SaModel SaModel.Read SaModel.Spec

theorem validityIsSet_congr {v v' : Option Bits} {i : Nat} (hv : isValid v i = isValid v' i) :
    validityIsSet Fixes.all v i = validityIsSet Fixes.all v' i := by
  rw [validityIsSet_all, validityIsSet_all, hv]

theorem primGet_congr {v v' : Option Bits} {vals vals' : List Int} {i : Nat}
    (h : SlotAgree i vals.length vals'.length v v' (vals[i]? = vals'[i]?)) :
    primGet Fixes.all v vals i = primGet Fixes.all v' vals' i := by
  obtain ⟨hl, hc⟩ := h
  unfold primGet
  by_cases hi : i < vals.length
  · have hi' : i < vals'.length := hl ▸ hi
    obtain ⟨hv, hx⟩ := hc hi
    simp only [List.getElem?_eq_getElem hi, List.getElem?_eq_getElem hi', validityIsSet_all, ← hv]
    cases hval : isValid v i with
    | error e => rfl
    | ok b =>
      cases b with
      | false => rfl
      | true =>
        have := hx hval
        simp only [List.getElem?_eq_getElem hi, List.getElem?_eq_getElem hi', Option.some.injEq] at this
        simp only [this]
  · have hi' : ¬ i < vals'.length := hl ▸ hi
    simp only [List.getElem?_eq_none_iff.mpr (Nat.le_of_not_lt hi), List.getElem?_eq_none_iff.mpr (Nat.le_of_not_lt hi')]

theorem codecRead_congr {fmt : Int → R DVal} {v v' : Option Bits} {vals vals' : List Int} {i : Nat}
    (h : SlotAgree i vals.length vals'.length v v' (vals[i]? = vals'[i]?)) :
    codecRead Fixes.all fmt v vals i = codecRead Fixes.all fmt v' vals' i := by
  unfold codecRead
  rw [primGet_congr h]

theorem nullCheck_congr {len len' i : Nat} (hl : (i < len) = (i < len')) :
    nullCheck Fixes.all len i = nullCheck Fixes.all len' i := by
  unfold nullCheck
  simp only [ge_of_lt_eq hl]

theorem structItem_congr {len len' i : Nat} (hl : (i < len) = (i < len')) :
    structItem Fixes.all len i = structItem Fixes.all len' i := by
  unfold structItem
  simp only [ge_of_lt_eq hl]

theorem boolGet_congr {len len' : Nat} {v v' : Option Bits} {vals vals' : Bits} {i : Nat}
    (h : SlotAgree i len len' v v' (getBit vals i = getBit vals' i)) :
    boolGet Fixes.all len v vals i = boolGet Fixes.all len' v' vals' i := by
  obtain ⟨hl, hc⟩ := h
  unfold boolGet
  simp only [ge_of_lt_eq hl]
  by_cases hi : i < len
  · have hi' : ¬ i ≥ len' := by have : i < len' := hl ▸ hi; omega
    obtain ⟨hv, hx⟩ := hc hi
    simp only [hi', if_false, validityIsSet_all, getBitBuffer_all, ← hv]
    cases hval : isValid v i with
    | error e => rfl
    | ok b =>
      cases b with
      | false => rfl
      | true => simp only [hx hval]
  · have hi' : i ≥ len' := by have : ¬ i < len' := hl ▸ hi; omega
    simp only [hi', if_true]

/-! ### string / binary columns -/

/-- `BytesView::get` after the validity test: the two offsets, then the slice -/
def bytesTail (data : Bytes) (s e : Int) : R (Option Bytes) := do
  let start ← tryIntoUsize s
  let stop ← tryIntoUsize e
  if start ≤ stop ∧ stop ≤ data.length then pure (some ((data.drop start).take (stop - start)))
  else fail "Invalid offsets"

theorem bytesTail_slice (data : Bytes) (s e : Int) :
    bytesTail data s e =
      if s < 0 ∨ e < 0 then fail "out of range integral type conversion attempted"
      else match byteSlice data s e with
        | some b => .ok (some b)
        | none => fail "Invalid offsets" := by
  unfold bytesTail tryIntoUsize byteSlice
  by_cases hs : 0 ≤ s
  · by_cases he : 0 ≤ e
    · have hn : ¬ (s < 0 ∨ e < 0) := by omega
      have hiff : (s.toNat ≤ e.toNat ∧ e.toNat ≤ data.length) ↔ (0 ≤ s ∧ s ≤ e ∧ e ≤ (data.length : Int)) := by omega
      rw [if_pos hs, if_pos he, if_neg hn]
      simp only [bind, Except.bind]
      by_cases hc : 0 ≤ s ∧ s ≤ e ∧ e ≤ (data.length : Int)
      · rw [if_pos hc, if_pos (hiff.mpr hc)]; rfl
      · rw [if_neg hc, if_neg (fun h => hc (hiff.mp h))]
    · have hn : s < 0 ∨ e < 0 := by omega
      rw [if_pos hs, if_neg he, if_pos hn]; rfl
  · have hn : s < 0 ∨ e < 0 := by omega
    rw [if_neg hs, if_pos hn]; rfl

/-- `BytesView::get` after the validity test -/
def bytesOffs (offs : List Int) (data : Bytes) (i : Nat) : R (Option Bytes) :=
  match offs[i]?, offs[i + 1]? with
  | some s, some e => bytesTail data s e
  | _, _ => panic "BytesView::get: offsets[idx + 1]"

theorem bytesGet_tail (v : Option Bits) (offs : List Int) (data : Bytes) (i : Nat) :
    bytesGet Fixes.all v offs data i =
      if i + 1 ≥ offs.length then fail "Invalid access: tried to get element of array"
      else (validityIsSet Fixes.all v i >>= fun b => if b then bytesOffs offs data i else pure none) := by
  unfold bytesGet bytesOffs bytesTail
  simp only [show Fixes.all.bytesGet = true from rfl, if_true]
  rfl

theorem bytesGet_congr {v v' : Option Bits} {offs offs' : List Int} {data data' : Bytes} {i : Nat}
    (h : SlotAgree i (offs.length - 1) (offs'.length - 1) v v'
      (offs[i]? = offs'[i]? ∧ offs[i + 1]? = offs'[i + 1]? ∧
        byteSlice data (offs.getD i 0) (offs.getD (i + 1) 0) = byteSlice data' (offs.getD i 0) (offs.getD (i + 1) 0))) :
    bytesGet Fixes.all v offs data i = bytesGet Fixes.all v' offs' data' i := by
  obtain ⟨hl, hc⟩ := h
  rw [bytesGet_tail, bytesGet_tail]
  by_cases hi : i < offs.length - 1
  · have hi' : i < offs'.length - 1 := hl ▸ hi
    have g : ¬ i + 1 ≥ offs.length := by omega
    have g' : ¬ i + 1 ≥ offs'.length := by omega
    obtain ⟨hv, hx⟩ := hc hi
    simp only [g, g', if_false, validityIsSet_all, ← hv]
    cases hval : isValid v i with
    | error e => rfl
    | ok b =>
      cases b with
      | false => rfl
      | true =>
        obtain ⟨h0, h1, hsl⟩ := hx hval
        have k0 : i < offs.length := by omega
        have k1 : i + 1 < offs.length := by omega
        have e0 : offs[i]? = some offs[i] := List.getElem?_eq_getElem k0
        have e1 : offs[i + 1]? = some offs[i + 1] := List.getElem?_eq_getElem k1
        rw [getD_of_getElem? e0, getD_of_getElem? e1] at hsl
        unfold bytesOffs
        rw [← h0, ← h1, e0, e1]
        simp only [bytesTail_slice, hsl]
  · have hi' : ¬ i < offs'.length - 1 := hl ▸ hi
    have g : i + 1 ≥ offs.length := by omega
    have g' : i + 1 ≥ offs'.length := by omega
    simp only [g, g', if_true]

theorem bytesColGet_congr {ty : BytesTy} {v v' : Option Bits} {offs offs' : List Int} {data data' : Bytes} {i : Nat}
    (h : SlotAgree i (offs.length - 1) (offs'.length - 1) v v'
      (offs[i]? = offs'[i]? ∧ offs[i + 1]? = offs'[i + 1]? ∧
        byteSlice data (offs.getD i 0) (offs.getD (i + 1) 0) = byteSlice data' (offs.getD i 0) (offs.getD (i + 1) 0))) :
    bytesColGet Fixes.all ty v offs data i = bytesColGet Fixes.all ty v' offs' data' i := by
  unfold bytesColGet
  rw [bytesGet_congr h]

theorem viewBytes_slice (buffers : List Bytes) (desc : Nat) :
    viewBytes buffers desc =
      match viewSlice buffers desc with
      | some b => .ok b
      | none => fail "invalid state in bytes deserialization" := by
  unfold viewBytes viewSlice decodeView
  simp only
  split
  · rfl
  · split
    · rename_i h; simp only [h]; rfl
    · rename_i buf h
      simp only [h]
      split <;> rfl

theorem viewGet_congr {v v' : Option Bits} {views views' : List Nat} {buffers buffers' : List Bytes} {i : Nat}
    (h : SlotAgree i views.length views'.length v v'
      (views[i]? = views'[i]? ∧ viewSlice buffers (views.getD i 0) = viewSlice buffers' (views.getD i 0))) :
    viewGet Fixes.all v views buffers i = viewGet Fixes.all v' views' buffers' i := by
  obtain ⟨hl, hc⟩ := h
  unfold viewGet
  by_cases hi : i < views.length
  · have hi' : i < views'.length := hl ▸ hi
    obtain ⟨hv, hx⟩ := hc hi
    simp only [List.getElem?_eq_getElem hi, List.getElem?_eq_getElem hi', validityIsSet_all, ← hv]
    cases hval : isValid v i with
    | error e => rfl
    | ok b =>
      cases b with
      | false => rfl
      | true =>
        obtain ⟨h0, hsl⟩ := hx hval
        have hd : views.getD i 0 = views[i] := by simp [List.getD, List.getElem?_eq_getElem hi]
        simp only [List.getElem?_eq_getElem hi, List.getElem?_eq_getElem hi', Option.some.injEq] at h0
        rw [hd] at hsl
        simp only [← h0, viewBytes_slice, hsl]
  · have hi' : ¬ i < views'.length := hl ▸ hi
    simp only [List.getElem?_eq_none_iff.mpr (Nat.le_of_not_lt hi), List.getElem?_eq_none_iff.mpr (Nat.le_of_not_lt hi')]

theorem viewColGet_congr {ty : ViewTy} {v v' : Option Bits} {views views' : List Nat} {buffers buffers' : List Bytes} {i : Nat}
    (h : SlotAgree i views.length views'.length v v'
      (views[i]? = views'[i]? ∧ viewSlice buffers (views.getD i 0) = viewSlice buffers' (views.getD i 0))) :
    viewColGet Fixes.all ty v views buffers i = viewColGet Fixes.all ty v' views' buffers' i := by
  unfold viewColGet
  rw [viewGet_congr h]

/-! ### fixed-size binary columns -/

theorem fsbNew_len (n : Int) (data : Bytes) :
    fsbNew Fixes.all n data =
      match fsbLen n data with
      | some len => .ok (n.toNat, len)
      | none =>
        if n < 0 then fail "out of range integral type conversion attempted"
        else fail "Invalid FixedSizeBinary array: not evenly divisible" := by
  unfold fsbNew fsbLen
  simp only [show Fixes.all.fsbZero = true from rfl, if_true]
  by_cases h0 : n < 0
  · simp only [h0, if_true]
  · simp only [h0, if_false]
    by_cases h1 : n.toNat = 0
    · simp only [h1, if_true]
      by_cases h2 : data.length = 0
      · simp only [h2, if_true]
      · simp only [h2, if_false]
    · simp only [h1, if_false]
      by_cases h2 : data.length % n.toNat = 0
      · simp only [h2, if_true]
        simp
      · simp only [h2, if_false]
        simp [h2]



theorem fsbLen_mul {n : Int} {data : Bytes} {len : Nat} (h : fsbLen n data = some len) : len * n.toNat ≤ data.length := by
  unfold fsbLen at h
  split at h
  · cases h
  · split at h
    · rename_i h1
      split at h
      · cases h; simp
      · cases h
    · split at h
      · cases h
        exact Nat.div_mul_le_self _ _
      · cases h

theorem fsbGet_congr {n len len' : Nat} {v v' : Option Bits} {data data' : Bytes} {i : Nat}
    (hm : len * n ≤ data.length) (hm' : len' * n ≤ data'.length)
    (h : SlotAgree i len len' v v' ((data.drop (i * n)).take n = (data'.drop (i * n)).take n)) :
    fsbGet Fixes.all n len v data i = fsbGet Fixes.all n len' v' data' i := by
  obtain ⟨hl, hc⟩ := h
  unfold fsbGet
  simp only [ge_of_lt_eq hl]
  by_cases hi : i < len
  · have hi2 : i < len' := hl ▸ hi
    have hi' : ¬ i ≥ len' := by omega
    obtain ⟨hv, hx⟩ := hc hi
    have b1 : (i + 1) * n ≤ data.length := Nat.le_trans (Nat.mul_le_mul_right n (by omega)) hm
    have b2 : (i + 1) * n ≤ data'.length := Nat.le_trans (Nat.mul_le_mul_right n (by omega)) hm'
    simp only [hi', if_false, validityIsSet_all, ← hv, b1, b2, if_true]
    cases hval : isValid v i with
    | error e => rfl
    | ok b =>
      cases b with
      | false => rfl
      | true => simp only [hx hval]
  · have hi' : i ≥ len' := by have : ¬ i < len' := hl ▸ hi; omega
    simp only [hi', if_true]

theorem fsbColGet_congr {n : Int} {v v' : Option Bits} {data data' : Bytes} {i : Nat} (h : FsbAgree n v v' data data' i) :
    fsbColGet Fixes.all n v data i = fsbColGet Fixes.all n v' data' i := by
  unfold fsbColGet
  rw [fsbNew_len, fsbNew_len]
  rcases h with ⟨h1, h2⟩ | ⟨len, len', h1, h2, hs⟩
  · simp only [h1, h2]
    by_cases hn : n < 0 <;> simp only [hn, if_true, if_false] <;> rfl
  · simp only [h1, h2, bind, Except.bind]
    exact fsbGet_congr (fsbLen_mul h1) (fsbLen_mul h2) hs

/-! ### the heads of the container reads -/

theorem listRange_congr {offs offs' : List Int} {i : Nat} (hl : (i < offs.length - 1) = (i < offs'.length - 1))
    (h : i < offs.length - 1 → offs[i]? = offs'[i]? ∧ offs[i + 1]? = offs'[i + 1]?) :
    listRange Fixes.all offs i = listRange Fixes.all offs' i := by
  unfold listRange
  by_cases hi : i < offs.length - 1
  · have hi' : i < offs'.length - 1 := hl ▸ hi
    have g : ¬ i + 1 ≥ offs.length := by omega
    have g' : ¬ i + 1 ≥ offs'.length := by omega
    obtain ⟨h0, h1⟩ := h hi
    simp only [g, g', if_false, h0, h1]
  · have hi' : ¬ i < offs'.length - 1 := hl ▸ hi
    have g : i + 1 ≥ offs.length := by omega
    have g' : i + 1 ≥ offs'.length := by omega
    simp only [g, g', if_true]

theorem fslRange_congr {len len' : Nat} {n : Int} {i : Nat} (hl : (i < len) = (i < len')) :
    fslRange Fixes.all len n i = fslRange Fixes.all len' n i := by
  unfold fslRange
  simp only [ge_of_lt_eq hl]

theorem getElem?_none_congr {α} {l l' : List α} {k : Nat} (h : l[k]? = l'[k]?) : (k ≥ l.length) = (k ≥ l'.length) := by
  apply propext
  constructor
  · intro hk
    have : l[k]? = none := List.getElem?_eq_none_iff.mpr hk
    rw [h] at this
    exact List.getElem?_eq_none_iff.mp this
  · intro hk
    have : l'[k]? = none := List.getElem?_eq_none_iff.mpr hk
    rw [← h] at this
    exact List.getElem?_eq_none_iff.mp this

theorem unionSelect_congr {types types' : List Int} {offs offs' : Option (List Int)} {n i : Nat}
    (h : unionHead types offs i = unionHead types' offs' i) :
    unionSelect Fixes.all types offs n i = unionSelect Fixes.all types' offs' n i := by
  unfold unionHead at h
  simp only [Prod.mk.injEq] at h
  obtain ⟨ht, ho⟩ := h
  unfold unionSelect
  simp only [getElem?_none_congr ht]
  cases offs with
  | none =>
    cases offs' with
    | none => rfl
    | some o' => simp at ho
  | some o =>
    cases offs' with
    | none => simp at ho
    | some o' =>
      simp only [Option.map_some, Option.some.injEq, Prod.mk.injEq, decide_eq_decide] at ho
      have hne : (types.length ≠ o.length) = (types'.length ≠ o'.length) := by
        apply propext; have := ho.1; omega
      simp only [hne, ht, ho.2]

/-! ### `is_some`, the `Option` layer -/

theorem isSome_agree {p : Target} {a a' : Arr} {i : Nat} (h : touchEqW true p a a' i = true) :
    isSome Fixes.all a i = isSome Fixes.all a' i := by
  cases a with
  | null len => obtain ⟨len', rfl, hl⟩ := touchEqW_null h; simp only [isSome, nullCheck_congr hl]
  | boolean len v vals => obtain ⟨len', v', vals', rfl, hs⟩ := touchEqW_boolean h; simp only [isSome, boolGet_congr hs]
  | prim ty v vals => obtain ⟨v', vals', rfl, hs⟩ := touchEqW_prim h; simp only [isSome, primGet_congr hs]
  | time ty u v vals => obtain ⟨v', vals', rfl, hs⟩ := touchEqW_time h; simp only [isSome, primGet_congr hs]
  | timestamp u tz v vals => obtain ⟨v', vals', rfl, hs⟩ := touchEqW_timestamp h; simp only [isSome, primGet_congr hs]
  | decimal128 pr s v vals => obtain ⟨v', vals', rfl, hs⟩ := touchEqW_decimal h; simp only [isSome, primGet_congr hs]
  | bytes ty v offs data => obtain ⟨v', offs', data', rfl, hs⟩ := touchEqW_bytes h; simp only [isSome, bytesColGet_congr hs]
  | bytesView ty v views buffers =>
    obtain ⟨v', views', buffers', rfl, hs⟩ := touchEqW_bytesView h; simp only [isSome, viewColGet_congr hs]
  | fixedSizeBinary n v data => obtain ⟨v', data', rfl, hs⟩ := touchEqW_fsb h; simp only [isSome, fsbColGet_congr hs]
  | struct len v fs =>
    obtain ⟨len', v', fs', rfl, hl, hv, _⟩ := touchEqW_struct h
    simp only [isSome, ge_of_lt_eq hl]
    by_cases hi : i < len
    · rw [validityIsSet_congr (hv rfl hi)]
    · have : i ≥ len' := by have : ¬ i < len' := hl ▸ hi; omega
      simp only [this, if_true]
  | list l v offs fm el =>
    obtain ⟨l', v', offs', fm', el', rfl, hl, hv, _⟩ := touchEqW_list h
    simp only [isSome]
    by_cases hi : i < offs.length - 1
    · have hi' : i < offs'.length - 1 := hl ▸ hi
      have g : ¬ i + 1 ≥ offs.length := by omega
      have g' : ¬ i + 1 ≥ offs'.length := by omega
      simp only [g, g', if_false, validityIsSet_congr (hv rfl hi)]
    · have hi' : ¬ i < offs'.length - 1 := hl ▸ hi
      have g : i + 1 ≥ offs.length := by omega
      have g' : i + 1 ≥ offs'.length := by omega
      simp only [g, g', if_true]
  | fixedSizeList len v n fm el =>
    obtain ⟨len', v', fm', el', rfl, hl, hv, _⟩ := touchEqW_fsl h
    simp only [isSome, ge_of_lt_eq hl]
    by_cases hi : i < len
    · rw [validityIsSet_congr (hv rfl hi)]
    · have : i ≥ len' := by have : ¬ i < len' := hl ▸ hi; omega
      simp only [this, if_true]
  | map v offs mm ks vs =>
    obtain ⟨v', offs', mm', ks', vs', rfl, hl, hv, _⟩ := touchEqW_map h
    simp only [isSome]
    by_cases hi : i < offs.length - 1
    · have hi' : i < offs'.length - 1 := hl ▸ hi
      have g : ¬ i + 1 ≥ offs.length := by omega
      have g' : ¬ i + 1 ≥ offs'.length := by omega
      simp only [g, g', if_false, validityIsSet_congr (hv rfl hi)]
    · have hi' : ¬ i < offs'.length - 1 := hl ▸ hi
      have g : i + 1 ≥ offs.length := by omega
      have g' : i + 1 ≥ offs'.length := by omega
      simp only [g, g', if_true]
  | dictionary ks vs =>
    obtain ⟨ks', vs', rfl, hkind, _, hk, _⟩ := touchEqW_dictionary h
    cases ks with
    | prim ty v vals =>
      obtain ⟨v', vals', rfl, hs⟩ := touchEqW_prim (hk ty v vals rfl); simp only [isSome, primGet_congr hs]
    | _ => cases ks' <;> simp [kind] at hkind <;> simp only [isSome]
  | union types offs fs =>
    obtain ⟨types', offs', fs', rfl, hh, _, _⟩ := touchEqW_union h
    have ht : types[i]? = types'[i]? := by
      unfold unionHead at hh; simp only [Prod.mk.injEq] at hh; exact hh.1
    simp only [isSome, getElem?_none_congr ht]

theorem rowEq_weaken {o : Bool} {i len len' : Nat} {v v' : Option Bits} {c : Bool}
    (h : rowEq true i len len' v v' c = true) (hv : i < len → isValid v i = .ok true) : rowEq o i len len' v v' c = true := by
  have hr := rowEq_elim h
  unfold rowEq
  simp only [Bool.and_eq_true]
  refine ⟨by unfold rowEq at h; simp only [Bool.and_eq_true] at h; exact h.1, ?_⟩
  by_cases hi : i < len
  · have hc := hr.2.2 hi (fun _ => hv hi)
    cases o with
    | false => simp only [hi, if_true, Bool.false_eq_true, if_false, hc]
    | true =>
      simp only [hi, if_true, Bool.and_eq_true, bitEq, decide_eq_true_eq]
      refine ⟨hr.2.1 rfl hi, ?_⟩
      unfold whenValid
      simp only [hv hi, hc]
  · simp only [hi, if_false]

theorem validityIsSet_true {v : Option Bits} {i : Nat} (h : validityIsSet Fixes.all v i = .ok true) : isValid v i = .ok true := by
  rw [validityIsSet_all] at h; exact h

/-- the `Option` layer: after `is_some` said yes, the relation holds without consulting the validity bit again -/
theorem touchEqW_weaken {o : Bool} {p : Target} {a a' : Arr} {i : Nat} (h : touchEqW true p a a' i = true)
    (hs : isSome Fixes.all a i = .ok true) : touchEqW o p a a' i = true := by
  cases a with
  | struct len v fs =>
    obtain ⟨len', v', fs', rfl, _⟩ := touchEqW_struct h
    unfold touchEqW at h ⊢
    simp only at h ⊢
    refine rowEq_weaken h (fun hi => ?_)
    simp only [isSome] at hs
    have : ¬ i ≥ len := by omega
    simp only [this, if_false] at hs
    exact validityIsSet_true hs
  | list l v offs fm el =>
    obtain ⟨l', v', offs', fm', el', rfl, _⟩ := touchEqW_list h
    unfold touchEqW at h ⊢
    simp only at h ⊢
    refine rowEq_weaken h (fun hi => ?_)
    simp only [isSome] at hs
    have : ¬ i + 1 ≥ offs.length := by omega
    simp only [this, if_false] at hs
    exact validityIsSet_true hs
  | fixedSizeList len v n fm el =>
    obtain ⟨len', v', fm', el', rfl, _⟩ := touchEqW_fsl h
    unfold touchEqW at h ⊢
    simp only [Bool.and_eq_true] at h ⊢
    refine ⟨h.1, rowEq_weaken h.2 (fun hi => ?_)⟩
    simp only [isSome] at hs
    have : ¬ i ≥ len := by omega
    simp only [this, if_false] at hs
    exact validityIsSet_true hs
  | map v offs mm ks vs =>
    obtain ⟨v', offs', mm', ks', vs', rfl, _⟩ := touchEqW_map h
    unfold touchEqW at h ⊢
    simp only at h ⊢
    refine rowEq_weaken h (fun hi => ?_)
    simp only [isSome] at hs
    have : ¬ i + 1 ≥ offs.length := by omega
    simp only [this, if_false] at hs
    exact validityIsSet_true hs
  | _ => unfold touchEqW at h ⊢; exact h

/-- the `Option` layer of a target: `is_some` agrees, and where it says yes the views agree for the inner target -/
theorem touchEq_option_elim {t : Target} {a a' : Arr} {i : Nat} (h : touchEq (.option t) a a' i = true) :
    isSome Fixes.all a i = isSome Fixes.all a' i ∧ (isSome Fixes.all a i = .ok true → touchEq t a a' i = true) := by
  rw [touchEq_option] at h
  exact ⟨isSome_agree h, fun hs => touchEqW_weaken h hs⟩

/-! ### scalar reads, dictionary lookups -/

theorem primGet_some_valid {v : Option Bits} {vals : List Int} {i : Nat} {k : Int}
    (h : primGet Fixes.all v vals i = .ok (some k)) : vals[i]? = some k ∧ isValid v i = .ok true := by
  unfold primGet at h
  split at h
  · cases h
  · rename_i x hx
    obtain ⟨b, hb, h⟩ := ok_bind_inv h
    cases b
    · cases h
    · simp only [if_true] at h
      cases h
      exact ⟨hx, validityIsSet_true hb⟩

/-- `DictionaryDeserializer::get_str` -/
theorem dictGetStr_agree {o : Bool} {p : Target} {ks vs ks' vs' : Arr} {i : Nat}
    (h : touchEqW o p (.dictionary ks vs) (.dictionary ks' vs') i = true) :
    dictGetStr Fixes.all ks vs i = dictGetStr Fixes.all ks' vs' i := by
  obtain ⟨ks2, vs2, he, hkind, hkv, hk, hvs⟩ := touchEqW_dictionary h
  cases he
  cases ks with
  | prim ty v vals =>
    obtain ⟨v', vals', rfl, hsl⟩ := touchEqW_prim (hk ty v vals rfl)
    cases vs with
    | bytes vty vv voffs vdata =>
      cases vs' <;> simp [kind] at hkv
      rename_i vty' vv' voffs' vdata'
      unfold dictGetStr
      simp only [primGet_congr hsl]
      cases hg : getRequired (primGet Fixes.all v' vals' i) with
      | error e => rfl
      | ok k =>
        simp only [bind, Except.bind]
        split
        · rfl
        · unfold tryIntoUsize
          by_cases h0 : 0 ≤ k
          · have hg' : primGet Fixes.all v vals i = .ok (some k) := by rw [primGet_congr hsl]; exact getRequired_ok hg
            obtain ⟨hkey, hval⟩ := primGet_some_valid hg'
            have hr := hvs ty v vals vty vv voffs vdata k rfl rfl hval hkey h0
            obtain ⟨vv2, voffs2, vdata2, he2, hs2⟩ := touchEqW_bytes hr
            cases he2
            simp only [h0, if_true, bytesGet_congr hs2]
          · simp only [h0, if_false]; rfl
    | _ => cases vs' <;> simp [kind] at hkv <;> simp only [dictGetStr]
  | _ => cases ks' <;> simp [kind] at hkind <;> simp only [dictGetStr]

/-- the scalar reads (`deserialize_bool`, `…_i32`, `…_str`, …) -/
theorem scalar_agree (m : Method) {o : Bool} {p : Target} {a a' : Arr} {i : Nat} (h : touchEqW o p a a' i = true) :
    scalar Fixes.all m a i = scalar Fixes.all m a' i := by
  cases a with
  | null len => obtain ⟨len', rfl, hl⟩ := touchEqW_null h; unfold scalar; simp only [nullCheck_congr hl]
  | boolean len v vals =>
    obtain ⟨len', v', vals', rfl, hs⟩ := touchEqW_boolean h; unfold scalar; simp only [boolGet_congr hs]
  | prim ty v vals =>
    obtain ⟨v', vals', rfl, hs⟩ := touchEqW_prim h; unfold scalar; simp only [primGet_congr hs, codecRead_congr hs]
  | time ty u v vals =>
    obtain ⟨v', vals', rfl, hs⟩ := touchEqW_time h; unfold scalar; simp only [primGet_congr hs, codecRead_congr hs]
  | timestamp u tz v vals =>
    obtain ⟨v', vals', rfl, hs⟩ := touchEqW_timestamp h; unfold scalar; simp only [primGet_congr hs, codecRead_congr hs]
  | decimal128 pr s v vals =>
    obtain ⟨v', vals', rfl, hs⟩ := touchEqW_decimal h; unfold scalar; simp only [codecRead_congr hs]
  | bytes ty v offs data =>
    obtain ⟨v', offs', data', rfl, hs⟩ := touchEqW_bytes h; unfold scalar; simp only [bytesColGet_congr hs]
  | bytesView ty v views buffers =>
    obtain ⟨v', views', buffers', rfl, hs⟩ := touchEqW_bytesView h; unfold scalar; simp only [viewColGet_congr hs]
  | fixedSizeBinary n v data =>
    obtain ⟨v', data', rfl, hs⟩ := touchEqW_fsb h; unfold scalar; simp only [fsbColGet_congr hs]
  | struct len v fs => obtain ⟨_, _, _, rfl, _⟩ := touchEqW_struct h; unfold scalar; rfl
  | list l v offs fm el => obtain ⟨_, _, _, _, _, rfl, _⟩ := touchEqW_list h; unfold scalar; rfl
  | fixedSizeList len v n fm el => obtain ⟨_, _, _, _, rfl, _⟩ := touchEqW_fsl h; unfold scalar; rfl
  | map v offs mm ks vs => obtain ⟨_, _, _, _, _, rfl, _⟩ := touchEqW_map h; unfold scalar; rfl
  | dictionary ks vs =>
    obtain ⟨ks', vs', rfl, _⟩ := touchEqW_dictionary h; unfold scalar; simp only [dictGetStr_agree h]
  | union types offs fs => obtain ⟨_, _, _, rfl, _⟩ := touchEqW_union h; unfold scalar; rfl

/-- binary columns read as a sequence of `u8` -/
theorem binaryElems_agree {o : Bool} {p : Target} {a a' : Arr} {i : Nat} (h : touchEqW o p a a' i = true) :
    binaryElems Fixes.all a i = binaryElems Fixes.all a' i := by
  have hkind := touchEqW_kind h
  cases a with
  | bytes ty v offs data =>
    obtain ⟨v', offs', data', rfl, hs⟩ := touchEqW_bytes h; simp only [binaryElems, bytesColGet_congr hs]
  | bytesView ty v views buffers =>
    obtain ⟨v', views', buffers', rfl, hs⟩ := touchEqW_bytesView h; simp only [binaryElems, viewColGet_congr hs]
  | fixedSizeBinary n v data => obtain ⟨v', data', rfl, hs⟩ := touchEqW_fsb h; simp only [binaryElems, fsbColGet_congr hs]
  | _ => cases a' <;> simp [kind] at hkind <;> simp only [binaryElems]

/-- string columns read as an enum -/
theorem stringElem_agree {o : Bool} {p : Target} {a a' : Arr} {i : Nat} (h : touchEqW o p a a' i = true) :
    stringElem Fixes.all a i = stringElem Fixes.all a' i := by
  have hkind := touchEqW_kind h
  cases a with
  | bytes ty v offs data =>
    obtain ⟨v', offs', data', rfl, hs⟩ := touchEqW_bytes h; simp only [stringElem, bytesColGet_congr hs]
  | bytesView ty v views buffers =>
    obtain ⟨v', views', buffers', rfl, hs⟩ := touchEqW_bytesView h; simp only [stringElem, viewColGet_congr hs]
  | dictionary ks vs =>
    obtain ⟨ks', vs', rfl, _⟩ := touchEqW_dictionary h; simp only [stringElem, dictGetStr_agree h]
  | _ => cases a' <;> simp [kind] at hkind <;> simp only [stringElem]

end SaModel.Props.C17
