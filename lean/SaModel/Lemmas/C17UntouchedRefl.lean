import SaModel.Lemmas.C17Untouched
/-
C17, `untouched_ok` — `touchEq` is reflexive: every view agrees with itself on the footprint of every read (the
relation never asks for more than equality of the two views; mutual structural recursion over the array).
-/
namespace SaModel.Props.C17
open SaModel SaModel.Read SaModel.Spec

theorem whenValid_true (v : Option Bits) (i : Nat) : whenValid v i true = true := by
  unfold whenValid; split <;> rfl

theorem slotEq_refl {i len : Nat} {v : Option Bits} {c : Bool} (hc : c = true) : slotEq i len len v v c = true := by
  subst hc; simp [slotEq, ltEq, bitEq, whenValid_true]

theorem rowEq_refl {o : Bool} {i len : Nat} {v : Option Bits} {c : Bool} (hc : c = true) : rowEq o i len len v v c = true := by
  subst hc; cases o <;> simp [rowEq, ltEq, bitEq, whenValid_true]

theorem rangeEqN_refl {f : Nat → Bool} {len s e : Nat} (hf : ∀ j, f j = true) : rangeEqN f true len s e = true := by
  unfold rangeEqN
  split
  · split
    · simp [hf]
    · rfl
  · rfl

theorem rangeEq_refl {f : Nat → Bool} {len : Nat} {s e : Int} (hf : ∀ j, f j = true) : rangeEq f true len s e = true := by
  unfold rangeEq
  split
  · exact rangeEqN_refl hf
  · rfl

mutual
theorem touchEqW_refl : ∀ (a : Arr) (o : Bool) (p : Target) (i : Nat), touchEqW o p a a i = true
  | .null len, o, p, i => by unfold touchEqW; simp [ltEq]
  | .boolean len v vals, o, p, i => by unfold touchEqW; exact slotEq_refl (by simp)
  | .prim ty v vals, o, p, i => by unfold touchEqW; simp [slotEq_refl]
  | .time ty u v vals, o, p, i => by unfold touchEqW; simp [slotEq_refl]
  | .timestamp u tz v vals, o, p, i => by unfold touchEqW; simp [slotEq_refl]
  | .decimal128 pr s v vals, o, p, i => by unfold touchEqW; simp [slotEq_refl]
  | .bytes ty v offs data, o, p, i => by unfold touchEqW; simp [slotEq_refl]
  | .bytesView ty v views buffers, o, p, i => by unfold touchEqW; simp [slotEq_refl]
  | .fixedSizeBinary n v data, o, p, i => by
    unfold touchEqW
    simp only [decide_true, Bool.true_and]
    cases fsbLen n data with
    | none => rfl
    | some len => exact slotEq_refl (by simp)
  | .struct len v fs, o, p, i => by
    unfold touchEqW
    refine rowEq_refl ?_
    split
    · exact namedEq_refl _ fs i
    · exact tupleEq_refl _ fs i
    · exact tupleEq_refl _ fs i
    · exact allEq_refl _ fs i
    · exact allEq_refl _ fs i
    · exact allEq_refl _ fs i
    · rfl
  | .list l v offs fm el, o, p, i => by
    unfold touchEqW
    refine rowEq_refl ?_
    cases readsList p with
    | false => rfl
    | true =>
      simp only [Bool.not_true, Bool.false_or, decide_true, Bool.true_and]
      split
      · exact rangeEq_refl (fun j => touchEqW_refl el _ _ j)
      · rfl
  | .fixedSizeList len v n fm el, o, p, i => by
    unfold touchEqW
    simp only [decide_true, Bool.true_and]
    refine rowEq_refl ?_
    split
    · split
      · exact rangeEqN_refl (fun j => touchEqW_refl el _ _ j)
      · rfl
    · rfl
  | .map v offs mm ks vs, o, p, i => by
    unfold touchEqW
    refine rowEq_refl ?_
    split
    · simp only [decide_true, Bool.true_and, Bool.and_eq_true]
      exact ⟨rangeEq_refl (fun j => touchEqW_refl ks _ _ j), rangeEq_refl (fun j => touchEqW_refl vs _ _ j)⟩
    · rfl
  | .dictionary ks vs, o, p, i => by
    unfold touchEqW
    simp only [beq_self_eq_true, Bool.true_and]
    split
    · simp only [Bool.and_eq_true]
      refine ⟨touchEqW_refl _ _ _ _, ?_⟩
      split
      · split
        · split
          · exact touchEqW_refl _ _ _ _
          · rfl
        · rfl
      · rfl
    · rfl
  | .union types offs fs, o, p, i => by
    unfold touchEqW
    simp only [decide_true, Bool.true_and]
    split
    · split
      · split
        · exact variantEq_refl _ fs _ _
        · rfl
      · rfl
    · rfl
theorem namedEq_refl : ∀ (tfs : TFields) (fs : ArrFields) (i : Nat), namedEq tfs fs fs i = true
  | _, .nil, _ => by unfold namedEq; rfl
  | tfs, .cons fm c r, i => by
    unfold namedEq
    simp only [decide_true, Bool.true_and, Bool.and_eq_true]
    refine ⟨?_, namedEq_refl tfs r i⟩
    split
    · exact touchEqW_refl c _ _ i
    · exact touchEqW_refl c _ _ i
theorem tupleEq_refl : ∀ (ts : Targets) (fs : ArrFields) (i : Nat), tupleEq ts fs fs i = true
  | .nil, _, _ => by unfold tupleEq; rfl
  | .cons _ _, .nil, _ => by unfold tupleEq; rfl
  | .cons t ts, .cons fm c r, i => by
    unfold tupleEq
    simp only [Bool.and_eq_true]
    exact ⟨touchEqW_refl c _ _ i, tupleEq_refl ts r i⟩
theorem allEq_refl : ∀ (t : Target) (fs : ArrFields) (i : Nat), allEq t fs fs i = true
  | _, .nil, _ => by unfold allEq; rfl
  | t, .cons fm c r, i => by
    unfold allEq
    simp only [decide_true, Bool.true_and, Bool.and_eq_true]
    exact ⟨touchEqW_refl c _ _ i, allEq_refl t r i⟩
theorem variantEq_refl : ∀ (vt : String → Option Target) (fs : ArrUFields) (k j : Nat), variantEq vt fs fs k j = true
  | _, .nil, _, _ => by unfold variantEq; rfl
  | vt, .cons _ fm c _, 0, j => by
    unfold variantEq
    simp only [decide_true, Bool.true_and]
    split
    · exact touchEqW_refl c _ _ j
    · rfl
  | vt, .cons _ _ _ r, k + 1, j => by
    unfold variantEq
    exact variantEq_refl vt r k j
end

end SaModel.Props.C17
