import SaModel.Lemmas.C17UntouchedAny
import SaModel.Lemmas.C17TouchTyped
/-
C17, `untouched_ok` — the typed reads, one combinator per target constructor (`AgreeP t` from `AgreeP` of the
component targets); `SaModel/Props/C17.lean` assembles them by structural recursion over the target.
-/
namespace SaModel.Props.C17
open SaModel SaModel.Read SaModel.Spec

/-- reads of target `t` at slot `i` see only what `reachEq · · i` fixes -/
def AgreeP (t : Target) : Prop :=
  ∀ (a a' : Arr) (i : Nat), reachEq a a' i = true → readAs Fixes.all t a i = readAs Fixes.all t a' i

def KAgree (k : VKind) : Prop :=
  ∀ (c c' : Arr) (off : Nat), reachEq c c' off = true →
    readKind Fixes.all k (some (c, off)) = readKind Fixes.all k (some (c', off))

theorem agreeP_any : AgreeP .any := fun a a' i h => by unfold readAs; exact readAny_agree h
theorem agreeP_ignored : AgreeP .ignored := fun a a' i h => by unfold readAs; rw [readAny_agree h]
theorem agreeP_unit : AgreeP .unit := fun a a' i h => by unfold readAs; rw [scalar_agree _ h]
theorem agreeP_unitStruct : AgreeP .unitStruct := fun a a' i h => by unfold readAs; rw [scalar_agree _ h]
theorem agreeP_bool : AgreeP .bool := fun a a' i h => by unfold readAs; rw [scalar_agree _ h]
theorem agreeP_int (ty : IntTy) : AgreeP (.int ty) := fun a a' i h => by unfold readAs; rw [scalar_agree _ h]
theorem agreeP_f32 : AgreeP .f32 := fun a a' i h => by unfold readAs; rw [scalar_agree _ h]
theorem agreeP_f64 : AgreeP .f64 := fun a a' i h => by unfold readAs; rw [scalar_agree _ h]
theorem agreeP_char : AgreeP .char := fun a a' i h => by unfold readAs; rw [scalar_agree _ h]
theorem agreeP_string : AgreeP .string := fun a a' i h => by unfold readAs; rw [scalar_agree _ h]
theorem agreeP_str : AgreeP .str := fun a a' i h => by unfold readAs; rw [scalar_agree _ h]

theorem agreeP_bytes : AgreeP .bytes := fun a a' i h => by
  have hkind := reachEq_kind h
  cases a with
  | list l v offs fm el =>
    obtain ⟨l', v', offs', fm', el', rfl, hv, h0, h1, hel⟩ := reachEq_list h
    unfold readAs
    simp only [listRange_congr h0 h1]
  | _ => cases a' <;> simp [kind] at hkind <;> (unfold readAs; simp only [scalar_agree .bytes h])

theorem agreeP_byteBuf : AgreeP .byteBuf := fun a a' i h => by
  have hkind := reachEq_kind h
  cases a with
  | list l v offs fm el =>
    obtain ⟨l', v', offs', fm', el', rfl, hv, h0, h1, hel⟩ := reachEq_list h
    unfold readAs
    simp only [listRange_congr h0 h1]
    cases hr : listRange Fixes.all offs' i with
    | error e => rfl
    | ok r =>
      obtain ⟨s, e⟩ := r
      have hor := listRange_offRange ((listRange_congr h0 h1).trans hr)
      simp only [hor] at hel
      have hrr : readRange (fun j => do accept (.int .u8) (← scalar Fixes.all (.int .u8) el j)) s (e - s) =
          readRange (fun j => do accept (.int .u8) (← scalar Fixes.all (.int .u8) el' j)) s (e - s) := by
        refine readRange_congr _ _ (fun k hk => ?_)
        simp only [scalar_agree (.int .u8) (hel k hk)]
      simp only [bind, Except.bind] at hrr ⊢
      rw [hrr]
  | _ => cases a' <;> simp [kind] at hkind <;> (unfold readAs; simp only [scalar_agree .byteBuf h])

theorem agreeP_option {t : Target} (hS : AgreeP t) : AgreeP (.option t) := fun a a' i h => by
  unfold readAs
  rw [isSome_agree h, hS a a' i h]

theorem agreeP_newtype {t : Target} (hS : AgreeP t) : AgreeP (.newtype t) := fun a a' i h => by
  unfold readAs
  exact hS a a' i h

theorem agreeP_seq {t : Target} (hS : AgreeP t) : AgreeP (.seq t) := fun a a' i h => by
  have hkind := reachEq_kind h
  cases a with
  | list l v offs fm el =>
    obtain ⟨l', v', offs', fm', el', rfl, hv, h0, h1, hel⟩ := reachEq_list h
    unfold readAs
    simp only [listRange_congr h0 h1]
    cases hr : listRange Fixes.all offs' i with
    | error e => rfl
    | ok r =>
      obtain ⟨s, e⟩ := r
      have hor := listRange_offRange ((listRange_congr h0 h1).trans hr)
      simp only [hor] at hel
      have hrr : readRange (fun j => readAs Fixes.all t el j) s (e - s) =
          readRange (fun j => readAs Fixes.all t el' j) s (e - s) :=
        readRange_congr _ _ (fun k hk => hS el el' (s + k) (hel k hk))
      simp only [bind, Except.bind] at hrr ⊢
      rw [hrr]
  | fixedSizeList len v n fm el =>
    obtain ⟨len', v', fm', el', rfl, hl, hv, hel⟩ := reachEq_fsl h
    unfold readAs
    simp only [fslRange_congr hl]
    cases hr : fslRange Fixes.all len' n i with
    | error e => rfl
    | ok r =>
      obtain ⟨s, e⟩ := r
      obtain ⟨hs, he⟩ := fslRange_parts hr
      have hrr : readRange (fun j => readAs Fixes.all t el j) s (e - s) =
          readRange (fun j => readAs Fixes.all t el' j) s (e - s) := by
        refine readRange_congr _ _ (fun k hk => ?_)
        have hk' := hel k (by omega)
        rw [← hs] at hk'
        exact hS el el' (s + k) hk'
      simp only [bind, Except.bind] at hrr ⊢
      rw [hrr]
  | _ => cases a' <;> simp [kind] at hkind <;> (unfold readAs; simp only [binaryElems_agree h])

/-! ### tuples -/

theorem readTupleFields_agree : ∀ (ts : Targets), AllT AgreeP ts → ∀ (fs fs' : ArrFields) (i : Nat),
    reachFields fs fs' i = true → readTupleFields Fixes.all ts fs i = readTupleFields Fixes.all ts fs' i
  | .nil, _, _, _, _, _ => by unfold readTupleFields; rfl
  | .cons t rest, hS, fs, fs', i, h => by
    cases fs with
    | nil =>
      unfold reachFields at h
      split at h
      · rfl
      · cases h
    | cons fm a r =>
      unfold reachFields at h
      split at h
      · rename_i fm' a' r'
        simp only [Bool.and_eq_true, decide_eq_true_eq] at h
        unfold readTupleFields
        simp only [hS.1 a a' i h.1.2, readTupleFields_agree rest hS.2 r r' i h.2]
      · cases h

theorem tupleVisit_agree {ts : Targets} (hS : AllT AgreeP ts) {a a' : Arr} {i : Nat} (h : reachEq a a' i = true) :
    tupleVisit Fixes.all (fun fs => readTupleFields Fixes.all ts fs i) a i =
      tupleVisit Fixes.all (fun fs => readTupleFields Fixes.all ts fs i) a' i := by
  have hkind := reachEq_kind h
  cases a with
  | struct len v fs =>
    obtain ⟨len', v', fs', rfl, hl, hv, hfs⟩ := reachEq_struct h
    unfold tupleVisit
    simp only [structItem_congr hl, readTupleFields_agree ts hS fs fs' i hfs]
  | _ => cases a' <;> simp [kind] at hkind <;> (unfold tupleVisit; rfl)

theorem agreeP_tuple {ts : Targets} (hS : AllT AgreeP ts) : AgreeP (.tuple ts) := fun a a' i h => by
  unfold readAs; exact tupleVisit_agree hS h

theorem agreeP_tupleStruct {ts : Targets} (hS : AllT AgreeP ts) : AgreeP (.tupleStruct ts) := fun a a' i h => by
  unfold readAs; exact tupleVisit_agree hS h

/-! ### maps -/

theorem mapM_fields_agree {k v : Target} (hV : AgreeP v) (i : Nat) : ∀ (fs fs' : ArrFields), reachFields fs fs' i = true →
    fs.toList.mapM (fun (p : FieldMeta × Arr) => do
        let kk ← strDeAs k p.1.name
        let vv ← readAs Fixes.all v p.2 i
        pure (kk, vv)) =
    fs'.toList.mapM (fun (p : FieldMeta × Arr) => do
        let kk ← strDeAs k p.1.name
        let vv ← readAs Fixes.all v p.2 i
        pure (kk, vv))
  | .nil, fs', h => by
    unfold reachFields at h
    split at h
    · rfl
    · cases h
  | .cons fm a r, fs', h => by
    unfold reachFields at h
    split at h
    · rename_i fm' a' r'
      simp only [Bool.and_eq_true, decide_eq_true_eq] at h
      simp only [ArrFields.toList, List.mapM_cons, h.1.1, hV a a' i h.1.2, mapM_fields_agree hV i r r' h.2]
    · cases h

theorem agreeP_map {k v : Target} (hK : AgreeP k) (hV : AgreeP v) : AgreeP (.map k v) := fun a a' i h => by
  have hkind := reachEq_kind h
  cases a with
  | struct len vl fs =>
    obtain ⟨len', v', fs', rfl, hl, hv, hfs⟩ := reachEq_struct h
    unfold readAs
    simp only [structItem_congr hl]
    have := mapM_fields_agree (k := k) hV i fs fs' hfs
    simp only [bind, Except.bind] at this ⊢
    rw [this]
  | map vl offs mm ks vs =>
    obtain ⟨v', offs', mm', ks', vs', rfl, hv, h0, h1, hks, hvs⟩ := reachEq_map h
    unfold readAs
    simp only [listRange_congr h0 h1]
    cases hr : listRange Fixes.all offs' i with
    | error e => rfl
    | ok r =>
      obtain ⟨s, e⟩ := r
      have hor := listRange_offRange ((listRange_congr h0 h1).trans hr)
      simp only [hor] at hks hvs
      have hrr : readRange (fun j => do
            let kk ← readAs Fixes.all k ks j
            let vv ← readAs Fixes.all v vs j
            pure (kk, vv)) s (e - s) =
          readRange (fun j => do
            let kk ← readAs Fixes.all k ks' j
            let vv ← readAs Fixes.all v vs' j
            pure (kk, vv)) s (e - s) := by
        refine readRange_congr _ _ (fun j hj => ?_)
        simp only [hK ks ks' (s + j) (hks j hj), hV vs vs' (s + j) (hvs j hj)]
      simp only [bind, Except.bind] at hrr ⊢
      rw [hrr]
  | _ => cases a' <;> simp [kind] at hkind <;> (unfold readAs; rfl)

/-! ### structs by field name -/

theorem readFieldAs_agree : ∀ (tfs : TFields), AllF AgreeP tfs → ∀ (pos : Nat) (slots : Slots) (name : String) (c c' : Arr)
    (i : Nat), reachEq c c' i = true →
    readFieldAs Fixes.all tfs pos slots name c i = readFieldAs Fixes.all tfs pos slots name c' i
  | .nil, _, _, _, _, _, _, _, _ => by unfold readFieldAs; rfl
  | .cons n t rest, hS, pos, slots, name, c, c', i, h => by
    unfold readFieldAs
    simp only [hS.1 c c' i h, readFieldAs_agree rest hS.2 (pos + 1) slots name c c' i h]

theorem foldlM_fields_agree {i : Nat} {step : Slots → FieldMeta × Arr → R Slots}
    (hstep : ∀ slots fm fm' c c', fm.name = fm'.name → reachEq c c' i = true → step slots (fm, c) = step slots (fm', c')) :
    ∀ (fs fs' : ArrFields) (slots : Slots), reachFields fs fs' i = true →
      fs.toList.foldlM step slots = fs'.toList.foldlM step slots
  | .nil, fs', _, h => by
    unfold reachFields at h
    split at h
    · rfl
    · cases h
  | .cons fm a r, fs', slots, h => by
    unfold reachFields at h
    split at h
    · rename_i fm' a' r'
      simp only [Bool.and_eq_true, decide_eq_true_eq] at h
      simp only [ArrFields.toList, List.foldlM_cons, hstep slots fm fm' a a' h.1.1 h.1.2]
      cases step slots (fm', a') with
      | error e => rfl
      | ok s1 => exact foldlM_fields_agree hstep r r' s1 h.2
    · cases h

theorem structVisit_agree {tfs : TFields} (hS : AllF AgreeP tfs) {a a' : Arr} {i : Nat} (h : reachEq a a' i = true) :
    structVisit Fixes.all (fun slots name child => readFieldAs Fixes.all tfs 0 slots name child i) tfs a i =
      structVisit Fixes.all (fun slots name child => readFieldAs Fixes.all tfs 0 slots name child i) tfs a' i := by
  have hkind := reachEq_kind h
  cases a with
  | struct len v fs =>
    obtain ⟨len', v', fs', rfl, hl, hv, hfs⟩ := reachEq_struct h
    unfold structVisit
    simp only [structItem_congr hl]
    rw [foldlM_fields_agree (i := i) ?_ fs fs' [] hfs]
    intro slots fm fm' c c' hn hc
    simp only [hn, readFieldAs_agree tfs hS 0 slots fm'.name c c' i hc, readAny_agree hc]
  | _ => cases a' <;> simp [kind] at hkind <;> (unfold structVisit; rfl)

theorem agreeP_struct {tfs : TFields} (hS : AllF AgreeP tfs) : AgreeP (.struct tfs) := fun a a' i h => by
  unfold readAs; exact structVisit_agree hS h

/-! ### enums -/

theorem kagree_unit : KAgree .unit := fun c c' off h => by unfold readKind; rw [scalar_agree _ h]
theorem kagree_newtype {t : Target} (hS : AgreeP t) : KAgree (.newtype t) := fun c c' off h => by
  unfold readKind; exact hS c c' off h
theorem kagree_tuple {ts : Targets} (hS : AllT AgreeP ts) : KAgree (.tuple ts) := fun c c' off h => by
  unfold readKind; exact tupleVisit_agree hS h
theorem kagree_struct {tfs : TFields} (hS : AllF AgreeP tfs) : KAgree (.struct tfs) := fun c c' off h => by
  unfold readKind; exact structVisit_agree hS h

theorem readVariantAs_agree : ∀ (vs : TVariants), AllV KAgree vs → ∀ (sel : Option Nat) (name : String) (c c' : Arr)
    (off : Nat), reachEq c c' off = true →
    readVariantAs Fixes.all vs sel name (some (c, off)) = readVariantAs Fixes.all vs sel name (some (c', off))
  | .nil, _, _, _, _, _, _, _ => by unfold readVariantAs; rfl
  | .cons n k rest, hS, sel, name, c, c', off, h => by
    unfold readVariantAs
    simp only [hS.1 c c' off h, readVariantAs_agree rest hS.2 (sel.map (· - 1)) name c c' off h]

theorem nth_agree : ∀ (fs fs' : ArrUFields) (k j : Nat), reachVariant fs fs' k j = true → fs.length = fs'.length →
    (ArrUFields.nth fs k = none ∧ ArrUFields.nth fs' k = none) ∨
    ∃ fm c fm' c', ArrUFields.nth fs k = some (fm, c) ∧ ArrUFields.nth fs' k = some (fm', c') ∧ fm.name = fm'.name ∧
      reachEq c c' j = true
  | .nil, fs', _, _, _, hl => by
    cases fs' with
    | nil => exact Or.inl ⟨rfl, rfl⟩
    | cons _ _ _ _ => simp [ArrUFields.length] at hl
  | .cons _ fm a _, fs', 0, j, h, hl => by
    unfold reachVariant at h
    split at h
    · simp only [Bool.and_eq_true, decide_eq_true_eq] at h
      exact Or.inr ⟨_, _, _, _, rfl, rfl, h.1, h.2⟩
    · cases h
  | .cons _ _ _ r, fs', k + 1, j, h, hl => by
    unfold reachVariant at h
    split at h
    · rename_i r'
      simp only [ArrUFields.nth]
      exact nth_agree r r' k j h (by simp [ArrUFields.length] at hl; exact hl)
    · cases h

theorem agreeP_enum {byIndex : Bool} {vs : TVariants} (hS : AllV KAgree vs) : AgreeP (.enum byIndex vs) := fun a a' i h => by
  have hkind := reachEq_kind h
  cases a with
  | union types offs fs =>
    obtain ⟨types', offs', fs', rfl, hh, hlen, hvar⟩ := reachEq_union h
    unfold readAs
    simp only [unionSelect_congr hh, hlen]
    cases hr : unionSelect Fixes.all types' offs' fs'.length i with
    | error e => rfl
    | ok r =>
      obtain ⟨k, off⟩ := r
      have hr' : unionSelect Fixes.all types offs fs'.length i = .ok (k, off) := (unionSelect_congr hh).trans hr
      obtain ⟨t, o, offv, ht, ho, hoff, h0, h1, hk, hof⟩ := unionSelect_parts hr'
      have hv := hvar t o offv ht ho hoff h0 h1
      rw [← hk, ← hof] at hv
      simp only [bind, Except.bind]
      rcases nth_agree fs fs' k off hv hlen with ⟨hn, hn'⟩ | ⟨fm, c, fm', c', hn, hn', hname, hc⟩
      · simp only [hn, hn']
      · simp only [hn, hn', hname, readVariantAs_agree vs hS _ fm'.name c c' off hc]
  | _ => cases a' <;> simp [kind] at hkind <;> (unfold readAs; simp only [stringElem_agree h])

end SaModel.Props.C17
