import SaModel.Lemmas.C17UntouchedAny
import SaModel.Lemmas.C17TouchTyped
/-
C17, `untouched_ok` — the typed reads, one combinator per target constructor (`AgreeP t` from `AgreeP` of the
component targets); `SaModel/Props/C17.lean` assembles them by structural recursion over the target.
-/
namespace SaModel.Props.C17
open SaModel SaModel.Read SaModel.Spec

/-- reads of target `t` at slot `i` see only what `touchEq t · · i` fixes -/
def AgreeP (t : Target) : Prop :=
  ∀ (a a' : Arr) (i : Nat), touchEq t a a' i = true → readAs Fixes.all t a i = readAs Fixes.all t a' i

/-- the target the payload of a variant of kind `k` is read with -/
def vkTarget : VKind → Target
  | .unit => .unit
  | .newtype t => t
  | .tuple ts => .tuple ts
  | .struct tfs => .struct tfs

def KAgree (k : VKind) : Prop :=
  ∀ (c c' : Arr) (off : Nat), touchEq (vkTarget k) c c' off = true →
    readKind Fixes.all k (some (c, off)) = readKind Fixes.all k (some (c', off))

/-- a target without `newtype` / `Option` layers that is not `any` / `IgnoredAny` -/
theorem touchEq_plain {t : Target} (hp : peelTarget t = (t, false)) (ha : isAnyLike t = false) (a a' : Arr) (i : Nat) :
    touchEq t a a' i = touchEqW false t a a' i := by
  unfold touchEq optOf
  rw [hp]
  simp only [ha, Bool.or_self]

theorem agreeP_any : AgreeP .any := fun a a' i h => by
  unfold readAs; exact readAny_agree (p := .any) rfl (by rw [← touchEq_any]; exact h)
theorem agreeP_ignored : AgreeP .ignored := fun a a' i h => by
  have h' : touchEqW true .ignored a a' i = true := h
  unfold readAs; rw [readAny_agree (p := .ignored) rfl h']
theorem agreeP_unit : AgreeP .unit := fun a a' i h => by unfold readAs; rw [scalar_agree _ h]
theorem agreeP_unitStruct : AgreeP .unitStruct := fun a a' i h => by unfold readAs; rw [scalar_agree _ h]
theorem agreeP_bool : AgreeP .bool := fun a a' i h => by unfold readAs; rw [scalar_agree _ h]
theorem agreeP_int (ty : IntTy) : AgreeP (.int ty) := fun a a' i h => by unfold readAs; rw [scalar_agree _ h]
theorem agreeP_f32 : AgreeP .f32 := fun a a' i h => by unfold readAs; rw [scalar_agree _ h]
theorem agreeP_f64 : AgreeP .f64 := fun a a' i h => by unfold readAs; rw [scalar_agree _ h]
theorem agreeP_char : AgreeP .char := fun a a' i h => by unfold readAs; rw [scalar_agree _ h]
theorem agreeP_string : AgreeP .string := fun a a' i h => by unfold readAs; rw [scalar_agree _ h]
theorem agreeP_str : AgreeP .str := fun a a' i h => by unfold readAs; rw [scalar_agree _ h]

/-! ### list-like columns: the head and the element loop -/

theorem list_head {o : Bool} {p : Target} {l l' : Bool} {v v' : Option Bits} {offs offs' : List Int} {fm fm' : FieldMeta}
    {el el' : Arr} {i : Nat} (ho : o = false) (hrl : readsList p = true)
    (h : touchEqW o p (.list l v offs fm el) (.list l' v' offs' fm' el') i = true) :
    listRange Fixes.all offs i = listRange Fixes.all offs' i := by
  obtain ⟨_, _, _, _, _, he, hl, _, hc⟩ := touchEqW_list h
  cases he
  subst ho
  exact listRange_congr hl (fun hi => ⟨(hc hi (fun h => nomatch h) hrl).1, (hc hi (fun h => nomatch h) hrl).2.1⟩)

theorem list_loop {α} {o : Bool} {p et : Target} {l l' : Bool} {v v' : Option Bits} {offs offs' : List Int} {fm fm' : FieldMeta}
    {el el' : Arr} {i s e : Nat} (ho : o = false) (hrl : readsList p = true) (het : elemTarget? p = some et)
    (h : touchEqW o p (.list l v offs fm el) (.list l' v' offs' fm' el') i = true)
    (hr : listRange Fixes.all offs i = .ok (s, e)) (f : Arr → Nat → R α)
    (hf : ∀ j, touchEq et el el' j = true → f el j = f el' j) :
    readRange (f el) s (e - s) = readRange (f el') s (e - s) := by
  obtain ⟨_, _, _, _, _, he, hl, _, hc⟩ := touchEqW_list h
  cases he
  subst ho
  obtain ⟨hi, hs, he⟩ := listRange_parts hr
  exact readRange_elems f ((hc hi (fun h => nomatch h) hrl).2.2 et s e het hs he) hf

theorem fsl_loop {α} {o : Bool} {p et : Target} {len len' : Nat} {v v' : Option Bits} {n : Int} {fm fm' : FieldMeta}
    {el el' : Arr} {i s e : Nat} (ho : o = false) (het : fslElemTarget? p = some et)
    (h : touchEqW o p (.fixedSizeList len v n fm el) (.fixedSizeList len' v' n fm' el') i = true)
    (hr : fslRange Fixes.all len n i = .ok (s, e)) (f : Arr → Nat → R α)
    (hf : ∀ j, touchEq et el el' j = true → f el j = f el' j) :
    readRange (f el) s (e - s) = readRange (f el') s (e - s) := by
  obtain ⟨_, _, _, _, he, hl, _, hc⟩ := touchEqW_fsl h
  cases he
  subst ho
  obtain ⟨hi, hn, hs, he⟩ := fslRange_parts hr
  have hel := hc hi (fun h => nomatch h) et het hn
  rw [← hs, ← he] at hel
  exact readRange_elems f hel hf

theorem agreeP_bytes : AgreeP .bytes := fun a a' i h => by
  rw [touchEq_plain (by simp [peelTarget]) rfl] at h
  have hkind := touchEqW_kind h
  cases a with
  | list l v offs fm el =>
    obtain ⟨l', v', offs', fm', el', rfl, _⟩ := touchEqW_list h
    unfold readAs
    simp only [list_head rfl rfl h]
  | _ => cases a' <;> simp [kind] at hkind <;> (unfold readAs; simp only [scalar_agree .bytes h])

theorem agreeP_byteBuf : AgreeP .byteBuf := fun a a' i h => by
  rw [touchEq_plain (by simp [peelTarget]) rfl] at h
  have hkind := touchEqW_kind h
  cases a with
  | list l v offs fm el =>
    obtain ⟨l', v', offs', fm', el', rfl, _⟩ := touchEqW_list h
    have hlr := list_head rfl rfl h
    unfold readAs
    simp only [hlr]
    cases hr : listRange Fixes.all offs' i with
    | error e => rfl
    | ok r =>
      obtain ⟨s, e⟩ := r
      have hrr := list_loop rfl rfl rfl h (hlr.trans hr)
        (fun el j => do accept (.int .u8) (← scalar Fixes.all (.int .u8) el j))
        (fun j hj => by simp only [scalar_agree (.int .u8) hj])
      simp only [bind, Except.bind] at hrr ⊢
      rw [hrr]
  | _ => cases a' <;> simp [kind] at hkind <;> (unfold readAs; simp only [scalar_agree .byteBuf h])

theorem agreeP_option {t : Target} (hS : AgreeP t) : AgreeP (.option t) := fun a a' i h => by
  obtain ⟨hs, ht⟩ := touchEq_option_elim h
  unfold readAs
  rw [hs]
  cases hb : isSome Fixes.all a' i with
  | error e => rfl
  | ok b =>
    cases b with
    | false => rfl
    | true =>
      simp only [bind, Except.bind, if_true]
      rw [hS a a' i (ht (hs.trans hb))]

theorem agreeP_newtype {t : Target} (hS : AgreeP t) : AgreeP (.newtype t) := fun a a' i h => by
  unfold readAs
  exact hS a a' i h

theorem agreeP_seq {t : Target} (hS : AgreeP t) : AgreeP (.seq t) := fun a a' i h => by
  rw [touchEq_plain (by simp [peelTarget]) rfl] at h
  have hkind := touchEqW_kind h
  cases a with
  | list l v offs fm el =>
    obtain ⟨l', v', offs', fm', el', rfl, _⟩ := touchEqW_list h
    have hlr := list_head rfl rfl h
    unfold readAs
    simp only [hlr]
    cases hr : listRange Fixes.all offs' i with
    | error e => rfl
    | ok r =>
      obtain ⟨s, e⟩ := r
      have hrr := list_loop rfl rfl rfl h (hlr.trans hr) (fun el j => readAs Fixes.all t el j) (fun j hj => hS el el' j hj)
      simp only [bind, Except.bind] at hrr ⊢
      rw [hrr]
  | fixedSizeList len v n fm el =>
    obtain ⟨len', v', fm', el', rfl, hl, _⟩ := touchEqW_fsl h
    unfold readAs
    simp only [fslRange_congr hl]
    cases hr : fslRange Fixes.all len' n i with
    | error e => rfl
    | ok r =>
      obtain ⟨s, e⟩ := r
      have hrr := fsl_loop rfl rfl h ((fslRange_congr hl).trans hr) (fun el j => readAs Fixes.all t el j)
        (fun j hj => hS el el' j hj)
      simp only [bind, Except.bind] at hrr ⊢
      rw [hrr]
  | _ => cases a' <;> simp [kind] at hkind <;> (unfold readAs; simp only [binaryElems_agree h])

/-! ### tuples -/

theorem readTupleFields_agree : ∀ (ts : Targets), AllT AgreeP ts → ∀ (fs fs' : ArrFields) (i : Nat),
    tupleEq ts fs fs' i = true → readTupleFields Fixes.all ts fs i = readTupleFields Fixes.all ts fs' i
  | .nil, _, _, _, _, _ => by unfold readTupleFields; rfl
  | .cons t rest, hS, fs, fs', i, h => by
    cases fs with
    | nil => cases tupleEq_cons_nil h; rfl
    | cons fm a r =>
      obtain ⟨fm', a', r', rfl, ha, hr⟩ := tupleEq_cons_cons h
      unfold readTupleFields
      simp only [hS.1 a a' i ha, readTupleFields_agree rest hS.2 r r' i hr]

/-- the typed struct reads: the row check, then the fields — which the relation covers for rows in range -/
theorem struct_row {α} {p : Target} {len len' : Nat} {v v' : Option Bits} {fs fs' : ArrFields} {i : Nat}
    (h : touchEqW false p (.struct len v fs) (.struct len' v' fs') i = true) (f : ArrFields → R α)
    (hf : structContent p fs fs' i = true → f fs = f fs') :
    (structItem Fixes.all len i >>= fun _ => f fs) = (structItem Fixes.all len' i >>= fun _ => f fs') := by
  obtain ⟨_, _, _, he, hl, _, hc⟩ := touchEqW_struct h
  cases he
  rw [structItem_congr hl]
  cases hsi : structItem Fixes.all len' i with
  | error e => rfl
  | ok u =>
    have hi : i < len := by rw [hl]; exact structItem_ok_lt hsi
    simp only [bind, Except.bind]
    exact hf (hc hi (fun h => nomatch h))

theorem tupleVisit_agree {ts : Targets} (hS : AllT AgreeP ts) {p : Target}
    (hp : ∀ fs fs' i, structContent p fs fs' i = tupleEq ts fs fs' i) {a a' : Arr} {i : Nat}
    (h : touchEqW false p a a' i = true) :
    tupleVisit Fixes.all (fun fs => readTupleFields Fixes.all ts fs i) a i =
      tupleVisit Fixes.all (fun fs => readTupleFields Fixes.all ts fs i) a' i := by
  have hkind := touchEqW_kind h
  cases a with
  | struct len v fs =>
    obtain ⟨len', v', fs', rfl, _⟩ := touchEqW_struct h
    unfold tupleVisit
    simp only
    exact struct_row h (fun fs => do pure (DVal.seq (DVals.ofList (← readTupleFields Fixes.all ts fs i)))) (fun hc => by
      rw [hp] at hc
      simp only [readTupleFields_agree ts hS fs fs' i hc])
  | _ => cases a' <;> simp [kind] at hkind <;> (unfold tupleVisit; rfl)

theorem agreeP_tuple {ts : Targets} (hS : AllT AgreeP ts) : AgreeP (.tuple ts) := fun a a' i h => by
  rw [touchEq_plain (by simp [peelTarget]) rfl] at h
  unfold readAs; exact tupleVisit_agree hS (fun _ _ _ => rfl) h

theorem agreeP_tupleStruct {ts : Targets} (hS : AllT AgreeP ts) : AgreeP (.tupleStruct ts) := fun a a' i h => by
  rw [touchEq_plain (by simp [peelTarget]) rfl] at h
  unfold readAs; exact tupleVisit_agree hS (fun _ _ _ => rfl) h

/-! ### maps -/

theorem mapM_fields_agree {k v : Target} (hV : AgreeP v) (i : Nat) : ∀ (fs fs' : ArrFields), allEq v fs fs' i = true →
    fs.toList.mapM (fun (p : FieldMeta × Arr) => do
        let kk ← strDeAs k p.1.name
        let vv ← readAs Fixes.all v p.2 i
        pure (kk, vv)) =
    fs'.toList.mapM (fun (p : FieldMeta × Arr) => do
        let kk ← strDeAs k p.1.name
        let vv ← readAs Fixes.all v p.2 i
        pure (kk, vv))
  | .nil, fs', h => by cases allEq_nil h; rfl
  | .cons fm a r, fs', h => by
    obtain ⟨fm', a', r', rfl, hn, ha, hr⟩ := allEq_cons h
    simp only [ArrFields.toList, List.mapM_cons, hn, hV a a' i ha, mapM_fields_agree hV i r r' hr]

theorem agreeP_map {k v : Target} (hK : AgreeP k) (hV : AgreeP v) : AgreeP (.map k v) := fun a a' i h => by
  rw [touchEq_plain (by simp [peelTarget]) rfl] at h
  have hkind := touchEqW_kind h
  cases a with
  | struct len vl fs =>
    obtain ⟨len', v', fs', rfl, _⟩ := touchEqW_struct h
    unfold readAs
    simp only
    exact struct_row h (fun fs => do
        let es ← fs.toList.mapM fun (fm, child) => do
          let kk ← strDeAs k fm.name
          let vv ← readAs Fixes.all v child i
          pure (kk, vv)
        pure (DVal.map (DEntries.ofList es))) (fun hc => by
      have hc' : allEq v fs fs' i = true := hc
      have := mapM_fields_agree (k := k) hV i fs fs' hc'
      simp only [bind, Except.bind] at this ⊢
      rw [this])
  | map vl offs mm ks vs =>
    obtain ⟨v', offs', mm', ks', vs', rfl, hl, _, hc⟩ := touchEqW_map h
    have hlr := listRange_congr hl (fun hi =>
      ⟨(hc hi (fun h => nomatch h) k v rfl).1, (hc hi (fun h => nomatch h) k v rfl).2.1⟩)
    unfold readAs
    simp only [hlr]
    cases hr : listRange Fixes.all offs' i with
    | error e => rfl
    | ok r =>
      obtain ⟨s, e⟩ := r
      obtain ⟨hi, hs, he⟩ := listRange_parts (hlr.trans hr)
      obtain ⟨hks, hvs⟩ := (hc hi (fun h => nomatch h) k v rfl).2.2 s e hs he
      have hk : ∀ j, j < e - s → readAs Fixes.all k ks (s + j) = readAs Fixes.all k ks' (s + j) := by
        rcases hks with rfl | hall
        · intro j _; rfl
        · intro j hj; exact hK ks ks' (s + j) (hall j hj)
      have hv : ∀ j, j < e - s → readAs Fixes.all v vs (s + j) = readAs Fixes.all v vs' (s + j) := by
        rcases hvs with rfl | hall
        · intro j _; rfl
        · intro j hj; exact hV vs vs' (s + j) (hall j hj)
      have hrr : readRange (fun j => do
            let kk ← readAs Fixes.all k ks j
            let vv ← readAs Fixes.all v vs j
            pure (kk, vv)) s (e - s) =
          readRange (fun j => do
            let kk ← readAs Fixes.all k ks' j
            let vv ← readAs Fixes.all v vs' j
            pure (kk, vv)) s (e - s) := by
        refine readRange_congr _ _ (fun j hj => ?_)
        simp only [hk j hj, hv j hj]
      simp only [bind, Except.bind] at hrr ⊢
      rw [hrr]
  | _ => cases a' <;> simp [kind] at hkind <;> (unfold readAs; rfl)

/-! ### structs by field name -/

theorem allF_named {P : Target → Prop} : ∀ (tfs : TFields), AllF P tfs → ∀ (name : String) (tt : Target),
    tfieldNamed tfs name = some tt → P tt
  | .nil, _, _, _, h => by simp [tfieldNamed] at h
  | .cons n t rest, hS, name, tt, h => by
    unfold tfieldNamed at h
    split at h
    · cases h; exact hS.1
    · exact allF_named rest hS.2 name tt h

theorem readFieldAs_congr : ∀ (tfs : TFields) (pos : Nat) (slots : Slots) (name : String) (c c' : Arr) (i : Nat),
    (∀ tt, tfieldNamed tfs name = some tt → readAs Fixes.all tt c i = readAs Fixes.all tt c' i) →
    readFieldAs Fixes.all tfs pos slots name c i = readFieldAs Fixes.all tfs pos slots name c' i
  | .nil, _, _, _, _, _, _, _ => by unfold readFieldAs; rfl
  | .cons n t rest, pos, slots, name, c, c', i, h => by
    unfold readFieldAs
    by_cases hn : (n == name) = true
    · have := h t (by simp [tfieldNamed, hn])
      simp only [hn, if_true, this]
    · simp only [hn]
      exact readFieldAs_congr rest (pos + 1) slots name c c' i (fun tt htt => h tt (by simp [tfieldNamed, hn, htt]))

/-- `next_key` finds no target field only when the target has none of that name -/
theorem readFieldAs_none : ∀ (tfs : TFields) (pos : Nat) (slots : Slots) (name : String) (c : Arr) (i : Nat),
    readFieldAs Fixes.all tfs pos slots name c i = .ok none → tfieldNamed tfs name = none
  | .nil, _, _, _, _, _, _ => by simp [tfieldNamed]
  | .cons n t rest, pos, slots, name, c, i, h => by
    unfold readFieldAs at h
    unfold tfieldNamed
    split at h
    · split at h
      · cases h
      · obtain ⟨x, _, h⟩ := ok_bind_inv h
        cases h
    · rename_i hn
      simp only [hn]
      exact readFieldAs_none rest (pos + 1) slots name c i h

theorem foldlM_fields_agree {tfs : TFields} {i : Nat} {step : Slots → FieldMeta × Arr → R Slots}
    (hstep : ∀ slots fm fm' c c', fm.name = fm'.name →
      (∀ tt, tfieldNamed tfs fm.name = some tt → touchEq tt c c' i = true) →
      (tfieldNamed tfs fm.name = none → touchEqW true .any c c' i = true) → step slots (fm, c) = step slots (fm', c')) :
    ∀ (fs fs' : ArrFields) (slots : Slots), namedEq tfs fs fs' i = true →
      fs.toList.foldlM step slots = fs'.toList.foldlM step slots
  | .nil, fs', _, h => by cases namedEq_nil h; rfl
  | .cons fm a r, fs', slots, h => by
    obtain ⟨fm', a', r', rfl, hn, h1, h2, hr⟩ := namedEq_cons h
    simp only [ArrFields.toList, List.foldlM_cons, hstep slots fm fm' a a' hn h1 h2]
    cases step slots (fm', a') with
    | error e => rfl
    | ok s1 => exact foldlM_fields_agree hstep r r' s1 hr

theorem structVisit_agree {tfs : TFields} (hS : AllF AgreeP tfs) {p : Target}
    (hp : ∀ fs fs' i, structContent p fs fs' i = namedEq tfs fs fs' i) {a a' : Arr} {i : Nat}
    (h : touchEqW false p a a' i = true) :
    structVisit Fixes.all (fun slots name child => readFieldAs Fixes.all tfs 0 slots name child i) tfs a i =
      structVisit Fixes.all (fun slots name child => readFieldAs Fixes.all tfs 0 slots name child i) tfs a' i := by
  have hkind := touchEqW_kind h
  cases a with
  | struct len v fs =>
    obtain ⟨len', v', fs', rfl, _⟩ := touchEqW_struct h
    unfold structVisit
    simp only
    refine struct_row h (fun fs => do
        let slots ← fs.toList.foldlM (fun (slots : Slots) (fm, child) => do
          match (← readFieldAs Fixes.all tfs 0 slots fm.name child i) with
          | some kv => pure (slots ++ [kv])
          | none => do let _ ← readAny Fixes.all child i; pure slots) []
        pure (DVal.map (DEntries.ofList (← finishFields tfs 0 slots)))) (fun hc => ?_)
    rw [hp] at hc
    rw [foldlM_fields_agree (tfs := tfs) (i := i) ?_ fs fs' [] hc]
    intro slots fm fm' c c' hn h1 h2
    have hrf : readFieldAs Fixes.all tfs 0 slots fm.name c i = readFieldAs Fixes.all tfs 0 slots fm.name c' i :=
      readFieldAs_congr tfs 0 slots fm.name c c' i (fun tt htt => allF_named tfs hS fm.name tt htt c c' i (h1 tt htt))
    simp only [← hn, hrf]
    cases hr : readFieldAs Fixes.all tfs 0 slots fm.name c' i with
    | error e => rfl
    | ok r =>
      cases r with
      | some kv => rfl
      | none =>
        have hnone := readFieldAs_none tfs 0 slots fm.name c' i hr
        simp only [bind, Except.bind, readAny_agree (p := .any) rfl (h2 hnone)]
  | _ => cases a' <;> simp [kind] at hkind <;> (unfold structVisit; rfl)

theorem agreeP_struct {tfs : TFields} (hS : AllF AgreeP tfs) : AgreeP (.struct tfs) := fun a a' i h => by
  rw [touchEq_plain (by simp [peelTarget]) rfl] at h
  unfold readAs; exact structVisit_agree hS (fun _ _ _ => rfl) h

/-! ### enums -/

theorem kagree_unit : KAgree .unit := fun c c' off h => by unfold readKind; rw [scalar_agree _ h]
theorem kagree_newtype {t : Target} (hS : AgreeP t) : KAgree (.newtype t) := fun c c' off h => by
  unfold readKind; exact hS c c' off h
theorem kagree_tuple {ts : Targets} (hS : AllT AgreeP ts) : KAgree (.tuple ts) := fun c c' off h => by
  have h' : touchEq (.tuple ts) c c' off = true := h
  rw [touchEq_plain (by simp [peelTarget]) rfl] at h'
  unfold readKind; exact tupleVisit_agree hS (fun _ _ _ => rfl) h'
theorem kagree_struct {tfs : TFields} (hS : AllF AgreeP tfs) : KAgree (.struct tfs) := fun c c' off h => by
  have h' : touchEq (.struct tfs) c c' off = true := h
  rw [touchEq_plain (by simp [peelTarget]) rfl] at h'
  unfold readKind; exact structVisit_agree hS (fun _ _ _ => rfl) h'

theorem readVariantAs_agree : ∀ (vs : TVariants), AllV KAgree vs → ∀ (sel : Option Nat) (name : String) (c c' : Arr)
    (off : Nat), (∀ k, lookupVariant vs sel name = some k → touchEq (vkTarget k) c c' off = true) →
    readVariantAs Fixes.all vs sel name (some (c, off)) = readVariantAs Fixes.all vs sel name (some (c', off))
  | .nil, _, _, _, _, _, _, _ => by unfold readVariantAs; rfl
  | .cons n k rest, hS, sel, name, c, c', off, h => by
    unfold readVariantAs
    cases sel with
    | none =>
      simp only [Option.map_none]
      by_cases hc : (n == name) = true
      · have := hS.1 c c' off (h k (by simp [lookupVariant, variantNamed, hc]))
        simp only [hc, if_true, this]
      · simp only [hc]
        exact readVariantAs_agree rest hS.2 none name c c' off (fun k' hk' => h k' (by
          simp only [Bool.not_eq_true] at hc
          simpa [lookupVariant, variantNamed, hc] using hk'))
    | some p =>
      simp only [Option.map_some, beq_iff_eq]
      by_cases hc : p = 0
      · subst hc
        have := hS.1 c c' off (h k (by simp [lookupVariant, variantNth]))
        simp only [if_true, this]
      · simp only [hc, if_false]
        exact readVariantAs_agree rest hS.2 (some (p - 1)) name c c' off (fun k' hk' => h k' (by
          cases p with
          | zero => exact absurd rfl hc
          | succ p => simpa [lookupVariant, variantNth] using hk'))

theorem variantTarget?_enum {byIndex : Bool} {vs : TVariants} {pos : Nat} {name : String} {k : VKind}
    (h : lookupVariant vs (if byIndex then some pos else none) name = some k) :
    variantTarget? (.enum byIndex vs) pos name = some (vkTarget k) := by
  cases byIndex <;> simp only [lookupVariant, Bool.false_eq_true, if_false, if_true] at h <;>
    simp only [variantTarget?, Bool.false_eq_true, if_false, if_true, h] <;> cases k <;> rfl

theorem nth_agree {vt : String → Option Target} : ∀ (fs fs' : ArrUFields) (k j : Nat), variantEq vt fs fs' k j = true →
    fs.length = fs'.length →
    (ArrUFields.nth fs k = none ∧ ArrUFields.nth fs' k = none) ∨
    ∃ fm c fm' c', ArrUFields.nth fs k = some (fm, c) ∧ ArrUFields.nth fs' k = some (fm', c') ∧ fm.name = fm'.name ∧
      ∀ t, vt fm.name = some t → touchEq t c c' j = true
  | .nil, fs', _, _, _, hl => by
    cases fs' with
    | nil => exact Or.inl ⟨rfl, rfl⟩
    | cons _ _ _ _ => simp [ArrUFields.length] at hl
  | .cons _ fm a _, fs', 0, j, h, hl => by
    obtain ⟨tid', fm', a', r', rfl, hn, ha⟩ := variantEq_zero h
    exact Or.inr ⟨_, _, _, _, rfl, rfl, hn, ha⟩
  | .cons _ _ _ r, fs', k + 1, j, h, hl => by
    obtain ⟨tid', fm', a', r', rfl, hr⟩ := variantEq_succ h
    simp only [ArrUFields.nth]
    exact nth_agree r r' k j hr (by simp [ArrUFields.length] at hl; exact hl)

theorem agreeP_enum {byIndex : Bool} {vs : TVariants} (hS : AllV KAgree vs) : AgreeP (.enum byIndex vs) := fun a a' i h => by
  rw [touchEq_plain (by simp [peelTarget]) rfl] at h
  have hkind := touchEqW_kind h
  cases a with
  | union types offs fs =>
    obtain ⟨types', offs', fs', rfl, hh, hlen, hvar⟩ := touchEqW_union h
    unfold readAs
    simp only [unionSelect_congr hh, hlen]
    cases hr : unionSelect Fixes.all types' offs' fs'.length i with
    | error e => rfl
    | ok r =>
      obtain ⟨k, off⟩ := r
      have hr' : unionSelect Fixes.all types offs fs'.length i = .ok (k, off) := (unionSelect_congr hh).trans hr
      obtain ⟨t, o, offv, ht, ho, hoff, h0, h1, hk, hof⟩ := unionSelect_parts hr'
      have hv := hvar t o offv ht ho hoff h0 h1
      rw [← hk, ← hof] at hv
      simp only [bind, Except.bind]
      rcases nth_agree fs fs' k off hv hlen with ⟨hn, hn'⟩ | ⟨fm, c, fm', c', hn, hn', hname, hc⟩
      · simp only [hn, hn']
      · simp only [hn, hn', ← hname]
        exact readVariantAs_agree vs hS _ fm.name c c' off (fun kk hkk => hc _ (variantTarget?_enum hkk))
  | _ => cases a' <;> simp [kind] at hkind <;> (unfold readAs; simp only [stringElem_agree h])

end SaModel.Props.C17
