import SaModel.Lemmas.C18Paths
import SaModel.Lemmas.C01List
/-
C18, path assembly (builder half): `build_builder` stores, in every builder of the tree it creates, the
`.`-separated concatenation of the child names that lead to it — by recursion over the schema.
-/
namespace SaModel.Props.C18
open SaModel SaModel.Build

local macro "leaf_case" h:ident : tactic =>
  `(tactic| (simp only [newDT] at $h:ident; cases $h:ident
             simp [positions, segsDT, positionsAt, render, leafLabel, B.label, intTyLabel]))

theorem mkStruct_positions {path : String} {bl : BL} {nullable : Bool} {b : B} (h : mkStruct path bl nullable = .ok b) :
    positions b = (path, "Struct(..)") :: positionsL bl := by
  unfold mkStruct at h
  split at h
  · simp [fail] at h
  · cases h; simp [positions]

mutual
theorem newDT_positions : ∀ (dt : DataType) (path : String) (nullable : Bool) (md : Metadata) (b : B),
    newDT path dt nullable md = .ok b → positions b = positionsAt path (segsDT dt md)
  | .null, path, nullable, md, b, h => by
    simp only [newDT] at h
    split at h <;> cases h <;> simp_all [positions, segsDT, positionsAt, render, leafLabel, B.label]
  | .boolean, path, nullable, md, b, h => by leaf_case h
  | .int8, path, nullable, md, b, h => by leaf_case h
  | .int16, path, nullable, md, b, h => by leaf_case h
  | .int32, path, nullable, md, b, h => by leaf_case h
  | .int64, path, nullable, md, b, h => by leaf_case h
  | .uint8, path, nullable, md, b, h => by leaf_case h
  | .uint16, path, nullable, md, b, h => by leaf_case h
  | .uint32, path, nullable, md, b, h => by leaf_case h
  | .uint64, path, nullable, md, b, h => by leaf_case h
  | .float16, path, nullable, md, b, h => by leaf_case h
  | .float32, path, nullable, md, b, h => by leaf_case h
  | .float64, path, nullable, md, b, h => by leaf_case h
  | .date32, path, nullable, md, b, h => by leaf_case h
  | .date64, path, nullable, md, b, h => by leaf_case h
  | .utf8, path, nullable, md, b, h => by leaf_case h
  | .largeUtf8, path, nullable, md, b, h => by leaf_case h
  | .utf8View, path, nullable, md, b, h => by leaf_case h
  | .binary, path, nullable, md, b, h => by leaf_case h
  | .largeBinary, path, nullable, md, b, h => by leaf_case h
  | .binaryView, path, nullable, md, b, h => by leaf_case h
  | .duration u, path, nullable, md, b, h => by leaf_case h
  | .timestamp u tz, path, nullable, md, b, h => by
    simp only [newDT] at h
    obtain ⟨utc, _, h⟩ := (bind_ok _ _ _).1 h
    cases h; simp [positions, segsDT, positionsAt, render, leafLabel, B.label]
  | .time32 u, path, nullable, md, b, h => by
    simp only [newDT] at h
    split at h
    · cases h; simp [positions, segsDT, positionsAt, render, leafLabel, B.label]
    · simp [ctx_ok, fail] at h
  | .time64 u, path, nullable, md, b, h => by
    simp only [newDT] at h
    split at h
    · cases h; simp [positions, segsDT, positionsAt, render, leafLabel, B.label]
    · simp [ctx_ok, fail] at h
  | .decimal128 p s, path, nullable, md, b, h => by
    simp only [newDT] at h
    split at h
    · cases h; simp [positions, segsDT, positionsAt, render, leafLabel, B.label]
    · simp [ctx_ok, fail] at h
  | .fixedSizeBinary n, path, nullable, md, b, h => by
    simp only [newDT] at h
    split at h
    · simp [ctx_ok, fail] at h
    · cases h; simp [positions, segsDT, positionsAt, render, leafLabel, B.label]
  | .list child, path, nullable, md, b, h => by
    simp only [newDT] at h
    obtain ⟨el, h1, h⟩ := (bind_ok _ _ _).1 h
    cases h
    have ih := newB_positions child _ el h1
    simp only [positions, segsDT, positionsAt_cons, positionsAt_under, ih, leafLabel]
    simp [render]
  | .largeList child, path, nullable, md, b, h => by
    simp only [newDT] at h
    obtain ⟨el, h1, h⟩ := (bind_ok _ _ _).1 h
    cases h
    have ih := newB_positions child _ el h1
    simp only [positions, segsDT, positionsAt_cons, positionsAt_under, ih, leafLabel]
    simp [render]
  | .fixedSizeList child n, path, nullable, md, b, h => by
    simp only [newDT] at h
    split at h
    · simp [ctx_ok, fail] at h
    · obtain ⟨el, h1, h⟩ := (bind_ok _ _ _).1 h
      cases h
      have ih := newB_positions child _ el h1
      simp only [positions, segsDT, positionsAt_cons, positionsAt_under, ih, leafLabel]
      simp [render]
  | .map (.mk _ (.struct (.cons _ (.cons _ (.cons _ _)))) _ _) _, path, nullable, md, b, h => by simp [newDT, fail] at h
  | .map (.mk _ (.struct (.cons _ (.cons _ .nil))) true _) _, path, nullable, md, b, h => by simp [newDT, ctx_ok, fail] at h
  | .map (.mk ename (.struct (.cons kf (.cons vf .nil))) false emd) sorted, path, nullable, md, b, h => by
    simp only [newDT] at h
    obtain ⟨kb, h1, h⟩ := (bind_ok _ _ _).1 h
    obtain ⟨vb, h2, h⟩ := (bind_ok _ _ _).1 h
    cases h
    have ih1 := newB_positions kf _ kb h1
    have ih2 := newB_positions vf _ vb h2
    simp only [positions, segsDT, positionsAt_cons, positionsAt_append, positionsAt_under, ih1, ih2]
    simp [render]
  | .map (.mk _ (.struct .nil) _ _) _, path, nullable, md, b, h => by simp [newDT, fail] at h
  | .map (.mk _ (.struct (.cons _ .nil)) _ _) _, path, nullable, md, b, h => by simp [newDT, fail] at h
  | .map (.mk _ .null _ _) _, _, _, _, _, h => by simp [newDT, fail] at h
  | .map (.mk _ .boolean _ _) _, _, _, _, _, h => by simp [newDT, fail] at h
  | .map (.mk _ .int8 _ _) _, _, _, _, _, h => by simp [newDT, fail] at h
  | .map (.mk _ .int16 _ _) _, _, _, _, _, h => by simp [newDT, fail] at h
  | .map (.mk _ .int32 _ _) _, _, _, _, _, h => by simp [newDT, fail] at h
  | .map (.mk _ .int64 _ _) _, _, _, _, _, h => by simp [newDT, fail] at h
  | .map (.mk _ .uint8 _ _) _, _, _, _, _, h => by simp [newDT, fail] at h
  | .map (.mk _ .uint16 _ _) _, _, _, _, _, h => by simp [newDT, fail] at h
  | .map (.mk _ .uint32 _ _) _, _, _, _, _, h => by simp [newDT, fail] at h
  | .map (.mk _ .uint64 _ _) _, _, _, _, _, h => by simp [newDT, fail] at h
  | .map (.mk _ .float16 _ _) _, _, _, _, _, h => by simp [newDT, fail] at h
  | .map (.mk _ .float32 _ _) _, _, _, _, _, h => by simp [newDT, fail] at h
  | .map (.mk _ .float64 _ _) _, _, _, _, _, h => by simp [newDT, fail] at h
  | .map (.mk _ .utf8 _ _) _, _, _, _, _, h => by simp [newDT, fail] at h
  | .map (.mk _ .largeUtf8 _ _) _, _, _, _, _, h => by simp [newDT, fail] at h
  | .map (.mk _ .utf8View _ _) _, _, _, _, _, h => by simp [newDT, fail] at h
  | .map (.mk _ .binary _ _) _, _, _, _, _, h => by simp [newDT, fail] at h
  | .map (.mk _ .largeBinary _ _) _, _, _, _, _, h => by simp [newDT, fail] at h
  | .map (.mk _ .binaryView _ _) _, _, _, _, _, h => by simp [newDT, fail] at h
  | .map (.mk _ (.fixedSizeBinary _) _ _) _, _, _, _, _, h => by simp [newDT, fail] at h
  | .map (.mk _ .date32 _ _) _, _, _, _, _, h => by simp [newDT, fail] at h
  | .map (.mk _ .date64 _ _) _, _, _, _, _, h => by simp [newDT, fail] at h
  | .map (.mk _ (.timestamp _ _) _ _) _, _, _, _, _, h => by simp [newDT, fail] at h
  | .map (.mk _ (.time32 _) _ _) _, _, _, _, _, h => by simp [newDT, fail] at h
  | .map (.mk _ (.time64 _) _ _) _, _, _, _, _, h => by simp [newDT, fail] at h
  | .map (.mk _ (.duration _) _ _) _, _, _, _, _, h => by simp [newDT, fail] at h
  | .map (.mk _ (.interval _) _ _) _, _, _, _, _, h => by simp [newDT, fail] at h
  | .map (.mk _ (.decimal128 _ _) _ _) _, _, _, _, _, h => by simp [newDT, fail] at h
  | .map (.mk _ (.list _) _ _) _, _, _, _, _, h => by simp [newDT, fail] at h
  | .map (.mk _ (.largeList _) _ _) _, _, _, _, _, h => by simp [newDT, fail] at h
  | .map (.mk _ (.fixedSizeList _ _) _ _) _, _, _, _, _, h => by simp [newDT, fail] at h
  | .map (.mk _ (.map _ _) _ _) _, _, _, _, _, h => by simp [newDT, fail] at h
  | .map (.mk _ (.dictionary _ _) _ _) _, _, _, _, _, h => by simp [newDT, fail] at h
  | .map (.mk _ (.runEndEncoded _ _) _ _) _, _, _, _, _, h => by simp [newDT, fail] at h
  | .map (.mk _ (.union _ _) _ _) _, _, _, _, _, h => by simp [newDT, fail] at h
  | .struct fs, path, nullable, md, b, h => by
    simp only [newDT] at h
    obtain ⟨bl, h1, h⟩ := (bind_ok _ _ _).1 h
    rw [mkStruct_positions h, newFields_positions fs path bl h1]
    simp [segsDT, positionsAt_cons, render]
  | .dictionary k v, path, nullable, md, b, h => by
    simp only [newDT] at h
    split at h
    case isFalse => simp [ctx_ok, fail] at h
    obtain ⟨kb, h1, h⟩ := (bind_ok _ _ _).1 h
    obtain ⟨vb, h2, h⟩ := (bind_ok _ _ _).1 h
    cases h
    have ih1 := newDT_positions k _ _ _ kb h1
    have ih2 := newDT_positions v _ _ _ vb h2
    have e1 : path ++ "." ++ "key" = path ++ ".key" := by rw [String.append_assoc]; rfl
    have e2 : path ++ "." ++ "value" = path ++ ".value" := by rw [String.append_assoc]; rfl
    simp only [positions, segsDT, positionsAt_cons, positionsAt_append, positionsAt_under, ih1, ih2]
    simp [render, e1, e2]
  | .union _ .sparse, path, nullable, md, b, h => by simp [newDT, ctx_ok, fail] at h
  | .union fs .dense, path, nullable, md, b, h => by
    simp only [newDT] at h
    obtain ⟨bl, h1, h⟩ := (bind_ok _ _ _).1 h
    cases h
    simp only [positions, newUnionFields_positions fs path 0 bl h1]
    simp [segsDT, positionsAt_cons, render]
  | .interval _, path, nullable, md, b, h => by simp [newDT, fail] at h
  | .runEndEncoded _ _, path, nullable, md, b, h => by simp [newDT, fail] at h
theorem newB_positions : ∀ (f : Field) (path : String) (b : B), newB path f = .ok b →
    positions b = positionsAt path (segsF f)
  | .mk _ dt nullable md, path, b, h => by
    simp only [newB] at h; simp only [segsF]; exact newDT_positions dt path nullable md b h
theorem newFields_positions : ∀ (fs : Fields) (path : String) (bl : BL), newFields path fs = .ok bl →
    positionsL bl = positionsAt path (segsFs fs)
  | .nil, path, bl, h => by simp only [newFields] at h; cases h; simp [positionsL, segsFs, positionsAt]
  | .cons f rest, path, bl, h => by
    simp only [newFields] at h
    obtain ⟨b, h1, h⟩ := (bind_ok _ _ _).1 h
    obtain ⟨r, h2, h⟩ := (bind_ok _ _ _).1 h
    cases h
    simp only [positionsL, segsFs, positionsAt_append, positionsAt_under, newB_positions f _ b h1,
      newFields_positions rest path r h2]
    simp [render]
theorem newUnionFields_positions : ∀ (fs : UFields) (path : String) (idx : Nat) (bl : BL),
    newUnionFields path fs idx = .ok bl → positionsL bl = positionsAt path (segsU fs)
  | .nil, path, idx, bl, h => by simp only [newUnionFields] at h; cases h; simp [positionsL, segsU, positionsAt]
  | .cons tid f rest, path, idx, bl, h => by
    simp only [newUnionFields] at h
    split at h
    · simp [ctx_ok, fail] at h
    · obtain ⟨b, h1, h⟩ := (bind_ok _ _ _).1 h
      obtain ⟨r, h2, h⟩ := (bind_ok _ _ _).1 h
      cases h
      simp only [positionsL, segsU, positionsAt_append, positionsAt_under, newB_positions f _ b h1,
        newUnionFields_positions rest path (idx + 1) r h2]
      simp [render]
end

theorem newRoot_positions {fields : List Field} {root : B} (h : newRoot fields = .ok root) :
    positions root = positionsAt "$" (segsDT (.struct (Fields.ofList fields)) []) := by
  simp only [newRoot] at h
  obtain ⟨bl, h1, h⟩ := (bind_ok _ _ _).1 h
  rw [mkStruct_positions h, newFields_positions _ _ bl h1]
  simp [segsDT, positionsAt_cons, render]

end SaModel.Props.C18
