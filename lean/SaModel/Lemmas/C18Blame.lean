import SaModel.Lemmas.C18OwnPush
import SaModel.Lemmas.C18Assembled
import SaModel.Lemmas.C01CompSmall
import SaModel.Lemmas.C01ObsComp
import SaModel.Props.C01Obs
import SaModel.Lemmas.C18SpecBridge
/-
C18, blame against the SPECIFICATION (`Spec.blameDT`): vocabulary.

  `Bl S r`            if `r` is an annotated error, its `field` is one of the paths in `S` (without exception: a `None`
                      for a non-nullable dictionary column is refused by the dictionary builder itself, under the
                      column's path, not by its key builder under `{p}.key` — repo fix ca6f255)
  `At path dt n md b` `b` is a (later) state of the builder `build_builder` creates at `path` for a field of type `dt`
  `Kids…`             the children of a struct / union state, each `GoodH` and `At` its own path
-/
namespace SaModel.Props.C18
open SaModel SaModel.Build SaModel.Spec

def Bl (S : List String) {α} (r : R α) : Prop :=
  ∀ msg a, r = .error (.errCtx msg a) → ∃ p ∈ S, a.lookup "field" = some p

theorem NoCtx.bl {α} {S : List String} (r : R α) [h : NoCtx r] : Bl S r :=
  fun msg a e => absurd e (h.out msg a)

theorem Bl.of_ok {α} {S : List String} (v : α) : Bl S (.ok v : R α) := fun _ _ h => by cases h

theorem Bl.of_eq_ok {α} {S : List String} {r : R α} {v : α} (h : r = .ok v) : Bl S r := h ▸ Bl.of_ok v

theorem Bl.mono {α} {S S' : List String} {r : R α} (hs : ∀ q ∈ S, q ∈ S') (h : Bl S r) : Bl S' r :=
  fun msg a e => let ⟨p, hp, ha⟩ := h msg a e; ⟨p, hs p hp, ha⟩

theorem Bl.bind {α β} {S : List String} {r : R α} {f : α → R β} (hr : Bl S r)
    (hf : ∀ v, r = .ok v → Bl S (f v)) : Bl S (r >>= f) := by
  intro msg a e
  cases r with
  | ok v => exact hf v rfl msg a e
  | error x => exact hr msg a (by simpa [Bind.bind, Except.bind] using e)

/-- the wrapper of builder `b`: a plain error of the body becomes `b`'s — allowed when `b`'s path is in `S` -/
theorem Bl.ctx_own {α} {S : List String} {r : R α} (b : B) (hown : ∀ msg, r = .error (.err msg) → b.path ∈ S)
    (h : Bl S r) : Bl S (ctx b.ann r) := by
  intro msg a e
  cases r with
  | ok v => cases e
  | error f =>
    cases f with
    | err m =>
      simp [SaModel.ctx, B.ann] at e
      exact ⟨b.path, hown m rfl, by rw [← e.2]; rfl⟩
    | panic s => cases e
    | errCtx m a' => exact h msg a e

theorem Bl.ctx_self {α} {S : List String} {r : R α} (b : B) (hp : b.path ∈ S) (h : Bl S r) : Bl S (ctx b.ann r) :=
  Bl.ctx_own b (fun _ _ => hp) h

theorem mem_self {p : String} : ∀ q ∈ [p], q ∈ [p] := fun _ h => h

/-! ### `At`: which schema position a builder state belongs to -/

def At (path : String) (dt : DataType) (n : Bool) (md : Metadata) (b : B) : Prop :=
  ∃ b0, newDT path dt n md = .ok b0 ∧ takeRest b = takeRest b0

theorem path_takeRest (b : B) : (takeRest b).path = b.path := by cases b <;> rfl

theorem newDT_path' (dt : DataType) (path : String) (nullable : Bool) (md : Metadata) (b : B)
    (h : newDT path dt nullable md = .ok b) : b.path = path := by
  have hp := newDT_positions dt path nullable md b h
  obtain ⟨rest, hr⟩ := positions_head b
  rw [hr] at hp
  have hs : ∃ l r, segsDT dt md = ([], l) :: r := by
    cases dt <;> first
      | exact ⟨_, _, by simp only [segsDT]; rfl⟩
      | (rename_i e s; obtain ⟨en, edt, enl, emd⟩ := e
         cases edt <;> first
          | exact ⟨_, _, by simp only [segsDT]; rfl⟩
          | (rename_i fs; cases fs with
             | nil => exact ⟨_, _, by simp only [segsDT]; rfl⟩
             | cons kf r => cases r with
               | nil => exact ⟨_, _, by simp only [segsDT]; rfl⟩
               | cons vf r2 => exact ⟨_, _, by simp only [segsDT]; rfl⟩))
  obtain ⟨l, r, hs⟩ := hs
  rw [hs] at hp
  simp only [positionsAt, List.map_cons, render_nil, List.cons.injEq, Prod.mk.injEq] at hp
  exact hp.1.1

theorem At.path {path dt n md b} (h : At path dt n md b) : b.path = path := by
  obtain ⟨b0, h0, ht⟩ := h
  rw [← path_takeRest b, ht, path_takeRest, newDT_path' dt path n md b0 h0]

theorem At.of_takeRest {path dt n md b b'} (ht : takeRest b' = takeRest b) (h : At path dt n md b) : At path dt n md b' := by
  obtain ⟨b0, h0, h1⟩ := h
  exact ⟨b0, h0, ht.trans h1⟩

theorem At.push {ext : Ext} {x : SVal} {path dt n md b b'} (h : At path dt n md b) (hp : push ext b x = .ok b') :
    At path dt n md b' := h.of_takeRest (push_takeRest ext x b b' hp)

theorem At.fresh {path dt n md b} (h : newDT path dt n md = .ok b) : At path dt n md b := ⟨b, h, rfl⟩

theorem At.list {path cn cdt cnl cmd n md p large fm v offs el}
    (h : At path (.list (.mk cn cdt cnl cmd)) n md (.list p large fm v offs el) ∨
      At path (.largeList (.mk cn cdt cnl cmd)) n md (.list p large fm v offs el)) :
    At (path ++ "." ++ childName cn) cdt cnl cmd el := by
  rcases h with ⟨b0, h0, ht⟩ | ⟨b0, h0, ht⟩
  all_goals
    simp only [newDT, newB] at h0
    obtain ⟨el0, hel0, h0⟩ := (Build.bind_ok _ _ _).1 h0
    cases h0
    simp only [takeRest, B.list.injEq] at ht
    exact ⟨el0, hel0, ht.2.2.2.2.2⟩

theorem At.fixedSizeList {path cn cdt cnl cmd k n md p fm m len v cur el}
    (h : At path (.fixedSizeList (.mk cn cdt cnl cmd) k) n md (.fixedSizeList p fm m len v cur el)) :
    At (path ++ "." ++ childName cn) cdt cnl cmd el := by
  obtain ⟨b0, h0, ht⟩ := h
  simp only [newDT, newB] at h0
  split at h0
  · simp [SaModel.ctx, SaModel.fail] at h0
  · obtain ⟨el0, hel0, h0⟩ := (Build.bind_ok _ _ _).1 h0
    cases h0
    simp only [takeRest, B.fixedSizeList.injEq] at ht
    exact ⟨el0, hel0, ht.2.2.2.2.2.2⟩

/-- struct children: child `j` is `GoodH` for field `j` and sits at `{path}.{name j}` (raw name) -/
def Kids (path : String) : BL → Fields → Prop
  | .nil, .nil => True
  | .cons b m r, .cons (.mk fname fdt fn fmd) rest =>
    m.name = fname ∧ m.nullable = fn ∧ GoodH b fdt fn fmd ∧ At (path ++ "." ++ fname) fdt fn fmd b ∧ Kids path r rest
  | .nil, .cons _ _ => False
  | .cons _ _ _, .nil => False

/-- union children: through `ChildName` -/
def KidsU (path : String) : BL → UFields → Prop
  | .nil, .nil => True
  | .cons b _ r, .cons _ (.mk fname fdt fn fmd) rest =>
    GoodH b fdt fn fmd ∧ At (path ++ "." ++ childName fname) fdt fn fmd b ∧ KidsU path r rest
  | .nil, .cons _ _ _ => False
  | .cons _ _ _, .nil => False

theorem newFields_at (path : String) : ∀ (sfs : Fields) (bl0 : BL) (fs : BL), newFields path sfs = .ok bl0 →
    takeRestAll fs = takeRestAll bl0 → ∀ (len : Nat), WFHL fs len → NoDictKeyL fs → ShapeL fs sfs → totalFs sfs = true →
    Kids path fs sfs
  | .nil, bl0, fs, h0, ht, _, _, _, hsl, _ => by
    cases fs with
    | nil => trivial
    | cons _ _ _ => simp [ShapeL] at hsl
  | .cons (.mk fname fdt fn fmd) rest, bl0, fs, h0, ht, len, hw, hs, hsl, htot => by
    cases fs with
    | nil => simp [ShapeL] at hsl
    | cons b m r =>
      simp only [newFields, newB] at h0
      obtain ⟨b0, hb0, h0⟩ := (Build.bind_ok _ _ _).1 h0
      obtain ⟨r0, hr0, h0⟩ := (Build.bind_ok _ _ _).1 h0
      cases h0
      simp only [takeRestAll, BL.cons.injEq] at ht
      simp only [ShapeL] at hsl
      simp only [WFHL] at hw
      simp only [NoDictKeyL] at hs
      simp only [totalFs, totalF, Bool.and_eq_true] at htot
      exact ⟨hsl.1, hsl.2.1, ⟨hw.1, hs.1, hsl.2.2.1, htot.1⟩, ⟨b0, hb0, ht.1⟩,
        newFields_at path rest r0 r hr0 ht.2.2 len hw.2.2 hs.2 hsl.2.2.2 htot.2⟩

theorem Kids.get {path : String} : ∀ {fs : BL} {sfs : Fields} {j : Nat} {c : B} {m : FieldMeta}, Kids path fs sfs →
    fs.get? j = some (c, m) → ∃ f, sfs.toList[j]? = some f ∧ m.name = f.name ∧ m.nullable = f.nullable ∧
      GoodH c f.dataType f.nullable f.metadata ∧ At (path ++ "." ++ f.name) f.dataType f.nullable f.metadata c
  | .nil, _, _, _, _, _, h => by simp [BL.get?] at h
  | .cons b m r, .nil, _, _, _, hk, _ => by simp [Kids] at hk
  | .cons b m r, .cons (.mk fname fdt fn fmd) rest, 0, c, m', hk, h => by
    simp only [BL.get?, Option.some.injEq, Prod.mk.injEq] at h
    obtain ⟨rfl, rfl⟩ := h
    simp only [Kids] at hk
    exact ⟨.mk fname fdt fn fmd, by simp [Fields.toList], hk.1, hk.2.1, hk.2.2.1, hk.2.2.2.1⟩
  | .cons b m r, .cons (.mk fname fdt fn fmd) rest, j + 1, c, m', hk, h => by
    simp only [BL.get?] at h
    simp only [Kids] at hk
    obtain ⟨f, hf, h1⟩ := Kids.get hk.2.2.2.2 h
    exact ⟨f, by simpa [Fields.toList] using hf, h1⟩

theorem Kids.set {path : String} : ∀ {fs : BL} {sfs : Fields} {j : Nat} {c c' : B} {m : FieldMeta} {f : Field},
    Kids path fs sfs → fs.get? j = some (c, m) → sfs.toList[j]? = some f →
    GoodH c' f.dataType f.nullable f.metadata → At (path ++ "." ++ f.name) f.dataType f.nullable f.metadata c' →
    Kids path (fs.set j c') sfs
  | .nil, _, _, _, _, _, _, _, h, _, _, _ => by simp [BL.get?] at h
  | .cons b m r, .nil, _, _, _, _, _, hk, _, _, _, _ => by simp [Kids] at hk
  | .cons b m r, .cons (.mk fname fdt fn fmd) rest, 0, c, c', m', f, hk, h, hf, hg, ha => by
    simp only [Fields.toList, List.getElem?_cons_zero, Option.some.injEq] at hf
    subst hf
    simp only [Kids] at hk
    simp only [BL.set, Kids]
    exact ⟨hk.1, hk.2.1, hg, ha, hk.2.2.2.2⟩
  | .cons b m r, .cons (.mk fname fdt fn fmd) rest, j + 1, c, c', m', f, hk, h, hf, hg, ha => by
    simp only [BL.get?] at h
    simp only [Kids] at hk
    simp only [BL.set, Kids]
    exact ⟨hk.1, hk.2.1, hk.2.2.1, hk.2.2.2.1, Kids.set hk.2.2.2.2 h (by simpa [Fields.toList] using hf) hg ha⟩

theorem Kids.names {path : String} : ∀ {fs : BL} {sfs : Fields}, Kids path fs sfs → fs.names = sfs.toList.map Field.name
  | .nil, .nil, _ => rfl
  | .nil, .cons _ _, h => by simp [Kids] at h
  | .cons _ _ _, .nil, h => by simp [Kids] at h
  | .cons b m r, .cons (.mk fname fdt fn fmd) rest, h => by
    simp only [Kids] at h
    simp only [BL.names, Fields.toList, List.map_cons, h.1, Kids.names h.2.2.2.2]; rfl

/-- the struct state of `GoodH` / `At`: children -/
theorem At.struct_kids {path sfs n md p len v fs cached next seen}
    (hg : GoodH (.struct p len v fs cached next seen) (.struct sfs) n md)
    (h : At path (.struct sfs) n md (.struct p len v fs cached next seen)) : Kids path fs sfs := by
  obtain ⟨b0, h0, ht⟩ := h
  simp only [newDT] at h0
  obtain ⟨bl0, hbl0, h0⟩ := (Build.bind_ok _ _ _).1 h0
  simp only [mkStruct] at h0
  split at h0
  · simp [SaModel.fail] at h0
  · cases h0
    simp only [takeRest, B.struct.injEq] at ht
    have hw := hg.wf
    simp only [WFH] at hw
    have hs := hg.nd
    simp only [NoDictKey] at hs
    have hsh := hg.shape
    simp only [Shape] at hsh
    obtain ⟨_, sfs', he, hsl⟩ := hsh
    cases he
    have htot := hg.tot
    simp only [total, Bool.and_eq_true] at htot
    exact newFields_at path sfs bl0 fs hbl0 ht.2.2.2.1 len hw.2.1 hs hsl htot.1

end SaModel.Props.C18
