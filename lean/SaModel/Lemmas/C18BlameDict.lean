import SaModel.Lemmas.C18BlameMap
/-
C18, blame against the specification: a scalar call on a DICTIONARY column (`Spec.blameScalarAt`).

A dictionary builder hands every scalar that has a string form to its VALUE builder (`self.values.serialize_str(..)`),
whose own wrapper annotates what it refuses: the value child `{path}.value` is the innermost field being processed and
the one the specification blames.  A call without a string form is refused by the dictionary's own code: `{path}`.
Under `Shape` (the coverage of the C01 completeness theorems) the value builder is a Utf8 / LargeUtf8 builder — every
string has a meaning, nothing to blame — or a builder that takes no strings at all (`B.refusesStr`).
-/
namespace SaModel.Props.C18
open SaModel SaModel.Build SaModel.Spec

theorem At.dictionary_value {path kdt vdt n md p idx vals index}
    (h : At path (.dictionary kdt vdt) n md (.dictionary p idx vals index)) : vals.path = path ++ ".value" := by
  obtain ⟨b0, h0, ht⟩ := h
  simp only [newDT] at h0
  split at h0
  case isFalse => simp [SaModel.ctx, SaModel.fail] at h0
  obtain ⟨kb, hkb, h0⟩ := (Build.bind_ok _ _ _).1 h0
  obtain ⟨vb, hvb, h0⟩ := (Build.bind_ok _ _ _).1 h0
  cases h0
  simp only [takeRest, B.dictionary.injEq] at ht
  rw [← path_takeRest vals, ht.2.2.1, path_takeRest, newDT_path' _ _ _ _ _ hvb]

/-- the builder of a dictionary-typed field is a dictionary builder -/
theorem Shape_not_dict {b : B} {dt : DataType} {n : Bool} {md : Metadata} (hs : Shape b dt n md) (hb : b.isDict = false) :
    ∀ (p : String), blameDictStr p dt = p := by
  intro p
  cases b with
  | dictionary _ _ _ _ => simp [B.isDict] at hb
  | null _ _ => simp only [Shape] at hs; obtain ⟨rfl, _⟩ := hs; rfl
  | unknownVariant _ => simp only [Shape] at hs; obtain ⟨rfl, _⟩ := hs; rfl
  | leaf _ k _ _ =>
    simp only [Shape] at hs
    cases dt <;> first | rfl | (simp [kindOf] at hs)
  | bytes _ ty _ _ _ => simp only [Shape] at hs; obtain ⟨rfl, _⟩ := hs; cases ty <;> rfl
  | bytesView _ ty _ _ _ => simp only [Shape] at hs; obtain ⟨rfl, _⟩ := hs; cases ty <;> rfl
  | fixedSizeBinary _ _ _ _ _ _ => simp only [Shape] at hs; obtain ⟨rfl, _⟩ := hs; rfl
  | list _ large _ _ _ _ =>
    simp only [Shape] at hs
    obtain ⟨_, _, _, _, _, rfl, _⟩ := hs
    cases large <;> rfl
  | fixedSizeList _ _ _ _ _ _ _ => simp only [Shape] at hs; obtain ⟨_, _, _, _, _, rfl, _⟩ := hs; rfl
  | map _ _ _ _ _ _ =>
    simp only [Shape] at hs
    obtain ⟨_, _, _, _, _, _, _, _, _, _, _, _, _, _, rfl, _⟩ := hs
    rfl
  | struct _ _ _ _ _ _ _ => simp only [Shape] at hs; obtain ⟨_, _, rfl, _⟩ := hs; rfl
  | union _ _ _ _ _ => simp only [Shape] at hs; obtain ⟨_, _, rfl, _⟩ := hs; rfl

theorem Shape_dict_form {b : B} {k v : DataType} {n : Bool} {md : Metadata}
    (h : Shape b (.dictionary k v) n md) : ∃ p idx vals index, b = .dictionary p idx vals index := by
  cases b with
  | dictionary p idx vals index => exact ⟨_, _, _, _, rfl⟩
  | bytes _ ty _ _ _ => cases ty <;> simp [Shape, bytesDT] at h
  | bytesView _ ty _ _ _ => cases ty <;> simp [Shape, viewDT] at h
  | list _ large _ _ _ _ => cases large <;> simp [Shape] at h
  | _ => simp [Shape, kindOf] at h

/-- outside dictionary columns a scalar call is blamed on the column -/
theorem blameScalarAt_of_not_dict {ext : Ext} {b : B} {path : String} {dt : DataType} {n : Bool} {md : Metadata} {x : SVal}
    (hs : Shape b dt n md) (hb : b.isDict = false) : blameScalarAt ext path dt x = [path] := by
  cases dt
  case dictionary k v => obtain ⟨_, _, _, _, rfl⟩ := Shape_dict_form hs; simp [B.isDict] at hb
  all_goals rfl

/-- a call without a string form (`None`, unit, bytes, …) is blamed on the column, dictionary or not -/
theorem blameScalarAt_of_nostr {ext : Ext} {path : String} {dt : DataType} {x : SVal}
    (h : scalarToString ext x = none) : blameScalarAt ext path dt x = [path] := by
  cases dt <;> simp [blameScalarAt_old, h]

/-- a scalar call without a string form never reaches a child builder: no annotated error -/
theorem pushScalar_nostr_noctx (ext : Ext) [ExtPlain ext] (b : B) (x : SVal) (h : scalarToString ext x = none) :
    NoCtx (pushScalar ext b x) := by
  cases b with
  | dictionary p idx vals index => unfold pushScalar; simp only [h]; infer_instance
  | _ => exact pushScalar_noctx ext _ x rfl

/-- every integer has a string form: the blame of an integer call does not depend on the integer -/
theorem blameScalarAt_int {ext : Ext} {path : String} {dt : DataType} (t t' : IntTy) (v v' : Int) :
    blameScalarAt ext path dt (.int t v) = blameScalarAt ext path dt (.int t' v') := by
  cases dt <;> simp [blameScalarAt_old, scalarToString]

/-- into a dictionary column with string values every byte (as `serialize_u8`) has a meaning -/
theorem mapM_interp_dict_utf8 {ext : Ext} {kdt vdt : DataType} {vals : B} {n : Bool} {md : Metadata}
    (hsv : Shape vals vdt n md) (hu : vals.isUtf8B = true) : ∀ (bs : Bytes),
    ∃ ls, bs.mapM (fun x => interpScalar ext (.dictionary kdt vdt) (.int .u8 x.toNat)) = .ok ls
  | [] => ⟨[], rfl⟩
  | x :: r => by
    obtain ⟨ls, h⟩ := mapM_interp_dict_utf8 (ext := ext) (kdt := kdt) hsv hu r
    refine ⟨.str (strBytes (toString ((x.toNat : Nat) : Int))) :: ls, ?_⟩
    rw [List.mapM_cons, interpScalar_dict_utf8 hsv hu, h]
    rfl

theorem refusesStr_not_dict {b : B} (h : b.refusesStr = true) : b.isDict = false := by
  cases b <;> first | rfl | (simp [B.refusesStr] at h)

/-- **a scalar call on a dictionary column**: the specification's `blameScalarAt` covers every annotated error — the
dictionary itself for a call without a string form, the value child for a string the value type does not take -/
theorem dict_scalar_bl {ext : Ext} [ExtPlain ext] {x : SVal} {p : String} {idx vals : B} {index : List String}
    {path : String} {kdt vdt : DataType} {n : Bool} {md : Metadata}
    (hg : GoodH (.dictionary p idx vals index) (.dictionary kdt vdt) n md)
    (ha : At path (.dictionary kdt vdt) n md (.dictionary p idx vals index))
    (hi : (interpScalar ext (.dictionary kdt vdt) x).isOk = false) :
    Bl (blameScalarAt ext path (.dictionary kdt vdt) x)
      (ctx (B.dictionary p idx vals index).ann (pushScalar ext (.dictionary p idx vals index) x)) := by
  have hsh := hg.shape
  simp only [Shape] at hsh
  obtain ⟨⟨kdt', vdt', heq, hsv⟩, hil, _, hu⟩ := hsh
  cases heq
  have hw := hg.wf
  simp only [WFH] at hw
  have hdv : DictVals vals index := hw.2.2.2.2.2.1
  have hvp := ha.dictionary_value
  simp only [blameScalarAt_old]
  cases hs : scalarToString ext x with
  | none =>
    simp only
    unfold pushScalar
    simp only [hs]
    exact Bl.ctx_self _ (by rw [ha.path]; exact List.mem_singleton.2 rfl) (NoCtx.bl _)
  | some s =>
    simp only
    rcases hu with hu | hr
    · rw [interpScalar_dict_utf8 hsv hu, hs] at hi
      cases hi
    · have hnd := refusesStr_not_dict hr
      rw [Shape_not_dict hsv hnd]
      have hidx : index = [] := hdv.2 hr
      subst hidx
      have hval : Bl [path ++ ".value"] (ctx vals.ann (pushScalar ext vals (.str s))) :=
        Bl.ctx_self vals (by rw [hvp]; exact List.mem_singleton.2 rfl)
          (@NoCtx.bl _ _ _ (pushScalar_noctx ext vals _ hnd))
      have hnok : ∀ v, ctx vals.ann (pushScalar ext vals (.str s)) ≠ .ok v := fun v hv =>
        pushScalar_refusesStr ext hr ((ctx_eq_ok _ _ _).1 hv)
      unfold pushScalar
      simp only [hs, indexOfName, indexOfName.go]
      refine Bl.ctx_own _ (fun msg hm => ?_) (Bl.bind hval fun v hv => absurd hv (hnok v))
      rcases bind_err_plain hm with h | ⟨v, hv, _⟩
      · rw [ann_eq_posAnn] at h; exact absurd h (ctx_never_plain _ _ _)
      · exact absurd hv (hnok v)

end SaModel.Props.C18
