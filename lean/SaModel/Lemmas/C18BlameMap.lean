import SaModel.Lemmas.C18BlameRows
/-
C18, blame against the specification: `serialize_map` on every builder family — a map into a struct builder (entries
by key, a key that is not a string is the struct's own failure), into a map builder (keys and values below the entries
name; the map itself fails only on the offset overflow `NoCap` excludes), refused by every other builder.
-/
namespace SaModel.Props.C18
open SaModel SaModel.Build SaModel.Spec

/-- the body of `push b (.map es)` below the `.ctx(self)` wrapper -/
def mapWith (ext : Ext) (es : SEntries) : B → R B
  | .struct p len v fs cached next seen => do
    let s ← SS.start ⟨p, len, v, fs, cached, next, seen⟩
    let s ← pushStructEntries ext { s with next := UNKNOWN_KEY } es
    let s ← s.finishRow
    pure s.toB
  | .map p mm v offs ks vs => do
    let v' ← setValidity v (offs.length - 1) true
    let offs' ← duplicateLast offs
    let (offs'', ks', vs') ← pushMapEntries ext offs' ks vs es
    pure (.map p mm v' offs'' ks' vs')
  | .unknownVariant _ => fail "Unknown variant does not support serialize_map_start"
  | _ => notSupported "serialize_map_start"

theorem push_map_eq (ext : Ext) (b : B) (es : SEntries) : push ext b (.map es) = ctx b.ann (mapWith ext es b) := by
  cases b <;> simp only [push, mapWith]

def mapS (ext : Ext) (path : String) (dt : DataType) (es : SEntries) : List String :=
  match dt with
  | .struct fs =>
    structS path fs.toList (entryKeys es) (!(keysAreStrings es).isOk) (blameEntriesStruct ext path fs.toList es)
  | .map (.mk en (.struct (.cons (.mk kn kdt knl kmd) (.cons (.mk vn vdt vnl vmd) _))) _ _) _ =>
    let base := path ++ "." ++ childName en
    let inner := blameEntriesMap ext (base ++ "." ++ childName kn) kdt knl kmd (base ++ "." ++ childName vn) vdt vnl vmd es
    if inner.isEmpty then [path] else inner
  | _ => [path]

theorem blameDT_map_eq {ext : Ext} {path : String} {dt n md} {es : SEntries}
    (hi : (interpDT ext dt n md (.map es)).isOk = false) :
    blameDT ext path dt n md (.map es) = mapS ext path dt es := by
  unfold blameDT mapS
  simp only [hi, Bool.false_eq_true, if_false]
  cases dt
  case struct fs => simp [structS]
  case map f s =>
    obtain ⟨en, edt, enl, emd⟩ := f
    cases edt
    case struct efs =>
      cases efs with
      | nil => rfl
      | cons kf r =>
        obtain ⟨kn, kdt, knl, kmd⟩ := kf
        cases r with
        | nil => rfl
        | cons vf r2 => obtain ⟨vn, vdt, vnl, vmd⟩ := vf; rfl
    all_goals rfl
  all_goals rfl

theorem mapS_self {ext : Ext} {b : B} {path : String} {dt n md} {es : SEntries} (hsh : Shape b dt n md)
    (hb : isStruct b = false) (hm : isMap b = false) : path ∈ mapS ext path dt es := by
  cases dt
  case struct sfs =>
    obtain ⟨_, _, _, _, _, _, _, rfl⟩ := Shape_struct_form hsh; simp [isStruct] at hb
  case map f s =>
    obtain ⟨_, _, _, _, _, _, rfl⟩ := Shape_map_form hsh; simp [isMap] at hm
  all_goals simp [mapS]

theorem At.map_kids {path ename kn kdt knl kmd vn vdt vnl vmd rest en emd sorted n md p mm v offs ks vs}
    (h : At path (.map (.mk ename (.struct (.cons (.mk kn kdt knl kmd) (.cons (.mk vn vdt vnl vmd) rest))) en emd) sorted) n md
      (.map p mm v offs ks vs)) :
    At (path ++ "." ++ childName ename ++ "." ++ childName kn) kdt knl kmd ks ∧
    At (path ++ "." ++ childName ename ++ "." ++ childName vn) vdt vnl vmd vs := by
  obtain ⟨b0, h0, ht⟩ := h
  cases rest with
  | cons _ _ => simp [newDT, SaModel.fail] at h0
  | nil =>
    cases en with
    | true => simp [newDT, ctx_ok, SaModel.fail] at h0
    | false =>
    simp only [newDT, newB] at h0
    obtain ⟨kb, hkb, h0⟩ := (Build.bind_ok _ _ _).1 h0
    obtain ⟨vb, hvb, h0⟩ := (Build.bind_ok _ _ _).1 h0
    cases h0
    simp only [takeRest, B.map.injEq] at ht
    exact ⟨⟨kb, hkb, ht.2.2.2.2.1⟩, ⟨vb, hvb, ht.2.2.2.2.2⟩⟩

/-- the only plain error of the entry loop of a map builder is the overflow of the offsets the map owns -/
theorem pushMapEntries_not_plain (ext : Ext) : ∀ (es : SEntries) (offs : List Int) (ks vs : B) (l : Int) (msg : String),
    offs.getLast? = some l → 0 ≤ l → l + elen es ≤ 2147483647 → pushMapEntries ext offs ks vs es ≠ .error (.err msg)
  | .nil, offs, ks, vs, l, msg, _, _, _ => by simp [pushMapEntries]
  | .cons k x rest, offs, ks, vs, l, msg, hl, h0, hle => by
    simp only [elen] at hle
    intro h
    simp only [pushMapEntries] at h
    rw [incrementLast_total (large := false) (inc := 1) hl (by omega) h0] at h
    rcases bind_err_plain h with h | ⟨o, ho, h⟩
    · cases h
    · cases ho
      rcases bind_err_plain h with h | ⟨ks', _, h⟩
      · exact push_never_plain ext k ks msg h
      · rcases bind_err_plain h with h | ⟨vs', _, h⟩
        · exact push_never_plain ext x vs msg h
        · exact pushMapEntries_not_plain ext rest _ ks' vs' (l + (1 : Nat)) msg (by simp) (by omega) (by omega) h

theorem pushMapEntries_plain (ext : Ext) : ∀ (es : SEntries) (offs : List Int) (ks vs : B) (l : Int) (msg : String),
    offs.getLast? = some l → 0 ≤ l → pushMapEntries ext offs ks vs es = .error (.err msg) →
    msg = "offset overflow" ∧ l + elen es > offMax false
  | .nil, offs, ks, vs, l, msg, _, _, h => by simp [pushMapEntries] at h
  | .cons k x rest, offs, ks, vs, l, msg, hl, h0, h => by
    simp only [pushMapEntries] at h
    simp only [elen]
    by_cases hov : l + ((1 : Nat) : Int) > offMax false
    · have hinc : incrementLast true false offs 1 = .error (.err "offset overflow") := by
        unfold incrementLast
        simp only [hl]
        have h1 : ¬ (((1 : Nat) : Int) > offMax false) := by simp [offMax]
        rw [if_neg h1, if_pos hov]; rfl
      rw [hinc] at h
      simp only [bind, Except.bind] at h
      cases h
      exact ⟨rfl, by omega⟩
    · have hinc : incrementLast true false offs 1 = .ok (offs.dropLast ++ [l + ((1 : Nat) : Int)]) := by
        unfold incrementLast
        simp only [hl]
        have h1 : ¬ (((1 : Nat) : Int) > offMax false) := by simp [offMax]
        rw [if_neg h1, if_neg hov]
      rw [hinc] at h
      rcases bind_err_plain h with h | ⟨o, ho, h⟩
      · cases h
      · cases ho
        rcases bind_err_plain h with h | ⟨ks', _, h⟩
        · exact absurd h (push_never_plain ext k ks msg)
        · rcases bind_err_plain h with h | ⟨vs', _, h⟩
          · exact absurd h (push_never_plain ext x vs msg)
          · obtain ⟨hm, hgt⟩ := pushMapEntries_plain ext rest _ ks' vs' (l + ((1 : Nat) : Int)) msg (by simp) (by omega) h
            exact ⟨hm, by omega⟩

/-- `serialize_map` on every builder family -/
theorem mapLike_bl {ext : Ext} [ExtPlain ext] {es : SEntries} (hpe : EntriesBl ext es) (hpm : MapEntriesBl ext es)
    {b : B} {path : String} {dt n md} (hg : GoodH b dt n md) (ha : At path dt n md b)
    (hcap : vsizee ext es + 1 ≤ room b) :
    Bl (mapS ext path dt es) (ctx b.ann (mapWith ext es b)) := by
  cases b with
  | struct p len v fs cached next seen =>
    have hsh := hg.shape
    simp only [Shape] at hsh
    obtain ⟨_, sfs, rfl, hsl⟩ := hsh
    have hS : mapS ext path (.struct sfs) es = structS path sfs.toList (entryKeys es) (!(keysAreStrings es).isOk)
        (blameEntriesStruct ext path sfs.toList es) := by simp [mapS]
    rw [hS]
    unfold mapWith
    simp only [room] at hcap
    refine struct_row_bl hg ha (pf := fun s => pushStructEntries ext { s with next := UNKNOWN_KEY } es)
      fun k s hm hs hfs _ hk => ?_
    refine hpe k _ path sfs _ [] (hm.next _) (hs.next _) (by simp only; rw [hfs]; omega)
      (fun hd => mem_structS_own (by simp only [structOwnFails, Bool.or_eq_true]; left; simpa [knownKeys] using hd))
      (fun hk' => ?_) mem_structS_inner (by simpa using hk)
    rw [hk']; exact mem_structS_own'
  | map p mm v offs ks vs =>
    have hp : p = path := ha.path
    have hsh := hg.shape
    simp only [Shape] at hsh
    obtain ⟨_, ename, kn, kdt, knl, kmd, vn, vdt, vnl, vmd, rest, en, emd, sorted, he, hsk, hsv⟩ := hsh
    subst he
    have hw := hg.wf
    simp only [WFH] at hw
    have hsafe := hg.nd
    simp only [NoDictKey] at hsafe
    have ht := hg.tot
    simp only [total, totalF, Bool.and_eq_true] at ht
    have hgk : GoodH ks kdt knl kmd := ⟨hw.2.2.2.1, hsafe.1, hsk, ht.1⟩
    have hgv : GoodH vs vdt vnl vmd := ⟨hw.2.2.2.2, hsafe.2, hsv, ht.2⟩
    obtain ⟨hak, hav⟩ := ha.map_kids
    have hlast := hw.1.2.1
    have hln : lastNat offs = (dec ks).length := by simp [lastNat_of_getLast hlast]
    simp only [room, hln, LIM] at hcap
    have hel := elen_le ext es
    obtain ⟨v', hv'⟩ := setValidity_true_total v (offs.length - 1)
    have hS : mapS ext path (.map (.mk ename (.struct (.cons (.mk kn kdt knl kmd) (.cons (.mk vn vdt vnl vmd) rest))) en emd) sorted) es =
        (if (blameEntriesMap ext (path ++ "." ++ childName ename ++ "." ++ childName kn) kdt knl kmd
            (path ++ "." ++ childName ename ++ "." ++ childName vn) vdt vnl vmd es).isEmpty then [path]
         else blameEntriesMap ext (path ++ "." ++ childName ename ++ "." ++ childName kn) kdt knl kmd
            (path ++ "." ++ childName ename ++ "." ++ childName vn) vdt vnl vmd es) := by
      simp [mapS]
    rw [hS]
    have hbody : mapWith ext es (.map p mm v offs ks vs) = (do
        let (offs'', ks', vs') ← pushMapEntries ext (offs ++ [((dec ks).length : Int)]) ks vs es
        pure (.map p mm v' offs'' ks' vs')) := by
      simp only [mapWith, hv', duplicateLast_total hlast, bind, Except.bind]
    rw [hbody]
    have h1 := hpm (offs ++ [((dec ks).length : Int)]) ks vs _ kdt knl kmd _ vdt vnl vmd hgk hak hgv hav (by omega) (by omega)
    refine Bl.ctx_own _ ?_ (Bl.bind (Bl.mono mem_ite_inner h1) fun _ _ => Bl.of_ok _)
    intro msg h
    rcases bind_err_plain h with h | ⟨r, _, h⟩
    · exact absurd h (pushMapEntries_not_plain ext es _ ks vs ((dec ks).length : Int) msg (by simp) (by omega) (by omega))
    · cases h
  | unknownVariant _ =>
    refine Bl.ctx_self _ (by rw [ha.path]; exact mapS_self hg.shape rfl rfl) ?_
    unfold mapWith; exact NoCtx.bl _
  | null _ _ | leaf _ _ _ _ | bytes _ _ _ _ _ | bytesView _ _ _ _ _ | fixedSizeBinary _ _ _ _ _ _
  | list _ _ _ _ _ _ | fixedSizeList _ _ _ _ _ _ _ | dictionary _ _ _ _ | union _ _ _ _ _ =>
    refine Bl.ctx_self _ (by rw [ha.path]; exact mapS_self hg.shape rfl rfl) ?_
    unfold mapWith; exact NoCtx.bl _

end SaModel.Props.C18
