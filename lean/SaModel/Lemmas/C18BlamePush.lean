import SaModel.Lemmas.C18BlameUnion
/-
C18, blame against the specification: the mutual recursion over the serde value.

`frag x`: the fragment of serde values covered so far — `Some` / newtype layers, `None`, unit, all scalars, bytes,
sequences (into list / large list / fixed-size list builders, and refused by every other builder), struct records
(`serialize_struct`), unit and newtype variants (into union builders, refused by the others), nested arbitrarily.
NOT yet covered: tuples / tuple structs, maps, tuple and struct variants.
-/
namespace SaModel.Props.C18
open SaModel SaModel.Build SaModel.Spec

mutual
def frag : SVal → Bool
  | .some v => frag v
  | .newtypeStruct _ v => frag v
  | .seq xs => frags xs
  | .record _ fs => fragf fs
  | .newtypeVariant _ _ _ v => frag v
  | .tuple _ | .tupleStruct _ _ | .map _ | .mapRaw _
  | .tupleVariant _ _ _ _ | .structVariant _ _ _ _ => false
  | .unitVariant _ _ _ | .none | .unit | .bool _ | .int _ _ | .f32 _ | .f64 _ | .char _ | .str _ | .bytes _ | .unitStruct _ => true
def frags : SVals → Bool
  | .nil => true
  | .cons x r => frag x && frags r
def fragf : SFields → Bool
  | .nil => true
  | .cons _ _ x r => frag x && fragf r
end

/-! ### a builder that is not the container the value addresses blames itself -/

theorem Shape_fsl_form {b : B} {f : Field} {k : Int} {n : Bool} {md : Metadata}
    (h : Shape b (.fixedSizeList f k) n md) : ∃ p fm m len v cur el, b = .fixedSizeList p fm m len v cur el := by
  cases b with
  | fixedSizeList p fm m len v cur el => exact ⟨_, _, _, _, _, _, _, rfl⟩
  | bytes _ ty _ _ _ => cases ty <;> simp [Shape, bytesDT] at h
  | bytesView _ ty _ _ _ => cases ty <;> simp [Shape, viewDT] at h
  | list _ large _ _ _ _ => cases large <;> simp [Shape] at h
  | _ => simp [Shape, kindOf] at h

def isSeqCont : B → Bool
  | .list _ _ _ _ _ _ | .fixedSizeList _ _ _ _ _ _ _ => true
  | _ => false

def isStruct : B → Bool
  | .struct _ _ _ _ _ _ _ => true
  | _ => false

def isList : B → Bool
  | .list _ _ _ _ _ _ => true
  | _ => false

theorem seq_self_mem {ext : Ext} {b : B} {path : String} {dt n md} {xs : SVals} (hsh : Shape b dt n md)
    (hb : isSeqCont b = false) (hi : (interpDT ext dt n md (.seq xs)).isOk = false) :
    path ∈ blameDT ext path dt n md (.seq xs) := by
  cases dt
  case list f =>
    obtain ⟨_, _, _, _, _, _, rfl⟩ := Shape_list_form (.inl hsh); simp [isSeqCont] at hb
  case largeList f =>
    obtain ⟨_, _, _, _, _, _, rfl⟩ := Shape_list_form (.inr hsh); simp [isSeqCont] at hb
  case fixedSizeList f k =>
    obtain ⟨_, _, _, _, _, _, _, rfl⟩ := Shape_fsl_form hsh; simp [isSeqCont] at hb
  all_goals simp [blameDT, hi]

theorem record_self_mem {ext : Ext} {b : B} {path : String} {dt n md} {nm : String} {fs : SFields} (hsh : Shape b dt n md)
    (hb : isStruct b = false) (hi : (interpDT ext dt n md (.record nm fs)).isOk = false) :
    path ∈ blameDT ext path dt n md (.record nm fs) := by
  have hi' : (interpDT ext dt n md (.record "" fs)).isOk = false := by
    simpa only [interpDT] using hi
  cases dt
  case struct sfs =>
    obtain ⟨_, _, _, _, _, _, _, rfl⟩ := Shape_struct_form hsh; simp [isStruct] at hb
  all_goals simp [blameDT, hi']

theorem bytes_self_mem {ext : Ext} {path : String} {dt n md} {bs : Bytes}
    (hi : (interpDT ext dt n md (.bytes bs)).isOk = false) : path ∈ blameDT ext path dt n md (.bytes bs) := by
  cases dt
  case list f => obtain ⟨a, b, c, d⟩ := f; simp [blameDT, hi]
  case largeList f => obtain ⟨a, b, c, d⟩ := f; simp [blameDT, hi]
  all_goals simp [blameDT, hi]

def isUnion : B → Bool
  | .union _ _ _ _ _ => true
  | _ => false

theorem unitVariant_self_mem {ext : Ext} {b : B} {path : String} {dt n md} {a : String} {i : Nat} {vn : String}
    (hsh : Shape b dt n md) (hb : isUnion b = false) (hi : (interpDT ext dt n md (.unitVariant a i vn)).isOk = false) :
    path ∈ blameDT ext path dt n md (.unitVariant a i vn) := by
  cases dt
  case union ufs mode =>
    obtain ⟨_, _, _, _, _, rfl⟩ := Shape_union_form hsh; simp [isUnion] at hb
  all_goals simp [blameDT, hi]

theorem newtypeVariant_self_mem {ext : Ext} {b : B} {path : String} {dt n md} {a : String} {i : Nat} {vn : String} {v : SVal}
    (hsh : Shape b dt n md) (hb : isUnion b = false) (hi : (interpDT ext dt n md (.newtypeVariant a i vn v)).isOk = false) :
    path ∈ blameDT ext path dt n md (.newtypeVariant a i vn v) := by
  cases dt
  case union ufs mode =>
    obtain ⟨_, _, _, _, _, rfl⟩ := Shape_union_form hsh; simp [isUnion] at hb
  all_goals simp [blameDT, hi]

/-- every call that is a plain scalar call on every builder -/
theorem scalar_bl {ext : Ext} [ExtPlain ext] {x : SVal} {b : B} {path : String} {dt n md} (hg : Good b dt n md)
    (ha : At path dt n md b) (hraw : noRaw x = true) (hcap : vsize ext x ≤ room b)
    (hS : blameDT ext path dt n md x = if (interpDT ext dt n md x).isOk then [] else [path])
    (hp : push ext b x = ctx b.ann (pushScalar ext b x)) : Bl (blameDT ext path dt n md x) (push ext b x) := by
  by_cases hi : (interpDT ext dt n md x).isOk = true
  · exact bl_of_interp_ok hg hraw hcap hi
  · rw [hS, if_neg hi, hp]
    exact Bl.ctx_self b (by rw [ha.path]; exact List.mem_singleton.2 rfl) (NoCtx.bl _)

theorem pushByteElems_bl (ext : Ext) [ExtPlain ext] (large : Bool) {cpath : String} {S : List String} (hc : cpath ∈ S) :
    ∀ (bs : Bytes) (el : B) (offs : List Int), el.path = cpath → Bl S (pushByteElems ext large el offs bs)
  | [], el, offs, _ => by unfold pushByteElems; exact Bl.of_ok _
  | x :: rest, el, offs, hp => by
    unfold pushByteElems
    refine Bl.bind (NoCtx.bl _) fun _ _ => Bl.bind (Bl.ctx_self el (hp ▸ hc) (NoCtx.bl _)) fun el' h' => ?_
    have e := pushScalar_takeRest ext el _ el' ((Build.ctx_ok _ _ _).1 h')
    exact pushByteElems_bl ext large hc rest el' _ (by rw [← path_takeRest el', e, path_takeRest, hp])

theorem pushCountElems_not_plain (ext : Ext) : ∀ (xs : SVals) (el : B) (c : Nat) (msg : String),
    pushCountElems ext el c xs ≠ .error (.err msg)
  | .nil, el, c, msg => by simp [pushCountElems]
  | .cons x rest, el, c, msg => by
    intro h
    simp only [pushCountElems] at h
    rcases bind_err_plain h with h | ⟨el', _, h⟩
    · exact push_never_plain ext x el msg h
    · exact pushCountElems_not_plain ext rest el' _ msg h

set_option linter.unusedSectionVars false
variable (ext : Ext) [ExtPlain ext]

mutual
theorem push_bl : ∀ (x : SVal), frag x = true → noRaw x = true → ∀ (b : B) (path : String) (dt : DataType) (n : Bool)
    (md : Metadata), Good b dt n md → At path dt n md b → vsize ext x ≤ room b →
    Bl (blameDT ext path dt n md x) (push ext b x)
  | .some v, hf, hraw => by
    intro b path dt n md hg ha hcap
    simp only [vsize] at hcap
    rw [push, blameDT]
    exact push_bl v (by simpa [frag] using hf) (by simpa [noRaw] using hraw) b path dt n md hg ha (by omega)
  | .newtypeStruct _ v, hf, hraw => by
    intro b path dt n md hg ha hcap
    simp only [vsize] at hcap
    rw [push, blameDT]
    exact push_bl v (by simpa [frag] using hf) (by simpa [noRaw] using hraw) b path dt n md hg ha (by omega)
  | .none, _, hraw => by
    intro b path dt n md hg ha hcap
    by_cases hi : (interpDT ext dt n md .none).isOk = true
    · exact bl_of_interp_ok hg hraw hcap hi
    · rw [push]
      have : blameDT ext path dt n md .none = [path] := by simp [blameDT, hi]
      rw [this]
      exact pushNone_bl hg ha
  | .unit, _, hraw => by
    intro b path dt n md hg ha hcap
    by_cases hi : (interpDT ext dt n md .unit).isOk = true
    · exact bl_of_interp_ok hg hraw hcap hi
    · have : blameDT ext path dt n md .unit = [path] := by simp [blameDT, hi]
      rw [this]
      unfold push
      split
      · exact Bl.ctx_self _ (by rw [ha.path]; exact List.mem_singleton.2 rfl) (NoCtx.bl _)
      · exact pushNone_bl hg ha
  | .bool v, _, hraw => by
    intro b path dt n md hg ha hcap
    exact scalar_bl hg ha hraw hcap (by simp [blameDT]) (by rw [push])
  | .int t v, _, hraw => by
    intro b path dt n md hg ha hcap
    exact scalar_bl hg ha hraw hcap (by simp [blameDT]) (by rw [push])
  | .f32 v, _, hraw => by
    intro b path dt n md hg ha hcap
    exact scalar_bl hg ha hraw hcap (by simp [blameDT]) (by rw [push])
  | .f64 v, _, hraw => by
    intro b path dt n md hg ha hcap
    exact scalar_bl hg ha hraw hcap (by simp [blameDT]) (by rw [push])
  | .char v, _, hraw => by
    intro b path dt n md hg ha hcap
    exact scalar_bl hg ha hraw hcap (by simp [blameDT]) (by rw [push])
  | .str v, _, hraw => by
    intro b path dt n md hg ha hcap
    exact scalar_bl hg ha hraw hcap (by simp [blameDT]) (by rw [push])
  | .unitStruct v, _, hraw => by
    intro b path dt n md hg ha hcap
    by_cases hi : (interpDT ext dt n md (.unitStruct v)).isOk = true
    · exact bl_of_interp_ok hg hraw hcap hi
    · have : blameDT ext path dt n md (.unitStruct v) = [path] := by simp [blameDT, hi]
      rw [this]
      unfold push
      split
      · exact Bl.ctx_self _ (by rw [ha.path]; exact List.mem_singleton.2 rfl) (NoCtx.bl _)
      · exact pushNone_bl hg ha
  | .bytes bs, _, hraw => by
    intro b path dt n md hg ha hcap
    by_cases hi : (interpDT ext dt n md (.bytes bs)).isOk = true
    · exact bl_of_interp_ok hg hraw hcap hi
    · have hi' := not_isOk_false hi
      have hself : b.path ∈ blameDT ext path dt n md (.bytes bs) := by rw [ha.path]; exact bytes_self_mem hi'
      unfold push
      refine Bl.ctx_self b hself ?_
      cases b with
      | list p large fm v offs el =>
        have hsh := hg.shape
        simp only [Shape] at hsh
        obtain ⟨_, cname, cdt, cn, cmd, hdt, hsel⟩ := hsh
        have hael : At (path ++ "." ++ childName cname) cdt cn cmd el := by
          cases large
          · simp only [Bool.false_eq_true, if_false] at hdt; subst hdt; exact At.list (.inl ha)
          · simp only [if_true] at hdt; subst hdt; exact At.list (.inr ha)
        have hc : (path ++ "." ++ childName cname) ∈ blameDT ext path dt n md (.bytes bs) := by
          cases large
          · simp only [Bool.false_eq_true, if_false] at hdt; subst hdt; simp [blameDT, hi']
          · simp only [if_true] at hdt; subst hdt; simp [blameDT, hi']
        exact Bl.bind (NoCtx.bl _) fun _ _ => Bl.bind (NoCtx.bl _) fun _ _ =>
          Bl.bind (pushByteElems_bl ext large hc bs el _ hael.path) fun _ _ => Bl.of_ok _
      | _ => exact NoCtx.bl _
  | .seq xs, hf, hraw => by
    intro b path dt n md hg ha hcap
    have hf' : frags xs = true := by simpa [frag] using hf
    have hraw' : noRaws xs = true := by simpa [noRaw] using hraw
    by_cases hi : (interpDT ext dt n md (.seq xs)).isOk = true
    · exact bl_of_interp_ok hg hraw hcap hi
    · have hi' := not_isOk_false hi
      simp only [vsize] at hcap
      rw [push]
      cases b with
      | list p large fm v offs el =>
        have hp : p = path := ha.path
        have hsh := hg.shape
        simp only [Shape] at hsh
        obtain ⟨_, cname, cdt, cn, cmd, hdt, hsel⟩ := hsh
        have hgel := Good.list_el hg hdt hsel
        have hael : At (path ++ "." ++ childName cname) cdt cn cmd el := by
          cases large
          · simp only [Bool.false_eq_true, if_false] at hdt; subst hdt; exact At.list (.inl ha)
          · simp only [if_true] at hdt; subst hdt; exact At.list (.inr ha)
        have hS : blameDT ext path dt n md (.seq xs) =
            (if (blameAll ext (path ++ "." ++ childName cname) cdt cn cmd xs).isEmpty then [path]
             else blameAll ext (path ++ "." ++ childName cname) cdt cn cmd xs) := by
          cases large
          · simp only [Bool.false_eq_true, if_false] at hdt; subst hdt; simp [blameDT, hi']
          · simp only [if_true] at hdt; subst hdt; simp [blameDT, hi']
        have hroom : vsizes ext xs ≤ room el := by simp only [room] at hcap; omega
        rw [hS, ← hp]
        exact list_row_bl hg.wf hcap fun offs' l hl h0 hle =>
          ⟨hp ▸ pushElems_bl xs hf' hraw' large el offs' _ cdt cn cmd hgel hael hroom,
            fun msg => pushElems_not_plain ext large xs el offs' l msg hl h0 hle⟩
      | fixedSizeList p fm m len v cur el =>
        have hp : p = path := ha.path
        have hsh := hg.shape
        simp only [Shape] at hsh
        obtain ⟨_, cname, cdt, cn, cmd, hdt, hsel⟩ := hsh
        subst hdt
        have hw := hg.wf
        simp only [WFB] at hw
        have hsafe := hg.safe
        simp only [Safe] at hsafe
        have ht := hg.tot
        simp only [total, totalF, Bool.and_eq_true] at ht
        have hgel : Good el cdt cn cmd := ⟨hw.2.2, hsafe.1, hsel, ht.1⟩
        have hael := ha.fixedSizeList
        have hS : blameDT ext path (.fixedSizeList (.mk cname cdt cn cmd) (m : Int)) n md (.seq xs) =
            (if ((xs.length : Int) != (m : Int)) || (blameAll ext (path ++ "." ++ childName cname) cdt cn cmd xs).isEmpty
              then [path] else []) ++ blameAll ext (path ++ "." ++ childName cname) cdt cn cmd xs := by
          simp [blameDT, hi']
        have hroom : vsizes ext xs ≤ room el := by simp only [room] at hcap; omega
        rw [hS, ← hp]
        exact fsl_row_bl (fun r hr => by simpa using pushCountElems_count ext xs el 0 r hr)
          (hp ▸ pushCountElems_bl xs hf' hraw' el 0 _ cdt cn cmd hgel hael hroom)
          (fun msg => pushCountElems_not_plain ext xs el 0 msg)
      | struct p len v fs cached next seen =>
        refine Bl.ctx_self _ (by rw [ha.path]; exact seq_self_mem hg.shape rfl hi') ?_
        unfold seqLikeWith; exact NoCtx.bl _
      | null _ _ | unknownVariant _ | leaf _ _ _ _ | bytes _ _ _ _ _ | bytesView _ _ _ _ _ | fixedSizeBinary _ _ _ _ _ _
      | map _ _ _ _ _ _ | dictionary _ _ _ _ | union _ _ _ _ _ =>
        refine Bl.ctx_self _ (by rw [ha.path]; exact seq_self_mem hg.shape rfl hi') ?_
        unfold seqLikeWith; exact NoCtx.bl _
  | .record nm fields, hf, hraw => by
    intro b path dt n md hg ha hcap
    have hf' : fragf fields = true := by simpa [frag] using hf
    have hraw' : noRawf fields = true := by simpa [noRaw] using hraw
    by_cases hi : (interpDT ext dt n md (.record nm fields)).isOk = true
    · exact bl_of_interp_ok hg hraw hcap hi
    · have hi' := not_isOk_false hi
      simp only [vsize] at hcap
      rw [push]
      cases b with
      | struct p len v fs cached next seen =>
        have hsh := hg.shape
        simp only [Shape] at hsh
        obtain ⟨_, sfs, rfl, hsl⟩ := hsh
        have hi'' : (interpDT ext (.struct sfs) n md (.record "" fields)).isOk = false := by
          simpa only [interpDT] using hi'
        have hS : blameDT ext path (.struct sfs) n md (.record nm fields) =
            structS path sfs.toList (fieldKeys fields) false (blameFields ext path sfs.toList fields) := by
          simp [blameDT, hi'', structS]
        rw [hS]
        unfold recordWith
        simp only [room] at hcap
        refine struct_row_bl hg ha fun k s hm hs hfs _ hk => ?_
        exact pushFields_bl fields hf' hraw' k _ path sfs s [] hm hs (by rw [hfs]; omega)
          (fun hd => mem_structS_own (by simp only [structOwnFails, Bool.or_eq_true]; left; simpa [knownKeys] using hd))
          mem_structS_inner (by simpa using hk)
      | unknownVariant _ =>
        refine Bl.ctx_self _ (by rw [ha.path]; exact record_self_mem hg.shape rfl hi') ?_
        unfold recordWith; exact NoCtx.bl _
      | null _ _ | leaf _ _ _ _ | bytes _ _ _ _ _ | bytesView _ _ _ _ _ | fixedSizeBinary _ _ _ _ _ _
      | list _ _ _ _ _ _ | fixedSizeList _ _ _ _ _ _ _ | map _ _ _ _ _ _ | dictionary _ _ _ _ | union _ _ _ _ _ =>
        refine Bl.ctx_self _ (by rw [ha.path]; exact record_self_mem hg.shape rfl hi') ?_
        unfold recordWith; exact NoCtx.bl _
  | .unitVariant a i vn, _, hraw => by
    intro b path dt n md hg ha hcap
    by_cases hi : (interpDT ext dt n md (.unitVariant a i vn)).isOk = true
    · exact bl_of_interp_ok hg hraw hcap hi
    · have hi' := not_isOk_false hi
      unfold push
      cases b with
      | union p fs types offs cur =>
        have hsh := hg.shape
        simp only [Shape] at hsh
        obtain ⟨ufs, mode, rfl, _⟩ := hsh
        refine union_row_bl (i := i) (pc := fun c => match c with
            | .unknownVariant _ => ctx c.ann (SaModel.fail "Unknown variant does not support serialize_unit")
            | _ => pushNone c) hg ha (fun hn => by simp [blameDT, hi', hn]) (fun tid nm cdt cn cmd c hufs hgc hac _ => ?_)
          (fun c msg => ?_)
        · have hS : blameDT ext path (.union ufs mode) n md (.unitVariant a i vn) = [path ++ "." ++ childName nm] := by
            simp [blameDT, hi', hufs]
          rw [hS]
          split
          · exact Bl.ctx_self _ (by rw [hac.path]; exact List.mem_singleton.2 rfl) (NoCtx.bl _)
          · exact pushNone_bl hgc hac
        · split
          · rw [ann_eq_posAnn]; exact ctx_never_plain _ _ _
          · exact pushNone_never_plain c msg
      | null _ _ | unknownVariant _ | leaf _ _ _ _ | bytes _ _ _ _ _ | bytesView _ _ _ _ _ | fixedSizeBinary _ _ _ _ _ _
      | list _ _ _ _ _ _ | fixedSizeList _ _ _ _ _ _ _ | map _ _ _ _ _ _ | struct _ _ _ _ _ _ _ | dictionary _ _ _ _ =>
        exact Bl.ctx_self _ (by rw [ha.path]; exact unitVariant_self_mem hg.shape rfl hi') (NoCtx.bl _)
  | .newtypeVariant a i vn v, hf, hraw => by
    intro b path dt n md hg ha hcap
    have hf' : frag v = true := by simpa [frag] using hf
    have hraw' : noRaw v = true := by simpa [noRaw] using hraw
    by_cases hi : (interpDT ext dt n md (.newtypeVariant a i vn v)).isOk = true
    · exact bl_of_interp_ok hg hraw hcap hi
    · have hi' := not_isOk_false hi
      simp only [vsize] at hcap
      unfold push
      cases b with
      | union p fs types offs cur =>
        have hsh := hg.shape
        simp only [Shape] at hsh
        obtain ⟨ufs, mode, rfl, _⟩ := hsh
        simp only [room] at hcap
        refine union_row_bl (i := i) (pc := fun c => push ext c v) hg ha (fun hn => by simp [blameDT, hi', hn])
          (fun tid nm cdt cn cmd c hufs hgc hac hrc => ?_) (fun c msg => push_never_plain ext v c msg)
        have hS : blameDT ext path (.union ufs mode) n md (.newtypeVariant a i vn v) =
            (if (blameDT ext (path ++ "." ++ childName nm) cdt cn cmd v).isEmpty then [path]
             else blameDT ext (path ++ "." ++ childName nm) cdt cn cmd v) := by
          simp [blameDT, hi', hufs]
        rw [hS]
        exact Bl.mono mem_ite_inner (push_bl v hf' hraw' c _ cdt cn cmd hgc hac (by omega))
      | bytes _ ty _ _ _ =>
        exact Bl.ctx_self _ (by rw [ha.path]; exact newtypeVariant_self_mem hg.shape rfl hi') (NoCtx.bl _)
      | bytesView _ ty _ _ _ =>
        exact Bl.ctx_self _ (by rw [ha.path]; exact newtypeVariant_self_mem hg.shape rfl hi') (NoCtx.bl _)
      | null _ _ | unknownVariant _ | leaf _ _ _ _ | fixedSizeBinary _ _ _ _ _ _
      | list _ _ _ _ _ _ | fixedSizeList _ _ _ _ _ _ _ | map _ _ _ _ _ _ | struct _ _ _ _ _ _ _ | dictionary _ _ _ _ =>
        exact Bl.ctx_self _ (by rw [ha.path]; exact newtypeVariant_self_mem hg.shape rfl hi') (NoCtx.bl _)
  | .tuple _, hf, _ | .tupleStruct _ _, hf, _ | .map _, hf, _ | .mapRaw _, hf, _
  | .tupleVariant _ _ _ _, hf, _ | .structVariant _ _ _ _, hf, _ => by
    simp [frag] at hf
theorem pushElems_bl : ∀ (xs : SVals), frags xs = true → noRaws xs = true → ∀ (large : Bool) (el : B) (offs : List Int)
    (cpath : String) (cdt : DataType) (cn : Bool) (cmd : Metadata), Good el cdt cn cmd → At cpath cdt cn cmd el →
    vsizes ext xs ≤ room el → Bl (blameAll ext cpath cdt cn cmd xs) (pushElems ext large el offs xs)
  | .nil, _, _ => by intro large el offs cpath cdt cn cmd _ _ _; rw [pushElems]; exact Bl.of_ok _
  | .cons x rest, hf, hraw => by
    intro large el offs cpath cdt cn cmd hg ha hcap
    have hf' : frag x = true ∧ frags rest = true := by simpa [frags] using hf
    have hraw' : noRaw x = true ∧ noRaws rest = true := by simpa [noRaws] using hraw
    simp only [vsizes] at hcap
    rw [pushElems, blameAll]
    refine Bl.bind (NoCtx.bl _) fun offs' _ => Bl.bind (Bl.mono (fun q hq => List.mem_append_left _ hq)
      (push_bl x hf'.1 hraw'.1 el cpath cdt cn cmd hg ha (by omega))) fun el' h' => ?_
    obtain ⟨hg', hr⟩ := push_step hg hraw'.1 (by omega) h'
    exact Bl.mono (fun q hq => List.mem_append_right _ hq)
      (pushElems_bl rest hf'.2 hraw'.2 large el' offs' cpath cdt cn cmd hg' (ha.push h') (by omega))
theorem pushCountElems_bl : ∀ (xs : SVals), frags xs = true → noRaws xs = true → ∀ (el : B) (c : Nat)
    (cpath : String) (cdt : DataType) (cn : Bool) (cmd : Metadata), Good el cdt cn cmd → At cpath cdt cn cmd el →
    vsizes ext xs ≤ room el → Bl (blameAll ext cpath cdt cn cmd xs) (pushCountElems ext el c xs)
  | .nil, _, _ => by intro el c cpath cdt cn cmd _ _ _; rw [pushCountElems]; exact Bl.of_ok _
  | .cons x rest, hf, hraw => by
    intro el c cpath cdt cn cmd hg ha hcap
    have hf' : frag x = true ∧ frags rest = true := by simpa [frags] using hf
    have hraw' : noRaw x = true ∧ noRaws rest = true := by simpa [noRaws] using hraw
    simp only [vsizes] at hcap
    rw [pushCountElems, blameAll]
    refine Bl.bind (Bl.mono (fun q hq => List.mem_append_left _ hq)
      (push_bl x hf'.1 hraw'.1 el cpath cdt cn cmd hg ha (by omega))) fun el' h' => ?_
    obtain ⟨hg', hr⟩ := push_step hg hraw'.1 (by omega) h'
    exact Bl.mono (fun q hq => List.mem_append_right _ hq)
      (pushCountElems_bl rest hf'.2 hraw'.2 el' (c + 1) cpath cdt cn cmd hg' (ha.push h') (by omega))
theorem pushFields_bl : ∀ (fields : SFields), fragf fields = true → noRawf fields = true →
    ∀ {β : Type} (k : SS → R β) (S : List String) (path : String) (sfs : Fields) (s : SS) (done : List String),
    MidS path sfs s → SeenIs s done → vsizef ext fields ≤ roomL s.fields →
    (dupKeys (done ++ knownKeys sfs.toList (fieldKeys fields)) = true → path ∈ S) →
    (∀ q ∈ blameFields ext path sfs.toList fields, q ∈ S) →
    (∀ s', MidS path sfs s' → SeenIs s' (done ++ knownKeys sfs.toList (fieldKeys fields)) → Blo S path (k s')) →
    Blo S path (pushFields ext s fields >>= k)
  | .nil, _, _ => by
    intro k S path sfs s done hm hs _ _ _ hk
    rw [pushFields]
    exact hk s hm (by simpa [fieldKeys, knownKeys] using hs)
  | .cons key al x rest, hf, hraw => by
    intro k S path sfs s done hm hs hcap hdup hin hk
    have hf' : frag x = true ∧ fragf rest = true := by simpa [fragf] using hf
    have hraw' : noRaw x = true ∧ noRawf rest = true := by simpa [noRawf] using hraw
    simp only [vsizef] at hcap
    have hls := SaModel.Props.C11Front.lookup_sound s.fields.names s.cached s.next (key, al) hm.nodup hm.cache
    rw [pushFields]
    split
    · rename_i cached' heq
      rw [heq] at hls
      have hnone : indexOfName s.fields.names key = none := hls.1.symm
      have hunk : ∀ (j : Nat), (sfs.toList.map Field.name)[j]? ≠ some key := by
        intro j hj
        rw [← hm.names] at hj
        have := SaModel.Props.C11Front.indexOfName_of_get _ hm.nodup key j hj
        rw [hnone] at this; cases this
      have hk0 : knownKeys sfs.toList (fieldKeys (.cons key al x rest)) = knownKeys sfs.toList (fieldKeys rest) := by
        simp [fieldKeys, knownKeys, any_unknown_of hunk]
      have hb0 : blameFields ext path sfs.toList (.cons key al x rest) = blameFields ext path sfs.toList rest := by
        simp [blameFields, find_none_of hunk]
      rw [hk0] at hdup hk
      rw [hb0] at hin
      exact pushFields_bl rest hf'.2 hraw'.2 k S path sfs _ done (hm.cached cached' hls.2) (hs.cached _) (by simp only; omega)
        hdup hin hk
    · rename_i idx cached' heq
      rw [heq] at hls
      have hidx : indexOfName s.fields.names key = some idx := hls.1.symm
      have hname : s.fields.names[idx]? = some key := SaModel.Props.C11Front.indexOfName_some _ _ _ hidx
      have hname' : (sfs.toList.map Field.name)[idx]? = some key := by rw [← hm.names]; exact hname
      have hk1 : knownKeys sfs.toList (fieldKeys (.cons key al x rest)) = key :: knownKeys sfs.toList (fieldKeys rest) := by
        simp [fieldKeys, knownKeys, any_known_of_get hname']
      have hndf : (sfs.toList.map Field.name).Nodup := by rw [← hm.names]; exact hm.nodup
      rw [hk1] at hdup hk
      have hm1 := hm.cached cached' hls.2
      have hs1 : SeenIs { s with cached := cached' } done := hs.cached _
      rw [bind_assoc]
      refine Blo.bind (element_blo hm1 hs1 hname (fun hd => hdup (dupKeys_mem hd)) ?_) fun s1 h1 => ?_
      · intro c m hget
        obtain ⟨f, hfj, _, _, hgc, hac⟩ := hm.kids.get hget
        have hfk : f.name = key := by
          simp only [List.getElem?_map, hfj, Option.map_some, Option.some.injEq] at hname'
          exact hname'
        have hfind := find_of_get hndf hfj hfk
        have hrc : roomL s.fields ≤ room c := roomL_get _ _ _ _ hget
        refine Bl.mono (fun q hq => hin q ?_) (push_bl x hf'.1 hraw'.1 c _ _ _ _ hgc hac (by omega))
        obtain ⟨fname, fdt, fn, fmd⟩ := f
        simp only [blameFields, hfind, List.mem_append]
        exact .inl hq
      · obtain ⟨c, m, c', _, hget, hpc, rfl⟩ := element_ok_inv h1
        simp only at hget
        obtain ⟨f, hfj, _, _, hgc, hac⟩ := hm.kids.get hget
        have hrc : roomL s.fields ≤ room c := roomL_get _ _ _ _ hget
        obtain ⟨hgc', hroom⟩ := push_step hgc hraw'.1 (by omega) hpc
        have hroomL : roomL s.fields ≤ roomL (s.fields.set idx c') + vsize ext x := roomL_set _ _ _ _ _ _ hget hroom
        refine pushFields_bl rest hf'.2 hraw'.2 k S path sfs _ (done ++ [key]) (hm1.step hget hfj hgc' (hac.push hpc))
          (SeenIs.step hm1 hs1 hname) (show vsizef ext rest ≤ roomL (s.fields.set idx c') by omega) ?_ ?_ ?_
        · intro hd; apply hdup; simpa [List.append_assoc] using hd
        · intro q hq; apply hin; simp only [blameFields, List.mem_append]; exact .inr hq
        · intro s' hm' hs'; apply hk s' hm'; simpa [List.append_assoc] using hs'
end

end SaModel.Props.C18
