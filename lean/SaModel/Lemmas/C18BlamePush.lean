import SaModel.Lemmas.C18BlameDict
/-
C18, blame against the specification: the mutual recursion over the serde value — EVERY `SVal` constructor into every
builder family (`push_bl`), with the element / field / entry loops (`pushElems_bl`, `pushCountElems_bl`,
`pushTupleElems_bl`, `pushFields_bl`, `pushStructEntries_bl`, `pushMapEntries_bl`).  Raw key / value streams
(`.mapRaw`) are outside `noRaw`, the hypothesis of the completeness theorems of C01 this proof rests on.
-/
namespace SaModel.Props.C18
open SaModel SaModel.Build SaModel.Spec

theorem bytes_self_mem {ext : Ext} {path : String} {dt n md} {bs : Bytes}
    (hi : (interpDT ext dt n md (.bytes bs)).isOk = false) : path ∈ blameDT ext path dt n md (.bytes bs) := by
  cases dt
  case list f => obtain ⟨a, b, c, d⟩ := f; simp [blameDT, hi]
  case largeList f => obtain ⟨a, b, c, d⟩ := f; simp [blameDT, hi]
  all_goals simp [blameDT, hi]

theorem unitVariant_self_mem {ext : Ext} {b : B} {path : String} {dt n md} {a : String} {i : Nat} {vn : String}
    (hsh : Shape b dt n md) (hb : isUnion b = false) (hd : b.isDict = false)
    (hi : (interpDT ext dt n md (.unitVariant a i vn)).isOk = false) :
    path ∈ blameDT ext path dt n md (.unitVariant a i vn) := by
  cases dt
  case union ufs mode =>
    obtain ⟨_, _, _, _, _, rfl⟩ := Shape_union_form hsh; simp [isUnion] at hb
  case dictionary k v => obtain ⟨_, _, _, _, rfl⟩ := Shape_dict_form hsh; simp [B.isDict] at hd
  all_goals simp [blameDT, hi, blameScalarAt]

theorem newtypeVariant_self_mem {ext : Ext} {b : B} {path : String} {dt n md} {a : String} {i : Nat} {vn : String} {v : SVal}
    (hsh : Shape b dt n md) (hb : isUnion b = false) (hi : (interpDT ext dt n md (.newtypeVariant a i vn v)).isOk = false) :
    path ∈ blameDT ext path dt n md (.newtypeVariant a i vn v) := by
  cases dt
  case union ufs mode =>
    obtain ⟨_, _, _, _, _, rfl⟩ := Shape_union_form hsh; simp [isUnion] at hb
  all_goals simp [blameDT, hi]

theorem tupleVariant_self_mem {ext : Ext} {b : B} {path : String} {dt n md} {a : String} {i : Nat} {vn : String} {xs : SVals}
    (hsh : Shape b dt n md) (hb : isUnion b = false) (hi : (interpDT ext dt n md (.tupleVariant a i vn xs)).isOk = false) :
    path ∈ blameDT ext path dt n md (.tupleVariant a i vn xs) := by
  cases dt
  case union ufs mode =>
    obtain ⟨_, _, _, _, _, rfl⟩ := Shape_union_form hsh; simp [isUnion] at hb
  all_goals simp [blameDT, hi]

theorem structVariant_self_mem {ext : Ext} {b : B} {path : String} {dt n md} {a : String} {i : Nat} {vn : String}
    {fields : SFields} (hsh : Shape b dt n md) (hb : isUnion b = false)
    (hi : (interpDT ext dt n md (.structVariant a i vn fields)).isOk = false) :
    path ∈ blameDT ext path dt n md (.structVariant a i vn fields) := by
  cases dt
  case union ufs mode =>
    obtain ⟨_, _, _, _, _, rfl⟩ := Shape_union_form hsh; simp [isUnion] at hb
  all_goals simp [blameDT, hi]

theorem nodup_not_mem_take {l : List String} {j : Nat} {a : String} (hnd : l.Nodup) (h : l[j]? = some a) :
    a ∉ l.take j := by
  intro hm
  obtain ⟨i, hi⟩ := List.getElem?_of_mem hm
  have hlt : i < j := by
    have := (List.getElem?_eq_some_iff.1 hi).1
    simp only [List.length_take] at this
    omega
  rw [List.getElem?_take_of_lt hlt] at hi
  have h1 := SaModel.Props.C11Front.indexOfName_of_get _ hnd a i hi
  have h2 := SaModel.Props.C11Front.indexOfName_of_get _ hnd a j h
  rw [h1] at h2; cases h2; omega

/-- every call that is a plain scalar call on every builder -/
theorem scalar_bl {ext : Ext} [ExtPlain ext] {x : SVal} {b : B} {path : String} {dt n md} (hg : GoodH b dt n md)
    (ha : At path dt n md b) (hraw : noRaw x = true) (hcap : vsize ext x ≤ room b)
    (hS : blameDT ext path dt n md x = if (interpDT ext dt n md x).isOk then [] else blameScalarAt ext path dt x)
    (hix : ∀ k v, dt = .dictionary k v → interpDT ext dt n md x = interpScalar ext dt x)
    (hp : push ext b x = ctx b.ann (pushScalar ext b x)) : Bl (blameDT ext path dt n md x) (push ext b x) := by
  by_cases hi : (interpDT ext dt n md x).isOk = true
  · exact bl_of_interp_ok hg hraw hcap hi
  · rw [hS, if_neg hi, hp]
    by_cases hd : b.isDict = true
    · -- a dictionary column: the value child takes the string (`dict_scalar_bl`)
      cases b with
      | dictionary p idx vals index =>
        have hsh := hg.shape
        simp only [Shape] at hsh
        obtain ⟨⟨kdt, vdt, rfl, _⟩, _⟩ := hsh
        exact dict_scalar_bl hg ha (by rw [← hix kdt vdt rfl]; exact not_isOk_false hi)
      | _ => simp [B.isDict] at hd
    · have hd' : b.isDict = false := by simpa using hd
      rw [blameScalarAt_of_not_dict hg.shape hd']
      exact Bl.ctx_self b (by rw [ha.path]; exact List.mem_singleton.2 rfl)
        (@NoCtx.bl _ _ _ (pushScalar_noctx ext b x hd'))

/-- `ListBuilder::serialize_bytes`: every byte goes to the element builder as `serialize_u8`; what the element builder
refuses is blamed where `blameScalarAt` says — the element column, or for a dictionary element its value child
(`hfail`: the value type of a dictionary element takes no strings; otherwise every byte has a meaning) -/
theorem pushByteElems_bl (ext : Ext) [ExtPlain ext] (large : Bool) {cpath : String} {cdt : DataType} {cn : Bool}
    {cmd : Metadata} {S : List String} (hc : ∀ q ∈ blameScalarAt ext cpath cdt (.int .u8 0), q ∈ S)
    (hfail : ∀ k v, cdt = .dictionary k v → ∀ y, (interpScalar ext cdt (.int .u8 y)).isOk = false) :
    ∀ (bs : Bytes) (el : B) (offs : List Int), GoodH el cdt cn cmd → At cpath cdt cn cmd el →
    Bl S (pushByteElems ext large el offs bs)
  | [], el, offs, _, _ => by unfold pushByteElems; exact Bl.of_ok _
  | x :: rest, el, offs, hg, ha => by
    unfold pushByteElems
    have hstep : Bl S (ctx el.ann (pushScalar ext el (.int .u8 x.toNat))) := by
      by_cases hd : el.isDict = true
      · cases el with
        | dictionary p idx vals index =>
          have hsh := hg.shape
          simp only [Shape] at hsh
          obtain ⟨⟨kdt, vdt, rfl, _⟩, _⟩ := hsh
          refine Bl.mono (fun q hq => hc q ?_) (dict_scalar_bl hg ha (hfail kdt vdt rfl _))
          rw [blameScalarAt_int .u8 .u8 0 x.toNat]; exact hq
        | _ => simp [B.isDict] at hd
      · have hd' : el.isDict = false := by simpa using hd
        rw [blameScalarAt_of_not_dict hg.shape hd'] at hc
        exact Bl.ctx_self el (by rw [ha.path]; exact hc _ (List.mem_singleton.2 rfl))
          (@NoCtx.bl _ _ _ (pushScalar_noctx ext el _ hd'))
    refine Bl.bind (NoCtx.bl _) fun _ _ => Bl.bind hstep fun el' h' => ?_
    have h'' := (Build.ctx_ok _ _ _).1 h'
    exact pushByteElems_bl ext large hc hfail rest el' _ (hg.pushScalar h'')
      (ha.of_takeRest (pushScalar_takeRest ext el _ el' h''))

set_option linter.unusedSectionVars false
variable (ext : Ext) [ExtPlain ext]

mutual
theorem push_bl : ∀ (x : SVal), noRaw x = true → ∀ (b : B) (path : String) (dt : DataType) (n : Bool)
    (md : Metadata), GoodH b dt n md → At path dt n md b → vsize ext x ≤ room b →
    Bl (blameDT ext path dt n md x) (push ext b x)
  | .some v, hraw => by
    intro b path dt n md hg ha hcap
    simp only [vsize] at hcap
    rw [push, blameDT]
    exact push_bl v (by simpa [noRaw] using hraw) b path dt n md hg ha (by omega)
  | .newtypeStruct _ v, hraw => by
    intro b path dt n md hg ha hcap
    simp only [vsize] at hcap
    rw [push, blameDT]
    exact push_bl v (by simpa [noRaw] using hraw) b path dt n md hg ha (by omega)
  | .none, hraw => by
    intro b path dt n md hg ha hcap
    by_cases hi : (interpDT ext dt n md .none).isOk = true
    · exact bl_of_interp_ok hg hraw hcap hi
    · rw [push]
      have : blameDT ext path dt n md .none = [path] := by simp [blameDT, hi, blameScalarAt_of_nostr (x := .none) rfl]
      rw [this]
      exact pushNone_bl hg ha (by simp only [vsize] at hcap; exact hcap)
  | .unit, hraw => by
    intro b path dt n md hg ha hcap
    by_cases hi : (interpDT ext dt n md .unit).isOk = true
    · exact bl_of_interp_ok hg hraw hcap hi
    · have : blameDT ext path dt n md .unit = [path] := by simp [blameDT, hi, blameScalarAt_of_nostr (x := .unit) rfl]
      rw [this]
      unfold push
      split
      · exact Bl.ctx_self _ (by rw [ha.path]; exact List.mem_singleton.2 rfl) (NoCtx.bl _)
      · exact pushNone_bl hg ha (by simp only [vsize] at hcap; exact hcap)
  | .bool v, hraw => by
    intro b path dt n md hg ha hcap
    exact scalar_bl hg ha hraw hcap (by simp [blameDT]) (by rintro k v rfl; simp [interpDT, isUnknownVariant]) (by rw [push])
  | .int t v, hraw => by
    intro b path dt n md hg ha hcap
    exact scalar_bl hg ha hraw hcap (by simp [blameDT]) (by rintro k v rfl; simp [interpDT, isUnknownVariant]) (by rw [push])
  | .f32 v, hraw => by
    intro b path dt n md hg ha hcap
    exact scalar_bl hg ha hraw hcap (by simp [blameDT]) (by rintro k v rfl; simp [interpDT, isUnknownVariant]) (by rw [push])
  | .f64 v, hraw => by
    intro b path dt n md hg ha hcap
    exact scalar_bl hg ha hraw hcap (by simp [blameDT]) (by rintro k v rfl; simp [interpDT, isUnknownVariant]) (by rw [push])
  | .char v, hraw => by
    intro b path dt n md hg ha hcap
    exact scalar_bl hg ha hraw hcap (by simp [blameDT]) (by rintro k v rfl; simp [interpDT, isUnknownVariant]) (by rw [push])
  | .str v, hraw => by
    intro b path dt n md hg ha hcap
    exact scalar_bl hg ha hraw hcap (by simp [blameDT]) (by rintro k v rfl; simp [interpDT, isUnknownVariant]) (by rw [push])
  | .unitStruct v, hraw => by
    intro b path dt n md hg ha hcap
    by_cases hi : (interpDT ext dt n md (.unitStruct v)).isOk = true
    · exact bl_of_interp_ok hg hraw hcap hi
    · have : blameDT ext path dt n md (.unitStruct v) = [path] := by
        simp [blameDT, hi, blameScalarAt_of_nostr (x := .unitStruct v) rfl]
      rw [this]
      unfold push
      split
      · exact Bl.ctx_self _ (by rw [ha.path]; exact List.mem_singleton.2 rfl) (NoCtx.bl _)
      · exact pushNone_bl hg ha (by simp only [vsize] at hcap; exact hcap)
  | .bytes bs, hraw => by
    intro b path dt n md hg ha hcap
    by_cases hi : (interpDT ext dt n md (.bytes bs)).isOk = true
    · exact bl_of_interp_ok hg hraw hcap hi
    · have hi' := not_isOk_false hi
      have hself : b.path ∈ blameDT ext path dt n md (.bytes bs) := by rw [ha.path]; exact bytes_self_mem hi'
      unfold push
      refine Bl.ctx_self b hself ?_
      cases b with
      | list p large fm v offs el =>
        have hsh := hg.shape
        simp only [Shape] at hsh
        obtain ⟨_, cname, cdt, cn, cmd, hdt, hsel⟩ := hsh
        have hael : At (path ++ "." ++ childName cname) cdt cn cmd el := by
          cases large
          · simp only [Bool.false_eq_true, if_false] at hdt; subst hdt; exact At.list (.inl ha)
          · simp only [if_true] at hdt; subst hdt; exact At.list (.inr ha)
        have hc : ∀ q ∈ blameScalarAt ext (path ++ "." ++ childName cname) cdt (.int .u8 0),
            q ∈ blameDT ext path dt n md (.bytes bs) := by
          cases large
          · simp only [Bool.false_eq_true, if_false] at hdt; subst hdt; intro q hq; simp [blameDT, hi', hq]
          · simp only [if_true] at hdt; subst hdt; intro q hq; simp [blameDT, hi', hq]
        have hgel : GoodH el cdt cn cmd := by
          have hw := hg.wf
          have hnd := hg.nd
          have ht := hg.tot
          simp only [WFH] at hw
          simp only [NoDictKey] at hnd
          exact ⟨hw.2.2, hnd, hsel, by cases large <;> (simp only [Bool.false_eq_true, if_false, if_true] at hdt; subst hdt; simpa [total, totalF] using ht)⟩
        -- a dictionary element with string values gives every byte a meaning: then the whole value has one
        have hfail : ∀ k v, cdt = .dictionary k v → ∀ y, (interpScalar ext cdt (.int .u8 y)).isOk = false := by
          rintro k v rfl y
          obtain ⟨_, _, _, _, rfl⟩ := Shape_dict_form hsel
          have hsh := hsel
          simp only [Shape] at hsh
          obtain ⟨⟨kdt', vdt', heq, hsv⟩, _, _, hu⟩ := hsh
          cases heq
          rcases hu with hu | hr
          · exfalso
            obtain ⟨ls, hls⟩ := mapM_interp_dict_utf8 (ext := ext) (kdt := k) hsv hu bs
            cases large
            · simp only [Bool.false_eq_true, if_false] at hdt; subst hdt
              simp [interpDT, isUnknownVariant, hls, R.isOk, bind, Except.bind, pure, Except.pure] at hi'
            · simp only [if_true] at hdt; subst hdt
              simp [interpDT, isUnknownVariant, hls, R.isOk, bind, Except.bind, pure, Except.pure] at hi'
          · have hall : ∀ s, (interpDictStr ext v s).isOk = false := fun s => by
              obtain ⟨e, he⟩ := interpDictStr_refused ext s hsv hr
              rw [he]; rfl
            simp only [interpScalar_eq_old, normErr_isOk, interpScalarOld, scalarToString]
            exact hall _
        exact Bl.bind (NoCtx.bl _) fun _ _ => Bl.bind (NoCtx.bl _) fun _ _ =>
          Bl.bind (pushByteElems_bl ext large hc hfail bs el _ hgel hael) fun _ _ => Bl.of_ok _
      | _ => exact @NoCtx.bl _ _ _ (pushScalar_nostr_noctx ext _ _ rfl)
  | .seq xs, hraw => by
    intro b path dt n md hg ha hcap
    have hraw' : noRaws xs = true := by simpa [noRaw] using hraw
    by_cases hi : (interpDT ext dt n md (.seq xs)).isOk = true
    · exact bl_of_interp_ok hg hraw hcap hi
    · simp only [vsize] at hcap
      rw [push, blameDT_seq_eq (not_isOk_false hi)]
      exact seqLike_bl (pushElems_bl xs hraw') (pushCountElems_bl xs hraw') (pushTupleElems_bl xs hraw') .seq hg ha hcap
  | .tuple xs, hraw => by
    intro b path dt n md hg ha hcap
    have hraw' : noRaws xs = true := by simpa [noRaw] using hraw
    by_cases hi : (interpDT ext dt n md (.tuple xs)).isOk = true
    · exact bl_of_interp_ok hg hraw hcap hi
    · simp only [vsize] at hcap
      rw [push, blameDT_tuple_eq (not_isOk_false hi)]
      exact seqLike_bl (pushElems_bl xs hraw') (pushCountElems_bl xs hraw') (pushTupleElems_bl xs hraw') .tuple hg ha hcap
  | .tupleStruct nm xs, hraw => by
    intro b path dt n md hg ha hcap
    have hraw' : noRaws xs = true := by simpa [noRaw] using hraw
    by_cases hi : (interpDT ext dt n md (.tupleStruct nm xs)).isOk = true
    · exact bl_of_interp_ok hg hraw hcap hi
    · have hi' : (interpDT ext dt n md (.tuple xs)).isOk = false := by
        have := not_isOk_false hi
        simpa only [interpDT] using this
      simp only [vsize] at hcap
      rw [push, blameDT_tupleStruct_eq hi']
      exact seqLike_bl (pushElems_bl xs hraw') (pushCountElems_bl xs hraw') (pushTupleElems_bl xs hraw') .tupleStruct hg ha hcap
  | .record nm fields, hraw => by
    intro b path dt n md hg ha hcap
    have hraw' : noRawf fields = true := by simpa [noRaw] using hraw
    by_cases hi : (interpDT ext dt n md (.record nm fields)).isOk = true
    · exact bl_of_interp_ok hg hraw hcap hi
    · simp only [vsize] at hcap
      rw [push, blameDT_record_eq (not_isOk_false hi)]
      exact recordLike_bl (pushFields_bl fields hraw') hg ha hcap
  | .map es, hraw => by
    intro b path dt n md hg ha hcap
    have hraw' : noRawe es = true := by simpa [noRaw] using hraw
    by_cases hi : (interpDT ext dt n md (.map es)).isOk = true
    · exact bl_of_interp_ok hg hraw hcap hi
    · simp only [vsize] at hcap
      rw [push_map_eq, blameDT_map_eq (not_isOk_false hi)]
      exact mapLike_bl (pushStructEntries_bl es hraw') (pushMapEntries_bl es hraw') hg ha hcap
  | .mapRaw _, hraw => by simp [noRaw] at hraw
  | .unitVariant a i vn, hraw => by
    intro b path dt n md hg ha hcap
    by_cases hi : (interpDT ext dt n md (.unitVariant a i vn)).isOk = true
    · exact bl_of_interp_ok hg hraw hcap hi
    · have hi' := not_isOk_false hi
      unfold push
      cases b with
      | union p fs types offs cur =>
        have hsh := hg.shape
        simp only [Shape] at hsh
        obtain ⟨ufs, mode, rfl, _⟩ := hsh
        refine union_row_bl (i := i) (pc := fun c => match c with
            | .unknownVariant _ => ctx c.ann (SaModel.fail "Unknown variant does not support serialize_unit")
            | _ => pushNone c) hg ha (fun hn => by simp [blameDT, hi', hn])
          (by have := vsize_pos ext (.unitVariant a i vn); simp only [room] at hcap; omega)
          (fun tid nm cdt cn cmd c hufs hgc hac hrc => ?_) (fun c msg => ?_)
        · have hS : blameDT ext path (.union ufs mode) n md (.unitVariant a i vn) = [path ++ "." ++ childName nm] := by
            simp [blameDT, hi', hufs]
          rw [hS]
          split
          · exact Bl.ctx_self _ (by rw [hac.path]; exact List.mem_singleton.2 rfl) (NoCtx.bl _)
          · exact pushNone_bl hgc hac (by have := vsize_pos ext (.unitVariant a i vn); simp only [room] at hcap; omega)
        · split
          · rw [ann_eq_posAnn]; exact ctx_never_plain _ _ _
          · exact pushNone_never_plain c msg
      | dictionary p idx vals index =>
        -- a dictionary column takes the variant's name as a string: the value child is blamed for refusing it
        have hsh := hg.shape
        simp only [Shape] at hsh
        obtain ⟨⟨kdt, vdt, rfl, _⟩, _⟩ := hsh
        have hS : blameDT ext path (.dictionary kdt vdt) n md (.unitVariant a i vn) =
            blameScalarAt ext path (.dictionary kdt vdt) (.unitVariant a i vn) := by simp [blameDT, hi']
        rw [hS]
        exact dict_scalar_bl hg ha (by simpa [interpDT] using hi')
      | null _ _ | unknownVariant _ | leaf _ _ _ _ | bytes _ _ _ _ _ | bytesView _ _ _ _ _ | fixedSizeBinary _ _ _ _ _ _
      | list _ _ _ _ _ _ | fixedSizeList _ _ _ _ _ _ _ | map _ _ _ _ _ _ | struct _ _ _ _ _ _ _ =>
        exact Bl.ctx_self _ (by rw [ha.path]; exact unitVariant_self_mem hg.shape rfl rfl hi')
          (@NoCtx.bl _ _ _ (pushScalar_noctx ext _ _ rfl))
  | .newtypeVariant a i vn v, hraw => by
    intro b path dt n md hg ha hcap
    have hraw' : noRaw v = true := by simpa [noRaw] using hraw
    by_cases hi : (interpDT ext dt n md (.newtypeVariant a i vn v)).isOk = true
    · exact bl_of_interp_ok hg hraw hcap hi
    · have hi' := not_isOk_false hi
      simp only [vsize] at hcap
      unfold push
      cases b with
      | union p fs types offs cur =>
        have hsh := hg.shape
        simp only [Shape] at hsh
        obtain ⟨ufs, mode, rfl, _⟩ := hsh
        simp only [room] at hcap
        refine union_row_bl (i := i) (pc := fun c => push ext c v) hg ha (fun hn => by simp [blameDT, hi', hn])
          (by have := vsize_pos ext v; omega)
          (fun tid nm cdt cn cmd c hufs hgc hac hrc => ?_) (fun c msg => push_never_plain ext v c msg)
        have hS : blameDT ext path (.union ufs mode) n md (.newtypeVariant a i vn v) =
            (if (blameDT ext (path ++ "." ++ childName nm) cdt cn cmd v).isEmpty then [path]
             else blameDT ext (path ++ "." ++ childName nm) cdt cn cmd v) := by
          simp [blameDT, hi', hufs]
        rw [hS]
        exact Bl.mono mem_ite_inner (push_bl v hraw' c _ cdt cn cmd hgc hac (by omega))
      | bytes _ ty _ _ _ =>
        exact Bl.ctx_self _ (by rw [ha.path]; exact newtypeVariant_self_mem hg.shape rfl hi') (NoCtx.bl _)
      | bytesView _ ty _ _ _ =>
        exact Bl.ctx_self _ (by rw [ha.path]; exact newtypeVariant_self_mem hg.shape rfl hi') (NoCtx.bl _)
      | null _ _ | unknownVariant _ | leaf _ _ _ _ | fixedSizeBinary _ _ _ _ _ _
      | list _ _ _ _ _ _ | fixedSizeList _ _ _ _ _ _ _ | map _ _ _ _ _ _ | struct _ _ _ _ _ _ _ | dictionary _ _ _ _ =>
        exact Bl.ctx_self _ (by rw [ha.path]; exact newtypeVariant_self_mem hg.shape rfl hi') (NoCtx.bl _)
  | .tupleVariant a i vn xs, hraw => by
    intro b path dt n md hg ha hcap
    have hraw' : noRaws xs = true := by simpa [noRaw] using hraw
    by_cases hi : (interpDT ext dt n md (.tupleVariant a i vn xs)).isOk = true
    · exact bl_of_interp_ok hg hraw hcap hi
    · have hi' := not_isOk_false hi
      simp only [vsize] at hcap
      unfold push
      cases b with
      | union p fs types offs cur =>
        have hsh := hg.shape
        simp only [Shape] at hsh
        obtain ⟨ufs, mode, rfl, _⟩ := hsh
        simp only [room] at hcap
        refine union_row_bl (i := i) (pc := fun c => ctx c.ann (seqLikeWith
            (fun large el offs => pushElems ext large el offs xs) (fun el c => pushCountElems ext el c xs)
            (fun s => pushTupleElems ext s xs) (u8All xs) c .tupleStruct)) hg ha (fun hn => by simp [blameDT, hi', hn]) (by omega)
          (fun tid nm cdt cn cmd c hufs hgc hac hrc => ?_)
          (fun c msg => by rw [ann_eq_posAnn]; exact ctx_never_plain _ _ _)
        exact Bl.mono (seqS_sub_tupleVariant hufs hi')
          (seqLike_bl (pushElems_bl xs hraw') (pushCountElems_bl xs hraw') (pushTupleElems_bl xs hraw') .tupleStruct hgc hac
            (by omega))
      | bytes _ ty _ _ _ =>
        exact Bl.ctx_self _ (by rw [ha.path]; exact tupleVariant_self_mem hg.shape rfl hi') (NoCtx.bl _)
      | bytesView _ ty _ _ _ =>
        exact Bl.ctx_self _ (by rw [ha.path]; exact tupleVariant_self_mem hg.shape rfl hi') (NoCtx.bl _)
      | null _ _ | unknownVariant _ | leaf _ _ _ _ | fixedSizeBinary _ _ _ _ _ _
      | list _ _ _ _ _ _ | fixedSizeList _ _ _ _ _ _ _ | map _ _ _ _ _ _ | struct _ _ _ _ _ _ _ | dictionary _ _ _ _ =>
        exact Bl.ctx_self _ (by rw [ha.path]; exact tupleVariant_self_mem hg.shape rfl hi') (NoCtx.bl _)
  | .structVariant a i vn fields, hraw => by
    intro b path dt n md hg ha hcap
    have hraw' : noRawf fields = true := by simpa [noRaw] using hraw
    by_cases hi : (interpDT ext dt n md (.structVariant a i vn fields)).isOk = true
    · exact bl_of_interp_ok hg hraw hcap hi
    · have hi' := not_isOk_false hi
      simp only [vsize] at hcap
      unfold push
      cases b with
      | union p fs types offs cur =>
        have hsh := hg.shape
        simp only [Shape] at hsh
        obtain ⟨ufs, mode, rfl, _⟩ := hsh
        simp only [room] at hcap
        refine union_row_bl (i := i) (pc := fun c => ctx c.ann (recordWith (fun s => pushFields ext s fields) c)) hg ha
          (fun hn => by simp [blameDT, hi', hn]) (by omega) (fun tid nm cdt cn cmd c hufs hgc hac hrc => ?_)
          (fun c msg => by rw [ann_eq_posAnn]; exact ctx_never_plain _ _ _)
        exact Bl.mono (recS_sub_structVariant hufs hi') (recordLike_bl (pushFields_bl fields hraw') hgc hac (by omega))
      | bytes _ ty _ _ _ =>
        exact Bl.ctx_self _ (by rw [ha.path]; exact structVariant_self_mem hg.shape rfl hi') (NoCtx.bl _)
      | bytesView _ ty _ _ _ =>
        exact Bl.ctx_self _ (by rw [ha.path]; exact structVariant_self_mem hg.shape rfl hi') (NoCtx.bl _)
      | null _ _ | unknownVariant _ | leaf _ _ _ _ | fixedSizeBinary _ _ _ _ _ _
      | list _ _ _ _ _ _ | fixedSizeList _ _ _ _ _ _ _ | map _ _ _ _ _ _ | struct _ _ _ _ _ _ _ | dictionary _ _ _ _ =>
        exact Bl.ctx_self _ (by rw [ha.path]; exact structVariant_self_mem hg.shape rfl hi') (NoCtx.bl _)
theorem pushElems_bl : ∀ (xs : SVals), noRaws xs = true → ElemsBl ext xs
  | .nil, _ => by intro large el offs cpath cdt cn cmd _ _ _; rw [pushElems]; exact Bl.of_ok _
  | .cons x rest, hraw => by
    intro large el offs cpath cdt cn cmd hg ha hcap
    have hraw' : noRaw x = true ∧ noRaws rest = true := by simpa [noRaws] using hraw
    simp only [vsizes] at hcap
    rw [pushElems, blameAll]
    refine Bl.bind (NoCtx.bl _) fun offs' _ => Bl.bind (Bl.mono (fun q hq => List.mem_append_left _ hq)
      (push_bl x hraw'.1 el cpath cdt cn cmd hg ha (by omega))) fun el' h' => ?_
    obtain ⟨hg', hr⟩ := push_step hg hraw'.1 (by omega) h'
    exact Bl.mono (fun q hq => List.mem_append_right _ hq)
      (pushElems_bl rest hraw'.2 large el' offs' cpath cdt cn cmd hg' (ha.push h') (by omega))
theorem pushCountElems_bl : ∀ (xs : SVals), noRaws xs = true → CountBl ext xs
  | .nil, _ => by intro el c cpath cdt cn cmd _ _ _; rw [pushCountElems]; exact Bl.of_ok _
  | .cons x rest, hraw => by
    intro el c cpath cdt cn cmd hg ha hcap
    have hraw' : noRaw x = true ∧ noRaws rest = true := by simpa [noRaws] using hraw
    simp only [vsizes] at hcap
    rw [pushCountElems, blameAll]
    refine Bl.bind (Bl.mono (fun q hq => List.mem_append_left _ hq)
      (push_bl x hraw'.1 el cpath cdt cn cmd hg ha (by omega))) fun el' h' => ?_
    obtain ⟨hg', hr⟩ := push_step hg hraw'.1 (by omega) h'
    exact Bl.mono (fun q hq => List.mem_append_right _ hq)
      (pushCountElems_bl rest hraw'.2 el' (c + 1) cpath cdt cn cmd hg' (ha.push h') (by omega))
theorem pushTupleElems_bl : ∀ (xs : SVals), noRaws xs = true → TupleBl ext xs
  | .nil, _ => by
    intro k S path sfs s j hm hn hs hcap _ hk
    rw [pushTupleElems]
    exact hk s hm (by simpa [SVals.length] using hs) (by simp only [vsizes] at hcap; omega)
  | .cons x rest, hraw => by
    intro k S path sfs s j hm hn hs hcap hin hk
    have hraw' : noRaw x = true ∧ noRaws rest = true := by simpa [noRaws] using hraw
    simp only [vsizes] at hcap
    have hlen : s.fields.length = sfs.toList.length := by
      rw [← BL.names_length, hm.names, List.length_map]
    have hk' : ∀ s', MidS path sfs s' → SeenIs s' ((sfs.toList.map Field.name).take (j + 1 + rest.length)) →
        1 ≤ roomL s'.fields → Blo S path (k s') := by
      intro s' hm' hs' hr'
      refine hk s' hm' ?_ hr'
      have : j + (SVals.cons x rest).length = j + 1 + rest.length := by simp only [SVals.length]; omega
      rw [this]; exact hs'
    rw [pushTupleElems]
    split
    · rename_i hlt
      have hj : s.next = j := by
        rcases hn with h | ⟨h, _⟩
        · exact h
        · omega
      rw [hj] at hlt ⊢
      have hjl : j < sfs.toList.length := by omega
      have hfj : sfs.toList[j]? = some sfs.toList[j] := List.getElem?_eq_getElem hjl
      generalize sfs.toList[j] = f at hfj
      have hname : s.fields.names[j]? = some f.name := by rw [hm.names]; simp [List.getElem?_map, hfj]
      have hndf : (sfs.toList.map Field.name).Nodup := by rw [← hm.names]; exact hm.nodup
      have hdrop : sfs.toList.drop j = f :: sfs.toList.drop (j + 1) := by
        rw [List.drop_eq_getElem_cons hjl]
        congr 1
        have := List.getElem?_eq_getElem hjl
        rw [hfj] at this
        exact (Option.some.inj this).symm
      have htake : (sfs.toList.map Field.name).take (j + 1) = (sfs.toList.map Field.name).take j ++ [f.name] := by
        rw [List.take_add_one]
        simp [List.getElem?_map, hfj]
      rw [bind_assoc]
      refine Blo.bind (element_blo hm hs hname (fun hd => ?_) ?_) fun s1 h1 => ?_
      · exfalso
        rw [← hm.names] at hd hndf
        exact nodup_not_mem_take hndf hname hd
      · intro c m hget
        obtain ⟨f', hfj', _, _, hgc, hac⟩ := hm.kids.get hget
        rw [hfj] at hfj'; cases hfj'
        have hrc : roomL s.fields ≤ room c := roomL_get _ _ _ _ hget
        refine Bl.mono (fun q hq => hin q ?_) (push_bl x hraw'.1 c _ _ _ _ hgc hac (by omega))
        obtain ⟨fname, fdt, fn, fmd⟩ := f
        rw [hdrop]
        simp only [blameNth, List.mem_append]
        exact .inl hq
      · obtain ⟨c, m, c', _, hget, hpc, rfl⟩ := element_ok_inv h1
        obtain ⟨f', hfj', _, _, hgc, hac⟩ := hm.kids.get hget
        rw [hfj] at hfj'; cases hfj'
        have hrc : roomL s.fields ≤ room c := roomL_get _ _ _ _ hget
        obtain ⟨hgc', hroom⟩ := push_step hgc hraw'.1 (by omega) hpc
        have hroomL : roomL s.fields ≤ roomL (s.fields.set j c') + vsize ext x := roomL_set _ _ _ _ _ _ hget hroom
        refine pushTupleElems_bl rest hraw'.2 k S path sfs _ (j + 1) (hm.step hget hfj hgc' (hac.push hpc))
          (.inl rfl) ?_ (show vsizes ext rest + 1 ≤ roomL (s.fields.set j c') by omega) ?_ hk'
        · rw [htake]; exact SeenIs.step hm hs hname
        · intro q hq; apply hin; rw [hdrop]
          obtain ⟨fname, fdt, fn, fmd⟩ := f
          simp only [blameNth, List.mem_append]; exact .inr hq
    · rename_i hge
      have hL : s.fields.length ≤ s.next ∧ s.fields.length ≤ j := by
        rcases hn with h | ⟨h1, h2⟩
        · omega
        · exact ⟨h1, h2⟩
      have htk : ∀ m, j ≤ m → (sfs.toList.map Field.name).take m = (sfs.toList.map Field.name).take j := by
        intro m hm'
        rw [List.take_of_length_le (by rw [List.length_map]; omega), List.take_of_length_le (by rw [List.length_map]; omega)]
      refine pushTupleElems_bl rest hraw'.2 k S path sfs s (j + 1) hm (.inr ⟨hL.1, by omega⟩) ?_ (by omega) ?_ hk'
      · rw [htk (j + 1) (by omega)]; exact hs
      · intro q hq
        rw [List.drop_of_length_le (by omega)] at hq
        simp [blameNth] at hq
theorem pushFields_bl : ∀ (fields : SFields), noRawf fields = true → FieldsBl ext fields
  | .nil, _ => by
    intro k S path sfs s done hm hs hcap _ _ hk
    rw [pushFields]
    exact hk s hm (by simpa [fieldKeys, knownKeys] using hs) (by simp only [vsizef] at hcap; omega)
  | .cons key al x rest, hraw => by
    intro k S path sfs s done hm hs hcap hdup hin hk
    have hraw' : noRaw x = true ∧ noRawf rest = true := by simpa [noRawf] using hraw
    simp only [vsizef] at hcap
    have hls := SaModel.Props.C11Front.lookup_sound s.fields.names s.cached s.next (key, al) hm.nodup hm.cache
    rw [pushFields]
    split
    · rename_i cached' heq
      rw [heq] at hls
      have hnone : indexOfName s.fields.names key = none := hls.1.symm
      have hunk : ∀ (j : Nat), (sfs.toList.map Field.name)[j]? ≠ some key := by
        intro j hj
        rw [← hm.names] at hj
        have := SaModel.Props.C11Front.indexOfName_of_get _ hm.nodup key j hj
        rw [hnone] at this; cases this
      have hk0 : knownKeys sfs.toList (fieldKeys (.cons key al x rest)) = knownKeys sfs.toList (fieldKeys rest) := by
        simp [fieldKeys, knownKeys, any_unknown_of hunk]
      have hb0 : blameFields ext path sfs.toList (.cons key al x rest) = blameFields ext path sfs.toList rest := by
        simp [blameFields, find_none_of hunk]
      rw [hk0] at hdup hk
      rw [hb0] at hin
      exact pushFields_bl rest hraw'.2 k S path sfs _ done (hm.cached cached' hls.2) (hs.cached _) (by simp only; omega)
        hdup hin hk
    · rename_i idx cached' heq
      rw [heq] at hls
      have hidx : indexOfName s.fields.names key = some idx := hls.1.symm
      have hname : s.fields.names[idx]? = some key := SaModel.Props.C11Front.indexOfName_some _ _ _ hidx
      have hname' : (sfs.toList.map Field.name)[idx]? = some key := by rw [← hm.names]; exact hname
      have hk1 : knownKeys sfs.toList (fieldKeys (.cons key al x rest)) = key :: knownKeys sfs.toList (fieldKeys rest) := by
        simp [fieldKeys, knownKeys, any_known_of_get hname']
      have hndf : (sfs.toList.map Field.name).Nodup := by rw [← hm.names]; exact hm.nodup
      rw [hk1] at hdup hk
      have hm1 := hm.cached cached' hls.2
      have hs1 : SeenIs { s with cached := cached' } done := hs.cached _
      rw [bind_assoc]
      refine Blo.bind (element_blo hm1 hs1 hname (fun hd => hdup (dupKeys_mem hd)) ?_) fun s1 h1 => ?_
      · intro c m hget
        obtain ⟨f, hfj, _, _, hgc, hac⟩ := hm.kids.get hget
        have hfk : f.name = key := by
          simp only [List.getElem?_map, hfj, Option.map_some, Option.some.injEq] at hname'
          exact hname'
        have hfind := find_of_get hndf hfj hfk
        have hrc : roomL s.fields ≤ room c := roomL_get _ _ _ _ hget
        refine Bl.mono (fun q hq => hin q ?_) (push_bl x hraw'.1 c _ _ _ _ hgc hac (by omega))
        obtain ⟨fname, fdt, fn, fmd⟩ := f
        simp only [blameFields, hfind, List.mem_append]
        exact .inl hq
      · obtain ⟨c, m, c', _, hget, hpc, rfl⟩ := element_ok_inv h1
        simp only at hget
        obtain ⟨f, hfj, _, _, hgc, hac⟩ := hm.kids.get hget
        have hrc : roomL s.fields ≤ room c := roomL_get _ _ _ _ hget
        obtain ⟨hgc', hroom⟩ := push_step hgc hraw'.1 (by omega) hpc
        have hroomL : roomL s.fields ≤ roomL (s.fields.set idx c') + vsize ext x := roomL_set _ _ _ _ _ _ hget hroom
        refine pushFields_bl rest hraw'.2 k S path sfs _ (done ++ [key]) (hm1.step hget hfj hgc' (hac.push hpc))
          (SeenIs.step hm1 hs1 hname) (show vsizef ext rest + 1 ≤ roomL (s.fields.set idx c') by omega) ?_ ?_ ?_
        · intro hd; apply hdup; simpa [List.append_assoc] using hd
        · intro q hq; apply hin; simp only [blameFields, List.mem_append]; exact .inr hq
        · intro s' hm' hs' hr'; exact hk s' hm' (by simpa [List.append_assoc] using hs') hr'
theorem pushStructEntries_bl : ∀ (es : SEntries), noRawe es = true → EntriesBl ext es
  | .nil, _ => by
    intro k S path sfs s done hm hs hcap _ _ _ hk
    rw [pushStructEntries]
    exact hk s hm (by simpa [entryKeys, knownKeys] using hs) (by simp only [vsizee] at hcap; omega)
  | .cons kx x rest, hraw => by
    intro k S path sfs s done hm hs hcap hdup hkeys hin hk
    have hraw' : (noRaw kx = true ∧ noRaw x = true) ∧ noRawe rest = true := by simpa [noRawe] using hraw
    simp only [vsizee] at hcap
    rw [pushStructEntries, bind_assoc]
    refine Blo.bind ⟨NoCtx.bl _, fun msg h => hkeys (by simp [keysAreStrings, specKey_eq, normErr_ok, normErr_error, h, bind, Except.bind, R.isOk])⟩
      fun key hkey => ?_
    have hkeys' : (keysAreStrings rest).isOk = false → path ∈ S := by
      intro h; apply hkeys
      simpa [keysAreStrings, specKey_eq, normErr_ok, normErr_error, hkey, bind, Except.bind] using h
    have hek : entryKeys (.cons kx x rest) = key :: entryKeys rest := by simp [entryKeys, keyOf_eq, hkey, Except.toOption]
    split
    · rename_i hnone
      have hunk : ∀ (j : Nat), (sfs.toList.map Field.name)[j]? ≠ some key := by
        intro j hj
        rw [← hm.names] at hj
        have := SaModel.Props.C11Front.indexOfName_of_get _ hm.nodup key j hj
        rw [hnone] at this; cases this
      have hk0 : knownKeys sfs.toList (entryKeys (.cons kx x rest)) = knownKeys sfs.toList (entryKeys rest) := by
        rw [hek]; simp [knownKeys, any_unknown_of hunk]
      have hb0 : blameEntriesStruct ext path sfs.toList (.cons kx x rest) = blameEntriesStruct ext path sfs.toList rest := by
        simp [blameEntriesStruct, keyOf_eq, hkey, Except.toOption, find_none_of hunk]
      rw [hk0] at hdup hk
      rw [hb0] at hin
      exact pushStructEntries_bl rest hraw'.2 k S path sfs _ done (hm.next _) (hs.next _) (by simp only; omega)
        hdup hkeys' hin hk
    · rename_i idx hidx
      have hname : s.fields.names[idx]? = some key := SaModel.Props.C11Front.indexOfName_some _ _ _ hidx
      have hname' : (sfs.toList.map Field.name)[idx]? = some key := by rw [← hm.names]; exact hname
      have hk1 : knownKeys sfs.toList (entryKeys (.cons kx x rest)) = key :: knownKeys sfs.toList (entryKeys rest) := by
        rw [hek]; simp [knownKeys, any_known_of_get hname']
      have hndf : (sfs.toList.map Field.name).Nodup := by rw [← hm.names]; exact hm.nodup
      rw [hk1] at hdup hk
      rw [bind_assoc]
      refine Blo.bind (element_blo hm hs hname (fun hd => hdup (dupKeys_mem hd)) ?_) fun s1 h1 => ?_
      · intro c m hget
        obtain ⟨f, hfj, _, _, hgc, hac⟩ := hm.kids.get hget
        have hfk : f.name = key := by
          simp only [List.getElem?_map, hfj, Option.map_some, Option.some.injEq] at hname'
          exact hname'
        have hfind := find_of_get hndf hfj hfk
        have hrc : roomL s.fields ≤ room c := roomL_get _ _ _ _ hget
        have := vsize_pos ext kx
        refine Bl.mono (fun q hq => hin q ?_) (push_bl x hraw'.1.2 c _ _ _ _ hgc hac (by omega))
        obtain ⟨fname, fdt, fn, fmd⟩ := f
        simp only [blameEntriesStruct, keyOf_eq, hkey, Except.toOption, Option.bind_some, hfind, List.mem_append]
        exact .inl hq
      · obtain ⟨c, m, c', _, hget, hpc, rfl⟩ := element_ok_inv h1
        obtain ⟨f, hfj, _, _, hgc, hac⟩ := hm.kids.get hget
        have hrc : roomL s.fields ≤ room c := roomL_get _ _ _ _ hget
        have := vsize_pos ext kx
        obtain ⟨hgc', hroom⟩ := push_step hgc hraw'.1.2 (by omega) hpc
        have hroomL : roomL s.fields ≤ roomL (s.fields.set idx c') + vsize ext x := roomL_set _ _ _ _ _ _ hget hroom
        refine pushStructEntries_bl rest hraw'.2 k S path sfs _ (done ++ [key])
          ((hm.step (nx := idx + 1) hget hfj hgc' (hac.push hpc)).next _)
          ((SeenIs.step (nx := idx + 1) hm hs hname).next _)
          (show vsizee ext rest + 1 ≤ roomL (s.fields.set idx c') by omega) ?_ hkeys' ?_ ?_
        · intro hd; apply hdup; simpa [List.append_assoc] using hd
        · intro q hq; apply hin; simp only [blameEntriesStruct, List.mem_append]; exact .inr hq
        · intro s' hm' hs' hr'; exact hk s' hm' (by simpa [List.append_assoc] using hs') hr'
theorem pushMapEntries_bl : ∀ (es : SEntries), noRawe es = true → MapEntriesBl ext es
  | .nil, _ => by intro offs ks vs kp kdt kn kmd vp vdt vn vmd _ _ _ _ _ _; rw [pushMapEntries]; exact Bl.of_ok _
  | .cons kx x rest, hraw => by
    intro offs ks vs kp kdt kn kmd vp vdt vn vmd hgk hak hgv hav hck hcv
    have hraw' : (noRaw kx = true ∧ noRaw x = true) ∧ noRawe rest = true := by simpa [noRawe] using hraw
    simp only [vsizee] at hck hcv
    rw [pushMapEntries, blameEntriesMap]
    refine Bl.bind (NoCtx.bl _) fun offs' _ => Bl.bind (Bl.mono (fun q hq => List.mem_append_left _ (List.mem_append_left _ hq))
      (push_bl kx hraw'.1.1 ks kp kdt kn kmd hgk hak (by omega))) fun ks' h1 => Bl.bind
      (Bl.mono (fun q hq => List.mem_append_left _ (List.mem_append_right _ hq))
        (push_bl x hraw'.1.2 vs vp vdt vn vmd hgv hav (by omega))) fun vs' h2 => ?_
    obtain ⟨hgk', _⟩ := push_step hgk hraw'.1.1 (by omega) h1
    obtain ⟨hgv', _⟩ := push_step hgv hraw'.1.2 (by omega) h2
    exact Bl.mono (fun q hq => List.mem_append_right _ hq)
      (pushMapEntries_bl rest hraw'.2 offs' ks' vs' kp kdt kn kmd vp vdt vn vmd hgk' (hak.push h1) hgv' (hav.push h2)
        (by omega) (by omega))
end

end SaModel.Props.C18
