import SaModel.Lemmas.C18BlameMap
/-
C18, blame against the specification: a WELL-FORMED raw `serialize_key` / `serialize_value` stream (`.mapRaw ops`
with `isAlternating ops`) is, for the builders, for `Spec.interpDT` and for `Spec.blameDT`, the map `toEntries ops`.
(Single inductions over the stream: the keys and values themselves are not touched.)
-/
namespace SaModel.Props.C18
open SaModel SaModel.Build SaModel.Spec

/-- the entries of an alternating stream -/
def toEntries : SMapOps → SEntries
  | .key k (.value x rest) => .cons k x (toEntries rest)
  | _ => .nil

theorem element_next (s : SS) (n idx : Nat) (pc : B → R B) : SS.element { s with next := n } idx pc = SS.element s idx pc := rfl

/-! ### the builders -/

theorem pushMapOps_alt (ext : Ext) : ∀ (ops : SMapOps) (offs : List Int) (ks vs : B), isAlternating ops = true →
    pushMapOps ext false offs ks vs ops = pushMapEntries ext offs ks vs (toEntries ops)
  | .nil, offs, ks, vs, _ => by simp [pushMapOps, toEntries, pushMapEntries]
  | .key k (.value x rest), offs, ks, vs, h => by
    have h' : isAlternating rest = true := by simpa [isAlternating] using h
    simp only [pushMapOps, toEntries, pushMapEntries, Bool.false_eq_true, if_false, Bool.not_true]
    refine congrArg _ (funext fun offs' => congrArg _ (funext fun ks' => congrArg _ (funext fun vs' => ?_)))
    exact pushMapOps_alt ext rest offs' ks' vs' h'
  | .key k .nil, _, _, _, h => by simp [isAlternating] at h
  | .key k (.key _ _), _, _, _, h => by simp [isAlternating] at h
  | .value _ _, _, _, _, h => by simp [isAlternating] at h

theorem element_length {s s' : SS} {idx : Nat} {pc : B → R B} (h : s.element idx pc = .ok s') :
    s'.fields.length = s.fields.length := by
  obtain ⟨c, m, c', _, _, _, rfl⟩ := element_ok_inv h
  simp only [BL.length_set]

theorem indexOfName_lt (names : List String) (key : String) (idx : Nat) (h : indexOfName names key = some idx) :
    idx < names.length :=
  (List.getElem?_eq_some_iff.1 (SaModel.Props.C11Front.indexOfName_some names key idx h)).1

theorem pushStructOps_alt (ext : Ext) : ∀ (ops : SMapOps) (s : SS), isAlternating ops = true →
    s.fields.length ≤ UNKNOWN_KEY → s.next = UNKNOWN_KEY →
    pushStructOps ext s ops = pushStructEntries ext s (toEntries ops)
  | .nil, s, _, _, _ => by simp [pushStructOps, toEntries, pushStructEntries]
  | .key k (.value x rest), s, h, hbig, hnx => by
    have h' : isAlternating rest = true := by simpa [isAlternating] using h
    simp only [pushStructOps, toEntries, pushStructEntries]
    refine congrArg _ (funext fun key => ?_)
    cases hidx : indexOfName s.fields.names key with
    | none =>
      simp only [Option.getD_none, bne_self_eq_false, Bool.false_eq_true, if_false]
      exact pushStructOps_alt ext rest _ h' hbig rfl
    | some idx =>
      have hlt : idx < s.fields.length := by
        have := indexOfName_lt _ _ _ hidx
        rwa [BL.names_length] at this
      have hne : (idx != UNKNOWN_KEY) = true := by
        simp only [bne_iff_ne, ne_eq]; omega
      simp only [Option.getD_some, hne, if_true, element_next]
      cases he : s.element idx (fun c => push ext c x) with
      | error e => rfl
      | ok s' =>
        simp only [bind, Except.bind]
        exact pushStructOps_alt ext rest _ h' (by simp only; rw [element_length he]; exact hbig) rfl
  | .key k .nil, _, h, _, _ => by simp [isAlternating] at h
  | .key k (.key _ _), _, h, _, _ => by simp [isAlternating] at h
  | .value _ _, _, h, _, _ => by simp [isAlternating] at h

/-- for the builders a well-formed stream is the map of its entries (a struct builder with fewer than `usize::MAX`
fields: the index of a field is then never the `UNKNOWN_KEY` marker) -/
theorem push_mapRaw_alt (ext : Ext) (b : B) (ops : SMapOps) (h : isAlternating ops = true)
    (hbig : ∀ p len v fs c nx sn, b = .struct p len v fs c nx sn → fs.length ≤ UNKNOWN_KEY) :
    push ext b (.mapRaw ops) = push ext b (.map (toEntries ops)) := by
  cases b with
  | struct p len v fs cached next seen =>
    simp only [push]
    congr 1
    cases hs : SS.start ⟨p, len, v, fs, cached, next, seen⟩ with
    | error e => rfl
    | ok s =>
      simp only [bind, Except.bind]
      have hl : s.fields.length ≤ UNKNOWN_KEY := by
        have : s.fields = fs := by
          simp only [SS.start] at hs
          cases hv : setValidity v len true with
          | error e => rw [hv] at hs; cases hs
          | ok v' => rw [hv] at hs; cases hs; rfl
        rw [this]; exact hbig _ _ _ _ _ _ _ rfl
      rw [pushStructOps_alt ext ops { s with next := UNKNOWN_KEY } h hl rfl]
  | map p mm v offs ks vs =>
    simp only [push]
    congr 1
    refine congrArg _ (funext fun v' => congrArg _ (funext fun offs' => ?_))
    rw [pushMapOps_alt ext ops offs' ks vs h]
  | _ => simp only [push]

/-! ### the specification -/

theorem interpByKeyOps_eq (ext : Ext) (name : String) (dt : DataType) (n : Bool) (md : Metadata) : ∀ (ops : SMapOps),
    interpByKeyOps ext name dt n md ops = interpByKey ext name dt n md (toEntries ops)
  | .nil => by simp [interpByKeyOps, keyOf_eq, toEntries, interpByKey, keyOf_eq]
  | .key k (.value x rest) => by
    simp only [interpByKeyOps, keyOf_eq, toEntries, interpByKey, keyOf_eq, interpByKeyOps_eq ext name dt n md rest]
  | .key k .nil => by simp [interpByKeyOps, keyOf_eq, toEntries, interpByKey, keyOf_eq]
  | .key k (.key _ _) => by simp [interpByKeyOps, keyOf_eq, toEntries, interpByKey, keyOf_eq]
  | .value _ _ => by simp [interpByKeyOps, keyOf_eq, toEntries, interpByKey, keyOf_eq]

theorem interpOps_eq (ext : Ext) (kdt : DataType) (kn : Bool) (kmd : Metadata) (vdt : DataType) (vn : Bool) (vmd : Metadata) :
    ∀ (ops : SMapOps), interpOps ext kdt kn kmd vdt vn vmd ops = interpEntries ext kdt kn kmd vdt vn vmd (toEntries ops)
  | .nil => by simp [interpOps, toEntries, interpEntries]
  | .key k (.value x rest) => by
    simp only [interpOps, toEntries, interpEntries, interpOps_eq ext kdt kn kmd vdt vn vmd rest]
  | .key k .nil => by simp [interpOps, toEntries, interpEntries]
  | .key k (.key _ _) => by simp [interpOps, toEntries, interpEntries]
  | .value _ _ => by simp [interpOps, toEntries, interpEntries]

theorem opsKeysAreStrings_eq : ∀ (ops : SMapOps), isAlternating ops = true →
    opsKeysAreStrings ops = keysAreStrings (toEntries ops)
  | .nil, _ => by simp [opsKeysAreStrings, specKey_eq, normErr_ok, normErr_error, toEntries, keysAreStrings, specKey_eq, normErr_ok, normErr_error]
  | .key k (.value x rest), h => by
    have h' : isAlternating rest = true := by simpa [isAlternating] using h
    simp only [opsKeysAreStrings, specKey_eq, normErr_ok, normErr_error, toEntries, keysAreStrings, specKey_eq, normErr_ok, normErr_error, opsKeysAreStrings_eq rest h']
  | .key k .nil, h => by simp [isAlternating] at h
  | .key k (.key _ _), h => by simp [isAlternating] at h
  | .value _ _, h => by simp [isAlternating] at h

theorem interpDT_mapRaw_alt (ext : Ext) (dt : DataType) (n : Bool) (md : Metadata) (ops : SMapOps)
    (h : isAlternating ops = true) : interpDT ext dt n md (.mapRaw ops) = interpDT ext dt n md (.map (toEntries ops)) := by
  simp only [interpDT, h, Bool.not_true, Bool.false_eq_true, if_false, opsKeysAreStrings_eq ops h, interpByKeyOps_eq,
    interpOps_eq]

theorem opsKeys_eq : ∀ (ops : SMapOps), opsKeys ops = entryKeys (toEntries ops)
  | .nil => by simp [opsKeys, toEntries, entryKeys]
  | .key k (.value x rest) => by simp only [opsKeys, toEntries, entryKeys, opsKeys_eq rest]
  | .key k .nil => by simp [opsKeys, toEntries, entryKeys]
  | .key k (.key _ _) => by simp [opsKeys, toEntries, entryKeys]
  | .value _ _ => by simp [opsKeys, toEntries, entryKeys]

theorem blameOpsStruct_eq (ext : Ext) (path : String) (fs : List Field) : ∀ (ops : SMapOps),
    blameOpsStruct ext path fs ops = blameEntriesStruct ext path fs (toEntries ops)
  | .nil => by simp [blameOpsStruct, toEntries, blameEntriesStruct]
  | .key k (.value x rest) => by
    simp only [blameOpsStruct, toEntries, blameEntriesStruct, blameOpsStruct_eq ext path fs rest]
  | .key k .nil => by simp [blameOpsStruct, toEntries, blameEntriesStruct]
  | .key k (.key _ _) => by simp [blameOpsStruct, toEntries, blameEntriesStruct]
  | .value _ _ => by simp [blameOpsStruct, toEntries, blameEntriesStruct]

theorem blameOpsMap_eq (ext : Ext) (kp : String) (kdt : DataType) (knl : Bool) (kmd : Metadata)
    (vp : String) (vdt : DataType) (vnl : Bool) (vmd : Metadata) : ∀ (ops : SMapOps),
    blameOpsMap ext kp kdt knl kmd vp vdt vnl vmd ops = blameEntriesMap ext kp kdt knl kmd vp vdt vnl vmd (toEntries ops)
  | .nil => by simp [blameOpsMap, toEntries, blameEntriesMap]
  | .key k (.value x rest) => by
    simp only [blameOpsMap, toEntries, blameEntriesMap, blameOpsMap_eq ext kp kdt knl kmd vp vdt vnl vmd rest]
  | .key k .nil => by simp [blameOpsMap, toEntries, blameEntriesMap]
  | .key k (.key _ _) => by simp [blameOpsMap, toEntries, blameEntriesMap]
  | .value _ _ => by simp [blameOpsMap, toEntries, blameEntriesMap]

theorem blameDT_mapRaw_alt (ext : Ext) (path : String) (dt : DataType) (n : Bool) (md : Metadata) (ops : SMapOps)
    (h : isAlternating ops = true) :
    blameDT ext path dt n md (.mapRaw ops) = blameDT ext path dt n md (.map (toEntries ops)) := by
  unfold blameDT
  simp only [h, Bool.not_true, Bool.false_eq_true, if_false, interpDT_mapRaw_alt ext dt n md ops h, opsKeys_eq,
    blameOpsStruct_eq, blameOpsMap_eq, opsKeysAreStrings_eq ops h]

end SaModel.Props.C18
