import SaModel.Lemmas.C18BlameUnion
/-
C18, blame against the specification: the rows of the sequence-like, record-like and map-like calls on EVERY builder,
with the element / field / entry loops as hypotheses (`ElemsBl`, `CountBl`, `TupleBl`, `FieldsBl`, `EntriesBl`,
`MapEntriesBl`: what the mutual recursion of `push_bl` proves about `pushElems`, `pushCountElems`, `pushTupleElems`,
`pushFields`, `pushStructEntries`, `pushMapEntries`).

  `seqS`   the blame of a sequence / tuple presented at a position (the arms shared by `.seq`, `.tuple`,
           `.tupleStruct` and the payload of `.tupleVariant` in `Spec.blameDT`)
  `recS`   the same for `serialize_struct` (`.record`, payload of `.structVariant`)
  `mapS`   the same for `serialize_map`
-/
namespace SaModel.Props.C18
open SaModel SaModel.Build SaModel.Spec

/-! ### forms -/

theorem Shape_fsl_form {b : B} {f : Field} {k : Int} {n : Bool} {md : Metadata}
    (h : Shape b (.fixedSizeList f k) n md) : ∃ p fm m len v cur el, b = .fixedSizeList p fm m len v cur el := by
  cases b with
  | fixedSizeList p fm m len v cur el => exact ⟨_, _, _, _, _, _, _, rfl⟩
  | bytes _ ty _ _ _ => cases ty <;> simp [Shape, bytesDT] at h
  | bytesView _ ty _ _ _ => cases ty <;> simp [Shape, viewDT] at h
  | list _ large _ _ _ _ => cases large <;> simp [Shape] at h
  | _ => simp [Shape, kindOf] at h

def isSeqCont : B → Bool
  | .list _ _ _ _ _ _ | .fixedSizeList _ _ _ _ _ _ _ => true
  | _ => false

def isStruct : B → Bool
  | .struct _ _ _ _ _ _ _ => true
  | _ => false

def isList : B → Bool
  | .list _ _ _ _ _ _ => true
  | _ => false

def isUnion : B → Bool
  | .union _ _ _ _ _ => true
  | _ => false

def isMap : B → Bool
  | .map _ _ _ _ _ _ => true
  | _ => false

theorem pushCountElems_not_plain (ext : Ext) : ∀ (xs : SVals) (el : B) (c : Nat) (msg : String),
    pushCountElems ext el c xs ≠ .error (.err msg)
  | .nil, el, c, msg => by simp [pushCountElems]
  | .cons x rest, el, c, msg => by
    intro h
    simp only [pushCountElems] at h
    rcases bind_err_plain h with h | ⟨el', _, h⟩
    · exact push_never_plain ext x el msg h
    · exact pushCountElems_not_plain ext rest el' _ msg h

/-! ### the loops, as hypotheses -/

def ElemsBl (ext : Ext) (xs : SVals) : Prop :=
  ∀ (large : Bool) (el : B) (offs : List Int) (cpath : String) (cdt : DataType) (cn : Bool) (cmd : Metadata),
    GoodH el cdt cn cmd → At cpath cdt cn cmd el → vsizes ext xs ≤ room el →
    Bl (blameAll ext cpath cdt cn cmd xs) (pushElems ext large el offs xs)

def CountBl (ext : Ext) (xs : SVals) : Prop :=
  ∀ (el : B) (c : Nat) (cpath : String) (cdt : DataType) (cn : Bool) (cmd : Metadata),
    GoodH el cdt cn cmd → At cpath cdt cn cmd el → vsizes ext xs ≤ room el →
    Bl (blameAll ext cpath cdt cn cmd xs) (pushCountElems ext el c xs)

/-- the position the next tuple element goes to: field `j`, or beyond the last field (then it is ignored) -/
def NextIs (s : SS) (j : Nat) : Prop := s.next = j ∨ (s.fields.length ≤ s.next ∧ s.fields.length ≤ j)

/-- `pushTupleElems` in continuation-passing style: the names presented so far are the first `j` field names -/
def TupleBl (ext : Ext) (xs : SVals) : Prop :=
  ∀ {β : Type} (k : SS → R β) (S : List String) (path : String) (sfs : Fields) (s : SS) (j : Nat),
    MidS path sfs s → NextIs s j → SeenIs s ((sfs.toList.map Field.name).take j) → vsizes ext xs + 1 ≤ roomL s.fields →
    (∀ q ∈ blameNth ext path (sfs.toList.drop j) xs, q ∈ S) →
    (∀ s', MidS path sfs s' → SeenIs s' ((sfs.toList.map Field.name).take (j + xs.length)) → 1 ≤ roomL s'.fields →
      Blo S path (k s')) →
    Blo S path (pushTupleElems ext s xs >>= k)

def FieldsBl (ext : Ext) (fields : SFields) : Prop :=
  ∀ {β : Type} (k : SS → R β) (S : List String) (path : String) (sfs : Fields) (s : SS) (done : List String),
    MidS path sfs s → SeenIs s done → vsizef ext fields + 1 ≤ roomL s.fields →
    (dupKeys (done ++ knownKeys sfs.toList (fieldKeys fields)) = true → path ∈ S) →
    (∀ q ∈ blameFields ext path sfs.toList fields, q ∈ S) →
    (∀ s', MidS path sfs s' → SeenIs s' (done ++ knownKeys sfs.toList (fieldKeys fields)) → 1 ≤ roomL s'.fields →
      Blo S path (k s')) →
    Blo S path (pushFields ext s fields >>= k)

/-- `pushStructEntries`: additionally a key that is not a string is the struct's own failure -/
def EntriesBl (ext : Ext) (es : SEntries) : Prop :=
  ∀ {β : Type} (k : SS → R β) (S : List String) (path : String) (sfs : Fields) (s : SS) (done : List String),
    MidS path sfs s → SeenIs s done → vsizee ext es + 1 ≤ roomL s.fields →
    (dupKeys (done ++ knownKeys sfs.toList (entryKeys es)) = true → path ∈ S) →
    ((keysAreStrings es).isOk = false → path ∈ S) →
    (∀ q ∈ blameEntriesStruct ext path sfs.toList es, q ∈ S) →
    (∀ s', MidS path sfs s' → SeenIs s' (done ++ knownKeys sfs.toList (entryKeys es)) → 1 ≤ roomL s'.fields →
      Blo S path (k s')) →
    Blo S path (pushStructEntries ext s es >>= k)

def MapEntriesBl (ext : Ext) (es : SEntries) : Prop :=
  ∀ (offs : List Int) (ks vs : B) (kp : String) (kdt : DataType) (kn : Bool) (kmd : Metadata)
    (vp : String) (vdt : DataType) (vn : Bool) (vmd : Metadata),
    GoodH ks kdt kn kmd → At kp kdt kn kmd ks → GoodH vs vdt vn vmd → At vp vdt vn vmd vs →
    vsizee ext es ≤ room ks → vsizee ext es ≤ room vs →
    Bl (blameEntriesMap ext kp kdt kn kmd vp vdt vn vmd es) (pushMapEntries ext offs ks vs es)

/-! ### sequences, tuples, tuple structs (and the payload of a tuple variant) -/

/-- what `Spec.blameDT` blames for a sequence (`tup = false`) / a tuple or tuple struct (`tup = true`) at a position
of type `dt` where the documented mapping is undefined -/
def seqS (ext : Ext) (path : String) (dt : DataType) (tup : Bool) (xs : SVals) : List String :=
  match dt with
  | .list (.mk cn cdt cnl cmd) | .largeList (.mk cn cdt cnl cmd) =>
    let inner := blameAll ext (path ++ "." ++ childName cn) cdt cnl cmd xs
    if inner.isEmpty then [path] else inner
  | .fixedSizeList (.mk cn cdt cnl cmd) n =>
    let inner := blameAll ext (path ++ "." ++ childName cn) cdt cnl cmd xs
    (if ((xs.length : Int) != n) || inner.isEmpty then [path] else []) ++ inner
  | .struct fs =>
    if tup then structS path fs.toList (positionalKeys fs.toList xs.length) false (blameNth ext path fs.toList xs)
    else [path]
  | _ => [path]

theorem blameDT_seq_eq {ext : Ext} {path : String} {dt n md} {xs : SVals}
    (hi : (interpDT ext dt n md (.seq xs)).isOk = false) :
    blameDT ext path dt n md (.seq xs) = seqS ext path dt false xs := by
  cases dt
  case list f => obtain ⟨a, b, c, d⟩ := f; simp [blameDT, seqS, hi]
  case largeList f => obtain ⟨a, b, c, d⟩ := f; simp [blameDT, seqS, hi]
  case fixedSizeList f k => obtain ⟨a, b, c, d⟩ := f; simp [blameDT, seqS, hi]
  all_goals simp [blameDT, seqS, hi]

theorem blameDT_tuple_eq {ext : Ext} {path : String} {dt n md} {xs : SVals}
    (hi : (interpDT ext dt n md (.tuple xs)).isOk = false) :
    blameDT ext path dt n md (.tuple xs) = seqS ext path dt true xs := by
  cases dt
  case list f => obtain ⟨a, b, c, d⟩ := f; simp [blameDT, seqS, hi]
  case largeList f => obtain ⟨a, b, c, d⟩ := f; simp [blameDT, seqS, hi]
  case fixedSizeList f k => obtain ⟨a, b, c, d⟩ := f; simp [blameDT, seqS, hi]
  case struct fs => simp [blameDT, seqS, hi, structS]
  all_goals simp [blameDT, seqS, hi]

theorem blameDT_tupleStruct_eq {ext : Ext} {path : String} {dt n md} {nm : String} {xs : SVals}
    (hi : (interpDT ext dt n md (.tuple xs)).isOk = false) :
    blameDT ext path dt n md (.tupleStruct nm xs) = seqS ext path dt true xs := by
  cases dt
  case list f => obtain ⟨a, b, c, d⟩ := f; simp [blameDT, seqS, hi]
  case largeList f => obtain ⟨a, b, c, d⟩ := f; simp [blameDT, seqS, hi]
  case fixedSizeList f k => obtain ⟨a, b, c, d⟩ := f; simp [blameDT, seqS, hi]
  case struct fs => simp [blameDT, seqS, hi, structS]
  all_goals simp [blameDT, seqS, hi]

/-- the payload of a tuple variant is blamed as a tuple at the variant's column -/
theorem seqS_sub_tupleVariant {ext : Ext} {path : String} {ufs : UFields} {mode : UnionMode} {n md} {a : String} {i : Nat}
    {vn : String} {xs : SVals} {tid : Int} {nm : String} {cdt : DataType} {cn : Bool} {cmd : Metadata}
    (hufs : ufs.toList[i]? = some (tid, .mk nm cdt cn cmd))
    (hi : (interpDT ext (.union ufs mode) n md (.tupleVariant a i vn xs)).isOk = false) :
    ∀ q ∈ seqS ext (path ++ "." ++ childName nm) cdt true xs,
      q ∈ blameDT ext path (.union ufs mode) n md (.tupleVariant a i vn xs) := by
  intro q hq
  cases cdt
  case list f => obtain ⟨a, b, c, d⟩ := f; simpa [blameDT, seqS, hi, hufs] using hq
  case largeList f => obtain ⟨a, b, c, d⟩ := f; simpa [blameDT, seqS, hi, hufs] using hq
  case fixedSizeList f k => obtain ⟨a, b, c, d⟩ := f; simpa [blameDT, seqS, hi, hufs] using hq
  case struct fs => simpa [blameDT, seqS, hi, hufs, structS] using hq
  all_goals (simp [seqS] at hq; simp [blameDT, hi, hufs, hq])

theorem seqS_self {ext : Ext} {b : B} {path : String} {dt n md} {tup : Bool} {xs : SVals} (hsh : Shape b dt n md)
    (hb : isSeqCont b = false) (hs : isStruct b = false ∨ tup = false) : path ∈ seqS ext path dt tup xs := by
  cases dt
  case list f =>
    obtain ⟨_, _, _, _, _, _, rfl⟩ := Shape_list_form (.inl hsh); simp [isSeqCont] at hb
  case largeList f =>
    obtain ⟨_, _, _, _, _, _, rfl⟩ := Shape_list_form (.inr hsh); simp [isSeqCont] at hb
  case fixedSizeList f k =>
    obtain ⟨_, _, _, _, _, _, _, rfl⟩ := Shape_fsl_form hsh; simp [isSeqCont] at hb
  case struct sfs =>
    obtain ⟨_, _, _, _, _, _, _, rfl⟩ := Shape_struct_form hsh
    rcases hs with hs | hs
    · simp [isStruct] at hs
    · subst hs; simp [seqS]
  all_goals simp [seqS]

theorem knownKeys_positional (fs : List Field) (n : Nat) :
    knownKeys fs (positionalKeys fs n) = (fs.map Field.name).take n := by
  simp only [knownKeys, positionalKeys, List.map_take]
  rw [List.filter_eq_self]
  intro k hk
  obtain ⟨f, hf, rfl⟩ := List.mem_map.1 (List.mem_of_mem_take hk)
  exact List.any_eq_true.2 ⟨f, hf, by simp⟩

/-- `serialize_seq` / `serialize_tuple` / `serialize_tuple_struct` on every builder family -/
theorem seqLike_bl {ext : Ext} [ExtPlain ext] {xs : SVals} (hpe : ElemsBl ext xs) (hpc : CountBl ext xs)
    (hpt : TupleBl ext xs) (k : SeqKind) {b : B} {path : String} {dt n md} (hg : GoodH b dt n md)
    (ha : At path dt n md b) (hcap : vsizes ext xs + 1 ≤ room b) :
    Bl (seqS ext path dt (k != .seq) xs) (ctx b.ann (seqLikeWith (fun large el offs => pushElems ext large el offs xs)
      (fun el c => pushCountElems ext el c xs) (fun s => pushTupleElems ext s xs) (u8All xs) b k)) := by
  cases b with
  | list p large fm v offs el =>
    have hp : p = path := ha.path
    have hsh := hg.shape
    simp only [Shape] at hsh
    obtain ⟨_, cname, cdt, cn, cmd, hdt, hsel⟩ := hsh
    have hgel := GoodH.list_el hg hdt hsel
    have hael : At (path ++ "." ++ childName cname) cdt cn cmd el := by
      cases large
      · simp only [Bool.false_eq_true, if_false] at hdt; subst hdt; exact At.list (.inl ha)
      · simp only [if_true] at hdt; subst hdt; exact At.list (.inr ha)
    have hS : seqS ext path dt (k != .seq) xs =
        (if (blameAll ext (path ++ "." ++ childName cname) cdt cn cmd xs).isEmpty then [path]
         else blameAll ext (path ++ "." ++ childName cname) cdt cn cmd xs) := by
      cases large
      · simp only [Bool.false_eq_true, if_false] at hdt; subst hdt; simp [seqS]
      · simp only [if_true] at hdt; subst hdt; simp [seqS]
    have hroom : vsizes ext xs ≤ room el := by simp only [room] at hcap; omega
    rw [hS, ← hp]
    exact list_row_bl hg.wf hcap fun offs' l hl h0 hle =>
      ⟨hp ▸ hpe large el offs' _ cdt cn cmd hgel hael hroom,
        fun msg => pushElems_not_plain ext large xs el offs' l msg hl h0 hle⟩
  | fixedSizeList p fm m len v cur el =>
    have hp : p = path := ha.path
    have hsh := hg.shape
    simp only [Shape] at hsh
    obtain ⟨_, cname, cdt, cn, cmd, hdt, hsel⟩ := hsh
    subst hdt
    have hw := hg.wf
    simp only [WFH] at hw
    have hsafe := hg.nd
    simp only [NoDictKey] at hsafe
    have ht := hg.tot
    simp only [total, totalF, Bool.and_eq_true] at ht
    have hgel : GoodH el cdt cn cmd := ⟨hw.2.2, hsafe, hsel, ht.1⟩
    have hael := ha.fixedSizeList
    have hS : seqS ext path (.fixedSizeList (.mk cname cdt cn cmd) (m : Int)) (k != .seq) xs =
        (if ((xs.length : Int) != (m : Int)) || (blameAll ext (path ++ "." ++ childName cname) cdt cn cmd xs).isEmpty
          then [path] else []) ++ blameAll ext (path ++ "." ++ childName cname) cdt cn cmd xs := by
      simp [seqS]
    have hroom : vsizes ext xs ≤ room el := by simp only [room] at hcap; omega
    rw [hS, ← hp]
    exact fsl_row_bl (fun r hr => by simpa using pushCountElems_count ext xs el 0 r hr)
      (hp ▸ hpc el 0 _ cdt cn cmd hgel hael hroom)
      (fun msg => pushCountElems_not_plain ext xs el 0 msg)
  | struct p len v fs cached next seen =>
    cases k with
    | seq =>
      refine Bl.ctx_self _ (by rw [ha.path]; exact seqS_self hg.shape rfl (.inr (by decide))) ?_
      unfold seqLikeWith; exact NoCtx.bl _
    | tuple | tupleStruct =>
      have hsh := hg.shape
      simp only [Shape] at hsh
      obtain ⟨_, sfs, rfl, hsl⟩ := hsh
      have hS : seqS ext path (.struct sfs) true xs =
          structS path sfs.toList (positionalKeys sfs.toList xs.length) false (blameNth ext path sfs.toList xs) := by
        simp [seqS]
      first
        | rw [show (SeqKind.tuple != SeqKind.seq) = true from by decide, hS]
        | rw [show (SeqKind.tupleStruct != SeqKind.seq) = true from by decide, hS]
      unfold seqLikeWith
      simp only [room] at hcap
      refine struct_row_bl hg ha fun kk s hm hs hfs hnx hk => ?_
      refine hpt kk _ path sfs s 0 hm (.inl hnx) (by simpa using hs) (by rw [hfs]; omega)
        (fun q hq => mem_structS_inner q (by simpa using hq)) ?_
      intro s' hm' hs' hr'
      refine hk s' hm' ?_ hr'
      rw [knownKeys_positional]
      simpa using hs'
  | null _ _ | unknownVariant _ | leaf _ _ _ _ | bytes _ _ _ _ _ | bytesView _ _ _ _ _ | fixedSizeBinary _ _ _ _ _ _
  | map _ _ _ _ _ _ | dictionary _ _ _ _ | union _ _ _ _ _ =>
    refine Bl.ctx_self _ (by rw [ha.path]; exact seqS_self hg.shape rfl (.inl rfl)) ?_
    unfold seqLikeWith; exact NoCtx.bl _

/-- the only plain error of `ListBuilder::serialize_bytes`' element loop is the overflow of the offsets the list owns
(the element builder annotates its own errors) -/
theorem pushByteElems_plain (ext : Ext) (large : Bool) : ∀ (bs : Bytes) (el : B) (offs : List Int) (l : Int) (msg : String),
    offs.getLast? = some l → 0 ≤ l → pushByteElems ext large el offs bs = .error (.err msg) →
    msg = "offset overflow" ∧ l + bs.length > offMax large
  | [], el, offs, l, msg, _, _, h => by simp [pushByteElems] at h
  | x :: rest, el, offs, l, msg, hl, h0, h => by
    simp only [pushByteElems] at h
    simp only [List.length_cons]
    by_cases hov : l + ((1 : Nat) : Int) > offMax large
    · have hinc : incrementLast true large offs 1 = .error (.err "offset overflow") := by
        unfold incrementLast
        simp only [hl]
        have h1 : ¬ (((1 : Nat) : Int) > offMax large) := by cases large <;> simp [offMax]
        rw [if_neg h1, if_pos hov]; rfl
      rw [hinc] at h
      simp only [bind, Except.bind] at h
      cases h
      exact ⟨rfl, by omega⟩
    · have hinc : incrementLast true large offs 1 = .ok (offs.dropLast ++ [l + ((1 : Nat) : Int)]) := by
        unfold incrementLast
        simp only [hl]
        have h1 : ¬ (((1 : Nat) : Int) > offMax large) := by cases large <;> simp [offMax]
        rw [if_neg h1, if_neg hov]
      rw [hinc] at h
      rcases bind_err_plain h with h | ⟨o, ho, h⟩
      · cases h
      · cases ho
        rcases bind_err_plain h with h | ⟨el', _, h⟩
        · rw [ann_eq_posAnn] at h; exact absurd h (ctx_never_plain _ _ msg)
        · obtain ⟨hm, hgt⟩ := pushByteElems_plain ext large rest el' _ (l + ((1 : Nat) : Int)) msg (by simp) (by omega) h
          exact ⟨hm, by omega⟩

/-! ### `serialize_struct` (and the payload of a struct variant) -/

def recS (ext : Ext) (path : String) (dt : DataType) (fields : SFields) : List String :=
  match dt with
  | .struct fs => structS path fs.toList (fieldKeys fields) false (blameFields ext path fs.toList fields)
  | _ => [path]

theorem blameDT_record_eq {ext : Ext} {path : String} {dt n md} {nm : String} {fields : SFields}
    (hi : (interpDT ext dt n md (.record nm fields)).isOk = false) :
    blameDT ext path dt n md (.record nm fields) = recS ext path dt fields := by
  have hi' : (interpDT ext dt n md (.record "" fields)).isOk = false := by
    simpa only [interpDT] using hi
  cases dt
  case struct fs => simp [blameDT, recS, hi', structS]
  all_goals simp [blameDT, recS, hi']

theorem recS_sub_structVariant {ext : Ext} {path : String} {ufs : UFields} {mode : UnionMode} {n md} {a : String} {i : Nat}
    {vn : String} {fields : SFields} {tid : Int} {nm : String} {cdt : DataType} {cn : Bool} {cmd : Metadata}
    (hufs : ufs.toList[i]? = some (tid, .mk nm cdt cn cmd))
    (hi : (interpDT ext (.union ufs mode) n md (.structVariant a i vn fields)).isOk = false) :
    ∀ q ∈ recS ext (path ++ "." ++ childName nm) cdt fields,
      q ∈ blameDT ext path (.union ufs mode) n md (.structVariant a i vn fields) := by
  intro q hq
  cases cdt
  case struct fs => simpa [blameDT, recS, hi, hufs, structS] using hq
  all_goals (simp [recS] at hq; simp [blameDT, hi, hufs, hq])

theorem recS_self {ext : Ext} {b : B} {path : String} {dt n md} {fields : SFields} (hsh : Shape b dt n md)
    (hb : isStruct b = false) : path ∈ recS ext path dt fields := by
  cases dt
  case struct sfs =>
    obtain ⟨_, _, _, _, _, _, _, rfl⟩ := Shape_struct_form hsh; simp [isStruct] at hb
  all_goals simp [recS]

/-- `serialize_struct` on every builder family -/
theorem recordLike_bl {ext : Ext} [ExtPlain ext] {fields : SFields} (hpf : FieldsBl ext fields) {b : B} {path : String}
    {dt n md} (hg : GoodH b dt n md) (ha : At path dt n md b) (hcap : vsizef ext fields + 1 ≤ room b) :
    Bl (recS ext path dt fields) (ctx b.ann (recordWith (fun s => pushFields ext s fields) b)) := by
  cases b with
  | struct p len v fs cached next seen =>
    have hsh := hg.shape
    simp only [Shape] at hsh
    obtain ⟨_, sfs, rfl, hsl⟩ := hsh
    have hS : recS ext path (.struct sfs) fields =
        structS path sfs.toList (fieldKeys fields) false (blameFields ext path sfs.toList fields) := by
      simp [recS]
    rw [hS]
    unfold recordWith
    simp only [room] at hcap
    refine struct_row_bl hg ha fun k s hm hs hfs _ hk => ?_
    exact hpf k _ path sfs s [] hm hs (by rw [hfs]; omega)
      (fun hd => mem_structS_own (by simp only [structOwnFails, Bool.or_eq_true]; left; simpa [knownKeys] using hd))
      mem_structS_inner (by simpa using hk)
  | unknownVariant _ =>
    refine Bl.ctx_self _ (by rw [ha.path]; exact recS_self hg.shape rfl) ?_
    unfold recordWith; exact NoCtx.bl _
  | null _ _ | leaf _ _ _ _ | bytes _ _ _ _ _ | bytesView _ _ _ _ _ | fixedSizeBinary _ _ _ _ _ _
  | list _ _ _ _ _ _ | fixedSizeList _ _ _ _ _ _ _ | map _ _ _ _ _ _ | dictionary _ _ _ _ | union _ _ _ _ _ =>
    refine Bl.ctx_self _ (by rw [ha.path]; exact recS_self hg.shape rfl) ?_
    unfold recordWith; exact NoCtx.bl _

end SaModel.Props.C18
