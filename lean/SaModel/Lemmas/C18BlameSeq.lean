import SaModel.Lemmas.C18Blame
import SaModel.Lemmas.C01Comp
import SaModel.Lemmas.C01ObsComp
/-
C18, blame against the specification: the non-recursive parts (one successful push, nulls, list / fixed-size list
rows, bytes into lists), with the element loops as hypotheses.
-/
namespace SaModel.Props.C18
open SaModel SaModel.Build SaModel.Spec

/-- one successful push: the invariants survive and the head room shrinks by at most the size of the value
(soundness R2 + completeness, used as black boxes) -/
theorem push_step {ext : Ext} {x : SVal} {b b' : B} {dt n md} (hg : GoodH b dt n md) (hraw : noRaw x = true)
    (hcap : vsize ext x ≤ room b) (h : push ext b x = .ok b') : GoodH b' dt n md ∧ room b ≤ room b' + vsize ext x := by
  refine ⟨hg.push hraw h, ?_⟩
  obtain ⟨_, _, _, lv, _, hlv⟩ := C01.push_interp' ext x b b' dt n md (noRaw_ssa x hraw) (Or.inl hraw) hg.wf hg.nd hg.shape h
  obtain ⟨b'', h2, hr⟩ := Build.push_completeH ext x hraw b dt n md lv hg hcap hlv
  rw [h] at h2; cases h2; exact hr

/-- a representable value that fits is accepted: nothing to blame -/
theorem bl_of_interp_ok {ext : Ext} {x : SVal} {b : B} {dt n md} {S : List String} (hg : GoodH b dt n md)
    (hraw : noRaw x = true) (hcap : vsize ext x ≤ room b) (hi : (interpDT ext dt n md x).isOk = true) :
    Bl S (push ext b x) := by
  cases hlv : interpDT ext dt n md x with
  | error e => rw [hlv] at hi; cases hi
  | ok lv =>
    obtain ⟨b', h, _⟩ := Build.push_completeH ext x hraw b dt n md lv hg hcap hlv
    exact Bl.of_eq_ok h

theorem bind_err_plain {α β} {r : R α} {f : α → R β} {msg : String} (h : (r >>= f) = .error (.err msg)) :
    r = .error (.err msg) ∨ ∃ v, r = .ok v ∧ f v = .error (.err msg) := by
  cases r with
  | ok v => exact .inr ⟨v, rfl, h⟩
  | error e => left; simpa [Bind.bind, Except.bind] using h

theorem not_isOk_false {α} {r : R α} (h : ¬ r.isOk = true) : r.isOk = false := by
  cases hh : r.isOk <;> simp_all

/-! ### children of list-like builders -/

theorem GoodH.list_el {p large fm v offs el dt n md cname cdt cn cmd}
    (hg : GoodH (.list p large fm v offs el) dt n md)
    (hdt : dt = (if large then .largeList (.mk cname cdt cn cmd) else .list (.mk cname cdt cn cmd)))
    (hsel : Shape el cdt cn cmd) : GoodH el cdt cn cmd := by
  have hw := hg.wf
  simp only [WFH] at hw
  have hsafe := hg.nd
  simp only [NoDictKey] at hsafe
  have ht := hg.tot
  subst hdt
  exact ⟨hw.2.2, hsafe, hsel, by cases large <;> simpa [total, totalF] using ht⟩

/-! ### `serialize_none` -/

theorem At.dictionary_key {path kdt vdt n md p idx vals index}
    (h : At path (.dictionary kdt vdt) n md (.dictionary p idx vals index)) : idx.path = path ++ ".key" := by
  obtain ⟨b0, h0, ht⟩ := h
  simp only [newDT] at h0
  split at h0
  case isFalse => simp [SaModel.ctx, SaModel.fail] at h0
  obtain ⟨kb, hkb, h0⟩ := (Build.bind_ok _ _ _).1 h0
  obtain ⟨vb, hvb, h0⟩ := (Build.bind_ok _ _ _).1 h0
  cases h0
  simp only [takeRest, B.dictionary.injEq] at ht
  rw [← path_takeRest idx, ht.2.1, path_takeRest, newDT_path' _ _ _ _ _ hkb]

theorem setValidity_false_some {v : Validity} {i : Nat} {v' : Validity} (h : setValidity v i false = .ok v') :
    v.isSome = true := by
  cases v with
  | none => simp [setValidity, SaModel.fail] at h
  | some _ => rfl

theorem pushNone_bl {b : B} {path dt n md} (hg : GoodH b dt n md) (ha : At path dt n md b) (hcap : 1 ≤ room b) :
    Bl [path] (pushNone b) := by
  have hp := ha.path
  have hself : b.path ∈ [path] := by rw [hp]; exact List.mem_singleton.2 rfl
  cases b with
  | null p len => exact Bl.of_ok _
  | unknownVariant p => unfold pushNone; exact Bl.ctx_self _ hself (NoCtx.bl _)
  | leaf p k v vals => unfold pushNone; exact Bl.ctx_self _ hself (NoCtx.bl _)
  | bytes p ty v offs data => unfold pushNone; exact Bl.ctx_self _ hself (NoCtx.bl _)
  | bytesView p ty v views buf => unfold pushNone; exact Bl.ctx_self _ hself (NoCtx.bl _)
  | fixedSizeBinary p k len v buf cur => unfold pushNone; exact Bl.ctx_self _ hself (NoCtx.bl _)
  | list p large fm v offs el => unfold pushNone; exact Bl.ctx_self _ hself (NoCtx.bl _)
  | map p mm v offs ks vs => unfold pushNone; exact Bl.ctx_self _ hself (NoCtx.bl _)
  | union p fs t o c => unfold pushNone; exact Bl.ctx_self _ hself (NoCtx.bl _)
  | fixedSizeList p fm k len v cur el =>
    unfold pushNone
    refine Bl.ctx_self _ hself (Bl.bind (NoCtx.bl _) fun v' hv => ?_)
    have hsome := setValidity_false_some hv
    have hw := hg.wf
    simp only [WFH] at hw
    have hsh := hg.shape
    simp only [Shape] at hsh
    obtain ⟨hn, cname, cdt, cn, cmd, rfl, hsel⟩ := hsh
    have ht := hg.tot
    simp only [total, totalF, Bool.and_eq_true] at ht
    have hd : defOK cdt cmd = true ∧ ((k : Int) ≤ 1 ∨ noDefU cdt = true) := by
      have := ht.2
      rw [← hn, hsome] at this
      simpa [defOKF, noDefUF] using this
    simp only [room] at hcap
    obtain ⟨el', he, _⟩ := pushDefaultK_totalH el k cdt cn cmd hw.2.2 hsel hd.1 (fun h => by
      rcases hd.2 with h' | h'
      · omega
      · rw [h] at h'; cases h')
    rw [he]
    exact Bl.of_ok _
  | struct p len v fs cached next seen =>
    unfold pushNone
    refine Bl.ctx_self _ hself (Bl.bind (NoCtx.bl _) fun v' hv => ?_)
    have hsome := setValidity_false_some hv
    have hw := hg.wf
    simp only [WFH] at hw
    have hsh := hg.shape
    simp only [Shape] at hsh
    obtain ⟨hn, sfs, rfl, hsl⟩ := hsh
    have ht := hg.tot
    simp only [total, Bool.and_eq_true] at ht
    have hd : defOKFs sfs = true := by
      have := ht.2
      rw [← hn, hsome] at this
      simpa using this
    simp only [room] at hcap
    obtain ⟨fs', he, _⟩ := pushDefaultKAll_totalH fs 1 sfs len hw.2.1 hsl hd (fun _ => hcap)
    rw [he]
    exact Bl.of_ok _
  | dictionary p idx vals index =>
    have hsh := hg.shape
    simp only [Shape] at hsh
    obtain ⟨⟨kdt, vdt, rfl, hsv⟩, hint, _, _⟩ := hsh
    obtain ⟨ip, t, iv, ivals, rfl⟩ := isIntLeaf_form hint
    unfold pushNone
    refine Bl.ctx_self _ hself ?_
    split
    · exact NoCtx.bl _
    · rename_i hnl
      refine Bl.bind ?_ fun _ _ => Bl.of_ok _
      cases iv with
      | none => simp [B.isNullable] at hnl
      | some bits =>
        intro msg a e
        simp [pushNone, setValidity, SaModel.ctx, bind, Except.bind, pure, Except.pure] at e

/-! ### list rows -/

theorem push_never_plain (ext : Ext) : ∀ (x : SVal) (b : B) (msg : String), push ext b x ≠ .error (.err msg)
  | .some v, b, msg => by rw [push]; exact push_never_plain ext v b msg
  | .newtypeStruct _ v, b, msg => by rw [push]; exact push_never_plain ext v b msg
  | .none, b, msg | .unit, b, msg | .seq _, b, msg | .tuple _, b, msg | .tupleStruct _ _, b, msg | .record _ _, b, msg
  | .map _, b, msg | .mapRaw _, b, msg | .unitVariant _ _ _, b, msg | .newtypeVariant _ _ _ _, b, msg
  | .tupleVariant _ _ _ _, b, msg | .structVariant _ _ _ _, b, msg | .bytes _, b, msg | .bool _, b, msg | .int _ _, b, msg
  | .f32 _, b, msg | .f64 _, b, msg | .char _, b, msg | .str _, b, msg | .unitStruct _, b, msg => by
    rw [push_eq_body ext b _ (by intro v h; cases h) (by intro n v h; cases h), ann_eq_posAnn]
    exact ctx_never_plain _ _ _

theorem pushElems_not_plain (ext : Ext) (large : Bool) : ∀ (xs : SVals) (el : B) (offs : List Int) (l : Int) (msg : String),
    offs.getLast? = some l → 0 ≤ l → l + xs.length ≤ 2147483647 → pushElems ext large el offs xs ≠ .error (.err msg)
  | .nil, el, offs, l, msg, _, _, _ => by simp [pushElems]
  | .cons x rest, el, offs, l, msg, hl, h0, hle => by
    simp only [SVals.length] at hle
    intro h
    simp only [pushElems] at h
    rw [incrementLast_total (large := large) (inc := 1) hl (by omega) h0] at h
    rcases bind_err_plain h with h | ⟨o, ho, h⟩
    · cases h
    · cases ho
      rcases bind_err_plain h with h | ⟨el', _, h⟩
      · exact push_never_plain ext x el msg h
      · exact pushElems_not_plain ext large rest el' _ (l + (1 : Nat)) msg (by simp) (by omega) (by omega) h

/-- the only plain error of the element loop of a list builder is the overflow of the counter the list owns -/
theorem pushElems_plain (ext : Ext) (large : Bool) : ∀ (xs : SVals) (el : B) (offs : List Int) (l : Int) (msg : String),
    offs.getLast? = some l → 0 ≤ l → pushElems ext large el offs xs = .error (.err msg) →
    msg = "offset overflow" ∧ l + xs.length > offMax large
  | .nil, el, offs, l, msg, _, _, h => by simp [pushElems] at h
  | .cons x rest, el, offs, l, msg, hl, h0, h => by
    simp only [pushElems] at h
    simp only [SVals.length]
    by_cases hov : l + ((1 : Nat) : Int) > offMax large
    · have hinc : incrementLast true large offs 1 = .error (.err "offset overflow") := by
        unfold incrementLast
        simp only [hl]
        have h1 : ¬ (((1 : Nat) : Int) > offMax large) := by cases large <;> simp [offMax]
        rw [if_neg h1, if_pos hov]; rfl
      rw [hinc] at h
      simp only [bind, Except.bind] at h
      cases h
      exact ⟨rfl, by omega⟩
    · have hinc : incrementLast true large offs 1 = .ok (offs.dropLast ++ [l + ((1 : Nat) : Int)]) := by
        unfold incrementLast
        simp only [hl]
        have h1 : ¬ (((1 : Nat) : Int) > offMax large) := by cases large <;> simp [offMax]
        rw [if_neg h1, if_neg hov]
      rw [hinc] at h
      rcases bind_err_plain h with h | ⟨o, ho, h⟩
      · cases h
      · cases ho
        rcases bind_err_plain h with h | ⟨el', _, h⟩
        · exact absurd h (push_never_plain ext x el msg)
        · obtain ⟨hm, hgt⟩ := pushElems_plain ext large rest el' _ (l + ((1 : Nat) : Int)) msg (by simp) (by omega) h
          exact ⟨hm, by omega⟩

theorem mem_ite_inner {path : String} {inner : List String} : ∀ q ∈ inner, q ∈ (if inner.isEmpty then [path] else inner) := by
  intro q hq
  cases inner with
  | nil => cases hq
  | cons a r => simpa using hq

/-- a sequence into a list builder: the list itself cannot fail (absent capacity), an element error is blamed below
`element` -/
theorem list_row_bl {ext : Ext} {xs : SVals} {pe : Bool → B → List Int → R (B × List Int)} {pc : B → Nat → R (B × Nat)}
    {pt : SS → R SS} {bytes : R Bytes} {k : SeqKind} {p large fm v offs el} {inner : List String}
    (hw : WFH (.list p large fm v offs el)) (hcap : vsizes ext xs + 1 ≤ room (.list p large fm v offs el))
    (hpe : ∀ offs' (l : Int), offs'.getLast? = some l → 0 ≤ l → l + xs.length ≤ 2147483647 →
      Bl inner (pe large el offs') ∧ ∀ msg, pe large el offs' ≠ .error (.err msg)) :
    Bl (if inner.isEmpty then [p] else inner)
      (ctx (B.list p large fm v offs el).ann (seqLikeWith pe pc pt bytes (.list p large fm v offs el) k)) := by
  simp only [WFH] at hw
  have hlast := hw.1.2.1
  have hln : lastNat offs = (dec el).length := by simp [lastNat_of_getLast hlast]
  simp only [room, hln, LIM] at hcap
  have hlen := vsizes_length ext xs
  obtain ⟨v', hv'⟩ := setValidity_true_total v (offs.length - 1)
  obtain ⟨h1, h2⟩ := hpe (offs ++ [((dec el).length : Int)]) ((dec el).length : Int) (by simp) (by omega) (by omega)
  have hbody : seqLikeWith pe pc pt bytes (.list p large fm v offs el) k = (do
      let (el', offs'') ← pe large el (offs ++ [((dec el).length : Int)])
      pure (.list p large fm v' offs'' el')) := by
    simp only [seqLikeWith, hv', duplicateLast_total hlast, bind, Except.bind]
  rw [hbody]
  refine Bl.ctx_own _ ?_ (Bl.bind (Bl.mono mem_ite_inner h1) fun _ _ => Bl.of_ok _)
  intro msg h
  rcases bind_err_plain h with h | ⟨r, _, h⟩
  · exact absurd h (h2 msg)
  · cases h

theorem pushCountElems_count (ext : Ext) : ∀ (xs : SVals) (el : B) (c : Nat) (r : B × Nat),
    pushCountElems ext el c xs = .ok r → r.2 = c + xs.length
  | .nil, el, c, r, h => by simp only [pushCountElems] at h; cases h; simp [SVals.length]
  | .cons x rest, el, c, r, h => by
    simp only [pushCountElems] at h
    obtain ⟨el', _, h⟩ := (Build.bind_ok _ _ _).1 h
    rw [pushCountElems_count ext rest el' (c + 1) r h]
    simp only [SVals.length]; omega

/-- a sequence into a fixed-size list builder: the list fails itself only on a wrong element count -/
theorem fsl_row_bl {xs : SVals} {pe : Bool → B → List Int → R (B × List Int)} {pc : B → Nat → R (B × Nat)}
    {pt : SS → R SS} {bytes : R Bytes} {k : SeqKind} {p fm} {m : Nat} {len v cur el} {inner : List String}
    (hcnt : ∀ r, pc el 0 = .ok r → r.2 = xs.length) (hpc : Bl inner (pc el 0)) (hnp : ∀ msg, pc el 0 ≠ .error (.err msg)) :
    Bl ((if ((xs.length : Int) != (m : Int)) || inner.isEmpty then [p] else []) ++ inner)
      (ctx (B.fixedSizeList p fm m len v cur el).ann (seqLikeWith pe pc pt bytes (.fixedSizeList p fm m len v cur el) k)) := by
  obtain ⟨v', hv'⟩ := setValidity_true_total v len
  have hbody : seqLikeWith pe pc pt bytes (.fixedSizeList p fm m len v cur el) k = (do
      let (el', cnt) ← pc el 0
      if cnt != m then SaModel.fail "Invalid number of elements for FixedSizedList"
      else pure (.fixedSizeList p fm m (len + 1) v' cnt el')) := by
    simp only [seqLikeWith, hv', bind, Except.bind]
  rw [hbody]
  refine Bl.ctx_own _ ?_ (Bl.bind (Bl.mono (fun q hq => List.mem_append_right _ hq) hpc) fun _ _ => NoCtx.bl _)
  intro msg h
  rcases bind_err_plain h with h | ⟨r, hr, h⟩
  · exact absurd h (hnp msg)
  · have hc := hcnt r hr
    obtain ⟨el', cnt⟩ := r
    simp only at hc h
    subst hc
    have hne : (xs.length != m) = true := by
      cases hh : (xs.length != m) with
      | true => rfl
      | false => simp [hh, pure, Except.pure] at h
    have : ((xs.length : Int) != (m : Int)) = true := by
      simp only [bne_iff_ne, ne_eq] at hne ⊢
      omega
    simp [this, B.path]

end SaModel.Props.C18
