import SaModel.Lemmas.C18BlameSeq
/-
C18, blame against the specification: struct rows.  `Blo S p r` = `Bl S r` and a PLAIN error of `r` (which the wrapper
of the builder at `p` will take as its own) is allowed only if `p ∈ S`.  The field loops are handled in
continuation-passing style (`… >>= k`), so that one induction gives both the blame of the loop and the state the
`end` call (`finishRow`) starts from: `seen[j]` is set exactly for the names presented so far (`SeenIs`).
-/
namespace SaModel.Props.C18
open SaModel SaModel.Build SaModel.Spec

def Blo (S : List String) (p : String) {α} (r : R α) : Prop := Bl S r ∧ ∀ msg, r = .error (.err msg) → p ∈ S

theorem Blo.of_ok {α} {S : List String} {p : String} (v : α) : Blo S p (.ok v : R α) :=
  ⟨Bl.of_ok v, fun _ h => by cases h⟩

theorem Blo.of_panic {α} {S : List String} {p : String} (s : String) : Blo S p (SaModel.panic s : R α) := by
  constructor
  · intro msg a h; simp [SaModel.panic] at h
  · intro msg h; simp [SaModel.panic] at h

theorem Blo.bind {α β} {S : List String} {p : String} {r : R α} {f : α → R β} (hr : Blo S p r)
    (hf : ∀ v, r = .ok v → Blo S p (f v)) : Blo S p (r >>= f) := by
  refine ⟨Bl.bind hr.1 fun v hv => (hf v hv).1, fun msg h => ?_⟩
  rcases bind_err_plain h with h | ⟨v, hv, h⟩
  · exact hr.2 msg h
  · exact (hf v hv).2 msg h

theorem Blo.ctx {α} {S : List String} {r : R α} (b : B) (h : Blo S b.path r) : Bl S (ctx b.ann r) :=
  Bl.ctx_own b h.2 h.1

theorem Blo.of_noctx_mem {α} {S : List String} {p : String} (r : R α) [NoCtx r] (hp : p ∈ S) : Blo S p r :=
  ⟨NoCtx.bl r, fun _ _ => hp⟩

theorem Blo.of_bl {α} {S : List String} {p : String} {r : R α} (h : Bl S r) (hnp : ∀ msg, r ≠ .error (.err msg)) :
    Blo S p r := ⟨h, fun msg hm => absurd hm (hnp msg)⟩

theorem Blo.mono {α} {S S' : List String} {p : String} {r : R α} (hs : ∀ q ∈ S, q ∈ S') (h : Blo S p r) : Blo S' p r :=
  ⟨Bl.mono hs h.1, fun msg hm => hs _ (h.2 msg hm)⟩

/-! ### names presented to a struct -/

def knownKeys (fs : List Field) (keys : List String) : List String := keys.filter fun k => fs.any (·.name == k)

theorem dupKeys_mem {k : String} {r : List String} : ∀ {done : List String}, k ∈ done → dupKeys (done ++ k :: r) = true
  | [], h => by cases h
  | d :: ds, h => by
    simp only [List.cons_append, dupKeys, Bool.or_eq_true]
    rcases List.mem_cons.1 h with rfl | h
    · left; simp
    · right; exact dupKeys_mem h

theorem find_of_get {key : String} : ∀ {l : List Field} {idx : Nat} {f : Field}, (l.map Field.name).Nodup → l[idx]? = some f →
    f.name = key → l.find? (·.name == key) = some f
  | [], _, _, _, h, _ => by simp at h
  | g :: l, 0, f, _, h, hk => by
    simp only [List.getElem?_cons_zero, Option.some.injEq] at h
    subst h
    simp [List.find?, hk]
  | g :: l, idx + 1, f, hnd, h, hk => by
    simp only [List.getElem?_cons_succ] at h
    simp only [List.map_cons, List.nodup_cons] at hnd
    have hne : (g.name == key) = false := by
      cases hh : (g.name == key) with
      | false => rfl
      | true =>
        have : g.name = key := by simpa using hh
        exfalso; apply hnd.1
        rw [this, ← hk]
        exact List.mem_map.2 ⟨f, List.mem_of_getElem? h, rfl⟩
    simp only [List.find?, hne]
    exact find_of_get hnd.2 h hk

theorem find_none_of {key : String} {l : List Field} (h : ∀ (j : Nat), (l.map Field.name)[j]? ≠ some key) :
    l.find? (·.name == key) = none := by
  rw [List.find?_eq_none]
  intro f hf hk
  obtain ⟨j, hj⟩ := List.getElem?_of_mem hf
  apply h j
  simp only [List.getElem?_map, hj, Option.map_some]
  congr 1
  simpa using hk

theorem any_known_of_get {key : String} {l : List Field} {idx : Nat} (h : (l.map Field.name)[idx]? = some key) :
    l.any (·.name == key) = true := by
  simp only [List.getElem?_map] at h
  cases hf : l[idx]? with
  | none => simp [hf] at h
  | some f =>
    simp only [hf, Option.map_some, Option.some.injEq] at h
    exact List.any_eq_true.2 ⟨f, List.mem_of_getElem? hf, by simp [h]⟩

theorem any_unknown_of {key : String} {l : List Field} (h : ∀ (j : Nat), (l.map Field.name)[j]? ≠ some key) :
    l.any (·.name == key) = false := by
  cases hh : l.any (·.name == key) with
  | false => rfl
  | true =>
    obtain ⟨f, hf, hk⟩ := List.any_eq_true.1 hh
    obtain ⟨j, hj⟩ := List.getElem?_of_mem hf
    exfalso; apply h j
    simp only [List.getElem?_map, hj, Option.map_some]
    congr 1; simpa using hk

/-! ### the state of a struct builder inside a row -/

structure MidS (path : String) (sfs : Fields) (s : SS) : Prop where
  hpath : s.path = path
  nodup : s.fields.names.Nodup
  cache : CacheInv s.fields.names s.cached
  seenlen : s.seen.length = s.fields.length
  kids : Kids path s.fields sfs

/-- `seen[j]` is set exactly when the name of field `j` has been presented -/
def SeenIs (s : SS) (done : List String) : Prop :=
  ∀ (j : Nat) (name : String), s.fields.names[j]? = some name → (s.seen[j]? = some true ↔ name ∈ done)

theorem BL.names_length : ∀ (fs : BL), fs.names.length = fs.length
  | .nil => rfl
  | .cons _ _ r => by simp [BL.names, BL.length, BL.names_length r]

theorem MidS.names {path sfs s} (hm : MidS path sfs s) : s.fields.names = sfs.toList.map Field.name := hm.kids.names

theorem MidS.cached {path sfs s} (hm : MidS path sfs s) (c' : List (Option (String × Nat)))
    (hc : CacheInv s.fields.names c') : MidS path sfs { s with cached := c' } :=
  ⟨hm.hpath, hm.nodup, hc, hm.seenlen, hm.kids⟩

theorem MidS.next {path sfs s} (hm : MidS path sfs s) (n : Nat) : MidS path sfs { s with next := n } :=
  ⟨hm.hpath, hm.nodup, hm.cache, hm.seenlen, hm.kids⟩

theorem MidS.step {path sfs s} (hm : MidS path sfs s) {idx : Nat} {c c' : B} {m : FieldMeta} {f : Field} {nx : Nat}
    (hget : s.fields.get? idx = some (c, m)) (hf : sfs.toList[idx]? = some f)
    (hg : GoodH c' f.dataType f.nullable f.metadata) (ha : At (path ++ "." ++ f.name) f.dataType f.nullable f.metadata c') :
    MidS path sfs { s with fields := s.fields.set idx c', seen := s.seen.set idx true, next := nx } :=
  ⟨hm.hpath, by simp only [BL.names_set]; exact hm.nodup, by simp only [BL.names_set]; exact hm.cache,
    by simp only [List.length_set, BL.length_set]; exact hm.seenlen, hm.kids.set hget hf hg ha⟩

theorem SeenIs.step {path sfs s done} (hm : MidS path sfs s) (hs : SeenIs s done) {idx : Nat} {key : String} {c' : B} {nx : Nat}
    (hname : s.fields.names[idx]? = some key) :
    SeenIs { s with fields := s.fields.set idx c', seen := s.seen.set idx true, next := nx } (done ++ [key]) := by
  intro j name hj
  simp only [BL.names_set] at hj
  have hlt : idx < s.seen.length := by
    rw [hm.seenlen, ← BL.names_length]
    exact (List.getElem?_eq_some_iff.1 hname).1
  by_cases hij : idx = j
  · subst hij
    rw [hname] at hj; cases hj
    simp [List.getElem?_set, hlt]
  · have hne : name ≠ key := by
      intro he; subst he
      have h1 := SaModel.Props.C11Front.indexOfName_of_get _ hm.nodup name idx hname
      have h2 := SaModel.Props.C11Front.indexOfName_of_get _ hm.nodup name j hj
      rw [h1] at h2; cases h2; exact hij rfl
    simp only [List.getElem?_set, hij, if_false, List.mem_append, List.mem_singleton, hne, or_false]
    exact hs j name hj

theorem SeenIs.cached {s done} (hs : SeenIs s done) (c' : List (Option (String × Nat))) : SeenIs { s with cached := c' } done := hs
theorem SeenIs.next {s done} (hs : SeenIs s done) (n : Nat) : SeenIs { s with next := n } done := hs

theorem element_ok_inv {s s' : SS} {idx : Nat} {pc : B → R B} (h : s.element idx pc = .ok s') :
    ∃ c m c', s.seen[idx]? = some false ∧ s.fields.get? idx = some (c, m) ∧ pc c = .ok c' ∧
      s' = { s with fields := s.fields.set idx c', seen := s.seen.set idx true, next := idx + 1 } := by
  unfold SS.element at h
  split at h
  · cases h
  · simp [SaModel.ctx, SaModel.fail] at h
  · rename_i hseen
    split at h
    · cases h
    · rename_i c m hget
      obtain ⟨c', hc', h⟩ := (Build.bind_ok _ _ _).1 h
      cases h
      exact ⟨c, m, c', hseen, hget, hc', rfl⟩

/-- `StructBuilder::element`: a field seen before is the struct's own failure (`Duplicate field`), otherwise the
child's error passes through -/
theorem element_blo {ext : Ext} {x : SVal} {path sfs s idx key done} {S : List String}
    (hm : MidS path sfs s) (hs : SeenIs s done) (hname : s.fields.names[idx]? = some key)
    (hdup : key ∈ done → path ∈ S)
    (hpush : ∀ c m, s.fields.get? idx = some (c, m) → Bl S (push ext c x)) :
    Blo S path (s.element idx (fun c => push ext c x)) := by
  unfold SS.element
  split
  · exact Blo.of_panic _
  · rename_i hseen
    have hp := hdup ((hs idx key hname).1 hseen)
    refine ⟨?_, fun msg h => by simp [SaModel.ctx, SaModel.fail] at h⟩
    intro msg a e
    simp [SaModel.ctx, SaModel.fail] at e
    refine ⟨path, hp, ?_⟩
    rw [← e.2]
    simp [List.lookup, hm.hpath]
  · split
    · exact Blo.of_panic _
    · rename_i c m hget
      exact Blo.bind (Blo.of_bl (hpush c m hget) (push_never_plain ext x c)) fun _ _ => Blo.of_ok _

/-! ### `StructBuilder::end` -/

theorem endFields_blo {path : String} {S : List String} : ∀ (fs : BL) (seen : List Bool) (sfs : Fields), Kids path fs sfs →
    1 ≤ roomL fs →
    (∀ (j : Nat) f, sfs.toList[j]? = some f → seen[j]? = some false → f.nullable = false → path ∈ S) →
    (∀ (j : Nat) f, sfs.toList[j]? = some f → seen[j]? = some false → f.nullable = true →
      (interpNull f.dataType f.nullable f.metadata).isOk = false → (path ++ "." ++ f.name) ∈ S) →
    Blo S path (endFields fs seen)
  | .nil, _, _, _, _, _, _ => by unfold endFields; exact Blo.of_ok _
  | .cons b m r, [], _, _, _, _, _ => by unfold endFields; exact Blo.of_panic _
  | .cons b m r, s :: ss, .nil, hk, _, _, _ => by simp [Kids] at hk
  | .cons b m r, s :: ss, .cons (.mk fname fdt fn fmd) rest, hk, hcap, h1, h2 => by
    simp only [Kids] at hk
    simp only [roomL] at hcap
    have ih : Blo S path (endFields r ss) := endFields_blo r ss rest hk.2.2.2.2 (by omega)
      (fun j f hj hs hn => h1 (j + 1) f (by simpa [Fields.toList] using hj) (by simpa using hs) hn)
      (fun j f hj hs hn hi => h2 (j + 1) f (by simpa [Fields.toList] using hj) (by simpa using hs) hn hi)
    unfold endFields
    simp only
    split
    · exact Blo.bind ih fun _ _ => Blo.of_ok _
    · rename_i hsf
      have hsf : s = false := by simpa using hsf
      subst hsf
      split
      · rename_i hnn
        have hnn : fn = false := by rw [← hk.2.1]; simpa using hnn
        exact Blo.of_noctx_mem _ (h1 0 (.mk fname fdt fn fmd) (by simp [Fields.toList]) (by simp) hnn)
      · rename_i hnn
        have hnn : fn = true := by rw [← hk.2.1]; simpa using hnn
        refine Blo.bind ?_ fun _ _ => Blo.bind ih fun _ _ => Blo.of_ok _
        refine Blo.of_bl ?_ (pushNone_never_plain b)
        cases hi : (interpNull fdt fn fmd).isOk with
        | true =>
          cases hlv : interpNull fdt fn fmd with
          | error e => rw [hlv] at hi; cases hi
          | ok lv =>
            obtain ⟨b', hb', _⟩ := pushNone_completeH b fdt fn fmd lv hk.2.2.1.wf hk.2.2.1.shape hk.2.2.1.tot hlv (by omega)
            exact Bl.of_eq_ok hb'
        | false =>
          have hmem := h2 0 (.mk fname fdt fn fmd) (by simp [Fields.toList]) (by simp) hnn hi
          exact Bl.mono (fun q hq => by rw [List.mem_singleton.1 hq]; exact hmem) (pushNone_bl hk.2.2.1 hk.2.2.2.1 (by omega))

/-- the blame set of a struct position (the arm shared by the record presentations in `Spec.blameDT`) -/
def structS (path : String) (fs : List Field) (keys : List String) (own' : Bool) (inner : List String) : List String :=
  (if (structOwnFails fs keys || own') || (inner.isEmpty && (blameMissing path fs keys).isEmpty) then [path] else []) ++
    inner ++ blameMissing path fs keys

theorem mem_structS_inner {path fs keys own' inner} : ∀ q ∈ inner, q ∈ structS path fs keys own' inner := by
  intro q hq; simp only [structS, List.mem_append]; exact .inl (.inr hq)

theorem mem_structS_own {path fs keys own' inner} (h : structOwnFails fs keys = true) : path ∈ structS path fs keys own' inner := by
  simp [structS, h]

theorem mem_structS_own' {path fs keys inner} : path ∈ structS path fs keys true inner := by
  simp [structS]

/-- one row of a struct builder (`start`, the field loop `pf`, `end`), the loop given in continuation-passing style -/
theorem struct_row_bl {pf : SS → R SS} {path : String} {sfs : Fields} {n : Bool} {md : Metadata} {keys : List String}
    {own' : Bool} {inner : List String} {p len v fs cached next seen}
    (hg : GoodH (.struct p len v fs cached next seen) (.struct sfs) n md)
    (ha : At path (.struct sfs) n md (.struct p len v fs cached next seen))
    (hloop : ∀ {β : Type} (k : SS → R β) (s : SS), MidS path sfs s → SeenIs s [] → s.fields = fs → s.next = 0 →
      (∀ s', MidS path sfs s' → SeenIs s' (knownKeys sfs.toList keys) → 1 ≤ roomL s'.fields →
        Blo (structS path sfs.toList keys own' inner) path (k s')) →
      Blo (structS path sfs.toList keys own' inner) path (pf s >>= k)) :
    Bl (structS path sfs.toList keys own' inner) (ctx (B.struct p len v fs cached next seen).ann (do
      let s ← SS.start ⟨p, len, v, fs, cached, next, seen⟩
      let s ← pf s
      let s ← s.finishRow
      pure s.toB : R B)) := by
  have hpath : p = path := ha.path
  have hw := hg.wf
  simp only [WFH] at hw
  obtain ⟨_, _, hseen, hnd, hcache⟩ := hw
  have hkids := ha.struct_kids hg
  obtain ⟨v', hv'⟩ := setValidity_true_total v len
  have hstart : SS.start ⟨p, len, v, fs, cached, next, seen⟩ =
      .ok ⟨p, len + 1, v', fs, cached, 0, List.replicate seen.length false⟩ := by
    simp only [SS.start, hv', bind, Except.bind, pure, Except.pure]
  rw [hstart]
  have hm0 : MidS path sfs ⟨p, len + 1, v', fs, cached, 0, List.replicate seen.length false⟩ :=
    ⟨hpath, hnd, hcache, by simp [hseen], hkids⟩
  have hs0 : SeenIs ⟨p, len + 1, v', fs, cached, 0, List.replicate seen.length false⟩ [] := by
    intro j name _
    simp only [List.not_mem_nil, iff_false]
    intro h
    have := List.getElem?_eq_some_iff.1 h
    obtain ⟨hlt, he⟩ := this
    simp at he
  have hb : (B.struct p len v fs cached next seen).path = path := hpath
  refine Blo.ctx _ ?_
  rw [hb]
  show Blo _ path (pf _ >>= fun s => s.finishRow >>= fun s => pure s.toB)
  refine hloop _ _ hm0 hs0 rfl rfl fun s' hm' hs' hr' => ?_
  refine Blo.bind ?_ fun _ _ => Blo.of_ok _
  unfold SS.finishRow
  refine Blo.bind ?_ fun _ _ => Blo.of_ok _
  have hnames := hm'.names
  have hseen' : ∀ (j : Nat) f, sfs.toList[j]? = some f → s'.seen[j]? = some false → f.name ∉ keys := by
    intro j f hj hsf hc
    have hnj : s'.fields.names[j]? = some f.name := by rw [hnames]; simp [List.getElem?_map, hj]
    have hnot : f.name ∉ knownKeys sfs.toList keys := by
      intro hin
      have := (hs' j f.name hnj).2 hin
      rw [hsf] at this; cases this
    apply hnot
    simp only [knownKeys, List.mem_filter]
    refine ⟨hc, any_known_of_get (idx := j) ?_⟩
    simp [List.getElem?_map, hj]
  refine endFields_blo s'.fields s'.seen sfs hm'.kids hr' ?_ ?_
  · intro j f hj hsf hn
    apply mem_structS_own
    simp only [structOwnFails, Bool.or_eq_true]
    right
    exact List.any_eq_true.2 ⟨f, List.mem_of_getElem? hj, by simp [hn, hseen' j f hj hsf]⟩
  · intro j f hj hsf hn hi
    simp only [structS, List.mem_append]
    right
    simp only [blameMissing, List.mem_filterMap]
    exact ⟨f, List.mem_of_getElem? hj, by rw [hn] at hi; simp [hn, hseen' j f hj hsf, hi]⟩

end SaModel.Props.C18
