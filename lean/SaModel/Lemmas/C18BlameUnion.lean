import SaModel.Lemmas.C18BlameStruct
/-
C18, blame against the specification: one row of a union builder (`serialize_variant` bookkeeping, then the variant's
child), with the child's push as a hypothesis.
-/
namespace SaModel.Props.C18
open SaModel SaModel.Build SaModel.Spec

theorem newUnionFields_at (path : String) : ∀ (ufs : UFields) (k : Nat) (bl0 : BL) (fs : BL),
    newUnionFields path ufs k = .ok bl0 → takeRestAll fs = takeRestAll bl0 → ∀ (cur : List Int), WFHU fs cur → NoDictKeyL fs →
    ShapeU fs ufs k → totalUs ufs = true → KidsU path fs ufs
  | .nil, _, bl0, fs, _, _, _, _, _, hsu, _ => by
    cases fs with
    | nil => trivial
    | cons _ _ _ => simp [ShapeU] at hsu
  | .cons tid (.mk fname fdt fn fmd) rest, k, bl0, fs, h0, ht, cur, hw, hs, hsu, htot => by
    cases fs with
    | nil => simp [ShapeU] at hsu
    | cons b m r =>
      simp only [newUnionFields, newB] at h0
      split at h0
      · simp [SaModel.ctx, SaModel.fail] at h0
      · obtain ⟨b0, hb0, h0⟩ := (Build.bind_ok _ _ _).1 h0
        obtain ⟨r0, hr0, h0⟩ := (Build.bind_ok _ _ _).1 h0
        cases h0
        simp only [takeRestAll, BL.cons.injEq] at ht
        simp only [ShapeU] at hsu
        simp only [WFHU] at hw
        simp only [NoDictKeyL] at hs
        simp only [totalUs, totalF, Bool.and_eq_true] at htot
        exact ⟨⟨hw.1, hs.1, hsu.2.1, htot.1⟩, ⟨b0, hb0, ht.1⟩,
          newUnionFields_at path rest (k + 1) r0 r hr0 ht.2.2 cur.tail hw.2.2 hs.2 hsu.2.2 htot.2⟩

theorem KidsU.get {path : String} : ∀ {fs : BL} {ufs : UFields} {j : Nat} {c : B} {m : FieldMeta}, KidsU path fs ufs →
    fs.get? j = some (c, m) → ∃ tid nm cdt cn cmd, ufs.toList[j]? = some (tid, .mk nm cdt cn cmd) ∧
      GoodH c cdt cn cmd ∧ At (path ++ "." ++ childName nm) cdt cn cmd c
  | .nil, _, _, _, _, _, h => by simp [BL.get?] at h
  | .cons b m r, .nil, _, _, _, hk, _ => by simp [KidsU] at hk
  | .cons b m r, .cons tid (.mk fname fdt fn fmd) rest, 0, c, m', hk, h => by
    simp only [BL.get?, Option.some.injEq, Prod.mk.injEq] at h
    obtain ⟨rfl, rfl⟩ := h
    simp only [KidsU] at hk
    exact ⟨tid, fname, fdt, fn, fmd, by simp [UFields.toList], hk.1, hk.2.1⟩
  | .cons b m r, .cons tid (.mk fname fdt fn fmd) rest, j + 1, c, m', hk, h => by
    simp only [BL.get?] at h
    simp only [KidsU] at hk
    obtain ⟨t, nm, cdt, cn, cmd, hf, h1⟩ := KidsU.get hk.2.2 h
    exact ⟨t, nm, cdt, cn, cmd, by simpa [UFields.toList] using hf, h1⟩

theorem KidsU.get_none {path : String} : ∀ {fs : BL} {ufs : UFields} {j : Nat}, KidsU path fs ufs →
    fs.get? j = none → ufs.toList[j]? = none
  | .nil, .nil, _, _, _ => by simp [UFields.toList]
  | .nil, .cons _ _ _, _, hk, _ => by simp [KidsU] at hk
  | .cons b m r, .nil, _, hk, _ => by simp [KidsU] at hk
  | .cons b m r, .cons tid (.mk fname fdt fn fmd) rest, 0, _, h => by simp [BL.get?] at h
  | .cons b m r, .cons tid (.mk fname fdt fn fmd) rest, j + 1, hk, h => by
    simp only [BL.get?] at h
    simp only [KidsU] at hk
    simpa [UFields.toList] using KidsU.get_none hk.2.2 h

theorem At.union_kids {path ufs mode n md p fs types offs cur}
    (hg : GoodH (.union p fs types offs cur) (.union ufs mode) n md)
    (h : At path (.union ufs mode) n md (.union p fs types offs cur)) : KidsU path fs ufs := by
  obtain ⟨b0, h0, ht⟩ := h
  cases mode with
  | sparse => simp [newDT, ctx_ok, fail] at h0
  | dense =>
  simp only [newDT] at h0
  obtain ⟨bl0, hbl0, h0⟩ := (Build.bind_ok _ _ _).1 h0
  cases h0
  simp only [takeRest, B.union.injEq] at ht
  have hw := hg.wf
  simp only [WFH] at hw
  have hs := hg.nd
  simp only [NoDictKey] at hs
  have hsh := hg.shape
  simp only [Shape] at hsh
  obtain ⟨ufs', mode', he, hsu⟩ := hsh
  cases he
  have htot := hg.tot
  simp only [total, Bool.and_eq_true, decide_eq_true_eq] at htot
  exact newUnionFields_at path ufs 0 bl0 fs hbl0 ht.2.1 cur hw.2.2.1 hs hsu htot.2

/-- one row of a union builder: the union fails itself only for an undeclared variant (the row counter has head room:
`hcap`, repo fix 217d612); everything else is the variant's child -/
theorem union_row_bl {pc : B → R B} {p fs types offs cur} {i : Nat} {S : List String} {path : String} {ufs : UFields}
    {mode : UnionMode} {n : Bool} {md : Metadata}
    (hg : GoodH (.union p fs types offs cur) (.union ufs mode) n md)
    (ha : At path (.union ufs mode) n md (.union p fs types offs cur))
    (hnone : ufs.toList[i]? = none → path ∈ S) (hcap : 1 ≤ curRoom cur)
    (hpc : ∀ tid nm cdt cn cmd c, ufs.toList[i]? = some (tid, .mk nm cdt cn cmd) → GoodH c cdt cn cmd →
      At (path ++ "." ++ childName nm) cdt cn cmd c → roomL fs ≤ room c → Bl S (pc c))
    (hnp : ∀ c msg, pc c ≠ .error (.err msg)) :
    Bl S (ctx (B.union p fs types offs cur).ann (do
      let (c, types', offs', cur') ← serializeVariant fs types offs cur i
      let c' ← pc c
      pure (.union p (fs.set i c') types' offs' cur') : R B)) := by
  have hpath : p = path := ha.path
  have hkids := ha.union_kids hg
  have htot := hg.tot
  simp only [total, Bool.and_eq_true, decide_eq_true_eq] at htot
  refine Blo.ctx _ ?_
  show Blo S p _
  rw [hpath]
  cases hget : fs.get? i with
  | none =>
    have hp := hnone (hkids.get_none hget)
    refine Blo.bind ⟨NoCtx.bl _, fun _ _ => hp⟩ fun r hr => ?_
    obtain ⟨m1, co, hget1, _⟩ := serializeVariant_ok hr
    rw [hget] at hget1; cases hget1
  | some cm =>
    obtain ⟨c, m⟩ := cm
    obtain ⟨tid, nm, cdt, cn, cmd, hufs, hgc, hac⟩ := hkids.get hget
    refine Blo.bind ?_ fun r hr => ?_
    · refine ⟨NoCtx.bl _, fun msg h => ?_⟩
      exfalso
      have hlt : i < ufs.toList.length := by
        rcases Nat.lt_or_ge i ufs.toList.length with h' | h'
        · exact h'
        · rw [List.getElem?_eq_none_iff.mpr h'] at hufs; cases hufs
      rw [UFields.length_toList] at hlt
      simp only [serializeVariant, hget] at h
      split at h
      · simp [SaModel.panic] at h
      · rename_i co hco
        split at h
        · rename_i hov
          exact curRoom_pos_get hco hcap hov
        · split at h
          · omega
          · cases h
    · obtain ⟨c1, t', o', cur'⟩ := r
      obtain ⟨m1, co, hget1, _⟩ := serializeVariant_ok hr
      simp only at hget1
      rw [hget] at hget1
      cases hget1
      exact Blo.bind (Blo.of_bl (hpc tid nm cdt cn cmd c hufs hgc hac (roomL_get _ _ _ _ hget)) (hnp c)) fun _ _ => Blo.of_ok _

end SaModel.Props.C18
