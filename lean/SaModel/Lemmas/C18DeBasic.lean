import SaModel.Props.C18Transfer
import SaModel.Lemmas.C05ReadCont
import SaModel.Lemmas.C18SpecBridge
/-
C18, reader half, blame against the SPECIFICATION `Spec.blameRead` (Spec/Blame.lean): bookkeeping.

`Wn S r`       : `r` is never a plain error, and an annotated error of `r` carries `posAnn q` of a position `q ∈ S`
                 (what a wrapped read of a child returns);
`Bo S self r`  : an annotated error of `r` names a position in `S`; a PLAIN error of `r` — which the `.ctx(self)`
                 wrapper around `r` turns into an error naming `self` — is allowed only if `self ∈ S`
                 (what the body of a reader returns).  `Bo.ctx`: then the wrapped body stays within `S`.
`BlR t`        : the statement of `C18_de_blame` for the target `t`, as `Within (positions blameRead blames)`.
-/
namespace SaModel.Props.C18
open SaModel SaModel.Read SaModel.Spec

/-! ### vocabulary -/

def Wn {α} (S : List Pos) (r : R α) : Prop := Within S r ∧ ∀ msg, r ≠ .error (.err msg)

def Bo {α} (S : List Pos) (self : Pos) (r : R α) : Prop := Within S r ∧ ∀ msg, r = .error (.err msg) → self ∈ S

theorem Wn.of_ok {α} {S : List Pos} (v : α) : Wn S (.ok v : R α) := ⟨Within.of_ok v, fun _ h => by cases h⟩

theorem Wn.mono {α} {S S' : List Pos} {r : R α} (hs : ∀ q ∈ S, q ∈ S') (h : Wn S r) : Wn S' r := ⟨h.1.mono hs, h.2⟩

theorem Wn.bind {α β} {S : List Pos} {r : R α} {f : α → R β} (hr : Wn S r) (hf : ∀ v, r = .ok v → Wn S (f v)) :
    Wn S (r >>= f) := by
  refine ⟨Within.bind hr.1 fun v hv => (hf v hv).1, fun msg e => ?_⟩
  cases r with
  | ok v => exact (hf v rfl).2 msg e
  | error x => exact hr.2 msg (by simpa [Bind.bind, Except.bind] using e)

theorem Wn.bo {α} {S : List Pos} {r : R α} (self : Pos) (h : Wn S r) : Bo S self r := ⟨h.1, fun msg e => absurd e (h.2 msg)⟩

theorem Bo.of_ok {α} {S : List Pos} {self : Pos} (v : α) : Bo S self (.ok v : R α) := (Wn.of_ok v).bo self

theorem Bo.of_eq_ok {α} {S : List Pos} {self : Pos} {r : R α} {v : α} (h : r = .ok v) : Bo S self r := h ▸ Bo.of_ok v

theorem Bo.mono {α} {S S' : List Pos} {self : Pos} {r : R α} (hs : ∀ q ∈ S, q ∈ S') (h : Bo S self r) : Bo S' self r :=
  ⟨h.1.mono hs, fun msg e => hs _ (h.2 msg e)⟩

/-- a body that calls no wrapped reader: all that matters is whether `self` may be blamed when it fails -/
theorem Bo.noctx {α} {S : List Pos} {self : Pos} (r : R α) [NoCtx r] (h : (∃ e, r = .error e) → self ∈ S) : Bo S self r :=
  ⟨NoCtx.within r, fun msg e => h ⟨_, e⟩⟩

theorem Bo.self {α} {S : List Pos} {self : Pos} {r : R α} (hs : self ∈ S) (h : Within S r) : Bo S self r := ⟨h, fun _ _ => hs⟩

theorem Bo.bind {α β} {S : List Pos} {self : Pos} {r : R α} {f : α → R β} (hr : Bo S self r)
    (hf : ∀ v, r = .ok v → Bo S self (f v)) : Bo S self (r >>= f) := by
  refine ⟨Within.bind hr.1 fun v hv => (hf v hv).1, fun msg e => ?_⟩
  cases r with
  | ok v => exact (hf v rfl).2 msg e
  | error x => exact hr.2 msg (by simpa [Bind.bind, Except.bind] using e)

/-- the `.ctx(self)` wrapper: the plain errors of the body become errors naming `self` -/
theorem Bo.ctx {α} {S : List Pos} {self : Pos} {r : R α} (h : Bo S self r) : Within S (SaModel.ctx (posAnn self) r) := by
  intro msg a e
  cases r with
  | ok v => cases e
  | error f =>
    cases f with
    | err m =>
      simp [SaModel.ctx, posAnn] at e
      exact ⟨self, h.2 m rfl, by rw [← e.2]; rfl⟩
    | panic s => cases e
    | errCtx m a' => exact h.1 msg a e

theorem Bo.wn_ctx {α} {S : List Pos} {self : Pos} {r : R α} (h : Bo S self r) : Wn S (SaModel.ctx (posAnn self) r) :=
  ⟨h.ctx, ctx_never_plain self r⟩

/-! ### positions -/

theorem rlabel_eq_label (a : Arr) : rlabel a = Read.label a := by
  cases a <;> first | rfl | (rename_i ty _ _; cases ty <;> rfl)

theorem rann_eq' (p : String) (a : Arr) : rann p a = posAnn (p, Read.label a) := by
  rw [rann_eq, rlabel_eq_label]

theorem below_eq_under (seg : List String) (l : List RPos) : below seg l = under seg l := rfl

theorem positionsAt_here (p : String) (a : Arr) : positionsAt p (here a) = [(p, Read.label a)] := rfl

theorem positionsAt_below1 (p : String) (name : String) (l : List RPos) :
    positionsAt p (below [segName name] l) = positionsAt (rchild p name) l := by
  rw [below_eq_under, positionsAt_under]; rfl

theorem positionsAt_below2 (p : String) (en name : String) (l : List RPos) :
    positionsAt p (below [segName en, segName name] l) = positionsAt (rmapChild p en name) l := by
  rw [below_eq_under, positionsAt_under]; rfl

theorem mem_positionsAt {p : String} {l l' : List RPos} (h : ∀ q ∈ l, q ∈ l') : ∀ q ∈ positionsAt p l, q ∈ positionsAt p l' := by
  intro q hq
  simp only [positionsAt, List.mem_map] at hq ⊢
  obtain ⟨x, hx, rfl⟩ := hq
  exact ⟨x, h x hx, rfl⟩

theorem self_mem_here (p : String) (a : Arr) : (p, Read.label a) ∈ positionsAt p (here a) := by
  rw [positionsAt_here]; exact List.mem_cons_self

/-! ### the statement, per target -/

def BlR (t : Target) : Prop :=
  ∀ (p : String) (a : Arr) (i : Nat) (lv : LVal), decodeAt a i = .ok lv → new Fixes.all a = .ok () → physical a = true →
    utf8Ok lv = true → noKnown t a lv = true →
    Within (positionsAt p (blameRead t a lv)) (readAsA AnnFixes.all Fixes.all p t a i)

theorem BlR.wn {t : Target} (h : BlR t) {p : String} {a : Arr} {i : Nat} {lv : LVal} (hd : decodeAt a i = .ok lv)
    (hn : new Fixes.all a = .ok ()) (hp : physical a = true) (hu : utf8Ok lv = true) (hk : noKnown t a lv = true) :
    Wn (positionsAt p (blameRead t a lv)) (readAsA AnnFixes.all Fixes.all p t a i) :=
  ⟨h p a i lv hd hn hp hu hk, readAsA_not_plain Fixes.all t p a i⟩

/-! ### loops -/

theorem readRange_wn {α} {S : List Pos} {f : Nat → R LVal} {g : Nat → R α} {P : LVal → Prop}
    (hfg : ∀ j v, f j = .ok v → P v → Wn S (g j)) :
    ∀ (n s : Nat) (xs : List LVal), seqAt f s n = .ok xs → (∀ v ∈ xs, P v) → Wn S (readRange g s n)
  | 0, s, xs, _, _ => by unfold readRange; exact Wn.of_ok _
  | n + 1, s, xs, hs, hP => by
    unfold seqAt at hs
    obtain ⟨v, hv, hs⟩ := bind_ok_inv hs
    obtain ⟨vs, hvs, hs⟩ := bind_ok_inv hs
    cases hs
    unfold readRange
    exact Wn.bind (hfg s v hv (hP v (by simp))) fun _ _ =>
      Wn.bind (readRange_wn hfg n (s + 1) vs hvs fun w hw => hP w (by simp [hw])) fun _ _ => Wn.of_ok _

theorem mem_blameVals {f : LVal → List RPos} : ∀ (xs : List LVal) (v : LVal), v ∈ xs → ∀ q ∈ f v, q ∈ blameVals f (LVals.ofList xs)
  | [], _, hv, _, _ => by cases hv
  | x :: xs, v, hv, q, hq => by
    simp only [LVals.ofList, blameVals, List.mem_append]
    rcases List.mem_cons.1 hv with rfl | hv
    · exact .inl hq
    · exact .inr (mem_blameVals xs v hv q hq)

/-! ### scalar targets -/

theorem isMust_false_of {c : Claim} (h : ∀ d, c ≠ must d) : Claim.isMust c = false := by
  cases c with
  | error e => rfl
  | ok o =>
    cases o with
    | none => rfl
    | some d => exact absurd rfl (h d)

/-- a reader body without wrapped children at a position where `cast` decides: blamed iff `cast` demands no value -/
theorem leaf_blame {p : String} {a : Arr} {c : Claim} {body : R DVal} [NoCtx body]
    (hsound : ∀ d, c = must d → body = .ok d) :
    Within (positionsAt p (if Claim.isMust c then [] else here a)) (ctx (rann p a) body) := by
  rw [rann_eq']
  refine Bo.ctx (Bo.noctx body fun ⟨e, he⟩ => ?_)
  have : Claim.isMust c = false := isMust_false_of fun d hd => by rw [hsound d hd] at he; cases he
  rw [this]
  exact self_mem_here p a

theorem blr_scalar {t : Target} {m : Method} (hm : methodOf t = some m) (hc' : ∀ a lv, blameRead t a lv = blameScalar t a lv)
    (hr : ∀ p a i, readAsA AnnFixes.all Fixes.all p t a i = ctx (rann p a) (scalar Fixes.all m a i >>= accept t)) : BlR t := by
  intro p a i lv h hn hp hu _
  rw [hr, hc']
  unfold blameScalar
  exact leaf_blame fun d hd => scalar_sound hm a i lv d h hn hp hu hd

theorem blr_any : BlR .any := by
  intro p a i lv h hn hp hu _
  have := readAsA_typed_decode AnnFixes.all .any p a i lv (toD a lv) h hn hp hu (by simp only [Read.cast])
  rw [this]; exact Within.of_ok _

theorem blr_ignored : BlR .ignored := by
  intro p a i lv h hn hp hu _
  have := readAsA_typed_decode AnnFixes.all .ignored p a i lv .ignored h hn hp hu (by simp only [Read.cast])
  rw [this]; exact Within.of_ok _

/-! ### `Option`, newtype -/

theorem blr_option {t : Target} (hS : BlR t) : BlR (.option t) := by
  intro p a i lv h hn hp hu hk
  have hs := isSome_of_decode a i lv h hn hp hu
  unfold readAsA
  rw [rann_eq']
  refine Bo.ctx (Bo.bind (Bo.of_eq_ok hs) fun b hb => ?_)
  rw [hs] at hb; cases hb
  cases lv with
  | null => exact Bo.of_ok _
  | _ =>
    simp only [noKnown] at hk
    simp only [blameRead, LVal.isNull, Bool.not_false, if_true]
    exact Bo.bind ((hS.wn h hn hp hu hk).bo _) fun _ _ => Bo.of_ok _

theorem blr_newtype {t : Target} (hS : BlR t) : BlR (.newtype t) := by
  intro p a i lv h hn hp hu hk
  simp only [noKnown] at hk
  unfold readAsA
  simp only [blameRead]
  exact hS p a i lv h hn hp hu hk

end SaModel.Props.C18
