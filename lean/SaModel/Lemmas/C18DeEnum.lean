import SaModel.Lemmas.C18DeTuple
/-
C18, reader-side blame against `Spec.blameRead`: enums from dense unions (variant by name / by index; the union's own
failure: the enum has no such variant; the payload is read from the variant's column) and from string columns.
-/
namespace SaModel.Props.C18
open SaModel SaModel.Read SaModel.Spec

/-- the statement for the payload of a variant, read from the variant's column at `cp` -/
def KBl (k : VKind) : Prop :=
  ∀ (cp : String) (child : Arr) (off : Nat) (lv : LVal), decodeAt child off = .ok lv → new Fixes.all child = .ok () →
    physical child = true → utf8Ok lv = true → noKnownKind k child lv = true →
    Wn (positionsAt cp (blameKind k child lv)) (readKindA AnnFixes.all Fixes.all k (some (cp, child, off)))

theorem kbl_unit : KBl .unit := by
  intro cp child off lv h hn hp hu _
  simp only [readKindA]
  refine ⟨?_, by rw [rann_eq]; exact ctx_never_plain _ _⟩
  cases child with
  | null len =>
    obtain ⟨rfl, hg⟩ := null_get h
    have : (do accept .unit (← scalar Fixes.all .unit (.null len) off)) = (.ok .unit : R DVal) := by
      unfold scalar
      simp [hg, accept, bind, Except.bind, pure, Except.pure]
    rw [this]
    exact Within.of_ok _
  | _ =>
    simp only [blameKind, isNullArr, Bool.false_and, Bool.false_eq_true, if_false]
    exact own_here _

theorem kbl_newtype {t : Target} (hS : BlR t) : KBl (.newtype t) := by
  intro cp child off lv h hn hp hu hk
  simp only [noKnownKind] at hk
  simp only [readKindA, blameKind]
  exact hS.wn h hn hp hu hk

theorem kbl_tuple {ts : Targets} (hS : ∀ t ∈ Targets.toList ts, BlR t) : KBl (.tuple ts) := by
  intro cp child off lv h hn hp hu hk
  simp only [noKnownKind] at hk
  simp only [readKindA, blameKind]
  refine ⟨tupleVisitA_blame hS cp child off lv h hn hp hu hk, ?_⟩
  unfold tupleVisitA; rw [rann_eq]; exact ctx_never_plain _ _

theorem readVariantAsA_bo : ∀ (vs : TVariants), (∀ x ∈ TVariants.toList vs, KBl x.2) →
    ∀ (sel : Option Nat) (name : String) (p : String) (a : Arr) (fmname : String) (child : Arr) (off : Nat) (w : LVal),
    decodeAt child off = .ok w → new Fixes.all child = .ok () → physical child = true → utf8Ok w = true →
    noKnownVariant vs sel name child w = true →
    Bo (positionsAt p (blameVariant vs sel name (here a) (segName fmname) child w)) (p, Read.label a)
      (readVariantAsA AnnFixes.all Fixes.all vs sel name (some (rchild p fmname, child, off)))
  | .nil, _, sel, name, p, a, fmname, child, off, w, _, _, _, _, _ => by
    simp only [readVariantAsA, blameVariant]
    exact Bo.noctx _ fun _ => self_mem_here p a
  | .cons n k rest, hV, sel, name, p, a, fmname, child, off, w, h, hn, hp, hu, hk => by
    simp only [noKnownVariant] at hk
    simp only [readVariantAsA, blameVariant]
    have key : ∀ (c : Bool),
        (if c = true then noKnownKind k child w else noKnownVariant rest (sel.map (· - 1)) name child w) = true →
        Bo (positionsAt p (if c = true then below [segName fmname] (blameKind k child w)
            else blameVariant rest (sel.map (· - 1)) name (here a) (segName fmname) child w)) (p, Read.label a)
          (if c = true then (do pure (DVal.enum (.str .transient (strBytes n))
              (← readKindA AnnFixes.all Fixes.all k (some (rchild p fmname, child, off)))))
            else readVariantAsA AnnFixes.all Fixes.all rest (sel.map (· - 1)) name (some (rchild p fmname, child, off))) := by
      intro c hk
      cases c
      · simp only [Bool.false_eq_true, if_false] at hk ⊢
        exact readVariantAsA_bo rest (fun x hx => hV x (by simp [TVariants.toList, hx])) _ name p a fmname child off w h hn hp hu hk
      · simp only [if_true] at hk ⊢
        rw [positionsAt_below1]
        exact Bo.bind (Wn.bo _ (hV (n, k) (by simp [TVariants.toList]) _ child off w h hn hp hu hk)) fun _ _ => Bo.of_ok _
    cases sel with
    | none => exact key (n == name) hk
    | some j => exact key (j == 0) hk

theorem blr_enum {byIndex : Bool} {vs : TVariants} (hV : ∀ x ∈ TVariants.toList vs, KBl x.2) : BlR (.enum byIndex vs) := by
  intro p a i lv h hn hp hu hk
  cases a with
  | union types offs fs =>
    obtain ⟨pos, off, fm, child, w, rfl, hsel, hnth, hfind, hdec, hnc, hpc⟩ := union_facts h hn hp
    simp only [utf8Ok] at hu
    simp only [noKnown, hfind] at hk
    simp only [readAsA, blameRead, hfind, ctxIf, allFix_enum, if_true]
    rw [rann_eq']
    refine Bo.ctx (Bo.bind (Bo.of_eq_ok hsel) fun ko hko => ?_)
    rw [hsel] at hko; cases hko
    simp only [hnth]
    cases byIndex
    · simp only [Bool.false_eq_true, if_false] at hk ⊢
      exact readVariantAsA_bo vs hV none fm.name p _ fm.name child off w hdec hnc hpc hu hk
    · simp only [if_true, Int.toNat_natCast] at hk ⊢
      exact readVariantAsA_bo vs hV (some pos) fm.name p _ fm.name child off w hdec hnc hpc hu hk
  | struct len v fs =>
    simp only [blameRead]
    refine whole_blame h hn hp hu ?_
    simp only [readAsA, stringElem]
    exact own_here _
  | list lg v offs fm el =>
    simp only [blameRead]
    refine whole_blame h hn hp hu ?_
    simp only [readAsA, stringElem]
    exact own_here _
  | fixedSizeList len v n fm el =>
    simp only [blameRead]
    refine whole_blame h hn hp hu ?_
    simp only [readAsA, stringElem]
    exact own_here _
  | map v offs mm ks vs' =>
    simp only [blameRead]
    refine whole_blame h hn hp hu ?_
    simp only [readAsA, stringElem]
    exact own_here _
  | _ =>
    simp only [blameRead]
    exact whole_blame h hn hp hu (leafArr_here rfl _ p i)

end SaModel.Props.C18
