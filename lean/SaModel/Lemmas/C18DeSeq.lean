import SaModel.Lemmas.C18DeBasic
/-
C18, reader-side blame against `Spec.blameRead`: views without child readers (any target), sequences, `&[u8]`, `ByteBuf`.
-/
namespace SaModel.Props.C18
open SaModel SaModel.Read SaModel.Spec

/-! ### a view without child readers: whatever is requested, only the view itself can be named -/

def leafArr : Arr → Bool
  | .struct _ _ _ | .list _ _ _ _ _ | .fixedSizeList _ _ _ _ _ | .map _ _ _ _ _ | .union _ _ _ => false
  | _ => true

theorem leafArr_here {a : Arr} (hl : leafArr a = true) (t : Target) (p : String) (i : Nat) :
    Within (positionsAt p (here a)) (readAsA AnnFixes.all Fixes.all p t a i) := by
  have h := readAsA_within AnnFixes.all Fixes.all t p a i
  have e : rpositions p a = positionsAt p (here a) := by
    rw [positionsAt_here, ← rlabel_eq_label]
    cases a <;> first | rfl | (simp [leafArr] at hl)
  rwa [e] at h

/-- the whole read is decided by `cast` at this position: nothing is blamed where a value is demanded -/
theorem whole_blame {t : Target} {p : String} {a : Arr} {i : Nat} {lv : LVal} (h : decodeAt a i = .ok lv)
    (hn : new Fixes.all a = .ok ()) (hp : physical a = true) (hu : utf8Ok lv = true)
    (hw : Within (positionsAt p (here a)) (readAsA AnnFixes.all Fixes.all p t a i)) :
    Within (positionsAt p (if Claim.isMust (Read.cast t a lv) then [] else here a)) (readAsA AnnFixes.all Fixes.all p t a i) := by
  cases hc : Read.cast t a lv with
  | error e => simpa [Claim.isMust] using hw
  | ok o =>
    cases o with
    | none => simpa [Claim.isMust] using hw
    | some d =>
      rw [readAsA_typed_decode AnnFixes.all t p a i lv d h hn hp hu hc]
      exact Within.of_ok _

/-- a body without wrapped children at a position where only the position itself can be blamed -/
theorem own_here {p : String} {a : Arr} (body : R DVal) [NoCtx body] :
    Within (positionsAt p (here a)) (ctx (rann p a) body) := by
  rw [rann_eq']
  exact Bo.ctx (Bo.noctx body fun _ => self_mem_here p a)

theorem allFix_fsl : AnnFixes.all.fslCtx = true := rfl
theorem allFix_enum : AnnFixes.all.enumCtx = true := rfl

/-! ### sequences -/

theorem blr_seq {t : Target} (hS : BlR t) : BlR (.seq t) := by
  intro p a i lv h hn hp hu hk
  cases a with
  | list lg v offs fm el =>
    obtain ⟨hi, hlv⟩ := list_inv h
    rcases hlv with rfl | ⟨xs, hxs, rfl⟩
    · simp [noKnown] at hk
    · simp only [noKnown] at hk
      obtain ⟨s, en, hr, hseq⟩ := list_range_facts (lg := lg) (v := v) (fm := fm) hi hxs
      unfold physical at hp
      simp only [utf8Ok] at hu
      simp only [readAsA, blameRead, positionsAt_below1]
      rw [rann_eq']
      refine Bo.ctx (Bo.bind (Bo.of_eq_ok hr) fun se hse => ?_)
      rw [hr] at hse; cases hse
      refine Bo.bind (Wn.bo _ (readRange_wn (P := fun x => x ∈ xs) (fun j x hj hx => ?_) _ _ xs hseq (fun _ h => h)))
        fun _ _ => Bo.of_ok _
      exact Wn.mono (mem_positionsAt (mem_blameVals xs x hx))
        (hS.wn hj (new_list_inv hn) hp (utf8OkList_mem xs hu x hx) (allVals_mem xs hk x hx))
  | fixedSizeList len v n fm el =>
    obtain ⟨hi, hlv⟩ := fsl_inv h
    rcases hlv with rfl | ⟨xs, hneg, hxs, rfl⟩
    · simp [noKnown] at hk
    · simp only [noKnown] at hk
      obtain ⟨hnew, hn0⟩ := new_fsl_inv hn
      unfold physical at hp
      simp only [Bool.and_eq_true, decide_eq_true_eq] at hp
      obtain ⟨s, en, hr, hseq⟩ := fsl_range_facts hi hn0 hp.1 hxs
      simp only [utf8Ok] at hu
      simp only [readAsA, blameRead, positionsAt_below1, ctxIf, allFix_fsl, if_true]
      rw [rann_eq']
      refine Bo.ctx (Bo.bind (Bo.of_eq_ok hr) fun se hse => ?_)
      rw [hr] at hse; cases hse
      refine Bo.bind (Wn.bo _ (readRange_wn (P := fun x => x ∈ xs) (fun j x hj hx => ?_) _ _ xs hseq (fun _ h => h)))
        fun _ _ => Bo.of_ok _
      exact Wn.mono (mem_positionsAt (mem_blameVals xs x hx))
        (hS.wn hj hnew hp.2 (utf8OkList_mem xs hu x hx) (allVals_mem xs hk x hx))
  | struct len v fs =>
    simp only [blameRead]
    refine whole_blame h hn hp hu ?_
    simp only [readAsA, binaryElems]
    exact own_here _
  | map v offs mm ks vs =>
    simp only [blameRead]
    refine whole_blame h hn hp hu ?_
    simp only [readAsA, binaryElems]
    exact own_here _
  | union types offs fs =>
    simp only [blameRead]
    refine whole_blame h hn hp hu ?_
    simp only [readAsA, binaryElems]
    exact own_here _
  | _ =>
    simp only [blameRead]
    exact whole_blame h hn hp hu (leafArr_here rfl _ p i)

/-! ### `&[u8]` and `ByteBuf` -/

theorem blr_bytes : BlR .bytes := by
  intro p a i lv h hn hp hu hk
  simp only [blameRead, blameScalar]
  have hc : Read.cast .bytes a lv = castScalar .bytes a lv := by simp only [Read.cast]
  rw [← hc]
  refine whole_blame h hn hp hu ?_
  by_cases hl : leafArr a = true
  · exact leafArr_here hl _ p i
  · cases a <;> first | exact absurd rfl hl | (simp only [readAsA]; exact own_here _)

theorem blr_u8_elem (p : String) (el : Arr) (j : Nat) (x : LVal) (hj : decodeAt el j = .ok x) (hn : new Fixes.all el = .ok ())
    (hp : physical el = true) (hu : utf8Ok x = true) :
    Wn (positionsAt p (blameScalar (.int .u8) el x))
      (ctx (rann p el) (do accept (.int .u8) (← scalar Fixes.all (.int .u8) el j))) := by
  refine ⟨?_, by rw [rann_eq]; exact ctx_never_plain _ _⟩
  unfold blameScalar
  exact leaf_blame fun d hd => scalar_sound (t := .int .u8) rfl el j x d hj hn hp hu hd

theorem blr_byteBuf : BlR .byteBuf := by
  intro p a i lv h hn hp hu hk
  by_cases hl : ∃ lg v offs fm el, a = .list lg v offs fm el
  · obtain ⟨lg, v, offs, fm, el, rfl⟩ := hl
    obtain ⟨hi, hlv⟩ := list_inv h
    rcases hlv with rfl | ⟨xs, hxs, rfl⟩
    · simp [noKnown] at hk
    · obtain ⟨s, en, hr, hseq⟩ := list_range_facts (lg := lg) (v := v) (fm := fm) hi hxs
      unfold physical at hp
      simp only [utf8Ok] at hu
      simp only [readAsA, blameRead, positionsAt_below1]
      rw [rann_eq']
      refine Bo.ctx (Bo.bind (Bo.of_eq_ok hr) fun se hse => ?_)
      rw [hr] at hse; cases hse
      refine Bo.bind (Wn.bo _ (readRange_wn (P := fun x => x ∈ xs) (fun j x hj hx => ?_) _ _ xs hseq (fun _ h => h)))
        fun _ _ => Bo.of_ok _
      exact Wn.mono (mem_positionsAt (mem_blameVals xs x hx))
        (blr_u8_elem _ el j x hj (new_list_inv hn) hp (utf8OkList_mem xs hu x hx))
  · have hb : blameRead .byteBuf a lv = blameScalar .byteBuf a lv := by
      cases a <;> first | exact absurd ⟨_, _, _, _, _, rfl⟩ hl | (simp only [blameRead])
    rw [hb]
    simp only [blameScalar]
    have hc : Read.cast .byteBuf a lv = castScalar .byteBuf a lv := by
      cases a <;> first | exact absurd ⟨_, _, _, _, _, rfl⟩ hl | (simp only [Read.cast])
    rw [← hc]
    refine whole_blame h hn hp hu ?_
    by_cases hl' : leafArr a = true
    · exact leafArr_here hl' _ p i
    · cases a <;> first | exact absurd rfl hl' | exact absurd ⟨_, _, _, _, _, rfl⟩ hl | (simp only [readAsA]; exact own_here _)

end SaModel.Props.C18
