import SaModel.Lemmas.C18DeEnum
import SaModel.Lemmas.C05ReadStruct
/-
C18, reader-side blame against `Spec.blameRead`: struct targets read by field NAME from a struct column
(`deserialize_struct` with a derived visitor).  An error of a field's read lies inside the blame of that (target field,
column field of the same name) pair; the struct reader's own failures — `duplicate field`, `missing field` — occur only
when names repeat on either side or a non-`Option` target field has no column field of its name: exactly the own
reasons of `Spec.blameStructAt`.  Invariant of the key loop (`Inv`): the filled slots are exactly the target positions of
the column field names seen so far.
-/
namespace SaModel.Props.C18
open SaModel SaModel.Read SaModel.Spec

theorem readFieldAsA_eq : ∀ (tfs : TFields) (pos : Nat) (slots : Slots) (name cp : String) (child : Arr) (idx : Nat),
    readFieldAsA AnnFixes.all Fixes.all tfs pos slots name cp child idx =
      match lookupT tfs name pos with
      | none => .ok none
      | some (q, t) =>
        if (Slots.get? slots q).isSome then fail "duplicate field"
        else (do pure (some (q, ← readAsA AnnFixes.all Fixes.all cp t child idx)))
  | .nil, pos, slots, name, cp, child, idx => by simp [readFieldAsA, lookupT]
  | .cons n t rest, pos, slots, name, cp, child, idx => by
    unfold readFieldAsA lookupT
    by_cases hn : (n == name) = true
    · simp only [hn, if_true]
    · simp only [hn, if_false]
      exact readFieldAsA_eq rest (pos + 1) slots name cp child idx

/-- one `next_key` / `next_value` step of the derived visitor over the struct reader at `p` -/
def keyStepA (tfs : TFields) (p : String) (i : Nat) (slots : Slots) (x : FieldMeta × Arr) : R Slots := do
  match (← readFieldAsA AnnFixes.all Fixes.all tfs 0 slots x.1.name (rchild p x.1.name) x.2 i) with
  | some kv => pure (slots ++ [kv])
  | none => do let _ ← readAnyA Fixes.all (rchild p x.1.name) x.2 i; pure slots

theorem readAnyA_ok {p : String} {a : Arr} {i : Nat} {lv : LVal} (h : decodeAt a i = .ok lv) (hn : new Fixes.all a = .ok ())
    (hp : physical a = true) (hu : utf8Ok lv = true) : readAnyA Fixes.all p a i = .ok (toD a lv) := by
  have e := eraseAnn_readAnyA Fixes.all p a i
  rw [Props.C02.read_any_decode a i lv h hn hp hu] at e
  cases hr : readAnyA Fixes.all p a i with
  | ok d => rw [hr] at e; simpa [eraseAnn] using e
  | error f => rw [hr] at e; cases f <;> simp [eraseAnn] at e

/-! ### membership in the blame of the fields -/

theorem mem_blameNamed {f : Arr → LVal → List RPos} : ∀ (fs : ArrFields) (lfs : LFields) (n : String) (a : Arr) (v : LVal),
    fieldNamed fs lfs n = some (a, v) → ∀ q ∈ below [segName n] (f a v), q ∈ blameNamed f n fs lfs
  | .nil, _, _, _, _, h, _, _ => by simp [fieldNamed] at h
  | .cons fm a' rest, .nil, _, _, _, h, _, _ => by simp [fieldNamed] at h
  | .cons fm a' rest, .cons _ v' lrest, n, a, v, h, q, hq => by
    unfold fieldNamed at h
    simp only [blameNamed, List.mem_append]
    split at h
    · rename_i hn
      cases h
      rw [if_pos hn]
      simp only [beq_iff_eq] at hn
      rw [hn]; exact .inl hq
    · exact .inr (mem_blameNamed rest lrest n a v h q hq)

theorem mem_blameFieldsR : ∀ (tfs : TFields) (fs : ArrFields) (lfs : LFields) (m : String) (pos q : Nat) (t : Target) (a : Arr) (v : LVal),
    lookupT tfs m pos = some (q, t) → fieldNamed fs lfs m = some (a, v) →
    ∀ x ∈ below [segName m] (blameRead t a v), x ∈ blameFieldsR tfs fs lfs
  | .nil, _, _, _, _, _, _, _, _, h, _, _, _ => by simp [lookupT] at h
  | .cons n t' rest, fs, lfs, m, pos, q, t, a, v, h, hf, x, hx => by
    unfold lookupT at h
    simp only [blameFieldsR, List.mem_append]
    split at h
    · rename_i hn
      cases h
      simp only [beq_iff_eq] at hn
      subst hn
      exact .inl (mem_blameNamed fs lfs n a v hf x hx)
    · exact .inr (mem_blameFieldsR rest fs lfs m (pos + 1) q t a v h hf x hx)

/-! ### the key loop -/

/-- the filled slots are exactly the target positions of the column field names seen so far -/
def Inv (tfs : TFields) (pre : List String) (slots : Slots) : Prop :=
  (∀ q, (slots.lookup q).isSome = true → ∃ m ∈ pre, ∃ t, lookupT tfs m 0 = some (q, t)) ∧
  (∀ m ∈ pre, ∀ q t, lookupT tfs m 0 = some (q, t) → (slots.lookup q).isSome = true)

theorem nodup_append_mem : ∀ (pre : List String) (m : String) (r : List String), m ∈ pre → nodupNames (pre ++ m :: r) = false
  | [], _, _, h => by cases h
  | x :: pre, m, r, h => by
    simp only [List.cons_append, nodupNames]
    rcases List.mem_cons.1 h with rfl | h
    · simp
    · simp [nodup_append_mem pre m r h]

theorem lookup_snoc_isSome {s : Slots} {q q' : Nat} {d : DVal} :
    ((s ++ [(q, d)]).lookup q').isSome = true ↔ (s.lookup q').isSome = true ∨ q' = q := by
  rw [List.lookup_append]
  cases hs : s.lookup q' with
  | some x => simp
  | none =>
    by_cases hq : q' = q
    · simp [List.lookup, hq]
    · have : (q' == q) = false := by simpa using hq
      simp [List.lookup, this, hq]

theorem keyLoopA_bo {tfs : TFields} (hS : ∀ x ∈ TFields.toList tfs, BlR x.2) (p : String) (S : List Pos) (self : Pos)
    (fs0 : ArrFields) (lfs0 : LFields) (hk0 : noKnownFields tfs fs0 lfs0 = true)
    (hdup : nodupNames (ArrFields.names fs0) = false → self ∈ S)
    (hsub : ∀ q ∈ positionsAt p (blameFieldsR tfs fs0 lfs0), q ∈ S) :
    ∀ (fs : ArrFields) (i : Nat) (vals : List (String × LVal)) (pre : List String) (slots : Slots),
    decodeFieldsAt fs i = .ok vals → newFields Fixes.all fs = .ok () → physicalFields fs = true →
    utf8OkFields (LFields.ofList vals) = true →
    (∀ m, m ∉ pre → fieldNamed fs0 lfs0 m = fieldNamed fs (LFields.ofList vals) m) →
    ArrFields.names fs0 = pre ++ ArrFields.names fs → Inv tfs pre slots →
    Bo S self (fs.toList.foldlM (keyStepA tfs p i) slots) ∧
    (∀ slots', fs.toList.foldlM (keyStepA tfs p i) slots = .ok slots' → Inv tfs (ArrFields.names fs0) slots')
  | .nil, i, vals, pre, slots, _, _, _, _, _, hnames, hinv => by
    simp only [ArrFields.toList, List.foldlM_nil]
    refine ⟨Bo.of_ok _, fun s' hs' => ?_⟩
    cases hs'
    simpa [hnames, ArrFields.names] using hinv
  | .cons fm a rest, i, vals, pre, slots, h, hn, hp, hu, hfn, hnames, hinv => by
    obtain ⟨v, r, hv, hr, rfl⟩ := decodeFieldsAt_cons_inv h
    obtain ⟨hna, hnr⟩ := newFields_cons_inv hn
    unfold physicalFields at hp
    simp only [Bool.and_eq_true] at hp
    simp only [LFields.ofList, utf8OkFields, Bool.and_eq_true] at hu
    simp only [ArrFields.toList, List.foldlM_cons]
    -- the recursive call, for any state that satisfies the invariant with `fm.name` added
    have hrec : ∀ slots1, Inv tfs (pre ++ [fm.name]) slots1 →
        Bo S self (rest.toList.foldlM (keyStepA tfs p i) slots1) ∧
        (∀ slots', rest.toList.foldlM (keyStepA tfs p i) slots1 = .ok slots' → Inv tfs (ArrFields.names fs0) slots') := by
      intro slots1 hinv1
      refine keyLoopA_bo hS p S self fs0 lfs0 hk0 hdup hsub rest i r (pre ++ [fm.name]) slots1 hr hnr hp.2 hu.2 ?_ ?_ hinv1
      · intro m hm
        simp only [List.mem_append, List.mem_singleton, not_or] at hm
        rw [hfn m hm.1]
        simp only [LFields.ofList, fieldNamed]
        have : (fm.name == m) = false := by simpa using fun e => hm.2 e.symm
        simp [this]
      · rw [hnames]; simp [ArrFields.names]
    -- the step
    have hstep : keyStepA tfs p i slots (fm, a) =
        (match lookupT tfs fm.name 0 with
         | none => (do let _ ← readAnyA Fixes.all (rchild p fm.name) a i; pure slots)
         | some (q, t) =>
           if (Slots.get? slots q).isSome then fail "duplicate field"
           else (do let d ← readAsA AnnFixes.all Fixes.all (rchild p fm.name) t a i; pure (slots ++ [(q, d)]))) := by
      unfold keyStepA
      rw [readFieldAsA_eq]
      cases hl : lookupT tfs fm.name 0 with
      | none => rfl
      | some qt =>
        obtain ⟨q, t⟩ := qt
        simp only
        split
        · rfl
        · cases readAsA AnnFixes.all Fixes.all (rchild p fm.name) t a i <;> rfl
    rw [hstep]
    cases hl : lookupT tfs fm.name 0 with
    | none =>
      simp only [readAnyA_ok hv hna hp.1 hu.1, bind, Except.bind, pure, Except.pure]
      have hinv1 : Inv tfs (pre ++ [fm.name]) slots := by
        refine ⟨fun q hq => ?_, fun m hm q t hlm => ?_⟩
        · obtain ⟨m, hm, t, ht⟩ := hinv.1 q hq
          exact ⟨m, by simp [hm], t, ht⟩
        · simp only [List.mem_append, List.mem_singleton] at hm
          rcases hm with hm | rfl
          · exact hinv.2 m hm q t hlm
          · rw [hl] at hlm; cases hlm
      exact hrec slots hinv1
    | some qt =>
      obtain ⟨q, t⟩ := qt
      simp only
      by_cases hpre : fm.name ∈ pre
      · -- an earlier column field of the same name: its slot is filled, `duplicate field`
        have hfilled := hinv.2 fm.name hpre q t hl
        have hself : self ∈ S := hdup (by rw [hnames]; simp only [ArrFields.names]; exact nodup_append_mem pre fm.name _ hpre)
        simp only [Slots.get?, hfilled, if_true]
        refine ⟨Bo.bind (Bo.noctx _ fun _ => hself) fun _ hv' => (by cases hv'), fun s' hs' => ?_⟩
        simp [fail, bind, Except.bind] at hs'
      · -- the first column field of this name: the slot is empty, the value is read
        have hempty : (slots.lookup q).isSome = false := by
          cases hq : (slots.lookup q).isSome with
          | false => rfl
          | true =>
            obtain ⟨m', hm', t', ht'⟩ := hinv.1 q hq
            have := lookupT_inj tfs m' fm.name 0 q t' t ht' hl
            exact absurd (this ▸ hm') hpre
        simp only [Slots.get?, hempty, Bool.false_eq_true, if_false]
        have hf0 : fieldNamed fs0 lfs0 fm.name = some (a, v) := by
          rw [hfn fm.name hpre]; simp [LFields.ofList, fieldNamed]
        obtain ⟨hmem, _, _⟩ := lookupT_mem tfs fm.name 0 q t hl
        have hkn := noKnownFields_mem tfs fs0 lfs0 hk0 fm.name t hmem a v hf0
        have hchild := (hS (fm.name, t) hmem).wn (p := rchild p fm.name) hv hna hp.1 hu.1 hkn
        have hchild' : Wn S (readAsA AnnFixes.all Fixes.all (rchild p fm.name) t a i) := by
          refine Wn.mono (fun x hx => hsub x ?_) hchild
          rw [← positionsAt_below1] at hx
          exact mem_positionsAt (mem_blameFieldsR tfs fs0 lfs0 fm.name 0 q t a v hl hf0) x hx
        have hinvd : ∀ d, Inv tfs (pre ++ [fm.name]) (slots ++ [(q, d)]) := by
          intro d
          refine ⟨fun q' hq' => ?_, fun m hm q' t' hlm => ?_⟩
          · rcases lookup_snoc_isSome.1 hq' with hq' | rfl
            · obtain ⟨m, hm, t', ht'⟩ := hinv.1 q' hq'
              exact ⟨m, by simp [hm], t', ht'⟩
            · exact ⟨fm.name, by simp, t, hl⟩
          · simp only [List.mem_append, List.mem_singleton] at hm
            rcases hm with hm | rfl
            · exact lookup_snoc_isSome.2 (.inl (hinv.2 m hm q' t' hlm))
            · rw [hl] at hlm; cases hlm
              exact lookup_snoc_isSome.2 (.inr rfl)
        cases hread : readAsA AnnFixes.all Fixes.all (rchild p fm.name) t a i with
        | error e =>
          rw [hread] at hchild'
          refine ⟨?_, fun s' hs' => by simp [bind, Except.bind] at hs'⟩
          have : ((Except.error e : R DVal) >>= fun d => (pure (slots ++ [(q, d)]) : R Slots)) >>=
              (fun s => rest.toList.foldlM (keyStepA tfs p i) s) = (Except.error e : R Slots) := rfl
          rw [this]
          exact (Wn.bo self ⟨fun msg ann he => hchild'.1 msg ann (by cases he; rfl), fun msg he => hchild'.2 msg (by cases he; rfl)⟩)
        | ok d =>
          simp only [bind, Except.bind, pure, Except.pure]
          exact hrec _ (hinvd d)

/-! ### after the key loop: `missing_field` -/

theorem requiredMissing_false : ∀ (tfs : TFields) (names : List String), requiredMissing tfs names = false →
    ∀ n t, (n, t) ∈ TFields.toList tfs → t.isOption = false → n ∈ names
  | .nil, _, _, n, t, h, _ => by simp [TFields.toList] at h
  | .cons n' t' rest, names, hr, n, t, h, ho => by
    simp only [requiredMissing, Bool.or_eq_false_iff, Bool.and_eq_false_iff, Bool.not_eq_false', Bool.not_eq_eq_eq_not,
      Bool.not_true] at hr
    simp only [TFields.toList, List.mem_cons, Prod.mk.injEq] at h
    rcases h with ⟨rfl, rfl⟩ | h
    · rcases hr.1 with h1 | h1
      · rw [ho] at h1; cases h1
      · simpa using h1
    · exact requiredMissing_false rest names hr.2 n t h ho

theorem finishFields_ok : ∀ (tfs' : TFields) (pos : Nat) (slots : Slots), nodupNames (TFields.names tfs') = true →
    (∀ n q t, lookupT tfs' n pos = some (q, t) → t.isOption = false → (slots.lookup q).isSome = true) →
    ∃ r, finishFields tfs' pos slots = .ok r
  | .nil, _, _, _, _ => ⟨[], rfl⟩
  | .cons n t rest, pos, slots, hnd, hfill => by
    simp only [TFields.names] at hnd
    obtain ⟨hnotin, hnd'⟩ := nodupNames_cons hnd
    have hhead : ∃ d, slotOrMissing t (Slots.get? slots pos) = .ok d := by
      unfold slotOrMissing Slots.get?
      cases hs : slots.lookup pos with
      | some d => exact ⟨d, rfl⟩
      | none =>
        cases ho : t.isOption with
        | true => exact ⟨.none, by simp⟩
        | false =>
          have := hfill n pos t (by simp [lookupT]) ho
          rw [hs] at this; cases this
    obtain ⟨d, hd⟩ := hhead
    obtain ⟨r, hr⟩ := finishFields_ok rest (pos + 1) slots hnd' (fun n' q t' hl ho => by
      refine hfill n' q t' ?_ ho
      unfold lookupT
      have hne : (n == n') = false := by
        simp only [beq_eq_false_iff_ne, ne_eq]
        intro e; rw [e] at hnotin
        exact hnotin (lookupT_mem rest n' (pos + 1) q t' hl).2.1
      simp [hne, hl])
    refine ⟨(.str .transient (strBytes n), d) :: r, ?_⟩
    simp only [finishFields, hd, hr, bind, Except.bind, pure, Except.pure]

/-- `deserialize_struct` / `struct_variant` of the reader of `a` at `p` -/
theorem structVisitA_blame {tfs : TFields} (hS : ∀ x ∈ TFields.toList tfs, BlR x.2) (p : String) (a : Arr) (i : Nat) (lv : LVal)
    (h : decodeAt a i = .ok lv) (hn : new Fixes.all a = .ok ()) (hp : physical a = true) (hu : utf8Ok lv = true)
    (hk : structPart (fun fs lfs => noKnownFields tfs fs lfs) a lv = true) :
    Within (positionsAt p (blameStructAt tfs (fun fs lfs => blameFieldsR tfs fs lfs) a lv))
      (structVisitA Fixes.all p (fun slots fm child =>
        readFieldAsA AnnFixes.all Fixes.all tfs 0 slots fm.name (rchild p fm.name) child i) tfs a i) := by
  unfold structVisitA
  cases a with
  | struct len v fs =>
    obtain ⟨hi, hlv⟩ := struct_inv h
    rcases hlv with rfl | ⟨vals, hvals, rfl⟩
    · simp [structPart] at hk
    · simp only [structPart] at hk
      unfold physical at hp
      simp only [utf8Ok] at hu
      simp only [blameStructAt]
      rw [rann_eq']
      have hfun : (fun (slots : Slots) (x : FieldMeta × Arr) => (do
          match (← readFieldAsA AnnFixes.all Fixes.all tfs 0 slots x.1.name (rchild p x.1.name) x.2 i) with
          | some kv => pure (slots ++ [kv])
          | none => do let _ ← readAnyA Fixes.all (rchild p x.1.name) x.2 i; pure slots : R Slots)) = keyStepA tfs p i := rfl
      generalize hown : (!nodupNames (ArrFields.names fs) || !nodupNames (TFields.names tfs) ||
        requiredMissing tfs (ArrFields.names fs)) = own
      have hselfOwn : own = true → (p, Read.label (.struct len v fs)) ∈
          positionsAt p ((if own = true then here (.struct len v fs) else []) ++ blameFieldsR tfs fs (LFields.ofList vals)) := by
        intro ho
        rw [positionsAt_append, if_pos ho]
        exact List.mem_append_left _ (self_mem_here p _)
      obtain ⟨hloop, hfinal⟩ := keyLoopA_bo hS p
        (positionsAt p ((if own = true then here (.struct len v fs) else []) ++ blameFieldsR tfs fs (LFields.ofList vals)))
        (p, Read.label (.struct len v fs)) fs (LFields.ofList vals) hk
        (fun hd => hselfOwn (by rw [← hown, hd]; rfl))
        (fun q hq => by rw [positionsAt_append]; exact List.mem_append_right _ hq)
        fs i vals [] [] hvals (new_struct_inv hn) hp hu (fun _ _ => rfl) (by simp)
        ⟨fun q hq => by simp at hq, fun m hm => by cases hm⟩
      refine Bo.ctx (Bo.bind (Bo.of_eq_ok (structItem_ok hi)) fun _ _ => ?_)
      refine Bo.bind hloop fun slots' hs' => ?_
      have hinv := hfinal slots' hs'
      refine Bo.bind (Bo.noctx _ fun ⟨e, he⟩ => ?_) fun _ _ => Bo.of_ok _
      by_cases ho : own = true
      · exact hselfOwn ho
      · have ho' : own = false := by simpa using ho
        rw [ho'] at hown
        simp only [Bool.or_eq_false_iff, Bool.not_eq_false'] at hown
        obtain ⟨r, hr⟩ := finishFields_ok tfs 0 slots' hown.1.2 (fun n q t hl hopt => by
          obtain ⟨hmem, _, _⟩ := lookupT_mem tfs n 0 q t hl
          exact hinv.2 n (requiredMissing_false tfs _ hown.2 n t hmem hopt) q t hl)
        rw [hr] at he; cases he
  | _ =>
    simp only [blameStructAt]
    exact own_here _

theorem blr_struct {tfs : TFields} (hS : ∀ x ∈ TFields.toList tfs, BlR x.2) : BlR (.struct tfs) := by
  intro p a i lv h hn hp hu hk
  simp only [noKnown] at hk
  simp only [readAsA, blameRead]
  exact structVisitA_blame hS p a i lv h hn hp hu hk

theorem kbl_struct {tfs : TFields} (hS : ∀ x ∈ TFields.toList tfs, BlR x.2) : KBl (.struct tfs) := by
  intro cp child off lv h hn hp hu hk
  simp only [noKnownKind] at hk
  simp only [readKindA, blameKind]
  refine ⟨structVisitA_blame hS cp child off lv h hn hp hu hk, ?_⟩
  unfold structVisitA; rw [rann_eq]; exact ctx_never_plain _ _

end SaModel.Props.C18
