import SaModel.Lemmas.C18DeSeq
import SaModel.Lemmas.C05ReadCont2
/-
C18, reader-side blame against `Spec.blameRead`: tuples / tuple structs over struct columns (element `k` from field `k`;
the struct's own failure: fewer fields than elements), maps over struct columns (field names as keys) and over map columns.
-/
namespace SaModel.Props.C18
open SaModel SaModel.Read SaModel.Spec

/-! ### tuples -/

theorem readTupleFieldsA_bo : ∀ (ts : Targets), (∀ t ∈ Targets.toList ts, BlR t) →
    ∀ (fs : ArrFields) (i : Nat) (vals : List (String × LVal)) (p : String) (S : List Pos) (self : Pos),
    decodeFieldsAt fs i = .ok vals → newFields Fixes.all fs = .ok () → physicalFields fs = true →
    utf8OkFields (LFields.ofList vals) = true → noKnownTuple ts fs (LFields.ofList vals) = true →
    (∀ q ∈ positionsAt p (blameTuple ts fs (LFields.ofList vals)), q ∈ S) → (ts.length > fs.length → self ∈ S) →
    Bo S self (readTupleFieldsA AnnFixes.all Fixes.all p ts fs i)
  | .nil, _, fs, i, vals, p, S, self, _, _, _, _, _, _, _ => by unfold readTupleFieldsA; exact Bo.of_ok _
  | .cons t rest, hS, .nil, i, vals, p, S, self, _, _, _, _, _, _, hlen => by
    unfold readTupleFieldsA
    exact Bo.noctx _ fun _ => hlen (by simp [Targets.length, ArrFields.length])
  | .cons t rest, hS, .cons fm a frest, i, vals, p, S, self, h, hn, hp, hu, hk, hsub, hlen => by
    obtain ⟨v, r, hv, hr, rfl⟩ := decodeFieldsAt_cons_inv h
    obtain ⟨hna, hnr⟩ := newFields_cons_inv hn
    unfold physicalFields at hp
    simp only [Bool.and_eq_true] at hp
    simp only [LFields.ofList, utf8OkFields, Bool.and_eq_true] at hu
    simp only [LFields.ofList, noKnownTuple, Bool.and_eq_true] at hk
    simp only [LFields.ofList, blameTuple, positionsAt_append, positionsAt_below1, List.mem_append] at hsub
    unfold readTupleFieldsA
    refine Bo.bind (Wn.bo _ (Wn.mono (fun q hq => hsub q (.inl hq))
      ((hS t (by simp [Targets.toList])).wn hv hna hp.1 hu.1 hk.1))) fun _ _ => ?_
    refine Bo.bind (readTupleFieldsA_bo rest (fun t' ht' => hS t' (by simp [Targets.toList, ht'])) frest i r p S self
      hr hnr hp.2 hu.2 hk.2 (fun q hq => hsub q (.inr hq))
      (fun hl => hlen (by simp only [Targets.length, ArrFields.length] at hl ⊢; omega))) fun _ _ => Bo.of_ok _

/-- `deserialize_tuple` / `deserialize_tuple_struct` / `tuple_variant` of the reader of `a` at `p` -/
theorem tupleVisitA_blame {ts : Targets} (hS : ∀ t ∈ Targets.toList ts, BlR t) (p : String) (a : Arr) (i : Nat) (lv : LVal)
    (h : decodeAt a i = .ok lv) (hn : new Fixes.all a = .ok ()) (hp : physical a = true) (hu : utf8Ok lv = true)
    (hk : structPart (fun fs lfs => noKnownTuple ts fs lfs) a lv = true) :
    Within (positionsAt p (blameTupleAt ts.length (fun fs lfs => blameTuple ts fs lfs) a lv))
      (tupleVisitA Fixes.all p (fun fs => readTupleFieldsA AnnFixes.all Fixes.all p ts fs i) a i) := by
  unfold tupleVisitA
  cases a with
  | struct len v fs =>
    obtain ⟨hi, hlv⟩ := struct_inv h
    rcases hlv with rfl | ⟨vals, hvals, rfl⟩
    · simp [structPart] at hk
    · simp only [structPart] at hk
      unfold physical at hp
      simp only [utf8Ok] at hu
      simp only [blameTupleAt, tupleVisit]
      rw [rann_eq']
      refine Bo.ctx (Bo.bind (Bo.of_eq_ok (structItem_ok hi)) fun _ _ => ?_)
      refine Bo.bind (readTupleFieldsA_bo ts hS fs i vals p _ _ hvals (new_struct_inv hn) hp hu hk ?_ ?_) fun _ _ => Bo.of_ok _
      · intro q hq
        rw [positionsAt_append]; exact List.mem_append_right _ hq
      · intro hl
        rw [positionsAt_append, if_pos hl]
        exact List.mem_append_left _ (self_mem_here p _)
  | _ =>
    simp only [blameTupleAt, tupleVisit]
    exact own_here _

theorem blr_tuple {ts : Targets} (hS : ∀ t ∈ Targets.toList ts, BlR t) : BlR (.tuple ts) := by
  intro p a i lv h hn hp hu hk
  simp only [noKnown] at hk
  simp only [readAsA, blameRead]
  exact tupleVisitA_blame hS p a i lv h hn hp hu hk

theorem blr_tupleStruct {ts : Targets} (hS : ∀ t ∈ Targets.toList ts, BlR t) : BlR (.tupleStruct ts) := by
  intro p a i lv h hn hp hu hk
  simp only [noKnown] at hk
  simp only [readAsA, blameRead]
  exact tupleVisitA_blame hS p a i lv h hn hp hu hk

/-! ### maps -/

theorem strDeAs_key_ok {k : Target} (hk : k = .string ∨ k = .any) (name : String) : ∃ d, strDeAs k name = .ok d := by
  rcases hk with rfl | rfl <;> exact ⟨_, rfl⟩

theorem structAsMapA_bo {k v : Target} (hV : BlR v) : ∀ (fs : ArrFields) (i : Nat) (vals : List (String × LVal)) (p : String)
    (S : List Pos) (self : Pos),
    decodeFieldsAt fs i = .ok vals → newFields Fixes.all fs = .ok () → physicalFields fs = true →
    utf8OkFields (LFields.ofList vals) = true → allStructAsMap (fun c w => noKnown v c w) fs (LFields.ofList vals) = true →
    (∀ q ∈ positionsAt p (blameStructAsMap (fun c w => blameRead v c w) fs (LFields.ofList vals)), q ∈ S) →
    (¬ (k = .string ∨ k = .any) → self ∈ S) →
    Bo S self (fs.toList.mapM fun (x : FieldMeta × Arr) => do
      let kk ← strDeAs k x.1.name
      let vv ← readAsA AnnFixes.all Fixes.all (rchild p x.1.name) v x.2 i
      pure (kk, vv))
  | .nil, i, vals, p, S, self, _, _, _, _, _, _, _ => by
    simp only [ArrFields.toList, List.mapM_nil]; exact Bo.of_ok _
  | .cons fm a rest, i, vals, p, S, self, h, hn, hp, hu, hk, hsub, hself => by
    obtain ⟨w, r, hw, hr, rfl⟩ := decodeFieldsAt_cons_inv h
    obtain ⟨hna, hnr⟩ := newFields_cons_inv hn
    unfold physicalFields at hp
    simp only [Bool.and_eq_true] at hp
    simp only [LFields.ofList, utf8OkFields, Bool.and_eq_true] at hu
    simp only [LFields.ofList, allStructAsMap, Bool.and_eq_true] at hk
    simp only [LFields.ofList, blameStructAsMap, positionsAt_append, positionsAt_below1, List.mem_append] at hsub
    simp only [ArrFields.toList, List.mapM_cons]
    refine Bo.bind (Bo.bind ?_ fun _ _ => Bo.bind (Wn.bo _ (Wn.mono (fun q hq => hsub q (.inl hq))
      (hV.wn hw hna hp.1 hu.1 hk.1))) fun _ _ => Bo.of_ok _) fun _ _ => ?_
    · by_cases hkk : k = .string ∨ k = .any
      · obtain ⟨d, hd⟩ := strDeAs_key_ok hkk fm.name
        exact Bo.of_eq_ok hd
      · exact Bo.noctx _ fun _ => hself hkk
    · exact Bo.bind (structAsMapA_bo hV rest i r p S self hr hnr hp.2 hu.2 hk.2 (fun q hq => hsub q (.inr hq)) hself)
        fun _ _ => Bo.of_ok _

theorem readRange_pairs_wn {S : List Pos} {p : String} {f1 f2 : Nat → R LVal} {g1 g2 : Nat → R DVal} {c1 c2 : LVal → Bool}
    {fk fv : LVal → List RPos}
    (h1 : ∀ j x, f1 j = .ok x → utf8Ok x = true → c1 x = true → Wn (positionsAt p (fk x)) (g1 j))
    (h2 : ∀ j x, f2 j = .ok x → utf8Ok x = true → c2 x = true → Wn (positionsAt p (fv x)) (g2 j)) :
    ∀ (n s : Nat) (kxs wxs : List LVal), seqAt f1 s n = .ok kxs → seqAt f2 s n = .ok wxs →
    utf8OkEntries (LEntries.ofList (kxs.zip wxs)) = true → allEntries c1 c2 (LEntries.ofList (kxs.zip wxs)) = true →
    (∀ q ∈ positionsAt p (blameEntriesR fk fv (LEntries.ofList (kxs.zip wxs))), q ∈ S) →
    Wn S (readRange (fun j => do let kk ← g1 j; let vv ← g2 j; pure (kk, vv)) s n)
  | 0, s, _, _, _, _, _, _, _ => by unfold readRange; exact Wn.of_ok _
  | n + 1, s, kxs, wxs, hs1, hs2, hu, hc, hsub => by
    unfold seqAt at hs1 hs2
    obtain ⟨k, hk, hs1⟩ := bind_ok_inv hs1
    obtain ⟨kr, hkr, hs1⟩ := bind_ok_inv hs1
    cases hs1
    obtain ⟨w, hw, hs2⟩ := bind_ok_inv hs2
    obtain ⟨wr, hwr, hs2⟩ := bind_ok_inv hs2
    cases hs2
    simp only [List.zip_cons_cons, LEntries.ofList, blameEntriesR, positionsAt_append, List.mem_append] at hsub
    simp only [List.zip_cons_cons, LEntries.ofList, utf8OkEntries, Bool.and_eq_true] at hu
    simp only [List.zip_cons_cons, LEntries.ofList, allEntries, Bool.and_eq_true] at hc
    unfold readRange
    refine Wn.bind (Wn.bind (Wn.mono (fun q hq => hsub q (.inl (.inl hq))) (h1 s k hk hu.1.1 hc.1.1)) fun _ _ =>
      Wn.bind (Wn.mono (fun q hq => hsub q (.inl (.inr hq))) (h2 s w hw hu.1.2 hc.1.2)) fun _ _ => Wn.of_ok _) fun _ _ => ?_
    exact Wn.bind (readRange_pairs_wn h1 h2 n (s + 1) kr wr hkr hwr hu.2 hc.2 (fun q hq => hsub q (.inr hq)))
      fun _ _ => Wn.of_ok _

theorem blr_map {k v : Target} (hK : BlR k) (hV : BlR v) : BlR (.map k v) := by
  intro p a i lv h hn hp hu hk
  cases a with
  | struct len vv fs =>
    obtain ⟨hi, hlv⟩ := struct_inv h
    rcases hlv with rfl | ⟨vals, hvals, rfl⟩
    · simp [noKnown] at hk
    · simp only [noKnown] at hk
      unfold physical at hp
      simp only [utf8Ok] at hu
      simp only [readAsA, blameRead]
      rw [rann_eq']
      refine Bo.ctx (Bo.bind (Bo.of_eq_ok (structItem_ok hi)) fun _ _ => ?_)
      refine Bo.bind (structAsMapA_bo (k := k) hV fs i vals p _ _ hvals (new_struct_inv hn) hp hu hk ?_ ?_) fun _ _ => Bo.of_ok _
      · intro q hq
        rw [positionsAt_append]; exact List.mem_append_right _ hq
      · intro hkk
        rw [positionsAt_append]
        refine List.mem_append_left _ ?_
        cases k <;> first | exact self_mem_here p _ | exact absurd (.inl rfl) hkk | exact absurd (.inr rfl) hkk
  | map vv offs mm ks vs =>
    obtain ⟨hi, hlv⟩ := map_inv h
    rcases hlv with rfl | ⟨kxs, wxs, hkx, hwx, rfl⟩
    · simp [noKnown] at hk
    · simp only [noKnown] at hk
      obtain ⟨hnk, hnv⟩ := new_map_inv hn
      unfold physical at hp
      simp only [Bool.and_eq_true] at hp
      simp only [utf8Ok] at hu
      obtain ⟨h0, h1, _, hseqk⟩ := rangeAt_ok hkx
      obtain ⟨_, _, _, hseqv⟩ := rangeAt_ok hwx
      have hr := listRange_eval hi h0 h1
      simp only [readAsA, blameRead]
      rw [rann_eq']
      refine Bo.ctx (Bo.bind (Bo.of_eq_ok hr) fun se hse => ?_)
      rw [hr] at hse; cases hse
      refine Bo.bind (Wn.bo _ ?_) fun _ _ => Bo.of_ok _
      refine readRange_pairs_wn (p := p) (c1 := fun w => noKnown k ks w) (c2 := fun w => noKnown v vs w)
        (fun j x hj hx hc => ?_) (fun j x hj hx hc => ?_) _ _ kxs wxs hseqk hseqv hu hk (fun q hq => hq)
      · rw [positionsAt_below2]; exact hK.wn hj hnk hp.1 hx hc
      · rw [positionsAt_below2]; exact hV.wn hj hnv hp.2 hx hc
  | _ =>
    simp only [blameRead, readAsA]
    exact own_here _

end SaModel.Props.C18
