import SaModel.Lemmas.C18ReadPlain
/-
C18, reader half: ERASURE.  The annotated reader model (`Read/Annot.lean`: `readAnyA`, `readAsA`, `readRecordA`) is the
reader model of C02 / C12 / C17 (`Read/Reader.lean`: `readAny`, `readAs`, `readRecord`) plus annotations:

  `EqE r r'`              `eraseAnn r = eraseAnn r'` — same outcome up to the annotation of an error (value, message,
                           panic site are kept); a congruence for `>>=`, the loops and `.ctx(..)`
  `readAnyA_erase` …      by mutual recursion over the view
  `readAsA_erase`  …      by mutual recursion over the target, for every path and ARBITRARY view
  `readAs_noctx` …        the un-annotated model returns no annotated error, so `eraseAnn` is the identity on it
-/
namespace SaModel.Props.C18
open SaModel SaModel.Read

/-- equal up to annotations -/
def EqE {α} (r r' : R α) : Prop := eraseAnn r = eraseAnn r'

theorem EqE.refl {α} (r : R α) : EqE r r := rfl
theorem EqE.symm {α} {r r' : R α} (h : EqE r r') : EqE r' r := Eq.symm h
theorem EqE.trans {α} {r r' r'' : R α} (h : EqE r r') (h' : EqE r' r'') : EqE r r'' := Eq.trans h h'

theorem eraseAnn_ctx {α} (ann : List (String × String)) (r : R α) : eraseAnn (ctx ann r) = eraseAnn r := by
  cases r with
  | ok v => rfl
  | error e =>
    cases e with
    | err m => simp only [ctx]; split <;> rfl
    | panic s => rfl
    | errCtx m a => rfl

theorem eraseAnn_idem {α} (r : R α) : eraseAnn (eraseAnn r) = eraseAnn r := by
  cases r with
  | ok v => rfl
  | error e => cases e <;> rfl

/-- on an outcome without annotations erasure does nothing -/
theorem eraseAnn_noctx {α} (r : R α) [h : NoCtx r] : eraseAnn r = r := by
  cases r with
  | ok v => rfl
  | error e =>
    cases e with
    | err m => rfl
    | panic s => rfl
    | errCtx m a => exact absurd rfl (h.out m a)

theorem EqE.ctx_left {α} (ann : List (String × String)) {r r' : R α} (h : EqE r r') : EqE (ctx ann r) r' := by
  unfold EqE; rw [eraseAnn_ctx]; exact h

theorem EqE.ctxIf_left {α} (b : Bool) (ann : List (String × String)) {r r' : R α} (h : EqE r r') :
    EqE (ctxIf b ann r) r' := by
  unfold SaModel.Read.ctxIf; split
  · exact EqE.ctx_left ann h
  · exact h

theorem EqE.ok_inv {α} {v : α} {r : R α} (h : EqE (.ok v) r) : r = .ok v := by
  cases r with
  | ok w => simp only [EqE, eraseAnn] at h; exact h.symm
  | error e => cases e <;> simp [EqE, eraseAnn] at h

theorem EqE.bind {α β} {r r' : R α} {f f' : α → R β} (hr : EqE r r') (hf : ∀ v, EqE (f v) (f' v)) :
    EqE (r >>= f) (r' >>= f') := by
  cases r with
  | ok v =>
    rw [EqE.ok_inv hr]; exact hf v
  | error e =>
    cases r' with
    | ok w => exact absurd (EqE.ok_inv hr.symm) (by intro h; cases h)
    | error e' =>
      have : (eraseAnn (.error e : R β)) = eraseAnn (.error e' : R β) := by
        cases e <;> cases e' <;> simp_all [EqE, eraseAnn]
      exact this

theorem EqE.ite {α} (c : Prop) [Decidable c] {x y x' y' : R α} (hx : EqE x x') (hy : EqE y y') :
    EqE (if c then x else y) (if c then x' else y') := by
  split <;> assumption

/-! ### loops -/

theorem readRange_erase {α} {f g : Nat → R α} (h : ∀ j, EqE (f j) (g j)) : ∀ (n s : Nat), EqE (readRange f s n) (readRange g s n)
  | 0, s => by unfold readRange; exact EqE.refl _
  | n + 1, s => by
    unfold readRange
    exact EqE.bind (h s) fun _ => EqE.bind (readRange_erase h n (s + 1)) fun _ => EqE.refl _

theorem mapM_erase {α β} {f g : α → R β} : ∀ (l : List α), (∀ x ∈ l, EqE (f x) (g x)) → EqE (l.mapM f) (l.mapM g)
  | [], _ => by simp only [List.mapM_nil]; exact EqE.refl _
  | x :: xs, h => by
    simp only [List.mapM_cons]
    exact EqE.bind (h x (by simp)) fun _ => EqE.bind (mapM_erase xs fun y hy => h y (by simp [hy])) fun _ => EqE.refl _

theorem foldlM_erase {α σ} {f g : σ → α → R σ} : ∀ (l : List α) (init : σ), (∀ s, ∀ x ∈ l, EqE (f s x) (g s x)) →
    EqE (l.foldlM f init) (l.foldlM g init)
  | [], init, _ => by simp only [List.foldlM_nil]; exact EqE.refl _
  | x :: xs, init, h => by
    simp only [List.foldlM_cons]
    exact EqE.bind (h init x (by simp)) fun s' => foldlM_erase xs s' fun s y hy => h s y (by simp [hy])

theorem anyAt_erase (fx : Fixes) (a : Arr) {f g : Nat → R DVal} (h : ∀ i, EqE (f i) (g i)) (idx : Nat) :
    EqE (anyAt fx a f idx) (anyAt fx a g idx) := by
  unfold anyAt
  exact EqE.bind (EqE.refl _) fun b => by
    split
    · exact h idx
    · exact EqE.refl _

/-! ### `deserialize_any` -/

mutual
theorem readAnyA_erase (fx : Fixes) : ∀ (a : Arr) (p : String) (idx : Nat), EqE (readAnyA fx p a idx) (readAny fx a idx)
  | .struct len v fs, p, idx => by
    unfold readAnyA readAny
    refine EqE.ctx_left _ (anyAt_erase fx _ (fun i => ?_) idx)
    unfold readAnySome
    exact EqE.ite _ (EqE.refl _) (EqE.bind (readAnyFieldsA_erase fx fs p i) fun _ => EqE.refl _)
  | .list large v offs fm el, p, idx => by
    unfold readAnyA readAny
    refine EqE.ctx_left _ (anyAt_erase fx _ (fun i => ?_) idx)
    unfold readAnySome
    exact EqE.bind (EqE.refl _) fun se =>
      EqE.bind (readRange_erase (fun j => readAnyA_erase fx el (rchild p fm.name) j) _ _) fun _ => EqE.refl _
  | .fixedSizeList len v n fm el, p, idx => by
    unfold readAnyA readAny
    refine EqE.ctx_left _ (anyAt_erase fx _ (fun i => ?_) idx)
    unfold readAnySome
    exact EqE.bind (EqE.refl _) fun se =>
      EqE.bind (readRange_erase (fun j => readAnyA_erase fx el (rchild p fm.name) j) _ _) fun _ => EqE.refl _
  | .map v offs mm ks vs, p, idx => by
    unfold readAnyA readAny
    refine EqE.ctx_left _ (anyAt_erase fx _ (fun i => ?_) idx)
    unfold readAnySome
    exact EqE.bind (EqE.refl _) fun se =>
      EqE.bind (readRange_erase (fun j =>
        EqE.bind (readAnyA_erase fx ks _ j) fun _ => EqE.bind (readAnyA_erase fx vs _ j) fun _ => EqE.refl _) _ _)
        fun _ => EqE.refl _
  | .union types offs fs, p, idx => by
    unfold readAnyA readAny
    refine EqE.ctx_left _ (anyAt_erase fx _ (fun i => ?_) idx)
    unfold readAnySome
    exact EqE.bind (EqE.refl _) fun ko => readAnyVariantA_erase fx fs p ko.1 ko.2
  | .null _, p, idx | .boolean _ _ _, p, idx | .prim _ _ _, p, idx | .time _ _ _ _, p, idx | .timestamp _ _ _ _, p, idx
  | .decimal128 _ _ _ _, p, idx | .bytes _ _ _ _, p, idx | .bytesView _ _ _ _, p, idx | .fixedSizeBinary _ _ _, p, idx
  | .dictionary _ _, p, idx => by
    unfold readAnyA
    exact EqE.ctx_left _ (EqE.refl _)
theorem readAnyFieldsA_erase (fx : Fixes) : ∀ (fs : ArrFields) (p : String) (idx : Nat),
    EqE (readAnyFieldsA fx p fs idx) (readAnyFields fx fs idx)
  | .nil, p, idx => by unfold readAnyFieldsA readAnyFields; exact EqE.refl _
  | .cons fm a rest, p, idx => by
    unfold readAnyFieldsA readAnyFields
    exact EqE.bind (readAnyA_erase fx a _ idx) fun _ => EqE.bind (readAnyFieldsA_erase fx rest p idx) fun _ => EqE.refl _
theorem readAnyVariantA_erase (fx : Fixes) : ∀ (fs : ArrUFields) (p : String) (k off : Nat),
    EqE (readAnyVariantA fx p fs k off) (readAnyVariant fx fs k off)
  | .nil, p, k, off => by unfold readAnyVariantA readAnyVariant; exact EqE.refl _
  | .cons _ fm a rest, p, 0, off => by
    unfold readAnyVariantA readAnyVariant
    exact EqE.bind (readAnyA_erase fx a _ off) fun _ => EqE.refl _
  | .cons _ fm a rest, p, k + 1, off => by
    unfold readAnyVariantA readAnyVariant
    exact readAnyVariantA_erase fx rest p k off
end

end SaModel.Props.C18
