import SaModel.Lemmas.C18Erase
/-
C18, reader half: ERASURE of the typed reads.  `readAsA af fx p t a idx` and `readAs fx t a idx` are equal up to the
annotation of an error — for every `AnnFixes`, every `Fixes`, every target, every path and every (arbitrary, also
inconsistent) view; by the mutual recursion over the target.
-/
namespace SaModel.Props.C18
open SaModel SaModel.Read

theorem tupleVisitA_erase (fx : Fixes) (p : String) (rf rg : ArrFields → R (List DVal)) (a : Arr) (idx : Nat)
    (h : ∀ fs, EqE (rf fs) (rg fs)) : EqE (tupleVisitA fx p rf a idx) (tupleVisit fx rg a idx) := by
  unfold tupleVisitA
  refine EqE.ctx_left _ ?_
  unfold tupleVisit
  cases a
  case struct len v fs => exact EqE.bind (EqE.refl _) fun _ => EqE.bind (h _) fun _ => EqE.refl _
  all_goals exact EqE.refl _

theorem structVisitA_erase (fx : Fixes) (p : String) (rf : Slots → FieldMeta → Arr → R (Option (Nat × DVal)))
    (rg : Slots → String → Arr → R (Option (Nat × DVal))) (tfs : TFields) (a : Arr) (idx : Nat)
    (h : ∀ slots fm child, EqE (rf slots fm child) (rg slots fm.name child)) :
    EqE (structVisitA fx p rf tfs a idx) (structVisit fx rg tfs a idx) := by
  unfold structVisitA
  refine EqE.ctx_left _ ?_
  unfold structVisit
  cases a
  case struct len v fs =>
    refine EqE.bind (EqE.refl _) fun _ => EqE.bind ?_ fun _ => EqE.refl _
    refine foldlM_erase _ _ fun slots x _ => ?_
    obtain ⟨fm, child⟩ := x
    refine EqE.bind (h slots fm child) fun r => ?_
    cases r
    · exact EqE.bind (readAnyA_erase fx child _ idx) fun _ => EqE.refl _
    · exact EqE.refl _
  all_goals exact EqE.refl _

theorem scalar_erase (fx : Fixes) (p : String) (t : Target) (m : Method) (a : Arr) (idx : Nat) :
    EqE (ctx (rann p a) (do accept t (← scalar fx m a idx))) (do accept t (← scalar fx m a idx)) :=
  EqE.ctx_left _ (EqE.refl _)

/-- the payload source without its path -/
def srcPlain : Option (String × Arr × Nat) → Option (Arr × Nat)
  | some (_, child, off) => some (child, off)
  | none => none

mutual
theorem readAsA_erase (af : AnnFixes) (fx : Fixes) : ∀ (t : Target) (p : String) (a : Arr) (idx : Nat),
    EqE (readAsA af fx p t a idx) (readAs fx t a idx)
  | .any, p, a, idx => by unfold readAsA readAs; exact readAnyA_erase fx a p idx
  | .ignored, p, a, idx => by
    unfold readAsA readAs; exact EqE.bind (readAnyA_erase fx a p idx) fun _ => EqE.refl _
  | .unit, p, a, idx => by unfold readAsA readAs; exact scalar_erase _ _ _ _ _ _
  | .unitStruct, p, a, idx => by unfold readAsA readAs; exact scalar_erase _ _ _ _ _ _
  | .bool, p, a, idx => by unfold readAsA readAs; exact scalar_erase _ _ _ _ _ _
  | .int ty, p, a, idx => by unfold readAsA readAs; exact scalar_erase _ _ _ _ _ _
  | .f32, p, a, idx => by unfold readAsA readAs; exact scalar_erase _ _ _ _ _ _
  | .f64, p, a, idx => by unfold readAsA readAs; exact scalar_erase _ _ _ _ _ _
  | .char, p, a, idx => by unfold readAsA readAs; exact scalar_erase _ _ _ _ _ _
  | .string, p, a, idx => by unfold readAsA readAs; exact scalar_erase _ _ _ _ _ _
  | .str, p, a, idx => by unfold readAsA readAs; exact scalar_erase _ _ _ _ _ _
  | .bytes, p, a, idx => by
    unfold readAsA readAs
    refine EqE.ctx_left _ ?_
    cases a <;> exact EqE.refl _
  | .byteBuf, p, a, idx => by
    unfold readAsA readAs
    refine EqE.ctx_left _ ?_
    cases a
    case list large v offs fm el =>
      exact EqE.bind (EqE.refl _) fun se =>
        EqE.bind (readRange_erase (fun j => EqE.ctx_left _ (EqE.refl _)) _ _) fun _ => EqE.refl _
    all_goals exact EqE.refl _
  | .option t, p, a, idx => by
    unfold readAsA readAs
    refine EqE.ctx_left _ (EqE.bind (EqE.refl _) fun b => ?_)
    split
    · exact EqE.bind (readAsA_erase af fx t p a idx) fun _ => EqE.refl _
    · exact EqE.refl _
  | .newtype t, p, a, idx => by unfold readAsA readAs; exact readAsA_erase af fx t p a idx
  | .seq t, p, a, idx => by
    unfold readAsA readAs
    cases a
    case list large v offs fm el =>
      exact EqE.ctx_left _ (EqE.bind (EqE.refl _) fun se =>
        EqE.bind (readRange_erase (fun j => readAsA_erase af fx t _ _ j) _ _) fun _ => EqE.refl _)
    case fixedSizeList len v n fm el =>
      exact EqE.ctxIf_left _ _ (EqE.bind (EqE.refl _) fun se =>
        EqE.bind (readRange_erase (fun j => readAsA_erase af fx t _ _ j) _ _) fun _ => EqE.refl _)
    all_goals exact EqE.ctx_left _ (EqE.refl _)
  | .tuple ts, p, a, idx => by
    unfold readAsA readAs
    exact tupleVisitA_erase fx p _ _ a idx fun fs => readTupleFieldsA_erase af fx ts p fs idx
  | .tupleStruct ts, p, a, idx => by
    unfold readAsA readAs
    exact tupleVisitA_erase fx p _ _ a idx fun fs => readTupleFieldsA_erase af fx ts p fs idx
  | .map k v, p, a, idx => by
    unfold readAsA readAs
    refine EqE.ctx_left _ ?_
    cases a
    case struct len vv fs =>
      refine EqE.bind (EqE.refl _) fun _ => EqE.bind (mapM_erase _ fun x _ => ?_) fun _ => EqE.refl _
      obtain ⟨fm, child⟩ := x
      exact EqE.bind (EqE.refl _) fun _ => EqE.bind (readAsA_erase af fx v _ child idx) fun _ => EqE.refl _
    case map vv offs mm ks vs =>
      exact EqE.bind (EqE.refl _) fun se => EqE.bind (readRange_erase (fun j =>
        EqE.bind (readAsA_erase af fx k _ _ j) fun _ => EqE.bind (readAsA_erase af fx v _ _ j) fun _ => EqE.refl _) _ _)
        fun _ => EqE.refl _
    all_goals exact EqE.refl _
  | .struct tfs, p, a, idx => by
    unfold readAsA readAs
    exact structVisitA_erase fx p _ _ tfs a idx fun slots fm child => readFieldAsA_erase af fx tfs 0 slots fm.name _ child idx
  | .enum byIndex vs, p, a, idx => by
    unfold readAsA readAs
    cases a
    case union types offs fs =>
      refine EqE.ctxIf_left _ _ (EqE.bind (EqE.refl _) fun ko => ?_)
      obtain ⟨k, off⟩ := ko
      dsimp only
      cases hn : ArrUFields.nth fs k with
      | none => exact EqE.refl _
      | some fc =>
        obtain ⟨fm, child⟩ := fc
        exact readVariantAsA_erase af fx vs _ fm.name (some (rchild p fm.name, child, off))
    all_goals
      refine EqE.ctx_left _ ?_
      dsimp only
      generalize stringElem fx _ idx = o
      cases o with
      | none => exact EqE.refl _
      | some rs =>
        exact EqE.bind (EqE.refl _) fun s => EqE.ite _ (EqE.refl _) (readVariantAsBytesA_erase af fx vs s)
theorem readTupleFieldsA_erase (af : AnnFixes) (fx : Fixes) : ∀ (ts : Targets) (p : String) (fs : ArrFields) (idx : Nat),
    EqE (readTupleFieldsA af fx p ts fs idx) (readTupleFields fx ts fs idx)
  | .nil, p, fs, idx => by unfold readTupleFieldsA readTupleFields; exact EqE.refl _
  | .cons t rest, p, .nil, idx => by unfold readTupleFieldsA readTupleFields; exact EqE.refl _
  | .cons t rest, p, .cons fm a frest, idx => by
    unfold readTupleFieldsA readTupleFields
    exact EqE.bind (readAsA_erase af fx t _ a idx) fun _ =>
      EqE.bind (readTupleFieldsA_erase af fx rest p frest idx) fun _ => EqE.refl _
theorem readFieldAsA_erase (af : AnnFixes) (fx : Fixes) : ∀ (tfs : TFields) (pos : Nat) (slots : Slots) (name cp : String)
    (child : Arr) (idx : Nat),
    EqE (readFieldAsA af fx tfs pos slots name cp child idx) (readFieldAs fx tfs pos slots name child idx)
  | .nil, _, _, _, _, _, _ => by unfold readFieldAsA readFieldAs; exact EqE.refl _
  | .cons n t rest, pos, slots, name, cp, child, idx => by
    unfold readFieldAsA readFieldAs
    split
    · split
      · exact EqE.refl _
      · exact EqE.bind (readAsA_erase af fx t cp child idx) fun _ => EqE.refl _
    · exact readFieldAsA_erase af fx rest (pos + 1) slots name cp child idx
theorem readVariantAsA_erase (af : AnnFixes) (fx : Fixes) : ∀ (vs : TVariants) (sel : Option Nat) (name : String)
    (src : Option (String × Arr × Nat)),
    EqE (readVariantAsA af fx vs sel name src) (readVariantAs fx vs sel name (srcPlain src))
  | .nil, _, _, _ => by unfold readVariantAsA readVariantAs; exact EqE.refl _
  | .cons n k rest, sel, name, src => by
    unfold readVariantAsA readVariantAs
    refine EqE.ite _ ?_ ?_
    · exact EqE.bind (readKindA_erase af fx k src) fun _ => EqE.refl _
    · exact readVariantAsA_erase af fx rest _ name src
theorem readVariantAsBytesA_erase (af : AnnFixes) (fx : Fixes) : ∀ (vs : TVariants) (s : Bytes),
    EqE (readVariantAsBytesA af fx vs s) (readVariantAsBytes fx vs s)
  | .nil, _ => by unfold readVariantAsBytesA readVariantAsBytes; exact EqE.refl _
  | .cons n k rest, s => by
    unfold readVariantAsBytesA readVariantAsBytes
    split
    · exact EqE.bind (readKindA_erase af fx k none) fun _ => EqE.refl _
    · exact readVariantAsBytesA_erase af fx rest s
theorem readKindA_erase (af : AnnFixes) (fx : Fixes) : ∀ (k : VKind) (src : Option (String × Arr × Nat)),
    EqE (readKindA af fx k src) (readKind fx k (srcPlain src))
  | .unit, some (cp, child, off) => by
    unfold readKindA readKind srcPlain; exact scalar_erase _ _ _ _ _ _
  | .unit, none => by unfold readKindA readKind srcPlain; exact EqE.refl _
  | .newtype t, some (cp, child, off) => by unfold readKindA readKind srcPlain; exact readAsA_erase af fx t cp child off
  | .tuple ts, some (cp, child, off) => by
    unfold readKindA readKind srcPlain
    exact tupleVisitA_erase fx cp _ _ child off fun fs => readTupleFieldsA_erase af fx ts cp fs off
  | .struct tfs, some (cp, child, off) => by
    unfold readKindA readKind srcPlain
    exact structVisitA_erase fx cp _ _ tfs child off fun slots fm c => readFieldAsA_erase af fx tfs 0 slots fm.name _ c off
  | .newtype _, none => by unfold readKindA readKind srcPlain; exact EqE.refl _
  | .tuple _, none => by unfold readKindA readKind srcPlain; exact EqE.refl _
  | .struct _, none => by unfold readKindA readKind srcPlain; exact EqE.refl _
end

end SaModel.Props.C18
