import SaModel.Lemmas.C18PushPlain
/-
C18, builder half: WHERE an error is raised.  The `innermost` half of the property, stated operationally:

  `Call`            what a builder is asked to do: a serde value (`x.serialize(Mut(b))`) or `k` × `serialize_default`
  `callBody ext b c` the code of builder `b` for the call `c` WITHOUT its own `.ctx(self)` wrapper (the argument of
                    `ctx b.ann (…)` in `push` / `pushNone` / `pushDefaultK`, copied arm by arm; the recursive calls into
                    the children are the real `push` / `pushNone` / `pushDefaultK`, with their wrappers)
  `OwnFails ext b c msg`  the own step of `b` fails on `c` with message `msg`: `callBody ext b c` is the PLAIN error
                    `msg` (the errors of the children are never plain — `push_not_plain` — so a plain error of the body is
                    raised by the code of `b` itself, not forwarded), or `b` is a struct builder in the state `s` whose own
                    `seen[idx]` check refuses a field (`fail!(in self, "Duplicate field")` inside the field loop)
  `Sub c x`         the call `c` is issued (to some builder) while `x` is serialized: `x` itself, the calls of its parts,
                    and the calls the builders synthesise (`serialize_unit` for a unit variant, the tuple / struct calls
                    of a variant's payload, one `u8` per byte of `serialize_bytes` on a list, the `serialize_str` a
                    dictionary builder issues to its value builder and the `serialize_u64` it issues to its key builder)
  `Placeholder c`   `serialize_none` / `serialize_default` (issued to the builders a value does not fill)
  `Raised ext S C r`  if `r` is an annotated error, its annotation is the own annotation of a builder state `b'` whose
                    subtree lies in `S`, and `OwnFails ext b' c msg` for a call `c` with `C c`
-/
namespace SaModel.Props.C18
open SaModel SaModel.Build
open SaModel.Spec (isUtf8Ty)

inductive Call where
  | val (x : SVal)
  | default (k : Nat)

/-- `serialize_none` of `b` without the `.ctx(self)` wrapper (copy of the arms of `pushNone`) -/
def noneBody : B → R B
  | .null p len => .ok (.null p (len + 1))
  | .unknownVariant _ => fail "Unknown variant does not support serialize_none"
  | .leaf p k v vals => do
      let v' ← setValidity v vals.length false
      pure (.leaf p k v' (vals ++ [0]))
  | .bytes p ty v offs data => do
      let v' ← setValidity v (offs.length - 1) false
      let offs' ← duplicateLast offs
      pure (.bytes p ty v' offs' data)
  | .bytesView p ty v views buf => do
      let v' ← setValidity v views.length false
      pure (.bytesView p ty v' (views ++ [packInline []]) buf)
  | .fixedSizeBinary p n len v buf cur => do
      let v' ← setValidity v len false
      pure (.fixedSizeBinary p n (len + 1) v' (buf ++ List.replicate n 0) cur)
  | .list p large fm v offs el => do
      let v' ← setValidity v (offs.length - 1) false
      let offs' ← duplicateLast offs
      pure (.list p large fm v' offs' el)
  | .fixedSizeList p fm n len v cur el => do
      let v' ← setValidity v len false
      let el' ← pushDefaultK el n
      pure (.fixedSizeList p fm n (len + 1) v' cur el')
  | .map p mm v offs ks vs => do
      let v' ← setValidity v (offs.length - 1) false
      let offs' ← duplicateLast offs
      pure (.map p mm v' offs' ks vs)
  | .struct p len v fs cached next seen => do
      let v' ← setValidity v len false
      let fs' ← pushDefaultKAll fs 1
      pure (.struct p (len + 1) v' fs' cached next seen)
  | b@(.dictionary p idx vals index) =>
      if idx.isNullable = false then fail "Cannot push null for non-nullable array"
      else do
        let idx' ← ctx b.ann (pushNone idx)
        pure (.dictionary p idx' vals index)
  | .union _ _ _ _ _ => fail "serialize_unit/serialize_none is not supported"

/-- `k` × `serialize_default` of `b` without the `.ctx(self)` wrapper (copy of the arms of `pushDefaultK`) -/
def defaultBody : B → Nat → R B
  | .null p len, k => .ok (.null p (len + k))
  | b@(.unknownVariant _), k =>
    if k = 0 then .ok b else fail "Unknown variant does not support serialize_default"
  | .leaf p kind v vals, k => do
    let (v', vals') ← iter k (fun (s : Validity × List Int) => .ok (setValidityDefault s.1 s.2.length, s.2 ++ [0])) (v, vals)
    pure (.leaf p kind v' vals')
  | .bytes p ty v offs data, k => do
    let (v', offs') ← iter k (fun (s : Validity × List Int) => do
      let o ← duplicateLast s.2
      pure (setValidityDefault s.1 (s.2.length - 1), o)) (v, offs)
    pure (.bytes p ty v' offs' data)
  | .bytesView p ty v views buf, k => do
    let (v', views') ← iter k (fun (s : Validity × List Nat) => .ok (setValidityDefault s.1 s.2.length, s.2 ++ [packInline []])) (v, views)
    pure (.bytesView p ty v' views' buf)
  | .fixedSizeBinary p n len v buf cur, k => do
    let (len', v', buf') ← iter k (fun (s : Nat × Validity × Bytes) =>
      .ok (s.1 + 1, setValidityDefault s.2.1 s.1, s.2.2 ++ List.replicate n 0)) (len, v, buf)
    pure (.fixedSizeBinary p n len' v' buf' cur)
  | .list p large fm v offs el, k => do
    let (v', offs') ← iter k (fun (s : Validity × List Int) => do
      let o ← duplicateLast s.2
      pure (setValidityDefault s.1 (s.2.length - 1), o)) (v, offs)
    pure (.list p large fm v' offs' el)
  | .fixedSizeList p fm n len v cur el, k => do
    let (len', v') ← iter k (fun (s : Nat × Validity) => .ok (s.1 + 1, setValidityDefault s.2 s.1)) (len, v)
    let el' ← pushDefaultK el (k * n)
    pure (.fixedSizeList p fm n len' v' cur el')
  | .map p mm v offs ks vs, k => do
    let (v', offs') ← iter k (fun (s : Validity × List Int) => do
      let o ← duplicateLast s.2
      pure (setValidityDefault s.1 (s.2.length - 1), o)) (v, offs)
    pure (.map p mm v' offs' ks vs)
  | .struct p len v fs cached next seen, k => do
    let (len', v') ← iter k (fun (s : Nat × Validity) => .ok (s.1 + 1, setValidityDefault s.2 s.1)) (len, v)
    let fs' ← pushDefaultKAll fs k
    pure (.struct p len' v' fs' cached next seen)
  | .dictionary p idx vals index, k => do
    let idx' ← pushDefaultK idx k
    pure (.dictionary p idx' vals index)
  | b@(.union p fs types offs cur), k =>
    match fs with
    | .nil => if k = 0 then .ok b else fail "Could not find variant 0 in Union"
    | .cons _ _ _ =>
      let j := firstReal fs
      let cj := cur.getD j 0
      if k ≠ 0 ∧ cj + 1 > 2147483647 then
        fail s!"Invalid union offsets: the offset type cannot represent the number of elements of variant {j}"
      else if k ≠ 0 ∧ j > 127 then fail "out of range integral type conversion attempted"
      else do
        let fs' ← pushDefaultKAt fs j k
        if k ≠ 0 ∧ cj + k > 2147483647 then
          fail s!"Invalid union offsets: the offset type cannot represent the number of elements of variant {j}"
        else
          pure (.union p fs' (types ++ List.replicate k (j : Int))
            (offs ++ (List.range k).map (fun (i : Nat) => cj + (i : Int))) (cur.set j (cj + k)))

/-- `x.serialize(Mut(b))` without the `.ctx(self)` wrapper of `b` (copy of the arms of `push`; the `Some` / newtype
layers are transparent in `push` — they are never the blamed call) -/
def valBody (ext : Ext) (b : B) : SVal → R B
  | .some v => push ext b v
  | .newtypeStruct _ v => push ext b v
  | .none => noneBody b
  | .unit =>
    match b with
    | .unknownVariant _ => fail "Unknown variant does not support serialize_unit"
    | _ => noneBody b
  | .seq xs => seqLikeWith (fun large el offs => pushElems ext large el offs xs) (fun el c => pushCountElems ext el c xs) (fun s => pushTupleElems ext s xs) (u8All xs) b .seq
  | .tuple xs => seqLikeWith (fun large el offs => pushElems ext large el offs xs) (fun el c => pushCountElems ext el c xs) (fun s => pushTupleElems ext s xs) (u8All xs) b .tuple
  | .tupleStruct _ xs => seqLikeWith (fun large el offs => pushElems ext large el offs xs) (fun el c => pushCountElems ext el c xs) (fun s => pushTupleElems ext s xs) (u8All xs) b .tupleStruct
  | .record _ fs => recordWith (fun s => pushFields ext s fs) b
  | .map es =>
      match b with
      | .struct p len v fs cached next seen => do
        let s ← SS.start ⟨p, len, v, fs, cached, next, seen⟩
        let s ← pushStructEntries ext { s with next := UNKNOWN_KEY } es
        let s ← s.finishRow
        pure s.toB
      | .map p mm v offs ks vs => do
        let v' ← setValidity v (offs.length - 1) true
        let offs' ← duplicateLast offs
        let (offs'', ks', vs') ← pushMapEntries ext offs' ks vs es
        pure (.map p mm v' offs'' ks' vs')
      | .unknownVariant _ => fail "Unknown variant does not support serialize_map_start"
      | _ => notSupported "serialize_map_start"
  | .mapRaw ops =>
      match b with
      | .struct p len v fs cached next seen => do
        let s ← SS.start ⟨p, len, v, fs, cached, next, seen⟩
        let s ← pushStructOps ext { s with next := UNKNOWN_KEY } ops
        let s ← s.finishRow
        pure s.toB
      | .map p mm v offs ks vs => do
        let v' ← setValidity v (offs.length - 1) true
        let offs' ← duplicateLast offs
        let (offs'', ks', vs') ← pushMapOps ext false offs' ks vs ops
        pure (.map p mm v' offs'' ks' vs')
      | .unknownVariant _ => fail "Unknown variant does not support serialize_map_start"
      | _ => notSupported "serialize_map_start"
  | .unitVariant n i vn =>
      match b with
      | .union p fs types offs cur => do
        let (c, types', offs', cur') ← serializeVariant fs types offs cur i
        let c' ← (match c with
          | .unknownVariant _ => ctx c.ann (fail "Unknown variant does not support serialize_unit")
          | _ => pushNone c)
        pure (.union p (fs.set i c') types' offs' cur')
      | _ => pushScalar ext b (.unitVariant n i vn)
  | .newtypeVariant _ i _ v =>
      match b with
      | .union p fs types offs cur => do
        let (c, types', offs', cur') ← serializeVariant fs types offs cur i
        let c' ← push ext c v
        pure (.union p (fs.set i c') types' offs' cur')
      | .bytes _ ty _ _ _ => if isUtf8Ty ty then fail "Cannot serialize enum with data as string" else notSupported "serialize_newtype_variant"
      | .bytesView _ ty _ _ _ => if ty == .utf8View then fail "Cannot serialize enum with data as string" else notSupported "serialize_newtype_variant"
      | .dictionary _ _ _ _ => fail "Cannot serialize enum with data as string"
      | .unknownVariant _ => fail "Unknown variant does not support serialize_newtype_variant"
      | _ => notSupported "serialize_newtype_variant"
  | .tupleVariant _ i _ xs =>
      match b with
      | .union p fs types offs cur => do
        let (c, types', offs', cur') ← serializeVariant fs types offs cur i
        let c' ← ctx c.ann (seqLikeWith (fun large el offs => pushElems ext large el offs xs) (fun el c => pushCountElems ext el c xs) (fun s => pushTupleElems ext s xs) (u8All xs) c .tupleStruct)
        pure (.union p (fs.set i c') types' offs' cur')
      | .bytes _ ty _ _ _ => if isUtf8Ty ty then fail "Cannot serialize enum with data as string" else notSupported "serialize_tuple_variant_start"
      | .bytesView _ ty _ _ _ => if ty == .utf8View then fail "Cannot serialize enum with data as string" else notSupported "serialize_tuple_variant_start"
      | .dictionary _ _ _ _ => fail "Cannot serialize enum with data as string"
      | .unknownVariant _ => fail "Unknown variant does not support serialize_tuple_variant_start"
      | _ => notSupported "serialize_tuple_variant_start"
  | .structVariant _ i _ fields =>
      match b with
      | .union p fs types offs cur => do
        let (c, types', offs', cur') ← serializeVariant fs types offs cur i
        let c' ← ctx c.ann (recordWith (fun s => pushFields ext s fields) c)
        pure (.union p (fs.set i c') types' offs' cur')
      | .bytes _ ty _ _ _ => if isUtf8Ty ty then fail "Cannot serialize enum with data as string" else notSupported "serialize_struct_variant_start"
      | .bytesView _ ty _ _ _ => if ty == .utf8View then fail "Cannot serialize enum with data as string" else notSupported "serialize_struct_variant_start"
      | .dictionary _ _ _ _ => fail "Cannot serialize enum with data as string"
      | .unknownVariant _ => fail "Unknown variant does not support serialize_struct_variant_start"
      | _ => notSupported "serialize_struct_variant_start"
  | .bytes bs =>
      match b with
      | .list p large fm v offs el => do
        let v' ← setValidity v (offs.length - 1) true
        let offs' ← duplicateLast offs
        let (el', offs'') ← pushByteElems ext large el offs' bs
        pure (.list p large fm v' offs'' el')
      | _ => pushScalar ext b (.bytes bs)
  | .bool x => pushScalar ext b (.bool x)
  | .int t x => pushScalar ext b (.int t x)
  | .f32 x => pushScalar ext b (.f32 x)
  | .f64 x => pushScalar ext b (.f64 x)
  | .char x => pushScalar ext b (.char x)
  | .str x => pushScalar ext b (.str x)
  | .unitStruct _ =>
    match b with
    | .unknownVariant _ => fail "Unknown variant does not support serialize_unit_struct"
    | _ => noneBody b

def callBody (ext : Ext) (b : B) : Call → R B
  | .val x => valBody ext b x
  | .default k => defaultBody b k

/-- the own step of `b` fails on the call `c` with `msg` -/
inductive OwnFails (ext : Ext) : B → Call → String → Prop
  /-- the code of `b` (children's errors are annotated, never plain) returns the plain error `msg` -/
  | body {b : B} {c : Call} {msg : String} : callBody ext b c = .error (.err msg) → OwnFails ext b c msg
  /-- `StructBuilder::element`: the struct builder, in the state `s` it has inside the row, has already seen field `idx` -/
  | duplicate {s : SS} {idx : Nat} {c : Call} : s.seen[idx]? = some true → OwnFails ext s.toB c "Duplicate field"

/-! ### the body copies are the bodies: every call is `ctx b.ann (callBody …)` -/

theorem pushNone_eq_body (b : B) : pushNone b = ctx b.ann (noneBody b) := by
  cases b <;> rfl

theorem push_eq_body (ext : Ext) (b : B) (x : SVal) (hs : ∀ v, x ≠ .some v) (hn : ∀ n v, x ≠ .newtypeStruct n v) :
    push ext b x = ctx b.ann (valBody ext b x) := by
  cases x with
  | some v => exact absurd rfl (hs v)
  | newtypeStruct n v => exact absurd rfl (hn n v)
  | none => rw [push, pushNone_eq_body]; rfl
  | unit =>
    unfold push valBody
    cases b <;> first | rfl | exact pushNone_eq_body _
  | unitStruct n =>
    unfold push valBody
    cases b <;> first | rfl | exact pushNone_eq_body _
  | _ => unfold push valBody; rfl

/-! ### which calls are issued while a value is serialized -/

mutual
inductive Sub : Call → SVal → Prop
  | self (x : SVal) : Sub (.val x) x
  | some {c v} : Sub c v → Sub c (.some v)
  | newtypeStruct {c n v} : Sub c v → Sub c (.newtypeStruct n v)
  | seq {c xs} : SubL c xs → Sub c (.seq xs)
  | tuple {c xs} : SubL c xs → Sub c (.tuple xs)
  | tupleStruct {c n xs} : SubL c xs → Sub c (.tupleStruct n xs)
  | record {c n fs} : SubF c fs → Sub c (.record n fs)
  | map {c es} : SubE c es → Sub c (.map es)
  | mapRaw {c ops} : SubO c ops → Sub c (.mapRaw ops)
  /-- `UnionBuilder::serialize_unit_variant` issues `serialize_unit` to the variant's builder -/
  | unitVariant {c n i vn} : Sub c .unit → Sub c (.unitVariant n i vn)
  | newtypeVariant {c n i vn v} : Sub c v → Sub c (.newtypeVariant n i vn v)
  /-- … `serialize_tuple_struct_start` + elements + `end` -/
  | tupleVariant {c n i vn xs} : Sub c (.tupleStruct vn xs) → Sub c (.tupleVariant n i vn xs)
  /-- … `serialize_struct_start` + fields + `end` -/
  | structVariant {c n i vn fs} : Sub c (.record vn fs) → Sub c (.structVariant n i vn fs)
  /-- `ListBuilder::serialize_bytes`: one `serialize_u8` per byte -/
  | byte {c} {bs : List UInt8} {x : UInt8} : x ∈ bs → Sub c (.int .u8 x.toNat) → Sub c (.bytes bs)
  /-- `DictionaryUtf8Builder::serialize_str` (reached by every scalar with a string form — `v.to_string()`, a unit
  variant's name; `ext` is the external float formatter): `self.values.serialize_str(s)` to the VALUE builder … -/
  | dictValue {c x s} (ext : Ext) : scalarToString ext x = some s → Sub c (.str s) → Sub c x
  /-- … and `idx.serialize(Mut(self.indices))`, a `serialize_u64`, to the KEY builder -/
  | dictKey {c x} (ext : Ext) (i : Int) : (scalarToString ext x).isSome = true → Sub c (.int .u64 i) → Sub c x
inductive SubL : Call → SVals → Prop
  | head {c x r} : Sub c x → SubL c (.cons x r)
  | tail {c x r} : SubL c r → SubL c (.cons x r)
inductive SubF : Call → SFields → Prop
  | head {c k a x r} : Sub c x → SubF c (.cons k a x r)
  | tail {c k a x r} : SubF c r → SubF c (.cons k a x r)
inductive SubE : Call → SEntries → Prop
  | key {c k x r} : Sub c k → SubE c (.cons k x r)
  | value {c k x r} : Sub c x → SubE c (.cons k x r)
  | tail {c k x r} : SubE c r → SubE c (.cons k x r)
inductive SubO : Call → SMapOps → Prop
  | key {c k r} : Sub c k → SubO c (.key k r)
  | keyTail {c k r} : SubO c r → SubO c (.key k r)
  | value {c x r} : Sub c x → SubO c (.value x r)
  | valueTail {c x r} : SubO c r → SubO c (.value x r)
end

/-- `serialize_none` / `serialize_default`: what the builders a value does not fill receive -/
def Placeholder (c : Call) : Prop := c = .val .none ∨ ∃ k, c = .default k

def CallsOf (x : SVal) (c : Call) : Prop := Sub c x ∨ Placeholder c
def CallsOfL (xs : SVals) (c : Call) : Prop := SubL c xs ∨ Placeholder c
def CallsOfF (fs : SFields) (c : Call) : Prop := SubF c fs ∨ Placeholder c
def CallsOfE (es : SEntries) (c : Call) : Prop := SubE c es ∨ Placeholder c
def CallsOfO (ops : SMapOps) (c : Call) : Prop := SubO c ops ∨ Placeholder c

/-! ### `Raised` and its closure properties -/

def Raised (ext : Ext) (S : List Pos) (C : Call → Prop) {α} (r : R α) : Prop :=
  ∀ msg a, r = .error (.errCtx msg a) →
    ∃ (b' : B) (c : Call), a = b'.ann ∧ (∀ q ∈ positions b', q ∈ S) ∧ C c ∧ OwnFails ext b' c msg

variable {ext : Ext}

theorem NoCtx.raised {α} {S : List Pos} {C : Call → Prop} (r : R α) [h : NoCtx r] : Raised ext S C r :=
  fun msg a e => absurd e (h.out msg a)

theorem Raised.of_ok {α} {S : List Pos} {C : Call → Prop} (v : α) : Raised ext S C (.ok v : R α) := fun _ _ h => by cases h

theorem Raised.mono {α} {S S' : List Pos} {C C' : Call → Prop} {r : R α} (hs : ∀ q ∈ S, q ∈ S') (hc : ∀ c, C c → C' c)
    (h : Raised ext S C r) : Raised ext S' C' r :=
  fun msg a e => let ⟨b', c, ha, hsub, hC, ho⟩ := h msg a e; ⟨b', c, ha, fun q hq => hs q (hsub q hq), hc c hC, ho⟩

theorem Raised.monoS {α} {S S' : List Pos} {C : Call → Prop} {r : R α} (hs : ∀ q ∈ S, q ∈ S')
    (h : Raised ext S C r) : Raised ext S' C r := Raised.mono hs (fun _ h => h) h

theorem Raised.monoC {α} {S : List Pos} {C C' : Call → Prop} {r : R α} (hc : ∀ c, C c → C' c)
    (h : Raised ext S C r) : Raised ext S C' r := Raised.mono (fun _ h => h) hc h

theorem Raised.bind {α β} {S : List Pos} {C : Call → Prop} {r : R α} {f : α → R β} (hr : Raised ext S C r)
    (hf : ∀ v, r = .ok v → Raised ext S C (f v)) : Raised ext S C (r >>= f) := by
  intro msg a e
  cases r with
  | ok v => exact hf v rfl msg a e
  | error x => exact hr msg a (by simpa [Bind.bind, Except.bind] using e)

theorem Raised.ite {α} {S : List Pos} {C : Call → Prop} (c : Prop) [Decidable c] {x y : R α} (hx : Raised ext S C x)
    (hy : Raised ext S C y) : Raised ext S C (if c then x else y) := by
  split <;> assumption

/-- **the wrapper of a builder**: an annotated error that passes through is the child's; a plain error of the body
becomes the builder's own — and then the builder's own step has failed -/
theorem Raised.ctx_own {α} {S : List Pos} {C : Call → Prop} {r : R α} (b : B) (c : Call) (hs : ∀ q ∈ positions b, q ∈ S)
    (hc : C c) (hown : ∀ msg, r = .error (.err msg) → OwnFails ext b c msg) (h : Raised ext S C r) :
    Raised ext S C (ctx b.ann r) := by
  intro msg a e
  cases r with
  | ok v => cases e
  | error f =>
    cases f with
    | err m =>
      simp [SaModel.ctx, B.ann] at e
      exact ⟨b, c, by rw [← e.2]; rfl, hs, hc, e.1 ▸ hown m rfl⟩
    | panic s => cases e
    | errCtx m a' => exact h msg a e

theorem subset_refl' {S : List Pos} : ∀ q ∈ S, q ∈ S := fun _ h => h

theorem placeholder_none : Placeholder (.val .none) := .inl rfl
theorem placeholder_default (k : Nat) : Placeholder (.default k) := .inr ⟨k, rfl⟩

end SaModel.Props.C18
