import SaModel.Lemmas.C18Own
/-
C18, builder half, `own step fails`: the non-recursive parts of `push` (mirror of C18PushPlain.lean).
-/
namespace SaModel.Props.C18
open SaModel SaModel.Build

theorem pushNone_never_plain (b : B) (msg : String) : pushNone b ≠ .error (.err msg) := by
  rw [pushNone_eq_body, ann_eq_posAnn]; exact ctx_never_plain _ _ _

variable {ext : Ext}

/-! ### scalar calls -/

/-- an annotated error of a scalar call: only a dictionary builder produces one, and it is the OWN failure of its key /
value builder (or, for a nested dictionary, of a builder below) on the `serialize_u64` / `serialize_str` the dictionary
issued — the plain error of that child's own code, annotated by that child's wrapper -/
theorem pushScalar_raised (ext : Ext) [ExtPlain ext] : ∀ (b : B) (x : SVal),
    Raised ext (positions b) (fun c => Sub c x) (pushScalar ext b x)
  | .dictionary p idx vals index, x => by
    unfold pushScalar; dsimp only
    split
    · rename_i s hs
      have hk : ∀ i, Raised ext (positions (.dictionary p idx vals index)) (fun c => Sub c x)
          (SaModel.ctx idx.ann (pushScalar ext idx (.int .u64 i))) := fun i =>
        Raised.ctx_own idx (.val (.int .u64 i))
          (by intro q hq; simp only [positions, List.mem_cons, List.mem_append]; exact .inr (.inl hq))
          (Sub.dictKey ext i (by rw [hs]; rfl) (.self _)) (fun msg h => .body h)
          (Raised.mono (by intro q hq; simp only [positions, List.mem_cons, List.mem_append]; exact .inr (.inl hq))
            (fun c hc => Sub.dictKey ext i (by rw [hs]; rfl) hc) (pushScalar_raised ext idx _))
      have hv : Raised ext (positions (.dictionary p idx vals index)) (fun c => Sub c x)
          (SaModel.ctx vals.ann (pushScalar ext vals (.str s))) :=
        Raised.ctx_own vals (.val (.str s))
          (by intro q hq; simp only [positions, List.mem_cons, List.mem_append]; exact .inr (.inr hq))
          (Sub.dictValue ext hs (.self _)) (fun msg h => .body h)
          (Raised.mono (by intro q hq; simp only [positions, List.mem_cons, List.mem_append]; exact .inr (.inr hq))
            (fun c hc => Sub.dictValue ext hs hc) (pushScalar_raised ext vals _))
      split
      · exact Raised.bind (hk _) fun _ _ => Raised.of_ok _
      · exact Raised.bind hv fun _ _ => Raised.bind (hk _) fun _ _ => Raised.of_ok _
    · exact NoCtx.raised _
  | .null _ _, x | .unknownVariant _, x | .leaf _ _ _ _, x | .bytes _ _ _ _ _, x | .bytesView _ _ _ _ _, x
  | .fixedSizeBinary _ _ _ _ _ _, x | .list _ _ _ _ _ _, x | .fixedSizeList _ _ _ _ _ _ _, x | .map _ _ _ _ _ _, x
  | .struct _ _ _ _ _ _ _, x | .union _ _ _ _ _, x => by
    exact @NoCtx.raised _ _ _ _ _ (pushScalar_noctx ext _ x rfl)

/-! ### serialize_default / serialize_none -/

mutual
theorem pushDefaultK_raised : ∀ (b : B) (k : Nat), Raised ext (positions b) Placeholder (pushDefaultK b k)
  | .null _ _, k => by unfold pushDefaultK; exact Raised.of_ok _
  | .unknownVariant p, k => by
    unfold pushDefaultK; split
    · exact Raised.of_ok _
    · rename_i hk
      refine Raised.ctx_own _ (.default k) subset_refl' (placeholder_default k) (fun msg h => .body ?_) (NoCtx.raised _)
      simp only [callBody, defaultBody, if_neg hk]; exact h
  | .leaf _ _ _ _, k => by unfold pushDefaultK; exact NoCtx.raised _
  | .bytes _ _ _ _ _, k => by
    unfold pushDefaultK
    exact Raised.ctx_own _ (.default k) subset_refl' (placeholder_default k) (fun msg h => .body h) (NoCtx.raised _)
  | .bytesView _ _ _ _ _, k => by unfold pushDefaultK; exact NoCtx.raised _
  | .fixedSizeBinary _ _ _ _ _ _, k => by unfold pushDefaultK; exact NoCtx.raised _
  | .list _ _ _ _ _ _, k => by
    unfold pushDefaultK
    exact Raised.ctx_own _ (.default k) subset_refl' (placeholder_default k) (fun msg h => .body h) (NoCtx.raised _)
  | .map _ _ _ _ _ _, k => by
    unfold pushDefaultK
    exact Raised.ctx_own _ (.default k) subset_refl' (placeholder_default k) (fun msg h => .body h) (NoCtx.raised _)
  | .fixedSizeList p fm n len v cur el, k => by
    unfold pushDefaultK
    refine Raised.ctx_own _ (.default k) subset_refl' (placeholder_default k) (fun msg h => .body h)
      (Raised.bind (NoCtx.raised _) fun _ _ =>
        Raised.bind (Raised.monoS ?_ (pushDefaultK_raised el (k * n))) fun _ _ => Raised.of_ok _)
    simp only [positions]; exact tail_sub'
  | .struct p len v fs cached next seen, k => by
    unfold pushDefaultK
    refine Raised.ctx_own _ (.default k) subset_refl' (placeholder_default k) (fun msg h => .body h)
      (Raised.bind (NoCtx.raised _) fun _ _ =>
        Raised.bind (Raised.monoS ?_ (pushDefaultKAll_raised fs k)) fun _ _ => Raised.of_ok _)
    simp only [positions]; exact tail_sub'
  | .dictionary p idx vals index, k => by
    unfold pushDefaultK
    refine Raised.ctx_own _ (.default k) subset_refl' (placeholder_default k) (fun msg h => .body h)
      (Raised.bind (Raised.monoS ?_ (pushDefaultK_raised idx k)) fun _ _ => Raised.of_ok _)
    intro q hq; simp only [positions, List.mem_cons, List.mem_append]; exact .inr (.inl hq)
  | .union p .nil types offs cur, k => by
    unfold pushDefaultK
    exact Raised.ctx_own _ (.default k) subset_refl' (placeholder_default k) (fun msg h => .body h) (NoCtx.raised _)
  | .union p (.cons c m rest) types offs cur, k => by
    unfold pushDefaultK
    refine Raised.ctx_own _ (.default k) subset_refl' (placeholder_default k) (fun msg h => .body h) ?_
    refine Raised.ite _ (NoCtx.raised _) ?_
    refine Raised.ite _ (NoCtx.raised _) ?_
    refine Raised.bind (Raised.monoS ?_ (pushDefaultKAt_raised (.cons c m rest) _ k)) fun _ _ =>
      Raised.ite _ (NoCtx.raised _) (Raised.of_ok _)
    simp only [positions]; exact tail_sub'
theorem pushDefaultKAll_raised : ∀ (fs : BL) (k : Nat), Raised ext (positionsL fs) Placeholder (pushDefaultKAll fs k)
  | .nil, k => by unfold pushDefaultKAll; exact Raised.of_ok _
  | .cons b m rest, k => by
    unfold pushDefaultKAll
    refine Raised.bind (Raised.monoS ?_ (pushDefaultK_raised b k)) fun _ _ =>
      Raised.bind (Raised.monoS ?_ (pushDefaultKAll_raised rest k)) fun _ _ => Raised.of_ok _
    · intro q hq; simp only [positionsL, List.mem_append]; exact .inl hq
    · intro q hq; simp only [positionsL, List.mem_append]; exact .inr hq
theorem pushDefaultKAt_raised : ∀ (fs : BL) (j k : Nat), Raised ext (positionsL fs) Placeholder (pushDefaultKAt fs j k)
  | .nil, _, _ => by unfold pushDefaultKAt; exact Raised.of_ok _
  | .cons b m rest, 0, k => by
    unfold pushDefaultKAt
    refine Raised.bind (Raised.monoS ?_ (pushDefaultK_raised b k)) fun _ _ => Raised.of_ok _
    intro q hq; simp only [positionsL, List.mem_append]; exact .inl hq
  | .cons b m rest, j + 1, k => by
    unfold pushDefaultKAt
    refine Raised.bind (Raised.monoS ?_ (pushDefaultKAt_raised rest j k)) fun _ _ => Raised.of_ok _
    intro q hq; simp only [positionsL, List.mem_append]; exact .inr hq
end

theorem pushNone_raised : ∀ (b : B), Raised ext (positions b) Placeholder (pushNone b)
  | .null _ _ => by unfold pushNone; exact Raised.of_ok _
  | .unknownVariant _ | .leaf _ _ _ _ | .bytes _ _ _ _ _ | .bytesView _ _ _ _ _ | .fixedSizeBinary _ _ _ _ _ _
  | .list _ _ _ _ _ _ | .map _ _ _ _ _ _ | .union _ _ _ _ _ => by
    unfold pushNone
    exact Raised.ctx_own _ (.val .none) subset_refl' placeholder_none (fun msg h => .body h) (NoCtx.raised _)
  | .fixedSizeList p fm n len v cur el => by
    unfold pushNone
    refine Raised.ctx_own _ (.val .none) subset_refl' placeholder_none (fun msg h => .body h)
      (Raised.bind (NoCtx.raised _) fun _ _ =>
        Raised.bind (Raised.monoS ?_ (pushDefaultK_raised el n)) fun _ _ => Raised.of_ok _)
    simp only [positions]; exact tail_sub'
  | .struct p len v fs cached next seen => by
    unfold pushNone
    refine Raised.ctx_own _ (.val .none) subset_refl' placeholder_none (fun msg h => .body h)
      (Raised.bind (NoCtx.raised _) fun _ _ =>
        Raised.bind (Raised.monoS ?_ (pushDefaultKAll_raised fs 1)) fun _ _ => Raised.of_ok _)
    simp only [positions]; exact tail_sub'
  | .dictionary p idx vals index => by
    unfold pushNone
    refine Raised.ctx_own _ (.val .none) subset_refl' placeholder_none (fun msg h => .body h)
      (Raised.ite _ (NoCtx.raised _) (Raised.bind (Raised.ctx_own _ (.val .none) subset_refl' placeholder_none
        (fun msg h => absurd h (pushNone_never_plain idx msg)) (Raised.monoS ?_ (pushNone_raised idx))) fun _ _ => Raised.of_ok _))
    intro q hq; simp only [positions, List.mem_cons, List.mem_append]; exact .inr (.inl hq)

/-! ### struct rows -/

theorem endFields_raised : ∀ (fs : BL) (seen : List Bool), Raised ext (positionsL fs) Placeholder (endFields fs seen)
  | .nil, _ => by unfold endFields; exact Raised.of_ok _
  | .cons b m rest, [] => by unfold endFields; exact NoCtx.raised _
  | .cons b m rest, s :: sr => by
    unfold endFields
    have hr : Raised ext (positionsL (.cons b m rest)) Placeholder (endFields rest sr) :=
      Raised.monoS (by intro q hq; simp only [positionsL, List.mem_append]; exact .inr hq) (endFields_raised rest sr)
    simp only
    split
    · exact Raised.bind hr fun _ _ => Raised.of_ok _
    · split
      · exact NoCtx.raised _
      · refine Raised.bind (Raised.monoS ?_ (pushNone_raised b)) fun _ _ => Raised.bind hr fun _ _ => Raised.of_ok _
        intro q hq; simp only [positionsL, List.mem_append]; exact .inl hq

theorem finishRow_raised (s : SS) : Raised ext (ssPos s) Placeholder s.finishRow := by
  unfold SS.finishRow
  exact Raised.bind (Raised.monoS tail_sub' (endFields_raised _ _)) fun _ _ => Raised.of_ok _

theorem element_raised {C : Call → Prop} (hP : ∀ c, Placeholder c → C c) (s : SS) (idx : Nat) (pc : B → R B)
    (hpc : ∀ c, Raised ext (positions c) C (pc c)) : Raised ext (ssPos s) C (s.element idx pc) := by
  unfold SS.element
  split
  · exact NoCtx.raised _
  · rename_i hseen
    intro msg a e
    simp [SaModel.ctx, SaModel.fail] at e
    refine ⟨s.toB, .val .none, ?_, ?_, hP _ placeholder_none, ?_⟩
    · rw [← e.2]; rfl
    · rw [ssPos_toB]; exact subset_refl'
    · rw [← e.1]; exact .duplicate hseen
  · split
    · exact NoCtx.raised _
    · rename_i c m hget
      refine Raised.bind (Raised.monoS ?_ (hpc c)) fun _ _ => Raised.of_ok _
      intro q hq; exact tail_sub' _ (get_sub _ _ c m hget q hq)

/-- `serialize_struct` / positional records on any builder -/
theorem record_raised {C : Call → Prop} (hP : ∀ c, Placeholder c → C c) {p len v fs cached next seen} (pf : SS → R SS)
    (hpf : ∀ s, Raised ext (ssPos s) C (pf s)) (hsk : ∀ s s', pf s = .ok s' → SSkel s' s) :
    Raised ext (positions (.struct p len v fs cached next seen)) C (do
      let s ← SS.start ⟨p, len, v, fs, cached, next, seen⟩
      let s ← pf s
      let s ← s.finishRow
      pure s.toB : R B) := by
  have e0 : positions (.struct p len v fs cached next seen) = ssPos ⟨p, len, v, fs, cached, next, seen⟩ := by
    simp [positions, ssPos]
  rw [e0]
  refine Raised.bind (NoCtx.raised _) fun s1 h1 => ?_
  have e1 := ssPos_of_skel (SS.start_skel h1)
  refine Raised.bind (e1 ▸ hpf s1) fun s2 h2 => ?_
  have e2 := ssPos_of_skel (hsk s1 s2 h2)
  exact Raised.bind (Raised.monoC hP (e1 ▸ e2 ▸ finishRow_raised s2)) fun _ _ => Raised.of_ok _

theorem recordWith_raised {C : Call → Prop} (hP : ∀ c, Placeholder c → C c) (pf : SS → R SS)
    (hpf : ∀ s, Raised ext (ssPos s) C (pf s))
    (hsk : ∀ s s', pf s = .ok s' → SSkel s' s) : ∀ (b : B), Raised ext (positions b) C (recordWith pf b)
  | .struct p len v fs cached next seen => by unfold recordWith; exact record_raised hP pf hpf hsk
  | .unknownVariant _ => by unfold recordWith; exact NoCtx.raised _
  | .null _ _ | .leaf _ _ _ _ | .bytes _ _ _ _ _ | .bytesView _ _ _ _ _ | .fixedSizeBinary _ _ _ _ _ _
  | .list _ _ _ _ _ _ | .fixedSizeList _ _ _ _ _ _ _ | .map _ _ _ _ _ _ | .dictionary _ _ _ _ | .union _ _ _ _ _ => by
    unfold recordWith; exact NoCtx.raised _

theorem seqLikeWith_raised {C : Call → Prop} (hP : ∀ c, Placeholder c → C c)
    (pe : Bool → B → List Int → R (B × List Int)) (pc : B → Nat → R (B × Nat))
    (pt : SS → R SS) (bytes : R Bytes) [NoCtx bytes]
    (hpe : ∀ l el o, Raised ext (positions el) C (pe l el o)) (hpc : ∀ el c, Raised ext (positions el) C (pc el c))
    (hpt : ∀ s, Raised ext (ssPos s) C (pt s)) (hsk : ∀ s s', pt s = .ok s' → SSkel s' s) (k : SeqKind) :
    ∀ (b : B), Raised ext (positions b) C (seqLikeWith pe pc pt bytes b k)
  | .list p large fm v offs el => by
    unfold seqLikeWith
    refine Raised.bind (NoCtx.raised _) fun _ _ => Raised.bind (NoCtx.raised _) fun _ _ =>
      Raised.bind (Raised.monoS ?_ (hpe _ el _)) fun _ _ => Raised.of_ok _
    simp only [positions]; exact tail_sub'
  | .fixedSizeList p fm n len v cur el => by
    unfold seqLikeWith
    refine Raised.bind (NoCtx.raised _) fun _ _ => Raised.bind (Raised.monoS ?_ (hpc el 0)) fun r _ => ?_
    · simp only [positions]; exact tail_sub'
    · exact NoCtx.raised _
  | .bytes _ _ _ _ _ => by unfold seqLikeWith; exact NoCtx.raised _
  | .bytesView _ _ _ _ _ => by unfold seqLikeWith; exact NoCtx.raised _
  | .fixedSizeBinary _ _ _ _ _ _ => by unfold seqLikeWith; exact NoCtx.raised _
  | .struct p len v fs cached next seen => by
    unfold seqLikeWith
    cases k
    · exact NoCtx.raised _
    · exact record_raised hP pt hpt hsk
    · exact record_raised hP pt hpt hsk
  | .unknownVariant _ => by unfold seqLikeWith; exact NoCtx.raised _
  | .null _ _ | .leaf _ _ _ _ | .map _ _ _ _ _ _ | .dictionary _ _ _ _ | .union _ _ _ _ _ => by
    unfold seqLikeWith; exact NoCtx.raised _

theorem pushByteElems_raised (ext : Ext) [ExtPlain ext] {C : Call → Prop} (large : Bool) : ∀ (bs : Bytes) (el : B) (offs : List Int),
    (∀ x ∈ bs, ∀ c, Sub c (.int .u8 x.toNat) → C c) → Raised ext (positions el) C (pushByteElems ext large el offs bs)
  | [], el, offs, _ => by unfold pushByteElems; exact Raised.of_ok _
  | x :: rest, el, offs, hC => by
    unfold pushByteElems
    refine Raised.bind (NoCtx.raised _) fun _ _ =>
      Raised.bind (Raised.ctx_own el (.val (.int .u8 x.toNat)) subset_refl' (hC x (by simp) _ (.self _)) (fun msg h => .body h)
        (Raised.monoC (hC x (by simp)) (pushScalar_raised ext el _))) fun el' h' => ?_
    have e := positions_of_takeRest (pushScalar_takeRest ext el _ el' ((ctx_ok _ _ _).1 h'))
    exact e ▸ pushByteElems_raised ext large rest el' _ fun y hy => hC y (by simp [hy])

/-- one row of a union: bookkeeping, then the variant's child -/
theorem union_row_raised {C : Call → Prop} {p fs types offs cur} {i : Nat} {pc : B → R B}
    (hpc : ∀ c, Raised ext (positions c) C (pc c)) :
    Raised ext (positions (.union p fs types offs cur)) C (do
      let (c, types', offs', cur') ← serializeVariant fs types offs cur i
      let c' ← pc c
      pure (.union p (fs.set i c') types' offs' cur') : R B) := by
  refine Raised.bind (NoCtx.raised _) fun r hr => ?_
  obtain ⟨c, t', o', cur'⟩ := r
  obtain ⟨m, co, hget, _⟩ := serializeVariant_ok hr
  refine Raised.bind (Raised.monoS ?_ (hpc c)) fun _ _ => Raised.of_ok _
  intro q hq; simp only [positions]; exact tail_sub' _ (get_sub fs i c m hget q hq)

end SaModel.Props.C18
