import SaModel.Lemmas.C18OwnPlain
/-
C18, builder half: every annotated error of `push` is the OWN failure of a builder of the subtree on a call issued while
the value is serialized (mirror of C18Push.lean, by the same mutual recursion over the serde value).
-/
namespace SaModel.Props.C18
open SaModel SaModel.Build

theorem map_sub_k' {p mm v offs ks vs} : ∀ q ∈ positions ks ++ positions vs, q ∈ positions (.map p mm v offs ks vs) := by
  intro q hq; simp only [positions]; exact tail_sub' _ hq

theorem hP_of {x : SVal} : ∀ c, Placeholder c → CallsOf x c := fun _ h => .inr h
theorem hP_L {xs : SVals} : ∀ c, Placeholder c → CallsOfL xs c := fun _ h => .inr h
theorem hP_F {fs : SFields} : ∀ c, Placeholder c → CallsOfF fs c := fun _ h => .inr h
theorem hP_E {es : SEntries} : ∀ c, Placeholder c → CallsOfE es c := fun _ h => .inr h
theorem hP_O {ops : SMapOps} : ∀ c, Placeholder c → CallsOfO ops c := fun _ h => .inr h

set_option linter.unusedSectionVars false
variable (ext : Ext) [ExtPlain ext]

mutual
theorem push_raised : ∀ (x : SVal) (b : B), Raised ext (positions b) (CallsOf x) (push ext b x)
  | .some v, b => by rw [push]; exact Raised.monoC (fun c h => h.imp Sub.some id) (push_raised v b)
  | .newtypeStruct _ v, b => by rw [push]; exact Raised.monoC (fun c h => h.imp Sub.newtypeStruct id) (push_raised v b)
  | .none, b => by rw [push]; exact Raised.monoC hP_of (pushNone_raised b)
  | .unit, b => by
    unfold push
    split
    · exact Raised.ctx_own _ (.val .unit) subset_refl' (.inl (.self _)) (fun msg h => .body h) (NoCtx.raised _)
    · exact Raised.monoC hP_of (pushNone_raised b)
  | .seq xs, b => by
    unfold push
    exact Raised.ctx_own b (.val (.seq xs)) subset_refl' (.inl (.self _)) (fun msg h => .body h)
      (seqLikeWith_raised hP_of _ _ _ _
        (fun l el o => Raised.monoC (fun c h => h.imp Sub.seq id) (pushElems_raised xs l el o))
        (fun el c => Raised.monoC (fun c h => h.imp Sub.seq id) (pushCountElems_raised xs el c))
        (fun s => Raised.monoC (fun c h => h.imp Sub.seq id) (pushTupleElems_raised xs s))
        (fun s s' h => pushTupleElems_takeRest ext xs s s' h) _ b)
  | .tuple xs, b => by
    unfold push
    exact Raised.ctx_own b (.val (.tuple xs)) subset_refl' (.inl (.self _)) (fun msg h => .body h)
      (seqLikeWith_raised hP_of _ _ _ _
        (fun l el o => Raised.monoC (fun c h => h.imp Sub.tuple id) (pushElems_raised xs l el o))
        (fun el c => Raised.monoC (fun c h => h.imp Sub.tuple id) (pushCountElems_raised xs el c))
        (fun s => Raised.monoC (fun c h => h.imp Sub.tuple id) (pushTupleElems_raised xs s))
        (fun s s' h => pushTupleElems_takeRest ext xs s s' h) _ b)
  | .tupleStruct n xs, b => by
    unfold push
    exact Raised.ctx_own b (.val (.tupleStruct n xs)) subset_refl' (.inl (.self _)) (fun msg h => .body h)
      (seqLikeWith_raised hP_of _ _ _ _
        (fun l el o => Raised.monoC (fun c h => h.imp Sub.tupleStruct id) (pushElems_raised xs l el o))
        (fun el c => Raised.monoC (fun c h => h.imp Sub.tupleStruct id) (pushCountElems_raised xs el c))
        (fun s => Raised.monoC (fun c h => h.imp Sub.tupleStruct id) (pushTupleElems_raised xs s))
        (fun s s' h => pushTupleElems_takeRest ext xs s s' h) _ b)
  | .record n fs, b => by
    unfold push
    exact Raised.ctx_own b (.val (.record n fs)) subset_refl' (.inl (.self _)) (fun msg h => .body h)
      (recordWith_raised hP_of _ (fun s => Raised.monoC (fun c h => h.imp Sub.record id) (pushFields_raised fs s))
        (fun s s' h => pushFields_takeRest ext fs s s' h) b)
  | .map es, b => by
    unfold push
    refine Raised.ctx_own b (.val (.map es)) subset_refl' (.inl (.self _)) (fun msg h => .body h) ?_
    cases b with
    | struct p len v fs cached next seen =>
      exact record_raised hP_of (fun s => pushStructEntries ext { s with next := UNKNOWN_KEY } es)
        (fun s => Raised.monoC (fun c h => h.imp Sub.map id) (pushStructEntries_raised es _))
        (fun s s' h => (pushStructEntries_takeRest ext es _ s' h).trans (SSkel.next s _))
    | map p mm v offs ks vs =>
      exact Raised.bind (NoCtx.raised _) fun _ _ => Raised.bind (NoCtx.raised _) fun _ _ =>
        Raised.bind (Raised.mono map_sub_k' (fun c h => h.imp Sub.map id) (pushMapEntries_raised es _ ks vs)) fun _ _ =>
          Raised.of_ok _
    | unknownVariant _ => exact NoCtx.raised _
    | _ => exact NoCtx.raised _
  | .mapRaw ops, b => by
    unfold push
    refine Raised.ctx_own b (.val (.mapRaw ops)) subset_refl' (.inl (.self _)) (fun msg h => .body h) ?_
    cases b with
    | struct p len v fs cached next seen =>
      exact record_raised hP_of (fun s => pushStructOps ext { s with next := UNKNOWN_KEY } ops)
        (fun s => Raised.monoC (fun c h => h.imp Sub.mapRaw id) (pushStructOps_raised ops _))
        (fun s s' h => (pushStructOps_takeRest ext ops _ s' h).trans (SSkel.next s _))
    | map p mm v offs ks vs =>
      exact Raised.bind (NoCtx.raised _) fun _ _ => Raised.bind (NoCtx.raised _) fun _ _ =>
        Raised.bind (Raised.mono map_sub_k' (fun c h => h.imp Sub.mapRaw id) (pushMapOps_raised ops false _ ks vs)) fun _ _ =>
          Raised.of_ok _
    | unknownVariant _ => exact NoCtx.raised _
    | _ => exact NoCtx.raised _
  | .unitVariant n i vn, b => by
    unfold push
    refine Raised.ctx_own b (.val (.unitVariant n i vn)) subset_refl' (.inl (.self _)) (fun msg h => .body h) ?_
    cases b with
    | union p fs types offs cur =>
      refine union_row_raised (pc := fun c => match c with
        | .unknownVariant _ => ctx c.ann (fail "Unknown variant does not support serialize_unit")
        | _ => pushNone c) fun c => ?_
      split
      · exact Raised.ctx_own _ (.val .unit) subset_refl' (.inl (.unitVariant (.self _))) (fun msg h => .body h) (NoCtx.raised _)
      · exact Raised.monoC hP_of (pushNone_raised c)
    | _ => exact Raised.monoC (fun _ h => .inl h) (pushScalar_raised ext _ _)
  | .newtypeVariant n i vn v, b => by
    unfold push
    refine Raised.ctx_own b (.val (.newtypeVariant n i vn v)) subset_refl' (.inl (.self _)) (fun msg h => .body h) ?_
    cases b with
    | union p fs types offs cur =>
      exact union_row_raised (pc := fun c => push ext c v) fun c =>
        Raised.monoC (fun c h => h.imp Sub.newtypeVariant id) (push_raised v c)
    | bytes _ ty _ _ _ => exact NoCtx.raised _
    | bytesView _ ty _ _ _ => exact NoCtx.raised _
    | _ => exact NoCtx.raised _
  | .tupleVariant n i vn xs, b => by
    unfold push
    refine Raised.ctx_own b (.val (.tupleVariant n i vn xs)) subset_refl' (.inl (.self _)) (fun msg h => .body h) ?_
    have lift : ∀ c, CallsOfL xs c → CallsOf (.tupleVariant n i vn xs) c :=
      fun c h => h.imp (fun h => Sub.tupleVariant (Sub.tupleStruct h)) id
    cases b with
    | union p fs types offs cur =>
      exact union_row_raised (pc := fun c => ctx c.ann (seqLikeWith (fun large el offs => pushElems ext large el offs xs)
          (fun el c => pushCountElems ext el c xs) (fun s => pushTupleElems ext s xs) (u8All xs) c .tupleStruct))
        fun c => Raised.ctx_own c (.val (.tupleStruct vn xs)) subset_refl' (.inl (.tupleVariant (.self _))) (fun msg h => .body h)
          (seqLikeWith_raised hP_of _ _ _ _
            (fun l el o => Raised.monoC lift (pushElems_raised xs l el o))
            (fun el c => Raised.monoC lift (pushCountElems_raised xs el c))
            (fun s => Raised.monoC lift (pushTupleElems_raised xs s))
            (fun s s' h => pushTupleElems_takeRest ext xs s s' h) _ c)
    | bytes _ ty _ _ _ => exact NoCtx.raised _
    | bytesView _ ty _ _ _ => exact NoCtx.raised _
    | _ => exact NoCtx.raised _
  | .structVariant n i vn fields, b => by
    unfold push
    refine Raised.ctx_own b (.val (.structVariant n i vn fields)) subset_refl' (.inl (.self _)) (fun msg h => .body h) ?_
    have lift : ∀ c, CallsOfF fields c → CallsOf (.structVariant n i vn fields) c :=
      fun c h => h.imp (fun h => Sub.structVariant (Sub.record h)) id
    cases b with
    | union p fs types offs cur =>
      exact union_row_raised (pc := fun c => ctx c.ann (recordWith (fun s => pushFields ext s fields) c))
        fun c => Raised.ctx_own c (.val (.record vn fields)) subset_refl' (.inl (.structVariant (.self _))) (fun msg h => .body h)
          (recordWith_raised hP_of _ (fun s => Raised.monoC lift (pushFields_raised fields s))
            (fun s s' h => pushFields_takeRest ext fields s s' h) c)
    | bytes _ ty _ _ _ => exact NoCtx.raised _
    | bytesView _ ty _ _ _ => exact NoCtx.raised _
    | _ => exact NoCtx.raised _
  | .bytes bs, b => by
    unfold push
    refine Raised.ctx_own b (.val (.bytes bs)) subset_refl' (.inl (.self _)) (fun msg h => .body h) ?_
    cases b with
    | list p large fm v offs el =>
      refine Raised.bind (NoCtx.raised _) fun _ _ => Raised.bind (NoCtx.raised _) fun _ _ =>
        Raised.bind (Raised.monoS ?_ (pushByteElems_raised ext large bs el _ fun x hx c hc => .inl (.byte hx hc))) fun _ _ => Raised.of_ok _
      simp only [positions]; exact tail_sub'
    | _ => exact Raised.monoC (fun _ h => .inl h) (pushScalar_raised ext _ _)
  | .bool v, b => by
    unfold push; exact Raised.ctx_own b (.val (.bool v)) subset_refl' (.inl (.self _)) (fun msg h => .body h)
      (Raised.monoC (fun _ h => .inl h) (pushScalar_raised ext b _))
  | .int t v, b => by
    unfold push; exact Raised.ctx_own b (.val (.int t v)) subset_refl' (.inl (.self _)) (fun msg h => .body h)
      (Raised.monoC (fun _ h => .inl h) (pushScalar_raised ext b _))
  | .f32 v, b => by
    unfold push; exact Raised.ctx_own b (.val (.f32 v)) subset_refl' (.inl (.self _)) (fun msg h => .body h)
      (Raised.monoC (fun _ h => .inl h) (pushScalar_raised ext b _))
  | .f64 v, b => by
    unfold push; exact Raised.ctx_own b (.val (.f64 v)) subset_refl' (.inl (.self _)) (fun msg h => .body h)
      (Raised.monoC (fun _ h => .inl h) (pushScalar_raised ext b _))
  | .char v, b => by
    unfold push; exact Raised.ctx_own b (.val (.char v)) subset_refl' (.inl (.self _)) (fun msg h => .body h)
      (Raised.monoC (fun _ h => .inl h) (pushScalar_raised ext b _))
  | .str v, b => by
    unfold push; exact Raised.ctx_own b (.val (.str v)) subset_refl' (.inl (.self _)) (fun msg h => .body h)
      (Raised.monoC (fun _ h => .inl h) (pushScalar_raised ext b _))
  | .unitStruct v, b => by
    unfold push
    split
    · exact Raised.ctx_own _ (.val (.unitStruct v)) subset_refl' (.inl (.self _)) (fun msg h => .body h) (NoCtx.raised _)
    · exact Raised.monoC hP_of (pushNone_raised b)
theorem pushElems_raised : ∀ (xs : SVals) (large : Bool) (el : B) (offs : List Int),
    Raised ext (positions el) (CallsOfL xs) (pushElems ext large el offs xs)
  | .nil, large, el, offs => by rw [pushElems]; exact Raised.of_ok _
  | .cons x rest, large, el, offs => by
    rw [pushElems]
    refine Raised.bind (NoCtx.raised _) fun _ _ =>
      Raised.bind (Raised.monoC (fun c h => h.imp SubL.head id) (push_raised x el)) fun el' h' => ?_
    exact positions_of_takeRest (push_takeRest ext x el el' h') ▸
      Raised.monoC (fun c h => h.imp SubL.tail id) (pushElems_raised rest large el' _)
theorem pushCountElems_raised : ∀ (xs : SVals) (el : B) (c : Nat),
    Raised ext (positions el) (CallsOfL xs) (pushCountElems ext el c xs)
  | .nil, el, c => by rw [pushCountElems]; exact Raised.of_ok _
  | .cons x rest, el, c => by
    rw [pushCountElems]
    refine Raised.bind (Raised.monoC (fun c h => h.imp SubL.head id) (push_raised x el)) fun el' h' => ?_
    exact positions_of_takeRest (push_takeRest ext x el el' h') ▸
      Raised.monoC (fun c h => h.imp SubL.tail id) (pushCountElems_raised rest el' _)
theorem pushTupleElems_raised : ∀ (xs : SVals) (s : SS), Raised ext (ssPos s) (CallsOfL xs) (pushTupleElems ext s xs)
  | .nil, s => by rw [pushTupleElems]; exact Raised.of_ok _
  | .cons x rest, s => by
    rw [pushTupleElems]
    split
    · refine Raised.bind (element_raised hP_L s _ _ fun c =>
        Raised.monoC (fun c h => h.imp SubL.head id) (push_raised x c)) fun s1 h1 => ?_
      exact ssPos_of_skel (SS.element_skel (fun c c' hc => push_takeRest ext x c c' hc) h1) ▸
        Raised.monoC (fun c h => h.imp SubL.tail id) (pushTupleElems_raised rest s1)
    · exact Raised.monoC (fun c h => h.imp SubL.tail id) (pushTupleElems_raised rest s)
theorem pushFields_raised : ∀ (fs : SFields) (s : SS), Raised ext (ssPos s) (CallsOfF fs) (pushFields ext s fs)
  | .nil, s => by rw [pushFields]; exact Raised.of_ok _
  | .cons key al x rest, s => by
    rw [pushFields]
    split
    · rename_i cached' heq
      exact Raised.monoC (fun c h => h.imp SubF.tail id) (pushFields_raised rest { s with cached := cached' })
    · rename_i idx cached' heq
      refine Raised.bind (element_raised hP_F { s with cached := cached' } _ _ fun c =>
        Raised.monoC (fun c h => h.imp SubF.head id) (push_raised x c)) fun s1 h1 => ?_
      have e := ssPos_of_skel (SS.element_skel (fun c c' hc => push_takeRest ext x c c' hc) h1)
      exact (show ssPos s1 = ssPos s from e) ▸ Raised.monoC (fun c h => h.imp SubF.tail id) (pushFields_raised rest s1)
theorem pushStructEntries_raised : ∀ (es : SEntries) (s : SS), Raised ext (ssPos s) (CallsOfE es) (pushStructEntries ext s es)
  | .nil, s => by rw [pushStructEntries]; exact Raised.of_ok _
  | .cons k x rest, s => by
    rw [pushStructEntries]
    refine Raised.bind (NoCtx.raised _) fun key _ => ?_
    split
    · exact Raised.monoC (fun c h => h.imp SubE.tail id) (pushStructEntries_raised rest { s with next := UNKNOWN_KEY })
    · refine Raised.bind (element_raised hP_E s _ _ fun c =>
        Raised.monoC (fun c h => h.imp SubE.value id) (push_raised x c)) fun s1 h1 => ?_
      have e := ssPos_of_skel (SS.element_skel (fun c c' hc => push_takeRest ext x c c' hc) h1)
      exact (show ssPos { s1 with next := UNKNOWN_KEY } = ssPos s from e) ▸
        Raised.monoC (fun c h => h.imp SubE.tail id) (pushStructEntries_raised rest { s1 with next := UNKNOWN_KEY })
theorem pushStructOps_raised : ∀ (ops : SMapOps) (s : SS), Raised ext (ssPos s) (CallsOfO ops) (pushStructOps ext s ops)
  | .nil, s => by rw [pushStructOps]; exact Raised.of_ok _
  | .key k rest, s => by
    rw [pushStructOps]
    exact Raised.bind (NoCtx.raised _) fun key _ =>
      Raised.monoC (fun c h => h.imp SubO.keyTail id) (pushStructOps_raised rest { s with next := _ })
  | .value x rest, s => by
    rw [pushStructOps]
    split
    · refine Raised.bind (element_raised hP_O s _ _ fun c =>
        Raised.monoC (fun c h => h.imp SubO.value id) (push_raised x c)) fun s1 h1 => ?_
      have e := ssPos_of_skel (SS.element_skel (fun c c' hc => push_takeRest ext x c c' hc) h1)
      exact (show ssPos { s1 with next := UNKNOWN_KEY } = ssPos s from e) ▸
        Raised.monoC (fun c h => h.imp SubO.valueTail id) (pushStructOps_raised rest { s1 with next := UNKNOWN_KEY })
    · exact Raised.monoC (fun c h => h.imp SubO.valueTail id) (pushStructOps_raised rest { s with next := UNKNOWN_KEY })
theorem pushMapEntries_raised : ∀ (es : SEntries) (offs : List Int) (ks vs : B),
    Raised ext (positions ks ++ positions vs) (CallsOfE es) (pushMapEntries ext offs ks vs es)
  | .nil, offs, ks, vs => by rw [pushMapEntries]; exact Raised.of_ok _
  | .cons k x rest, offs, ks, vs => by
    rw [pushMapEntries]
    refine Raised.bind (NoCtx.raised _) fun _ _ =>
      Raised.bind (Raised.mono (fun q hq => List.mem_append_left _ hq) (fun c h => h.imp SubE.key id) (push_raised k ks)) fun ks' hk =>
      Raised.bind (Raised.mono (fun q hq => List.mem_append_right _ hq) (fun c h => h.imp SubE.value id) (push_raised x vs)) fun vs' hv => ?_
    have e1 := positions_of_takeRest (push_takeRest ext k ks ks' hk)
    have e2 := positions_of_takeRest (push_takeRest ext x vs vs' hv)
    exact e1 ▸ e2 ▸ Raised.monoC (fun c h => h.imp SubE.tail id) (pushMapEntries_raised rest _ ks' vs')
theorem pushMapOps_raised : ∀ (ops : SMapOps) (pend : Bool) (offs : List Int) (ks vs : B),
    Raised ext (positions ks ++ positions vs) (CallsOfO ops) (pushMapOps ext pend offs ks vs ops)
  | .nil, pend, offs, ks, vs => by
    rw [pushMapOps]
    split
    · exact NoCtx.raised _
    · exact Raised.of_ok _
  | .key k rest, pend, offs, ks, vs => by
    rw [pushMapOps]
    split
    · exact NoCtx.raised _
    · refine Raised.bind (NoCtx.raised _) fun _ _ =>
        Raised.bind (Raised.mono (fun q hq => List.mem_append_left _ hq) (fun c h => h.imp SubO.key id) (push_raised k ks)) fun ks' hk => ?_
      exact positions_of_takeRest (push_takeRest ext k ks ks' hk) ▸
        Raised.monoC (fun c h => h.imp SubO.keyTail id) (pushMapOps_raised rest true _ ks' vs)
  | .value x rest, pend, offs, ks, vs => by
    rw [pushMapOps]
    split
    · exact NoCtx.raised _
    · refine Raised.bind (Raised.mono (fun q hq => List.mem_append_right _ hq) (fun c h => h.imp SubO.value id) (push_raised x vs)) fun vs' hv => ?_
      exact positions_of_takeRest (push_takeRest ext x vs vs' hv) ▸
        Raised.monoC (fun c h => h.imp SubO.valueTail id) (pushMapOps_raised rest false _ ks vs')
end

end SaModel.Props.C18
