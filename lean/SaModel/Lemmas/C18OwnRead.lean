import SaModel.Lemmas.C18ReadAs
import SaModel.Lemmas.C18ReadNoCtx
/-
C18, reader half: WHERE an error is raised (the reader-side blame statement, operational form).

  `RCall`              what a reader is asked: `deserialize_any` or the typed read a target issues
  `rBody af fx p c a idx`  the code of the reader of `a` at path `p` for the call `c` at row `idx` WITHOUT its own
                       `.ctx(self)` wrapper (the argument of `ctx (rann p a) (…)` in `readAnyA` / `readAsA`, copied arm by
                       arm; the reads of the child readers are the real, wrapped `readAnyA` / `readAsA`)
  `OwnFailsR af fx p a c idx msg`   that body returns the PLAIN error `msg`.  With the code that exists (`AnnFixes.all`)
                       child reads never return plain errors (`readAsA_not_plain`, `readAnyA_not_plain`), so the error is
                       raised by the code of this reader itself, not forwarded from a child reader
  `RaisedR af fx S r`  if `r` is an annotated error, its annotation is `rann p' a'` of a reader whose subtree lies in `S`
                       and whose own step failed with that message
-/
namespace SaModel.Props.C18
open SaModel SaModel.Read

inductive RCall where
  | any
  | as (t : Target)

/-- `deserialize_any` of the reader of `a` at `p` without the `.ctx(self)` wrapper (copy of the arms of `readAnyA`) -/
def anyBody (fx : Fixes) (p : String) : Arr → Nat → R DVal
  | .struct len v fs, idx =>
    anyAt fx (.struct len v fs) (fun idx =>
      if idx ≥ len then fail "Exhausted deserializer"
      else do pure (.map (← readAnyFieldsA fx p fs idx))) idx
  | .list large v offs fm el, idx =>
    anyAt fx (.list large v offs fm el) (fun idx => do
      let (s, e) ← listRange fx offs idx
      pure (.seq (DVals.ofList (← readRange (readAnyA fx (rchild p fm.name) el) s (e - s))))) idx
  | .fixedSizeList len v n fm el, idx =>
    anyAt fx (.fixedSizeList len v n fm el) (fun idx => do
      let (s, e) ← fslRange fx len n idx
      pure (.seq (DVals.ofList (← readRange (readAnyA fx (rchild p fm.name) el) s (e - s))))) idx
  | .map v offs mm ks vs, idx =>
    anyAt fx (.map v offs mm ks vs) (fun idx => do
      let (s, e) ← listRange fx offs idx
      let es ← readRange (fun j => do
        let k ← readAnyA fx (rmapChild p mm.entriesName mm.keys.name) ks j
        let v ← readAnyA fx (rmapChild p mm.entriesName mm.values.name) vs j
        pure (k, v)) s (e - s)
      pure (.map (DEntries.ofList es))) idx
  | .union types offs fs, idx =>
    anyAt fx (.union types offs fs) (fun idx => do
      let (k, off) ← unionSelect fx types offs fs.length idx
      readAnyVariantA fx p fs k off) idx
  | a, idx => readAny fx a idx

/-- the typed read `t` of the reader of `a` at `p` without the `.ctx(self)` wrapper (copy of the arms of `readAsA`;
`any` / `ignored` / newtype targets are transparent in `readAsA` — they are never the blamed call as such) -/
def asBody (af : AnnFixes) (fx : Fixes) (p : String) : Target → Arr → Nat → R DVal
  | .any, a, idx => readAnyA fx p a idx
  | .ignored, a, idx => do let _ ← readAnyA fx p a idx; pure .ignored
  | .unit, a, idx => do accept .unit (← scalar fx .unit a idx)
  | .unitStruct, a, idx => do accept .unitStruct (← scalar fx .unitStruct a idx)
  | .bool, a, idx => do accept .bool (← scalar fx .bool a idx)
  | .int ty, a, idx => do accept (.int ty) (← scalar fx (.int ty) a idx)
  | .f32, a, idx => do accept .f32 (← scalar fx .f32 a idx)
  | .f64, a, idx => do accept .f64 (← scalar fx .f64 a idx)
  | .char, a, idx => do accept .char (← scalar fx .char a idx)
  | .string, a, idx => do accept .string (← scalar fx .string a idx)
  | .str, a, idx => do accept .str (← scalar fx .str a idx)
  | .bytes, a, idx =>
      match a with
      | .list _ _ offs _ _ => do let _ ← listRange fx offs idx; rejected
      | _ => do accept .bytes (← scalar fx .bytes a idx)
  | .byteBuf, a, idx =>
      match a with
      | .list _ _ offs fm el => do
        let (s, e) ← listRange fx offs idx
        let xs ← readRange (fun j =>
          ctx (rann (rchild p fm.name) el) (do accept (.int .u8) (← scalar fx (.int .u8) el j))) s (e - s)
        pure (.bytes .owned (xs.map fun d => match d with | .int _ v => UInt8.ofNat v.toNat | _ => 0))
      | _ => do accept .byteBuf (← scalar fx .byteBuf a idx)
  | .option t, a, idx => do
      if (← isSome fx a idx) then pure (.some (← readAsA af fx p t a idx)) else pure .none
  | .newtype t, a, idx => readAsA af fx p t a idx
  | .seq t, a, idx =>
    match a with
    | .list _ _ offs fm el => do
        let (s, e) ← listRange fx offs idx
        pure (.seq (DVals.ofList (← readRange (fun j => readAsA af fx (rchild p fm.name) t el j) s (e - s))))
    | .fixedSizeList len _ n fm el => do
        let (s, e) ← fslRange fx len n idx
        pure (.seq (DVals.ofList (← readRange (fun j => readAsA af fx (rchild p fm.name) t el j) s (e - s))))
    | _ =>
        match binaryElems fx a idx with
        | some rb => do
          let b ← rb
          pure (.seq (DVals.ofList (← b.mapM (u8As t))))
        | none => notImpl
  | .tuple ts, a, idx => tupleVisit fx (fun fs => readTupleFieldsA af fx p ts fs idx) a idx
  | .tupleStruct ts, a, idx => tupleVisit fx (fun fs => readTupleFieldsA af fx p ts fs idx) a idx
  | .map k v, a, idx =>
      match a with
      | .struct len _ fs => do
        structItem fx len idx
        let es ← fs.toList.mapM fun (fm, child) => do
          let kk ← strDeAs k fm.name
          let vv ← readAsA af fx (rchild p fm.name) v child idx
          pure (kk, vv)
        pure (.map (DEntries.ofList es))
      | .map _ offs mm ks vs => do
        let (s, e) ← listRange fx offs idx
        let es ← readRange (fun j => do
          let kk ← readAsA af fx (rmapChild p mm.entriesName mm.keys.name) k ks j
          let vv ← readAsA af fx (rmapChild p mm.entriesName mm.values.name) v vs j
          pure (kk, vv)) s (e - s)
        pure (.map (DEntries.ofList es))
      | _ => notImpl
  | .struct tfs, a, idx =>
      match a with
      | .struct len _ fs => do
        structItem fx len idx
        let slots ← fs.toList.foldlM (fun (slots : Slots) (fm, child) => do
          match (← readFieldAsA af fx tfs 0 slots fm.name (rchild p fm.name) child idx) with
          | some kv => pure (slots ++ [kv])
          | none => do let _ ← readAnyA fx (rchild p fm.name) child idx; pure slots) []
        pure (.map (DEntries.ofList (← finishFields tfs 0 slots)))
      | _ => notImpl
  | .enum byIndex vs, a, idx =>
    match a with
    | .union types offs fs => do
        let (k, off) ← unionSelect fx types offs fs.length idx
        match ArrUFields.nth fs k with
        | none => panic "EnumDeserializer: variants[type_id]"
        | some (fm, child) =>
          readVariantAsA af fx vs (if byIndex then some k else none) fm.name (some (rchild p fm.name, child, off))
    | _ =>
        match stringElem fx a idx with
        | some rs => do
          let s ← rs
          if byIndex then fail "Unsupported: EnumDeserializer does not implement deserialize_u64"
          else readVariantAsBytesA af fx vs s
        | none => notImpl

def rBody (af : AnnFixes) (fx : Fixes) (p : String) : RCall → Arr → Nat → R DVal
  | .any, a, idx => anyBody fx p a idx
  | .as t, a, idx => asBody af fx p t a idx

/-- the own step of the reader of `a` at `p` fails on the call `c` at row `idx` with `msg` -/
def OwnFailsR (af : AnnFixes) (fx : Fixes) (p : String) (a : Arr) (c : RCall) (idx : Nat) (msg : String) : Prop :=
  rBody af fx p c a idx = .error (.err msg)

def RaisedR (af : AnnFixes) (fx : Fixes) (S : List Pos) {α} (r : R α) : Prop :=
  ∀ msg ann, r = .error (.errCtx msg ann) →
    ∃ (p' : String) (a' : Arr) (c : RCall) (idx' : Nat),
      ann = rann p' a' ∧ (∀ q ∈ rpositions p' a', q ∈ S) ∧ OwnFailsR af fx p' a' c idx' msg

variable {af : AnnFixes} {fx : Fixes}

theorem NoCtx.raisedR {α} {S : List Pos} (r : R α) [h : NoCtx r] : RaisedR af fx S r :=
  fun msg a e => absurd e (h.out msg a)

theorem RaisedR.of_ok {α} {S : List Pos} (v : α) : RaisedR af fx S (.ok v : R α) := fun _ _ h => by cases h

theorem RaisedR.mono {α} {S S' : List Pos} {r : R α} (hs : ∀ q ∈ S, q ∈ S') (h : RaisedR af fx S r) : RaisedR af fx S' r :=
  fun msg a e => let ⟨p', a', c, i, ha, hsub, ho⟩ := h msg a e; ⟨p', a', c, i, ha, fun q hq => hs q (hsub q hq), ho⟩

theorem RaisedR.bind {α β} {S : List Pos} {r : R α} {f : α → R β} (hr : RaisedR af fx S r)
    (hf : ∀ v, r = .ok v → RaisedR af fx S (f v)) : RaisedR af fx S (r >>= f) := by
  intro msg a e
  cases r with
  | ok v => exact hf v rfl msg a e
  | error x => exact hr msg a (by simpa [Bind.bind, Except.bind] using e)

theorem RaisedR.ite {α} {S : List Pos} (c : Prop) [Decidable c] {x y : R α} (hx : RaisedR af fx S x)
    (hy : RaisedR af fx S y) : RaisedR af fx S (if c then x else y) := by
  split <;> assumption

/-- the wrapper of a reader: a plain error of the body becomes the reader's own — its own step has failed -/
theorem RaisedR.ctx_own {α} {S : List Pos} {r : R α} (p : String) (a : Arr) (c : RCall) (idx : Nat)
    (hs : ∀ q ∈ rpositions p a, q ∈ S) (hown : ∀ msg, r = .error (.err msg) → OwnFailsR af fx p a c idx msg)
    (h : RaisedR af fx S r) : RaisedR af fx S (ctx (rann p a) r) := by
  intro msg ann e
  cases r with
  | ok v => cases e
  | error f =>
    cases f with
    | err m =>
      simp [SaModel.ctx, rann] at e
      exact ⟨p, a, c, idx, by rw [← e.2]; rfl, hs, e.1 ▸ hown m rfl⟩
    | panic s => cases e
    | errCtx m a' => exact h msg ann e

theorem RaisedR.ctxIf_own {α} {S : List Pos} {r : R α} (b : Bool) (p : String) (a : Arr) (c : RCall) (idx : Nat)
    (hs : ∀ q ∈ rpositions p a, q ∈ S) (hown : ∀ msg, r = .error (.err msg) → OwnFailsR af fx p a c idx msg)
    (h : RaisedR af fx S r) : RaisedR af fx S (ctxIf b (rann p a) r) := by
  unfold SaModel.Read.ctxIf; split
  · exact RaisedR.ctx_own p a c idx hs hown h
  · exact h

theorem rsub_refl {S : List Pos} : ∀ q ∈ S, q ∈ S := fun _ h => h

/-! ### loops -/

theorem readRange_raisedR {α} {S : List Pos} {f : Nat → R α} (hf : ∀ j, RaisedR af fx S (f j)) :
    ∀ (n s : Nat), RaisedR af fx S (readRange f s n)
  | 0, s => by unfold readRange; exact RaisedR.of_ok _
  | n + 1, s => by
    unfold readRange
    exact RaisedR.bind (hf s) fun _ _ => RaisedR.bind (readRange_raisedR hf n (s + 1)) fun _ _ => RaisedR.of_ok _

theorem mapM_raisedR {α β} {S : List Pos} {f : α → R β} : ∀ (l : List α), (∀ x ∈ l, RaisedR af fx S (f x)) →
    RaisedR af fx S (l.mapM f)
  | [], _ => by simp only [List.mapM_nil]; exact RaisedR.of_ok _
  | x :: xs, h => by
    simp only [List.mapM_cons]
    exact RaisedR.bind (h x (by simp)) fun _ _ =>
      RaisedR.bind (mapM_raisedR xs fun y hy => h y (by simp [hy])) fun _ _ => RaisedR.of_ok _

theorem foldlM_raisedR {α σ} {S : List Pos} {f : σ → α → R σ} : ∀ (l : List α) (init : σ),
    (∀ s, ∀ x ∈ l, RaisedR af fx S (f s x)) → RaisedR af fx S (l.foldlM f init)
  | [], init, _ => by simp only [List.foldlM_nil]; exact RaisedR.of_ok _
  | x :: xs, init, h => by
    simp only [List.foldlM_cons]
    exact RaisedR.bind (h init x (by simp)) fun s' _ => foldlM_raisedR xs s' fun s y hy => h s y (by simp [hy])

theorem anyAt_raisedR {S : List Pos} (a : Arr) {f : Nat → R DVal} (hf : ∀ i, RaisedR af fx S (f i)) (idx : Nat) :
    RaisedR af fx S (anyAt fx a f idx) := by
  unfold anyAt
  exact RaisedR.bind (NoCtx.raisedR _) fun v _ => by
    split
    · exact hf idx
    · exact RaisedR.of_ok _

/-! ### `deserialize_any` -/

mutual
theorem readAnyA_raisedR (af : AnnFixes) (fx : Fixes) : ∀ (a : Arr) (p : String) (idx : Nat),
    RaisedR af fx (rpositions p a) (readAnyA fx p a idx)
  | .struct len v fs, p, idx => by
    unfold readAnyA
    refine RaisedR.ctx_own p _ .any idx rsub_refl (fun msg h => h) (anyAt_raisedR _ (fun i => ?_) idx)
    split
    · exact NoCtx.raisedR _
    · refine RaisedR.bind (RaisedR.mono ?_ (readAnyFieldsA_raisedR af fx fs p i)) fun _ _ => RaisedR.of_ok _
      intro q hq; simp only [rpositions, List.mem_cons]; exact .inr hq
  | .list large v offs fm el, p, idx => by
    unfold readAnyA
    refine RaisedR.ctx_own p _ .any idx rsub_refl (fun msg h => h) (anyAt_raisedR _ (fun i => ?_) idx)
    refine RaisedR.bind (NoCtx.raisedR _) fun se _ => ?_
    refine RaisedR.bind (readRange_raisedR (fun j => RaisedR.mono ?_ (readAnyA_raisedR af fx el (rchild p fm.name) j)) _ _)
      fun _ _ => RaisedR.of_ok _
    intro q hq; simp only [rpositions, List.mem_cons]; exact .inr hq
  | .fixedSizeList len v n fm el, p, idx => by
    unfold readAnyA
    refine RaisedR.ctx_own p _ .any idx rsub_refl (fun msg h => h) (anyAt_raisedR _ (fun i => ?_) idx)
    refine RaisedR.bind (NoCtx.raisedR _) fun se _ => ?_
    refine RaisedR.bind (readRange_raisedR (fun j => RaisedR.mono ?_ (readAnyA_raisedR af fx el (rchild p fm.name) j)) _ _)
      fun _ _ => RaisedR.of_ok _
    intro q hq; simp only [rpositions, List.mem_cons]; exact .inr hq
  | .map v offs mm ks vs, p, idx => by
    unfold readAnyA
    refine RaisedR.ctx_own p _ .any idx rsub_refl (fun msg h => h) (anyAt_raisedR _ (fun i => ?_) idx)
    refine RaisedR.bind (NoCtx.raisedR _) fun se _ => ?_
    refine RaisedR.bind (readRange_raisedR (fun j => ?_) _ _) fun _ _ => RaisedR.of_ok _
    refine RaisedR.bind (RaisedR.mono ?_ (readAnyA_raisedR af fx ks _ j)) fun _ _ =>
      RaisedR.bind (RaisedR.mono ?_ (readAnyA_raisedR af fx vs _ j)) fun _ _ => RaisedR.of_ok _
    · intro q hq; simp only [rpositions, List.mem_cons, List.mem_append]; exact .inr (.inl hq)
    · intro q hq; simp only [rpositions, List.mem_cons, List.mem_append]; exact .inr (.inr hq)
  | .union types offs fs, p, idx => by
    unfold readAnyA
    refine RaisedR.ctx_own p _ .any idx rsub_refl (fun msg h => h) (anyAt_raisedR _ (fun i => ?_) idx)
    refine RaisedR.bind (NoCtx.raisedR _) fun ko _ => RaisedR.mono ?_ (readAnyVariantA_raisedR af fx fs p ko.1 ko.2)
    intro q hq; simp only [rpositions, List.mem_cons]; exact .inr hq
  | .null _, p, idx | .boolean _ _ _, p, idx | .prim _ _ _, p, idx | .time _ _ _ _, p, idx | .timestamp _ _ _ _, p, idx
  | .decimal128 _ _ _ _, p, idx | .bytes _ _ _ _, p, idx | .bytesView _ _ _ _, p, idx | .fixedSizeBinary _ _ _, p, idx
  | .dictionary _ _, p, idx => by
    unfold readAnyA
    exact RaisedR.ctx_own p _ .any idx rsub_refl (fun msg h => h) (NoCtx.raisedR _)
theorem readAnyFieldsA_raisedR (af : AnnFixes) (fx : Fixes) : ∀ (fs : ArrFields) (p : String) (idx : Nat),
    RaisedR af fx (rpositionsF p fs) (readAnyFieldsA fx p fs idx)
  | .nil, p, idx => by unfold readAnyFieldsA; exact RaisedR.of_ok _
  | .cons fm a rest, p, idx => by
    unfold readAnyFieldsA
    refine RaisedR.bind (RaisedR.mono ?_ (readAnyA_raisedR af fx a _ idx)) fun _ _ =>
      RaisedR.bind (RaisedR.mono ?_ (readAnyFieldsA_raisedR af fx rest p idx)) fun _ _ => RaisedR.of_ok _
    · intro q hq; simp only [rpositionsF, List.mem_append]; exact .inl hq
    · intro q hq; simp only [rpositionsF, List.mem_append]; exact .inr hq
theorem readAnyVariantA_raisedR (af : AnnFixes) (fx : Fixes) : ∀ (fs : ArrUFields) (p : String) (k off : Nat),
    RaisedR af fx (rpositionsU p fs) (readAnyVariantA fx p fs k off)
  | .nil, p, k, off => by unfold readAnyVariantA; exact NoCtx.raisedR _
  | .cons _ fm a rest, p, 0, off => by
    unfold readAnyVariantA
    refine RaisedR.bind (RaisedR.mono ?_ (readAnyA_raisedR af fx a _ off)) fun _ _ => RaisedR.of_ok _
    intro q hq; simp only [rpositionsU, List.mem_append]; exact .inl hq
  | .cons _ fm a rest, p, k + 1, off => by
    unfold readAnyVariantA
    refine RaisedR.mono ?_ (readAnyVariantA_raisedR af fx rest p k off)
    intro q hq; simp only [rpositionsU, List.mem_append]; exact .inr hq
end

end SaModel.Props.C18
