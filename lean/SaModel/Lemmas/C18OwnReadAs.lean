import SaModel.Lemmas.C18OwnRead
/-
C18, reader half: every annotated error of a typed read is the OWN failure of a reader of the subtree (mirror of
C18ReadAs.lean, by the same mutual recursion over the target).
-/
namespace SaModel.Props.C18
open SaModel SaModel.Read

theorem tupleVisitA_raisedR (af : AnnFixes) (fx : Fixes) (p : String) (rf : ArrFields → R (List DVal)) (a : Arr) (idx : Nat)
    (c : RCall) (hown : ∀ msg, tupleVisit fx rf a idx = .error (.err msg) → OwnFailsR af fx p a c idx msg)
    (h : ∀ len v fs, a = .struct len v fs → RaisedR af fx (rpositionsF p fs) (rf fs)) :
    RaisedR af fx (rpositions p a) (tupleVisitA fx p rf a idx) := by
  unfold tupleVisitA
  refine RaisedR.ctx_own p a c idx rsub_refl hown ?_
  unfold tupleVisit
  split
  · rename_i len v fs
    refine RaisedR.bind (NoCtx.raisedR _) fun _ _ => RaisedR.bind (RaisedR.mono ?_ (h len v fs rfl)) fun _ _ => RaisedR.of_ok _
    simp only [rpositions]; exact tail_sub
  · exact NoCtx.raisedR _

theorem structVisitA_raisedR (af : AnnFixes) (fx : Fixes) (p : String) (rf : Slots → FieldMeta → Arr → R (Option (Nat × DVal)))
    (tfs : TFields) (a : Arr) (idx : Nat) (c : RCall)
    (hown : ∀ msg, (match a with
      | .struct len _ fs => (do
        structItem fx len idx
        let slots ← fs.toList.foldlM (fun (slots : Slots) (fm, child) => do
          match (← rf slots fm child) with
          | some kv => pure (slots ++ [kv])
          | none => do let _ ← readAnyA fx (rchild p fm.name) child idx; pure slots) []
        pure (DVal.map (DEntries.ofList (← finishFields tfs 0 slots))) : R DVal)
      | _ => notImpl) = .error (.err msg) → OwnFailsR af fx p a c idx msg)
    (h : ∀ slots fm child, RaisedR af fx (rpositions (rchild p fm.name) child) (rf slots fm child)) :
    RaisedR af fx (rpositions p a) (structVisitA fx p rf tfs a idx) := by
  unfold structVisitA
  refine RaisedR.ctx_own p a c idx rsub_refl hown ?_
  split
  · rename_i len v fs
    refine RaisedR.bind (NoCtx.raisedR _) fun _ _ => RaisedR.bind ?_ fun _ _ => RaisedR.bind (NoCtx.raisedR _) fun _ _ => RaisedR.of_ok _
    refine foldlM_raisedR _ _ fun slots x hx => ?_
    obtain ⟨fm, child⟩ := x
    have hsub : ∀ q ∈ rpositions (rchild p fm.name) child, q ∈ rpositions p (.struct len v fs) := by
      intro q hq; simp only [rpositions]; exact tail_sub _ (fields_sub p fs fm child hx q hq)
    refine RaisedR.bind (RaisedR.mono hsub (h slots fm child)) fun r _ => ?_
    split
    · exact RaisedR.of_ok _
    · exact RaisedR.bind (RaisedR.mono hsub (readAnyA_raisedR af fx child _ idx)) fun _ _ => RaisedR.of_ok _
  · exact NoCtx.raisedR _

theorem scalar_raisedR (af : AnnFixes) (fx : Fixes) (p : String) (t : Target) (m : Method) (a : Arr) (idx : Nat) (c : RCall)
    (hown : ∀ msg, (do accept t (← scalar fx m a idx)) = .error (.err msg) → OwnFailsR af fx p a c idx msg) :
    RaisedR af fx (rpositions p a) (ctx (rann p a) (do accept t (← scalar fx m a idx))) :=
  RaisedR.ctx_own p a c idx rsub_refl hown (NoCtx.raisedR _)

mutual
theorem readAsA_raisedR (af : AnnFixes) (fx : Fixes) : ∀ (t : Target) (p : String) (a : Arr) (idx : Nat),
    RaisedR af fx (rpositions p a) (readAsA af fx p t a idx)
  | .any, p, a, idx => by unfold readAsA; exact readAnyA_raisedR af fx a p idx
  | .ignored, p, a, idx => by
    unfold readAsA; exact RaisedR.bind (readAnyA_raisedR af fx a p idx) fun _ _ => RaisedR.of_ok _
  | .unit, p, a, idx => by unfold readAsA; exact scalar_raisedR _ _ _ _ _ _ _ (.as .unit) fun _ h => h
  | .unitStruct, p, a, idx => by unfold readAsA; exact scalar_raisedR _ _ _ _ _ _ _ (.as .unitStruct) fun _ h => h
  | .bool, p, a, idx => by unfold readAsA; exact scalar_raisedR _ _ _ _ _ _ _ (.as .bool) fun _ h => h
  | .int ty, p, a, idx => by unfold readAsA; exact scalar_raisedR _ _ _ _ _ _ _ (.as (.int ty)) fun _ h => h
  | .f32, p, a, idx => by unfold readAsA; exact scalar_raisedR _ _ _ _ _ _ _ (.as .f32) fun _ h => h
  | .f64, p, a, idx => by unfold readAsA; exact scalar_raisedR _ _ _ _ _ _ _ (.as .f64) fun _ h => h
  | .char, p, a, idx => by unfold readAsA; exact scalar_raisedR _ _ _ _ _ _ _ (.as .char) fun _ h => h
  | .string, p, a, idx => by unfold readAsA; exact scalar_raisedR _ _ _ _ _ _ _ (.as .string) fun _ h => h
  | .str, p, a, idx => by unfold readAsA; exact scalar_raisedR _ _ _ _ _ _ _ (.as .str) fun _ h => h
  | .bytes, p, a, idx => by
    unfold readAsA
    refine RaisedR.ctx_own p a (.as .bytes) idx rsub_refl (fun _ h => h) ?_
    split <;> exact NoCtx.raisedR _
  | .byteBuf, p, a, idx => by
    unfold readAsA
    refine RaisedR.ctx_own p a (.as .byteBuf) idx rsub_refl (fun _ h => h) ?_
    split
    · rename_i large v offs fm el
      refine RaisedR.bind (NoCtx.raisedR _) fun se _ => RaisedR.bind (readRange_raisedR (fun j => ?_) _ _) fun _ _ => RaisedR.of_ok _
      refine RaisedR.ctx_own _ el (.as (.int .u8)) j ?_ (fun _ h => h) (NoCtx.raisedR _)
      simp only [rpositions]; exact tail_sub
    · exact NoCtx.raisedR _
  | .option t, p, a, idx => by
    unfold readAsA
    refine RaisedR.ctx_own p a (.as (.option t)) idx rsub_refl (fun _ h => h) (RaisedR.bind (NoCtx.raisedR _) fun b _ => ?_)
    split
    · exact RaisedR.bind (readAsA_raisedR af fx t p a idx) fun _ _ => RaisedR.of_ok _
    · exact RaisedR.of_ok _
  | .newtype t, p, a, idx => by unfold readAsA; exact readAsA_raisedR af fx t p a idx
  | .seq t, p, a, idx => by
    unfold readAsA
    cases a
    case list large v offs fm el =>
      refine RaisedR.ctx_own p _ (.as (.seq t)) idx rsub_refl (fun _ h => h) (RaisedR.bind (NoCtx.raisedR _) fun se _ =>
        RaisedR.bind (readRange_raisedR (fun j => RaisedR.mono ?_ (readAsA_raisedR af fx t _ el j)) _ _) fun _ _ => RaisedR.of_ok _)
      simp only [rpositions]; exact tail_sub
    case fixedSizeList len v n fm el =>
      refine RaisedR.ctxIf_own _ p _ (.as (.seq t)) idx rsub_refl (fun _ h => h) (RaisedR.bind (NoCtx.raisedR _) fun se _ =>
        RaisedR.bind (readRange_raisedR (fun j => RaisedR.mono ?_ (readAsA_raisedR af fx t _ el j)) _ _) fun _ _ => RaisedR.of_ok _)
      simp only [rpositions]; exact tail_sub
    all_goals
      refine RaisedR.ctx_own p _ (.as (.seq t)) idx rsub_refl (fun _ h => h) ?_
      split
      · rename_i rb hrb
        have := binaryElems_noctx fx _ idx rb hrb
        exact NoCtx.raisedR _
      · exact NoCtx.raisedR _
  | .tuple ts, p, a, idx => by
    unfold readAsA
    exact tupleVisitA_raisedR af fx p _ a idx (.as (.tuple ts)) (fun _ h => h)
      fun len v fs _ => readTupleFieldsA_raisedR af fx ts p fs idx
  | .tupleStruct ts, p, a, idx => by
    unfold readAsA
    exact tupleVisitA_raisedR af fx p _ a idx (.as (.tupleStruct ts)) (fun _ h => h)
      fun len v fs _ => readTupleFieldsA_raisedR af fx ts p fs idx
  | .map k v, p, a, idx => by
    unfold readAsA
    refine RaisedR.ctx_own p a (.as (.map k v)) idx rsub_refl (fun _ h => h) ?_
    split
    · rename_i len vv fs
      refine RaisedR.bind (NoCtx.raisedR _) fun _ _ => RaisedR.bind (mapM_raisedR _ fun x hx => ?_) fun _ _ => RaisedR.of_ok _
      obtain ⟨fm, child⟩ := x
      refine RaisedR.bind (NoCtx.raisedR _) fun _ _ =>
        RaisedR.bind (RaisedR.mono ?_ (readAsA_raisedR af fx v (rchild p fm.name) child idx)) fun _ _ => RaisedR.of_ok _
      intro q hq; simp only [rpositions]; exact tail_sub _ (fields_sub p fs fm child hx q hq)
    · rename_i vv offs mm ks vs
      refine RaisedR.bind (NoCtx.raisedR _) fun se _ => RaisedR.bind (readRange_raisedR (fun j => ?_) _ _) fun _ _ => RaisedR.of_ok _
      refine RaisedR.bind (RaisedR.mono ?_ (readAsA_raisedR af fx k _ ks j)) fun _ _ =>
        RaisedR.bind (RaisedR.mono ?_ (readAsA_raisedR af fx v _ vs j)) fun _ _ => RaisedR.of_ok _
      · intro q hq; simp only [rpositions, List.mem_cons, List.mem_append]; exact .inr (.inl hq)
      · intro q hq; simp only [rpositions, List.mem_cons, List.mem_append]; exact .inr (.inr hq)
    · exact NoCtx.raisedR _
  | .struct tfs, p, a, idx => by
    unfold readAsA
    exact structVisitA_raisedR af fx p _ tfs a idx (.as (.struct tfs)) (fun _ h => h)
      fun slots fm child => readFieldAsA_raisedR af fx tfs 0 slots fm.name _ child idx
  | .enum byIndex vs, p, a, idx => by
    unfold readAsA
    cases a
    case union types offs fs =>
      refine RaisedR.ctxIf_own _ p _ (.as (.enum byIndex vs)) idx rsub_refl (fun _ h => h) (RaisedR.bind (NoCtx.raisedR _) fun ko _ => ?_)
      obtain ⟨k, off⟩ := ko
      dsimp only
      split
      · exact NoCtx.raisedR _
      · rename_i fm child hn
        refine RaisedR.mono ?_ (readVariantAsA_raisedR af fx vs _ fm.name (some (rchild p fm.name, child, off)))
        intro q hq; simp only [rpositions]; exact tail_sub _ (ufields_sub p fs k fm child hn q hq)
    all_goals
      refine RaisedR.ctx_own p _ (.as (.enum byIndex vs)) idx rsub_refl (fun _ h => h) ?_
      split
      · rename_i rs hrs
        have := stringElem_noctx fx _ idx rs hrs
        refine RaisedR.bind (NoCtx.raisedR _) fun s _ => ?_
        split
        · exact NoCtx.raisedR _
        · exact RaisedR.mono (by intro q hq; cases hq) (readVariantAsBytesA_raisedR af fx vs s)
      · exact NoCtx.raisedR _
theorem readTupleFieldsA_raisedR (af : AnnFixes) (fx : Fixes) : ∀ (ts : Targets) (p : String) (fs : ArrFields) (idx : Nat),
    RaisedR af fx (rpositionsF p fs) (readTupleFieldsA af fx p ts fs idx)
  | .nil, p, fs, idx => by unfold readTupleFieldsA; exact RaisedR.of_ok _
  | .cons t rest, p, .nil, idx => by unfold readTupleFieldsA; exact NoCtx.raisedR _
  | .cons t rest, p, .cons fm a frest, idx => by
    unfold readTupleFieldsA
    refine RaisedR.bind (RaisedR.mono ?_ (readAsA_raisedR af fx t _ a idx)) fun _ _ =>
      RaisedR.bind (RaisedR.mono ?_ (readTupleFieldsA_raisedR af fx rest p frest idx)) fun _ _ => RaisedR.of_ok _
    · intro q hq; simp only [rpositionsF, List.mem_append]; exact .inl hq
    · intro q hq; simp only [rpositionsF, List.mem_append]; exact .inr hq
theorem readFieldAsA_raisedR (af : AnnFixes) (fx : Fixes) : ∀ (tfs : TFields) (pos : Nat) (slots : Slots) (name cp : String)
    (child : Arr) (idx : Nat), RaisedR af fx (rpositions cp child) (readFieldAsA af fx tfs pos slots name cp child idx)
  | .nil, _, _, _, _, _, _ => by unfold readFieldAsA; exact RaisedR.of_ok _
  | .cons n t rest, pos, slots, name, cp, child, idx => by
    unfold readFieldAsA
    split
    · split
      · exact NoCtx.raisedR _
      · exact RaisedR.bind (readAsA_raisedR af fx t cp child idx) fun _ _ => RaisedR.of_ok _
    · exact readFieldAsA_raisedR af fx rest (pos + 1) slots name cp child idx
theorem readVariantAsA_raisedR (af : AnnFixes) (fx : Fixes) : ∀ (vs : TVariants) (sel : Option Nat) (name : String)
    (src : Option (String × Arr × Nat)), RaisedR af fx (srcPositions src) (readVariantAsA af fx vs sel name src)
  | .nil, _, _, _ => by unfold readVariantAsA; exact NoCtx.raisedR _
  | .cons n k rest, sel, name, src => by
    unfold readVariantAsA
    refine RaisedR.ite _ ?_ ?_
    · exact RaisedR.bind (readKindA_raisedR af fx k src) fun _ _ => RaisedR.of_ok _
    · exact readVariantAsA_raisedR af fx rest _ name src
theorem readVariantAsBytesA_raisedR (af : AnnFixes) (fx : Fixes) : ∀ (vs : TVariants) (s : Bytes),
    RaisedR af fx [] (readVariantAsBytesA af fx vs s)
  | .nil, _ => by unfold readVariantAsBytesA; exact NoCtx.raisedR _
  | .cons n k rest, s => by
    unfold readVariantAsBytesA
    split
    · exact RaisedR.bind (readKindA_raisedR af fx k none) fun _ _ => RaisedR.of_ok _
    · exact readVariantAsBytesA_raisedR af fx rest s
theorem readKindA_raisedR (af : AnnFixes) (fx : Fixes) : ∀ (k : VKind) (src : Option (String × Arr × Nat)),
    RaisedR af fx (srcPositions src) (readKindA af fx k src)
  | .unit, some (cp, child, off) => by
    unfold readKindA; exact scalar_raisedR _ _ _ _ _ _ _ (.as .unit) fun _ h => h
  | .unit, none => by unfold readKindA; exact RaisedR.of_ok _
  | .newtype t, some (cp, child, off) => by unfold readKindA; exact readAsA_raisedR af fx t cp child off
  | .tuple ts, some (cp, child, off) => by
    unfold readKindA
    exact tupleVisitA_raisedR af fx cp _ child off (.as (.tuple ts)) (fun _ h => h)
      fun len v fs _ => readTupleFieldsA_raisedR af fx ts cp fs off
  | .struct tfs, some (cp, child, off) => by
    unfold readKindA
    exact structVisitA_raisedR af fx cp _ tfs child off (.as (.struct tfs)) (fun _ h => h)
      fun slots fm c => readFieldAsA_raisedR af fx tfs 0 slots fm.name _ c off
  | .newtype _, none => by unfold readKindA; exact NoCtx.raisedR _
  | .tuple _, none => by unfold readKindA; exact NoCtx.raisedR _
  | .struct _, none => by unfold readKindA; exact NoCtx.raisedR _
end

end SaModel.Props.C18
