import SaModel.Build.Finish
/-
C18, path assembly (builder half).

`segsDT dt md` walks a schema and lists, in pre-order, every position below (and including) a field of type `dt`
as the list of child names that leads to it, together with the `data_type` label of the builder family
`build_builder` picks there.  The conventions are the ones of the Rust code
(`serialization/outer_sequence_builder.rs::build_builder`, `utils::ChildName`):

  struct child            the raw field name                      (`build_struct`: `{path}.{field_name}`)
  list / large list / fixed size list child   `ChildName(name)`   (empty name ⇒ `<empty>`)
  map key / value         two segments: `ChildName(entries name)`, `ChildName(key / value name)`
  dictionary              `key` / `value`
  union variant           `ChildName(variant name)`

`render root segs` is the `.`-separated concatenation below `root`; `B.positions b` reads the (path, label) pairs
off a builder tree in the same order.  `paths_assembled` (Props/C18.lean) says the two agree for every builder
`newDT` / `newRoot` creates.
-/
namespace SaModel.Props.C18
open SaModel SaModel.Build

/-- a position: (`field`, `data_type`) -/
abbrev Pos := String × String

/-- what a builder at that position annotates (a `BTreeMap`: sorted by key) -/
def posAnn (q : Pos) : List (String × String) := [("data_type", q.2), ("field", q.1)]

/-- `{root}.{s1}.{s2}…` -/
def render (root : String) (segs : List String) : String := segs.foldl (fun p s => p ++ "." ++ s) root

theorem render_nil (root : String) : render root [] = root := rfl
theorem render_cons (root s : String) (segs : List String) : render root (s :: segs) = render (root ++ "." ++ s) segs := rfl
theorem render_append (root : String) (a b : List String) : render root (a ++ b) = render (render root a) b := by
  simp [render, List.foldl_append]

/-- label of the builder family chosen for a data type without children -/
def leafLabel : DataType → Metadata → String
  | .null, md => if strategyOf md == some "UnknownVariant" then "<unknown variant>" else "Null"
  | .boolean, _ => "Boolean"
  | .int8, _ => "Int8" | .int16, _ => "Int16" | .int32, _ => "Int32" | .int64, _ => "Int64"
  | .uint8, _ => "UInt8" | .uint16, _ => "UInt16" | .uint32, _ => "UInt32" | .uint64, _ => "UInt64"
  | .float16, _ => "Float16" | .float32, _ => "Float32" | .float64, _ => "Float64"
  | .date32, _ => "Date32" | .date64, _ => "Date64"
  | .timestamp _ _, _ => "Timestamp(..)"
  | .time32 _, _ => "Time32" | .time64 _, _ => "Time64"
  | .duration _, _ => "Duration(..)"
  | .decimal128 _ _, _ => "Decimal128(..)"
  | .utf8, _ => "Utf8" | .largeUtf8, _ => "LargeUtf8" | .utf8View, _ => "Utf8View"
  | .binary, _ => "Binary" | .largeBinary, _ => "LargeBinary" | .binaryView, _ => "BinaryView"
  | .fixedSizeBinary _, _ => "FixedSizeBinary(..)"
  | .list _, _ => "List" | .largeList _, _ => "LargeList"
  | .fixedSizeList _ _, _ => "FixedSizeList(..)"
  | .map _ _, _ => "Map(..)"
  | .struct _, _ => "Struct(..)"
  | .dictionary _ _, _ => "Dictionary(..)"
  | .union _ _, _ => "Union(..)"
  | .interval _, _ => "Interval"
  | .runEndEncoded _ _, _ => "RunEndEncoded"

/-- prefix every position of a list with one more leading segment -/
def under (seg : List String) (l : List (List String × String)) : List (List String × String) :=
  l.map fun q => (seg ++ q.1, q.2)

mutual
/-- positions of a field of type `dt` (relative: lists of child names), pre-order, with their labels -/
def segsDT : DataType → Metadata → List (List String × String)
  | .list child, md => ([], leafLabel (.list child) md) :: under [childName child.name] (segsF child)
  | .largeList child, md => ([], leafLabel (.largeList child) md) :: under [childName child.name] (segsF child)
  | .fixedSizeList child n, md =>
    ([], leafLabel (.fixedSizeList child n) md) :: under [childName child.name] (segsF child)
  | .map (.mk ename (.struct (.cons kf (.cons vf _))) _ _) _, _ =>
    ([], "Map(..)") :: (under [childName ename, childName kf.name] (segsF kf)
      ++ under [childName ename, childName vf.name] (segsF vf))
  | .struct fs, _ => ([], "Struct(..)") :: segsFs fs
  | .dictionary k v, _ => ([], "Dictionary(..)") :: (under ["key"] (segsDT k []) ++ under ["value"] (segsDT v []))
  | .union fs _, _ => ([], "Union(..)") :: segsU fs
  | dt, md => [([], leafLabel dt md)]
def segsF : Field → List (List String × String)
  | .mk _ dt _ md => segsDT dt md
def segsFs : Fields → List (List String × String)
  | .nil => []
  | .cons f rest => under [f.name] (segsF f) ++ segsFs rest
def segsU : UFields → List (List String × String)
  | .nil => []
  | .cons _ f rest => under [childName f.name] (segsF f) ++ segsU rest
end

/-- the positions of a field of type `dt` whose own path is `root` -/
def positionsAt (root : String) (l : List (List String × String)) : List Pos :=
  l.map fun q => (render root q.1, q.2)

theorem positionsAt_under (root : String) (seg : List String) (l : List (List String × String)) :
    positionsAt root (under seg l) = positionsAt (render root seg) l := by
  simp [positionsAt, under, render_append, Function.comp_def]

theorem positionsAt_append (root : String) (a b : List (List String × String)) :
    positionsAt root (a ++ b) = positionsAt root a ++ positionsAt root b := by
  simp [positionsAt]

theorem positionsAt_cons (root : String) (q : List String × String) (l : List (List String × String)) :
    positionsAt root (q :: l) = (render root q.1, q.2) :: positionsAt root l := rfl

/- the (path, label) pairs of a builder tree, pre-order -/
mutual
def positions : B → List Pos
  | .null p len => [(p, (B.null p len).label)]
  | .unknownVariant p => [(p, (B.unknownVariant p).label)]
  | .leaf p k v vals => [(p, (B.leaf p k v vals).label)]
  | .bytes p ty v o d => [(p, (B.bytes p ty v o d).label)]
  | .bytesView p ty v vs b0 => [(p, (B.bytesView p ty v vs b0).label)]
  | .fixedSizeBinary p n len v buf c => [(p, (B.fixedSizeBinary p n len v buf c).label)]
  | .list p large _ _ _ el => (p, if large then "LargeList" else "List") :: positions el
  | .fixedSizeList p _ _ _ _ _ el => (p, "FixedSizeList(..)") :: positions el
  | .map p _ _ _ ks vs => (p, "Map(..)") :: (positions ks ++ positions vs)
  | .struct p _ _ fs _ _ _ => (p, "Struct(..)") :: positionsL fs
  | .dictionary p idx vals _ => (p, "Dictionary(..)") :: (positions idx ++ positions vals)
  | .union p fs _ _ _ => (p, "Union(..)") :: positionsL fs
def positionsL : BL → List Pos
  | .nil => []
  | .cons b _ rest => positions b ++ positionsL rest
end

/-- the first position of a builder is its own: (path, label) -/
theorem positions_head (b : B) : ∃ rest, positions b = (b.path, b.label) :: rest := by
  cases b <;> simp [positions, B.path, B.label]

theorem self_mem_positions (b : B) : (b.path, b.label) ∈ positions b := by
  obtain ⟨r, h⟩ := positions_head b
  rw [h]; exact List.mem_cons_self

theorem ann_eq_posAnn (b : B) : b.ann = posAnn (b.path, b.label) := rfl

/- positions are part of what `take` leaves behind: they never change while rows are pushed -/
mutual
theorem positions_takeRest : ∀ (b : B), positions (takeRest b) = positions b
  | .null _ _ | .unknownVariant _ | .leaf _ _ _ _ | .bytes _ _ _ _ _ | .bytesView _ _ _ _ _
  | .fixedSizeBinary _ _ _ _ _ _ => by simp [takeRest, positions, B.label]
  | .list _ _ _ _ _ el => by simp [takeRest, positions, positions_takeRest el]
  | .fixedSizeList _ _ _ _ _ _ el => by simp [takeRest, positions, positions_takeRest el]
  | .map _ _ _ _ ks vs => by simp [takeRest, positions, positions_takeRest ks, positions_takeRest vs]
  | .struct _ _ _ fs _ _ _ => by simp [takeRest, positions, positionsL_takeRestAll fs]
  | .dictionary _ idx vals _ => by simp [takeRest, positions, positions_takeRest idx, positions_takeRest vals]
  | .union _ fs _ _ _ => by simp [takeRest, positions, positionsL_takeRestAll fs]
theorem positionsL_takeRestAll : ∀ (fs : BL), positionsL (takeRestAll fs) = positionsL fs
  | .nil => rfl
  | .cons b _ rest => by simp [takeRestAll, positionsL, positions_takeRest b, positionsL_takeRestAll rest]
end

theorem positions_of_takeRest {b b' : B} (h : takeRest b' = takeRest b) : positions b' = positions b := by
  rw [← positions_takeRest b', h, positions_takeRest]

theorem positionsL_of_takeRestAll {fs fs' : BL} (h : takeRestAll fs' = takeRestAll fs) : positionsL fs' = positionsL fs := by
  rw [← positionsL_takeRestAll fs', h, positionsL_takeRestAll]

end SaModel.Props.C18
