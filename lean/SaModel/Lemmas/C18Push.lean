import SaModel.Lemmas.C18PushPlain
/-
C18, builder half: every annotated error `push` returns carries the annotation of a builder of the subtree.
-/
namespace SaModel.Props.C18
open SaModel SaModel.Build

/-- one row of a union: bookkeeping, then the variant's child -/
theorem union_row_within {p fs types offs cur} {i : Nat} {pc : B → R B} (hpc : ∀ c, Within (positions c) (pc c)) :
    Within (positions (.union p fs types offs cur)) (do
      let (c, types', offs', cur') ← serializeVariant fs types offs cur i
      let c' ← pc c
      pure (.union p (fs.set i c') types' offs' cur') : R B) := by
  refine Within.bind (NoCtx.within _) fun r hr => ?_
  obtain ⟨c, t', o', cur'⟩ := r
  obtain ⟨m, co, hget, _⟩ := serializeVariant_ok hr
  refine Within.bind (Within.mono ?_ (hpc c)) fun _ _ => Within.of_ok _
  intro q hq; simp only [positions]; exact tail_sub' _ (get_sub fs i c m hget q hq)

theorem map_sub_k {p mm v offs ks vs} : ∀ q ∈ positions ks ++ positions vs, q ∈ positions (.map p mm v offs ks vs) := by
  intro q hq; simp only [positions]; exact tail_sub' _ hq

set_option linter.unusedSectionVars false
variable (ext : Ext) [ExtPlain ext]

mutual
theorem push_within : ∀ (x : SVal) (b : B), Within (positions b) (push ext b x)
  | .some v, b => by rw [push]; exact push_within v b
  | .newtypeStruct _ v, b => by rw [push]; exact push_within v b
  | .none, b => by rw [push]; exact pushNone_within b
  | .unit, b => by
    unfold push
    split
    · exact within_ann (self_mem_positions _) (NoCtx.within _)
    · exact pushNone_within b
  | .seq xs, b => by
    unfold push
    exact within_ann (self_mem_positions _) (seqLikeWith_within _ _ _ _
      (fun l el o => pushElems_within xs l el o) (fun el c => pushCountElems_within xs el c)
      (fun s => pushTupleElems_within xs s) (fun s s' h => pushTupleElems_takeRest ext xs s s' h) _ b)
  | .tuple xs, b => by
    unfold push
    exact within_ann (self_mem_positions _) (seqLikeWith_within _ _ _ _
      (fun l el o => pushElems_within xs l el o) (fun el c => pushCountElems_within xs el c)
      (fun s => pushTupleElems_within xs s) (fun s s' h => pushTupleElems_takeRest ext xs s s' h) _ b)
  | .tupleStruct _ xs, b => by
    unfold push
    exact within_ann (self_mem_positions _) (seqLikeWith_within _ _ _ _
      (fun l el o => pushElems_within xs l el o) (fun el c => pushCountElems_within xs el c)
      (fun s => pushTupleElems_within xs s) (fun s s' h => pushTupleElems_takeRest ext xs s s' h) _ b)
  | .record _ fs, b => by
    unfold push
    exact within_ann (self_mem_positions _) (recordWith_within _ (fun s => pushFields_within fs s)
      (fun s s' h => pushFields_takeRest ext fs s s' h) b)
  | .map es, b => by
    unfold push
    refine within_ann (self_mem_positions _) ?_
    cases b with
    | struct p len v fs cached next seen =>
      exact record_within (fun s => pushStructEntries ext { s with next := UNKNOWN_KEY } es)
        (fun s => pushStructEntries_within es _)
        (fun s s' h => (pushStructEntries_takeRest ext es _ s' h).trans (SSkel.next s _))
    | map p mm v offs ks vs =>
      exact Within.bind (NoCtx.within _) fun _ _ => Within.bind (NoCtx.within _) fun _ _ =>
        Within.bind (Within.mono map_sub_k (pushMapEntries_within es _ ks vs)) fun _ _ => Within.of_ok _
    | unknownVariant _ => exact NoCtx.within _
    | _ => exact NoCtx.within _
  | .mapRaw ops, b => by
    unfold push
    refine within_ann (self_mem_positions _) ?_
    cases b with
    | struct p len v fs cached next seen =>
      exact record_within (fun s => pushStructOps ext { s with next := UNKNOWN_KEY } ops)
        (fun s => pushStructOps_within ops _)
        (fun s s' h => (pushStructOps_takeRest ext ops _ s' h).trans (SSkel.next s _))
    | map p mm v offs ks vs =>
      exact Within.bind (NoCtx.within _) fun _ _ => Within.bind (NoCtx.within _) fun _ _ =>
        Within.bind (Within.mono map_sub_k (pushMapOps_within ops _ _ ks vs)) fun _ _ => Within.of_ok _
    | unknownVariant _ => exact NoCtx.within _
    | _ => exact NoCtx.within _
  | .unitVariant n i vn, b => by
    unfold push
    refine within_ann (self_mem_positions _) ?_
    cases b with
    | union p fs types offs cur =>
      refine union_row_within (pc := fun c => match c with
        | .unknownVariant _ => ctx c.ann (fail "Unknown variant does not support serialize_unit")
        | _ => pushNone c) fun c => ?_
      split
      · exact within_ann (self_mem_positions _) (NoCtx.within _)
      · exact pushNone_within c
    | _ => exact pushScalar_within ext _ _
  | .newtypeVariant _ i _ v, b => by
    unfold push
    refine within_ann (self_mem_positions _) ?_
    cases b with
    | union p fs types offs cur => exact union_row_within (pc := fun c => push ext c v) fun c => push_within v c
    | bytes _ ty _ _ _ => exact NoCtx.within _
    | bytesView _ ty _ _ _ => exact NoCtx.within _
    | _ => exact NoCtx.within _
  | .tupleVariant _ i _ xs, b => by
    unfold push
    refine within_ann (self_mem_positions _) ?_
    cases b with
    | union p fs types offs cur =>
      exact union_row_within (pc := fun c => ctx c.ann (seqLikeWith (fun large el offs => pushElems ext large el offs xs)
          (fun el c => pushCountElems ext el c xs) (fun s => pushTupleElems ext s xs) (u8All xs) c .tupleStruct))
        fun c => within_ann (self_mem_positions _) (seqLikeWith_within _ _ _ _
          (fun l el o => pushElems_within xs l el o) (fun el c => pushCountElems_within xs el c)
          (fun s => pushTupleElems_within xs s) (fun s s' h => pushTupleElems_takeRest ext xs s s' h) _ c)
    | bytes _ ty _ _ _ => exact NoCtx.within _
    | bytesView _ ty _ _ _ => exact NoCtx.within _
    | _ => exact NoCtx.within _
  | .structVariant _ i _ fields, b => by
    unfold push
    refine within_ann (self_mem_positions _) ?_
    cases b with
    | union p fs types offs cur =>
      exact union_row_within (pc := fun c => ctx c.ann (recordWith (fun s => pushFields ext s fields) c))
        fun c => within_ann (self_mem_positions _) (recordWith_within _ (fun s => pushFields_within fields s)
          (fun s s' h => pushFields_takeRest ext fields s s' h) c)
    | bytes _ ty _ _ _ => exact NoCtx.within _
    | bytesView _ ty _ _ _ => exact NoCtx.within _
    | _ => exact NoCtx.within _
  | .bytes bs, b => by
    unfold push
    refine within_ann (self_mem_positions _) ?_
    cases b with
    | list p large fm v offs el =>
      refine Within.bind (NoCtx.within _) fun _ _ => Within.bind (NoCtx.within _) fun _ _ =>
        Within.bind (Within.mono ?_ (pushByteElems_within ext large bs el _)) fun _ _ => Within.of_ok _
      simp only [positions]; exact tail_sub'
    | _ => exact pushScalar_within ext _ _
  | .bool _, b | .int _ _, b | .f32 _, b | .f64 _, b | .char _, b | .str _, b => by
    unfold push; exact within_ann (self_mem_positions _) (pushScalar_within ext _ _)
  | .unitStruct _, b => by
    unfold push
    split
    · exact within_ann (self_mem_positions _) (NoCtx.within _)
    · exact pushNone_within b
theorem pushElems_within : ∀ (xs : SVals) (large : Bool) (el : B) (offs : List Int),
    Within (positions el) (pushElems ext large el offs xs)
  | .nil, large, el, offs => by rw [pushElems]; exact Within.of_ok _
  | .cons x rest, large, el, offs => by
    rw [pushElems]
    refine Within.bind (NoCtx.within _) fun _ _ => Within.bind (push_within x el) fun el' h' => ?_
    exact positions_of_takeRest (push_takeRest ext x el el' h') ▸ pushElems_within rest large el' _
theorem pushCountElems_within : ∀ (xs : SVals) (el : B) (c : Nat), Within (positions el) (pushCountElems ext el c xs)
  | .nil, el, c => by rw [pushCountElems]; exact Within.of_ok _
  | .cons x rest, el, c => by
    rw [pushCountElems]
    refine Within.bind (push_within x el) fun el' h' => ?_
    exact positions_of_takeRest (push_takeRest ext x el el' h') ▸ pushCountElems_within rest el' _
theorem pushTupleElems_within : ∀ (xs : SVals) (s : SS), Within (ssPos s) (pushTupleElems ext s xs)
  | .nil, s => by rw [pushTupleElems]; exact Within.of_ok _
  | .cons x rest, s => by
    rw [pushTupleElems]
    split
    · refine Within.bind (element_within s _ _ fun c => push_within x c) fun s1 h1 => ?_
      exact ssPos_of_skel (SS.element_skel (fun c c' hc => push_takeRest ext x c c' hc) h1) ▸ pushTupleElems_within rest s1
    · exact pushTupleElems_within rest s
theorem pushFields_within : ∀ (fs : SFields) (s : SS), Within (ssPos s) (pushFields ext s fs)
  | .nil, s => by rw [pushFields]; exact Within.of_ok _
  | .cons key al x rest, s => by
    rw [pushFields]
    split
    · rename_i cached' heq
      exact pushFields_within rest { s with cached := cached' }
    · rename_i idx cached' heq
      refine Within.bind (element_within { s with cached := cached' } _ _ fun c => push_within x c) fun s1 h1 => ?_
      have e := ssPos_of_skel (SS.element_skel (fun c c' hc => push_takeRest ext x c c' hc) h1)
      exact (show ssPos s1 = ssPos s from e) ▸ pushFields_within rest s1
theorem pushStructEntries_within : ∀ (es : SEntries) (s : SS), Within (ssPos s) (pushStructEntries ext s es)
  | .nil, s => by rw [pushStructEntries]; exact Within.of_ok _
  | .cons k x rest, s => by
    rw [pushStructEntries]
    refine Within.bind (NoCtx.within _) fun key _ => ?_
    split
    · exact pushStructEntries_within rest { s with next := UNKNOWN_KEY }
    · refine Within.bind (element_within s _ _ fun c => push_within x c) fun s1 h1 => ?_
      have e := ssPos_of_skel (SS.element_skel (fun c c' hc => push_takeRest ext x c c' hc) h1)
      exact (show ssPos { s1 with next := UNKNOWN_KEY } = ssPos s from e) ▸
        pushStructEntries_within rest { s1 with next := UNKNOWN_KEY }
theorem pushStructOps_within : ∀ (ops : SMapOps) (s : SS), Within (ssPos s) (pushStructOps ext s ops)
  | .nil, s => by rw [pushStructOps]; exact Within.of_ok _
  | .key k rest, s => by
    rw [pushStructOps]
    exact Within.bind (NoCtx.within _) fun key _ => pushStructOps_within rest { s with next := _ }
  | .value x rest, s => by
    rw [pushStructOps]
    split
    · refine Within.bind (element_within s _ _ fun c => push_within x c) fun s1 h1 => ?_
      have e := ssPos_of_skel (SS.element_skel (fun c c' hc => push_takeRest ext x c c' hc) h1)
      exact (show ssPos { s1 with next := UNKNOWN_KEY } = ssPos s from e) ▸
        pushStructOps_within rest { s1 with next := UNKNOWN_KEY }
    · exact pushStructOps_within rest { s with next := UNKNOWN_KEY }
theorem pushMapEntries_within : ∀ (es : SEntries) (offs : List Int) (ks vs : B),
    Within (positions ks ++ positions vs) (pushMapEntries ext offs ks vs es)
  | .nil, offs, ks, vs => by rw [pushMapEntries]; exact Within.of_ok _
  | .cons k x rest, offs, ks, vs => by
    rw [pushMapEntries]
    refine Within.bind (NoCtx.within _) fun _ _ =>
      Within.bind (Within.mono (fun q hq => List.mem_append_left _ hq) (push_within k ks)) fun ks' hk =>
      Within.bind (Within.mono (fun q hq => List.mem_append_right _ hq) (push_within x vs)) fun vs' hv => ?_
    have e1 := positions_of_takeRest (push_takeRest ext k ks ks' hk)
    have e2 := positions_of_takeRest (push_takeRest ext x vs vs' hv)
    exact e1 ▸ e2 ▸ pushMapEntries_within rest _ ks' vs'
theorem pushMapOps_within : ∀ (ops : SMapOps) (pd : Bool) (offs : List Int) (ks vs : B),
    Within (positions ks ++ positions vs) (pushMapOps ext pd offs ks vs ops)
  | .nil, pd, offs, ks, vs => by
    rw [pushMapOps]; exact Within.ite _ (NoCtx.within _) (Within.of_ok _)
  | .key k rest, pd, offs, ks, vs => by
    rw [pushMapOps]
    refine Within.ite _ (NoCtx.within _) ?_
    refine Within.bind (NoCtx.within _) fun _ _ =>
      Within.bind (Within.mono (fun q hq => List.mem_append_left _ hq) (push_within k ks)) fun ks' hk => ?_
    exact positions_of_takeRest (push_takeRest ext k ks ks' hk) ▸ pushMapOps_within rest _ _ ks' vs
  | .value x rest, pd, offs, ks, vs => by
    rw [pushMapOps]
    refine Within.ite _ (NoCtx.within _) ?_
    refine Within.bind (Within.mono (fun q hq => List.mem_append_right _ hq) (push_within x vs)) fun vs' hv => ?_
    exact positions_of_takeRest (push_takeRest ext x vs vs' hv) ▸ pushMapOps_within rest _ _ ks vs'
end

end SaModel.Props.C18
