import SaModel.Lemmas.C18Within
import SaModel.Lemmas.C10TakePush
/-
C18, builder half: the non-recursive parts of `push`.  Which annotation can an error carry?
-/
namespace SaModel.Props.C18
open SaModel SaModel.Build

/-- the external functions (chrono / decimal / float parsers and formatters of other crates) return plain
errors: they know nothing about serde_arrow's annotations -/
class ExtPlain (ext : Ext) : Prop where
  parseDate : ∀ b s, NoCtx (ext.parseDate b s)
  parseTime : ∀ u s, NoCtx (ext.parseTime u s)
  parseTimestamp : ∀ u b s, NoCtx (ext.parseTimestamp u b s)
  parseDuration : ∀ u s, NoCtx (ext.parseDuration u s)
  parseDecimal : ∀ p s t, NoCtx (ext.parseDecimal p s t)
  floatToDecimal : ∀ p s b x, NoCtx (ext.floatToDecimal p s b x)

instance : ExtPlain {} := ⟨fun _ _ => inferInstance, fun _ _ => inferInstance, fun _ _ _ => inferInstance,
  fun _ _ => inferInstance, fun _ _ _ => inferInstance, fun _ _ _ _ => inferInstance⟩

section
variable (ext : Ext) [h : ExtPlain ext]
instance (b s) : NoCtx (ext.parseDate b s) := h.parseDate b s
instance (u s) : NoCtx (ext.parseTime u s) := h.parseTime u s
instance (u b s) : NoCtx (ext.parseTimestamp u b s) := h.parseTimestamp u b s
instance (u s) : NoCtx (ext.parseDuration u s) := h.parseDuration u s
instance (p s t) : NoCtx (ext.parseDecimal p s t) := h.parseDecimal p s t
instance (p s b x) : NoCtx (ext.floatToDecimal p s b x) := h.floatToDecimal p s b x
end

instance (v : Validity) (idx : Nat) (value : Bool) : NoCtx (setValidity v idx value) := by unfold setValidity; noctx
instance (offs : List Int) : NoCtx (duplicateLast offs) := by unfold duplicateLast; noctx
instance (c l : Bool) (offs : List Int) (inc : Nat) : NoCtx (incrementLast c l offs inc) := by unfold incrementLast; noctx
instance (t : IntTy) (v : Int) : NoCtx (tryInto t v) := by unfold tryInto; noctx
instance {α} (w : String) : NoCtx (notSupported w : R α) := by unfold notSupported; noctx

instance iter_noctx {α} (f : α → R α) [∀ a, NoCtx (f a)] : ∀ (k : Nat) (a : α), NoCtx (iter k f a)
  | 0, a => by unfold iter; noctx
  | k + 1, a => by
    have := fun a' => iter_noctx f k a'
    unfold iter; noctx

instance (ext : Ext) [ExtPlain ext] (k : LeafKind) (x : SVal) : NoCtx (convLeaf ext k x) := by unfold convLeaf; noctx

instance u8Of_noctx : ∀ (x : SVal), NoCtx (u8Of x)
  | .some v => by have := u8Of_noctx v; unfold u8Of; noctx
  | .newtypeStruct _ v => by have := u8Of_noctx v; unfold u8Of; noctx
  | .int _ _ => by unfold u8Of; noctx
  | .none | .unit | .bool _ | .f32 _ | .f64 _ | .char _ | .str _ | .bytes _ | .seq _ | .tuple _ | .tupleStruct _ _
  | .record _ _ | .map _ | .mapRaw _ | .unitStruct _ | .unitVariant _ _ _ | .newtypeVariant _ _ _ _
  | .tupleVariant _ _ _ _ | .structVariant _ _ _ _ => by unfold u8Of; noctx

instance u8All_noctx : ∀ (xs : SVals), NoCtx (u8All xs)
  | .nil => by unfold u8All; noctx
  | .cons v r => by have := u8All_noctx r; unfold u8All; noctx

instance keyStr_noctx : ∀ (x : SVal), NoCtx (keyStr x)
  | .some v => by have := keyStr_noctx v; unfold keyStr; noctx
  | .newtypeStruct _ v => by have := keyStr_noctx v; unfold keyStr; noctx
  | .str _ => by unfold keyStr; noctx
  | .none | .unit | .bool _ | .f32 _ | .f64 _ | .char _ | .int _ _ | .bytes _ | .seq _ | .tuple _ | .tupleStruct _ _
  | .record _ _ | .map _ | .mapRaw _ | .unitStruct _ | .unitVariant _ _ _ | .newtypeVariant _ _ _ _
  | .tupleVariant _ _ _ _ | .structVariant _ _ _ _ => by unfold keyStr; noctx

instance (fs : BL) (types offs cur : List Int) (idx : Nat) : NoCtx (serializeVariant fs types offs cur idx) := by
  unfold serializeVariant; noctx

instance (s : SS) : NoCtx s.start := by unfold SS.start; noctx

instance (views : List Nat) (buf value : Bytes) : NoCtx (viewPushValue views buf value) := by
  unfold viewPushValue; noctx

instance (views : List Nat) (buf bytes : Bytes) : NoCtx (viewSeq views buf bytes) := by
  unfold viewSeq; noctx

/-- the scalar calls of every builder but the dictionary builder never annotate by themselves (the wrapper in `push`
does); a dictionary builder forwards the string to its value builder and the index to its key builder through THEIR
wrapped calls (`pushScalar_within` below) -/
theorem pushScalar_noctx (ext : Ext) [ExtPlain ext] : ∀ (b : B) (x : SVal), b.isDict = false → NoCtx (pushScalar ext b x)
  | .dictionary p idx vals index, x, h => by simp [B.isDict] at h
  | .null _ _, x, _ | .unknownVariant _, x, _ | .leaf _ _ _ _, x, _ | .bytes _ _ _ _ _, x, _ | .bytesView _ _ _ _ _, x, _
  | .fixedSizeBinary _ _ _ _ _ _, x, _ | .list _ _ _ _ _ _, x, _ | .fixedSizeList _ _ _ _ _ _ _, x, _ | .map _ _ _ _ _ _, x, _
  | .struct _ _ _ _ _ _ _, x, _ | .union _ _ _ _ _, x, _ => by unfold pushScalar; noctx

/-! ### positions of a struct state -/

def ssPos (s : SS) : List Pos := (s.path, "Struct(..)") :: positionsL s.fields

theorem ssPos_toB (s : SS) : positions s.toB = ssPos s := by simp [SS.toB, positions, ssPos]

theorem ssPos_of_skel {s' s : SS} (h : SSkel s' s) : ssPos s' = ssPos s := by
  unfold ssPos; rw [h.1, positionsL_of_takeRestAll h.2.2.1]

theorem get_sub : ∀ (fs : BL) (i : Nat) (c : B) (m : FieldMeta), fs.get? i = some (c, m) →
    ∀ q ∈ positions c, q ∈ positionsL fs
  | .nil, _, _, _, h => by simp [BL.get?] at h
  | .cons b m' r, 0, c, m, h => by
    simp only [BL.get?, Option.some.injEq, Prod.mk.injEq] at h
    obtain ⟨rfl, rfl⟩ := h
    intro q hq; simp only [positionsL, List.mem_append]; exact .inl hq
  | .cons b m' r, k + 1, c, m, h => by
    simp only [BL.get?] at h
    intro q hq; simp only [positionsL, List.mem_append]; exact .inr (get_sub r k c m h q hq)

theorem tail_sub' {q0 : Pos} {l : List Pos} : ∀ q ∈ l, q ∈ q0 :: l := fun _ h => List.mem_cons_of_mem _ h

theorem within_ann {α} {b : B} {S : List Pos} {r : R α} (hb : (b.path, b.label) ∈ S) (h : Within S r) :
    Within S (SaModel.ctx b.ann r) := by
  rw [ann_eq_posAnn]; exact Within.ctx _ hb h

/-- every annotated error of a scalar call carries the annotation of a builder of the subtree: none for the builders
without children; the key / value child (or, for a nested dictionary, a builder below it) for a dictionary builder -/
theorem pushScalar_within (ext : Ext) [ExtPlain ext] : ∀ (b : B) (x : SVal), Within (positions b) (pushScalar ext b x)
  | .dictionary p idx vals index, x => by
    have hk : ∀ y, Within (positions (.dictionary p idx vals index)) (SaModel.ctx idx.ann (pushScalar ext idx y)) := fun y =>
      Within.mono (by intro q hq; simp only [positions, List.mem_cons, List.mem_append]; exact .inr (.inl hq))
        (within_ann (self_mem_positions _) (pushScalar_within ext idx y))
    have hv : ∀ y, Within (positions (.dictionary p idx vals index)) (SaModel.ctx vals.ann (pushScalar ext vals y)) := fun y =>
      Within.mono (by intro q hq; simp only [positions, List.mem_cons, List.mem_append]; exact .inr (.inr hq))
        (within_ann (self_mem_positions _) (pushScalar_within ext vals y))
    unfold pushScalar; dsimp only
    split
    · split
      · exact Within.bind (hk _) fun _ _ => Within.of_ok _
      · exact Within.bind (hv _) fun _ _ => Within.bind (hk _) fun _ _ => Within.of_ok _
    · exact NoCtx.within _
  | .null _ _, x | .unknownVariant _, x | .leaf _ _ _ _, x | .bytes _ _ _ _ _, x | .bytesView _ _ _ _ _, x
  | .fixedSizeBinary _ _ _ _ _ _, x | .list _ _ _ _ _ _, x | .fixedSizeList _ _ _ _ _ _ _, x | .map _ _ _ _ _ _, x
  | .struct _ _ _ _ _ _ _, x | .union _ _ _ _ _, x => by
    exact @NoCtx.within _ _ _ (pushScalar_noctx ext _ x rfl)

/-! ### serialize_default / serialize_none -/

mutual
theorem pushDefaultK_within : ∀ (b : B) (k : Nat), Within (positions b) (pushDefaultK b k)
  | .null _ _, k => by unfold pushDefaultK; exact Within.of_ok _
  | .unknownVariant _, k => by
    unfold pushDefaultK; split
    · exact Within.of_ok _
    · exact within_ann (self_mem_positions _) (NoCtx.within _)
  | .leaf _ _ _ _, k => by unfold pushDefaultK; exact NoCtx.within _
  | .bytes _ _ _ _ _, k => by unfold pushDefaultK; exact within_ann (self_mem_positions _) (NoCtx.within _)
  | .bytesView _ _ _ _ _, k => by unfold pushDefaultK; exact NoCtx.within _
  | .fixedSizeBinary _ _ _ _ _ _, k => by unfold pushDefaultK; exact NoCtx.within _
  | .list _ _ _ _ _ _, k => by unfold pushDefaultK; exact within_ann (self_mem_positions _) (NoCtx.within _)
  | .map _ _ _ _ _ _, k => by unfold pushDefaultK; exact within_ann (self_mem_positions _) (NoCtx.within _)
  | .fixedSizeList p fm n len v cur el, k => by
    unfold pushDefaultK
    refine within_ann (self_mem_positions _) (Within.bind (NoCtx.within _) fun _ _ =>
      Within.bind (Within.mono ?_ (pushDefaultK_within el (k * n))) fun _ _ => Within.of_ok _)
    simp only [positions]; exact tail_sub'
  | .struct p len v fs cached next seen, k => by
    unfold pushDefaultK
    refine within_ann (self_mem_positions _) (Within.bind (NoCtx.within _) fun _ _ =>
      Within.bind (Within.mono ?_ (pushDefaultKAll_within fs k)) fun _ _ => Within.of_ok _)
    simp only [positions]; exact tail_sub'
  | .dictionary p idx vals index, k => by
    unfold pushDefaultK
    refine within_ann (self_mem_positions _) (Within.bind (Within.mono ?_ (pushDefaultK_within idx k)) fun _ _ => Within.of_ok _)
    intro q hq; simp only [positions, List.mem_cons, List.mem_append]; exact .inr (.inl hq)
  | .union p .nil types offs cur, k => by
    unfold pushDefaultK
    exact within_ann (self_mem_positions _) (NoCtx.within _)
  | .union p (.cons c m rest) types offs cur, k => by
    unfold pushDefaultK
    refine within_ann (self_mem_positions _) ?_
    refine Within.ite _ (NoCtx.within _) ?_
    refine Within.ite _ (NoCtx.within _) ?_
    refine Within.bind (Within.mono ?_ (pushDefaultKAt_within (.cons c m rest) _ k)) fun _ _ =>
      Within.ite _ (NoCtx.within _) (Within.of_ok _)
    simp only [positions]; exact tail_sub'
theorem pushDefaultKAll_within : ∀ (fs : BL) (k : Nat), Within (positionsL fs) (pushDefaultKAll fs k)
  | .nil, k => by unfold pushDefaultKAll; exact Within.of_ok _
  | .cons b m rest, k => by
    unfold pushDefaultKAll
    refine Within.bind (Within.mono ?_ (pushDefaultK_within b k)) fun _ _ =>
      Within.bind (Within.mono ?_ (pushDefaultKAll_within rest k)) fun _ _ => Within.of_ok _
    · intro q hq; simp only [positionsL, List.mem_append]; exact .inl hq
    · intro q hq; simp only [positionsL, List.mem_append]; exact .inr hq
theorem pushDefaultKAt_within : ∀ (fs : BL) (j k : Nat), Within (positionsL fs) (pushDefaultKAt fs j k)
  | .nil, _, _ => by unfold pushDefaultKAt; exact Within.of_ok _
  | .cons b m rest, 0, k => by
    unfold pushDefaultKAt
    refine Within.bind (Within.mono ?_ (pushDefaultK_within b k)) fun _ _ => Within.of_ok _
    intro q hq; simp only [positionsL, List.mem_append]; exact .inl hq
  | .cons b m rest, j + 1, k => by
    unfold pushDefaultKAt
    refine Within.bind (Within.mono ?_ (pushDefaultKAt_within rest j k)) fun _ _ => Within.of_ok _
    intro q hq; simp only [positionsL, List.mem_append]; exact .inr hq
end

theorem pushNone_within : ∀ (b : B), Within (positions b) (pushNone b)
  | .null _ _ => by unfold pushNone; exact Within.of_ok _
  | .unknownVariant _ | .leaf _ _ _ _ | .bytes _ _ _ _ _ | .bytesView _ _ _ _ _ | .fixedSizeBinary _ _ _ _ _ _
  | .list _ _ _ _ _ _ | .map _ _ _ _ _ _ | .union _ _ _ _ _ => by
    unfold pushNone; exact within_ann (self_mem_positions _) (NoCtx.within _)
  | .fixedSizeList p fm n len v cur el => by
    unfold pushNone
    refine within_ann (self_mem_positions _) (Within.bind (NoCtx.within _) fun _ _ =>
      Within.bind (Within.mono ?_ (pushDefaultK_within el n)) fun _ _ => Within.of_ok _)
    simp only [positions]; exact tail_sub'
  | .struct p len v fs cached next seen => by
    unfold pushNone
    refine within_ann (self_mem_positions _) (Within.bind (NoCtx.within _) fun _ _ =>
      Within.bind (Within.mono ?_ (pushDefaultKAll_within fs 1)) fun _ _ => Within.of_ok _)
    simp only [positions]; exact tail_sub'
  | .dictionary p idx vals index => by
    unfold pushNone
    refine within_ann (self_mem_positions _) (Within.ite _ (NoCtx.within _) (Within.bind (within_ann (self_mem_positions _)
      (Within.mono ?_ (pushNone_within idx))) fun _ _ => Within.of_ok _))
    intro q hq; simp only [positions, List.mem_cons, List.mem_append]; exact .inr (.inl hq)

/-! ### struct rows -/

theorem endFields_within : ∀ (fs : BL) (seen : List Bool), Within (positionsL fs) (endFields fs seen)
  | .nil, _ => by unfold endFields; exact Within.of_ok _
  | .cons b m rest, [] => by unfold endFields; exact NoCtx.within _
  | .cons b m rest, s :: sr => by
    unfold endFields
    have hr : Within (positionsL (.cons b m rest)) (endFields rest sr) :=
      Within.mono (by intro q hq; simp only [positionsL, List.mem_append]; exact .inr hq) (endFields_within rest sr)
    simp only
    split
    · exact Within.bind hr fun _ _ => Within.of_ok _
    · split
      · exact NoCtx.within _
      · refine Within.bind (Within.mono ?_ (pushNone_within b)) fun _ _ => Within.bind hr fun _ _ => Within.of_ok _
        intro q hq; simp only [positionsL, List.mem_append]; exact .inl hq

theorem finishRow_within (s : SS) : Within (ssPos s) s.finishRow := by
  unfold SS.finishRow
  exact Within.bind (Within.mono tail_sub' (endFields_within _ _)) fun _ _ => Within.of_ok _

theorem element_within (s : SS) (idx : Nat) (pc : B → R B) (hpc : ∀ c, Within (positions c) (pc c)) :
    Within (ssPos s) (s.element idx pc) := by
  unfold SS.element
  split
  · exact NoCtx.within _
  · exact Within.ctx (s.path, "Struct(..)") (by simp [ssPos]) (NoCtx.within _)
  · split
    · exact NoCtx.within _
    · rename_i c m hget
      refine Within.bind (Within.mono ?_ (hpc c)) fun _ _ => Within.of_ok _
      intro q hq; exact tail_sub' _ (get_sub _ _ c m hget q hq)

/-- `serialize_struct` / positional records on any builder -/
theorem record_within {p len v fs cached next seen} (pf : SS → R SS) (hpf : ∀ s, Within (ssPos s) (pf s))
    (hsk : ∀ s s', pf s = .ok s' → SSkel s' s) :
    Within (positions (.struct p len v fs cached next seen)) (do
      let s ← SS.start ⟨p, len, v, fs, cached, next, seen⟩
      let s ← pf s
      let s ← s.finishRow
      pure s.toB : R B) := by
  have e0 : positions (.struct p len v fs cached next seen) = ssPos ⟨p, len, v, fs, cached, next, seen⟩ := by
    simp [positions, ssPos]
  rw [e0]
  refine Within.bind (NoCtx.within _) fun s1 h1 => ?_
  have e1 := ssPos_of_skel (SS.start_skel h1)
  refine Within.bind (e1 ▸ hpf s1) fun s2 h2 => ?_
  have e2 := ssPos_of_skel (hsk s1 s2 h2)
  exact Within.bind (e1 ▸ e2 ▸ finishRow_within s2) fun _ _ => Within.of_ok _

theorem recordWith_within (pf : SS → R SS) (hpf : ∀ s, Within (ssPos s) (pf s))
    (hsk : ∀ s s', pf s = .ok s' → SSkel s' s) : ∀ (b : B), Within (positions b) (recordWith pf b)
  | .struct p len v fs cached next seen => by unfold recordWith; exact record_within pf hpf hsk
  | .unknownVariant _ => by unfold recordWith; exact NoCtx.within _
  | .null _ _ | .leaf _ _ _ _ | .bytes _ _ _ _ _ | .bytesView _ _ _ _ _ | .fixedSizeBinary _ _ _ _ _ _
  | .list _ _ _ _ _ _ | .fixedSizeList _ _ _ _ _ _ _ | .map _ _ _ _ _ _ | .dictionary _ _ _ _ | .union _ _ _ _ _ => by
    unfold recordWith; exact NoCtx.within _

theorem seqLikeWith_within (pe : Bool → B → List Int → R (B × List Int)) (pc : B → Nat → R (B × Nat))
    (pt : SS → R SS) (bytes : R Bytes) [NoCtx bytes]
    (hpe : ∀ l el o, Within (positions el) (pe l el o)) (hpc : ∀ el c, Within (positions el) (pc el c))
    (hpt : ∀ s, Within (ssPos s) (pt s)) (hsk : ∀ s s', pt s = .ok s' → SSkel s' s) (k : SeqKind) :
    ∀ (b : B), Within (positions b) (seqLikeWith pe pc pt bytes b k)
  | .list p large fm v offs el => by
    unfold seqLikeWith
    refine Within.bind (NoCtx.within _) fun _ _ => Within.bind (NoCtx.within _) fun _ _ =>
      Within.bind (Within.mono ?_ (hpe _ el _)) fun _ _ => Within.of_ok _
    simp only [positions]; exact tail_sub'
  | .fixedSizeList p fm n len v cur el => by
    unfold seqLikeWith
    refine Within.bind (NoCtx.within _) fun _ _ => Within.bind (Within.mono ?_ (hpc el 0)) fun r _ => ?_
    · simp only [positions]; exact tail_sub'
    · exact NoCtx.within _
  | .bytes _ _ _ _ _ => by unfold seqLikeWith; exact NoCtx.within _
  | .bytesView _ _ _ _ _ => by unfold seqLikeWith; exact NoCtx.within _
  | .fixedSizeBinary _ _ _ _ _ _ => by unfold seqLikeWith; exact NoCtx.within _
  | .struct p len v fs cached next seen => by
    unfold seqLikeWith
    cases k
    · exact NoCtx.within _
    · exact record_within pt hpt hsk
    · exact record_within pt hpt hsk
  | .unknownVariant _ => by unfold seqLikeWith; exact NoCtx.within _
  | .null _ _ | .leaf _ _ _ _ | .map _ _ _ _ _ _ | .dictionary _ _ _ _ | .union _ _ _ _ _ => by
    unfold seqLikeWith; exact NoCtx.within _

theorem pushByteElems_within (ext : Ext) [ExtPlain ext] (large : Bool) : ∀ (bs : Bytes) (el : B) (offs : List Int),
    Within (positions el) (pushByteElems ext large el offs bs)
  | [], el, offs => by unfold pushByteElems; exact Within.of_ok _
  | x :: rest, el, offs => by
    unfold pushByteElems
    refine Within.bind (NoCtx.within _) fun _ _ =>
      Within.bind (within_ann (self_mem_positions _) (pushScalar_within ext el _)) fun el' h' => ?_
    have e := positions_of_takeRest (pushScalar_takeRest ext el _ el' ((ctx_ok _ _ _).1 h'))
    exact e ▸ pushByteElems_within ext large rest el' _

end SaModel.Props.C18
